import RaptorModel.Driver.Common
import RaptorModel.Model.Stencil
import RaptorModel.Model.MatrixMarket
/-! Driver for C19: generated stencil matrices vs the coordinate definition; matrices read back from
Matrix Market / PETSc files vs their source. -/
namespace Raptor.Driver.C19
open Raptor Raptor.Driver Raptor.Stencil

def rdFVec : Rd (List Float) := do let v ← rdVec; return v.map bitsToFloat

def trips : List Int → List (Nat × Nat × Float)
  | i :: j :: v :: rest => ((if i < 0 then 1000000007 else i.toNat), (if j < 0 then 1000000007 else j.toNat), bitsToFloat v) :: trips rest
  | _ => []

def canon (es : List (Nat × Nat × Float)) : List (Nat × Nat × Float) :=
  let sorted := es.toArray.qsort (fun a b => a.1 < b.1 || (a.1 == b.1 && a.2.1 < b.2.1)) |>.toList
  -- duplicates summed
  (sorted.foldl (fun (acc : List (Nat × Nat × Float)) e =>
    match acc with
    | (i, j, s) :: tl => if i == e.1 && j == e.2.1 then (i, j, s + e.2.2) :: tl else e :: acc
    | [] => [e]) []).reverse

def checkStencil : Rd Verdict := do
  let np ← rdNat; let grid ← rdNatVec; let st ← rdFVec; let ents ← rdVec; let gr ← rdNat; let gc ← rdNat
  let n := numPoints grid
  let base := s!"C19/stencil/dim{grid.length}/{if np == 0 then "seq" else "par"}"
  let cubic := grid.all (· == grid.headD 1)
  let feats := ["stencil", s!"dim{grid.length}", if np == 0 then "seq" else s!"np{np}", if cubic then "cubic" else "noncubic"] ++
               (if n ≤ 1 then ["trivial"] else [])
  if gr != n || gc != n then return specFail (base ++ "/spec/dims") s!"{gr}x{gc}, grid has {n} points" feats
  let want := canon (matrix (fun (w : Float) => w.abs ≤ 1e-16) grid st)
  let got := canon ((trips ents).filter fun e => e.2.2 != 0)
  if want != got then
    let missing := want.filter fun e => !got.contains e
    let extra := got.filter fun e => !want.contains e
    return specFail (base ++ (if cubic then "/spec/entries" else "/spec/entries/noncubic"))
      s!"grid={showList grid}: {missing.length} entries missing or different (first {repr (missing.take 3)}), {extra.length} unexpected (first {repr (extra.take 3)})" feats
  return ok feats

def whoName : Nat → String
  | 1 => "read_mm(write_mm)" | 2 => "read_par_mm(write_mm)" | 3 => "read_mm(write_par_mm)"
  | 4 => "read_mm(symmetric_header)" | 5 => "read_par_mm(symmetric_header)"
  | 6 => "readMatrix(petsc)" | 7 => "readParMatrix(petsc,default)" | _ => "readParMatrix(petsc,explicit)"

def checkMatEq : Rd Verdict := do
  let who ← rdNat; let symm ← rdNat; let n ← rdNat; let m ← rdNat
  let expect ← rdVec; let got ← rdVec; let gr ← rdInt; let gc ← rdInt
  let base := s!"C19/io/{whoName who}"
  let e := canon (trips expect); let g := canon ((trips got).filter fun x => x.2.2 != 0)
  let feats := ["io", whoName who, if symm != 0 then "symmetric" else "general", if n == m then "square" else "rect"] ++
               (if e.isEmpty then ["trivial"] else [])
  if gr != (n : Int) || gc != (m : Int) then return specFail (base ++ "/spec/dims") s!"{gr}x{gc}, expected {n}x{m}" feats
  -- printed precision: 16 significant digits (bitwise for the binary format)
  let tol : Float := if who ≥ 6 then 0 else 4e-15
  if e.length != g.length then
    return specFail (base ++ "/spec/pattern") s!"{g.length} entries read, {e.length} written; first read {repr (g.take 4)}, first written {repr (e.take 4)}" feats
  for (a, b) in e.zip g do
    if a.1 != b.1 || a.2.1 != b.2.1 then return specFail (base ++ "/spec/pattern") s!"read ({b.1},{b.2.1}), written ({a.1},{a.2.1})" feats
    if !((a.2.2 - b.2.2).abs ≤ tol * a.2.2.abs) then return specFail (base ++ "/spec/value") s!"({a.1},{a.2.1}): written {a.2.2}, read {b.2.2}" feats
  return ok feats

/-- Matrix Market files: the writer model applied to the source gives the file; the reader model applied to the file
    gives what the real reader returned (values as parsed bit patterns) -/
def checkMmFile : Rd Verdict := do
  let who ← rdNat; let okf ← rdNat; let sy ← rdNat; let M ← rdNat; let N ← rdNat; let nz ← rdNat
  let ln ← rdVec; let n ← rdNat; let m ← rdNat; let src ← rdVec; let got ← rdVec; let gr ← rdInt; let gc ← rdInt
  let base := s!"C19/mmfile/{whoName who}"
  let feats := ["mmfile", whoName who, if sy != 0 then "symmetric" else "general"] ++ (if ln.isEmpty then ["trivial"] else [])
  if okf == 0 then return specFail (base ++ "/spec/unreadable") "no size line" feats
  let rec lines3 : List Int → List (Nat × Nat × Int)
    | i :: j :: v :: rest => (i.toNat, j.toNat, v) :: lines3 rest
    | _ => []
  let file : MatrixMarket.MMFile Int := { symmetric := sy != 0, nRows := M, nCols := N, nnzDeclared := nz, lines := lines3 ln }
  if !file.WF then return specFail (base ++ "/spec/file_malformed") s!"{M}x{N} nnz={nz}, {file.lines.length} lines" feats
  if M != n || N != m then return specFail (base ++ "/spec/size_line") s!"file says {M}x{N}, matrix is {n}x{m}" feats
  -- writer: the file is the model's image of the source matrix (general files written by write_mm)
  if who == 1 then
    let srcRows : List (List (Nat × Int)) := (List.range n).map fun i => (lines3 src).filterMap fun e => if e.1 == i then some (e.2.1, e.2.2) else none
    let w := MatrixMarket.writeMM (⟨n, m, srcRows⟩ : Sparse.Csr Int)
    -- values travel through printf("%2.15e") and back: compare indices exactly, values to printed precision
    let same := w.lines.length == file.lines.length && (w.lines.zip file.lines).all fun p =>
      p.1.1 == p.2.1 && p.1.2.1 == p.2.2.1 &&
      (let a := bitsToFloat p.1.2.2; let b := bitsToFloat p.2.2.2; (a - b).abs ≤ 4e-15 * a.abs)
    if !same || w.nnzDeclared != file.nnzDeclared || w.symmetric != file.symmetric then
      return diff (base ++ "/writer") s!"file has {file.lines.length} lines (declared {file.nnzDeclared}), model writes {w.lines.length}" feats
  -- reader: model on the file = what read_mm returned (bitwise: same parser results)
  let mr := (MatrixMarket.readMM file).entries
  let gotE := lines3 got
  let srt (l : List (Nat × Nat × Int)) := l.toArray.qsort (fun a b => a.1 < b.1 || (a.1 == b.1 && (a.2.1 < b.2.1 || (a.2.1 == b.2.1 && a.2.2 < b.2.2)))) |>.toList
  if gr != (M : Int) || gc != (N : Int) then return specFail (base ++ "/spec/dims") s!"{gr}x{gc}" feats
  if srt mr != srt gotE then
    return diff (base ++ "/reader") s!"model reads {mr.length} entries, implementation {gotE.length}; first model {repr ((srt mr).take 3)} first impl {repr ((srt gotE).take 3)}" feats
  return ok feats

def run (op : String) (a : Array Int) : Verdict :=
  let r := match op with
    | "stencil" => runRd checkStencil a
    | "mateq" => runRd checkMatEq a
    | "mmfile" => runRd checkMmFile a
    | _ => some (badCase s!"unknown op {op}")
  r.getD (badCase "malformed")

end Raptor.Driver.C19
