import RaptorModel.Driver.Common
import RaptorModel.Model.Comm
/-! Driver for C03: package arrays vs the model, forward / reverse / conditional / sparse-row
exchanges vs the message-level model and the specification. -/
namespace Raptor.Driver.C03
open Raptor Raptor.Driver Raptor.Comm

structure Hdr where
  np : Nat
  fc : List Nat
  off : List (List Nat)

def rdHdr : Rd Hdr := do
  let np ← rdNat; let fc ← rdNatVec
  let off ← (List.range np).mapM fun _ => rdNatVec
  return { np, fc, off }

def tapName (tap : Nat) : String := if tap == 2 then "tap2" else if tap != 0 then "tap" else "std"

def rdPer (np : Nat) : Rd (List (List Int)) := (List.range np).mapM fun _ => rdVec

def hdrFeats (h : Hdr) : List String :=
  [s!"np{h.np}", if (h.fc.zip (h.fc.drop 1)).any (fun p => p.1 == p.2) then "emptyrank" else "fullranks",
   if h.off.all List.isEmpty then "trivial" else "nonempty"]

/-- split a flat buffer into blocks of size `bs` -/
def blocks (bs : Nat) (l : List Int) : List (List Int) :=
  (List.range (l.length / bs)).map fun k => (l.drop (k * bs)).take bs

def checkPkg : Rd Verdict := do
  let derived ← rdNat; let h ← rdHdr
  let rp ← rdPer h.np; let ri ← rdPer h.np; let sp ← rdPer h.np; let si ← rdPer h.np; let sx ← rdPer h.np
  let feats := "pkg" :: (if derived != 0 then "derived" else "direct") :: hdrFeats h
  let base := "C03/pkg" ++ (if derived != 0 then "/derived" else "")
  for r in List.range h.np do
    let offR := h.off.getD r []
    -- receive side
    let m := recvSide h.fc offR
    let procs := (rp.getD r []).map Int.toNat
    let ptr := (ri.getD r [])
    let counts := (ptr.zip (ptr.drop 1)).map fun p => (p.2 - p.1).toNat
    if procs.zip counts != m then
      return diff (base ++ "/recv") s!"rank{r} impl={showList (procs.zip counts |>.map toString)} model={showList (m.map toString)}" feats
    -- send side: messages compared as a set keyed by peer (arrival order is the scheduler's choice)
    let sprocs := (sp.getD r []).map Int.toNat
    let sptr := si.getD r []
    let lens := (sptr.zip (sptr.drop 1)).map fun p => (p.2 - p.1).toNat
    let idx := (sx.getD r []).map Int.toNat
    let rec split (l : List Nat) : List Nat → List (List Nat)
      | [] => []
      | n :: ns => l.take n :: split (l.drop n) ns
    let implMsgs := (sprocs.zip (split idx lens)).toArray.qsort (fun a b => a.1 < b.1) |>.toList
    let modelMsgs := sendSide h.fc h.off r (List.range h.np)
    if implMsgs != modelMsgs then
      return diff (base ++ "/send") s!"rank{r} impl={showList (implMsgs.map toString)} model={showList (modelMsgs.map toString)}" feats
    if sprocs.eraseDups.length != sprocs.length then
      return specFail (base ++ "/spec/send_peer_twice") s!"rank{r}" feats
  return ok feats

def checkFwd : Rd Verdict := do
  let tap ← rdNat; let derived ← rdNat; let isInt ← rdNat; let bs ← rdNat; let h ← rdHdr
  let xs ← rdPer h.np; let rs ← rdPer h.np
  let feats := ["fwd", tapName tap, if derived == 2 then "derived_both" else if derived != 0 then "derived" else "direct",
                if isInt != 0 then "int" else "double", s!"bs{bs}"] ++ hdrFeats h
  let base := s!"C03/fwd/{tapName tap}" ++ (if derived == 2 then "/derived_both" else if derived != 0 then "/derived" else "") ++
              s!"/{if isInt != 0 then "int" else "double"}" ++ (if bs > 1 then "/block" else "")
  let x := xs.map (blocks bs)
  for r in List.range h.np do
    let want := haloSpec [] h.fc h.off x r
    let msgLevel := exchange [] h.fc h.off x r
    if msgLevel != want then return badCase s!"model: exchange != haloSpec at rank {r}"
    let got := blocks bs (rs.getD r [])
    if got != want then
      return specFail (base ++ "/spec/slot") s!"rank{r} got={showList ((rs.getD r []))} want={showList want.flatten}" feats
  return ok feats

def reduce (fn : Nat) (a b : Int) : Int :=
  match fn with
  | 0 => a + b
  | 1 => if a < b then b else a
  | _ => if b ≥ 0 then b else a

def checkRev : Rd Verdict := do
  let tap ← rdNat; let derived ← rdNat; let fn ← rdNat; let bs ← rdNat; let h ← rdHdr
  let ys ← rdPer h.np; let inits ← rdPer h.np; let rs ← rdPer h.np
  let fnName := match fn with | 0 => "sum" | 1 => "max" | _ => "select"
  let feats := ["rev", tapName tap, if derived == 2 then "derived_both" else if derived != 0 then "derived" else "direct", fnName, s!"bs{bs}"] ++ hdrFeats h
  let base := s!"C03/rev/{tapName tap}" ++ (if derived == 2 then "/derived_both" else if derived != 0 then "/derived" else "") ++ s!"/{fnName}" ++
              (if bs > 1 then "/block" else "")
  let y := ys.map (blocks bs)
  for p in List.range h.np do
    let init := blocks bs (inits.getD p [])
    let want := exchangeT (fun (b a : List Int) => (b.zip a).map fun q => reduce fn q.1 q.2) h.fc h.off y init p (List.range h.np)
    let got := blocks bs (rs.getD p [])
    if got != want then
      return specFail (base ++ "/spec/entry") s!"rank{p} got={showList (rs.getD p [])} want={showList want.flatten} init={showList (inits.getD p [])}" feats
  return ok feats

def checkCond (transposed : Bool) : Rd Verdict := do
  let derived ← rdNat; let h ← rdHdr
  let lab ← rdVec
  let a ← rdPer h.np
  let b ← rdPer h.np
  let c ← if transposed then rdPer h.np else pure []
  let feats := [if transposed then "condT" else "cond", if derived != 0 then "derived" else "direct"] ++ hdrFeats h
  let base := if transposed then "C03/condT" else "C03/cond"
  let pass (g : Nat) : Bool := lab.getD g 0 == 1
  if !transposed then
    -- a = vals per rank, b = received buffer per rank: owner's value where the label passes, zero elsewhere
    for r in List.range h.np do
      let want := (h.off.getD r []).map fun col =>
        if pass col then (a.getD (owner h.fc col) []).getD (col - h.fc.getD (owner h.fc col) 0) 0 else 0
      if b.getD r [] != want then
        return specFail (base ++ "/spec/slot") s!"rank{r} got={showList (b.getD r [])} want={showList want}" feats
    return ok feats
  else
    -- a = y per rank, b = init per rank, c = result per rank: only passing entries contribute
    for p in List.range h.np do
      let yF : List (List Int) := (List.range h.np).map fun r =>
        ((h.off.getD r []).zip (a.getD r [])).map fun cy => if pass cy.1 then cy.2 else 0
      let want := exchangeT (fun (x y : Int) => x + y) h.fc h.off yF (b.getD p []) p (List.range h.np)
      if c.getD p [] != want then
        return specFail (base ++ "/spec/entry") s!"rank{p} got={showList (c.getD p [])} want={showList want}" feats
    return ok feats

/-- rows as lists of (col, val), read from the flat form `nRows, (len, (col, val)*)*` -/
def rowsOf (l : List Int) : List (List (Int × Int)) :=
  match l with
  | [] => []
  | n :: rest =>
    let rec go (k : Nat) (l : List Int) : List (List (Int × Int)) :=
      match k, l with
      | 0, _ => []
      | k+1, len :: tl =>
        let body := tl.take (2 * len.toNat)
        let rec pairs : List Int → List (Int × Int)
          | a :: b :: t => (a, b) :: pairs t
          | _ => []
        pairs body :: go k (tl.drop (2 * len.toNat))
      | _, [] => []
    go n.toNat rest

def sortRow (r : List (Int × Int)) : List (Int × Int) :=
  (r.toArray.qsort fun a b => a.1 < b.1 || (a.1 == b.1 && a.2 < b.2)).toList

def checkMat : Rd Verdict := do
  let tap ← rdNat; let hv ← rdNat; let h ← rdHdr
  let trip ← rdVec
  let fs ← rdPer h.np
  let feats := ["mat", tapName tap, if hv != 0 then "vals" else "pattern"] ++ hdrFeats h
  let base := s!"C03/mat/{tapName tap}/{if hv != 0 then "vals" else "pattern"}"
  let rec ents : List Int → List (Int × Int × Int)
    | i :: j :: v :: t => (i, j, v) :: ents t
    | _ => []
  let es := ents trip
  for r in List.range h.np do
    let got := (rowsOf (fs.getD r [])).map sortRow
    let want := (h.off.getD r []).map fun (g : Nat) =>
      sortRow ((es.filter fun e => e.1 == Int.ofNat g).map fun e => (e.2.1, if hv != 0 then e.2.2 else 0))
    if got != want then
      return specFail (base ++ "/spec/row") s!"rank{r} got={showList (got.map toString)} want={showList (want.map toString)}" feats
  return ok feats

/-- canonical row: sorted by column, equal columns merged by summing (the node-aware reverse
    exchange combines duplicates on the way; as a sparse row that is the same operator) -/
def mergeRow (r : List (Int × Int)) : List (Int × Int) :=
  (sortRow r).foldr (fun e acc => match acc with
    | (c, v) :: tl => if c == e.1 then (c, v + e.2) :: tl else e :: acc
    | [] => [e]) []

def checkMatT (pattern : Bool := false) : Rd Verdict := do
  let tap ← rdNat; let h ← rdHdr
  let ss ← rdPer h.np; let fs ← rdPer h.np
  let feats := ["matT", tapName tap] ++ (if pattern then ["pattern"] else []) ++ hdrFeats h
  let base := s!"C03/matT/{tapName tap}" ++ (if pattern then "/pattern" else "")
  let sent := ss.map rowsOf          -- per rank: one row per off-process column
  for p in List.range h.np do
    let ln := h.fc.getD (p+1) 0 - h.fc.getD p 0
    let contribs := revContribs h.fc h.off sent p (List.range h.np)
    let want := (List.range ln).map fun i => mergeRow ((contribs.filter fun c => c.1 == i).flatMap (·.2))
    let got := (rowsOf (fs.getD p [])).map mergeRow
    if got != want then
      return specFail (base ++ "/spec/row") s!"rank{p} got={showList (got.map toString)} want={showList (want.map toString)}" feats
  return ok feats

def run (op : String) (a : Array Int) : Verdict :=
  let r := match op with
    | "pkg" => runRd checkPkg a
    | "fwd" => runRd checkFwd a
    | "rev" => runRd checkRev a
    | "cond" => runRd (checkCond false) a
    | "condT" => runRd (checkCond true) a
    | "mat" => runRd checkMat a
    | "matT" => runRd checkMatT a
    | "matTp" => runRd (checkMatT true) a
    | _ => some (badCase s!"unknown op {op}")
  r.getD (badCase "malformed")

end Raptor.Driver.C03
