import RaptorModel.Driver.Common
/-! Driver for C05: (1) results under a perturbed schedule equal the reference schedule's results;
(2) the logged message trace is a run of the abstract MPI model in which every receive is matched
(k-th send ↔ k-th receive per channel, by non-overtaking), nothing is left unreceived, no message is
received in an earlier epoch than it was sent, and every wildcard receive consumed a message of
its own epoch (the conclusion of `phase_isolation`). -/
namespace Raptor.Driver.C05
open Raptor Raptor.Driver

def rdPer (np : Nat) : Rd (List (List Int)) := (List.range np).mapM fun _ => rdVec

def scenName : Nat → String
  | 0 => "packages" | 1 => "matops" | 2 => "amg_rs" | 3 => "amg_sa" | 4 => "repartition" | 6 => "mis2_directed" | 7 => "long_lived_package" | _ => "packages_back_to_back"

def checkSame : Rd Verdict := do
  let scen ← rdNat; let np ← rdNat; let mode ← rdNat; let site ← rdInt; let _perm ← rdNat; let delay ← rdNat
  let wc ← rdNat; let wm ← rdNat; let dl ← rdNat
  let refs ← rdPer np; let gots ← rdPer np; let refr ← rdPer np; let gotr ← rdPer np
  let path := s!"C05/same/{scenName scen}/mode{mode}" ++ (if mode == 3 || mode == 5 then s!"/site{site}" else "")
  let feats := ["same", scenName scen, s!"np{np}", s!"mode{mode}",
                if wm > 0 then "multi_candidate_choice" else "single_candidate",
                if dl > 0 then "delays" else "nodelay", if delay > 0 then "delay_enabled" else "delay_off"] ++
               (if wc == 0 then ["trivial"] else []) ++ (if mode == 3 then [s!"site{site}"] else [])
  for r in List.range np do
    if refs.getD r [] != gots.getD r [] then
      return specFail (path ++ "/spec/ints") s!"rank{r} results differ from the reference schedule: ref={showList ((refs.getD r []).take 60)} got={showList ((gots.getD r []).take 60)}" feats
    let a := (refr.getD r []).map bitsToFloat; let b := (gotr.getD r []).map bitsToFloat
    if a.length != b.length then return specFail (path ++ "/spec/reals_len") s!"rank{r}" feats
    for (x, y) in a.zip b do
      if !((x - y).abs ≤ 1e-9 * (x.abs + y.abs) + 1e-13) then
        return specFail (path ++ "/spec/reals") s!"rank{r} ref={x} got={y}" feats
  return ok feats

structure Ev where
  (kind comm peer tag epoch extra : Int)

def evs : List Int → List Ev
  | k :: c :: p :: t :: e :: x :: rest => ⟨k, c, p, t, e, x⟩ :: evs rest
  | _ => []

def checkTrace : Rd Verdict := do
  let scen ← rdNat; let np ← rdNat; let mode ← rdNat
  let tr ← rdPer np
  let traces := tr.map evs
  let path := s!"C05/trace/{scenName scen}"
  let nmsg := (traces.map fun t => (t.filter fun e => e.kind == 1).length).sum
  let nwild := (traces.map fun t => (t.filter fun e => e.kind == 2 && e.extra == 1).length).sum
  let feats := ["trace", scenName scen, s!"np{np}", s!"mode{mode}"] ++ (if nmsg == 0 then ["trivial"] else []) ++
               (if nwild > 0 then ["wildcards"] else ["no_wildcards"])
  -- channels: (comm, src, dst, tag)
  for src in List.range np do
    for dst in List.range np do
      let sends := (traces.getD src []).filter fun e => e.kind == 1 && e.peer == (dst : Int)
      let recvs := (traces.getD dst []).filter fun e => e.kind == 2 && e.peer == (src : Int)
      let keys := (sends.map fun e => (e.comm, e.tag)).eraseDups ++ (recvs.map fun e => (e.comm, e.tag)).eraseDups
      for key in keys.eraseDups do
        let s := sends.filter fun e => (e.comm, e.tag) == key
        let r := recvs.filter fun e => (e.comm, e.tag) == key
        if s.length != r.length then
          return specFail (path ++ "/spec/unmatched") s!"{src}->{dst} comm{key.1} tag{key.2}: {s.length} sends, {r.length} receives" feats
        for (a, b) in s.zip r do
          if a.epoch > b.epoch then
            return specFail (path ++ "/spec/causality") s!"{src}->{dst} tag{key.2}: sent in epoch {a.epoch}, received in {b.epoch}" feats
          if b.extra == 1 && a.epoch != b.epoch then
            return specFail (path ++ "/spec/phase_isolation") s!"{src}->{dst} comm{key.1} tag{key.2}: wildcard receive of epoch {b.epoch} consumed a message of epoch {a.epoch}" feats
  return ok feats

def run (op : String) (a : Array Int) : Verdict :=
  let r := match op with
    | "same" => runRd checkSame a
    | "trace" => runRd checkTrace a
    | _ => some (badCase s!"unknown op {op}")
  r.getD (badCase "malformed")

end Raptor.Driver.C05
