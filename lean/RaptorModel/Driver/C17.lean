import RaptorModel.Driver.Common
import RaptorModel.Model.Krylov
/-! Driver for C17: Krylov histories vs true residuals of the code's own iterates, stop rule, model
equality at `Float`, distributed vs sequential, and the NaN clause of dot/norm. -/
namespace Raptor.Driver.C17
open Raptor Raptor.Driver Raptor.Krylov

def rdFVec : Rd (List Float) := do let v ← rdVec; return v.map bitsToFloat
def showF (l : List Float) : String := showList ((l.take 10).map toString)

def mulVecT (n : Nat) (es : List (Nat × Nat × Float)) (x : List Float) : List Float :=
  let xa := x.toArray
  (es.foldl (fun (acc : Array Float) e => if e.1 < n then acc.modify e.1 (· + e.2.2 * xa.getD e.2.1 0) else acc) (Array.replicate n 0.0)).toList

def norm2 (v : List Float) : Float := (v.foldl (fun s a => s + a * a) 0).sqrt

/-- relative comparison; the absolute slack is given by the caller in the unit of the compared quantities (the checks
    must work for systems of any scale: a right-hand side of size 1e-12 is a right-hand side) -/
def close (tol : Float) (a b : Float) (absf : Float) : Bool :=
  if a.isNaN || b.isNaN then a.isNaN && b.isNaN else (a - b).abs ≤ tol * (a.abs + b.abs) + absf

def checkKrylov : Rd Verdict := do
  let np ← rdNat; let method ← rdNat; let start ← rdNat; let n ← rdNat; let tolB ← rdInt; let maxIter ← rdInt
  let trip ← rdVec; let v4 ← rdVec
  let x0 ← rdFVec; let b ← rdFVec; let res ← rdFVec; let xfin ← rdFVec
  let nIt ← rdNat
  let its ← (List.range nIt).mapM fun _ => rdFVec
  let tol := bitsToFloat tolB
  let rec ij : List Int → List (Nat × Nat)
    | i :: j :: _ :: rest => (i.toNat, j.toNat) :: ij rest
    | _ => []
  let es : List (Nat × Nat × Float) := ((ij trip).zip v4).map fun p => (p.1.1, p.1.2, Float.ofInt p.2 / 4)
  let mname := if method == 0 then "cg" else "bicgstab"
  let base := s!"C17/{if np == 0 then "seq" else "par"}/{mname}"
  let startName := match start with | 0 => "random" | 1 => "exact_start" | 2 => "zero_rhs" | _ => "zero_x0"
  let feats := ["krylov", mname, if np == 0 then "seq" else s!"np{np}", startName, if maxIter > 0 then "limited" else "default_limit"] ++
               (if n ≤ 1 then ["trivial"] else [])
  let iters := res.length - 1
  let bn := norm2 b
  -- scaling of the reported residual: distributed CG divides by ‖b‖ (1 if ‖b‖ is tiny)
  let scale : Float := if np != 0 && method == 0 then (if bn < 1e-16 then 1.0 else bn) else 1.0
  -- nothing non-finite may be reported or returned on this domain
  if res.any (fun r => !r.isFinite) || xfin.any (fun v => !v.isFinite) then
    return specFail (base ++ s!"/spec/nonfinite/{startName}") s!"res={showF res} x={showF xfin}" feats
  -- k-th reported residual = true residual norm of the k-th iterate (iterates recovered by re-running with max_iter = k)
  for ((x, r), k) in (its.zip res).zipIdx do
    let tr := norm2 ((b.zip (mulVecT n es x)).map fun p => p.1 - p.2) / scale
    let r0 := (res.head?.getD 1).abs
    if !((r - tr).abs ≤ 1e-6 * (r.abs + tr.abs) + 1e-9 * r0) then
      return specFail (base ++ "/spec/reported_vs_true") s!"iterate {k}: reported {r}, true {tr}" feats
  -- the returned vector is the last iterate
  if its.length == iters + 1 then
    if its.getLast? != some xfin then
      return specFail (base ++ "/spec/returned_not_last") s!"x={showF xfin} last iterate={showF (its.getLast?.getD [])}" feats
  -- stop rule: first iterate with ‖r‖ ≤ tol·‖r₀‖ (absolute if ‖r₀‖ = 0) or the limit
  let lim : Nat := if maxIter > 0 then maxIter.toNat else (if method == 0 || np != 0 then (Float.floor (1.3 * n.toFloat)).toUInt64.toNat + 2 else n + 5)
  let r0 := (res.head?.getD 0) * scale
  let thr := if r0 != 0 then tol * r0 else tol
  if iters > lim then return specFail (base ++ "/spec/limit_exceeded") s!"{iters} iterations, limit {lim}" feats
  for (r, k) in res.zipIdx do
    let rn := r * scale
    let borderline := (rn - thr).abs ≤ 1e-6 * thr
    if k < iters && !(rn > thr) && !borderline then
      return specFail (base ++ "/spec/continued_after_convergence") s!"iterate {k} had ‖r‖={rn} ≤ {thr} but the solver went on to {iters}" feats
    if k == iters && iters < lim && rn > thr && !borderline then
      return specFail (base ++ "/spec/stopped_early") s!"stopped at {iters} < {lim} with ‖r‖={rn} > {thr}" feats
  -- model equality at Float
  let mv (v : List Float) := mulVecT n es v
  let resid (x : List Float) := (b.zip (mv x)).map fun p => p.1 - p.2
  let report (r : Float) := r / scale
  let m := if method == 0 then cg mv resid tol lim report x0 else bicgstab mv resid norm2 tol lim x0
  let drift := 1e-6
  -- In the last steps before finite termination (k close to n) and below about 1e-7 of the initial residual the
  -- recurrence amplifies rounding differences between two correct evaluation orders: entries are compared down to that
  -- floor, and an iteration count that is decided below it is not compared (the specification clauses above still
  -- apply to the implementation's own history)
  let floor_ := 1e-7 * (res.head?.getD 1).abs
  if !((m.res.zip res).all fun p => close drift p.1 p.2 0 || (p.1 - p.2).abs ≤ floor_) then
    return diff (base ++ "/history") s!"impl={showF res} model={showF m.res}" feats
  if m.res.length != res.length then
    -- a different iteration count is legitimate only when a residual sits on the threshold or the threshold lies
    -- below the comparison floor
    let nearThr := (res ++ m.res).any fun r => (r * scale - thr).abs ≤ 1e-4 * thr
    let belowFloor := thr ≤ floor_ * scale
    if !nearThr && !belowFloor then return diff (base ++ "/iterations") s!"impl {res.length - 1} model {m.res.length - 1} res={showF res} model={showF m.res}" feats
  return ok feats

def checkDotNorm : Rd Verdict := do
  let np ← rdNat; let kind ← rdNat
  let u ← rdFVec; let w ← rdFVec; let nb ← rdInt; let ib ← rdInt
  let nrm := bitsToFloat nb; let ip := bitsToFloat ib
  let kn := match kind with | 0 => "finite" | 1 => "nan" | 2 => "inf" | _ => "tiny"
  let base := s!"C17/{if np == 0 then "seq" else "par"}/dotnorm"
  let feats := ["dotnorm", kn, if np == 0 then "seq" else s!"np{np}"]
  let anyNonFinite := u.any (fun v => !v.isFinite) || w.any (fun v => !v.isFinite)
  if anyNonFinite then
    if nrm.isFinite then return specFail (base ++ s!"/spec/norm_finite_with_{kn}_entry") s!"norm={nrm} u={showF u}" feats
    if ip.isFinite then return specFail (base ++ s!"/spec/dot_finite_with_{kn}_entry") s!"dot={ip}" feats
    return ok feats
  let en := norm2 u
  let ei := (u.zip w).foldl (fun s p => s + p.1 * p.2) 0
  let dotUnit := (u.zip w).foldl (fun s p => s + (p.1 * p.2).abs) 0
  if !close 1e-12 nrm en 0 then return specFail (base ++ "/spec/norm_value") s!"got {nrm}, assembled vector has {en}" feats
  if !close 1e-12 ip ei (1e-13 * dotUnit) then return specFail (base ++ "/spec/dot_value") s!"got {ip}, assembled vectors give {ei}" feats
  return ok feats

/-- preconditioned CG: reported history against the same quantity recomputed from the true residuals -/
def checkPcg : Rd Verdict := do
  let np ← rdNat; let solverV ← rdNat; let n ← rdNat; let tolB ← rdInt; let maxit ← rdNat; let bInnerB ← rdInt
  let full ← rdVec; let truev ← rdVec; let prefixOk ← rdVec
  let solver := solverV % 10; let variant := solverV / 10
  let tol := bitsToFloat tolB; let bInner := bitsToFloat bInnerB
  let rep := full.map bitsToFloat; let tr := truev.map bitsToFloat
  let iters := rep.length - 1
  let vName := match variant with | 0 => "random" | 1 => "zero_rhs" | 2 => "exact_start" | _ => "scaled"
  let base := "C17/par/pcg"
  let feats := ["pcg", s!"np{np}", if solver == 0 then "RS" else "SA", vName, if iters ≥ 8 then "crosses_recompute" else "short",
                if iters < maxit then "converged" else "limit"] ++ (if n ≤ 1 then ["trivial"] else [])
  if rep.isEmpty || tr.length != rep.length then return specFail (base ++ "/spec/history_length") s!"reported {rep.length} entries, {tr.length} iterates" feats
  if iters > maxit then return specFail (base ++ "/spec/too_many_iterations") s!"{iters} > {maxit}" feats
  -- nothing non-finite on this domain (SPD system, SPD preconditioner): in particular not for b = 0 or an exact start
  if rep.any (fun v => !v.isFinite) || tr.any (fun v => !v.isFinite) then
    return specFail (base ++ s!"/spec/nonfinite/{vName}") s!"reported {showF rep}, (r_k, M r_k) of the returned iterates {showF tr}" feats
  -- a run limited to k iterations reports the first k+1 entries of the full run (the solver is a pure function)
  if prefixOk.any (· == 0) then return specFail (base ++ "/spec/history_not_prefix") s!"prefix flags {showList prefixOk}" feats
  -- residuals are reported relative to (b, M b); a zero right-hand side has no relative residual (absolute then)
  let scale := if bInner > 0 then bInner else 1.0
  let close (a b : Float) : Bool := (a - b).abs ≤ 1e-6 * (a.abs + b.abs) + 1e-13 * (tr.getD 0 0).abs / scale
  -- entries k ≥ 1 are (r_k, M r_k)/(b, M b); the iterate returned after k iterations is the one entry k belongs to
  for k in List.range (iters + 1) do
    if k ≥ 1 then
      let want := tr.getD k 0 / scale
      if !close (rep.getD k 0) want then
        return specFail (base ++ "/spec/reported_vs_true") s!"iterate {k}: reported {rep.getD k 0}, (b-Ax_k, M(b-Ax_k))/(b,Mb) = {want}" feats
  -- the first entry is reported in the scaling of the others
  let want0 := tr.getD 0 0 / scale
  if !close (rep.getD 0 0) want0 then
    return specFail (base ++ "/spec/first_entry_scaling") s!"res[0] = {rep.getD 0 0}; in the scaling of the later entries (r_0, M r_0)/(b, M b) = {want0} (sqrt(r_0, M r_0) = {(tr.getD 0 0).sqrt})" feats
  -- stop rule: the first iterate (the start included) with ‖r_k‖_M ≤ tol·‖b‖_M (absolute for b = 0), or the limit; both sides
  -- in the same norm, so that scaling the system does not change the iteration count
  let thr := if bInner > 0 then tol * bInner.sqrt else tol
  let rn (k : Nat) : Float := (rep.getD k 0 * scale).sqrt
  let borderline (k : Nat) : Bool := (rn k - thr).abs ≤ 1e-6 * thr
  for k in List.range iters do
    if rn k < thr && !borderline k then
      return specFail (base ++ "/spec/continued_after_convergence") s!"entry {k} already met the tolerance (‖r‖_M = {rn k} < {thr}), {iters} iterations done" feats
  if iters < maxit && !(rn iters ≤ thr) && !borderline iters then
    return specFail (base ++ "/spec/stopped_early") s!"stopped after {iters} < {maxit} iterations with ‖r‖_M = {rn iters} > tol·‖b‖_M = {thr}" feats
  return ok feats

def run (op : String) (a : Array Int) : Verdict :=
  let r := match op with
    | "krylov" => runRd checkKrylov a
    | "dotnorm" => runRd checkDotNorm a
    | "pcg" => runRd checkPcg a
    | _ => some (badCase s!"unknown op {op}")
  r.getD (badCase "malformed")

end Raptor.Driver.C17
