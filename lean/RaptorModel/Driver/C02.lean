import RaptorModel.Driver.Mat
import RaptorModel.Model.Spmv
import RaptorModel.Model.ParSpmv
/-! Driver for C02: mat-vec results (sequential kernels of each format, distributed operations on
every layout) against the product with the global matrix given by its triplets. Exact integers. -/
namespace Raptor.Driver.C02
open Raptor Raptor.Driver Raptor.Sparse Raptor.Spmv Raptor.ParMat Raptor.ParSpmv

def rdTrip : Rd (List (Entry Int)) := do
  let v ← rdVec
  let rec go : List Int → List (Entry Int)
    | i :: j :: x :: rest => (i.toNat, j.toNat, x) :: go rest
    | _ => []
  return go v

def check (op : String) : Rd Verdict := do
  let fmt ← rdNat; let tap ← rdNat; let nRows ← rdNat; let nCols ← rdNat
  let es ← rdTrip; let x ← rdVec; let b ← rdVec; let out ← rdVec
  let np ← rdNat
  let layout ← (List.range np).mapM fun _ => do
    let lr ← rdNat; let lc ← rdNat; let fr ← rdNat; let fc ← rdNat; pure (lr, lc, fr, fc)
  let par := np != 0
  let emptyRank := layout.any fun l => l.1 == 0
  let colsNoRows := layout.any fun l => l.1 == 0 && l.2.1 != 0
  let path := s!"C02/{if par then "par" else "seq"}/{op}/{fmtName fmt}" ++ (if tap != 0 then "/tap" else "") ++
    (if colsNoRows then "/cols_without_rows" else if emptyRank then "/emptyrank" else "")
  let feats := [op, fmtName fmt, if par then s!"np{np}" else "seq", if tap != 0 then "tap" else "std",
                if nRows == nCols then "square" else "rect",
                if emptyRank then "emptyrank" else "fullranks"] ++ (if es.isEmpty then ["trivial"] else [])
  -- the model and the specification coincide in exact arithmetic: entry-wise accumulation
  let expected : List Int := match op with
    | "mult" => appendE es x (zeros nRows)
    | "mult_append" => appendE es x b
    | "mult_T" => appendTE es x (zeros nCols)
    | "mult_append_T" => appendTE es x b
    | "mult_append_neg" => appendNegE es x b
    | "mult_append_neg_T" => appendNegTE es x b
    | "residual" => appendNegE es x b
    | _ => []
  -- a 0 x n matrix on the default partition leaves its columns without owner (C18 excludes it):
  -- transposed products have no distributed vector to live in
  let ownedCols := (layout.map fun l => l.2.1).sum
  if par && ownedCols != nCols then return ok (feats ++ ["trivial", "unowned_columns"])
  if out.length != expected.length then
    return specFail (path ++ "/spec/length") s!"impl={out.length} expected={expected.length}" feats
  if out != expected then
    return specFail (path ++ "/spec/value") s!"impl={showList out} expected={showList expected} x={showList x} b={showList b} A={showList (es.map fun e => s!"({e.1},{e.2.1},{e.2.2})")}" feats
  return ok feats

/-! ### block-level cases: the real per-rank blocks and maps, the model of `Model/ParSpmv.lean` run on them -/

def parseBlk (v : List Int) : Option (Blk Int) := do
  let rec ents : Nat → List Int → Option (List (Entry Int) × List Int)
    | 0, rest => some ([], rest)
    | n+1, i :: j :: x :: rest => do
        if i < 0 || j < 0 then none
        let (es, r) ← ents n rest
        pure ((i.toNat, j.toNat, x) :: es, r)
    | _, _ => none
  let lenList : List Int → Option (List Nat × List Int)
    | n :: rest => if n < 0 || rest.length < n.toNat then none
                   else if (rest.take n.toNat).any (· < 0) then none
                   else some ((rest.take n.toNat).map Int.toNat, rest.drop n.toNat)
    | [] => none
  match v with
  | nOn :: r0 =>
    let (on, r1) ← ents nOn.toNat r0
    match r1 with
    | nOff :: r2 =>
      let (off, r3) ← ents nOff.toNat r2
      let (rowMap, r4) ← lenList r3
      let (onMap, r5) ← lenList r4
      let (offMap, _) ← lenList r5
      pure { rowMap := rowMap, onColMap := onMap, offColMap := offMap, on := on, off := off }
    | [] => none
  | [] => none

/-- decidable form of the hypotheses of `C02Par.parMult_global` / `parMultT_global` -/
def blocksHyp (bs : List (Blk Int)) : Option String :=
  let bad := bs.zipIdx.findSome? fun (B, r) =>
    if B.on.any (fun e => e.1 ≥ B.rowMap.length || e.2.1 ≥ B.onColMap.length) then some s!"rank{r}: on-process entry outside its block"
    else if B.off.any (fun e => e.1 ≥ B.rowMap.length || e.2.1 ≥ B.offColMap.length) then some s!"rank{r}: off-process entry outside its block / halo"
    else none
  match bad with
  | some m => some m
  | none =>
    let rows := bs.flatMap (·.rowMap); let cols := bs.flatMap (·.onColMap)
    if rows.eraseDups.length != rows.length then some "a global row is held by two local rows"
    else if cols.eraseDups.length != cols.length then some "a global column is owned twice"
    else none

def canonE (es : List (Entry Int)) : List (Nat × Nat × Int) :=
  let sorted := (es.toArray.qsort fun a b => a.1 < b.1 || (a.1 == b.1 && a.2.1 < b.2.1)).toList
  let merged := sorted.foldr (fun e acc => match acc with
    | (i, j, v) :: tl => if i == e.1 && j == e.2.1 then (i, j, v + e.2.2) :: tl else e :: acc
    | [] => [e]) []
  merged.filter fun e => e.2.2 != 0

def opName : Nat → String
  | 0 => "mult" | 1 => "mult_append" | 2 => "mult_T" | _ => "residual"

def checkBlk : Rd Verdict := do
  let k ← rdNat; let fmt ← rdNat; let tap ← rdNat; let nRows ← rdNat; let nCols ← rdNat
  let es ← rdTrip; let x ← rdVec; let b ← rdVec
  let np ← rdNat
  let raws ← (List.range np).mapM fun _ => rdVec
  let outs ← (List.range np).mapM fun _ => rdVec
  let op := opName k
  let path := s!"C02/par/blocks/{op}/{fmtName fmt}" ++ (if tap != 0 then "/tap" else "")
  let feats := ["blocks", op, fmtName fmt, s!"np{np}", if tap != 0 then "tap" else "std",
                if nRows == nCols then "square" else "rect"] ++ (if es.isEmpty then ["trivial"] else [])
  let some bs := raws.mapM parseBlk | return specFail (path ++ "/spec/malformed_blocks") "negative index or truncated block dump" feats
  let feats := feats ++ (if bs.any (fun B => !B.off.isEmpty) then ["halo"] else ["no_halo"]) ++
               (if bs.any (fun B => B.rowMap.isEmpty) then ["emptyrank"] else ["fullranks"])
  -- hypotheses of the lifting theorems on the real data
  if let some m := blocksHyp bs then return specFail (path ++ "/spec/hypothesis") m feats
  -- the blocks read through the maps are the assembled triplets
  if canonE (image bs) != canonE es then
    return specFail (path ++ "/spec/image") s!"blocks read through their maps differ from the triplets: image={showList ((canonE (image bs)).map toString)} triplets={showList ((canonE es).map toString)}" feats
  -- the assembly model (`distribute`: split by owner, local numbering, sorted duplicate-free halo map) against the real blocks;
  -- stored duplicates are merged by the library and kept apart by the model: entries are compared after merging
  let layout : List ParSpmv.Rank := bs.map fun B => (B.rowMap.length, B.onColMap.length, B.rowMap.headD 0, B.onColMap.headD 0)
  for ((B, M), r) in (bs.zip (distribute layout es)).zipIdx do
    if B.rowMap != M.rowMap || B.onColMap != M.onColMap then
      return diff (path ++ "/assembly/maps") s!"rank{r} rows={showList B.rowMap} cols={showList B.onColMap}: not contiguous blocks" feats
    if B.offColMap != M.offColMap then
      return diff (path ++ "/assembly/halo_map") s!"rank{r} impl={showList B.offColMap} model={showList M.offColMap}" feats
    if canonE B.on != canonE M.on || canonE B.off != canonE M.off then
      return diff (path ++ "/assembly/entries") s!"rank{r} impl on={showList ((canonE B.on).map toString)} off={showList ((canonE B.off).map toString)} model on={showList ((canonE M.on).map toString)} off={showList ((canonE M.off).map toString)}" feats
  let ownedCols := (bs.map fun B => B.onColMap.length).sum
  if ownedCols != nCols then return ok (feats ++ ["trivial", "unowned_columns"])
  -- rank by rank against the block-level model
  let xlocs := bs.map fun B => gatherMap (if k == 2 then B.rowMap else B.onColMap) x
  for (B, r) in bs.zipIdx do
    let xloc := xlocs.getD r []
    let halo := gatherMap B.offColMap x
    let bl := gatherMap B.rowMap b
    let model : List Int := match k with
      | 0 => multBlk B xloc halo
      | 1 => multAppendBlk B xloc halo bl
      | 2 => multTBlk bs (fun B' => gatherMap B'.rowMap x) B
      | _ => residualBlk B xloc halo bl
    let got := outs.getD r []
    if got != model then
      return diff (path ++ "/model") s!"rank{r} impl={showList got} model={showList model}" feats
  -- and the conclusion of the theorems: the gathered result is the global product
  let expected : List Int := match k with
    | 0 => appendE es x (zeros nRows)
    | 1 => appendE es x b
    | 2 => appendTE es x (zeros nCols)
    | _ => appendNegE es x b
  let rowsOrCols := bs.flatMap fun B => if k == 2 then B.onColMap else B.rowMap
  let gathered := (outs.zip bs).flatMap fun p => p.1
  let placed := (rowsOrCols.zip gathered).foldl (fun acc p => upd acc p.1 (fun _ => p.2)) (zeros expected.length)
  if rowsOrCols.length != expected.length || placed != expected then
    return specFail (path ++ "/spec/value") s!"impl={showList placed} expected={showList expected}" feats
  return ok feats

def run (op : String) (a : Array Int) : Verdict :=
  if op == "blk" then (runRd checkBlk a).getD (badCase "malformed")
  else (runRd (check op) a).getD (badCase "malformed")

end Raptor.Driver.C02
