import RaptorModel.Driver.Mat
import RaptorModel.Model.Spmv
/-! Driver for C02: mat-vec results (sequential kernels of each format, distributed operations on
every layout) against the product with the global matrix given by its triplets. Exact integers. -/
namespace Raptor.Driver.C02
open Raptor Raptor.Driver Raptor.Sparse Raptor.Spmv

def rdTrip : Rd (List (Entry Int)) := do
  let v ← rdVec
  let rec go : List Int → List (Entry Int)
    | i :: j :: x :: rest => (i.toNat, j.toNat, x) :: go rest
    | _ => []
  return go v

def check (op : String) : Rd Verdict := do
  let fmt ← rdNat; let tap ← rdNat; let nRows ← rdNat; let nCols ← rdNat
  let es ← rdTrip; let x ← rdVec; let b ← rdVec; let out ← rdVec
  let np ← rdNat
  let layout ← (List.range np).mapM fun _ => do
    let lr ← rdNat; let lc ← rdNat; let fr ← rdNat; let fc ← rdNat; pure (lr, lc, fr, fc)
  let par := np != 0
  let emptyRank := layout.any fun l => l.1 == 0
  let colsNoRows := layout.any fun l => l.1 == 0 && l.2.1 != 0
  let path := s!"C02/{if par then "par" else "seq"}/{op}/{fmtName fmt}" ++ (if tap != 0 then "/tap" else "") ++
    (if colsNoRows then "/cols_without_rows" else if emptyRank then "/emptyrank" else "")
  let feats := [op, fmtName fmt, if par then s!"np{np}" else "seq", if tap != 0 then "tap" else "std",
                if nRows == nCols then "square" else "rect",
                if emptyRank then "emptyrank" else "fullranks"] ++ (if es.isEmpty then ["trivial"] else [])
  -- the model and the specification coincide in exact arithmetic: entry-wise accumulation
  let expected : List Int := match op with
    | "mult" => appendE es x (zeros nRows)
    | "mult_append" => appendE es x b
    | "mult_T" => appendTE es x (zeros nCols)
    | "mult_append_T" => appendTE es x b
    | "mult_append_neg" => appendNegE es x b
    | "mult_append_neg_T" => appendNegTE es x b
    | "residual" => appendNegE es x b
    | _ => []
  -- a 0 x n matrix on the default partition leaves its columns without owner (C18 excludes it):
  -- transposed products have no distributed vector to live in
  let ownedCols := (layout.map fun l => l.2.1).sum
  if par && ownedCols != nCols then return ok (feats ++ ["trivial", "unowned_columns"])
  if out.length != expected.length then
    return specFail (path ++ "/spec/length") s!"impl={out.length} expected={expected.length}" feats
  if out != expected then
    return specFail (path ++ "/spec/value") s!"impl={showList out} expected={showList expected} x={showList x} b={showList b} A={showList (es.map fun e => s!"({e.1},{e.2.1},{e.2.2})")}" feats
  return ok feats

def run (op : String) (a : Array Int) : Verdict :=
  (runRd (check op) a).getD (badCase "malformed")

end Raptor.Driver.C02
