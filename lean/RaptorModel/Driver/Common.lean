import RaptorModel.Model.Basic
/-! Verdicts printed by the driver, one per case line. -/
namespace Raptor.Driver
open Raptor

structure Verdict where
  /-- `ok` | `DIFF` (model and implementation disagree) | `SPECFAIL` (the decidable specification
      predicate is false on the implementation's output) | `BADCASE` (malformed line) -/
  status : String
  /-- call path / failed clause; known findings are matched on this, never on the random input -/
  path : String := ""
  info : String := ""
  /-- features of the input (for the distribution printed into the evidence) -/
  feats : List String := []

def ok (feats : List String := []) : Verdict := { status := "ok", feats := feats }
def diff (path info : String) (feats : List String := []) : Verdict :=
  { status := "DIFF", path := path, info := info, feats := feats }
def specFail (path info : String) (feats : List String := []) : Verdict :=
  { status := "SPECFAIL", path := path, info := info, feats := feats }
def badCase (info : String) : Verdict := { status := "BADCASE", info := info }

def Verdict.render (v : Verdict) : String :=
  v.status ++ " path=" ++ (if v.path.isEmpty then "-" else v.path) ++
  " feats=" ++ (if v.feats.isEmpty then "-" else ",".intercalate v.feats) ++
  (if v.info.isEmpty then "" else " info=" ++ (v.info.replace "\n" " "))

/-- first failing check wins; checks are (condition that must hold, verdict if it does not) -/
def firstFailure (checks : List (Bool × Verdict)) (good : Verdict) : Verdict :=
  match checks.find? (fun c => !c.1) with
  | some c => c.2
  | none => good

end Raptor.Driver
