import RaptorModel.Driver.Common
import RaptorModel.Model.Mis
/-! Driver for C15: MIS-2 labels and aggregates vs the round-based model and the specification. -/
namespace Raptor.Driver.C15
open Raptor Raptor.Driver Raptor.Mis

abbrev FRows := List (List (Nat × Float))
def rdFVec : Rd (List Float) := do let v ← rdVec; return v.map bitsToFloat
def rdCsr : Rd FRows := do
  let idx1 ← rdVec; let idx2 ← rdNatVec; let vals ← rdFVec
  let lens := (idx1.zip (idx1.drop 1)).map fun p => (p.2 - p.1).toNat
  let rec split (l : List (Nat × Float)) : List Nat → FRows
    | [] => []
    | n :: ns => l.take n :: split (l.drop n) ns
  return split (idx2.zip vals) lens

/-- the checks shared by the sequential and the distributed case; `aggRoot v` = root vertex of v's aggregate -/
def common (base : String) (A : FRows) (S : Graph) (r : List Float) (labels : List Int) (aggRoot : List (Option Nat))
    (feats : List String) : Verdict :=
  let n := S.length
  let isolated (v : Nat) : Bool := ((S.getD v []).filter (· != v)).isEmpty
  if labels.length != n || (List.range n).any (fun v => !(lab labels v == 1 || lab labels v == 0) && !isolated v) then
    specFail (base ++ "/spec/undecided") s!"labels={showList labels}" feats
  else if !independent2 S labels then specFail (base ++ "/spec/roots_not_independent") s!"labels={showList labels} graph={repr S}" feats
  else if !maximal2 S ((List.range n).map fun v => if isolated v && lab labels v != 1 then 1 else lab labels v) then
    specFail (base ++ "/spec/not_maximal") s!"labels={showList labels} graph={repr S}" feats
  else Id.run do
    -- aggregates: every root in its own aggregate; every non-isolated vertex in exactly one aggregate whose root lies within two edges
    for v in List.range n do
      match aggRoot.getD v none with
      | some a =>
        if lab labels a != 1 then return specFail (base ++ "/spec/aggregate_without_root") s!"vertex {v} is in the aggregate of {a}, which is not a root" feats
        if lab labels v == 1 && a != v then return specFail (base ++ "/spec/root_not_in_own_aggregate") s!"root {v} -> {a}" feats
        if a != v && !(within2 S v).contains a then return specFail (base ++ "/spec/root_too_far") s!"vertex {v}: root {a} is not within two edges" feats
      | none =>
        if !isolated v then return specFail (base ++ "/spec/unaggregated") s!"vertex {v} has neighbours but no aggregate" feats
    -- model equality (distinct keys: the labels are unique)
    let m := mis2 S r
    let badL := (List.range n).filter fun v => !isolated v && lab m v != lab labels v
    if !badL.isEmpty then
      return diff (base ++ "/labels") s!"vertices {showList badL}: impl={showList labels} model={showList m} keys={showList (r.map toString)} graph={repr S}" feats
    let absA (v w : Nat) : Float := (((A.getD v []).find? fun e => e.1 == w).map fun e => e.2.abs).getD 0
    let ma := aggregate S absA r labels
    let badA := (List.range n).filter fun v => !isolated v && ma.getD v none != aggRoot.getD v none
    if !badA.isEmpty then
      return diff (base ++ "/aggregates") s!"vertices {showList badA}: impl={repr aggRoot} model={repr ma}" feats
    return ok feats

def checkSeq : Rd Verdict := do
  let n ← rdNat; let A ← rdCsr; let Sr ← rdCsr; let r ← rdFVec; let labels ← rdVec; let aggs ← rdVec; let nAggs ← rdNat
  let S : Graph := Sr.map fun row => row.map (·.1)
  let feats := ["seq"] ++ (if S.all (fun row => row.length ≤ 1) then ["trivial"] else [])
  -- sequential convention: aggregate k = k-th root
  let rts := roots labels
  if nAggs != rts.length then return specFail "C15/seq/spec/aggregate_count" s!"returned {nAggs}, {rts.length} roots" feats
  let isolated (v : Nat) : Bool := ((S.getD v []).filter (· != v)).isEmpty
  let aggRoot : List (Option Nat) := (List.range n).map fun v =>
    let a := aggs.getD v (-1)
    if a < 0 then none
    else if isolated v && lab labels v != 1 then none        -- fallback value of a vertex with no neighbour: not an aggregate membership
    else rts[a.toNat]?
  return common "C15/seq" A S r labels aggRoot feats

def checkPar : Rd Verdict := do
  let n ← rdNat; let np ← rdNat; let tap ← rdNat
  let A ← rdCsr
  let sents ← rdVec; let r ← rdFVec; let labels ← rdVec; let aggs ← rdVec; let halo ← rdVec; let nag ← rdVec; let rows ← rdNatVec
  let rec trip : List Int → List (Nat × Nat)
    | i :: j :: _ :: rest => (i.toNat, j.toNat) :: trip rest
    | _ => []
  let es := trip sents
  -- rows in the layout of the distributed routine: diagonal first, then ascending columns
  let S : Graph := (List.range n).map fun i =>
    let cols := ((es.filter fun e => e.1 == i).map (·.2)).toArray.qsort (· < ·) |>.toList
    (cols.filter (· == i)) ++ cols.filter (· != i)
  let base := "C15/par" ++ (if tap != 0 then "/tap" else "")
  let feats := ["par", s!"np{np}", if tap != 0 then "tap" else "std", if rows.any (· == 0) then "emptyrank" else "fullranks"] ++
               (if S.all (fun row => row.length ≤ 1) then ["trivial"] else [])
  let rec pairs : List Int → List (Nat × Int)
    | g :: l :: rest => (g.toNat, l) :: pairs rest
    | _ => []
  for (g, l) in pairs halo do
    if labels.getD g 99 != l then return specFail (base ++ "/spec/halo_label") s!"column {g}: neighbour sees {l}, owner has {labels.getD g 99}" feats
  -- number of locally rooted aggregates per rank
  let firsts := rows.foldl (fun acc l => acc ++ [acc.getLast! + l]) [0]
  let isolated (v : Nat) : Bool := ((S.getD v []).filter (· != v)).isEmpty
  for k in List.range np do
    let lo := firsts.getD k 0; let hi := firsts.getD (k+1) 0
    let cnt := ((List.range n).filter fun v => lo ≤ v && v < hi && lab labels v == 1 && !isolated v).length
    if nag.getD k (-1) != (cnt : Int) then return specFail (base ++ "/spec/aggregate_count") s!"rank {k}: returned {nag.getD k (-1)}, {cnt} local roots" feats
  let aggRoot : List (Option Nat) := (List.range n).map fun v => let a := aggs.getD v (-1); if a < 0 then none else some a.toNat
  return common base A S r labels aggRoot feats

def run (op : String) (a : Array Int) : Verdict :=
  let r := match op with
    | "seq" => runRd checkSeq a
    | "par" => runRd checkPar a
    | _ => some (badCase s!"unknown op {op}")
  r.getD (badCase "malformed")

end Raptor.Driver.C15
