import RaptorModel.Driver.Mat
import RaptorModel.Model.Spgemm
/-! Driver for C06: sparse products. Sequential: model equality on the CSR arrays (order of the
linked list included) and dense specification; distributed: gathered dense image vs the product of
the global triplets. Exact integers (`big s` ⇔ `s ≠ 0`). -/
namespace Raptor.Driver.C06
open Raptor Raptor.Driver Raptor.Sparse Raptor.Spgemm

def big (v : Int) : Bool := v != 0

def rdTrip : Rd (List (Entry Int)) := do
  let v ← rdVec
  let rec go : List Int → List (Entry Int)
    | i :: j :: x :: rest => (i.toNat, j.toNat, x) :: go rest
    | _ => []
  return go v

/-- entries of the product of two entry lists -/
def prodEntries (a b : List (Entry Int)) : List (Entry Int) :=
  a.flatMap fun ea => (b.filter fun eb => eb.1 == ea.2.1).map fun eb => (ea.1, eb.2.1, ea.2.2 * eb.2.2)

def transposeE (a : List (Entry Int)) : List (Entry Int) := a.map fun e => (e.2.1, e.1, e.2.2)

def tripToCsr (nRows nCols : Nat) (es : List (Entry Int)) : Csr Int := cooToCsr ⟨nRows, nCols, es⟩
def tripToCsc (nRows nCols : Nat) (es : List (Entry Int)) : Csc Int := cooToCsc ⟨nRows, nCols, es⟩

def checkSeq (op : String) : Rd Verdict := do
  let fa ← rdNat; let fb ← rdNat; let n ← rdNat; let k ← rdNat; let m ← rdNat
  let ta ← rdTrip; let tb ← rdTrip; let out ← rdRawMat
  let path := s!"C06/seq/{op}/{fmtName fa}x{fmtName fb}"
  let feats := [op, s!"A{fmtName fa}", s!"B{fmtName fb}"] ++ (if ta.isEmpty || tb.isEmpty then ["trivial"] else [])
  if !out.wf then return specFail (path ++ "/spec/malformed") (describe out) feats
  let aEff := if op == "spgemmT" then transposeE ta else ta      -- spgemmT: A is k x n, product is A^T B
  let want := denseOf (prodEntries aEff tb)
  if out.rows != n || out.colsN != m then
    return specFail (path ++ "/spec/dims") s!"out={out.rows}x{out.colsN} expected={n}x{m}" feats
  if out.dense != want then
    return specFail (path ++ "/spec/den") s!"out={describe out}" feats
  -- block products: the specification (operator and dimensions of the scalar expansion) is the whole check
  if out.isBlock || fa ≥ 3 then return ok (feats ++ ["block"])
  -- model equality: the harness builds COO in triplet order and CSR/CSC by stable bucketing of the
  -- triplets; the library then converts to the format the kernel needs (matmult.cpp:215-352)
  let asCsr (fmt nr nc : Nat) (es : List (Entry Int)) : Csr Int :=
    match fmt with
    | 1 => tripToCsr nr nc es
    | 0 => cooToCsr ⟨nr, nc, es⟩
    | _ => cscToCsr (tripToCsc nr nc es)
  let asCsc (fmt nr nc : Nat) (es : List (Entry Int)) : Csc Int :=
    match fmt with
    | 2 => tripToCsc nr nc es
    | 0 => cooToCsc ⟨nr, nc, es⟩
    | _ => csrToCsc (tripToCsr nr nc es)
  let model : Csr Int :=
    if op == "spgemm" then spgemm big (asCsr fa n k ta) (asCsr fb k m tb)
    else spgemmT big (asCsc fa k n ta) (asCsr fb k m tb)
  let mraw := ofCsr model false false
  if sameRaw out mraw then return ok feats
  else return diff (path ++ "/arrays") s!"impl={describe out} model={describe mraw}" feats

def checkPar (op : String) : Rd Verdict := do
  let tap ← rdNat; let style ← rdNat; let n ← rdNat; let k ← rdNat; let m ← rdNat
  let ta ← rdTrip; let tb ← rdTrip
  let ents ← rdVec
  let np ← rdNat
  let dims ← (List.range np).mapM fun _ => (List.range 16).mapM fun _ => rdInt
  let path := s!"C06/par/{op}" ++ (if tap != 0 then "/tap" else "")
  let feats := [op, s!"np{np}", if tap != 0 then "tap" else "std", s!"style{style}"] ++
               (if ta.isEmpty || tb.isEmpty then ["trivial"] else [])
  let rec trip : List Int → Option (List (Entry Int))
    | i :: j :: x :: rest => if i < 0 || j < 0 then none else (trip rest).map fun t => (i.toNat, j.toNat, x) :: t
    | [] => some []
    | _ => none
  let some got := trip ents | return specFail (path ++ "/spec/colmap") "an entry refers to a column or row outside every map" feats
  let (want, wr, wc) : List ((Nat × Nat) × Int) × Nat × Nat := match op with
    | "parmult" => (denseOf (prodEntries ta tb), n, m)
    | "parmultT" => (denseOf (prodEntries (transposeE ta) tb), k, m)       -- A is n x k, D is n x m
    | _ => (denseOf (prodEntries (transposeE tb) (prodEntries ta tb)), m, m)  -- galerkin: ta = A (n x n), tb = P (n x m)
  -- global sizes reported on every rank
  for d in dims do
    if d.getD 0 (-1) != wr || d.getD 1 (-1) != wc then
      return specFail (path ++ "/spec/global_dims") s!"reported={d.getD 0 0}x{d.getD 1 0} expected={wr}x{wc}" feats
  if (dims.map fun d => d.getD 2 0).sum != (wr : Int) then
    return specFail (path ++ "/spec/local_rows_sum") s!"sum of local rows != {wr}" feats
  -- the partition object handed to the result describes the result: its row blocks are the left factor's row blocks (column
  -- blocks for the transposed product), its column blocks the right factor's column blocks
  for (d, r) in dims.zipIdx do
    if d.getD 8 0 != d.getD 12 0 || d.getD 9 0 != d.getD 13 0 || d.getD 10 0 != d.getD 14 0 || d.getD 11 0 != d.getD 15 0 then
      return specFail (path ++ "/spec/result_partition") s!"rank {r}: partition says rows {d.getD 8 0}+{d.getD 9 0}, columns {d.getD 10 0}+{d.getD 11 0}; the factors give rows {d.getD 12 0}+{d.getD 13 0}, columns {d.getD 14 0}+{d.getD 15 0}" feats
  if got.any (fun e => e.1 ≥ wr || e.2.1 ≥ wc) then
    return specFail (path ++ "/spec/range") "entry outside the global dimensions" feats
  if denseOf got != want then
    return specFail (path ++ "/spec/den") s!"got={showList ((denseOf got).map fun p => s!"({p.1.1},{p.1.2},{p.2})")} want={showList (want.map fun p => s!"({p.1.1},{p.1.2},{p.2})")}" feats
  return ok feats

def run (op : String) (a : Array Int) : Verdict :=
  let r := if op == "spgemm" || op == "spgemmT" then runRd (checkSeq op) a else runRd (checkPar op) a
  r.getD (badCase "malformed")

end Raptor.Driver.C06
