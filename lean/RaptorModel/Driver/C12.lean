import RaptorModel.Driver.Common
import RaptorModel.Model.Interp
/-! Driver for C12: classical interpolation — injection rows, support, finiteness, constants on
zero-row-sum rows, model equality (direct, modified classical) and distributed = sequential. -/
namespace Raptor.Driver.C12
open Raptor Raptor.Driver Raptor.Interp

abbrev FRows := List (List (Nat × Float))
def rdFVec : Rd (List Float) := do let v ← rdVec; return v.map bitsToFloat
def rdCsr : Rd FRows := do
  let idx1 ← rdVec; let idx2 ← rdNatVec; let vals ← rdFVec
  let lens := (idx1.zip (idx1.drop 1)).map fun p => (p.2 - p.1).toNat
  let rec split (l : List (Nat × Float)) : List Nat → FRows
    | [] => []
    | n :: ns => l.take n :: split (l.drop n) ns
  return split (idx2.zip vals) lens

def interpName : Nat → String | 0 => "direct" | 1 => "modclassical" | _ => "extended"
def canon (rows : FRows) : FRows := rows.map fun r => (r.toArray.qsort fun a b => a.1 < b.1).toList
def closeRows (a b : FRows) : Bool :=
  a.length == b.length && (a.zip b).all fun p =>
    p.1.length == p.2.length && (p.1.zip p.2).all fun q => q.1.1 == q.2.1 && fclose 1.0 q.1.2 q.2.2

/-- specification of C12 evaluated on an interpolation operator `P` (coarse numbering) -/
def specCheck (interp : Nat) (A S : FRows) (states : List Int) (P : FRows) (pCols : Nat) (nv : Nat := 1) : Option (String × String) := Id.run do
  let n := A.length
  let nC := ((List.range n).filter (isC states)).length
  if P.length != n then return some ("rows", s!"P has {P.length} rows, A has {n}")
  if pCols != nC then return some ("cols", s!"P has {pCols} columns, {nC} coarse points")
  let cList := (List.range n).filter (isC states)        -- coarse index -> fine index
  for i in List.range n do
    let row := P.getD i []
    if row.any (fun e => !e.2.isFinite) then return some ("nonfinite", s!"row {i}: {repr row}")
    if row.any (fun e => e.1 ≥ nC) then return some ("col_range", s!"row {i}: {repr row}")
    if isC states i then
      -- injection, in coarse numbering order
      if row != [(colToNew states i, 1.0)] then return some ("injection", s!"coarse point {i}: row {repr row}, expected [({colToNew states i}, 1)]")
    else
      let strong := (S.getD i []).map (·.1) |>.filter (· != i)
      let strongC := strong.filter (isC states)
      let reach := if interp == 2 then
          (strongC ++ (strong.filter (isF states)).flatMap fun k => ((S.getD k []).map (·.1)).filter fun c => c != k && isC states c).eraseDups
        else strongC
      for e in row do
        let fineIdx := cList.getD e.1 n
        if !reach.contains fineIdx then
          return some ("support", s!"fine point {i} interpolates from coarse point {fineIdx}, not reachable through its strong connections {repr reach}")
      if (row.map (·.1)).eraseDups.length != row.length then return some ("dup_col", s!"row {i}")
      -- constants on zero-row-sum M-matrix rows with a strong negative coarse neighbour
      let arow := A.getD i []
      let rs := arow.foldl (fun s e => s + e.2) 0
      let hasNegC := strongC.any fun c => ((arow.find? fun e => e.1 == c).map (·.2)).getD 0 < 0
      let mrow := (arow.all fun e => if e.1 == i then e.2 > 0 else e.2 ≤ 0)
      -- strong neighbours that are neither coarse nor fine (isolated labels) are outside the claim
      let cleanNbrs := strong.all fun j => isC states j || isF states j
      let cleanNbrs2 := interp != 2 || (strong.filter (isF states)).all fun k => ((S.getD k []).map (·.1)).all fun c => isC states c || isF states c
      -- (with several unknowns per node the couplings to other unknowns are left out of the weights by design)
      if nv ≤ 1 && isF states i && rs == 0 && hasNegC && mrow && cleanNbrs && cleanNbrs2 then
        let ps := row.foldl (fun s e => s + e.2) 0
        -- input class: the row has a (weak) neighbour that the distributed splittings label "no strong dependency of
        -- its own" (neither coarse nor fine): the distributed routines leave such couplings out of the lumped diagonal
        let isoNbr := arow.any fun e => e.1 != i && !(isC states e.1 || isF states e.1)
        if !((ps - 1).abs ≤ 1e-10) then
          return some (if isoNbr then "rowsum/isolated_neighbour" else "rowsum", s!"fine point {i}: zero row sum in A, weights sum to {ps}")
  return none

def checkSeq : Rd Verdict := do
  let interp ← rdNat; let n ← rdNat; let _θ ← rdInt; let nv ← rdNat; let _thr ← rdInt
  let A ← rdCsr; let S ← rdCsr; let states ← rdVec; let P ← rdCsr; let pr ← rdNat; let pc ← rdNat
  let base := s!"C12/seq/{interpName interp}" ++ (if nv > 1 then "/multivar" else "")
  let feats := ["seq", interpName interp, s!"vars{nv}"] ++ (if n ≤ 1 || !(states.contains 0 && states.contains 1) then ["trivial"] else [])
  if pr != n then return specFail (base ++ "/spec/rows") s!"n_rows={pr}" feats
  match specCheck interp A S states P pc nv with
  | some (cl, msg) => return specFail (base ++ "/spec/" ++ cl) msg feats
  | none => pure ()
  if nv ≤ 1 then
    let m := if interp == 0 then direct states A S else if interp == 1 then modClassical (fun (x : Float) => x.abs < 1e-16) states A S
             else extended (fun (x : Float) => x.abs < 1e-16) states A S
    if !closeRows (canon m) (canon P) then return diff (base ++ "/weights") s!"impl={repr (canon P)} model={repr (canon m)} states={showList states}" feats
  return ok feats

def checkPar : Rd Verdict := do
  let interp ← rdNat; let n ← rdNat; let np ← rdNat; let tap ← rdNat; let _θ ← rdInt; let nv ← rdNat; let thrB ← rdInt
  let thr := bitsToFloat thrB
  let A ← rdCsr
  let sents ← rdVec; let states ← rdVec; let pents ← rdVec
  let pents0 ← rdVec
  let pdims ← (List.range np).mapM fun _ => do let a ← rdInt; let b ← rdInt; let c ← rdInt; let d ← rdInt; pure (a, b, c, d)
  let Pseq ← rdCsr
  let base := s!"C12/par/{interpName interp}" ++ (if tap != 0 then "/tap" else "") ++ (if nv > 1 then "/multivar" else "") ++ (if thr != 0 then "/truncated" else "")
  let feats := ["par", interpName interp, s!"np{np}", if tap != 0 then "tap" else "std", s!"vars{nv}",
                if pdims.any (fun d => d.2.2.1 == 0) then "emptyrank" else "fullranks"] ++
               (if n ≤ 1 || !(states.contains 0 && states.contains 1) then ["trivial"] else [])
  let rec trip : List Int → List (Int × Int × Float)
    | i :: j :: v :: rest => (i, j, bitsToFloat v) :: trip rest
    | _ => []
  let nC := ((List.range n).filter (isC states)).length
  -- strength pattern with A's values
  let se := trip sents
  let S : FRows := (List.range n).map fun (i : Nat) =>
    let cols := (se.filter fun e => e.1 == Int.ofNat i).map fun e => e.2.1.toNat
    let row := ((A.getD i []).filter fun e => cols.contains e.1)
    match row.find? (fun e => e.1 == i) with
    | some d => d :: row.filter (fun e => e.1 != i)
    | none => row
  -- P's columns are identified by the fine index of the coarse point: translate to coarse numbering
  let pe := trip pents
  if pe.any (fun e => e.1 < 0 || e.2.1 < 0 || e.1.toNat ≥ n || e.2.1.toNat ≥ n || !isC states e.2.1.toNat) then
    return specFail (base ++ "/spec/col_ids") "an entry of P refers to a row outside the matrix or to a column that is not a coarse point" feats
  let P : FRows := (List.range n).map fun (i : Nat) => (pe.filter fun e => e.1 == Int.ofNat i).map fun e => (colToNew states e.2.1.toNat, e.2.2)
  for d in pdims do
    if d.1 != (n : Int) || d.2.1 != (nC : Int) then
      return specFail (base ++ "/spec/global_dims") s!"P reported {d.1}x{d.2.1}, expected {n}x{nC}" feats
  match specCheck interp A S states P nC nv with
  | some (cl, msg) => return specFail (base ++ "/spec/" ++ cl) msg feats
  | none => pure ()
  -- equal to the sequential operator built from the same matrix, strength pattern and splitting
  -- rows whose strong neighbourhood contains a point that is neither coarse nor fine (the distributed
  -- splittings' label for decoupled points, which no sequential splitting produces) are outside the claim
  let clean (i : Nat) : Bool :=
    let strong := ((S.getD i []).map (·.1)).filter (· != i)
    ((A.getD i []).map (·.1)).all (fun j => isC states j || isF states j) &&
    (strong.filter (isF states)).all (fun k => ((A.getD k []).map (·.1)).all fun c => isC states c || isF states c) &&
    (interp != 2 || (strong.filter (isF states)).all fun k => ((S.getD k []).map (·.1)).all fun c => isC states c || isF states c)
  -- truncation of small weights exists only in the distributed routine: the truncated operator must be the untruncated
  -- one with the entries below thr * (largest magnitude of the row) removed and the others rescaled to the old row sum
  if thr != 0 then
    let pe0 := trip pents0
    let P0 : FRows := (List.range n).map fun (i : Nat) => (pe0.filter fun e => e.1 == Int.ofNat i).map fun e => (colToNew states e.2.1.toNat, e.2.2)
    let truncRow (row : List (Nat × Float)) : List (Nat × Float) :=
      let mx := (row.foldl (fun m e => if e.2.abs > m then e.2.abs else m) 0) * thr
      let kept := row.filter fun e => e.2.abs ≥ mx
      let sAll := row.foldl (fun a e => a + e.2) 0; let sKept := kept.foldl (fun a e => a + e.2) 0
      if sKept.abs > 1e-16 && (sAll - sKept).abs > 1e-16 then kept.map fun e => (e.1, e.2 * (sAll / sKept)) else kept
    if !closeRows (canon (P0.map truncRow)) (canon P) then
      return specFail (base ++ "/spec/truncation") s!"truncated={repr (canon P)} definition applied to the untruncated operator={repr (canon (P0.map truncRow))}" feats
    return ok (feats ++ ["truncated"])
  let rowsToCompare := (List.range n).filter fun i => isC states i || (isF states i && clean i)
  let pick (R : FRows) : FRows := rowsToCompare.map fun i => R.getD i []
  if !closeRows (canon (pick P)) (canon (pick Pseq)) then
    return specFail (base ++ "/spec/par_vs_seq") s!"par={repr (canon P)} seq={repr (canon Pseq)} states={showList states}" feats
  return ok feats

def run (op : String) (a : Array Int) : Verdict :=
  let r := match op with
    | "seq" => runRd checkSeq a
    | "par" => runRd checkPar a
    | _ => some (badCase s!"unknown op {op}")
  r.getD (badCase "malformed")

end Raptor.Driver.C12
