import RaptorModel.Driver.Common
import RaptorModel.Model.Split
import RaptorModel.Model.RS
/-! Driver for C13: splittings — totality, halo agreement, the Ruge–Stüben neighbour property, and
equality of the PMIS / CLJP labels with the round-based model (hence with every partition). -/
namespace Raptor.Driver.C13
open Raptor Raptor.Driver Raptor.Split

def rdFVec : Rd (List Float) := do let v ← rdVec; return v.map bitsToFloat

def splitName : Nat → String | 0 => "rs" | 1 => "cljp" | 2 => "falgout" | 3 => "pmis" | _ => "hmis"

def natF (n : Nat) : Float := n.toFloat

def showL (l : List Int) : String := showList l

def common (base : String) (split : Nat) (S : Graph) (w : List Float) (labels : List Int) (feats : List String) : Verdict :=
  if !total S labels then specFail (base ++ "/spec/total") s!"labels={showL labels} graph={repr S}" feats
  else if split == 0 && !fineHasCoarse S labels then
    specFail (base ++ "/spec/fine_without_coarse_neighbour") s!"labels={showL labels} graph={repr S}" feats
  else if split == 0 && hasUsableEdge S && !(labels.contains 1 && labels.contains 0) then
    specFail (base ++ "/spec/no_coarse_or_no_fine") s!"labels={showL labels} graph={repr S}" feats
  else if split == 3 || split == 1 then
    let m := if split == 3 then pmis S w natF else cljp S w natF
    -- isolated points (no strong dependency of their own) are outside the claim
    let isolated (i : Nat) : Bool := (S.getD i []).isEmpty
    let bad := (List.range S.length).filter fun i => !isolated i && m.getD i 9 != labels.getD i 8
    -- input class of a recorded finding: a vertex without own dependency that others depend on
    let isoTarget := (List.range S.length).any fun v => (S.getD v []).isEmpty && !(dependents S v).isEmpty
    if bad.isEmpty then ok (feats ++ (if isoTarget then ["isolated_target"] else []))
    else diff (base ++ "/labels" ++ (if isoTarget then "/isolated_targets" else "")) s!"vertices {showList bad}: impl={showL labels} model={showL m} w={showList (w.map toString)} graph={repr S}" feats
  else ok feats

def checkSeq : Rd Verdict := do
  let split ← rdNat; let n ← rdNat
  let idx1 ← rdVec; let idx2 ← rdNatVec; let _vals ← rdVec
  let w ← rdFVec; let labels ← rdVec
  let lens := (idx1.zip (idx1.drop 1)).map fun p => (p.2 - p.1).toNat
  let rec splitL (l : List Nat) : List Nat → List (List Nat)
    | [] => []
    | k :: ks => l.take k :: splitL (l.drop k) ks
  let rows := splitL idx2 lens
  let S : Graph := rows.zipIdx.map fun (r, i) => r.filter (· != i)
  let feats := ["seq", splitName split] ++ (if S.all List.isEmpty then ["trivial"] else []) ++
               (if labels.contains 1 && labels.contains 0 then ["mixed"] else ["uniform"])
  let _ := n
  let v := common s!"C13/seq/{splitName split}" split S w labels feats
  if split != 0 || v.status != "ok" then return v
  -- Ruge–Stüben: the bucket machine of the model, visit by visit; its visit order must cover every column (the
  -- hypothesis of `C13RS.firstPass_total`), and its labels are the implementation's
  if rows.zipIdx.any (fun (r, i) => r.head? != some i) then return badCase "a strength row without leading diagonal"
  let fp := RS.firstPass S (List.replicate S.length (-1))
  if !(List.range S.length).all (fun c => fp.2.contains c) then
    return diff "C13/seq/rs/certificate/visit_order" s!"visited {repr fp.2} graph={repr S}" feats
  -- second certificate (hypothesis of `C13RS.splitRS_mixed`): when the graph has an edge, the first column visited has a
  -- dependent other than itself
  if S.any (fun r => !r.isEmpty) then
    match fp.2 with
    | c0 :: _ => if (dependents S c0).all (· == c0) then
        return diff "C13/seq/rs/certificate/first_visit" s!"first visited column {c0} has no dependent; graph={repr S}" feats
    | [] => return diff "C13/seq/rs/certificate/first_visit" "no column visited" feats
  let m := RS.splitRS S true
  if m != labels then
    return diff "C13/seq/rs/labels" s!"impl={showL labels} model={showL m} first pass={showL fp.1.labels} order={repr fp.2} graph={repr S}" feats
  return ok (feats ++ ["rs_model"] ++ (if fp.1.labels != m then ["second_pass_promotes"] else []))

def checkPar : Rd Verdict := do
  let split ← rdNat; let n ← rdNat; let np ← rdNat; let tap ← rdNat
  let sents ← rdVec; let w ← rdFVec; let labels ← rdVec; let halo ← rdVec; let rows ← rdNatVec
  let seqLabels ← rdVec
  let rec trip : List Int → List (Nat × Nat)
    | i :: j :: _ :: rest => (i.toNat, j.toNat) :: trip rest
    | _ => []
  let es := trip sents
  let S : Graph := (List.range n).map fun i => ((es.filter fun e => e.1 == i && e.2 != i).map (·.2))
  let base := s!"C13/par/{splitName split}" ++ (if tap != 0 then "/tap" else "")
  let feats := ["par", splitName split, s!"np{np}", if tap != 0 then "tap" else "std",
                if rows.any (· == 0) then "emptyrank" else "fullranks"] ++ (if S.all List.isEmpty then ["trivial"] else []) ++
               (if halo.isEmpty then ["no_boundary"] else ["boundary"])
  -- each process's view of its neighbours' labels equals the owners' labels
  let rec pairs : List Int → List (Nat × Int)
    | g :: l :: rest => (g.toNat, l) :: pairs rest
    | _ => []
  for (g, l) in pairs halo do
    if labels.getD g 99 != l then
      return specFail (base ++ "/spec/halo_label") s!"column {g}: a neighbour sees {l}, the owner has {labels.getD g 99}" feats
  -- CLJP / PMIS: distributed labels of the non-isolated points = labels of the real sequential routine (same weights).
  -- Graphs with a vertex nobody's own dependency reaches are the input class of a recorded finding and go on to `common`.
  let isoTarget := (List.range S.length).any fun v => (S.getD v []).isEmpty && !(dependents S v).isEmpty
  if (split == 1 || split == 3) && seqLabels.length == n && !isoTarget then
    let bad := (List.range n).filter fun i => !(S.getD i []).isEmpty && seqLabels.getD i 9 != labels.getD i 8
    if !bad.isEmpty then
      return specFail (base ++ "/spec/par_eq_seq") s!"vertices {showList bad}: distributed={showL labels} sequential={showL seqLabels} w={showList (w.map toString)} graph={repr S} rows per rank={showList rows}" feats
  return common base split S w labels feats

def run (op : String) (a : Array Int) : Verdict :=
  let r := match op with
    | "seq" => runRd checkSeq a
    | "par" => runRd checkPar a
    | _ => some (badCase s!"unknown op {op}")
  r.getD (badCase "malformed")

end Raptor.Driver.C13
