import RaptorModel.Driver.Mat
import RaptorModel.Model.Tap
/-! Driver for C04: evaluates the certificate on the dumped node-aware packages and compares the
standard and node-aware results of every operation run both ways. -/
namespace Raptor.Driver.C04
open Raptor Raptor.Driver Raptor.Tap

/-- one dumped sub-package of one rank: send procs | send indptr | send indices | recv procs | recv indptr | recv indices -/
def rdSub : Rd SubPkg := do
  let sp ← rdNatVec; let si ← rdNatVec; let sx ← rdNatVec
  let rp ← rdNatVec; let ri ← rdNatVec; let rx ← rdNatVec
  let lens (ptr : List Nat) := (ptr.zip (ptr.drop 1)).map fun p => p.2 - p.1
  let rec split (l : List Nat) : List Nat → List (List Nat)
    | [] => []
    | n :: ns => l.take n :: split (l.drop n) ns
  return { send := sp.zip (split sx (lens si)), recv := rp.zip (lens ri), recvIdx := rx }

def checkCert : Rd Verdict := do
  let formS ← rdNat; let derived ← rdNat; let ppn ← rdNat; let ord ← rdNat; let np ← rdNat
  let fc ← rdNatVec
  let off ← (List.range np).mapM fun _ => rdNatVec
  let L ← (List.range np).mapM fun _ => rdSub
  let S ← (List.range np).mapM fun _ => rdSub
  let G ← (List.range np).mapM fun _ => rdSub
  let R ← (List.range np).mapM fun _ => rdSub
  let rs ← (List.range np).mapM fun _ => rdNat
  let T : TapPkg := { np, hasS := formS != 0, L, S, G, R, recvSize := rs }
  let path := s!"C04/cert/{if formS != 0 then "3step" else "2step"}" ++ (if derived != 0 then "/derived" else "") ++
              s!"/ord{ord}" ++ (if np % ppn != 0 && np > ppn then "/ragged" else "")
  let feats := ["cert", if formS != 0 then "3step" else "2step", if derived != 0 then "derived" else "direct",
                s!"np{np}", s!"ppn{ppn}", s!"ord{ord}",
                if (fc.zip (fc.drop 1)).any (fun p => p.1 == p.2) then "emptyrank" else "fullranks"] ++
               (if off.all List.isEmpty then ["trivial"] else []) ++
               (if G.all (fun g => g.send.isEmpty) then ["single_node_traffic"] else ["inter_node"])
  for r in List.range np do
    if rs.getD r 0 != (off.getD r []).length then
      return specFail (path ++ "/spec/recv_size") s!"rank{r} recv_size={rs.getD r 0} off={(off.getD r []).length}" feats
  for (name, pk) in [("L", L), ("S", S), ("G", G), ("R", R)] do
    if (name != "S" || formS != 0) && !subConsistent np pk then
      return specFail (path ++ s!"/spec/consistent_{name}") s!"{name} = {repr pk}" feats
  for r in List.range np do
    let got := tapForward 0 T (ids fc np) r
    if got != (off.getD r []).map some then
      return specFail (path ++ "/spec/routing") s!"rank{r} identity payload arrives as {showList (got.map fun o => match o with | some v => toString v | none => "_")} expected {showList (off.getD r [])}" feats
  if !routesShifted fc off T then
    return specFail (path ++ "/spec/routing_shifted") "a send index is out of range (the default value was delivered)" feats
  return ok feats

def opName : Nat → String
  | 0 => "mult" | 1 => "mult_T" | 2 => "residual" | 3 => "mult_append" | 4 => "spgemm" | _ => "spgemm_T"

def checkDiffVec (isMat : Bool) : Rd Verdict := do
  let k ← rdNat; let np ← rdNat
  let a ← rdVec; let b ← rdVec
  let path := s!"C04/diff/{opName k}"
  let feats := ["diff", opName k, s!"np{np}"] ++ (if a.all (· == 0) then ["trivial"] else [])
  if !isMat then
    if a != b then return specFail (path ++ "/spec/equal") s!"std={showList a} tap={showList b}" feats
    return ok feats
  else
    let rec ents : List Int → List (Sparse.Entry Int)
      | i :: j :: v :: t => (i.toNat, j.toNat, v) :: ents t
      | _ => []
    if denseOf (ents a) != denseOf (ents b) then
      return specFail (path ++ "/spec/equal") s!"std={showList a} tap={showList b}" feats
    return ok feats

def checkDiffAmg : Rd Verdict := do
  let variant ← rdNat; let np ← rdNat
  let sa ← rdVec; let sb ← rdVec
  let ra ← rdVec; let rb ← rdVec
  let path := "C04/diff/amg"
  let feats := ["diff", "amg", s!"np{np}", s!"variant{variant}"]
  -- per-rank (global rows, local nnz) per level: global rows must agree rank by rank; total nnz per level must agree
  if sa != sb then return specFail (path ++ "/spec/hierarchy") s!"std={showList sa} tap={showList sb}" feats
  if ra.length != rb.length then return specFail (path ++ "/spec/iterations") s!"std={ra.length} tap={rb.length}" feats
  let fa := ra.map bitsToFloat; let fb := rb.map bitsToFloat
  for (x, y) in fa.zip fb do
    if !((x - y).abs ≤ 1e-8 * (x.abs + y.abs) + 1e-14) then
      return specFail (path ++ "/spec/residuals") s!"std={x} tap={y}" feats
  return ok feats

def run (op : String) (a : Array Int) : Verdict :=
  let r := match op with
    | "cert" => runRd checkCert a
    | "diffvec" => runRd (checkDiffVec false) a
    | "diffmat" => runRd (checkDiffVec true) a
    | "diffamg" => runRd checkDiffAmg a
    | _ => some (badCase s!"unknown op {op}")
  r.getD (badCase "malformed")

end Raptor.Driver.C04
