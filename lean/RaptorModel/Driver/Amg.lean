import RaptorModel.Driver.Common
import RaptorModel.Model.Cycle
import RaptorModel.Model.Setup
import RaptorModel.Model.Strength
/-! Driver for the AMG properties C01, C08, C09, C10: parses dumped hierarchies, replays cycles
with the executable model at `Float`, evaluates the stop logic and the specification predicates. -/
namespace Raptor.Driver.Amg
open Raptor Raptor.Driver Raptor.Relax Raptor.Cycle

abbrev FRows := List (List (Nat × Float))

def rdFVec : Rd (List Float) := do let v ← rdVec; return v.map bitsToFloat
def showF (l : List Float) : String := showList ((l.take 12).map toString)

def closeVecTol (tol : Float) (a b : List Float) : Bool :=
  a.length == b.length &&
  let scale := (a.map Float.abs).foldl max ((b.map Float.abs).foldl max 0)
  (a.zip b).all fun p =>
    if p.1.isNaN || p.2.isNaN then p.1.isNaN && p.2.isNaN else (p.1 - p.2).abs ≤ tol * (scale + 1e-300) + 1e-300

structure Opts where
  (solver coarsen interp relax sweeps maxCoarse maxLevels : Nat) (tap : Int) (maxIter : Nat)
  (weight theta tol : Float) (kind np : Nat) (seq : Bool)

def rdOpts : Rd Opts := do
  let v ← rdVec
  let n (k : Nat) := (v.getD k 0).toNat
  return { solver := n 0, coarsen := n 1, interp := n 2, relax := n 3, sweeps := n 4, maxCoarse := n 5,
           maxLevels := n 6, tap := v.getD 7 0, maxIter := n 8, weight := bitsToFloat (v.getD 9 0),
           theta := bitsToFloat (v.getD 10 0), tol := bitsToFloat (v.getD 11 0), kind := n 12, np := n 13, seq := n 14 != 0 }

def optFeats (o : Opts) : List String :=
  [if o.solver == 0 then "RS" else "SA", s!"coarsen{o.coarsen}", s!"interp{o.interp}",
   match o.relax with | 0 => "jacobi" | 1 => "sor" | _ => "ssor", s!"np{o.np}", s!"kind{o.kind}",
   if o.tap ≥ 0 then "tap" else "std", if o.seq then "sequential_classes" else "distributed_classes"]

/-- triplets `(i, j, bits)*` -/
def trips : List Int → List (Nat × Nat × Float)
  | i :: j :: v :: rest =>
    -- an identifier no rank owns was dumped as -1: keep it visible as an out-of-range index
    ((if i < 0 then 1000000007 else i.toNat), (if j < 0 then 1000000007 else j.toNat), bitsToFloat v) :: trips rest
  | _ => []

/-- rows (sorted by column) of an `n`-row matrix given by triplets; duplicates are kept -/
def rowsOf (n : Nat) (es : List (Nat × Nat × Float)) : FRows :=
  let arr : Array (List (Nat × Float)) := es.foldl (fun a e => if e.1 < a.size then a.modify e.1 (fun l => (e.2.1, e.2.2) :: l) else a) (Array.replicate n [])
  arr.toList.map fun l => (l.toArray.qsort (fun a b => a.1 < b.1)).toList

structure LevelD where
  n : Nat
  firsts : List Nat                 -- np+1 row offsets (contiguous blocks in rank order)
  info : List (List Int)            -- per rank: the 15 dumped integers
  A : FRows
  hasP : Bool
  P : FRows
  nc : Nat
  aTrips : List (Nat × Nat × Float)
  pTrips : List (Nat × Nat × Float)

def rdLevel (np : Nat) : Rd LevelD := do
  let infoFlat ← rdVec
  let info := (List.range np).map fun r => (infoFlat.drop (15 * r)).take 15
  let at_ ← rdVec
  let hasP ← rdNat
  let pt ← rdVec
  let lrs := info.map fun i => (i.getD 0 0).toNat
  let firsts := lrs.foldl (fun acc l => acc ++ [acc.getLast! + l]) [0]
  let n := firsts.getLast!
  let aT := trips at_; let pT := trips pt
  let nc := (info.map fun i => (i.getD 9 0).toNat).sum
  return { n, firsts, info, A := rowsOf n aT, hasP := hasP != 0, P := rowsOf n pT, nc := if hasP != 0 then nc else 0,
           aTrips := aT, pTrips := pT }

def rdHierarchy (np : Nat) : Rd (List LevelD) := do
  let nl ← rdNat
  (List.range nl).mapM fun _ => rdLevel np

/-- dense image of triplets as a sorted association list, entries of magnitude ≤ `tol` dropped -/
def denseF (es : List (Nat × Nat × Float)) (tol : Float) : List ((Nat × Nat) × Float) :=
  let sorted := es.toArray.qsort (fun a b => a.1 < b.1 || (a.1 == b.1 && a.2.1 < b.2.1)) |>.toList
  let merged := sorted.foldl (fun (acc : List ((Nat × Nat) × Float)) e =>
    match acc with
    | ((i, j), s) :: tl => if i == e.1 && j == e.2.1 then ((i, j), s + e.2.2) :: tl else ((e.1, e.2.1), e.2.2) :: acc
    | [] => [((e.1, e.2.1), e.2.2)]) []
  (merged.filter fun p => p.2.abs > tol).reverse

/-- Galerkin identity `A_{k+1} = Pᵀ (A P)` on consecutive dumped levels, with the library's product models at `Float`;
    `some message` names the first entry that differs by more than rounding / the drop tolerance -/
def galerkinDefect (H : List LevelD) : Option String := Id.run do
  for (l, k) in H.zipIdx do
    match H[k+1]? with
    | none => pure ()
    | some c =>
      if !l.hasP then continue
      if l.aTrips.any (fun e => e.1 ≥ l.n || e.2.1 ≥ l.n) || l.pTrips.any (fun e => e.1 ≥ l.n || e.2.1 ≥ c.n) then continue
      let pap := (Setup.galerkin (fun _ => true) (⟨l.n, l.n, l.A⟩ : Sparse.Csr Float) ⟨l.n, c.n, l.P⟩).entries
      let scale := (c.aTrips.map fun e => e.2.2.abs).foldl max 1e-300
      let want := denseF pap (1e-9 * scale); let got := denseF c.aTrips (1e-9 * scale)
      let keys := (want.map (·.1)) ++ (got.map (·.1))
      for key in keys.eraseDups do
        let w := ((want.find? fun p => p.1 == key).map (·.2)).getD 0
        let g := ((got.find? fun p => p.1 == key).map (·.2)).getD 0
        -- entries below 1e-16 may be dropped by the products (the property says so): absolute allowance
        if !((w - g).abs ≤ 1e-8 * scale + 1e-15) then
          return some s!"level {k+1} entry {key}: stored {g}, P^T A P gives {w}"
  return none

/-! ### partition-aware relaxation: every rank sweeps its own block with the halo frozen -/

/-- move the diagonal entry of local row `i` first -/
def diagFirst (i : Nat) (row : List (Nat × Float)) : List (Nat × Float) :=
  match row.find? (fun e => e.1 == i) with
  | some d => d :: row.filter (fun e => e.1 != i)
  | none => row

def parSweep (kind : Nat) (A : FRows) (firsts : List Nat) (b : List Float) (ω : Float) (xs : List Float) : List Float :=
  let np := firsts.length - 1
  let parts := (List.range np).map fun r =>
    let f := firsts.getD r 0; let l := firsts.getD (r+1) 0 - f
    let rows := (A.drop f).take l
    let on := rows.zipIdx.map fun (row, i) => diagFirst i ((row.filter fun e => f ≤ e.1 && e.1 < f + l).map fun e => (e.1 - f, e.2))
    let offG := rows.map fun row => row.filter fun e => !(f ≤ e.1 && e.1 < f + l)
    let offMap := (offG.flatten.map (·.1)).toArray.qsort (· < ·) |>.toList.eraseDups
    let off := offG.map fun row => row.map fun e => (offMap.idxOf e.1, e.2)
    let xl := (xs.drop f).take l; let bl := (b.drop f).take l
    let dist := offMap.map fun gcol => xs.getD gcol 0
    match kind with
    | 0 => hybridJacobi (fun d => d.abs > 1e-16) on off bl dist ω xl
    | 1 => hybridForward on off bl dist ω xl
    | _ => hybridBackward on off bl dist ω (hybridForward on off bl dist ω xl)
  parts.flatten

/-- dense solve by Gaussian elimination with partial pivoting (stands for LAPACK dgetrf/dgetrs) -/
def denseSolve (A : FRows) (b : List Float) : List Float := Id.run do
  let n := A.length
  let mut M : Array (Array Float) := (A.zip b).toArray.map fun (row, bi) =>
    let r : Array Float := row.foldl (fun a e => if e.1 < n then a.modify e.1 (· + e.2) else a) (Array.replicate n 0.0)
    r.push bi
  for k in [0:n] do
    let mut piv := k
    for i in [k+1:n] do
      if (M[i]!)[k]!.abs > (M[piv]!)[k]!.abs then piv := i
    let tmp := M[k]!; M := M.set! k M[piv]!; M := M.set! piv tmp
    let pk := (M[k]!)[k]!
    for i in [k+1:n] do
      let f := (M[i]!)[k]! / pk
      if f != 0 then
        let rowk := M[k]!
        M := M.modify i fun ri => (ri.zip rowk).map fun p => p.1 - f * p.2
  let mut x : Array Float := Array.replicate n 0.0
  for kk in [0:n] do
    let k := n - 1 - kk
    let row := M[k]!
    let mut s := row[n]!
    for j in [k+1:n] do s := s - row[j]! * x[j]!
    x := x.set! k (s / row[k]!)
  return x.toList

/-- the model cycle on a dumped hierarchy -/
def modelCycle (o : Opts) (H : List LevelD) (x b : List Float) : List Float :=
  match H.reverse with
  | [] => x
  | coarsest :: upRev =>
    let up := upRev.reverse
    let levels : List (Level Float) := up.map fun l => { A := l.A, P := l.P, nc := l.nc }
    let relax (A : FRows) (bb xx : List Float) : List Float :=
      match up.find? (fun l => l.A == A) with
      | some l => iter (parSweep o.relax l.A l.firsts bb o.weight) o.sweeps xx
      | none => xx
    cycle relax (fun bb => denseSolve coarsest.A bb) levels x b

def mulVecF (A : FRows) (x : List Float) : List Float := A.map fun row => row.foldl (fun s e => s + e.2 * x.getD e.1 0) 0
def norm2 (v : List Float) : Float := (v.foldl (fun s a => s + a * a) 0).sqrt
def relresF (A : FRows) (x b : List Float) : Float :=
  let r := (b.zip (mulVecF A x)).map fun p => p.1 - p.2
  let nb := norm2 b
  if nb.abs > 0 then norm2 r / nb else norm2 r      -- relative to any nonzero right-hand side, however small

/-- rounding uncertainty of *any* evaluation of the relative residual in double precision, `ε · ‖ |A||x| + |b| ‖ / ‖b‖`:
    on a nearly singular system (`|x|` around 1e13 for `|b|` around 1) two correct evaluations of `b − A x` differ by this
    much, and "the true residual" is known only up to it -/
def relresNoise (A : FRows) (x b : List Float) : Float :=
  let ax := A.map fun row => row.foldl (fun s e => s + e.2.abs * (x.getD e.1 0).abs) 0
  let v := (b.zip ax).map fun p => p.1.abs + p.2
  let nb := norm2 b
  let r := if nb.abs > 0 then norm2 v / nb else norm2 v
  if r.isFinite then 2e-15 * r else 0

/-! ### C09 -/

/-- doubles arrive as 64-bit patterns, printed signed or unsigned: normalise before comparing -/
def nb (l : List Int) : List Int := l.map (· % 18446744073709551616)

structure Rec where
  kind : Nat
  (x0 b0 xo bo : List Float)
  (xoBits boBits b0Bits : List Int)

def checkHistory : Rd Verdict := do
  let o ← rdOpts
  let sameH ← rdNat
  let aBefore ← rdVec; let aAfter ← rdVec
  let a ← rdInt; let c ← rdInt
  let nrec ← rdNat
  let recs ← (List.range nrec).mapM fun _ => do
    let kind ← rdNat; let x0 ← rdVec; let b0 ← rdVec; let xo ← rdVec; let bo ← rdVec
    pure ({ kind, x0 := x0.map bitsToFloat, b0 := b0.map bitsToFloat, xo := xo.map bitsToFloat, bo := bo.map bitsToFloat,
            xoBits := nb xo, boBits := nb bo, b0Bits := nb b0 } : Rec)
  let H ← rdHierarchy o.np
  let fa := bitsToFloat a; let fc := bitsToFloat c
  let base := "C09/" ++ (if o.seq then "seq/" else "") ++ (if o.solver == 0 then "RS" else "SA")
  let n := (H.head?.map (·.n)).getD 0
  let feats := "history" :: optFeats o ++ [s!"levels{H.length}"] ++ (if n ≤ 1 then ["trivial"] else [])
  -- nothing the caller owns is altered by solving
  if nb aBefore != nb aAfter then return specFail (base ++ "/spec/user_matrix_altered") "" feats
  if sameH == 0 then return specFail (base ++ "/spec/hierarchy_altered") "" feats
  for r in recs do
    if r.boBits != r.b0Bits then return specFail (base ++ s!"/spec/rhs_altered/op{r.kind}") s!"b0={showF r.b0} after={showF r.bo}" feats
  -- history-free: identical input, identical output (bit for bit), wherever it occurs in the history
  let cyc := recs.filter fun r => r.kind ≤ 4 || r.kind ≥ 8
  for r in cyc do
    for s in cyc do
      if r.x0 == s.x0 && r.b0 == s.b0 && r.xoBits != s.xoBits then
        return specFail (base ++ "/spec/history_dependent") s!"same (x,b) gave {showF r.xo} and later {showF s.xo}" feats
  -- homogeneity under an exactly representable scaling (2^-62 and 2^40): cycle(s x, s b) = s cycle(x, b)
  for r in cyc do
    if r.kind ≥ 8 then
      match cyc.find? (·.kind == 0) with
      | some r1 =>
        let sc := Float.scaleB 1.0 (if r.kind == 8 then -62 else 40)
        let want := r1.xo.map (· * sc)
        if !closeVecTol 1e-9 want r.xo then
          return specFail (base ++ "/spec/linear/scaled") s!"s={sc} cycle(s x1, s b1)={showF r.xo} s cycle(x1,b1)={showF want}" feats
      | none => pure ()
  -- model equality: each cycle as an independent pure call on the dumped hierarchy
  for r in cyc do
    let m := modelCycle o H r.x0 r.b0
    -- a hierarchy whose coarsest operator is singular (decoupled systems coarsened down to the depth limit until the
    -- Galerkin entries fall under the drop tolerance) defines no cycle: the exact evaluation is not a number
    if m.any (fun v => !v.isFinite) then return ok (feats ++ ["trivial", "singular_coarsest_operator"])
    if !closeVecTol 1e-7 m r.xo then
      return diff (base ++ "/cycle") s!"op{r.kind} impl={showF r.xo} model={showF m} x0={showF r.x0} b={showF r.b0}" feats
  -- linearity on the implementation's outputs
  match cyc.find? (·.kind == 0), cyc.find? (·.kind == 1), cyc.find? (·.kind == 2) with
  | some r1, some r2, some r3 =>
    let want := (r1.xo.zip r2.xo).map fun p => fa * p.1 + fc * p.2
    if !closeVecTol 1e-7 want r3.xo then
      return specFail (base ++ "/spec/linear") s!"a={fa} c={fc} cycle(a x1+c x2)={showF r3.xo} a cycle(x1)+c cycle(x2)={showF want}" feats
  | _, _, _ => pure ()
  -- the exact solution is a fixed point
  match cyc.find? (·.kind == 3) with
  | some r => if !closeVecTol 1e-7 r.x0 r.xo then
      return specFail (base ++ "/spec/fixed_point") s!"x*={showF r.x0} cycle(x*,Ax*)={showF r.xo}" feats
  | none => pure ()
  -- a one-level hierarchy is an exact solve
  if H.length == 1 then
    match H.head? with
    | some l =>
      for r in cyc do
        let res := (r.b0.zip (mulVecF l.A r.xo)).map fun p => p.1 - p.2
        if !(norm2 res ≤ 1e-8 * (norm2 r.b0 + 1e-300)) then
          return specFail (base ++ "/spec/single_level_exact") s!"|b - A x| = {norm2 res}, |b| = {norm2 r.b0}" feats
    | none => pure ()
  return ok feats

/-! ### C01 / C10 -/

def checkSolve (prop : String) : Rd Verdict := do
  let o ← rdOpts
  let iters ← rdNat
  let hist ← rdFVec; let x0 ← rdFVec; let b0 ← rdFVec; let xs ← rdFVec
  let xfinal ← rdVec; let bafter ← rdFVec; let aBefore ← rdVec
  let nIt ← rdNat
  let iterates ← (List.range nIt).mapM fun _ => rdVec
  let H ← rdHierarchy o.np
  let n := b0.length
  let A := rowsOf n (trips aBefore)
  let base := prop ++ "/" ++ (if o.seq then "seq/" else "") ++ (if o.solver == 0 then "RS" else "SA")
  let feats := "solve" :: optFeats o ++ [s!"levels{H.length}", if iters < o.maxIter then "converged" else "hit_limit"] ++
               (if n ≤ 1 then ["trivial"] else [])
  let its := iterates.map fun v => v.map bitsToFloat
  if bafter != b0 then return specFail (base ++ "/spec/rhs_altered") "" feats
  if (iterates.getLast?.map nb) != some (nb xfinal) then
    return specFail (base ++ "/spec/solve_vs_cycles") s!"solve returned {showF (xfinal.map bitsToFloat)}, {iters} cycles from the same start give {showF (its.getLast?.getD [])}" feats
  -- reported history = true relative residual of each iterate (independent SpMV and norm)
  if hist.length != iters + 1 then return specFail (base ++ "/spec/history_length") s!"{hist.length} entries for {iters} iterations" feats
  let tr := its.map fun x => relresF A x b0
  for (((h, t), x), k) in ((hist.zip tr).zip its).zipIdx do
    let okk := if t.isNaN || h.isNaN then (t.isNaN && h.isNaN) else if t.isInf || h.isInf || t.abs > 1e140 || h.abs > 1e140 then (h.abs > 1e100 && t.abs > 1e100)   -- overflow regime of the squared norms: both must be huge
               else (h - t).abs ≤ 1e-6 * (t.abs + h.abs) + 1e-12 + relresNoise A x b0
    if !okk then return specFail (base ++ "/spec/history_true") s!"iterate {k}: reported {h}, true {t}" feats
  -- converged means: finite and truly below the tolerance
  if iters < o.maxIter then
    let xf := xfinal.map bitsToFloat
    if xf.any (fun v => !v.isFinite) then return specFail (base ++ "/spec/nonfinite_converged") s!"x={showF xf}" feats
    let t := relresF A xf b0
    if !(t ≤ o.tol * (1 + 1e-6) + 1e-300 + relresNoise A xf b0) then
      return specFail (base ++ "/spec/converged_but_large_residual") s!"iters={iters} < {o.maxIter}, true relres={t} > tol={o.tol}" feats
  -- stop logic: the model's loop over the code's own iterates
  let cyc (x : List Float) : List Float := match its.idxOf? x with
    | some k => its.getD (k+1) x
    | none => x
  let borderline := (tr.zip its).any fun p => (p.1 - o.tol).abs ≤ 1e-6 * o.tol + relresNoise A p.2 b0
  -- the model's order is total; the code's test `!(r_norm <= tol)` reads a residual that is not a number as "not below the
  -- tolerance", i.e. as +infinity
  let m := Cycle.solve cyc (fun x => let r := relresF A x b0; if r.isNaN then (1.0 / 0.0) else r) o.tol o.maxIter x0
  if !borderline && m.iters != iters && (its.eraseDups.length == its.length) then
    return diff (base ++ "/stop_logic") s!"impl iters={iters} model iters={m.iters} tol={o.tol} hist={showF hist}" feats
  if prop == "C10" then
    -- hypothesis of the energy theorem, evaluated on the hierarchy the solver built: every coarse operator is Galerkin
    match galerkinDefect H with
    | some msg => return specFail (base ++ "/spec/hypothesis_galerkin") msg feats
    | none => pure ()
    -- energy norm of the error must not increase from cycle to cycle
    let en (x : List Float) : Float :=
      let e := (xs.zip x).map fun p => p.1 - p.2
      ((e.zip (mulVecF A e)).map fun p => p.1 * p.2).foldl (· + ·) 0
    let es := its.map en
    for ((e0, e1), k) in (es.zip (es.drop 1)).zipIdx do
      if !(e1 ≤ e0 * (1 + 1e-9) + 1e-24 * ((es.head?.getD 0).abs + 1)) then
        return specFail (base ++ "/spec/energy_increase") s!"cycle {k+1}: ||e||_A^2 {e0} -> {e1}" feats
  return ok feats

def run (prop op : String) (a : Array Int) : Verdict :=
  let r := match op with
    | "history" => runRd checkHistory a
    | "solve" => runRd (checkSolve prop) a
    | _ => some (badCase s!"unknown op {op}")
  r.getD (badCase "malformed")

end Raptor.Driver.Amg

namespace Raptor.Driver.Amg
open Raptor Raptor.Driver Raptor.Cycle

/-- C08: the dumped hierarchy is conformal, Galerkin and strictly coarsening -/
def checkHier : Rd Verdict := do
  let o ← rdOpts
  let aBefore ← rdVec; let aAfter ← rdVec
  let H ← rdHierarchy o.np
  let base := "C08/" ++ (if o.seq then "seq/" else "") ++ (if o.solver == 0 then s!"RS/interp{o.interp}" else "SA")
  let n0 := (H.head?.map (·.n)).getD 0
  let feats := "hier" :: optFeats o ++ [s!"levels{H.length}"] ++ (if H.length ≤ 1 then ["trivial"] else []) ++
               (if H.any (fun l => l.info.any fun i => i.getD 0 0 == 0) then ["emptyrank_level"] else ["fullranks"])
  if nb aBefore != nb aAfter then return specFail (base ++ "/spec/user_matrix_altered") "" feats
  -- setup stops at the size or depth limit: the loop condition of the model is false on the last level
  let so : Setup.Opts := { maxCoarse := o.maxCoarse, maxLevels := if o.maxLevels == 0 then none else some o.maxLevels }
  match H.getLast? with
  | some last =>
    if Setup.continue? so last.n H.length then
      return specFail (base ++ "/spec/stopped_early") s!"coarsest has {last.n} > max_coarse={o.maxCoarse} unknowns with {H.length} < max_levels={o.maxLevels} levels" feats
    if H.length > o.maxLevels && o.maxLevels > 0 then
      return specFail (base ++ "/spec/too_deep") s!"{H.length} levels, max_levels={o.maxLevels}" feats
    -- every earlier level was extended because the loop condition held there
    for (l, k) in H.dropLast.zipIdx do
      if !Setup.continue? so l.n (k + 1) then
        return specFail (base ++ "/spec/extended_past_limit") s!"level {k} with {l.n} unknowns was coarsened (max_coarse={o.maxCoarse}, max_levels={o.maxLevels})" feats
  | none => return badCase "empty hierarchy"
  for (l, k) in H.zipIdx do
    -- global sizes = sums of local sizes, reported identically on every rank; work vectors have the level's size
    for (inf, r) in l.info.zipIdx do
      let lr := inf.getD 0 0
      if inf.getD 1 0 != (l.n : Int) || inf.getD 2 0 != (l.n : Int) then
        return specFail (base ++ "/spec/global_size") s!"level {k} rank {r}: global {inf.getD 1 0}x{inf.getD 2 0}, sum of local rows {l.n}" feats
      if inf.getD 4 0 != lr || inf.getD 5 0 != lr || inf.getD 6 0 != lr then
        return specFail (base ++ "/spec/work_vectors") s!"level {k} rank {r}: x,b,tmp sizes {inf.getD 4 0},{inf.getD 5 0},{inf.getD 6 0} for {lr} rows" feats
      if inf.getD 12 0 != (l.n : Int) || inf.getD 13 0 != (l.n : Int) || inf.getD 14 0 != (l.n : Int) then
        return specFail (base ++ "/spec/work_vectors_global") s!"level {k} rank {r}: x,b,tmp global sizes {inf.getD 12 0},{inf.getD 13 0},{inf.getD 14 0} on a level of {l.n} unknowns" feats
    if l.aTrips.any (fun e => e.1 ≥ l.n || e.2.1 ≥ l.n) then
      return specFail (base ++ "/spec/A_index_range") s!"level {k}: an entry of A refers to a row/column ≥ {l.n}" feats
    match H[k+1]? with
    | none => if l.hasP then return specFail (base ++ "/spec/P_on_coarsest") "" feats
    | some c =>
      if !l.hasP then return specFail (base ++ "/spec/missing_P") s!"level {k}" feats
      -- one row per fine unknown, one column per coarse unknown; column maps refer to existing coarse unknowns
      let prow := (l.info.map fun i => (i.getD 8 0)).foldl (· + ·) 0
      if prow != (l.n : Int) then return specFail (base ++ "/spec/P_rows") s!"level {k}: P has {prow} rows, A has {l.n}" feats
      if l.nc != c.n then return specFail (base ++ "/spec/P_cols") s!"level {k}: P has {l.nc} local columns in total, next level has {c.n} unknowns" feats
      for inf in l.info do
        if inf.getD 10 0 != (l.n : Int) || inf.getD 11 0 != (c.n : Int) then
          return specFail (base ++ "/spec/P_global_size") s!"level {k}: P reported {inf.getD 10 0}x{inf.getD 11 0}, expected {l.n}x{c.n}" feats
      if l.pTrips.any (fun e => e.1 ≥ l.n || e.2.1 ≥ c.n) then
        return specFail (base ++ "/spec/P_index_range") s!"level {k}: an entry of P refers to a row ≥ {l.n} or a coarse unknown ≥ {c.n}" feats
      -- strictly fewer unknowns whenever the level's strength graph (the solver's measure and threshold, evaluated by
      -- the strength model of C14 on the dumped operator) has an edge
      let rowsDF := l.A.zipIdx.map fun (row, i) => diagFirst i row
      let S := if o.solver == 0 then Strength.classical 2147483647.0 o.theta 1 rowsDF else Strength.symmetric 2147483647.0 o.theta rowsDF
      let hasEdge := S.zipIdx.any fun (row, i) => row.any fun e => e.1 != i
      if !(c.n < l.n) && hasEdge then
        -- input class: the distributed Ruge-Stuben pass (also the first stage of Falgout and HMIS) on several ranks
        let cls := if o.solver == 0 && (o.coarsen == 0 || o.coarsen == 2 || o.coarsen == 4) && o.np > 1 && !o.seq then "/distributed_rs_split" else ""
        return specFail (base ++ "/spec/not_coarser" ++ cls) s!"level {k}: {l.n} -> {c.n} unknowns" feats
      pure ()
  -- Galerkin: A_{k+1} = Pᵀ (A P) up to dropped entries
  match galerkinDefect H with
  | some msg => return specFail (base ++ "/spec/galerkin") msg feats
  | none => pure ()
  let _ := n0
  return ok feats

def run08 (op : String) (a : Array Int) : Verdict :=
  let r := match op with
    | "hier" => runRd checkHier a
    | _ => some (badCase s!"unknown op {op}")
  r.getD (badCase "malformed")

end Raptor.Driver.Amg
