import RaptorModel.Driver.Common
/-! Driver for C16: tentative prolongator (T supported on aggregates, orthonormal columns, T R = B)
and Jacobi-smoothed prolongator P = (I − ω D⁻¹ A)^k T with D the absolute row sums. -/
namespace Raptor.Driver.C16
open Raptor Raptor.Driver

abbrev FRows := List (List (Nat × Float))
def rdFVec : Rd (List Float) := do let v ← rdVec; return v.map bitsToFloat
def rdCsr : Rd FRows := do
  let idx1 ← rdVec; let idx2 ← rdNatVec; let vals ← rdFVec
  let lens := (idx1.zip (idx1.drop 1)).map fun p => (p.2 - p.1).toNat
  let rec split (l : List (Nat × Float)) : List Nat → FRows
    | [] => []
    | n :: ns => l.take n :: split (l.drop n) ns
  return split (idx2.zip vals) lens

/-- dense row: values at coarse columns `0..nc-1` -/
def denseRow (nc : Nat) (row : List (Nat × Float)) : Array Float :=
  row.foldl (fun a e => if e.1 < nc then a.modify e.1 (· + e.2) else a) (Array.replicate nc 0.0)

/-- `(I − ω D⁻¹ A)^k T` computed densely, D = absolute row sums of A -/
def smooth (A : FRows) (ω : Float) (k : Nat) (nc : Nat) (T : List (Array Float)) : List (Array Float) :=
  let scale := A.map fun row => let s := row.foldl (fun s e => s + e.2.abs) 0; if s != 0 then (1.0 / s.abs) * ω else 0
  (List.range k).foldl (fun P _ =>
    let Parr := P.toArray
    (A.zip scale).zipIdx.map fun ((row, sc), i) =>
      let ap : Array Float := row.foldl (fun acc e => let pr := Parr.getD e.1 (Array.replicate nc 0.0); (acc.zip pr).map fun q => q.1 + (e.2 * sc) * q.2) (Array.replicate nc 0.0)
      ((Parr.getD i (Array.replicate nc 0.0)).zip ap).map fun q => q.1 - q.2) T

def check (par : Bool) (base : String) (feats : List String) (A : FRows) (agg : List (Option Nat)) (nc : Nat)
    (B : List Float) (R : List Float) (T P : FRows) (ω : Float) (k : Nat) : Verdict := Id.run do
  let n := A.length
  let _ := par
  if T.length != n || P.length != n then return specFail (base ++ "/spec/rows") s!"T has {T.length}, P has {P.length}, A has {n} rows" feats
  -- T: supported on the aggregates
  for (row, i) in T.zipIdx do
    for e in row do
      if e.2 != 0 && agg.getD i none != some e.1 then
        return specFail (base ++ "/spec/T_support") s!"T[{i},{e.1}] = {e.2} but vertex {i} is in aggregate {repr (agg.getD i none)}" feats
      if !e.2.isFinite then return specFail (base ++ "/spec/T_nonfinite") s!"row {i}" feats
  -- orthonormal non-zero columns; T R = B
  for c in List.range nc do
    let col := (T.zipIdx.filterMap fun (row, i) => if agg.getD i none == some c then some ((row.filter (·.1 == c)).foldl (fun s e => s + e.2) 0) else none)
    let nrm2 := col.foldl (fun s v => s + v * v) 0
    if col.isEmpty then continue
    if !((nrm2 - 1).abs ≤ 1e-10) then
      return specFail (base ++ "/spec/T_not_normalised") s!"column {c}: sum of squares {nrm2}" feats
  for i in List.range n do
    match agg.getD i none with
    | some c =>
      let t := ((T.getD i []).filter (·.1 == c)).foldl (fun s e => s + e.2) 0
      let b := B.getD i 0
      if !((t * R.getD c 0 - b).abs ≤ 1e-9 * b.abs + 1e-290) then
        return specFail (base ++ "/spec/TR_ne_B") s!"vertex {i}: T*R = {t * R.getD c 0}, B = {b}" feats
    | none => if !(T.getD i []).all (fun e => e.2 == 0) then return specFail (base ++ "/spec/T_support") s!"unaggregated vertex {i} has entries" feats
  -- P = (I − ω D⁻¹ A)^k T
  let want := smooth A ω k nc (T.map (denseRow nc))
  for ((w, row), i) in (want.zip P).zipIdx do
    let got := denseRow nc row
    if row.any (fun e => e.1 ≥ nc) then return specFail (base ++ "/spec/P_col_range") s!"row {i}" feats
    for (a, b) in w.toList.zip got.toList do
      if !((a - b).abs ≤ 1e-10 * (a.abs + b.abs) + 1e-13) then
        return specFail (base ++ "/spec/P_ne_smoothed_T") s!"row {i}: expected {w.toList}, got {got.toList} (omega={ω}, k={k})" feats
  return ok feats

def checkSeq : Rd Verdict := do
  let n ← rdNat; let ωb ← rdInt; let k ← rdNat
  let A ← rdCsr; let ids ← rdNatVec; let nAggs ← rdNat; let B ← rdFVec; let R ← rdFVec
  let T ← rdCsr; let P ← rdCsr; let tr ← rdNat; let tc ← rdNat; let pr ← rdNat; let pc ← rdNat
  let feats := ["seq", s!"k{k}"] ++ (if n ≤ 1 then ["trivial"] else []) ++ (if nAggs == n then ["all_singletons"] else ["grouped"])
  let base := "C16/seq"
  if tr != n || tc != nAggs || pr != n || pc != nAggs then return specFail (base ++ "/spec/dims") s!"T {tr}x{tc}, P {pr}x{pc}, expected {n}x{nAggs}" feats
  if R.length != nAggs then return specFail (base ++ "/spec/R_length") s!"{R.length}" feats
  return check false base feats A (ids.map some) nAggs B R T P (bitsToFloat ωb) k

def checkPar : Rd Verdict := do
  let n ← rdNat; let np ← rdNat; let tap ← rdNat; let ωb ← rdInt; let k ← rdNat
  let A ← rdCsr; let aggRoot ← rdVec; let B ← rdFVec; let allR ← rdVec; let tents ← rdVec; let pents ← rdVec
  let dims ← (List.range np).mapM fun _ => do let a ← rdInt; let b ← rdInt; let c ← rdInt; let d ← rdInt; pure (a, b, c, d)
  let base := "C16/par" ++ (if tap != 0 then "/tap" else "")
  -- coarse numbering: roots in ascending order
  let rootsL := ((List.range n).filter fun (v : Nat) => aggRoot.getD v (-1) == Int.ofNat v)
  let nc := rootsL.length
  let feats := ["par", s!"np{np}", if tap != 0 then "tap" else "std", s!"k{k}"] ++ (if n ≤ 1 then ["trivial"] else []) ++
               (if aggRoot.contains (-1) then ["unaggregated_vertices"] else ["all_aggregated"])
  let cidx (g : Int) : Option Nat := if g < 0 then none else rootsL.idxOf? g.toNat
  for d in dims do
    if d.1 != (n : Int) || d.2.1 != (nc : Int) || d.2.2.1 != (n : Int) || d.2.2.2 != (nc : Int) then
      return specFail (base ++ "/spec/dims") s!"T {d.1}x{d.2.1}, P {d.2.2.1}x{d.2.2.2}, expected {n}x{nc}" feats
  let rec trip : List Int → List (Int × Int × Float)
    | i :: j :: v :: rest => (i, j, bitsToFloat v) :: trip rest
    | _ => []
  let toRows (es : List (Int × Int × Float)) : Option FRows :=
    if es.any (fun e => e.1 < 0 || e.1.toNat ≥ n || (cidx e.2.1).isNone) then none
    else some ((List.range n).map fun (i : Nat) => (es.filter fun e => e.1 == Int.ofNat i).map fun e => ((cidx e.2.1).getD 0, e.2.2))
  let some T := toRows (trip tents) | return specFail (base ++ "/spec/T_col_ids") "an entry of T refers to a column that is not a root" feats
  let some P := toRows (trip pents) | return specFail (base ++ "/spec/P_col_ids") "an entry of P refers to a column that is not a root" feats
  -- coarse candidates: (root id, value) pairs from the owners
  let rec pairs : List Int → List (Int × Float)
    | g :: v :: rest => (g, bitsToFloat v) :: pairs rest
    | _ => []
  let rp := pairs allR
  let R : List Float := rootsL.map fun (g : Nat) => ((rp.find? fun p => p.1 == Int.ofNat g).map (·.2)).getD 0
  if rp.length != nc then return specFail (base ++ "/spec/R_length") s!"{rp.length} coarse candidates for {nc} aggregates" feats
  let agg : List (Option Nat) := (List.range n).map fun v => cidx (aggRoot.getD v (-1))
  return check true base feats A agg nc B R T P (bitsToFloat ωb) k

def run (op : String) (a : Array Int) : Verdict :=
  let r := match op with
    | "seq" => runRd checkSeq a
    | "par" => runRd checkPar a
    | _ => some (badCase s!"unknown op {op}")
  r.getD (badCase "malformed")

end Raptor.Driver.C16
