import RaptorModel.Driver.Common
import RaptorModel.Model.Sparse
/-! Raw (flat-array) matrices as the harness dumps them, and their conversion to the nested model
forms. Values are `Int` (exact mode: small integer-valued doubles). -/
namespace Raptor.Driver
open Raptor Raptor.Sparse

structure RawMat where
  (fmt nRows nCols bR bC nnz : Nat)        -- fmt: 0 COO, 1 CSR, 2 CSC ; nRows/nCols count blocks
  (sorted diagFirst : Bool)
  (idx1 idx2 vals : List Int)
  (blockClass : Bool := false)             -- BCOO / BSR / BSC object (announced as fmt + 10), whatever the block size
deriving Repr, BEq

def rdRawMat : Rd RawMat := do
  let fmt ← rdNat; let nRows ← rdNat; let nCols ← rdNat; let bR ← rdNat; let bC ← rdNat
  let nnz ← rdNat; let s ← rdNat; let d ← rdNat
  let idx1 ← rdVec; let idx2 ← rdVec; let vals ← rdVec
  return { fmt := fmt % 10, nRows, nCols, bR, bC, nnz, sorted := s != 0, diagFirst := d != 0, idx1, idx2, vals, blockClass := fmt ≥ 10 }

def fmtName : Nat → String | 0 => "COO" | 1 => "CSR" | 2 => "CSC" | 3 => "BCOO" | 4 => "BSR" | 5 => "BSC" | _ => "?"

def RawMat.isBlock (m : RawMat) : Bool := m.blockClass || m.bR != 1 || m.bC != 1

/-- split a flat list into consecutive chunks of the given lengths -/
def chunks {α : Type} : List α → List Nat → List (List α)
  | _, [] => []
  | l, n :: ns => l.take n :: chunks (l.drop n) ns

/-- structural well-formedness of the flat arrays (what `WF` of DESIGN §8 means) -/
def RawMat.wf (m : RawMat) : Bool :=
  let bs := m.bR * m.bC
  m.vals.length == m.nnz * bs && m.idx2.length ≥ m.nnz &&
  match m.fmt with
  | 0 => m.idx1.length ≥ m.nnz &&
         (m.idx1.take m.nnz).all (fun i => 0 ≤ i && i < m.nRows) &&
         (m.idx2.take m.nnz).all (fun j => 0 ≤ j && j < m.nCols)
  | 1 => m.idx1.length == m.nRows + 1 && m.idx1.head? == some 0 &&
         m.idx1.getLast? == some (m.nnz : Int) &&
         (m.idx1.zip (m.idx1.drop 1)).all (fun p => p.1 ≤ p.2) &&
         (m.idx2.take m.nnz).all (fun j => 0 ≤ j && j < m.nCols)
  | 2 => m.idx1.length == m.nCols + 1 && m.idx1.head? == some 0 &&
         m.idx1.getLast? == some (m.nnz : Int) &&
         (m.idx1.zip (m.idx1.drop 1)).all (fun p => p.1 ≤ p.2) &&
         (m.idx2.take m.nnz).all (fun j => 0 ≤ j && j < m.nRows)
  | _ => false

/-- nested compressed form: one list per row (CSR) / column (CSC) of `(index, value)`; scalar only -/
def RawMat.lines (m : RawMat) : List (List (Nat × Int)) :=
  let lens := (m.idx1.zip (m.idx1.drop 1)).map fun p => (p.2 - p.1).toNat
  chunks ((m.idx2.take m.nnz).map Int.toNat |>.zip m.vals) lens

def RawMat.toCoo (m : RawMat) : Coo Int :=
  ⟨m.nRows, m.nCols, ((m.idx1.take m.nnz).map Int.toNat).zip (((m.idx2.take m.nnz).map Int.toNat).zip m.vals)⟩
def RawMat.toCsr (m : RawMat) : Csr Int := ⟨m.nRows, m.nCols, m.lines⟩
def RawMat.toCsc (m : RawMat) : Csc Int := ⟨m.nRows, m.nCols, m.lines⟩

/-- scalar entries `(row, col, value)` of any format, blocks expanded (row-major inside a block) -/
def RawMat.entries (m : RawMat) : List (Entry Int) :=
  let bs := m.bR * m.bC
  let blockEnts : List (Nat × Nat) :=
    match m.fmt with
    | 0 => ((m.idx1.take m.nnz).map Int.toNat).zip ((m.idx2.take m.nnz).map Int.toNat)
    | 1 => rowsEntries (m.lines.map fun l => l.map fun e => (e.1, (0:Int))) |>.map fun e => (e.1, e.2.1)
    | _ => rowsEntries (m.lines.map fun l => l.map fun e => (e.1, (0:Int))) |>.map fun e => (e.2.1, e.1)
  if bs == 1 then
    (blockEnts.zip m.vals).map fun (p, v) => (p.1, p.2, v)
  else
    (blockEnts.zipIdx).flatMap fun (p, k) =>
      (List.range bs).map fun t =>
        (p.1 * m.bR + t / m.bC, p.2 * m.bC + t % m.bC, m.vals.getD (k * bs + t) 0)

def RawMat.rows (m : RawMat) : Nat := m.nRows * m.bR
def RawMat.colsN (m : RawMat) : Nat := m.nCols * m.bC

/-- dense image as a sorted association list `((i,j), sum)` without zeros — canonical form used to
    compare represented operators -/
def denseOf (es : List (Entry Int)) : List ((Nat × Nat) × Int) :=
  let sorted := es.toArray.qsort (fun a b => a.1 < b.1 || (a.1 == b.1 && a.2.1 < b.2.1)) |>.toList
  let merged := sorted.foldl (fun (acc : List ((Nat × Nat) × Int)) e =>
    match acc with
    | ((i, j), s) :: tl => if i == e.1 && j == e.2.1 then ((i, j), s + e.2.2) :: tl else ((e.1, e.2.1), e.2.2) :: acc
    | [] => [((e.1, e.2.1), e.2.2)]) []
  (merged.filter fun p => p.2 != 0).reverse

def RawMat.dense (m : RawMat) : List ((Nat × Nat) × Int) := denseOf m.entries

/-- flatten nested lines back to `(idx1, idx2, vals)` -/
def flatten (lines : List (List (Nat × Int))) : List Int × List Int × List Int :=
  let idx1 := lines.foldl (fun (acc : List Int × Int) l => (acc.1 ++ [acc.2 + l.length], acc.2 + l.length)) ([0], 0)
  (idx1.1, lines.flatMap (fun l => l.map fun e => (e.1 : Int)), lines.flatMap (fun l => l.map (·.2)))

def ofCsr (A : Csr Int) (s d : Bool) : RawMat :=
  let (i1, i2, v) := flatten A.rows
  { fmt := 1, nRows := A.nRows, nCols := A.nCols, bR := 1, bC := 1, nnz := i2.length, sorted := s, diagFirst := d,
    idx1 := i1, idx2 := i2, vals := v }
def ofCsc (A : Csc Int) (s d : Bool) : RawMat :=
  let (i1, i2, v) := flatten A.cols
  { fmt := 2, nRows := A.nRows, nCols := A.nCols, bR := 1, bC := 1, nnz := i2.length, sorted := s, diagFirst := d,
    idx1 := i1, idx2 := i2, vals := v }
def ofCoo (A : Coo Int) (s d : Bool) : RawMat :=
  { fmt := 0, nRows := A.nRows, nCols := A.nCols, bR := 1, bC := 1, nnz := A.ents.length, sorted := s, diagFirst := d,
    idx1 := A.ents.map (fun e => (e.1 : Int)), idx2 := A.ents.map (fun e => (e.2.1 : Int)), vals := A.ents.map (·.2.2) }

/-- canonical form for comparisons after an unstable sort: inside each line (or, for COO, inside
    each (row,col) group) ties are ordered by value -/
def canonTies (m : RawMat) : RawMat :=
  let le (a b : Nat × Int) : Bool := a.1 < b.1 || (a.1 == b.1 && a.2 ≤ b.2)
  match m.fmt with
  | 0 =>
    let es := m.toCoo.ents.toArray.qsort (fun a b => a.1 < b.1 || (a.1 == b.1 && (a.2.1 < b.2.1 || (a.2.1 == b.2.1 && a.2.2 < b.2.2)))) |>.toList
    ofCoo ⟨m.nRows, m.nCols, es⟩ m.sorted m.diagFirst
  | 1 => ofCsr ⟨m.nRows, m.nCols, m.lines.map fun l => (l.toArray.qsort (fun a b => le a b && !(le b a))).toList⟩ m.sorted m.diagFirst
  | _ => ofCsc ⟨m.nRows, m.nCols, m.lines.map fun l => (l.toArray.qsort (fun a b => le a b && !(le b a))).toList⟩ m.sorted m.diagFirst

/-- compare an implementation matrix with the model's (arrays trimmed to nnz) -/
def sameRaw (a b : RawMat) : Bool :=
  a.fmt == b.fmt && a.nRows == b.nRows && a.nCols == b.nCols && a.nnz == b.nnz &&
  a.sorted == b.sorted && a.diagFirst == b.diagFirst &&
  (if a.fmt == 0 then a.idx1.take a.nnz == b.idx1.take b.nnz else a.idx1 == b.idx1) &&
  a.idx2.take a.nnz == b.idx2.take b.nnz && a.vals == b.vals

def describe (m : RawMat) : String :=
  s!"{fmtName m.fmt} {m.nRows}x{m.nCols} b{m.bR}x{m.bC} nnz={m.nnz} s={m.sorted} d={m.diagFirst} idx1={showList m.idx1} idx2={showList m.idx2} vals={showList m.vals}"

def matFeats (m : RawMat) : List String :=
  [fmtName m.fmt, if m.isBlock then "block" else "scalar",
   if m.rows == m.colsN then "square" else "rect",
   if m.nnz == 0 then "empty" else "nonempty"]

end Raptor.Driver
