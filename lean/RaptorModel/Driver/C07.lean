import RaptorModel.Driver.Mat
/-! Driver for C07 (sequential part): conversions, copy, sort, move_diag, remove_duplicates,
transpose, add, subtract — model equality on the arrays and dense-image specification. -/
namespace Raptor.Driver.C07
open Raptor Raptor.Driver Raptor.Sparse

def tiny (v : Int) : Bool := v == 0      -- |v| < 1e-16 for integer-valued doubles

/-- the model's result of one operation on a scalar matrix, flags included (matrix.cpp) -/
def applyOp (op : String) (dst : Nat) (a : RawMat) (b : Option RawMat) : Option RawMat :=
  match op with
  | "conv" =>
    if a.fmt == dst then some a            -- `to_X` of the same format returns `this`
    else match a.fmt, dst with
      | 0, 1 => some (ofCsr (cooToCsr a.toCoo) false false)
      | 0, 2 => some (ofCsc (cooToCsc a.toCoo) false false)
      | 1, 0 => some (ofCoo (csrToCoo a.toCsr) false false)
      | 1, 2 => some (ofCsc (csrToCsc a.toCsr) false false)
      | 2, 0 => some (ofCoo (cscToCoo a.toCsc) false false)
      | 2, 1 => some (ofCsr (cscToCsr a.toCsc) false false)
      | _, _ => none
  | "copy" =>
    match a.fmt with
    | 0 => some (ofCoo a.toCoo false false)
    | 1 => some (ofCsr a.toCsr false false)
    | _ => some (ofCsc a.toCsc false false)
  | "sort" =>
    if a.sorted || a.nnz == 0 then some { a with sorted := true }
    else match a.fmt with
      | 0 => some (ofCoo a.toCoo.sort true false)
      | 1 => some (ofCsr a.toCsr.sort true false)
      | _ => some (ofCsc a.toCsc.sort true false)
  | "movediag" =>
    if a.diagFirst || a.nnz == 0 then some a
    else match a.fmt with
      | 0 => -- sorts first when needed (which also clears diag_first), then rotates
             let src := if a.sorted then a.toCoo else a.toCoo.sort
             some (ofCoo { src with ents := (rowRuns src.ents).flatMap fun run =>
                      (run.filter fun e => e.1 == e.2.1).reverse ++ run.filter fun e => !(e.1 == e.2.1) } true true)
      | 1 => some (ofCsr a.toCsr.moveDiag a.sorted true)
      | _ => some (ofCsc a.toCsc.moveDiag a.sorted true)
  | "rmdup" =>
    let d := if a.sorted then a.diagFirst else false
    match a.fmt with
    | 0 => let src := if a.sorted then a.toCoo else a.toCoo.sort
           some (ofCoo { src with ents := mergeAdjCoo src.ents } true d)
    | 1 => let src := if a.sorted then a.toCsr else a.toCsr.sort
           some (ofCsr { src with rows := src.rows.map fun r => (mergeAdj r).filter (fun e => !tiny e.2) } true d)
    | _ => let src := if a.sorted then a.toCsc else a.toCsc.sort
           some (ofCsc { src with cols := src.cols.map fun r => (mergeAdj r).filter (fun e => !tiny e.2) } true d)
  | "transpose" =>
    match a.fmt with
    | 0 => some (ofCoo a.toCoo.transpose false false)
    | 1 => some (ofCsr a.toCsr.transpose false false)
    | _ => some (ofCsc a.toCsc.transpose false false)
  | "add" => b.map fun b => ofCsr (Csr.add tiny a.toCsr b.toCsr true) true false
  | "addnodup" => b.map fun b => ofCsr (Csr.add tiny a.toCsr b.toCsr false) true false
  | "sub" => b.map fun b => ofCsr (Csr.subtract tiny a.toCsr b.toCsr) true false
  | _ => none

def transposeDense (d : List ((Nat × Nat) × Int)) : List ((Nat × Nat) × Int) :=
  denseOf (d.map fun p => (p.1.2, p.1.1, p.2))

def check (op : String) : Rd Verdict := do
  let dst ← rdNat
  let a ← rdRawMat
  let hasB := op == "add" || op == "sub" || op == "addnodup"
  let b ← if hasB then (do let m ← rdRawMat; pure (some m)) else pure none
  let out ← rdRawMat
  let path := s!"C07/{op}/{fmtName a.fmt}" ++ (if op == "conv" then s!"->{fmtName dst}" else "") ++
              (if a.isBlock then "/block" else "") ++ (if a.rows != a.colsN then "/rect" else "") ++
              (if a.nnz == 0 then "/empty" else "")
  let feats := op :: matFeats a ++ (if op == "conv" then [s!"to{fmtName dst}"] else []) ++
               (if a.nnz == 0 then ["trivial"] else [])
  if !a.wf then return badCase s!"input not well-formed: {describe a}"
  if !out.wf then return specFail (path ++ "/spec/malformed") (describe out) feats
  -- specification on the implementation's output
  let da := a.dense
  let dout := out.dense
  let want := match op, b with
    | "transpose", _ => transposeDense da
    | "add", some b => denseOf (a.entries ++ b.entries)
    | "addnodup", some b => denseOf (a.entries ++ b.entries)
    | "sub", some b => denseOf (a.entries ++ b.entries.map fun e => (e.1, e.2.1, -e.2.2))
    | _, _ => da
  let (wr, wc) := if op == "transpose" then (a.colsN, a.rows) else (a.rows, a.colsN)
  if out.rows != wr || out.colsN != wc then
    return specFail (path ++ "/spec/dims") s!"in={a.rows}x{a.colsN} out={out.rows}x{out.colsN} expected={wr}x{wc}" feats
  if dout != want then
    return specFail (path ++ "/spec/den") s!"in={describe a} out={describe out}" feats
  -- order postconditions on the implementation's output (so that the tie canonicalisation below
  -- cannot hide an unsorted result)
  -- `sort` on a matrix whose `sorted` flag is set is a no-op by contract (the flag also covers the sorted-then-diagonal-first
  -- layout): the order clause applies when a sort really happens
  let needSorted := (op == "sort" && !a.sorted) || op == "addnodup"
  let needStrict := (op == "rmdup" && !a.sorted) || op == "add" || op == "sub"
  if !out.isBlock && (needSorted || needStrict) then
    let okLine (l : List (Nat × Int)) : Bool :=
      (l.zip (l.drop 1)).all fun p => if needStrict then p.1.1 < p.2.1 else p.1.1 ≤ p.2.1
    let sortedOk := match out.fmt with
      | 0 => let es := out.toCoo.ents
             (es.zip (es.drop 1)).all fun p =>
               p.1.1 < p.2.1 || (p.1.1 == p.2.1 && (if needStrict then p.1.2.1 < p.2.2.1 else p.1.2.1 ≤ p.2.2.1))
      | _ => out.lines.all okLine
    if !sortedOk then
      return specFail (path ++ "/spec/order") s!"out={describe out}" feats
  -- model equality on the arrays (scalar formats)
  if a.isBlock then return ok feats
  match applyOp op dst a b with
  | none => return badCase s!"no model for {op}"
  | some m =>
    -- `std::sort` leaves the order among equal keys unspecified: canonicalise ties by value
    let unstable := op == "sort" || op == "rmdup" || op == "add" || op == "sub" || op == "addnodup"
    let same := if unstable then sameRaw (canonTies out) (canonTies m) else sameRaw out m
    if same then return ok feats
    -- COO move_diag sorts an unsorted input first; with duplicate positions its result depends on
    -- the unspecified tie order, so only the (already verified) specification is required there
    let dupPos := let ps := a.toCoo.ents.map fun e => (e.1, e.2.1); ps.length != ps.eraseDups.length
    if op == "movediag" && a.fmt == 0 && !a.sorted && dupPos then return ok (feats ++ ["ties_unspecified"])
    else return diff (path ++ "/arrays") s!"impl={describe out} model={describe m}" feats

/-! ### distributed and block part: global image, shape and partition of the result -/

def trips3 : List Int → List (Entry Int)
  | i :: j :: x :: rest => ((if i < 0 then 1000000007 else i.toNat), (if j < 0 then 1000000007 else j.toNat), x) :: trips3 rest
  | _ => []

def parOpName : Nat → String
  | 0 => "assemble" | 1 => "conv" | 2 => "copy" | 3 => "transpose" | 4 => "add" | 5 => "subtract"
  | 6 => "to_ParBSR" | 7 => "ParBSR_to_ParCSR" | _ => "ParBCOO_assemble"

def checkPar : Rd Verdict := do
  let op ← rdNat; let from_ ← rdNat; let to ← rdNat; let step ← rdNat; let np ← rdNat; let kind ← rdNat
  let nRows ← rdNat; let nCols ← rdNat; let br ← rdNat; let bc ← rdNat
  let ta ← rdVec; let tb ← rdVec; let ents ← rdVec
  let nsh ← rdNat
  let shape ← (List.range nsh).mapM fun _ => (List.range 11).mapM fun _ => rdInt
  let a := trips3 ta; let b := trips3 tb; let out := trips3 ents
  let name := parOpName op
  let rect := nRows != nCols
  let path := s!"C07/par/{name}" ++ (if op == 1 then s!"/{fmtName from_}->{fmtName to}" else if op ≤ 3 then s!"/{fmtName from_}" else "") ++
              (if br * bc > 1 then "/block" else "") ++ (if rect then "/rect" else "")
  let lrs := shape.map fun s => (s.getD 0 0).toNat
  let feats := ["par", name, s!"np{np}", s!"layout{kind}", if rect then "rect" else "square",
                if lrs.any (· == 0) then "emptyrank" else "fullranks", s!"b{br}x{bc}", s!"step{step}",
                if a.isEmpty then "trivial" else "nonempty"] ++
               (if op == 1 then [s!"{fmtName from_}->{fmtName to}"] else [])
  -- a matrix without rows has columns that no rank owns (the partition invariant, C18): its transpose has no
  -- distributed representation
  if op == 3 && nRows == 0 then return ok (feats ++ ["trivial", "unowned_columns"])
  let (wr, wc) := if op == 3 then (nCols, nRows) else (nRows, nCols)
  -- block results report their sizes in blocks
  let (ubr, ubc) := if op == 6 || op == 8 then (br, bc) else (1, 1)
  for (s, r) in shape.zipIdx do
    if (s.getD 7 0).toNat * ubr != wr || (s.getD 8 0).toNat * ubc != wc then
      return specFail (path ++ "/spec/global_dims") s!"rank{r} reports {s.getD 7 0}x{s.getD 8 0} (block {ubr}x{ubc}), expected {wr}x{wc}" feats
    if (op == 6 || op == 8) && ((s.getD 9 0).toNat != br || (s.getD 10 0).toNat != bc) then
      return specFail (path ++ "/spec/block_size") s!"rank{r} block {s.getD 9 0}x{s.getD 10 0}, expected {br}x{bc}" feats
  if (lrs.map (· * ubr)).sum != wr then
    return specFail (path ++ "/spec/local_rows_sum") s!"local rows {showList lrs} (x{ubr}) do not sum to {wr}" feats
  -- contiguous row blocks in rank order
  let firsts := shape.map fun s => (s.getD 2 0).toNat
  let pref := (List.range np).map fun r => (lrs.take r).sum
  if (List.range np).any (fun r => lrs.getD r 0 != 0 && firsts.getD r 0 != pref.getD r 0) then
    return specFail (path ++ "/spec/row_blocks") s!"first rows {showList firsts} local rows {showList lrs}" feats
  if out.any (fun e => e.1 ≥ wr || e.2.1 ≥ wc) then
    return specFail (path ++ "/spec/index_range") s!"an entry lies outside {wr}x{wc}: {showList ((out.filter fun e => e.1 ≥ wr || e.2.1 ≥ wc).map toString)}" feats
  let want := match op with
    | 3 => denseOf (a.map fun e => (e.2.1, e.1, e.2.2))
    | 4 => denseOf (a ++ b)
    | 5 => denseOf (a ++ b.map fun e => (e.1, e.2.1, -e.2.2))
    | _ => denseOf a
  let got := denseOf out
  if got != want then
    let missing := want.filter fun w => !(got.contains w)
    let extra := got.filter fun w => !(want.contains w)
    return specFail (path ++ "/spec/den") s!"missing/different={showList ((missing.take 6).map toString)} unexpected={showList ((extra.take 6).map toString)}" feats
  return ok feats

def run (op : String) (a : Array Int) : Verdict :=
  if op == "par" then (runRd checkPar a).getD (badCase "malformed")
  else (runRd (check op) a).getD (badCase "malformed")

end Raptor.Driver.C07
