import RaptorModel.Driver.Common
import RaptorModel.Model.Partition
import RaptorModel.Model.Topology
/-! Driver for C18: partitions, owner search, node maps. -/
namespace Raptor.Driver.C18
open Raptor Raptor.Driver Raptor.Partition

structure RankOut where
  (gRows gCols lr lc fr fc : Nat) (lastR lastC : Int) (assumed : Nat)
  (firstCols : List Nat) (owners : List Int)

def rdRankIn : Rd (Nat × Nat × Nat × Nat) := do
  let lr ← rdNat; let lc ← rdNat; let fr ← rdNat; let fc ← rdNat
  return (lr, lc, fr, fc)

def rdRankOut : Rd RankOut := do
  let gRows ← rdNat; let gCols ← rdNat
  let lr ← rdNat; let lc ← rdNat; let fr ← rdNat; let fc ← rdInt
  let lastR ← rdInt; let lastC ← rdInt; let assumed ← rdNat
  let fcs ← rdVec; let owners ← rdVec
  -- `fc` may be garbage (unset member): keep it as a Nat only when non-negative
  return { gRows, gCols, lr, lc, fr, fc := if fc < 0 then 1000000007 else fc.toNat, lastR, lastC,
           assumed, firstCols := fcs.map (fun x => if x < 0 then 1000000007 else x.toNat), owners }

def kindName : Nat → String
  | 0 => "default" | 1 => "block" | 2 => "explicit" | 3 => "transpose" | _ => "unknown"

def checkPart : Rd Verdict := do
  let kind ← rdNat; let np ← rdNat; let rows ← rdNat; let cols ← rdNat
  let bR ← rdNat; let bC ← rdNat
  let ins ← (List.range np).mapM (fun _ => rdRankIn)
  let outs ← (List.range np).mapM (fun _ => rdRankOut)
  let base := "C18/part/" ++ kindName kind
  -- model
  let parts : List Part := (List.range np).map fun r =>
    match kind with
    | 0 => Partition.default rows cols np r
    | 1 => Partition.block rows cols bR bC np r
    | 2 => match ins[r]? with
           | some (lr, lc, fr, fc) => Partition.explicit rows cols lr lc fr fc
           | none => Partition.explicit 0 0 0 0 0 0
    | _ => match ins[r]? with
           | some (lr, lc, fr, fc) => Partition.transpose (Partition.explicit cols rows lr lc fr fc)
           | none => Partition.explicit 0 0 0 0 0 0
  let mfc := firstCols parts cols
  let assumed := assumedNumCols cols np
  let nSearch := match outs.head? with | some o => o.owners.length | none => 0
  let mOwners : List Int := (List.range nSearch).map fun c =>
    match ownerSearch mfc assumed np c with
    | some p => (p : Int)
    | none => -1
  let emptyRank := parts.any (fun p => p.localRows == 0)
  let feats := [kindName kind, s!"np{np}", if emptyRank then "emptyrank" else "fullranks",
                if rows == cols then "square" else "rect",
                if rows == 0 || cols == 0 then "trivial" else "nonzero"]
  let sfx := if emptyRank then "/emptyrank" else ""
  -- model vs implementation, rank by rank
  let mut v : Option Verdict := none
  for r in List.range np do
    if v.isSome then break
    match parts[r]?, outs[r]? with
    | some p, some o =>
      if (o.gRows, o.gCols, o.lr, o.lc, o.fr) != (p.globalRows, p.globalCols, p.localRows, p.localCols, p.firstRow)
        then v := some (diff (base ++ "/fields" ++ sfx) s!"rank{r}" feats)
      else if o.fc != p.firstCol then
        v := some (diff (base ++ "/first_local_col" ++ sfx) s!"rank{r} impl={o.fc} model={p.firstCol}" feats)
      else if o.lastR != p.lastRow || o.lastC != p.lastCol then
        v := some (diff (base ++ "/last" ++ sfx) s!"rank{r}" feats)
      else if o.assumed != assumed then
        v := some (diff (base ++ "/assumed" ++ sfx) s!"rank{r}" feats)
      else if o.firstCols != mfc then
        v := some (diff (base ++ "/first_cols" ++ sfx) s!"rank{r} impl={showList o.firstCols} model={showList mfc}" feats)
      else if o.owners != mOwners then
        v := some (diff (base ++ "/owner" ++ sfx) s!"rank{r} impl={showList o.owners} model={showList mOwners}" feats)
    | _, _ => v := some (badCase "rank count")
  -- specification on the implementation's output
  let rowBlocks := outs.map fun o => (o.fr, o.lr)
  let colBlocks := outs.map fun o => (o.fc, o.lc)
  let rowsTotal := if kind == 1 then rows / bR * bR else rows
  let colsTotal := if kind == 1 then (if rows / bR == 0 then 0 else cols / bC * bC) else cols
  let nonEmpty (l : List (Nat × Nat)) := l.filter (fun b => b.2 != 0)
  let mut s : Option Verdict := none
  if !(tiles rowsTotal (nonEmpty rowBlocks) 0) then
    s := some (specFail (base ++ "/spec/rows_tile" ++ sfx) s!"{showList (rowBlocks.map toString)}" feats)
  else if rows != 0 && !(tiles colsTotal (nonEmpty colBlocks) 0) then
    s := some (specFail (base ++ "/spec/cols_tile" ++ sfx) s!"{showList (colBlocks.map toString)}" feats)
  else if rowsTotal == 0 && (if kind == 1 then cols / bC * bC else cols) != 0 && kind ≤ 1 &&
          !(tiles (if kind == 1 then cols / bC * bC else cols) (nonEmpty colBlocks) 0) then
    -- the property counts size 0 in its domain: a matrix without rows still has columns, and they must have owners
    s := some (specFail (base ++ "/spec/cols_tile/zero_rows") s!"no rank owns the {cols} columns of a matrix without rows: {showList (colBlocks.map toString)}" feats)
  else
    for o in outs do
      if s.isSome then break
      for c in List.range (min cols o.owners.length) do
        let own := ownersOf colBlocks c
        let got := o.owners.getD c (-1)
        -- columns beyond the dealt range (rows = 0, or block remainder) have no owner: not in the domain
        if c < colsTotal && rows != 0 && own != [got.toNat] then
          s := some (specFail (base ++ "/spec/owner" ++ sfx)
                 s!"col={c} lookup={got} owners={showList own}" feats)
          break
  match s, v with
  | some sv, _ => return sv          -- a false specification outranks a model difference
  | none, some dv => return dv
  | none, none => return ok feats

def checkTopo : Rd Verdict := do
  let ord ← rdNat; let np ← rdNat; let ppn ← rdNat; let nnImpl ← rdNat
  let nodeOf ← rdVec; let localOf ← rdVec; let globalOf ← rdVec  -- globalOf[node*ppnEff + l]
  let nn := Topology.numNodes np ppn
  let feats := [s!"ord{ord}", if np % ppn == 0 then "ppn_divides" else "ppn_ragged",
                if nn == 1 then "single_node" else "multi_node"]
  let base := s!"C18/topo/ord{ord}"
  if nnImpl != nn then return diff (base ++ "/num_nodes") s!"impl={nnImpl} model={nn}" feats
  let enc : Option Nat → Int := fun o => match o with | some x => x | none => -1
  let mNode := (List.range np).map fun p => enc (Topology.getNode ord nn ppn p)
  let mLocal := (List.range np).map fun p => enc (Topology.getLocal ord nn ppn p)
  if mNode != nodeOf then return diff (base ++ "/get_node") s!"impl={showList nodeOf} model={showList mNode}" feats
  if mLocal != localOf then return diff (base ++ "/get_local_proc") s!"impl={showList localOf} model={showList mLocal}" feats
  -- the harness evaluates get_global_proc on every (node,l) with node < nn, l < lmax
  let lmax := if nn == 0 then 0 else globalOf.length / nn
  let mGlobal := (List.range nn).flatMap fun node => (List.range lmax).map fun l =>
    enc (Topology.getGlobal ord nn ppn node l)
  if mGlobal != globalOf then return diff (base ++ "/get_global_proc") s!"impl={showList globalOf} model={showList mGlobal}" feats
  -- specification on the implementation's output: the maps are mutually inverse
  for p in List.range np do
    let nd := nodeOf.getD p (-1); let l := localOf.getD p (-1)
    if nd < 0 || l < 0 || nd.toNat ≥ nn then
      return specFail (base ++ "/spec/range") s!"p={p} node={nd} local={l}" feats
    if l.toNat ≥ lmax then return badCase "lmax too small"
    let g := globalOf.getD (nd.toNat * lmax + l.toNat) (-1)
    if g != p then return specFail (base ++ "/spec/inverse") s!"p={p} node={nd} local={l} global={g}" feats
  -- distinct ranks have distinct (node, local) pairs, and on-node index counts lower ranks on the node
  for p in List.range np do
    let cnt := ((List.range p).filter fun q => nodeOf.getD q (-1) == nodeOf.getD p (-2)).length
    match ord with
    | 1 => if localOf.getD p (-1) != cnt then
             return specFail (base ++ "/spec/local_is_position") s!"p={p}" feats
    | _ => if localOf.getD p (-1) != cnt then
             return specFail (base ++ "/spec/local_is_position") s!"p={p}" feats
  return ok feats

def checkLocalComm : Rd Verdict := do
  let ord ← rdNat; let _np ← rdNat; let _ppn ← rdNat
  let localOf ← rdVec; let commRank ← rdVec
  let feats := [s!"ord{ord}", "localcomm"]
  if localOf != commRank then
    return specFail s!"C18/topo/ord{ord}/spec/local_comm_rank" s!"get_local_proc={showList localOf} comm={showList commRank}" feats
  return ok feats

def run (op : String) (a : Array Int) : Verdict :=
  let r : Option Verdict := match op with
    | "part" => runRd checkPart a
    | "topo" => runRd checkTopo a
    | "localcomm" => runRd checkLocalComm a
    | _ => some (badCase s!"unknown op {op}")
  r.getD (badCase "malformed")

end Raptor.Driver.C18
