import RaptorModel.Driver.Common
import RaptorModel.Model.Repart
import RaptorModel.Model.Spmv
/-! Driver for C20: `repartition_matrix` against the message-level model and the global
specification (one reported permutation renumbers rows and columns; valid package; product), and
the diagonal / row scalings at `Float` against the model and the entry-wise specification. -/
namespace Raptor.Driver.C20
open Raptor Raptor.Driver Raptor.Sparse Raptor.Repart

def rdPer (np : Nat) : Rd (List (List Int)) := (List.range np).mapM fun _ => rdVec

def splitLens {α : Type} (l : List α) : List Nat → List (List α)
  | [] => []
  | n :: ns => l.take n :: splitLens (l.drop n) ns

def lensOf (idx1 : List Int) : List Nat := (idx1.zip (idx1.drop 1)).map fun p => (p.2 - p.1).toNat

def linesOf {α : Type} (idx1 idx2 : List Int) (vals : List α) : List (List (Nat × α)) :=
  splitLens ((idx2.map Int.toNat).zip vals) (lensOf idx1)

/-- packed rows `[nrows, (gid, len, (gcol, val)*)*]` -/
partial def parseRows (v : List Int) : List (GRow Int) :=
  let rec go (k : Nat) (l : List Int) : List (GRow Int) :=
    match k, l with
    | 0, _ => []
    | k+1, gid :: len :: rest =>
      let body := rest.take (2 * len.toNat)
      let rec pairs : List Int → List (Nat × Int)
        | c :: x :: tl => (c.toNat, x) :: pairs tl
        | _ => []
      (gid.toNat, pairs body) :: go k (rest.drop (2 * len.toNat))
    | _, _ => []
  match v with
  | n :: rest => go n.toNat rest
  | [] => []

def sortEntries (es : List (Entry Int)) : List (Entry Int) :=
  es.toArray.qsort (fun a b => a.1 < b.1 || (a.1 == b.1 && (a.2.1 < b.2.1 || (a.2.1 == b.2.1 && a.2.2 < b.2.2)))) |>.toList

def tkName : Nat → String
  | 0 => "roundrobin" | 1 => "random" | 2 => "one_rank" | 3 => "half_empty" | 4 => "identity" | _ => "reverse"

def strictlyIncreasing (l : List Nat) : Bool := (l.zip (l.drop 1)).all fun p => p.1 < p.2

def checkRepart : Rd Verdict := do
  let np ← rdNat; let n ← rdNat; let tk ← rdNat; let kind ← rdNat; let sched ← rdNat; let allOk ← rdNat
  let target ← rdNatVec; let x ← rdVec
  let inRows ← rdPer np; let metas ← rdPer np; let newRows ← rdPer np
  let on1 ← rdPer np; let on2 ← rdPer np; let onv ← rdPer np
  let off1 ← rdPer np; let off2 ← rdPer np; let offv ← rdPer np
  let offMap ← rdPer np; let onMap ← rdPer np; let rowMap ← rdPer np
  let rp ← rdPer np; let ri ← rdPer np; let sp ← rdPer np; let si ← rdPer np; let sx ← rdPer np
  let pb ← rdPer np
  let ranks := inRows.map parseRows
  let tgt (g : Nat) : Nat := target.getD g 0
  let inEnts := inputEntries ranks
  let wild : Int := (metas.map fun m => m.getD 8 0).foldl (· + ·) 0
  let feats := ["repart", s!"np{np}", tkName tk, s!"layout{kind}", s!"sched{sched}",
                if wild > 0 then "multi_candidate_wildcard" else "single_candidate",
                if ranks.any List.isEmpty then "empty_source_rank" else "full_source_ranks",
                if (List.range np).any (fun p => !(target.contains p)) then "empty_target_rank" else "full_target_ranks",
                if inEnts.any (fun e => tgt e.1 != tgt e.2.1) then "halo" else "no_halo"] ++
               (if n ≤ 1 || inEnts.isEmpty then ["trivial"] else [])
  let base := "C20/repart"
  -- implementation side as NewRank
  let impl : List (NewRank Int) := (List.range np).map fun p =>
    { first := ((metas.getD p []).getD 0 0).toNat
      oldIds := (newRows.getD p []).map Int.toNat
      on := linesOf (on1.getD p []) (on2.getD p []) (onv.getD p [])
      off := linesOf (off1.getD p []) (off2.getD p []) (offv.getD p [])
      offOld := []
      offNew := (offMap.getD p []).map Int.toNat }
  let perm := reported impl
  -- specification: one permutation, reported to the caller
  if (newRows.any fun l => l.any (· < 0)) || (perm.toArray.qsort (· < ·)).toList != List.range n then
    return specFail (base ++ "/spec/permutation") s!"reported={showList perm} n={n}" feats
  for p in List.range np do
    let R := impl.getD p default
    if R.oldIds.any fun g => tgt g != p then
      return specFail (base ++ "/spec/row_on_wrong_rank") s!"rank{p} holds={showList R.oldIds} target={showList target}" feats
    let m := metas.getD p []
    let lr : Nat := R.oldIds.length
    let first : Nat := ((impl.take p).map fun r => r.oldIds.length).sum
    let mm := m.map Int.toNat
    if m.any (· < 0) || mm.getD 0 0 != first || mm.getD 1 0 != first || mm.getD 2 0 != n || mm.getD 3 0 != n || mm.getD 4 0 != lr || mm.getD 5 0 != lr
       || mm.getD 6 0 != R.offNew.length then
      return specFail (base ++ "/spec/numbering") s!"rank{p} metas={showList m} expected first={first} n={n} local={lr}" feats
    let ids := (List.range lr).map fun i => ((first + i : Nat) : Int)
    if onMap.getD p [] != ids || rowMap.getD p [] != ids then
      return specFail (base ++ "/spec/local_maps") s!"rank{p} on_proc_column_map={showList (onMap.getD p [])} local_row_map={showList (rowMap.getD p [])}" feats
    if R.on.length != lr || R.off.length != lr || (on1.getD p []).length != lr + 1 || (off1.getD p []).length != lr + 1 then
      return specFail (base ++ "/spec/block_shape") s!"rank{p}" feats
    if (R.on.any fun row => row.any fun e => e.1 ≥ lr) || ((on2.getD p []).any (· < 0)) then
      return specFail (base ++ "/spec/on_proc_index_range") s!"rank{p} idx2={showList (on2.getD p [])} local={lr}" feats
    if (R.off.any fun row => row.any fun e => e.1 ≥ R.offNew.length) || ((off2.getD p []).any (· < 0)) then
      return specFail (base ++ "/spec/off_proc_index_range") s!"rank{p} idx2={showList (off2.getD p [])} halo={R.offNew.length}" feats
    if !strictlyIncreasing R.offNew || (R.offNew.any fun c => c ≥ n || (first ≤ c && c < first + lr)) then
      return specFail (base ++ "/spec/halo_map") s!"rank{p} off_proc_column_map={showList R.offNew} own=[{first},{first + lr})" feats
  -- the new matrix is the old one renumbered by the reported permutation
  let outOld := (outputEntries impl).map fun e => (perm.getD e.1 0, perm.getD e.2.1 0, e.2.2)
  if sortEntries outOld != sortEntries inEnts then
    return specFail (base ++ "/spec/renumbered_entries")
      s!"new matrix read through the reported permutation={showList ((sortEntries outOld).map toString)} original={showList ((sortEntries inEnts).map toString)} perm={showList perm}" feats
  -- the package of the new matrix is valid for the new contiguous partition
  let fc := (List.range (np + 1)).map fun p => ((impl.take p).map fun r => r.oldIds.length).sum
  let offs := impl.map (·.offNew)
  for r in List.range np do
    let m := Comm.recvSide fc (offs.getD r [])
    let procs := (rp.getD r []).map Int.toNat
    let counts := lensOf (ri.getD r [])
    if procs.zip counts != m then
      return specFail (base ++ "/spec/comm/recv") s!"rank{r} impl={showList ((procs.zip counts).map toString)} required={showList (m.map toString)}" feats
    let sprocs := (sp.getD r []).map Int.toNat
    let msgs := (sprocs.zip (splitLens ((sx.getD r []).map Int.toNat) (lensOf (si.getD r [])))).toArray.qsort (fun a b => a.1 < b.1) |>.toList
    let want := Comm.sendSide fc offs r (List.range np)
    if msgs != want then
      return specFail (base ++ "/spec/comm/send") s!"rank{r} impl={showList (msgs.map toString)} required={showList (want.map toString)}" feats
  -- product with the permuted vector = permuted product
  if allOk == 0 then return specFail (base ++ "/spec/vector_shape") "local sizes inconsistent" feats
  let ax := Spmv.appendE inEnts x (Spmv.zeros n)
  let got := pb.flatten
  let wantB := perm.map fun g => ax.getD g 0
  if got != wantB then
    return specFail (base ++ "/spec/product") s!"A'(Px)={showList got} P(Ax)={showList wantB} perm={showList perm}" feats
  -- message-level model (arrival order: natural; the result is order-independent, Props/C20)
  let model := repartition tgt ranks (fun p => senders tgt ranks p)
  for p in List.range np do
    let M := model.getD p default
    let R := impl.getD p default
    if M.oldIds != R.oldIds then return diff (base ++ "/new_local_rows") s!"rank{p} impl={showList R.oldIds} model={showList M.oldIds}" feats
    if M.first != R.first then return diff (base ++ "/first_row") s!"rank{p} impl={R.first} model={M.first}" feats
    if M.offNew != R.offNew then return diff (base ++ "/off_proc_column_map") s!"rank{p} impl={showList R.offNew} model={showList M.offNew}" feats
    if M.on != R.on then return diff (base ++ "/on_proc") s!"rank{p} impl={showList (R.on.map toString)} model={showList (M.on.map toString)}" feats
    if M.off != R.off then return diff (base ++ "/off_proc") s!"rank{p} impl={showList (R.off.map toString)} model={showList (M.off.map toString)}" feats
  -- order independence, executed: reversed arrival order gives the same model result
  let model2 := repartition tgt ranks (fun p => (senders tgt ranks p).reverse)
  if model2 != model then return badCase "model: result depends on the arrival order"
  return ok feats

/-! ### scaling -/

def rdFPer (np : Nat) : Rd (List (List Float)) := do
  let v ← rdPer np
  return v.map fun l => l.map bitsToFloat

structure Blocks where
  on1 : List (List Int)
  on2 : List (List Int)
  onv : List (List Float)
  off1 : List (List Int)
  off2 : List (List Int)
  offv : List (List Float)

def rdBlocks (np : Nat) : Rd Blocks := do
  let on1 ← rdPer np; let on2 ← rdPer np; let onv ← rdFPer np
  let off1 ← rdPer np; let off2 ← rdPer np; let offv ← rdFPer np
  return { on1, on2, onv, off1, off2, offv }

def Blocks.blk (b : Blocks) (p : Nat) (rhs : List Float) : Blk Float :=
  { on := linesOf (b.on1.getD p []) (b.on2.getD p []) (b.onv.getD p [])
    off := linesOf (b.off1.getD p []) (b.off2.getD p []) (b.offv.getD p [])
    rhs := rhs }

def closeF (a b : Float) : Bool := fclose 0 a b
def closeVec (a b : List Float) : Bool := a.length == b.length && (a.zip b).all fun p => closeF p.1 p.2
def closeRows (a b : List (List (Nat × Float))) : Bool :=
  a.length == b.length && (a.zip b).all fun p =>
    p.1.length == p.2.length && (p.1.zip p.2).all fun q => q.1.1 == q.2.1 && closeF q.1.2 q.2.2

def sortF (es : List (Entry Float)) : List (Entry Float) :=
  es.toArray.qsort (fun a b => a.1 < b.1 || (a.1 == b.1 && a.2.1 < b.2.1)) |>.toList

def showRows (r : List (List (Nat × Float))) : String := showList (r.map toString)

def checkScale (rowscale : Bool) : Rd Verdict := do
  let np ← rdNat; let n ← rdNat; let kind ← rdNat; let valmode ← rdNat; let shuffled ← rdNat
  let firsts ← rdVec
  let offMap ← rdPer np
  let before ← rdBlocks np; let rhs0 ← rdFPer np; let sol0 ← rdFPer np
  let after ← rdBlocks np; let rhs1 ← rdFPer np; let sol1 ← rdFPer np; let scales ← rdFPer np
  let name := if rowscale then "rscale" else "dscale"
  let base := s!"C20/{name}"
  let lrs := (List.range np).map fun p => (firsts.getD (2 * p + 1) 0).toNat
  let fc := (List.range (np + 1)).map fun p => (lrs.take p).sum
  let offMaps := offMap.map fun l => l.map Int.toNat
  let feats := [name, s!"np{np}", s!"layout{kind}", s!"val{valmode}", if shuffled != 0 then "column_order" else "diag_first",
                if lrs.any (· == 0) then "emptyrank" else "fullranks",
                if offMaps.all List.isEmpty then "no_halo" else "halo"] ++ (if n ≤ 1 then ["trivial"] else [])
  let sc : Float → Float := if rowscale then fun a => 1.0 / a else fun a => 1.0 / Float.sqrt a.abs
  let blks0 := (List.range np).map fun p => before.blk p (rhs0.getD p [])
  let blks1 := (List.range np).map fun p => after.blk p (rhs1.getD p [])
  -- global specification: every stored entry, local or remote column, and the right-hand side
  let ents0 := (blks0.zipIdx.flatMap fun (B, p) => B.entries (fc.getD p 0) (offMaps.getD p []))
  let diag (g : Nat) : Float := ((ents0.find? fun e => e.1 == g && e.2.1 == g).map (·.2.2)).getD 0
  let d (g : Nat) : Float := sc (diag g)
  for p in List.range np do
    let B0 := blks0.getD p default; let B1 := blks1.getD p default
    let first := fc.getD p 0
    let onB := B0.on.zipIdx.map fun (row, i) => moveFront i row
    if B1.on.length != B0.on.length || B1.off.length != B0.off.length then
      return specFail (base ++ "/spec/shape") s!"rank{p}" feats
    -- on-process block: same structure (diagonal first), scaled values
    for ((r0, r1), i) in (onB.zip B1.on).zipIdx do
      if r0.map (·.1) != r1.map (·.1) then
        return specFail (base ++ "/spec/on_proc_structure") s!"rank{p} row{i} before={toString r0} after={toString r1}" feats
      for (e0, e1) in r0.zip r1 do
        let want := if rowscale then e0.2 * d (first + i) else e0.2 * (d (first + i) * d (first + e0.1))
        if !closeF e1.2 want then
          return specFail (base ++ "/spec/entry/on_proc") s!"rank{p} row{first + i} col{first + e0.1} a={e0.2} scaled={e1.2} required={want}" feats
    for ((r0, r1), i) in (B0.off.zip B1.off).zipIdx do
      if r0.map (·.1) != r1.map (·.1) then
        return specFail (base ++ "/spec/off_proc_structure") s!"rank{p} row{i}" feats
      for (e0, e1) in r0.zip r1 do
        let gcol := (offMaps.getD p []).getD e0.1 0
        let want := if rowscale then e0.2 * d (first + i) else e0.2 * (d (first + i) * d gcol)
        if !closeF e1.2 want then
          return specFail (base ++ "/spec/entry/off_proc") s!"rank{p} row{first + i} col{gcol} a={e0.2} scaled={e1.2} required={want}" feats
    for ((b0, b1), i) in (B0.rhs.zip B1.rhs).zipIdx do
      if !closeF b1 (b0 * d (first + i)) then
        return specFail (base ++ "/spec/rhs") s!"rank{p} row{first + i} b={b0} scaled={b1} required={b0 * d (first + i)}" feats
    if !rowscale then
      let s := scales.getD p []
      if s.length != B0.on.length then return specFail (base ++ "/spec/scales_length") s!"rank{p}" feats
      for (sv, i) in s.zipIdx do
        if !closeF sv (d (first + i)) then
          return specFail (base ++ "/spec/row_scales") s!"rank{p} row{first + i} scale={sv} required={d (first + i)}" feats
      for (((y0, y1), sv), i) in (((sol0.getD p []).zip (sol1.getD p [])).zip s).zipIdx do
        if !closeF y1 (y0 * sv) then
          return specFail (base ++ "/spec/unscale") s!"rank{p} row{first + i} y={y0} unscaled={y1} required={y0 * sv}" feats
  -- model (per-rank blocks, halo scales through the message-level exchange)
  if rowscale then
    for p in List.range np do
      let M := rowScaleRank sc (blks0.getD p default)
      let B1 := blks1.getD p default
      if !closeRows M.on B1.on then return diff (base ++ "/on_proc") s!"rank{p} impl={showRows B1.on} model={showRows M.on}" feats
      if !closeRows M.off B1.off then return diff (base ++ "/off_proc") s!"rank{p} impl={showRows B1.off} model={showRows M.off}" feats
      if !closeVec M.rhs B1.rhs then return diff (base ++ "/rhs") s!"rank{p}" feats
  else
    let model := diagScale sc fc offMaps blks0
    for p in List.range np do
      let (M, s) := model.getD p (default, [])
      let B1 := blks1.getD p default
      if !closeVec s (scales.getD p []) then return diff (base ++ "/row_scales") s!"rank{p} impl={scales.getD p []} model={s}" feats
      if !closeRows M.on B1.on then return diff (base ++ "/on_proc") s!"rank{p} impl={showRows B1.on} model={showRows M.on}" feats
      if !closeRows M.off B1.off then return diff (base ++ "/off_proc") s!"rank{p} impl={showRows B1.off} model={showRows M.off}" feats
      if !closeVec M.rhs B1.rhs then return diff (base ++ "/rhs") s!"rank{p}" feats
      if !closeVec (unscale (sol0.getD p []) s) (sol1.getD p []) then return diff (base ++ "/unscale") s!"rank{p}" feats
  return ok feats

def run (op : String) (a : Array Int) : Verdict :=
  let r := match op with
    | "repart" => runRd checkRepart a
    | "dscale" => runRd (checkScale false) a
    | "rscale" => runRd (checkScale true) a
    | _ => some (badCase s!"unknown op {op}")
  r.getD (badCase "malformed")

end Raptor.Driver.C20
