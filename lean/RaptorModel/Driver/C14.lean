import RaptorModel.Driver.Common
import RaptorModel.Model.Strength
/-! Driver for C14: strength matrices vs the model (exact at `Float`: dyadic data) and the
documented membership test evaluated independently on the implementation's output. -/
namespace Raptor.Driver.C14
open Raptor Raptor.Driver Raptor.Strength

def rdFVec : Rd (List Float) := do let v ← rdVec; return v.map bitsToFloat
def rdCsr : Rd (List (List (Nat × Float))) := do
  let idx1 ← rdVec; let idx2 ← rdNatVec; let vals ← rdFVec
  let lens := (idx1.zip (idx1.drop 1)).map fun p => (p.2 - p.1).toNat
  let rec split (l : List (Nat × Float)) : List Nat → List (List (Nat × Float))
    | [] => []
    | n :: ns => l.take n :: split (l.drop n) ns
  return split (idx2.zip vals) lens

/-- "no extreme": larger than every entry (the code's sentinel; it was `RAND_MAX` until the fix recorded for C14) -/
def BIG : Float := 1.7976931348623157e308

def canonRows (rows : List (List (Nat × Float))) : List (List (Nat × Float)) :=
  rows.map fun r => (r.toArray.qsort fun a b => a.1 < b.1).toList

/-- independent statement of the property on an output `S` for input `A` -/
def specCheck (type nv : Nat) (θ : Float) (A S : List (List (Nat × Float))) : Option String := Id.run do
  let n := A.length
  if S.length != n then return some s!"S has {S.length} rows, A has {n}"
  let diagOf (i : Nat) : Float := (((A.getD i []).find? fun e => e.1 == i).map (·.2)).getD 0
  let extreme (i : Nat) : Float :=
    let offs := ((A.getD i []).filter fun e => e.1 != i && (nv ≤ 1 || type == 1 || e.1 % nv == i % nv)).map (·.2)
    if diagOf i < 0 then offs.foldl max (-BIG) else offs.foldl min BIG
  let passRow (i : Nat) (v : Float) : Bool := if diagOf i < 0 then v > θ * extreme i else v < θ * extreme i
  for i in List.range n do
    let a := A.getD i []; let s := S.getD i []
    -- only entries of A, with their original values, each at most once
    for e in s do
      if !(a.any fun x => x.1 == e.1 && x.2 == e.2) then return some s!"row {i}: entry ({e.1}, {e.2}) is not an entry of A"
    if (s.map (·.1)).eraseDups.length != s.length then return some s!"row {i}: a column occurs twice"
    -- the diagonal of every non-empty row is kept
    if !a.isEmpty && (a.any fun x => x.1 == i) && !(s.any fun x => x.1 == i) then return some s!"row {i}: diagonal dropped"
    -- off-diagonal membership ⇔ threshold test
    for e in a do
      if e.1 != i then
        let sameVar := nv ≤ 1 || type == 1 || e.1 % nv == i % nv
        let want := if type == 0 then sameVar && passRow i e.2 else (passRow i e.2 || passRow e.1 e.2)
        let got := s.any fun x => x.1 == e.1
        if want != got then return some s!"row {i} col {e.1} value {e.2}: in S = {got}, threshold test = {want} (theta={θ}, extreme={extreme i}, diag={diagOf i})"
  return none

def typeName : Nat → String | 0 => "classical" | _ => "symmetric"

def checkSeq : Rd Verdict := do
  let type ← rdNat; let nv ← rdNat; let θb ← rdInt; let n ← rdNat
  let A ← rdCsr; let S ← rdCsr
  let θ := bitsToFloat θb
  let base := s!"C14/seq/{typeName type}"
  let feats := ["seq", typeName type, s!"nv{nv}", if θ == 0 then "theta0" else if θ == 1 then "theta1" else "theta_mid",
                if A.any (fun r => (r.head?.map (·.2)).getD 1 < 0) then "neg_diag" else "pos_diag"] ++ (if n ≤ 1 then ["trivial"] else [])
  match specCheck type nv θ A S with
  | some msg => return specFail (base ++ "/spec") msg feats
  | none => pure ()
  let m := if type == 0 then classical BIG θ nv A else symmetric BIG θ A
  if m != S then return diff (base ++ "/arrays") s!"impl={repr S} model={repr m}" feats
  return ok feats

def checkPar : Rd Verdict := do
  let type ← rdNat; let nv ← rdNat; let θb ← rdInt; let n ← rdNat; let np ← rdNat; let tap ← rdNat
  let A ← rdCsr
  let ents ← rdVec
  let dims ← (List.range np).mapM fun _ => do let a ← rdInt; let b ← rdInt; let c ← rdInt; pure (a, b, c)
  let θ := bitsToFloat θb
  let base := s!"C14/par/{typeName type}" ++ (if tap != 0 then "/tap" else "")
  let feats := ["par", typeName type, s!"nv{nv}", s!"np{np}", if tap != 0 then "tap" else "std",
                if dims.any (fun d => d.2.2 == 0) then "emptyrank" else "fullranks"] ++ (if n ≤ 1 then ["trivial"] else [])
  for d in dims do
    if d.1 != (n : Int) || d.2.1 != (n : Int) then return specFail (base ++ "/spec/global_dims") s!"{d.1}x{d.2.1}, expected {n}x{n}" feats
  let rec trip : List Int → List (Nat × Nat × Float)
    | i :: j :: v :: rest => ((if i < 0 then 1000000007 else i.toNat), (if j < 0 then 1000000007 else j.toNat), bitsToFloat v) :: trip rest
    | _ => []
  let es := trip ents
  if es.any (fun e => e.1 ≥ n || e.2.1 ≥ n) then return specFail (base ++ "/spec/index_range") "" feats
  let S : List (List (Nat × Float)) := (List.range n).map fun i => (es.filter fun e => e.1 == i).map fun e => (e.2.1, e.2.2)
  match specCheck type nv θ A S with
  | some msg => return specFail (base ++ "/spec") msg feats
  | none => pure ()
  -- the same global matrix as the sequential routine
  let m := if type == 0 then classical BIG θ nv A else symmetric BIG θ A
  if canonRows m != canonRows S then return diff (base ++ "/vs_sequential") s!"par={repr (canonRows S)} seq={repr (canonRows m)}" feats
  return ok feats

def run (op : String) (a : Array Int) : Verdict :=
  let r := match op with
    | "seq" => runRd checkSeq a
    | "par" => runRd checkPar a
    | _ => some (badCase s!"unknown op {op}")
  r.getD (badCase "malformed")

end Raptor.Driver.C14
