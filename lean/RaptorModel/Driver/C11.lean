import RaptorModel.Driver.Common
import RaptorModel.Model.Relax
/-! Driver for C11: relaxation sweeps at `Float` (same operation order as the C++), sequential and
distributed (all ranks simulated together, halo refreshed at the start of every sweep). -/
namespace Raptor.Driver.C11
open Raptor Raptor.Driver Raptor.Relax

/-- the definition divides by any nonzero diagonal (the code's guard was `|d| > 1e-16` until the fix recorded for C11) -/
def big (d : Float) : Bool := d != 0.0

def rdFVec : Rd (List Float) := do let v ← rdVec; return v.map bitsToFloat

/-- nested rows from CSR arrays -/
def rdCsr : Rd (List (List (Nat × Float))) := do
  let idx1 ← rdVec; let idx2 ← rdNatVec; let vals ← rdFVec
  let lens := (idx1.zip (idx1.drop 1)).map fun p => (p.2 - p.1).toNat
  let ents := idx2.zip vals
  let rec split (l : List (Nat × Float)) : List Nat → List (List (Nat × Float))
    | [] => []
    | n :: ns => l.take n :: split (l.drop n) ns
  return split ents lens

def closeVec (a b : List Float) : Bool :=
  a.length == b.length &&
  let scale := (a.map Float.abs).foldl max 0
  (a.zip b).all fun p => fclose scale p.1 p.2

def kindName : Nat → String | 0 => "jacobi" | 1 => "sor" | _ => "ssor"

def showF (l : List Float) : String := showList (l.map toString)

def checkSeq : Rd Verdict := do
  let kind ← rdNat; let n ← rdNat; let sweeps ← rdNat; let ωb ← rdInt; let exact ← rdNat
  let rows ← rdCsr; let b ← rdFVec; let x0 ← rdFVec; let xr ← rdFVec; let br ← rdFVec
  let ω := bitsToFloat ωb
  let path := s!"C11/seq/{kindName kind}"
  let feats := ["seq", kindName kind, s!"sweeps{sweeps}", if exact != 0 then "exact_start" else "random_start",
                if ω == 1.0 then "omega1" else "omega_other"] ++ (if n ≤ 1 then ["trivial"] else [])
  if br != b then return specFail (path ++ "/spec/rhs_modified") s!"b before={showF b} after={showF br}" feats
  let model := match kind with
    | 0 => jacobi big rows b ω sweeps x0
    | 1 => sor rows b ω sweeps x0
    | _ => ssor rows b ω sweeps x0
  -- fixed point: started at the exact solution of an integer system, the sweep must return it
  if exact != 0 && !closeVec x0 xr then
    return specFail (path ++ "/spec/fixed_point") s!"omega={ω} x0={showF x0} result={showF xr}" feats
  if !closeVec model xr then
    return diff (path ++ "/x") s!"omega={ω} sweeps={sweeps} impl={showF xr} model={showF model} x0={showF x0} b={showF b}" feats
  return ok feats

structure RankData where
  (fr lr : Nat)
  on : List (List (Nat × Float))
  off : List (List (Nat × Float))
  offMap : List Nat
  xres : List Float
  bres : List Float

def rdRank : Rd RankData := do
  let fr ← rdNat; let lr ← rdNat
  let on ← rdCsr; let off ← rdCsr; let offMap ← rdNatVec; let xres ← rdFVec; let bres ← rdFVec
  return { fr, lr, on, off, offMap, xres, bres }

def checkPar : Rd Verdict := do
  let kind ← rdNat; let np ← rdNat; let tap ← rdNat; let n ← rdNat; let sweeps ← rdNat; let ωb ← rdInt; let exact ← rdNat
  let b ← rdFVec; let x0 ← rdFVec
  let ranks ← (List.range np).mapM fun _ => rdRank
  let ω := bitsToFloat ωb
  let path := s!"C11/par/{kindName kind}" ++ (if tap != 0 then "/tap" else "")
  let feats := ["par", kindName kind, s!"np{np}", if tap != 0 then "tap" else "std", s!"sweeps{sweeps}",
                if exact != 0 then "exact_start" else "random_start", if ω == 1.0 then "omega1" else "omega_other",
                if ranks.any (fun r => r.lr == 0) then "emptyrank" else "fullranks",
                if ranks.all (fun r => r.offMap.isEmpty) then "no_halo" else "halo"] ++ (if n ≤ 1 then ["trivial"] else [])
  -- the routines must have established the canonical layout: diagonal first in every local row
  for (r, k) in ranks.zipIdx do
    for (row, i) in r.on.zipIdx do
      match row with
      | (c, _) :: _ => if c != i then return specFail (path ++ "/spec/diag_first") s!"rank{k} row{i}" feats
      | [] => pure ()
    if r.bres != (b.drop r.fr).take r.lr then return specFail (path ++ "/spec/rhs_modified") s!"rank{k}" feats
  -- simulate all ranks sweep by sweep
  let mut x := x0
  for _ in List.range sweeps do
    let xs := x
    let parts := ranks.map fun r =>
      let xl := (xs.drop r.fr).take r.lr
      let bl := (b.drop r.fr).take r.lr
      let dist := r.offMap.map fun gcol => xs.getD gcol 0
      match kind with
      | 0 => hybridJacobi big r.on r.off bl dist ω xl
      | 1 => hybridForward r.on r.off bl dist ω xl
      | _ => hybridBackward r.on r.off bl dist ω (hybridForward r.on r.off bl dist ω xl)
    x := parts.flatten
  let got := (ranks.map (·.xres)).flatten
  if exact != 0 && !closeVec x0 got then
    return specFail (path ++ "/spec/fixed_point") s!"omega={ω} x0={showF x0} result={showF got}" feats
  if !closeVec x got then
    return diff (path ++ "/x") s!"omega={ω} sweeps={sweeps} impl={showF got} model={showF x} x0={showF x0}" feats
  return ok feats

def run (op : String) (a : Array Int) : Verdict :=
  let r := match op with
    | "seq" => runRd checkSeq a
    | "par" => runRd checkPar a
    | _ => some (badCase s!"unknown op {op}")
  r.getD (badCase "malformed")

end Raptor.Driver.C11
