import RaptorModel.Lemmas.MatrixMarketLemmas
import RaptorModel.Props.C07
/-!
# C19MM — Matrix Market coordinate files: what is written is what is read back

Property theorems about `Model/MatrixMarket.lean` (`writeMM`, `readEntries`, `readMM`,
`symmetricFile`), for every scalar type that is a commutative additive monoid, all sizes, all
`i j : Nat`. Helper lemmas are in `Lemmas/MatrixMarketLemmas.lean`.

1. `writeMM` produces a well-formed `general` file with the dimensions of the matrix.
2. `readEntries (writeMM A) = A.entries`: the 1-based shift is undone exactly, entry by entry, in
   storage order.
3. `readMM (writeMM A)` represents the same operator as `A` (same dense image, same dimensions); the
   CSR matrix read from a well-formed file is well-formed.
4. A `symmetric` file that stores the lower triangle of a symmetric entry list is read back as the
   full matrix, every diagonal entry once.
5. What the banner means: a diagonal line of a symmetric file gives ONE entry, an off-diagonal line
   two, and a general file one entry per declared line.
6. Concrete files checked by `decide`.
-/
namespace Raptor.C19MM
open Raptor.Sparse Raptor.MatrixMarket

variable {K : Type}

/-! ## 1. `write_mm` writes a well-formed general file -/

theorem writeMM_dims (A : Csr K) :
    (writeMM A).nRows = A.nRows ∧ (writeMM A).nCols = A.nCols := ⟨rfl, rfl⟩

theorem writeMM_general (A : Csr K) : (writeMM A).symmetric = false := rfl

/-- one line per stored entry, and the declared count is that number -/
theorem writeMM_nnz (A : Csr K) :
    (writeMM A).nnzDeclared = A.entries.length ∧ (writeMM A).lines.length = A.entries.length :=
  ⟨rfl, by rw [writeMM_lines, List.length_map]⟩

/-- declared count = number of lines, every index in `1..size` -/
theorem writeMM_WF (A : Csr K) (h : A.WF = true) : (writeMM A).WF = true := by
  rw [MMFile.WF_iff]
  refine ⟨(writeMM_nnz A).2.symm ▸ (writeMM_nnz A).1, ?_⟩
  intro l hl
  rw [writeMM_lines] at hl
  obtain ⟨e, he, rfl⟩ := List.mem_map.mp hl
  have hlt := Csr.entries_lt h he
  simp only [shiftE]
  exact ⟨Nat.le_add_left 1 e.1, hlt.1, Nat.le_add_left 1 e.2.1, hlt.2⟩

/-! ## 2. reading back what was written: the entries, in order -/

/-- a general file gives one entry per declared line, the indices shifted down by one -/
theorem readEntries_general (f : MMFile K) (hg : f.symmetric = false) :
    readEntries f = (f.lines.take f.nnzDeclared).map fun l => (l.1 - 1, l.2.1 - 1, l.2.2) := by
  rw [readEntries_eq, hg, flatMap_lineEntries_false]

theorem readEntries_writeMM (A : Csr K) : readEntries (writeMM A) = A.entries := by
  rw [readEntries_eq, writeMM_general, writeMM_lines, (writeMM_nnz A).1,
    ← List.length_map (as := A.entries) shiftE, List.take_length,
    flatMap_lineEntries_false_shiftE]

/-! ## 3. the matrix read back -/

theorem readMM_dims (f : MMFile K) :
    (readMM f).nRows = f.nRows ∧ (readMM f).nCols = f.nCols := ⟨rfl, rfl⟩

theorem readMM_writeMM (A : Csr K) : readMM (writeMM A) = cooToCsr (csrToCoo A) := by
  unfold readMM
  rw [readEntries_writeMM]
  rfl

theorem read_write_dims (A : Csr K) :
    (readMM (writeMM A)).nRows = A.nRows ∧ (readMM (writeMM A)).nCols = A.nCols := ⟨rfl, rfl⟩

/-- reading back what was written represents the same operator -/
theorem read_write_den [AddCommMonoid K] (A : Csr K) (h : A.WF = true) (i j : Nat) :
    (readMM (writeMM A)).den i j = A.den i j := by
  rw [readMM_writeMM, C07.den_cooToCsr _ (C07.wf_csrToCoo A h)]
  rfl

theorem read_write_WF (A : Csr K) (h : A.WF = true) : (readMM (writeMM A)).WF = true := by
  rw [readMM_writeMM]
  exact C07.wf_cooToCsr _ (C07.wf_csrToCoo A h)

/-- every entry read from a well-formed file is inside the declared size (for a symmetric file the
    declared size has to be square, otherwise a mirror image can fall outside) -/
theorem readEntries_lt (f : MMFile K) (h : f.WF = true)
    (hsq : f.symmetric = true → f.nRows = f.nCols) :
    ∀ e ∈ readEntries f, e.1 < f.nRows ∧ e.2.1 < f.nCols := by
  intro e he
  rw [readEntries_eq, List.mem_flatMap] at he
  obtain ⟨l, hl, hel⟩ := he
  have hr := (MMFile.WF_iff.mp h).2 l (List.mem_of_mem_take hl)
  rcases mem_lineEntries hel with rfl | ⟨hs, rfl⟩
  · exact ⟨by simp only; omega, by simp only; omega⟩
  · have := hsq hs
    exact ⟨by simp only; omega, by simp only; omega⟩

theorem readCoo_WF (f : MMFile K) (h : f.WF = true)
    (hsq : f.symmetric = true → f.nRows = f.nCols) :
    (⟨f.nRows, f.nCols, readEntries f⟩ : Coo K).WF = true :=
  Coo.WF_iff.mpr (readEntries_lt f h hsq)

theorem readMM_WF (f : MMFile K) (h : f.WF = true)
    (hsq : f.symmetric = true → f.nRows = f.nCols) : (readMM f).WF = true :=
  C07.wf_cooToCsr _ (readCoo_WF f h hsq)

/-- the CSR matrix read from a well-formed file represents the sum of the entries of its lines -/
theorem readMM_den [AddCommMonoid K] (f : MMFile K) (h : f.WF = true)
    (hsq : f.symmetric = true → f.nRows = f.nCols) (i j : Nat) :
    (readMM f).den i j = denE (readEntries f) i j :=
  C07.den_cooToCsr _ (readCoo_WF f h hsq) i j

/-! ## 4. symmetric files -/

theorem symmetricFile_dims (n : Nat) (es : List (Entry K)) :
    (symmetricFile n es).nRows = n ∧ (symmetricFile n es).nCols = n ∧
      (symmetricFile n es).symmetric = true := ⟨rfl, rfl, rfl⟩

theorem symmetricFile_nnz (n : Nat) (es : List (Entry K)) :
    (symmetricFile n es).nnzDeclared = (lowerTriangle es).length ∧
      (symmetricFile n es).lines.length = (lowerTriangle es).length :=
  ⟨rfl, by rw [symmetricFile_lines, List.length_map]⟩

theorem symmetricFile_WF (n : Nat) (es : List (Entry K)) (hlt : ∀ e ∈ es, e.1 < n ∧ e.2.1 < n) :
    (symmetricFile n es).WF = true := by
  rw [MMFile.WF_iff]
  refine ⟨(symmetricFile_nnz n es).2.symm ▸ (symmetricFile_nnz n es).1, ?_⟩
  intro l hl
  rw [symmetricFile_lines] at hl
  obtain ⟨e, he, rfl⟩ := List.mem_map.mp hl
  have := hlt e (List.mem_of_mem_filter he)
  simp only [shiftE]
  exact ⟨Nat.le_add_left 1 e.1, this.1, Nat.le_add_left 1 e.2.1, this.2⟩

/-- the strictly lower triangle -/
def strictLower (es : List (Entry K)) : List (Entry K) := es.filter fun e => e.2.1 < e.1
/-- the strictly upper triangle -/
def strictUpper (es : List (Entry K)) : List (Entry K) := es.filter fun e => e.1 < e.2.1

theorem offdiag_lowerTriangle (es : List (Entry K)) :
    (lowerTriangle es).filter (fun e => e.1 != e.2.1) = strictLower es := by
  unfold lowerTriangle strictLower
  rw [List.filter_filter]
  apply List.filter_congr
  intro e _
  rw [Bool.eq_iff_iff]
  simp only [Bool.and_eq_true, bne_iff_ne, decide_eq_true_eq]
  omega

/-- what is read from a symmetric file: the stored lower triangle and the mirror image of its
    strict part (no hypothesis on `es`) -/
theorem readEntries_symmetricFile_perm_lower (n : Nat) (es : List (Entry K)) :
    (readEntries (symmetricFile n es)).Perm (lowerTriangle es ++ (strictLower es).map swapE) := by
  rw [readEntries_eq, (symmetricFile_dims n es).2.2, symmetricFile_lines, (symmetricFile_nnz n es).1,
    ← List.length_map (as := lowerTriangle es) shiftE, List.take_length,
    ← offdiag_lowerTriangle]
  exact flatMap_lineEntries_true_perm _

theorem lower_append_upper_perm (es : List (Entry K)) :
    (lowerTriangle es ++ strictUpper es).Perm es := by
  have h : strictUpper es = es.filter (fun e => !decide (e.2.1 ≤ e.1)) := by
    unfold strictUpper
    apply List.filter_congr
    intro e _
    rw [Bool.eq_iff_iff]
    simp only [Bool.not_eq_true', decide_eq_true_eq, decide_eq_false_iff_not]
    omega
  rw [h]
  exact List.filter_append_perm _ es

/-- by symmetry and absence of repetitions, the strict upper triangle is the mirror image of the
    strict lower triangle -/
theorem strictLower_swap_perm_upper {es : List (Entry K)} (hnd : es.Nodup)
    (hsym : ∀ e ∈ es, swapE e ∈ es) : ((strictLower es).map swapE).Perm (strictUpper es) := by
  have h : (strictLower es).map swapE = (es.map swapE).filter fun e => e.1 < e.2.1 := by
    unfold strictLower
    rw [List.filter_map]
    rfl
  rw [h]
  exact (map_swapE_perm hnd hsym).filter _

/-- **a symmetric file is read back as the full entry list**, up to the order of the entries -/
theorem readEntries_symmetricFile_perm (n : Nat) (es : List (Entry K)) (hnd : es.Nodup)
    (hsym : ∀ e ∈ es, (e.2.1, e.1, e.2.2) ∈ es) :
    (readEntries (symmetricFile n es)).Perm es :=
  (readEntries_symmetricFile_perm_lower n es).trans
    (((strictLower_swap_perm_upper hnd hsym).append_left _).trans (lower_append_upper_perm es))

section Monoid
variable [AddCommMonoid K]

/-- pointwise form, no hypothesis on `es`: below and on the diagonal the stored value, above the
    diagonal the value stored at the mirror position -/
theorem readEntries_symmetricFile_den_lower (n : Nat) (es : List (Entry K)) (i j : Nat) :
    denE (readEntries (symmetricFile n es)) i j =
      if j ≤ i then denE es i j else denE es j i := by
  rw [denE_perm (readEntries_symmetricFile_perm_lower n es), denE_append, denE_map_swapE]
  have h1 := denE_filter_pos (fun r c => decide (c ≤ r)) es i j
  have h2 := denE_filter_pos (fun r c => decide (c < r)) es j i
  unfold lowerTriangle strictLower
  rw [h1, h2]
  by_cases h : j ≤ i
  · have h' : ¬ i < j := by omega
    simp [h, h']
  · have h' : i < j := by omega
    simp [h, h']

/-- the weakest hypothesis: `es` is symmetric as an operator -/
theorem readEntries_symmetricFile_den_of_symm (n : Nat) (es : List (Entry K))
    (hsym : ∀ i j, denE es i j = denE es j i) (i j : Nat) :
    denE (readEntries (symmetricFile n es)) i j = denE es i j := by
  rw [readEntries_symmetricFile_den_lower]
  split
  · rfl
  · exact hsym j i

/-- **a file that stores the lower triangle under a `symmetric` banner is read back as the full
    matrix**, each diagonal entry once -/
theorem readEntries_symmetricFile_den (n : Nat) (es : List (Entry K))
    (hnd : (es.map fun e => (e.1, e.2.1)).Nodup)
    (hsym : ∀ e ∈ es, (e.2.1, e.1, e.2.2) ∈ es) (i j : Nat) :
    denE (readEntries (symmetricFile n es)) i j = denE es i j :=
  denE_perm (readEntries_symmetricFile_perm n es (nodup_of_nodup_pos hnd) hsym) i j

/-- the CSR matrix `read_mm` builds from the symmetric file of an `n × n` entry list -/
theorem readMM_symmetric_den (n : Nat) (es : List (Entry K))
    (hlt : ∀ e ∈ es, e.1 < n ∧ e.2.1 < n)
    (hnd : (es.map fun e => (e.1, e.2.1)).Nodup)
    (hsym : ∀ e ∈ es, (e.2.1, e.1, e.2.2) ∈ es) (i j : Nat) :
    (readMM (symmetricFile n es)).den i j = denE es i j := by
  rw [readMM_den _ (symmetricFile_WF n es hlt) (fun _ => rfl)]
  exact readEntries_symmetricFile_den n es hnd hsym i j

/-- the same for the CSR matrix `A` itself when its entries are the list -/
theorem readMM_symmetric_csr_den (A : Csr K) (h : A.WF = true) (hsq : A.nRows = A.nCols)
    (hnd : (A.entries.map fun e => (e.1, e.2.1)).Nodup)
    (hsym : ∀ e ∈ A.entries, (e.2.1, e.1, e.2.2) ∈ A.entries) (i j : Nat) :
    (readMM (symmetricFile A.nRows A.entries)).den i j = A.den i j :=
  readMM_symmetric_den A.nRows A.entries
    (fun _ he => ⟨(Csr.entries_lt h he).1, hsq ▸ (Csr.entries_lt h he).2⟩) hnd hsym i j

end Monoid

/-! ## 5. what the banner means -/

/-- a diagonal line `(r, r, v)` of a symmetric file contributes exactly ONE entry (a reader that
    mirrors every line would double the diagonal) -/
theorem readEntries_symmetric_diag_once (nR nC : Nat) (pre post : List (Nat × Nat × K))
    (r : Nat) (v : K) :
    readEntries ⟨true, nR, nC, (pre ++ (r, r, v) :: post).length, pre ++ (r, r, v) :: post⟩ =
      readEntries ⟨true, nR, nC, pre.length, pre⟩ ++ (r - 1, r - 1, v) ::
        readEntries ⟨true, nR, nC, post.length, post⟩ := by
  simp only [readEntries_eq, List.take_length, List.flatMap_append, List.flatMap_cons,
    lineEntries_true_diag, List.singleton_append]

/-- an off-diagonal line `(r, c, v)` of a symmetric file contributes the entry and its mirror image -/
theorem readEntries_symmetric_offdiag_twice (nR nC : Nat) (pre post : List (Nat × Nat × K))
    (r c : Nat) (v : K) (hrc : r ≠ c) :
    readEntries ⟨true, nR, nC, (pre ++ (r, c, v) :: post).length, pre ++ (r, c, v) :: post⟩ =
      readEntries ⟨true, nR, nC, pre.length, pre⟩ ++ (r - 1, c - 1, v) :: (c - 1, r - 1, v) ::
        readEntries ⟨true, nR, nC, post.length, post⟩ := by
  simp only [readEntries_eq, List.take_length, List.flatMap_append, List.flatMap_cons,
    lineEntries_true_offdiag r c v hrc, List.cons_append, List.nil_append]

/-- number of entries of a symmetric file: the declared lines plus one for each off-diagonal one -/
theorem readEntries_symmetric_length (f : MMFile K) (hs : f.symmetric = true) :
    (readEntries f).length = (f.lines.take f.nnzDeclared).length +
      ((f.lines.take f.nnzDeclared).filter fun l => l.1 != l.2.1).length := by
  rw [readEntries_eq, hs, length_flatMap_lineEntries_true]

/-- a symmetric file with diagonal lines only gives as many entries as lines -/
theorem readEntries_symmetric_diag_length (f : MMFile K) (hs : f.symmetric = true)
    (hd : ∀ l ∈ f.lines, l.1 = l.2.1) (hn : f.nnzDeclared = f.lines.length) :
    (readEntries f).length = f.lines.length := by
  rw [readEntries_symmetric_length f hs, hn, List.take_length]
  have : f.lines.filter (fun l => l.1 != l.2.1) = [] := by
    rw [List.filter_eq_nil_iff]
    intro l hl
    simp [hd l hl]
  rw [this]
  rfl

/-- with a general banner nothing is mirrored: as many entries as declared lines present -/
theorem readEntries_general_no_mirror (f : MMFile K) (hg : f.symmetric = false) :
    (readEntries f).length = min f.nnzDeclared f.lines.length := by
  rw [readEntries_general f hg, List.length_map, List.length_take]

theorem readEntries_general_no_mirror_WF (f : MMFile K) (hg : f.symmetric = false)
    (h : f.WF = true) :
    (readEntries f).length = f.lines.length ∧ (readEntries f).length = f.nnzDeclared := by
  have hn := (MMFile.WF_iff.mp h).1
  rw [readEntries_general_no_mirror f hg, hn, Nat.min_self]
  exact ⟨rfl, rfl⟩

/-- the banner is not ignored: the same lines under the two banners differ by exactly the mirror
    images of the off-diagonal lines -/
theorem readEntries_banner_length (nR nC k : Nat) (ls : List (Nat × Nat × K)) :
    (readEntries ⟨true, nR, nC, k, ls⟩).length =
      (readEntries ⟨false, nR, nC, k, ls⟩).length +
        ((ls.take k).filter fun l => l.1 != l.2.1).length := by
  rw [readEntries_symmetric_length _ rfl, readEntries_general _ rfl, List.length_map]

/-! ## 6. concrete files -/

section Examples

/-- `[[5, 0, -7], [0, 3, 4]]` (row 0 stored out of column order) -/
def A23 : Csr Int := ⟨2, 3, [[(2, -7), (0, 5)], [(1, 3), (2, 4)]]⟩

example : writeMM A23 = ⟨false, 2, 3, 4, [(1, 3, -7), (1, 1, 5), (2, 2, 3), (2, 3, 4)]⟩ := by decide
example : (writeMM A23).WF = true := by decide
example : readEntries (writeMM A23) = [(0, 2, -7), (0, 0, 5), (1, 1, 3), (1, 2, 4)] := by decide
example : readEntries (writeMM A23) = A23.entries := by decide
example : ((readMM (writeMM A23)).nRows, (readMM (writeMM A23)).nCols) = (2, 3) := by decide
example : readMM (writeMM A23) = A23 := by decide

/-- the 1D Laplacian on three points, as a full entry list -/
def L3 : List (Entry Int) :=
  [(0, 0, 2), (1, 0, -1), (0, 1, -1), (1, 1, 2), (2, 1, -1), (1, 2, -1), (2, 2, 2)]

example : symmetricFile 3 L3 =
    ⟨true, 3, 3, 5, [(1, 1, 2), (2, 1, -1), (2, 2, 2), (3, 2, -1), (3, 3, 2)]⟩ := by decide
example : (symmetricFile 3 L3).WF = true := by decide
example : readEntries (symmetricFile 3 L3) =
    [(0, 0, 2), (1, 0, -1), (0, 1, -1), (1, 1, 2), (2, 1, -1), (1, 2, -1), (2, 2, 2)] := by decide
example : (readEntries (symmetricFile 3 L3)).length = 7 := by decide
example : readMM (symmetricFile 3 L3) =
    ⟨3, 3, [[(0, 2), (1, -1)], [(0, -1), (1, 2), (2, -1)], [(1, -1), (2, 2)]]⟩ := by decide
/-- the same lines under a `general` banner are only the lower triangle -/
example : (readEntries { symmetricFile 3 L3 with symmetric := false }).length = 5 := by decide
/-- a declared count smaller than the number of lines truncates the file -/
example : readEntries (⟨false, 2, 2, 1, [(1, 1, 4), (2, 2, 5)]⟩ : MMFile Int) = [(0, 0, 4)] := by
  decide

end Examples

end Raptor.C19MM
