import Mathlib.Algebra.Field.Basic
import Mathlib.Algebra.Order.Field.Rat
import Mathlib.Order.Defs.LinearOrder
import RaptorModel.Lemmas.KrylovLemmas

/-!
# C17 — Krylov solvers report true residual norms; inner products / norms propagate NaN

Exact arithmetic (`K` a commutative ring with a division operation, e.g. a field; an arbitrary
`SqrtOp K`; an arbitrary decidable `<`).  The operator is any `mv : List K → List K` satisfying
`LinSys n mv resid b` (length preserving, additive/homogeneous in the `axpy` form,
`resid x = b − mv x`).

* `cgIters … : List (List K × List K)` — the pairs `(x_k, r_k)` for `k = 0, 1, …` that `cg`
  goes through (`cgIterates` is the same recursion as `cgLoop`); `cgX … k` is `x_k`.
* `cg_residual_true` — `r_k = resid x_k` for every iterate (recurrence residual = true residual,
  also across the explicit recomputation every 8 iterations).
* `cg_reported_true` — `res[k] = report (sqrt ⟨resid x_k, resid x_k⟩)`.
* `cg_returns_last`, `cg_res_length` — `o.x = x_{o.iters}`, `res.length = o.iters + 1`.
* `cg_stops` — `iters ≤ maxIter`; all earlier iterates violate the tolerance; if stopped before the
  limit the returned iterate meets it.
* the same for BiCGStab (`bicg_*`), with an arbitrary `norm`.
* `dotNF_nan_iff`, `sumSqNF_nan_iff`, `dotNF_fin`, `sumSqNF_fin`.
* `dot_flatten` — global inner product = sum of the local inner products, for every partition.

Remark (G): monotone decrease of the energy norm of the CG error is proved abstractly in
`Raptor.C10.cg_step_energy` (Lemmas/EnergyLemmas.lean); it is not repeated here.
-/


namespace Raptor.C17
open Raptor Raptor.Krylov

/-! ## B. the invariant `r = resid x` and its preservation by one step -/

section Invariant
variable {K : Type} [CommRing K] [Div K]

/-- the residual invariant: the carried vector `r` is the true residual of `x` (lengths `n`) -/
def Inv (resid : List K → List K) (n : Nat) (x r : List K) : Prop :=
  x.length = n ∧ r.length = n ∧ r = resid x

omit [Div K] in
theorem Inv.of_resid {n : Nat} {mv resid : List K → List K} {b : List K}
    (L : LinSys n mv resid b) {x : List K} (hx : x.length = n) : Inv resid n x (resid x) :=
  ⟨hx, L.length_resid hx, rfl⟩

omit [Div K] in
/-- the recurrence residual `r − α A p` and the explicitly recomputed residual of the new iterate
    `x + α p` coincide (so it does not matter at which iterations CG recomputes) -/
theorem recurrence_eq_recomputed {n : Nat} {mv resid : List K → List K} {b : List K}
    (L : LinSys n mv resid b) {x r p : List K} (al : K) (hp : p.length = n)
    (h : Inv resid n x r) :
    axpy r (mv p) (-al) = resid (axpy x p al) := by
  rw [h.2.2]; exact L.resid_step al h.1 hp

/-- one CG step (either branch) preserves the invariant -/
theorem cg_step_inv {n : Nat} {mv resid : List K → List K} {b : List K}
    (L : LinSys n mv resid b) (it : Nat) {x r p : List K} (rr : K) (hp : p.length = n)
    (h : Inv resid n x r) :
    Inv resid n (cgNextX mv x p rr) (cgNextR mv resid it x r p rr) := by
  have hx' := cgNextX_length mv rr h.1 hp
  have hr' := cgNextR_eq L it rr h.1 hp h.2.2
  exact ⟨hx', by rw [hr']; exact L.length_resid hx', hr'⟩

/-- one BiCGStab step preserves the invariant: `x' = x + αp + ωs`, `r' = s − ωAs`,
    `s = r − αAp`, for whatever `α`, `ω` -/
theorem bicg_step_inv [DecidableEq K] {n : Nat} {mv resid : List K → List K} {b : List K}
    (L : LinSys n mv resid b) (rstar : List K) {x r p : List K} (rr : K) (hp : p.length = n)
    (h : Inv resid n x r) :
    Inv resid n (bicgNextX mv rstar x r p rr) (bicgNextR mv rstar r p rr) := by
  have hx' := bicgNextX_length L rstar rr h.1 hp h.2.2
  have hr' := bicgNextR_eq L rstar rr h.1 hp h.2.2
  exact ⟨hx', by rw [hr']; exact L.length_resid hx', hr'⟩

end Invariant

/-! ## B/C. conjugate gradients -/

section CG
variable {K : Type} [CommRing K] [Div K] [SqrtOp K] [LT K] [DecidableLT K] [DecidableEq K]

/-- the scaled tolerance `cg` uses: `tol` if `‖r₀‖ = 0`, else `tol·‖r₀‖` -/
def cgTol (resid : List K → List K) (tol : K) (x0 : List K) : K :=
  if SqrtOp.sqrt (dot (resid x0) (resid x0)) = 0 then tol
  else tol * SqrtOp.sqrt (dot (resid x0) (resid x0))

/-- all iterates `(x_k, r_k)`, `k = 0, 1, …`, of `cg` -/
def cgIters (mv resid : List K → List K) (tol : K) (maxIter : Nat) (x0 : List K) :
    List (List K × List K) :=
  (x0, resid x0) :: cgIterates mv resid (cgTol resid tol x0) maxIter maxIter 0 x0 (resid x0)
    (resid x0) (dot (resid x0) (resid x0)) (SqrtOp.sqrt (dot (resid x0) (resid x0)))

/-- the `k`-th iterate `x_k` of `cg` (`[]` beyond the last one) -/
def cgX (mv resid : List K → List K) (tol : K) (maxIter : Nat) (x0 : List K) (k : Nat) : List K :=
  ((cgIters mv resid tol maxIter x0)[k]?.getD ([], [])).1

theorem cg_eq (mv resid : List K → List K) (tol : K) (maxIter : Nat) (report : K → K)
    (x0 : List K) :
    cg mv resid tol maxIter report x0 =
      cgLoop mv resid (cgTol resid tol x0) maxIter report maxIter 0 x0 (resid x0) (resid x0)
        (dot (resid x0) (resid x0)) (SqrtOp.sqrt (dot (resid x0) (resid x0)))
        [report (SqrtOp.sqrt (dot (resid x0) (resid x0)))] := rfl

theorem cgX_of_lt (mv resid : List K → List K) (tol : K) (maxIter : Nat) (x0 : List K) (k : Nat)
    (hk : k < (cgIters mv resid tol maxIter x0).length) :
    cgX mv resid tol maxIter x0 k = ((cgIters mv resid tol maxIter x0)[k]).1 := by
  unfold cgX; rw [List.getElem?_eq_getElem hk]; rfl

theorem cgX_zero (mv resid : List K → List K) (tol : K) (maxIter : Nat) (x0 : List K) :
    cgX mv resid tol maxIter x0 0 = x0 := rfl

omit [DecidableEq K] in
/-- **Loop invariant theorem.** From an entry state with `r = resid x` (lengths `n`), the loop
    appends to the history exactly the reports of the iterates it produces, each of which carries
    its true residual. -/
theorem cgLoop_inv {n : Nat} {mv resid : List K → List K} {b : List K}
    (L : LinSys n mv resid b) (tol : K) (maxIter : Nat) (report : K → K)
    (fuel it : Nat) (x r p : List K) (rr normr : K) (res : List K)
    (hx : x.length = n) (hp : p.length = n) (hr : r = resid x) :
    (cgLoop mv resid tol maxIter report fuel it x r p rr normr res).res =
        res ++ (cgIterates mv resid tol maxIter fuel it x r p rr normr).map
          (fun xr => report (SqrtOp.sqrt (dot (resid xr.1) (resid xr.1)))) ∧
      ∀ xr ∈ cgIterates mv resid tol maxIter fuel it x r p rr normr, xr.2 = resid xr.1 := by
  have hinv := cgIterates_inv L tol maxIter fuel it x r p rr normr hx hp hr
  refine ⟨?_, hinv⟩
  rw [cgLoop_res]
  congr 1
  apply List.map_congr_left
  intro xr hxr
  simp only [nrm, hinv xr hxr]

/-- **`cg_residual_true`**: the residual vector carried by CG at every iterate is the true residual
    `b − A x_k` of that iterate. -/
theorem cg_residual_true {n : Nat} {mv resid : List K → List K} {b : List K}
    (L : LinSys n mv resid b) (tol : K) (maxIter : Nat) (x0 : List K) (hx0 : x0.length = n) :
    ∀ xr ∈ cgIters mv resid tol maxIter x0, xr.2 = resid xr.1 := by
  intro xr hmem
  rcases List.mem_cons.1 hmem with h | h
  · rw [h]
  · exact cgIterates_inv L _ _ _ _ _ _ _ _ _ hx0 (L.length_resid hx0) rfl xr h

/-- history = reports of the norms attached to the iterates (no hypotheses) -/
theorem cg_res_eq (mv resid : List K → List K) (tol : K) (maxIter : Nat) (report : K → K)
    (x0 : List K) :
    (cg mv resid tol maxIter report x0).res =
      (cgIters mv resid tol maxIter x0).map fun xr => report (nrm xr) := by
  rw [cg_eq, cgLoop_res]; rfl

theorem cg_iters_length (mv resid : List K → List K) (tol : K) (maxIter : Nat) (report : K → K)
    (x0 : List K) :
    (cgIters mv resid tol maxIter x0).length = (cg mv resid tol maxIter report x0).iters + 1 := by
  rw [cg_eq, cgLoop_iters]; simp [cgIters]

/-- the history has one entry per iterate: `res.length = iters + 1` -/
theorem cg_res_length (mv resid : List K → List K) (tol : K) (maxIter : Nat) (report : K → K)
    (x0 : List K) :
    (cg mv resid tol maxIter report x0).res.length =
      (cg mv resid tol maxIter report x0).iters + 1 := by
  rw [cg_res_eq, List.length_map, cg_iters_length mv resid tol maxIter report]

/-- **`cg_reported_true`** (list form) -/
theorem cg_reported_true_map {n : Nat} {mv resid : List K → List K} {b : List K}
    (L : LinSys n mv resid b) (tol : K) (maxIter : Nat) (report : K → K) (x0 : List K)
    (hx0 : x0.length = n) :
    (cg mv resid tol maxIter report x0).res =
      (cgIters mv resid tol maxIter x0).map
        fun xr => report (SqrtOp.sqrt (dot (resid xr.1) (resid xr.1))) := by
  rw [cg_res_eq]
  apply List.map_congr_left
  intro xr hxr
  simp only [nrm, cg_residual_true L tol maxIter x0 hx0 xr hxr]

/-- **`cg_reported_true`**: the `k`-th reported value is the (reported) true residual norm of the
    `k`-th iterate. -/
theorem cg_reported_true {n : Nat} {mv resid : List K → List K} {b : List K}
    (L : LinSys n mv resid b) (tol : K) (maxIter : Nat) (report : K → K) (x0 : List K)
    (hx0 : x0.length = n) (k : Nat) (hk : k < (cg mv resid tol maxIter report x0).res.length) :
    (cg mv resid tol maxIter report x0).res[k] =
      report (SqrtOp.sqrt (dot (resid (cgX mv resid tol maxIter x0 k))
        (resid (cgX mv resid tol maxIter x0 k)))) := by
  have hk' : k < (cgIters mv resid tol maxIter x0).length := by
    rw [cg_res_eq, List.length_map] at hk; exact hk
  rw [cgX_of_lt _ _ _ _ _ _ hk']
  have h := cg_reported_true_map L tol maxIter report x0 hx0
  rw [List.getElem_of_eq h hk, List.getElem_map]

/-- **`cg_returns_last`**: the returned vector is the iterate the last reported residual belongs
    to, `o.x = x_{o.iters}`. -/
theorem cg_returns_last (mv resid : List K → List K) (tol : K) (maxIter : Nat) (report : K → K)
    (x0 : List K) :
    (cg mv resid tol maxIter report x0).x =
      cgX mv resid tol maxIter x0 (cg mv resid tol maxIter report x0).iters := by
  have h := cgLoop_x mv resid (cgTol resid tol x0) maxIter report maxIter 0 x0 (resid x0)
    (resid x0) (dot (resid x0) (resid x0)) (SqrtOp.sqrt (dot (resid x0) (resid x0)))
    [report (SqrtOp.sqrt (dot (resid x0) (resid x0)))]
  have hi : (cg mv resid tol maxIter report x0).iters =
      (cgIterates mv resid (cgTol resid tol x0) maxIter maxIter 0 x0 (resid x0)
        (resid x0) (dot (resid x0) (resid x0)) (SqrtOp.sqrt (dot (resid x0) (resid x0)))).length := by
    rw [cg_eq, cgLoop_iters]; simp
  rw [← cg_eq, ← hi] at h
  unfold cgX
  have h2 : (cgIters mv resid tol maxIter x0)[(cg mv resid tol maxIter report x0).iters]?.map
      Prod.fst = some (cg mv resid tol maxIter report x0).x := by
    rw [← h, ← List.getElem?_map]; rfl
  cases hq : (cgIters mv resid tol maxIter x0)[(cg mv resid tol maxIter report x0).iters]? with
  | none => rw [hq] at h2; simp at h2
  | some q => rw [hq] at h2; simp at h2; simp [h2]

/-- **`cg_stops`**: (1) never more than `maxIter` iterations; (2) every iterate before the
    returned one violates the (scaled) tolerance — the solver stops at the FIRST iterate meeting
    it; (3) if it stops before the limit, the returned iterate meets the tolerance.
    The norms are the true residual norms. -/
theorem cg_stops {n : Nat} {mv resid : List K → List K} {b : List K}
    (L : LinSys n mv resid b) (tol : K) (maxIter : Nat) (report : K → K) (x0 : List K)
    (hx0 : x0.length = n) :
    (cg mv resid tol maxIter report x0).iters ≤ maxIter ∧
    (∀ k, k < (cg mv resid tol maxIter report x0).iters →
      cgTol resid tol x0 < SqrtOp.sqrt (dot (resid (cgX mv resid tol maxIter x0 k))
        (resid (cgX mv resid tol maxIter x0 k)))) ∧
    ((cg mv resid tol maxIter report x0).iters < maxIter →
      ¬ cgTol resid tol x0 < SqrtOp.sqrt (dot (resid (cg mv resid tol maxIter report x0).x)
        (resid (cg mv resid tol maxIter report x0).x))) := by
  have hlen := cg_iters_length mv resid tol maxIter report x0
  have hi : (cg mv resid tol maxIter report x0).iters =
      (cgIterates mv resid (cgTol resid tol x0) maxIter maxIter 0 x0 (resid x0)
        (resid x0) (dot (resid x0) (resid x0)) (SqrtOp.sqrt (dot (resid x0) (resid x0)))).length := by
    rw [cg_eq, cgLoop_iters]; simp
  have hnrm : ∀ k (hk : k < (cgIters mv resid tol maxIter x0).length),
      ((SqrtOp.sqrt (dot (resid x0) (resid x0))) ::
        (cgIterates mv resid (cgTol resid tol x0) maxIter maxIter 0 x0 (resid x0)
        (resid x0) (dot (resid x0) (resid x0))
        (SqrtOp.sqrt (dot (resid x0) (resid x0)))).map nrm)[k]? =
      some (SqrtOp.sqrt (dot (resid (cgX mv resid tol maxIter x0 k))
        (resid (cgX mv resid tol maxIter x0 k)))) := by
    intro k hk
    have e : ((SqrtOp.sqrt (dot (resid x0) (resid x0))) ::
        (cgIterates mv resid (cgTol resid tol x0) maxIter maxIter 0 x0 (resid x0)
        (resid x0) (dot (resid x0) (resid x0))
        (SqrtOp.sqrt (dot (resid x0) (resid x0)))).map nrm) =
        (cgIters mv resid tol maxIter x0).map nrm := rfl
    rw [e, List.getElem?_map, List.getElem?_eq_getElem hk, cgX_of_lt _ _ _ _ _ _ hk]
    simp only [Option.map_some, nrm]
    rw [cg_residual_true L tol maxIter x0 hx0 _ (List.getElem_mem hk)]
  refine ⟨?_, ?_, ?_⟩
  · rw [cg_eq]; exact cgLoop_iters_le _ _ _ _ _ _ _ _ _ _ _ _ _ (Nat.zero_le _)
  · intro k hk
    exact cgIterates_before mv resid (cgTol resid tol x0) maxIter maxIter 0 x0 (resid x0)
      (resid x0) _ _ k _ (by omega) (hnrm k (by omega))
  · intro hlt
    rw [cg_returns_last]
    refine cgIterates_last mv resid (cgTol resid tol x0) maxIter maxIter 0 x0 (resid x0)
      (resid x0) (dot (resid x0) (resid x0)) (SqrtOp.sqrt (dot (resid x0) (resid x0))) _
      (by omega) (by omega) ?_
    rw [← hi]
    exact hnrm _ (by omega)

/-! ### the iterates are what the solver returns under a smaller iteration limit

This ties the trace `cgIters`/`cgX` to the solver itself: `x_k` is the vector `cg` returns when its
iteration limit is `k` (same tolerance), and the history under a smaller limit is a prefix. -/

theorem cgIters_take (mv resid : List K → List K) (tol : K) (m M : Nat) (hm : m ≤ M)
    (x0 : List K) :
    cgIters mv resid tol m x0 = (cgIters mv resid tol M x0).take (m + 1) := by
  unfold cgIters
  rw [List.take_succ_cons,
    cgIterates_fuel mv resid _ m m M 0 _ _ _ _ _ (by omega) (by omega),
    cgIterates_take mv resid _ m M hm M 0]
  simp

theorem cg_prefix_res (mv resid : List K → List K) (tol : K) (m M : Nat) (hm : m ≤ M)
    (report : K → K) (x0 : List K) :
    (cg mv resid tol m report x0).res = (cg mv resid tol M report x0).res.take (m + 1) := by
  rw [cg_res_eq, cg_res_eq, cgIters_take mv resid tol m M hm, List.map_take]

theorem cg_prefix_iters (mv resid : List K → List K) (tol : K) (m M : Nat) (hm : m ≤ M)
    (report : K → K) (x0 : List K) :
    (cg mv resid tol m report x0).iters = min m (cg mv resid tol M report x0).iters := by
  have h1 := cg_iters_length mv resid tol m report x0
  have h2 := cg_iters_length mv resid tol M report x0
  rw [cgIters_take mv resid tol m M hm, List.length_take, h2] at h1
  omega

theorem cgX_prefix (mv resid : List K → List K) (tol : K) (m M : Nat) (hm : m ≤ M)
    (x0 : List K) (k : Nat) (hk : k ≤ m) :
    cgX mv resid tol m x0 k = cgX mv resid tol M x0 k := by
  unfold cgX
  rw [cgIters_take mv resid tol m M hm, List.getElem?_take, if_pos (by omega)]

/-- `x_k` is the vector returned by `cg` run with iteration limit `k` -/
theorem cgX_eq_cg (mv resid : List K → List K) (tol : K) (M : Nat) (report : K → K)
    (x0 : List K) (k : Nat) (hk : k ≤ (cg mv resid tol M report x0).iters) :
    cgX mv resid tol M x0 k = (cg mv resid tol k report x0).x := by
  have hM : (cg mv resid tol M report x0).iters ≤ M := by
    rw [cg_eq]; exact cgLoop_iters_le _ _ _ _ _ _ _ _ _ _ _ _ _ (Nat.zero_le _)
  have hkM : k ≤ M := by omega
  rw [cg_returns_last, cg_prefix_iters mv resid tol k M hkM, Nat.min_eq_left hk,
    cgX_prefix mv resid tol k M hkM x0 k (Nat.le_refl _)]

end CG

/-- `cg_stops` (3) over a linear order: the final true residual norm is `≤` the scaled tolerance.
    The order and the ring structure need not be compatible. -/
theorem cg_stops_le {K : Type} [CommRing K] [Div K] [SqrtOp K] [LinearOrder K]
    {n : Nat} {mv resid : List K → List K} {b : List K}
    (L : LinSys n mv resid b) (tol : K) (maxIter : Nat) (report : K → K) (x0 : List K)
    (hx0 : x0.length = n) (hlt : (cg mv resid tol maxIter report x0).iters < maxIter) :
    SqrtOp.sqrt (dot (resid (cg mv resid tol maxIter report x0).x)
        (resid (cg mv resid tol maxIter report x0).x)) ≤ cgTol resid tol x0 :=
  not_lt.1 ((cg_stops L tol maxIter report x0 hx0).2.2 hlt)

/-! ## D. BiCGStab -/

section BiCG
variable {K : Type} [CommRing K] [Div K] [LT K] [DecidableLT K] [DecidableEq K]

def bicgTol (resid : List K → List K) (norm : List K → K) (tol : K) (x0 : List K) : K :=
  if norm (resid x0) = 0 then tol else tol * norm (resid x0)

/-- all iterates `(x_k, r_k)`, `k = 0, 1, …`, of `bicgstab` -/
def bicgIters (mv resid : List K → List K) (norm : List K → K) (tol : K) (maxIter : Nat)
    (x0 : List K) : List (List K × List K) :=
  (x0, resid x0) :: bicgIterates mv norm (resid x0) (bicgTol resid norm tol x0) maxIter maxIter 0
    x0 (resid x0) (resid x0) (dot (resid x0) (resid x0)) (norm (resid x0))

def bicgX (mv resid : List K → List K) (norm : List K → K) (tol : K) (maxIter : Nat)
    (x0 : List K) (k : Nat) : List K :=
  ((bicgIters mv resid norm tol maxIter x0)[k]?.getD ([], [])).1

theorem bicgstab_eq (mv resid : List K → List K) (norm : List K → K) (tol : K) (maxIter : Nat)
    (x0 : List K) :
    bicgstab mv resid norm tol maxIter x0 =
      bicgLoop mv norm (resid x0) (bicgTol resid norm tol x0) maxIter maxIter 0 x0 (resid x0)
        (resid x0) (dot (resid x0) (resid x0)) (norm (resid x0)) [norm (resid x0)] := rfl

theorem bicgX_of_lt (mv resid : List K → List K) (norm : List K → K) (tol : K) (maxIter : Nat)
    (x0 : List K) (k : Nat) (hk : k < (bicgIters mv resid norm tol maxIter x0).length) :
    bicgX mv resid norm tol maxIter x0 k = ((bicgIters mv resid norm tol maxIter x0)[k]).1 := by
  unfold bicgX; rw [List.getElem?_eq_getElem hk]; rfl

/-- loop invariant theorem for `bicgLoop` -/
theorem bicgLoop_inv {n : Nat} {mv resid : List K → List K} {b : List K}
    (L : LinSys n mv resid b) (norm : List K → K) (rstar : List K) (tol : K) (maxIter : Nat)
    (fuel it : Nat) (x r p : List K) (rr normr : K) (res : List K)
    (hx : x.length = n) (hp : p.length = n) (hr : r = resid x) :
    (bicgLoop mv norm rstar tol maxIter fuel it x r p rr normr res).res =
        res ++ (bicgIterates mv norm rstar tol maxIter fuel it x r p rr normr).map
          (fun xr => norm (resid xr.1)) ∧
      ∀ xr ∈ bicgIterates mv norm rstar tol maxIter fuel it x r p rr normr,
        xr.2 = resid xr.1 := by
  have hinv := bicgIterates_inv L norm rstar tol maxIter fuel it x r p rr normr hx hp hr
  refine ⟨?_, hinv⟩
  rw [bicgLoop_res]
  congr 1
  apply List.map_congr_left
  intro xr hxr
  simp only [hinv xr hxr]

/-- **`bicg_residual_true`**: BiCGStab's residual vector is the true residual of every iterate
    (whatever `α`, `ω` are, including the guarded `ω = 0` branch). -/
theorem bicg_residual_true {n : Nat} {mv resid : List K → List K} {b : List K}
    (L : LinSys n mv resid b) (norm : List K → K) (tol : K) (maxIter : Nat) (x0 : List K)
    (hx0 : x0.length = n) :
    ∀ xr ∈ bicgIters mv resid norm tol maxIter x0, xr.2 = resid xr.1 := by
  intro xr hmem
  rcases List.mem_cons.1 hmem with h | h
  · rw [h]
  · exact bicgIterates_inv L _ _ _ _ _ _ _ _ _ _ _ hx0 (L.length_resid hx0) rfl xr h

theorem bicg_res_eq (mv resid : List K → List K) (norm : List K → K) (tol : K) (maxIter : Nat)
    (x0 : List K) :
    (bicgstab mv resid norm tol maxIter x0).res =
      (bicgIters mv resid norm tol maxIter x0).map fun xr => norm xr.2 := by
  rw [bicgstab_eq, bicgLoop_res]; rfl

theorem bicg_iters_length (mv resid : List K → List K) (norm : List K → K) (tol : K)
    (maxIter : Nat) (x0 : List K) :
    (bicgIters mv resid norm tol maxIter x0).length =
      (bicgstab mv resid norm tol maxIter x0).iters + 1 := by
  rw [bicgstab_eq, bicgLoop_iters]; simp [bicgIters]

theorem bicg_res_length (mv resid : List K → List K) (norm : List K → K) (tol : K)
    (maxIter : Nat) (x0 : List K) :
    (bicgstab mv resid norm tol maxIter x0).res.length =
      (bicgstab mv resid norm tol maxIter x0).iters + 1 := by
  rw [bicg_res_eq, List.length_map, bicg_iters_length]

theorem bicg_reported_true_map {n : Nat} {mv resid : List K → List K} {b : List K}
    (L : LinSys n mv resid b) (norm : List K → K) (tol : K) (maxIter : Nat) (x0 : List K)
    (hx0 : x0.length = n) :
    (bicgstab mv resid norm tol maxIter x0).res =
      (bicgIters mv resid norm tol maxIter x0).map fun xr => norm (resid xr.1) := by
  rw [bicg_res_eq]
  apply List.map_congr_left
  intro xr hxr
  simp only [bicg_residual_true L norm tol maxIter x0 hx0 xr hxr]

/-- **`bicg_reported_true`** -/
theorem bicg_reported_true {n : Nat} {mv resid : List K → List K} {b : List K}
    (L : LinSys n mv resid b) (norm : List K → K) (tol : K) (maxIter : Nat) (x0 : List K)
    (hx0 : x0.length = n) (k : Nat)
    (hk : k < (bicgstab mv resid norm tol maxIter x0).res.length) :
    (bicgstab mv resid norm tol maxIter x0).res[k] =
      norm (resid (bicgX mv resid norm tol maxIter x0 k)) := by
  have hk' : k < (bicgIters mv resid norm tol maxIter x0).length := by
    rw [bicg_res_eq, List.length_map] at hk; exact hk
  rw [bicgX_of_lt _ _ _ _ _ _ _ hk']
  have h := bicg_reported_true_map L norm tol maxIter x0 hx0
  rw [List.getElem_of_eq h hk, List.getElem_map]

/-- **`bicg_returns_last`** -/
theorem bicg_returns_last (mv resid : List K → List K) (norm : List K → K) (tol : K)
    (maxIter : Nat) (x0 : List K) :
    (bicgstab mv resid norm tol maxIter x0).x =
      bicgX mv resid norm tol maxIter x0 (bicgstab mv resid norm tol maxIter x0).iters := by
  have h := bicgLoop_x mv norm (resid x0) (bicgTol resid norm tol x0) maxIter maxIter 0 x0
    (resid x0) (resid x0) (dot (resid x0) (resid x0)) (norm (resid x0)) [norm (resid x0)]
  have hi : (bicgstab mv resid norm tol maxIter x0).iters =
      (bicgIterates mv norm (resid x0) (bicgTol resid norm tol x0) maxIter maxIter 0 x0
        (resid x0) (resid x0) (dot (resid x0) (resid x0)) (norm (resid x0))).length := by
    rw [bicgstab_eq, bicgLoop_iters]; simp
  rw [← bicgstab_eq, ← hi] at h
  unfold bicgX
  have h2 : (bicgIters mv resid norm tol maxIter x0)[
      (bicgstab mv resid norm tol maxIter x0).iters]?.map
      Prod.fst = some (bicgstab mv resid norm tol maxIter x0).x := by
    rw [← h, ← List.getElem?_map]; rfl
  cases hq : (bicgIters mv resid norm tol maxIter x0)[
      (bicgstab mv resid norm tol maxIter x0).iters]? with
  | none => rw [hq] at h2; simp at h2
  | some q => rw [hq] at h2; simp at h2; simp [h2]

/-- **`bicg_stops`** -/
theorem bicg_stops {n : Nat} {mv resid : List K → List K} {b : List K}
    (L : LinSys n mv resid b) (norm : List K → K) (tol : K) (maxIter : Nat) (x0 : List K)
    (hx0 : x0.length = n) :
    (bicgstab mv resid norm tol maxIter x0).iters ≤ maxIter ∧
    (∀ k, k < (bicgstab mv resid norm tol maxIter x0).iters →
      bicgTol resid norm tol x0 < norm (resid (bicgX mv resid norm tol maxIter x0 k))) ∧
    ((bicgstab mv resid norm tol maxIter x0).iters < maxIter →
      ¬ bicgTol resid norm tol x0 < norm (resid (bicgstab mv resid norm tol maxIter x0).x)) := by
  have hlen := bicg_iters_length mv resid norm tol maxIter x0
  have hi : (bicgstab mv resid norm tol maxIter x0).iters =
      (bicgIterates mv norm (resid x0) (bicgTol resid norm tol x0) maxIter maxIter 0 x0
        (resid x0) (resid x0) (dot (resid x0) (resid x0)) (norm (resid x0))).length := by
    rw [bicgstab_eq, bicgLoop_iters]; simp
  have hnrm : ∀ k (hk : k < (bicgIters mv resid norm tol maxIter x0).length),
      (norm (resid x0) ::
        (bicgIterates mv norm (resid x0) (bicgTol resid norm tol x0) maxIter maxIter 0 x0
        (resid x0) (resid x0) (dot (resid x0) (resid x0)) (norm (resid x0))).map
          fun xr => norm xr.2)[k]? =
      some (norm (resid (bicgX mv resid norm tol maxIter x0 k))) := by
    intro k hk
    have e : (norm (resid x0) ::
        (bicgIterates mv norm (resid x0) (bicgTol resid norm tol x0) maxIter maxIter 0 x0
        (resid x0) (resid x0) (dot (resid x0) (resid x0)) (norm (resid x0))).map
          fun xr => norm xr.2) =
        (bicgIters mv resid norm tol maxIter x0).map fun xr => norm xr.2 := rfl
    rw [e, List.getElem?_map, List.getElem?_eq_getElem hk, bicgX_of_lt _ _ _ _ _ _ _ hk]
    simp only [Option.map_some]
    rw [bicg_residual_true L norm tol maxIter x0 hx0 _ (List.getElem_mem hk)]
  refine ⟨?_, ?_, ?_⟩
  · rw [bicgstab_eq]; exact bicgLoop_iters_le _ _ _ _ _ _ _ _ _ _ _ _ _ (Nat.zero_le _)
  · intro k hk
    exact bicgIterates_before mv norm (resid x0) (bicgTol resid norm tol x0) maxIter maxIter 0 x0
      (resid x0) (resid x0) (dot (resid x0) (resid x0)) (norm (resid x0)) k _ (by omega)
      (hnrm k (by omega))
  · intro hlt
    rw [bicg_returns_last]
    refine bicgIterates_last mv norm (resid x0) (bicgTol resid norm tol x0) maxIter maxIter 0 x0
      (resid x0) (resid x0) (dot (resid x0) (resid x0)) (norm (resid x0)) _
      (by omega) (by omega) ?_
    rw [← hi]
    exact hnrm _ (by omega)

end BiCG

theorem bicg_stops_le {K : Type} [CommRing K] [Div K] [LinearOrder K]
    {n : Nat} {mv resid : List K → List K} {b : List K}
    (L : LinSys n mv resid b) (norm : List K → K) (tol : K) (maxIter : Nat) (x0 : List K)
    (hx0 : x0.length = n) (hlt : (bicgstab mv resid norm tol maxIter x0).iters < maxIter) :
    norm (resid (bicgstab mv resid norm tol maxIter x0).x) ≤ bicgTol resid norm tol x0 :=
  not_lt.1 ((bicg_stops L norm tol maxIter x0 hx0).2.2 hlt)

/-! ## E. NaN propagation -/

section NaN
variable {K : Type}

/-- **`dotNF_nan_iff`**: the inner product is NaN exactly when one of the entries it multiplies
    (positions below both lengths) is NaN. -/
theorem dotNF_nan_iff [Add K] [Mul K] [Zero K] (u v : List (NF K)) :
    dotNF u v = .nan ↔
      ∃ i, ∃ h : i < min u.length v.length,
        u[i]'(by omega) = .nan ∨ v[i]'(by omega) = .nan := by
  rw [dotNF_nan_iff_mem]
  constructor
  · rintro ⟨q, hq, h⟩
    obtain ⟨i, hi, rfl⟩ := List.mem_iff_getElem.1 hq
    refine ⟨i, by simpa [List.length_zip] using hi, ?_⟩
    simpa [List.getElem_zip] using h
  · rintro ⟨i, hi, h⟩
    refine ⟨(u[i]'(by omega), v[i]'(by omega)), ?_, h⟩
    rw [List.mem_iff_getElem]
    exact ⟨i, by simp only [List.length_zip]; exact hi, by simp⟩

/-- **`sumSqNF_nan_iff`**: the sum of squares (hence the 2-norm) is NaN exactly when an entry is,
    whatever the predicate `small` allows to skip. -/
theorem sumSqNF_nan_iff [Add K] [Mul K] [Zero K] (small : K → Bool) (v : List (NF K)) :
    sumSqNF small v = .nan ↔ .nan ∈ v := by
  -- (the `match` in the model and the one in the lemma are different auxiliary matchers,
  --  equal by unfolding: go through `have … :=` instead of `rw`)
  have h : sumSqNF small v = .nan ↔ (NF.fin 0 : NF K) = .nan ∨ .nan ∈ v :=
    sumSqNF_foldl_nan_iff small v (.fin 0)
  simpa using h

/-- **`dotNF_fin`**: on finite entries `dotNF` is the ordinary `dot` -/
theorem dotNF_fin [Add K] [Mul K] [Zero K] (u v : List K) :
    dotNF (u.map NF.fin) (v.map NF.fin) = .fin (dot u v) := by
  unfold dotNF dot
  rw [← dotNF_foldl_fin, List.zip_map]
  rfl

/-- the finite value of an entry (`0` for NaN) -/
def NF.val [Zero K] : NF K → K
  | .fin k => k
  | .nan => 0

theorem map_fin_val [Zero K] (u : List (NF K)) (h : NF.nan ∉ u) :
    (u.map NF.val).map NF.fin = u := by
  induction u with
  | nil => rfl
  | cons a u ih =>
    simp only [List.mem_cons, not_or] at h
    rw [List.map_cons, List.map_cons, ih h.2]
    cases a with
    | fin k => rfl
    | nan => exact absurd rfl h.1

/-- `dotNF_fin` in the "no entry is NaN" form -/
theorem dotNF_fin_of_not_mem [Add K] [Mul K] [Zero K] (u v : List (NF K))
    (hu : NF.nan ∉ u) (hv : NF.nan ∉ v) :
    dotNF u v = .fin (dot (u.map NF.val) (v.map NF.val)) := by
  rw [← dotNF_fin, map_fin_val u hu, map_fin_val v hv]

theorem foldl_zip_self [Add K] [Mul K] (w : List K) (s : K) :
    (w.zip w).foldl (fun s p => s + p.1 * p.2) s = (w.map fun k => k * k).foldl (· + ·) s := by
  induction w generalizing s with
  | nil => rfl
  | cons a w ih => simp only [List.zip_cons_cons, List.foldl_cons, List.map_cons, ih]

/-- **`sumSqNF_fin`**: on finite entries the sum of squares is `⟨w, w⟩` for `w` the entries that
    are not skipped as small -/
theorem sumSqNF_fin [Add K] [Mul K] [Zero K] (small : K → Bool) (v : List K) :
    sumSqNF small (v.map NF.fin) =
      .fin (dot (v.filter fun k => !small k) (v.filter fun k => !small k)) := by
  have h : sumSqNF small (v.map NF.fin) =
      .fin (((v.filter fun k => !small k).map fun k => k * k).foldl (· + ·) 0) :=
    sumSqNF_foldl_fin small v 0
  rw [h]; unfold dot; rw [foldl_zip_self]

theorem sumSqNF_fin_of_not_mem [Add K] [Mul K] [Zero K] (small : K → Bool) (v : List (NF K))
    (hv : NF.nan ∉ v) :
    sumSqNF small v =
      .fin (dot ((v.map NF.val).filter fun k => !small k)
        ((v.map NF.val).filter fun k => !small k)) := by
  rw [← sumSqNF_fin, map_fin_val v hv]

/-- with nothing skipped the sum of squares is `dotNF v v` -/
theorem sumSqNF_eq_dotNF [Add K] [Mul K] [Zero K] (v : List K) :
    sumSqNF (fun _ => false) (v.map NF.fin) = dotNF (v.map NF.fin) (v.map NF.fin) := by
  rw [sumSqNF_fin, dotNF_fin]; simp

end NaN

/-! ## F. distributed = sequential for the building blocks -/

section Blocks
variable {K : Type}

/-- **global inner product = sum of the local inner products**, for every partition into blocks
    (rank-local parts concatenated in rank order) with matching block lengths. -/
theorem dot_flatten [NonUnitalNonAssocSemiring K] (us vs : List (List K))
    (h : List.Forall₂ (fun u v => u.length = v.length) us vs) :
    dot us.flatten vs.flatten = (List.zipWith dot us vs).sum := by
  induction h with
  | nil => simp
  | cons hab _ ih =>
    rw [List.flatten_cons, List.flatten_cons, dot_append _ _ _ _ hab, ih,
      List.zipWith_cons_cons, List.sum_cons]

/-- the local `axpy`s concatenate to the global `axpy` -/
theorem axpy_flatten [Add K] [Mul K] (ys xs : List (List K)) (a : K)
    (h : List.Forall₂ (fun u v => u.length = v.length) ys xs) :
    axpy ys.flatten xs.flatten a = (List.zipWith (fun y x => axpy y x a) ys xs).flatten := by
  induction h with
  | nil => simp
  | cons hab _ ih =>
    rw [List.flatten_cons, List.flatten_cons, axpy_append _ _ _ _ _ hab, ih,
      List.zipWith_cons_cons, List.flatten_cons]

theorem scale_flatten [Mul K] (ys : List (List K)) (a : K) :
    scale ys.flatten a = (ys.map fun y => scale y a).flatten := by
  simp [scale, List.map_flatten]

/-- the global sum of squares `⟨v,v⟩` is the sum of the local ones -/
theorem dot_self_flatten [NonUnitalNonAssocSemiring K] (vs : List (List K)) :
    dot vs.flatten vs.flatten = (vs.map fun v => dot v v).sum := by
  rw [dot_flatten vs vs (by induction vs with
    | nil => exact .nil
    | cons a l ih => exact .cons rfl ih)]
  congr 1
  induction vs with
  | nil => rfl
  | cons a l ih => rw [List.zipWith_cons_cons, List.map_cons, ih]

end Blocks

/-! ## Examples: the hypotheses are satisfiable; concrete runs -/

section Examples

/-- any function may serve as `sqrt` in the theorems; the identity makes `Rat` runs exact -/
local instance sqrtIdRat : SqrtOp Rat := ⟨id⟩

/-- SPD 2×2 system `A = [[4,1],[1,3]]`, `b = [1,2]`, solution `[1/11, 7/11]` -/
def A2 : List (List Rat) := [[4, 1], [1, 3]]
def b2 : List Rat := [1, 2]
def resid2 (x : List Rat) : List Rat := axpy b2 (matMv A2 x) (-1)

/-- `hlen`, `hadd`, `hres`, `b.length = n` hold for the concrete system -/
example : LinSys 2 (matMv A2) resid2 b2 := matMv_linSys A2 b2 rfl rfl

-- CG converges in two steps (exact arithmetic); history has `iters + 1` entries
example : (cg (matMv A2) resid2 0 10 id [0, 0]).x = [1/11, 7/11] := by decide +kernel
example : (cg (matMv A2) resid2 0 10 id [0, 0]).iters = 2 := by decide +kernel
example : (cg (matMv A2) resid2 0 10 id [0, 0]).res = [5, 5/16, 0] := by decide +kernel
-- the reported values are the true `⟨b − A x_k, b − A x_k⟩` (`sqrt = id`)
example : (cgIters (matMv A2) resid2 0 10 [0, 0]).map (fun xr => dot (resid2 xr.1) (resid2 xr.1))
    = [5, 5/16, 0] := by decide +kernel
-- tolerance 1/10 (scaled: 1/10 · 5 = 1/2): stops at the first iterate with norm ≤ 1/2
example : (cg (matMv A2) resid2 (1/10) 10 id [0, 0]).iters = 1 := by decide +kernel
example : (cg (matMv A2) resid2 (1/10) 10 id [0, 0]).res = [5, 5/16] := by decide +kernel
-- iteration limit 1
example : (cg (matMv A2) resid2 0 1 id [0, 0]).iters = 1 := by decide +kernel
-- BiCGStab with `norm v = ⟨v,v⟩`
example : (bicgstab (matMv A2) resid2 (fun v => dot v v) 0 10 [0, 0]).x = [1/11, 7/11] := by
  decide +kernel
example : (bicgstab (matMv A2) resid2 (fun v => dot v v) 0 10 [0, 0]).res = [5, 1/32, 0] := by
  decide +kernel

-- the theorems instantiate on the concrete system
example (k : Nat) (hk : k < (cg (matMv A2) resid2 0 10 id [0, 0]).res.length) :
    (cg (matMv A2) resid2 0 10 id [0, 0]).res[k] =
      id (SqrtOp.sqrt (dot (resid2 (cgX (matMv A2) resid2 0 10 [0, 0] k))
        (resid2 (cgX (matMv A2) resid2 0 10 [0, 0] k)))) :=
  cg_reported_true (matMv_linSys A2 b2 rfl rfl) 0 10 id [0, 0] rfl k hk

example (k : Nat)
    (hk : k < (bicgstab (matMv A2) resid2 (fun v => dot v v) 0 10 [0, 0]).res.length) :
    (bicgstab (matMv A2) resid2 (fun v => dot v v) 0 10 [0, 0]).res[k] =
      (fun v => dot v v) (resid2 (bicgX (matMv A2) resid2 (fun v => dot v v) 0 10 [0, 0] k)) :=
  bicg_reported_true (matMv_linSys A2 b2 rfl rfl) _ 0 10 [0, 0] rfl k hk

-- NaN propagation, concretely
example : dotNF [NF.fin (1 : Int), .nan] [.fin 2, .fin 3] = .nan := by decide
example : dotNF [NF.fin (1 : Int), .fin 5, .nan] [.fin 2, .fin 3] = .fin 17 := by decide
example : sumSqNF (fun k : Int => k == 0) [.fin 0, .nan, .fin 2] = .nan := by decide
example : sumSqNF (fun k : Int => k == 0) [.fin 0, .fin 3, .fin 4] = .fin 25 := by decide
-- block inner product
example : dot ([[1, 2], [], [3]] : List (List Int)).flatten [[4, 5], [], [6]].flatten =
    (List.zipWith dot [[1, 2], [], [3]] [[4, 5], [], [6]]).sum := by decide

end Examples

end Raptor.C17
