import RaptorModel.Model.Krylov
namespace Raptor.C17
theorem placeholder : (1 : Nat) = 1 := rfl
end Raptor.C17
