import RaptorModel.Props.C13RS
/-!
# C13, sequential Ruge–Stüben: the bucket arithmetic of the first pass visits every column (`cover`)

`Props/C13RS.lean` proves totality and "one coarse, one fine" under the hypothesis that the visit order of the bucket
machine reaches every column. This file proves that hypothesis for every strength graph whose entries are vertices and in
which no vertex depends on itself, so the theorems hold unconditionally (`splitRS_total_proved`,
`splitRS_mixed_of_edge_proved`).

The invariant (`FInv`, on the five lookup functions position → column, column → position, weight, bucket start, bucket
size, with `m` positions still to visit): the two index arrays are mutually inverse permutations; every unvisited
position lies in the bucket range of its column's weight (`b1`); a bucket range contains unvisited positions of that
weight only (`b2`); the unvisited positions are sorted by weight (`b3`). Adjacency of consecutive non-empty buckets
(`FInv.adj`) follows from these three. `FInv.moveUp` is `bump` (lines 165-188 of `cf_splitting.cpp`), `FInv.moveDown` is
`drop1` (203-228), `FInv.pop` the removal of the visited position; `bump_inv` / `drop1_inv` transfer them to the arrays of
`Model/RS.lean`. `visit_good`: one iteration keeps the invariant and leaves the columns at positions `≥ i` where they
are — because an unassigned column always sits at an unvisited position (`VInv.pos_lt`) and both bucket moves exchange
unvisited positions only. `runFrom_good`: hence the columns met at positions `n-1, …, 0` are the final
`weight_idx_to_col` read backwards, a permutation: `runFrom_cover`. `init_vinv`: the counting sort of `init` establishes
the invariant (blocks of a `flatMap` over `range n` sit at the prefix sums of their lengths).
-/
namespace Raptor.RS
open Raptor.Split (Graph dependents)

/-- the bucket invariant on lookup functions: `I` position → column, `C` column → position, `W` weights,
    `P` bucket starts, `Z` bucket sizes; `m` unvisited positions `0 … m-1` -/
structure FInv (n m : Nat) (I C W P Z : Nat → Nat) : Prop where
  mle : m ≤ n
  pi : ∀ q, q < n → I q < n ∧ C (I q) = q
  pc : ∀ c, c < n → C c < n ∧ I (C c) = c
  wlt : ∀ c, c < n → W c < n
  b1 : ∀ q, q < m → P (W (I q)) ≤ q ∧ q < P (W (I q)) + Z (W (I q))
  b2 : ∀ w, w < n → ∀ q, P w ≤ q → q < P w + Z w → q < m ∧ W (I q) = w
  b3 : ∀ q q', q < q' → q' < m → W (I q) ≤ W (I q')

variable {n m : Nat} {I C W P Z : Nat → Nat}

/-- adjacency of consecutive non-empty buckets, from membership, exactness and sortedness -/
theorem FInv.adj (h : FInv n m I C W P Z) {w : Nat} (hw : w + 1 < n) (hz : 0 < Z w) (hz' : 0 < Z (w + 1)) :
    P (w + 1) = P w + Z w := by
  obtain ⟨ham, haw⟩ := h.b2 w (by omega) (P w + Z w - 1) (by omega) (by omega)
  obtain ⟨hpm, hpw⟩ := h.b2 (w + 1) hw (P (w + 1)) (Nat.le_refl _) (by omega)
  have h1 : P w + Z w - 1 < P (w + 1) := by
    rcases Nat.lt_or_ge (P w + Z w - 1) (P (w + 1)) with hlt | hle
    · exact hlt
    · exfalso
      rcases Nat.lt_or_eq_of_le hle with hlt | heq
      · have := h.b3 _ _ hlt ham
        rw [hpw, haw] at this; omega
      · rw [heq] at hpw; rw [hpw] at haw; omega
  rcases Nat.lt_or_ge (P w + Z w) (P (w + 1)) with h2 | h2
  · exfalso
    have hmid : P w + Z w < m := by omega
    have hlo := h.b3 (P w + Z w - 1) (P w + Z w) (by omega) hmid
    have hhi := h.b3 (P w + Z w) (P (w + 1)) h2 hpm
    rw [haw] at hlo; rw [hpw] at hhi
    have hb1 := h.b1 (P w + Z w) hmid
    rcases Nat.lt_or_eq_of_le hlo with hgt | heq
    · have : W (I (P w + Z w)) = w + 1 := by omega
      rw [this] at hb1; omega
    · rw [← heq] at hb1; omega
  · omega

/-- **moving a column one bucket up** (`bump`): column `k` at an unvisited position, weight `w` with `w + 1 < n`, is
    exchanged with the last column of its bucket and becomes the first column of bucket `w + 1` -/
theorem FInv.moveUp (h : FInv n m I C W P Z) {k : Nat} (hk : k < n) (hkm : C k < m) (hw1 : W k + 1 < n) :
    FInv n m
      (fun q => if q = P (W k) + Z (W k) - 1 then k else if q = C k then I (P (W k) + Z (W k) - 1) else I q)
      (fun c => if c = I (P (W k) + Z (W k) - 1) then C k else if c = k then P (W k) + Z (W k) - 1 else C c)
      (fun c => if c = k then W k + 1 else W c)
      (fun u => if u = W k + 1 then P (W k) + Z (W k) - 1 else P u)
      (fun u => if u = W k + 1 then Z (W k + 1) + 1 else if u = W k then Z (W k) - 1 else Z u) := by
  -- names
  obtain ⟨w, hw⟩ : ∃ w, w = W k := ⟨_, rfl⟩
  obtain ⟨oldp, hop⟩ : ∃ p, p = C k := ⟨_, rfl⟩
  obtain ⟨newp, hnp⟩ : ∃ p, p = P w + Z w - 1 := ⟨_, rfl⟩
  obtain ⟨b, hb⟩ : ∃ b, b = I newp := ⟨_, rfl⟩
  rw [← hw] at hw1 ⊢
  rw [← hnp] at ⊢
  rw [← hop] at hkm ⊢
  rw [← hb] at ⊢
  have f1 : I oldp = k := by rw [hop]; exact (h.pc k hk).2
  have f2 := h.b1 oldp hkm
  rw [f1, ← hw] at f2
  have f3 : oldp ≤ newp ∧ P w ≤ newp ∧ newp < P w + Z w := by omega
  obtain ⟨f4m, f4w⟩ := h.b2 w (by omega) newp f3.2.1 f3.2.2
  rw [← hb] at f4w
  have hnn : newp < n := Nat.lt_of_lt_of_le f4m h.mle
  have hon : oldp < n := Nat.lt_of_lt_of_le hkm h.mle
  have f5 : b < n ∧ C b = newp := by rw [hb]; exact h.pi newp hnn
  have g1 : ∀ q, q < n → q ≠ oldp → I q ≠ k := by
    intro q hq hne he
    have := (h.pi q hq).2; rw [he, ← hop] at this; exact hne this.symm
  have g1b : ∀ q, q < n → q ≠ newp → I q ≠ b := by
    intro q hq hne he
    have := (h.pi q hq).2; rw [he, f5.2] at this; exact hne this.symm
  have g2 : b = k → newp = oldp := by
    intro e; rw [← f5.2, e, hop]
  have g2' : newp = oldp → b = k := by
    intro e; rw [hb, e, f1]
  have g3 : ∀ q, q < m → W (I q) = w → q ≤ newp := by
    intro q hq hwq
    have := h.b1 q hq; rw [hwq] at this; omega
  have g4 : ∀ q, q < m → newp < q → w + 1 ≤ W (I q) := by
    intro q hq hlt
    have hs := h.b3 newp q hlt hq
    rw [← hb, f4w] at hs
    rcases Nat.lt_or_eq_of_le hs with hgt | heq
    · exact hgt
    · have := g3 q hq heq.symm; omega
  have g5 : 0 < Z (w + 1) → P (w + 1) = newp + 1 := by
    intro hz
    have := h.adj hw1 (by omega) hz
    omega
  -- opaque names for the new lookup functions, with their defining equations
  generalize hI' : (fun q => if q = newp then k else if q = oldp then b else I q) = I'
  generalize hC' : (fun c => if c = b then oldp else if c = k then newp else C c) = C'
  generalize hW' : (fun c => if c = k then w + 1 else W c) = W'
  generalize hP' : (fun u => if u = w + 1 then newp else P u) = P'
  generalize hZ' : (fun u => if u = w + 1 then Z (w + 1) + 1 else if u = w then Z w - 1 else Z u) = Z'
  have eI : ∀ q, I' q = if q = newp then k else if q = oldp then b else I q := fun q => by rw [← hI']
  have eC : ∀ c, C' c = if c = b then oldp else if c = k then newp else C c := fun c => by rw [← hC']
  have eW : ∀ c, W' c = if c = k then w + 1 else W c := fun c => by rw [← hW']
  have eP : ∀ u, P' u = if u = w + 1 then newp else P u := fun u => by rw [← hP']
  have eZ : ∀ u, Z' u = if u = w + 1 then Z (w + 1) + 1 else if u = w then Z w - 1 else Z u := fun u => by rw [← hZ']
  -- the weight found at a position changes at `newp` only
  have hwp : ∀ q, q < n → W' (I' q) = if q = newp then w + 1 else W (I q) := by
    intro q hq
    rw [eW, eI]
    by_cases e1 : q = newp
    · subst e1; simp only [↓reduceIte]
    · by_cases e2 : q = oldp
      · subst e2
        have hbk : b ≠ k := fun e => e1 (g2 e).symm
        simp only [e1, hbk, ↓reduceIte]
        rw [f4w, f1, hw]
      · simp only [e1, e2, g1 q hq e2, ↓reduceIte]
  refine ⟨h.mle, ?_, ?_, ?_, ?_, ?_, ?_⟩
  · -- pi
    intro q hq
    rw [eI]
    by_cases e1 : q = newp
    · subst e1
      simp only [↓reduceIte]
      refine ⟨hk, ?_⟩
      rw [eC]
      by_cases e2 : k = b
      · simp only [e2, ↓reduceIte]; exact (g2 e2.symm).symm
      · simp only [e2, ↓reduceIte]
    · by_cases e2 : q = oldp
      · subst e2
        simp only [e1, ↓reduceIte]
        refine ⟨f5.1, ?_⟩
        rw [eC]; simp only [↓reduceIte]
      · simp only [e1, e2, ↓reduceIte]
        refine ⟨(h.pi q hq).1, ?_⟩
        rw [eC]
        simp only [g1b q hq e1, g1 q hq e2, ↓reduceIte]
        exact (h.pi q hq).2
  · -- pc
    intro c hc
    rw [eC]
    by_cases e1 : c = b
    · subst e1
      simp only [↓reduceIte]
      refine ⟨hon, ?_⟩
      rw [eI]
      by_cases e2 : oldp = newp
      · simp only [e2, ↓reduceIte]; exact (g2' e2.symm).symm
      · simp only [e2, ↓reduceIte]
    · by_cases e2 : c = k
      · subst e2
        simp only [e1, ↓reduceIte]
        refine ⟨hnn, ?_⟩
        rw [eI]; simp only [↓reduceIte]
      · simp only [e1, e2, ↓reduceIte]
        refine ⟨(h.pc c hc).1, ?_⟩
        have hq1 : C c ≠ newp := by
          intro e; apply e1; rw [hb, ← e]; exact ((h.pc c hc).2).symm
        have hq2 : C c ≠ oldp := by
          intro e; apply e2; rw [← f1, ← e]; exact ((h.pc c hc).2).symm
        rw [eI]
        simp only [hq1, hq2, ↓reduceIte]
        exact (h.pc c hc).2
  · -- wlt
    intro c hc
    rw [eW]
    by_cases e : c = k
    · simp only [e, ↓reduceIte]; exact hw1
    · simp only [e, ↓reduceIte]; exact h.wlt c hc
  · -- b1
    intro q hq
    have hqn : q < n := Nat.lt_of_lt_of_le hq h.mle
    have ob1 := h.b1 q hq
    rw [hwp q hqn]
    by_cases e1 : q = newp
    · subst e1
      simp only [↓reduceIte]
      rw [eP, eZ]; simp only [↓reduceIte]
      omega
    · simp only [e1, ↓reduceIte]
      rw [eP, eZ]
      by_cases u1 : W (I q) = w + 1
      · rw [u1] at ob1 ⊢
        simp only [↓reduceIte]
        have := g5 (by omega)
        omega
      · by_cases u2 : W (I q) = w
        · rw [u2] at ob1 ⊢
          have hne : w ≠ w + 1 := by omega
          simp only [hne, ↓reduceIte]
          have := g3 q hq u2
          omega
        · simp only [u1, u2, ↓reduceIte]
          exact ob1
  · -- b2
    intro u hu q hlo hhi
    rw [eP] at hlo hhi
    rw [eZ] at hhi
    by_cases u1 : u = w + 1
    · subst u1
      simp only [↓reduceIte] at hlo hhi
      by_cases e1 : q = newp
      · subst e1
        refine ⟨f4m, ?_⟩
        rw [hwp q hnn]; simp only [↓reduceIte]
      · have hz : 0 < Z (w + 1) := by omega
        have hp := g5 hz
        obtain ⟨hqm, hqw⟩ := h.b2 (w + 1) hw1 q (by omega) (by omega)
        refine ⟨hqm, ?_⟩
        rw [hwp q (Nat.lt_of_lt_of_le hqm h.mle)]
        simp only [e1, ↓reduceIte]
        exact hqw
    · by_cases u2 : u = w
      · subst u2
        have hne : u ≠ u + 1 := by omega
        simp only [hne, ↓reduceIte] at hlo hhi
        obtain ⟨hqm, hqw⟩ := h.b2 u hu q hlo (by omega)
        refine ⟨hqm, ?_⟩
        have e1 : q ≠ newp := by omega
        rw [hwp q (Nat.lt_of_lt_of_le hqm h.mle)]
        simp only [e1, ↓reduceIte]
        exact hqw
      · simp only [u1, u2, ↓reduceIte] at hlo hhi
        obtain ⟨hqm, hqw⟩ := h.b2 u hu q hlo hhi
        refine ⟨hqm, ?_⟩
        have e1 : q ≠ newp := by
          intro e; rw [e, ← hb, f4w] at hqw; exact u2 hqw.symm
        rw [hwp q (Nat.lt_of_lt_of_le hqm h.mle)]
        simp only [e1, ↓reduceIte]
        exact hqw
  · -- b3
    intro q q' hlt hq'
    have hq'n : q' < n := Nat.lt_of_lt_of_le hq' h.mle
    have hqn : q < n := Nat.lt_trans hlt hq'n
    rw [hwp q hqn, hwp q' hq'n]
    by_cases e1 : q' = newp
    · subst e1
      have e2 : q ≠ q' := by omega
      simp only [e2, ↓reduceIte]
      have := h.b3 q q' hlt hq'
      rw [← hb, f4w] at this
      omega
    · by_cases e2 : q = newp
      · subst e2
        simp only [e1, ↓reduceIte]
        exact g4 q' hq' hlt
      · simp only [e1, e2, ↓reduceIte]
        exact h.b3 q q' hlt hq'

/-- **moving a column one bucket down** (`drop1`): column `k` at an unvisited position, weight `w ≥ 1`, is exchanged with
    the first column of its bucket and becomes the last column of bucket `w - 1` -/
theorem FInv.moveDown (h : FInv n m I C W P Z) {k : Nat} (hk : k < n) (hkm : C k < m) (hw0 : 0 < W k) :
    FInv n m
      (fun q => if q = P (W k) then k else if q = C k then I (P (W k)) else I q)
      (fun c => if c = I (P (W k)) then C k else if c = k then P (W k) else C c)
      (fun c => if c = k then W k - 1 else W c)
      (fun u => if u = W k - 1 then P (W k) - Z (W k - 1) else if u = W k then P (W k) + 1 else P u)
      (fun u => if u = W k - 1 then Z (W k - 1) + 1 else if u = W k then Z (W k) - 1 else Z u) := by
  obtain ⟨w, hw⟩ : ∃ w, w = W k := ⟨_, rfl⟩
  obtain ⟨oldp, hop⟩ : ∃ p, p = C k := ⟨_, rfl⟩
  obtain ⟨newp, hnp⟩ : ∃ p, p = P w := ⟨_, rfl⟩
  obtain ⟨b, hb⟩ : ∃ b, b = I newp := ⟨_, rfl⟩
  rw [← hw] at hw0 ⊢
  rw [← hnp] at ⊢
  rw [← hop] at hkm ⊢
  rw [← hb] at ⊢
  have hwn : w < n := by rw [hw]; exact h.wlt k hk
  have f1 : I oldp = k := by rw [hop]; exact (h.pc k hk).2
  have f2 := h.b1 oldp hkm
  rw [f1, ← hw] at f2
  have f3 : newp ≤ oldp ∧ P w ≤ newp ∧ newp < P w + Z w := by omega
  obtain ⟨f4m, f4w⟩ := h.b2 w hwn newp f3.2.1 f3.2.2
  rw [← hb] at f4w
  have hnn : newp < n := Nat.lt_of_lt_of_le f4m h.mle
  have hon : oldp < n := Nat.lt_of_lt_of_le hkm h.mle
  have f5 : b < n ∧ C b = newp := by rw [hb]; exact h.pi newp hnn
  have g1 : ∀ q, q < n → q ≠ oldp → I q ≠ k := by
    intro q hq hne he
    have := (h.pi q hq).2; rw [he, ← hop] at this; exact hne this.symm
  have g1b : ∀ q, q < n → q ≠ newp → I q ≠ b := by
    intro q hq hne he
    have := (h.pi q hq).2; rw [he, f5.2] at this; exact hne this.symm
  have g2 : b = k → newp = oldp := by
    intro e; rw [← f5.2, e, hop]
  have g2' : newp = oldp → b = k := by
    intro e; rw [hb, e, f1]
  have g3 : ∀ q, q < m → W (I q) = w → newp ≤ q := by
    intro q hq hwq
    have := h.b1 q hq; rw [hwq] at this; omega
  have g4 : ∀ q, q < m → q < newp → W (I q) ≤ w - 1 := by
    intro q hq hlt
    have hs := h.b3 q newp hlt f4m
    rw [← hb, f4w] at hs
    rcases Nat.lt_or_eq_of_le hs with hgt | heq
    · omega
    · have := g3 q hq heq; omega
  have g5 : 0 < Z (w - 1) → P (w - 1) + Z (w - 1) = P w := by
    intro hz
    have hadj := h.adj (w := w - 1) (by omega) hz (by rw [Nat.sub_add_cancel hw0]; omega)
    rw [Nat.sub_add_cancel hw0] at hadj
    omega
  generalize hI' : (fun q => if q = newp then k else if q = oldp then b else I q) = I'
  generalize hC' : (fun c => if c = b then oldp else if c = k then newp else C c) = C'
  generalize hW' : (fun c => if c = k then w - 1 else W c) = W'
  generalize hP' : (fun u => if u = w - 1 then newp - Z (w - 1) else if u = w then newp + 1 else P u) = P'
  generalize hZ' : (fun u => if u = w - 1 then Z (w - 1) + 1 else if u = w then Z w - 1 else Z u) = Z'
  have eI : ∀ q, I' q = if q = newp then k else if q = oldp then b else I q := fun q => by rw [← hI']
  have eC : ∀ c, C' c = if c = b then oldp else if c = k then newp else C c := fun c => by rw [← hC']
  have eW : ∀ c, W' c = if c = k then w - 1 else W c := fun c => by rw [← hW']
  have eP : ∀ u, P' u = if u = w - 1 then newp - Z (w - 1) else if u = w then newp + 1 else P u := fun u => by rw [← hP']
  have eZ : ∀ u, Z' u = if u = w - 1 then Z (w - 1) + 1 else if u = w then Z w - 1 else Z u := fun u => by rw [← hZ']
  have hwp : ∀ q, q < n → W' (I' q) = if q = newp then w - 1 else W (I q) := by
    intro q hq
    rw [eW, eI]
    by_cases e1 : q = newp
    · subst e1; simp only [↓reduceIte]
    · by_cases e2 : q = oldp
      · subst e2
        have hbk : b ≠ k := fun e => e1 (g2 e).symm
        simp only [e1, hbk, ↓reduceIte]
        rw [f4w, f1, hw]
      · simp only [e1, e2, g1 q hq e2, ↓reduceIte]
  have hne1 : w ≠ w - 1 := by omega
  refine ⟨h.mle, ?_, ?_, ?_, ?_, ?_, ?_⟩
  · -- pi
    intro q hq
    rw [eI]
    by_cases e1 : q = newp
    · subst e1
      simp only [↓reduceIte]
      refine ⟨hk, ?_⟩
      rw [eC]
      by_cases e2 : k = b
      · simp only [e2, ↓reduceIte]; exact (g2 e2.symm).symm
      · simp only [e2, ↓reduceIte]
    · by_cases e2 : q = oldp
      · subst e2
        simp only [e1, ↓reduceIte]
        refine ⟨f5.1, ?_⟩
        rw [eC]; simp only [↓reduceIte]
      · simp only [e1, e2, ↓reduceIte]
        refine ⟨(h.pi q hq).1, ?_⟩
        rw [eC]
        simp only [g1b q hq e1, g1 q hq e2, ↓reduceIte]
        exact (h.pi q hq).2
  · -- pc
    intro c hc
    rw [eC]
    by_cases e1 : c = b
    · subst e1
      simp only [↓reduceIte]
      refine ⟨hon, ?_⟩
      rw [eI]
      by_cases e2 : oldp = newp
      · simp only [e2, ↓reduceIte]; exact (g2' e2.symm).symm
      · simp only [e2, ↓reduceIte]
    · by_cases e2 : c = k
      · subst e2
        simp only [e1, ↓reduceIte]
        refine ⟨hnn, ?_⟩
        rw [eI]; simp only [↓reduceIte]
      · simp only [e1, e2, ↓reduceIte]
        refine ⟨(h.pc c hc).1, ?_⟩
        have hq1 : C c ≠ newp := by
          intro e; apply e1; rw [hb, ← e]; exact ((h.pc c hc).2).symm
        have hq2 : C c ≠ oldp := by
          intro e; apply e2; rw [← f1, ← e]; exact ((h.pc c hc).2).symm
        rw [eI]
        simp only [hq1, hq2, ↓reduceIte]
        exact (h.pc c hc).2
  · -- wlt
    intro c hc
    rw [eW]
    by_cases e : c = k
    · simp only [e, ↓reduceIte]; omega
    · simp only [e, ↓reduceIte]; exact h.wlt c hc
  · -- b1
    intro q hq
    have hqn : q < n := Nat.lt_of_lt_of_le hq h.mle
    have ob1 := h.b1 q hq
    rw [hwp q hqn]
    by_cases e1 : q = newp
    · subst e1
      simp only [↓reduceIte]
      rw [eP, eZ]; simp only [↓reduceIte]
      by_cases hz : 0 < Z (w - 1)
      · have := g5 hz; omega
      · omega
    · simp only [e1, ↓reduceIte]
      rw [eP, eZ]
      by_cases u1 : W (I q) = w - 1
      · rw [u1] at ob1 ⊢
        simp only [↓reduceIte]
        have := g5 (by omega)
        omega
      · by_cases u2 : W (I q) = w
        · rw [u2] at ob1 ⊢
          simp only [hne1, ↓reduceIte]
          have := g3 q hq u2
          omega
        · simp only [u1, u2, ↓reduceIte]
          exact ob1
  · -- b2
    intro u hu q hlo hhi
    rw [eP] at hlo hhi
    rw [eZ] at hhi
    by_cases u1 : u = w - 1
    · subst u1
      simp only [↓reduceIte] at hlo hhi
      by_cases e1 : q = newp
      · subst e1
        refine ⟨f4m, ?_⟩
        rw [hwp q hnn]; simp only [↓reduceIte]
      · have hz : 0 < Z (w - 1) := by omega
        have hp := g5 hz
        obtain ⟨hqm, hqw⟩ := h.b2 (w - 1) hu q (by omega) (by omega)
        refine ⟨hqm, ?_⟩
        rw [hwp q (Nat.lt_of_lt_of_le hqm h.mle)]
        simp only [e1, ↓reduceIte]
        exact hqw
    · by_cases u2 : u = w
      · subst u2
        simp only [u1, ↓reduceIte] at hlo hhi
        obtain ⟨hqm, hqw⟩ := h.b2 u hu q (by omega) (by omega)
        refine ⟨hqm, ?_⟩
        have e1 : q ≠ newp := by omega
        rw [hwp q (Nat.lt_of_lt_of_le hqm h.mle)]
        simp only [e1, ↓reduceIte]
        exact hqw
      · simp only [u1, u2, ↓reduceIte] at hlo hhi
        obtain ⟨hqm, hqw⟩ := h.b2 u hu q hlo hhi
        refine ⟨hqm, ?_⟩
        have e1 : q ≠ newp := by
          intro e; rw [e, ← hb, f4w] at hqw; exact u2 hqw.symm
        rw [hwp q (Nat.lt_of_lt_of_le hqm h.mle)]
        simp only [e1, ↓reduceIte]
        exact hqw
  · -- b3
    intro q q' hlt hq'
    have hq'n : q' < n := Nat.lt_of_lt_of_le hq' h.mle
    have hqn : q < n := Nat.lt_trans hlt hq'n
    rw [hwp q hqn, hwp q' hq'n]
    by_cases e1 : q' = newp
    · subst e1
      have e2 : q ≠ q' := by omega
      simp only [e2, ↓reduceIte]
      exact g4 q (Nat.lt_trans hlt hq') hlt
    · by_cases e2 : q = newp
      · subst e2
        simp only [e1, ↓reduceIte]
        have := h.b3 q q' hlt hq'
        rw [← hb, f4w] at this
        omega
      · simp only [e1, e2, ↓reduceIte]
        exact h.b3 q q' hlt hq'

/-- removing the visited position `i` (the last unvisited one) from its bucket -/
theorem FInv.pop {i : Nat} (h : FInv n (i + 1) I C W P Z) :
    FInv n i I C W P (fun u => if u = W (I i) then Z u - 1 else Z u) := by
  obtain ⟨w, hw⟩ : ∃ w, w = W (I i) := ⟨_, rfl⟩
  rw [← hw]
  have hin : i < n := by have := h.mle; omega
  have hwn : w < n := by rw [hw]; exact h.wlt _ (h.pi i hin).1
  have t1 := h.b1 i (by omega)
  rw [← hw] at t1
  have t2 := h.b2 w hwn (P w + Z w - 1) (by omega) (by omega)
  have top : P w + Z w = i + 1 := by omega
  refine ⟨by have := h.mle; omega, h.pi, h.pc, h.wlt, ?_, ?_, ?_⟩
  · intro q hq
    have := h.b1 q (by omega)
    by_cases u1 : W (I q) = w
    · rw [u1] at this ⊢; simp only [↓reduceIte]; omega
    · simp only [u1, ↓reduceIte]; exact this
  · intro u hu q hlo hhi
    by_cases u1 : u = w
    · subst u1
      simp only [↓reduceIte] at hhi
      obtain ⟨_, hqw⟩ := h.b2 u hu q hlo (by omega)
      exact ⟨by omega, hqw⟩
    · simp only [u1, ↓reduceIte] at hhi
      obtain ⟨hqm, hqw⟩ := h.b2 u hu q hlo hhi
      refine ⟨?_, hqw⟩
      rcases Nat.lt_or_eq_of_le (Nat.le_of_lt_succ hqm) with hlt | heq
      · exact hlt
      · exfalso; rw [heq, ← hw] at hqw; exact u1 hqw.symm
  · intro q q' hlt hq'
    exact h.b3 q q' hlt (by omega)

/-! ### the machine state -/

theorem nat_set (l : List Nat) (i j v : Nat) :
    nat (l.set i v) j = if i = j ∧ i < l.length then v else nat l j := by
  unfold nat
  by_cases h : i = j
  · subst h
    by_cases hl : i < l.length
    · simp [List.getD_eq_getElem?_getD, hl]
    · simp [List.getD_eq_getElem?_getD, hl]
  · simp [List.getD_eq_getElem?_getD, h, List.getElem?_set_ne h]

theorem nat_set_fun (l : List Nat) (i v : Nat) (hi : i < l.length) :
    nat (l.set i v) = fun j => if j = i then v else nat l j := by
  funext j
  rw [nat_set]
  by_cases e : j = i
  · subst e; simp [hi]
  · have e' : ¬ i = j := fun h => e h.symm
    simp [e, e']

structure Inv (n m : Nat) (s : St) : Prop where
  li : s.i2c.length = n
  lc : s.c2i.length = n
  lw : s.weights.length = n
  lz : s.wsize.length = n
  lp : s.wptr.length = n + 1
  f : FInv n m (nat s.i2c) (nat s.c2i) (nat s.weights) (nat s.wptr) (nat s.wsize)

theorem bump_skip (n : Nat) (s : St) (k : Nat) (hg : nat s.weights k + 1 ≥ n) : bump n s k = s := by
  unfold bump; simp [hg]

theorem bump_fields (n : Nat) (s : St) (k : Nat) (hg : ¬ nat s.weights k + 1 ≥ n) :
    (bump n s k).i2c = (s.i2c.set (nat s.c2i k) (nat s.i2c (nat s.wptr (nat s.weights k) + nat s.wsize (nat s.weights k) - 1))).set
        (nat s.wptr (nat s.weights k) + nat s.wsize (nat s.weights k) - 1) (nat s.i2c (nat s.c2i k)) ∧
    (bump n s k).c2i = (s.c2i.set (nat s.i2c (nat s.c2i k)) (nat s.wptr (nat s.weights k) + nat s.wsize (nat s.weights k) - 1)).set
        (nat s.i2c (nat s.wptr (nat s.weights k) + nat s.wsize (nat s.weights k) - 1)) (nat s.c2i k) ∧
    (bump n s k).wsize = (s.wsize.set (nat s.weights k) (nat s.wsize (nat s.weights k) - 1)).set (nat s.weights k + 1)
        (nat s.wsize (nat s.weights k + 1) + 1) ∧
    (bump n s k).wptr = s.wptr.set (nat s.weights k + 1) (nat s.wptr (nat s.weights k) + nat s.wsize (nat s.weights k) - 1) ∧
    (bump n s k).weights = s.weights.set k (nat s.weights k + 1) ∧
    (bump n s k).labels = s.labels := by
  unfold bump
  rw [if_neg hg]
  exact ⟨rfl, rfl, rfl, rfl, rfl, rfl⟩

theorem bump_inv {n m : Nat} {s : St} (h : Inv n m s) {k : Nat} (hk : k < n) (hkm : nat s.c2i k < m) :
    Inv n m (bump n s k) ∧ (bump n s k).labels = s.labels ∧
      ∀ q, m ≤ q → nat (bump n s k).i2c q = nat s.i2c q := by
  by_cases hg : nat s.weights k + 1 ≥ n
  · rw [bump_skip n s k hg]; exact ⟨h, rfl, fun _ _ => rfl⟩
  · have hw1 : nat s.weights k + 1 < n := by omega
    have hmu := h.f.moveUp hk hkm hw1
    have hon : nat s.c2i k < n := Nat.lt_of_lt_of_le hkm h.f.mle
    have hI : nat s.i2c (nat s.c2i k) = k := (h.f.pc k hk).2
    have hb1 := h.f.b1 (nat s.c2i k) hkm
    rw [hI] at hb1
    have hb2 := h.f.b2 (nat s.weights k) (by omega)
      (nat s.wptr (nat s.weights k) + nat s.wsize (nat s.weights k) - 1) (by omega) (by omega)
    have hnn : nat s.wptr (nat s.weights k) + nat s.wsize (nat s.weights k) - 1 < n := Nat.lt_of_lt_of_le hb2.1 h.f.mle
    have hbn := (h.f.pi _ hnn).1
    obtain ⟨e1, e2, e3, e4, e5, e6⟩ := bump_fields n s k hg
    have fI : nat (bump n s k).i2c = fun q => if q = nat s.wptr (nat s.weights k) + nat s.wsize (nat s.weights k) - 1 then k
        else if q = nat s.c2i k then nat s.i2c (nat s.wptr (nat s.weights k) + nat s.wsize (nat s.weights k) - 1) else nat s.i2c q := by
      rw [e1, nat_set_fun _ _ _ (by rw [List.length_set, h.li]; exact hnn), nat_set_fun _ _ _ (by rw [h.li]; exact hon), hI]
    refine ⟨⟨by rw [e1]; simp [h.li], by rw [e2]; simp [h.lc], by rw [e5]; simp [h.lw], by rw [e3]; simp [h.lz],
      by rw [e4]; simp [h.lp], ?_⟩, e6, ?_⟩
    · rw [fI, e2, e5, e4, e3,
        nat_set_fun _ _ _ (by rw [List.length_set, h.lc]; exact hbn), nat_set_fun _ _ _ (by rw [h.lc, hI]; exact hk),
        nat_set_fun _ _ _ (by rw [h.lw]; exact hk),
        nat_set_fun _ _ _ (by rw [h.lp]; omega),
        nat_set_fun _ _ _ (by rw [List.length_set, h.lz]; omega), nat_set_fun _ _ _ (by rw [h.lz]; omega), hI]
      exact hmu
    · intro q hq
      rw [fI]
      have e1 : q ≠ nat s.wptr (nat s.weights k) + nat s.wsize (nat s.weights k) - 1 := by have := hb2.1; omega
      have e2 : q ≠ nat s.c2i k := by omega
      simp only [e1, e2, ↓reduceIte]

theorem drop1_skip (s : St) (k : Nat) (hg : nat s.weights k = 0) : drop1 s k = s := by
  unfold drop1; simp [hg]

theorem drop1_fields (s : St) (k : Nat) (hg : nat s.weights k ≠ 0) :
    (drop1 s k).i2c = (s.i2c.set (nat s.c2i k) (nat s.i2c (nat s.wptr (nat s.weights k)))).set
        (nat s.wptr (nat s.weights k)) (nat s.i2c (nat s.c2i k)) ∧
    (drop1 s k).c2i = (s.c2i.set (nat s.i2c (nat s.c2i k)) (nat s.wptr (nat s.weights k))).set
        (nat s.i2c (nat s.wptr (nat s.weights k))) (nat s.c2i k) ∧
    (drop1 s k).wsize = (s.wsize.set (nat s.weights k) (nat s.wsize (nat s.weights k) - 1)).set (nat s.weights k - 1)
        (nat (s.wsize.set (nat s.weights k) (nat s.wsize (nat s.weights k) - 1)) (nat s.weights k - 1) + 1) ∧
    (drop1 s k).wptr = (s.wptr.set (nat s.weights k) (nat s.wptr (nat s.weights k) + 1)).set (nat s.weights k - 1)
        (nat (s.wptr.set (nat s.weights k) (nat s.wptr (nat s.weights k) + 1)) (nat s.weights k)
          - nat ((s.wsize.set (nat s.weights k) (nat s.wsize (nat s.weights k) - 1)).set (nat s.weights k - 1)
              (nat (s.wsize.set (nat s.weights k) (nat s.wsize (nat s.weights k) - 1)) (nat s.weights k - 1) + 1)) (nat s.weights k - 1)) ∧
    (drop1 s k).weights = s.weights.set k (nat s.weights k - 1) ∧
    (drop1 s k).labels = s.labels := by
  unfold drop1
  have : (nat s.weights k == 0) = false := by simpa using hg
  simp only [this, Bool.false_eq_true, if_false]
  exact ⟨rfl, rfl, rfl, rfl, rfl, rfl⟩

theorem drop1_inv {n m : Nat} {s : St} (h : Inv n m s) {k : Nat} (hk : k < n) (hkm : nat s.c2i k < m) :
    Inv n m (drop1 s k) ∧ (drop1 s k).labels = s.labels ∧
      ∀ q, m ≤ q → nat (drop1 s k).i2c q = nat s.i2c q := by
  by_cases hg : nat s.weights k = 0
  · rw [drop1_skip s k hg]; exact ⟨h, rfl, fun _ _ => rfl⟩
  · have hw0 : 0 < nat s.weights k := Nat.pos_of_ne_zero hg
    have hwn : nat s.weights k < n := h.f.wlt k hk
    have hmd := h.f.moveDown hk hkm hw0
    have hon : nat s.c2i k < n := Nat.lt_of_lt_of_le hkm h.f.mle
    have hI : nat s.i2c (nat s.c2i k) = k := (h.f.pc k hk).2
    have hb1 := h.f.b1 (nat s.c2i k) hkm
    rw [hI] at hb1
    have hb2 := h.f.b2 (nat s.weights k) hwn (nat s.wptr (nat s.weights k)) (Nat.le_refl _) (by omega)
    have hnn : nat s.wptr (nat s.weights k) < n := Nat.lt_of_lt_of_le hb2.1 h.f.mle
    have hbn := (h.f.pi _ hnn).1
    obtain ⟨e1, e2, e3, e4, e5, e6⟩ := drop1_fields s k hg
    have fI : nat (drop1 s k).i2c = fun q => if q = nat s.wptr (nat s.weights k) then k
        else if q = nat s.c2i k then nat s.i2c (nat s.wptr (nat s.weights k)) else nat s.i2c q := by
      rw [e1, nat_set_fun _ _ _ (by rw [List.length_set, h.li]; exact hnn), nat_set_fun _ _ _ (by rw [h.li]; exact hon), hI]
    have hne : nat s.weights k - 1 ≠ nat s.weights k := by omega
    have fZ : nat (drop1 s k).wsize = fun u => if u = nat s.weights k - 1 then nat s.wsize (nat s.weights k - 1) + 1
        else if u = nat s.weights k then nat s.wsize (nat s.weights k) - 1 else nat s.wsize u := by
      rw [e3, nat_set_fun _ _ _ (by rw [List.length_set, h.lz]; omega), nat_set_fun _ _ _ (by rw [h.lz]; exact hwn)]
      simp only [hne, ↓reduceIte]
    have fP : nat (drop1 s k).wptr = fun u => if u = nat s.weights k - 1 then nat s.wptr (nat s.weights k) - nat s.wsize (nat s.weights k - 1)
        else if u = nat s.weights k then nat s.wptr (nat s.weights k) + 1 else nat s.wptr u := by
      have hz1 : nat ((s.wsize.set (nat s.weights k) (nat s.wsize (nat s.weights k) - 1)).set (nat s.weights k - 1)
              (nat (s.wsize.set (nat s.weights k) (nat s.wsize (nat s.weights k) - 1)) (nat s.weights k - 1) + 1)) (nat s.weights k - 1)
          = nat s.wsize (nat s.weights k - 1) + 1 := by
        rw [← e3, fZ]; simp only [↓reduceIte]
      rw [e4, hz1, nat_set_fun _ _ _ (by rw [List.length_set, h.lp]; omega), nat_set_fun _ _ _ (by rw [h.lp]; omega)]
      simp only [↓reduceIte]
      funext u
      by_cases u1 : u = nat s.weights k - 1
      · simp only [u1, ↓reduceIte]; omega
      · simp only [u1, ↓reduceIte]
    refine ⟨⟨by rw [e1]; simp [h.li], by rw [e2]; simp [h.lc], by rw [e5]; simp [h.lw], by rw [e3]; simp [h.lz],
      by rw [e4]; simp [h.lp], ?_⟩, e6, ?_⟩
    · rw [fI, fZ, fP, e2, e5,
        nat_set_fun _ _ _ (by rw [List.length_set, h.lc]; exact hbn), nat_set_fun _ _ _ (by rw [h.lc, hI]; exact hk),
        nat_set_fun _ _ _ (by rw [h.lw]; exact hk), hI]
      exact hmd
    · intro q hq
      rw [fI]
      have e1 : q ≠ nat s.wptr (nat s.weights k) := by have := hb2.1; omega
      have e2 : q ≠ nat s.c2i k := by omega
      simp only [e1, e2, ↓reduceIte]

/-! ### one visit -/

/-- the invariant of the main loop with `m` positions still to visit: bucket invariant, labels array of the right length,
    and every column at a position already visited is assigned -/
structure VInv (n m : Nat) (s : St) : Prop where
  inv : Inv n m s
  ll : s.labels.length = n
  asg : ∀ q, m ≤ q → q < n → lab s.labels (nat s.i2c q) ≠ -1

/-- `VInv` plus the frame condition relative to an earlier state: positions `≥ m` hold the same columns -/
def Good (n m : Nat) (s0 s : St) : Prop := VInv n m s ∧ ∀ q, m ≤ q → nat s.i2c q = nat s0.i2c q

theorem Good.refl {n m : Nat} {s : St} (h : VInv n m s) : Good n m s s := ⟨h, fun _ _ => rfl⟩

/-- an unassigned column sits at an unvisited position -/
theorem VInv.pos_lt {n m : Nat} {s : St} (h : VInv n m s) {k : Nat} (hk : k < n) (hu : lab s.labels k = -1) :
    nat s.c2i k < m := by
  rcases Nat.lt_or_ge (nat s.c2i k) m with hlt | hge
  · exact hlt
  · exfalso
    have hp := h.inv.f.pc k hk
    have := h.asg (nat s.c2i k) hge hp.1
    rw [hp.2] at this
    exact this hu

/-- a step that keeps the labels and the invariant (as `bump` and `drop1` do), applied to the unassigned members of a
    list of columns -/
theorem foldl_step_good {n m : Nat} (f : St → Nat → St)
    (hf : ∀ s k, Inv n m s → k < n → nat s.c2i k < m →
      Inv n m (f s k) ∧ (f s k).labels = s.labels ∧ ∀ q, m ≤ q → nat (f s k).i2c q = nat s.i2c q)
    (ks : List Nat) (hks : ∀ k ∈ ks, k < n) (s0 s : St) (h : Good n m s0 s) :
    Good n m s0 (ks.foldl (fun s k => if lab s.labels k == -1 then f s k else s) s) := by
  induction ks generalizing s with
  | nil => exact h
  | cons k ks ih =>
    rw [List.foldl_cons]
    apply ih (fun k' hk' => hks k' (List.mem_cons_of_mem _ hk'))
    by_cases hu : lab s.labels k = -1
    · have hb : (lab s.labels k == -1) = true := by simpa using hu
      rw [if_pos hb]
      have hkn := hks k List.mem_cons_self
      obtain ⟨hi, hl, hfr⟩ := hf s k h.1.inv hkn (h.1.pos_lt hkn hu)
      refine ⟨⟨hi, by rw [hl]; exact h.1.ll, ?_⟩, ?_⟩
      · intro q hq hqn
        rw [hl, hfr q hq]
        exact h.1.asg q hq hqn
      · intro q hq
        rw [hfr q hq]; exact h.2 q hq
    · have hb : (lab s.labels k == -1) = false := by simpa using hu
      rw [hb]
      exact h

/-- changing a label to a value other than `-1` keeps the invariant -/
theorem VInv.set_label {n m : Nat} {s : St} (h : VInv n m s) (c : Nat) (v : Int) (hv : v ≠ -1) :
    VInv n m { s with labels := s.labels.set c v } := by
  refine ⟨⟨h.inv.li, h.inv.lc, h.inv.lw, h.inv.lz, h.inv.lp, h.inv.f⟩, by simp [h.ll], ?_⟩
  intro q hq hqn
  show lab (s.labels.set c v) (nat s.i2c q) ≠ -1
  rw [lab_set]
  split
  · exact hv
  · exact h.asg q hq hqn

/-- well-formed strength graph: every stored column exists -/
def GraphOK (S : Graph) : Prop := ∀ v k, k ∈ S.getD v [] → k < S.length

/-- the state after the first statement of a visit: position `i` leaves its bucket -/
def popState (s : St) (i : Nat) : St :=
  { s with wsize := s.wsize.set (nat s.weights (nat s.i2c i)) (nat s.wsize (nat s.weights (nat s.i2c i)) - 1) }

theorem popState_vinv {n : Nat} (s : St) (i : Nat) (h : VInv n (i + 1) s) : Inv n i (popState s i) := by
  have hin : i < n := by have := h.inv.f.mle; omega
  have hcol : nat s.i2c i < n := (h.inv.f.pi i hin).1
  have hwn : nat s.weights (nat s.i2c i) < n := h.inv.f.wlt _ hcol
  refine ⟨h.inv.li, h.inv.lc, h.inv.lw, by simp [popState, h.inv.lz], h.inv.lp, ?_⟩
  show FInv _ _ (nat s.i2c) (nat s.c2i) (nat s.weights) (nat s.wptr) (nat (s.wsize.set _ _))
  rw [nat_set_fun _ _ _ (by rw [h.inv.lz]; exact hwn)]
  have hfun : (fun u => if u = nat s.weights (nat s.i2c i) then nat s.wsize u - 1 else nat s.wsize u)
      = fun j => if j = nat s.weights (nat s.i2c i) then nat s.wsize (nat s.weights (nat s.i2c i)) - 1 else nat s.wsize j := by
    funext u
    by_cases e : u = nat s.weights (nat s.i2c i)
    · simp only [e, ↓reduceIte]
    · simp only [e, ↓reduceIte]
  rw [← hfun]; exact h.inv.f.pop

theorem outer_good (S : Graph) (hS : GraphOK S) (i : Nat) (ds : List Nat) (s0 s : St) (h : Good S.length i s0 s) :
    Good S.length i s0 (ds.foldl (fun s idx =>
      if lab s.labels idx == -1 then
        (S.getD idx []).foldl (fun s k => if lab s.labels k == -1 then bump S.length s k else s)
          { s with labels := s.labels.set idx 0 }
      else s) s) := by
  induction ds generalizing s with
  | nil => exact h
  | cons idx ds ih =>
    rw [List.foldl_cons]
    apply ih
    by_cases hu : (lab s.labels idx == -1) = true
    · rw [if_pos hu]
      have hg : Good S.length i s0 { s with labels := s.labels.set idx 0 } :=
        ⟨h.1.set_label idx 0 (by decide), h.2⟩
      exact foldl_step_good (bump S.length) (fun s k hi hk hkm => bump_inv hi hk hkm) _ (fun k hk => hS idx k hk) s0 _ hg
    · rw [if_neg hu]; exact h

theorem visit_good (S : Graph) (hS : GraphOK S) (s : St) (i : Nat) (h : VInv S.length (i + 1) s) :
    Good S.length i s (visit S s i) := by
  have hin : i < S.length := by have := h.inv.f.mle; omega
  have hcol : nat s.i2c i < S.length := (h.inv.f.pi i hin).1
  have hp := popState_vinv s i h
  unfold visit
  show Good S.length i s (if lab (popState s i).labels (nat s.i2c i) != -1 then popState s i else _)
  by_cases hl : lab s.labels (nat s.i2c i) = -1
  · have hb : (lab (popState s i).labels (nat s.i2c i) != -1) = false := by simp [popState, hl]
    rw [hb]
    simp only [Bool.false_eq_true, if_false]
    -- the column becomes coarse
    have hv2 : VInv S.length i { popState s i with labels := (popState s i).labels.set (nat s.i2c i) 1 } := by
      refine ⟨⟨hp.li, hp.lc, hp.lw, hp.lz, hp.lp, hp.f⟩, by simp [popState, h.ll], ?_⟩
      intro q hq hqn
      show lab (s.labels.set (nat s.i2c i) 1) (nat s.i2c q) ≠ -1
      rw [lab_set]
      split
      · decide
      · rename_i hne
        rcases Nat.lt_or_eq_of_le hq with hlt | heq
        · exact h.asg q hlt hqn
        · exfalso; apply hne; rw [← heq]; exact ⟨rfl, by rw [h.ll]; exact hcol⟩
    have hg2 : Good S.length i s { popState s i with labels := (popState s i).labels.set (nat s.i2c i) 1 } :=
      ⟨hv2, fun _ _ => rfl⟩
    have hg3 := outer_good S hS i (dependents S (nat s.i2c i)) s _ hg2
    exact foldl_step_good drop1 (fun s k hi hk hkm => drop1_inv hi hk hkm) _ (fun k hk => hS _ k hk) s _ hg3
  · have hb : (lab (popState s i).labels (nat s.i2c i) != -1) = true := by simpa [popState] using hl
    rw [if_pos hb]
    refine ⟨⟨hp, h.ll, ?_⟩, fun _ _ => rfl⟩
    intro q hq hqn
    rcases Nat.lt_or_eq_of_le hq with hlt | heq
    · exact h.asg q hlt hqn
    · rw [← heq]; exact hl

/-! ### the whole first pass -/

theorem runFrom_good (S : Graph) (hS : GraphOK S) (m : Nat) (s : St) (h : VInv S.length m s) :
    VInv S.length 0 (runFrom S (List.range m).reverse s).1 ∧
    (∀ q, m ≤ q → nat (runFrom S (List.range m).reverse s).1.i2c q = nat s.i2c q) ∧
    (runFrom S (List.range m).reverse s).2 = (List.range m).reverse.map (nat (runFrom S (List.range m).reverse s).1.i2c) := by
  induction m generalizing s with
  | zero => exact ⟨h, fun _ _ => rfl, rfl⟩
  | succ m ih =>
    have hv := visit_good S hS s m h
    obtain ⟨r1, r2, r3⟩ := ih (visit S s m) hv.1
    have hrev : (List.range (m + 1)).reverse = m :: (List.range m).reverse := by
      rw [List.range_succ, List.reverse_append]; rfl
    rw [hrev]
    simp only [runFrom, List.map_cons]
    refine ⟨r1, ?_, ?_⟩
    · intro q hq
      rw [r2 q (by omega), hv.2 q (by omega)]
    · rw [r3, r2 m (Nat.le_refl m), hv.2 m (Nat.le_refl m)]

/-- **cover**: every column is visited -/
theorem runFrom_cover (S : Graph) (hS : GraphOK S) (s : St) (h : VInv S.length S.length s) (c : Nat) (hc : c < S.length) :
    c ∈ (runFrom S (List.range S.length).reverse s).2 := by
  obtain ⟨r1, _, r3⟩ := runFrom_good S hS S.length s h
  rw [r3]
  have hp := r1.inv.f.pc c hc
  rw [List.mem_map]
  exact ⟨nat (runFrom S (List.range S.length).reverse s).1.c2i c, by simpa using hp.1, hp.2⟩

/-! ### the initial buckets -/

/-- start of block `w` in `(range k).flatMap f` -/
def blockStart {α : Type} (f : Nat → List α) (w : Nat) : Nat := ((List.range w).map fun v => (f v).length).sum

theorem blockStart_succ {α : Type} (f : Nat → List α) (w : Nat) : blockStart f (w + 1) = blockStart f w + (f w).length := by
  simp [blockStart, List.range_succ]

theorem length_flatMap_range {α : Type} (f : Nat → List α) (k : Nat) :
    ((List.range k).flatMap f).length = blockStart f k := by
  induction k with
  | zero => rfl
  | succ k ih => rw [List.range_succ, List.flatMap_append, List.length_append, ih, blockStart_succ]; simp

theorem blockStart_mono {α : Type} (f : Nat → List α) {a b : Nat} (h : a ≤ b) : blockStart f a ≤ blockStart f b := by
  induction b with
  | zero => have : a = 0 := by omega
            subst this; exact Nat.le_refl _
  | succ b ih =>
    rcases Nat.lt_or_ge a (b + 1) with h1 | h1
    · rw [blockStart_succ]; have := ih (by omega); omega
    · have : a = b + 1 := by omega
      subst this; exact Nat.le_refl _

/-- block `w` of a `flatMap` over `range k` sits at `blockStart f w` -/
theorem flatMap_range_get {α : Type} (f : Nat → List α) (k w j : Nat) (hw : w < k) (hj : j < (f w).length) :
    ((List.range k).flatMap f)[blockStart f w + j]? = (f w)[j]? := by
  induction k with
  | zero => omega
  | succ k ih =>
    rw [List.range_succ, List.flatMap_append]
    rcases Nat.lt_or_ge w k with h1 | h1
    · have hlt : blockStart f w + j < ((List.range k).flatMap f).length := by
        rw [length_flatMap_range]
        have := blockStart_mono f (show w + 1 ≤ k by omega)
        rw [blockStart_succ] at this; omega
      rw [List.getElem?_append_left hlt]; exact ih h1
    · have : w = k := by omega
      subst this
      rw [List.getElem?_append_right (by rw [length_flatMap_range]; omega), length_flatMap_range]
      simp

/-- every position of a `flatMap` over `range k` lies in exactly one block -/
theorem flatMap_range_block {α : Type} (f : Nat → List α) (k q : Nat) (hq : q < ((List.range k).flatMap f).length) :
    ∃ w, w < k ∧ blockStart f w ≤ q ∧ q < blockStart f w + (f w).length := by
  induction k with
  | zero => simp at hq
  | succ k ih =>
    rcases Nat.lt_or_ge q ((List.range k).flatMap f).length with h1 | h1
    · obtain ⟨w, hw, h2⟩ := ih h1
      exact ⟨w, by omega, h2⟩
    · refine ⟨k, by omega, ?_, ?_⟩
      · rw [← length_flatMap_range]; exact h1
      · rw [← blockStart_succ, ← length_flatMap_range]; exact hq

/-- block `w` of the initial `weight_idx_to_col`: the columns of weight `w`, increasing -/
def blk (S : Graph) (w : Nat) : List Nat := (List.range S.length).filter fun c => nat (wts S) c == w

theorem init_i2c_blk (S : Graph) (l0 : List Int) : (init S l0).i2c = (List.range S.length).flatMap (blk S) := rfl
theorem init_weights (S : Graph) (l0 : List Int) : (init S l0).weights = wts S := rfl

theorem cnt_eq (S : Graph) (w : Nat) : ((wts S).filter (· == w)).length = (blk S w).length := by
  unfold blk
  have h1 : (wts S).filter (· == w)
      = ((List.range S.length).filter ((fun x => x == w) ∘ fun c => (dependents S c).length)).map fun c => (dependents S c).length := by
    unfold wts; rw [List.filter_map]
  rw [h1, List.length_map]
  congr 1
  apply List.filter_congr
  intro c hc
  simp only [Function.comp]
  rw [nat_wts S (List.mem_range.mp hc)]

theorem init_Z (S : Graph) (l0 : List Int) (w : Nat) (hw : w < S.length) :
    nat (init S l0).wsize w = (blk S w).length := by
  show nat ((List.range S.length).map fun w => ((wts S).filter (· == w)).length) w = _
  simp only [nat, List.getD_eq_getElem?_getD, List.getElem?_map, List.getElem?_range hw, Option.map_some, Option.getD_some]
  exact cnt_eq S w

theorem foldl_add_eq_sum (l : List Nat) (a : Nat) : l.foldl (· + ·) a = a + l.sum := by
  induction l generalizing a with
  | nil => simp
  | cons x l ih => rw [List.foldl_cons, ih, List.sum_cons]; omega

theorem init_P (S : Graph) (l0 : List Int) (w : Nat) (hw : w ≤ S.length) :
    nat (init S l0).wptr w = blockStart (blk S) w := by
  show nat ((List.range (S.length + 1)).map fun w =>
      ((((List.range S.length).map fun w => ((wts S).filter (· == w)).length).take w).foldl (· + ·) 0)) w = _
  simp only [nat, List.getD_eq_getElem?_getD, List.getElem?_map, List.getElem?_range (show w < S.length + 1 by omega),
    Option.map_some, Option.getD_some]
  rw [foldl_add_eq_sum, Nat.zero_add, ← List.map_take, List.take_range, Nat.min_eq_left hw]
  unfold blockStart
  congr 1
  apply List.map_congr_left
  intro v _
  exact cnt_eq S v

theorem blk_mem {S : Graph} {w c : Nat} (h : c ∈ blk S w) : c < S.length ∧ nat (wts S) c = w := by
  unfold blk at h
  have := List.mem_filter.mp h
  exact ⟨List.mem_range.mp this.1, by simpa using this.2⟩

theorem init_i2c_nodup (S : Graph) (l0 : List Int) : (init S l0).i2c.Nodup := by
  rw [init_i2c_blk, List.Nodup, List.pairwise_flatMap]
  constructor
  · intro w _
    exact List.Pairwise.filter _ List.nodup_range
  · apply List.Pairwise.imp _ List.pairwise_lt_range
    intro w1 w2 hlt x hx y hy e
    have h1 := (blk_mem hx).2
    have h2 := (blk_mem hy).2
    rw [e] at h1; omega

theorem init_i2c_length (S : Graph) (hwf : WF S) (l0 : List Int) : (init S l0).i2c.length = S.length := by
  have := buckets_length S.length (fun c => nat (wts S) c) (List.range S.length)
    (fun c hc => by rw [nat_wts S (List.mem_range.mp hc)]; exact weight_lt S hwf (List.mem_range.mp hc))
  rw [init_i2c]; simpa using this

theorem init_finv (S : Graph) (hwf : WF S) (l0 : List Int) :
    FInv S.length S.length (nat (init S l0).i2c) (nat (init S l0).c2i) (nat (init S l0).weights)
      (nat (init S l0).wptr) (nat (init S l0).wsize) := by
  have hlen := init_i2c_length S hwf l0
  have hnd := init_i2c_nodup S l0
  have hI : ∀ q, (hq : q < S.length) → nat (init S l0).i2c q = (init S l0).i2c[q]'(by rw [hlen]; exact hq) :=
    fun q hq => nat_eq_getElem _ _ (by rw [hlen]; exact hq)
  have hmemlt : ∀ c, c ∈ (init S l0).i2c → c < S.length := by
    intro c hc
    rw [init_i2c_blk, List.mem_flatMap] at hc
    obtain ⟨w, _, hcw⟩ := hc
    exact (blk_mem hcw).1
  have hmem : ∀ c, c < S.length → c ∈ (init S l0).i2c := by
    intro c hc
    rw [init_i2c]
    exact mem_buckets _ _ _ (List.mem_range.mpr hc) (by rw [nat_wts S hc]; exact weight_lt S hwf hc)
  have hC : ∀ c, c < S.length → nat (init S l0).c2i c = (init S l0).i2c.idxOf c := by
    intro c hc
    show nat ((List.range S.length).map fun c => (init S l0).i2c.idxOf c) c = _
    simp [nat, List.getD_eq_getElem?_getD, List.getElem?_map, List.getElem?_range hc]
  -- position q lies in the block of the weight of its column
  have hblock : ∀ q, q < S.length → ∃ w, w < S.length ∧ blockStart (blk S) w ≤ q ∧ q < blockStart (blk S) w + (blk S w).length ∧
      nat (init S l0).weights (nat (init S l0).i2c q) = w := by
    intro q hq
    obtain ⟨w, hw, h1, h2⟩ := flatMap_range_block (blk S) S.length q (by rw [← init_i2c_blk, hlen]; exact hq)
    refine ⟨w, hw, h1, h2, ?_⟩
    have hget := flatMap_range_get (blk S) S.length w (q - blockStart (blk S) w) hw (by omega)
    rw [show blockStart (blk S) w + (q - blockStart (blk S) w) = q by omega, ← init_i2c_blk] at hget
    have hq' : q < (init S l0).i2c.length := by rw [hlen]; exact hq
    rw [List.getElem?_eq_getElem hq', List.getElem?_eq_getElem (by omega)] at hget
    have heq : (init S l0).i2c[q] = (blk S w)[q - blockStart (blk S) w]'(by omega) := Option.some.inj hget
    rw [hI q hq, heq, init_weights]
    exact (blk_mem (List.getElem_mem _)).2
  refine ⟨Nat.le_refl _, ?_, ?_, ?_, ?_, ?_, ?_⟩
  · intro q hq
    have hlt : nat (init S l0).i2c q < S.length := by rw [hI q hq]; exact hmemlt _ (List.getElem_mem _)
    refine ⟨hlt, ?_⟩
    rw [hC _ hlt, hI q hq]
    exact hnd.idxOf_getElem q _
  · intro c hc
    have hidx : (init S l0).i2c.idxOf c < (init S l0).i2c.length := List.idxOf_lt_length_of_mem (hmem c hc)
    rw [hC c hc]
    refine ⟨by rw [← hlen]; exact hidx, ?_⟩
    rw [nat_eq_getElem _ _ hidx]
    exact List.getElem_idxOf hidx
  · intro c hc
    rw [init_weights, nat_wts S hc]; exact weight_lt S hwf hc
  · intro q hq
    obtain ⟨w, hw, h1, h2, h3⟩ := hblock q hq
    rw [h3, init_P S l0 w (by omega), init_Z S l0 w hw]
    exact ⟨h1, h2⟩
  · intro w hw q hlo hhi
    rw [init_P S l0 w (by omega)] at hlo hhi
    rw [init_Z S l0 w hw] at hhi
    have hqn : q < S.length := by
      have := blockStart_mono (blk S) (show w + 1 ≤ S.length by omega)
      have hn : blockStart (blk S) S.length = S.length := by
        rw [← length_flatMap_range, ← init_i2c_blk, hlen]
      rw [blockStart_succ, hn] at this
      omega
    refine ⟨hqn, ?_⟩
    obtain ⟨w', hw', h1, h2, h3⟩ := hblock q hqn
    rw [h3]
    -- the blocks are disjoint intervals
    rcases Nat.lt_trichotomy w' w with hlt | heq | hgt
    · have := blockStart_mono (blk S) (show w' + 1 ≤ w by omega)
      rw [blockStart_succ] at this; omega
    · exact heq
    · have := blockStart_mono (blk S) (show w + 1 ≤ w' by omega)
      rw [blockStart_succ] at this; omega
  · intro q q' hlt hq'
    have hq : q < S.length := by omega
    have hs := buckets_sorted S.length (fun c => nat (wts S) c) (List.range S.length)
    rw [← init_i2c S l0] at hs
    have := (List.pairwise_iff_getElem.mp hs) q q' (by rw [hlen]; exact hq) (by rw [hlen]; exact hq') hlt
    rw [init_weights, hI q hq, hI q' hq']
    exact this

theorem init_vinv (S : Graph) (hwf : WF S) (l0 : List Int) (hl : l0.length = S.length) :
    VInv S.length S.length (init S l0) := by
  refine ⟨⟨init_i2c_length S hwf l0, ?_, ?_, ?_, ?_, init_finv S hwf l0⟩, hl, ?_⟩
  · show ((List.range S.length).map fun c => (init S l0).i2c.idxOf c).length = S.length
    simp
  · rw [init_weights]; simp [wts]
  · show ((List.range S.length).map fun w => ((wts S).filter (· == w)).length).length = S.length
    simp
  · show ((List.range (S.length + 1)).map fun w =>
      ((((List.range S.length).map fun w => ((wts S).filter (· == w)).length).take w).foldl (· + ·) 0)).length = S.length + 1
    simp
  · intro q hq hqn; omega

/-- **the first pass visits every column** — the hypothesis `hcover` of `firstPass_total`, `splitRS_total`,
    `splitRS_mixed` and `splitRS_mixed_of_edge`, for every strength graph without self-dependence whose entries are vertices -/
theorem firstPass_cover (S : Graph) (hwf : WF S) (hS : GraphOK S) (l0 : List Int) (hl : l0.length = S.length)
    (c : Nat) (hc : c < S.length) : c ∈ (firstPass S l0).2 := by
  unfold firstPass
  exact runFrom_cover S hS _ (init_vinv S hwf l0 hl) c hc

/-! ### the theorems of `C13RS` without the certificate -/

/-- **C13, totality clause, Ruge–Stüben**: no point is left unassigned -/
theorem splitRS_total_proved (S : Graph) (second : Bool) (hwf : WF S) (hS : GraphOK S) : Assigned (splitRS S second) :=
  splitRS_total S second (firstPass_cover S hwf hS _ (by simp))

/-- **C13, Ruge–Stüben: at least one coarse and at least one fine point** whenever some vertex has a dependent -/
theorem splitRS_mixed_of_edge_proved (S : Graph) (second : Bool) (hwf : WF S) (hS : GraphOK S) {u : Nat} (hu : u < S.length)
    (hdep : dependents S u ≠ []) :
    (∃ v, lab (splitRS S second) v = 1) ∧ (∃ v, lab (splitRS S second) v = 0) :=
  splitRS_mixed_of_edge S second hwf hu hdep (firstPass_cover S hwf hS _ (by simp))

/-- non-vacuity: the directed 3-cycle satisfies both hypotheses -/
example : WF [[1], [2], [0]] ∧ GraphOK [[1], [2], [0]] := by
  constructor
  · intro v hv
    have : v = 0 ∨ v = 1 ∨ v = 2 := by simp at hv; omega
    rcases this with rfl | rfl | rfl <;> decide
  · intro v k hk
    have hv : v < 3 ∨ 3 ≤ v := Nat.lt_or_ge v 3
    rcases hv with hv | hv
    · have : v = 0 ∨ v = 1 ∨ v = 2 := by omega
      rcases this with rfl | rfl | rfl <;> simp at hk <;> subst hk <;> decide
    · have : ([[1], [2], [0]] : Graph).getD v [] = [] := by
        simp [List.getD_eq_getElem?_getD, List.getElem?_eq_none (show ([[1], [2], [0]] : Graph).length ≤ v by simpa using hv)]
      rw [this] at hk; cases hk

end Raptor.RS
