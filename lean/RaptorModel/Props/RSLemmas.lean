import RaptorModel.Model.RS
/-! Helper lemmas for the Ruge–Stüben model: labels under `List.set`, the label projection of the bucket machine. -/
namespace Raptor.RS
open Raptor.Split (Graph dependents)

theorem lab_set_self {l : List Int} {i : Nat} {v : Int} (h : i < l.length) : lab (l.set i v) i = v := by
  simp [lab, h]

theorem lab_set_ne {l : List Int} {i j : Nat} {v : Int} (h : i ≠ j) : lab (l.set i v) j = lab l j := by
  simp [lab, List.getElem?_set_ne h]

theorem lab_oob {l : List Int} {i : Nat} (h : l.length ≤ i) : lab l i = 7 := by
  simp [lab, h]

theorem lab_set (l : List Int) (i j : Nat) (v : Int) :
    lab (l.set i v) j = if i = j ∧ i < l.length then v else lab l j := by
  by_cases hij : i = j
  · subst hij
    by_cases hl : i < l.length
    · simp [lab_set_self hl, hl]
    · have : l.set i v = l := List.set_eq_of_length_le (by omega)
      simp [this, hl]
  · simp [lab_set_ne hij, hij]

/-- the fold that marks the dependents of a new coarse point -/
def markF (l : List Int) (idx : Nat) : List Int := if lab l idx == -1 then l.set idx 0 else l

theorem selectCol_eq (S : Graph) (labels : List Int) (col : Nat) :
    selectCol S labels col = if lab labels col != -1 then labels else (dependents S col).foldl markF (labels.set col 1) := rfl

theorem markF_length (l : List Int) (i : Nat) : (markF l i).length = l.length := by
  unfold markF; split <;> simp

theorem foldl_markF_length (ds : List Nat) (l : List Int) : (ds.foldl markF l).length = l.length := by
  induction ds generalizing l with
  | nil => rfl
  | cons d ds ih => simp [List.foldl_cons, ih, markF_length]

theorem selectCol_length (S : Graph) (l : List Int) (c : Nat) : (selectCol S l c).length = l.length := by
  rw [selectCol_eq]; split
  · rfl
  · simp [foldl_markF_length]

/-- an assigned label is never touched by `markF` -/
theorem markF_keep {l : List Int} {i v : Nat} (h : lab l v ≠ -1) : lab (markF l i) v = lab l v := by
  unfold markF; split
  · rename_i hi
    by_cases hiv : i = v
    · subst hiv; simp at hi; exact absurd hi h
    · exact lab_set_ne hiv
  · rfl

theorem foldl_markF_keep (ds : List Nat) {l : List Int} {v : Nat} (h : lab l v ≠ -1) :
    lab (ds.foldl markF l) v = lab l v := by
  induction ds generalizing l with
  | nil => rfl
  | cons d ds ih =>
    simp only [List.foldl_cons]
    rw [ih (by rw [markF_keep h]; exact h), markF_keep h]

/-- a member of the list is assigned after the fold -/
theorem foldl_markF_assigned (ds : List Nat) {l : List Int} {v : Nat} (hv : v ∈ ds) (hl : v < l.length) :
    lab (ds.foldl markF l) v ≠ -1 := by
  induction ds generalizing l with
  | nil => cases hv
  | cons d ds ih =>
    simp only [List.foldl_cons]
    by_cases hd : lab (markF l d) v = -1
    · rcases List.mem_cons.mp hv with rfl | hmem
      · exfalso
        unfold markF at hd
        split at hd
        · rw [lab_set_self hl] at hd; omega
        · rename_i hne; simp at hne; exact hne hd
      · exact ih hmem (by rw [markF_length]; exact hl)
    · rw [foldl_markF_keep ds hd]; exact hd

/-- a label `0` produced by the fold belongs to a member of the list that was unassigned -/
theorem foldl_markF_zero (ds : List Nat) {l : List Int} {v : Nat} (h0 : lab (ds.foldl markF l) v = 0) :
    lab l v = 0 ∨ (v ∈ ds ∧ lab l v = -1) := by
  induction ds generalizing l with
  | nil => exact Or.inl h0
  | cons d ds ih =>
    simp only [List.foldl_cons] at h0
    rcases ih h0 with h | ⟨hm, h⟩
    · unfold markF at h
      split at h
      · rename_i hd
        rw [lab_set] at h
        split at h
        · rename_i hc; obtain ⟨rfl, _⟩ := hc
          right; exact ⟨List.mem_cons_self, by simpa using hd⟩
        · left; exact h
      · left; exact h
    · right
      refine ⟨List.mem_cons_of_mem _ hm, ?_⟩
      unfold markF at h
      split at h
      · rw [lab_set] at h
        split at h
        · omega
        · exact h
      · exact h

/-- labels `1` are never changed by the fold -/
theorem foldl_markF_one (ds : List Nat) {l : List Int} {v : Nat} :
    lab (ds.foldl markF l) v = 1 ↔ lab l v = 1 := by
  by_cases h : lab l v = -1
  · constructor
    · intro h1
      induction ds generalizing l with
      | nil => exact h1
      | cons d ds ih =>
        simp only [List.foldl_cons] at h1
        by_cases hd : lab (markF l d) v = -1
        · have := ih hd h1
          unfold markF at this; split at this
          · rw [lab_set] at this; split at this <;> first | omega | exact this
          · exact this
        · rw [foldl_markF_keep ds hd] at h1
          unfold markF at h1; split at h1
          · rw [lab_set] at h1; split at h1 <;> first | omega | exact h1
          · exact h1
    · intro h1; omega
  · rw [foldl_markF_keep ds h]

/-! ### the label projection of the bucket machine -/

theorem swapPos_labels (s : St) (a b : Nat) : (swapPos s a b).labels = s.labels := rfl

theorem bump_labels (n : Nat) (s : St) (k : Nat) : (bump n s k).labels = s.labels := by
  unfold bump; simp only; split <;> rfl

theorem drop1_labels (s : St) (k : Nat) : (drop1 s k).labels = s.labels := by
  unfold drop1; simp only; split <;> rfl

theorem foldl_bump_labels (n : Nat) (ks : List Nat) (s : St) :
    (ks.foldl (fun s k => if lab s.labels k == -1 then bump n s k else s) s).labels = s.labels := by
  induction ks generalizing s with
  | nil => rfl
  | cons k ks ih =>
    simp only [List.foldl_cons]; rw [ih]; split
    · exact bump_labels _ _ _
    · rfl

theorem foldl_drop_labels (ks : List Nat) (s : St) :
    (ks.foldl (fun s k => if lab s.labels k == -1 then drop1 s k else s) s).labels = s.labels := by
  induction ks generalizing s with
  | nil => rfl
  | cons k ks ih =>
    simp only [List.foldl_cons]; rw [ih]; split
    · exact drop1_labels _ _
    · rfl

theorem foldl_dependents_labels (S : Graph) (n : Nat) (ds : List Nat) (s : St) :
    (ds.foldl (fun s idx =>
      if lab s.labels idx == -1 then
        (S.getD idx []).foldl (fun s k => if lab s.labels k == -1 then bump n s k else s)
          { s with labels := s.labels.set idx 0 }
      else s) s).labels = ds.foldl markF s.labels := by
  induction ds generalizing s with
  | nil => rfl
  | cons d ds ih =>
    simp only [List.foldl_cons]; rw [ih]; congr 1
    unfold markF; split
    · rw [foldl_bump_labels]
    · rfl

/-- the buckets decide the order of the visits, never what a visit does to the labels -/
theorem visit_labels (S : Graph) (s : St) (i : Nat) :
    (visit S s i).labels = selectCol S s.labels (nat s.i2c i) := by
  unfold visit selectCol
  simp only
  split
  · rfl
  · rw [foldl_drop_labels, foldl_dependents_labels]; rfl

theorem runFrom_labels (S : Graph) (is : List Nat) (s : St) :
    (runFrom S is s).1.labels = (runFrom S is s).2.foldl (selectCol S) s.labels := by
  induction is generalizing s with
  | nil => rfl
  | cons i is ih =>
    simp only [runFrom, List.foldl_cons]
    rw [ih, visit_labels]

end Raptor.RS

namespace Raptor.RS
open Raptor.Split (Graph dependents)

/-- an unassigned member of the list becomes fine -/
theorem foldl_markF_sets (ds : List Nat) {l : List Int} {v : Nat} (hv : v ∈ ds) (hl : v < l.length)
    (h : lab l v = -1) : lab (ds.foldl markF l) v = 0 := by
  induction ds generalizing l with
  | nil => cases hv
  | cons d ds ih =>
    simp only [List.foldl_cons]
    by_cases hd : d = v
    · subst hd
      have : lab (markF l d) d = 0 := by
        unfold markF; rw [if_pos (by simp [h])]; exact lab_set_self hl
      rw [foldl_markF_keep ds (by rw [this]; decide), this]
    · have hm : v ∈ ds := by
        rcases List.mem_cons.mp hv with e | hm
        · exact absurd e.symm hd
        · exact hm
      apply ih hm (by rw [markF_length]; exact hl)
      unfold markF; split
      · rw [lab_set_ne hd]; exact h
      · exact h

/-! ### second pass: the marking fold and the row fold -/

theorem mark_persist (l : List Int) (i : Nat) (row : List Nat) (rc : List Int) (u : Nat)
    (h : rc.getD u (-1) = (i : Int)) :
    (row.foldl (fun rc col => if lab l col == 1 then rc.set col (i : Int) else rc) rc).getD u (-1) = (i : Int) := by
  induction row generalizing rc with
  | nil => exact h
  | cons c cs ih =>
    simp only [List.foldl_cons]; apply ih
    split
    · by_cases hc : c = u
      · subst hc
        by_cases hl : c < rc.length
        · simp [hl]
        · rw [List.set_eq_of_length_le (by omega)]; exact h
      · simp [List.getElem?_set_ne hc]; simpa using h
    · exact h

theorem mark_sets (l : List Int) (i : Nat) (row : List Nat) (rc : List Int) (u : Nat)
    (hu : u ∈ row) (h1 : lab l u = 1) (hl : u < rc.length) :
    (row.foldl (fun rc col => if lab l col == 1 then rc.set col (i : Int) else rc) rc).getD u (-1) = (i : Int) := by
  induction row generalizing rc with
  | nil => cases hu
  | cons c cs ih =>
    simp only [List.foldl_cons]
    by_cases hc : c = u
    · subst hc
      apply mark_persist
      rw [if_pos (by simp [h1])]; simp [hl]
    · rcases List.mem_cons.mp hu with e | hm
      · exact absurd e.symm hc
      · refine ih _ hm ?_
        split
        · simpa using hl
        · exact hl

theorem mark_length (l : List Int) (i : Nat) (row : List Nat) (rc : List Int) :
    (row.foldl (fun rc col => if lab l col == 1 then rc.set col (i : Int) else rc) rc).length = rc.length := by
  induction row generalizing rc with
  | nil => rfl
  | cons c cs ih => simp only [List.foldl_cons]; rw [ih]; split <;> simp

end Raptor.RS
