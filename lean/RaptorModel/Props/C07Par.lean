import RaptorModel.Props.C07
import RaptorModel.Lemmas.ParMatLemmas
/-!
# C07 (distributed part) — block-local operations preserve the matrix a distributed object represents

`image bs` is the global entry list of a distributed matrix given as per-rank blocks with local
indices and local→global maps (`RaptorModel/Model/ParMat.lean`); `denE (image bs) i j` is the
matrix it represents. The theorems state, for every commutative additive monoid of scalars, every
number of ranks, all maps and all `i j : Nat`:

1. `denE_map_global`, `denE_map_global_zero` : through injective maps the global dense image of a
   block IS its local dense image (and is `0` outside the range of the maps);
2. `image_congr` : the lifting theorem — two distributed matrices with, rank by rank, the same maps
   and blocks with equal LOCAL dense images represent the same GLOBAL matrix. No injectivity and no
   range condition on the maps or the local indices is needed. `image_mapBlocks_*` are its forms for
   a block-local operation applied on every rank;
3. `par_conv_image`, `par_*_image` : the sequential theorems of `Props/C07.lean` lifted by 2;
4. `denE_expand_blockOf` : regrouping scalar entries into dense `br × bc` blocks and expanding again
   gives the same matrix;
5. `image_add`, `image_add_merged` : the distributed sum, with equal halo maps and with a merged
   halo map.
-/
namespace Raptor.C07Par
open Raptor.Sparse Raptor.ParMat Raptor.C07

variable {K : Type}

/-! ## 1. one block through injective maps -/

section OneBlock
variable [AddCommMonoid K]

/-- through duplicate-free maps, the global dense image of a block at the global position of
    `(li, lj)` is the local dense image at `(li, lj)` -/
theorem denE_map_global (rowMap colMap : List Nat) (es : List (Entry K))
    (hr : rowMap.Nodup) (hc : colMap.Nodup)
    (hes : ∀ e ∈ es, e.1 < rowMap.length ∧ e.2.1 < colMap.length)
    (li lj : Nat) (hli : li < rowMap.length) (hlj : lj < colMap.length) :
    denE (es.map fun e => (rowMap.getD e.1 0, colMap.getD e.2.1 0, e.2.2))
      (rowMap.getD li 0) (colMap.getD lj 0) = denE es li lj := by
  induction es with
  | nil => rfl
  | cons e es ih =>
    have he := hes e List.mem_cons_self
    rw [List.map_cons, denE_cons', denE_cons', ih (fun x hx => hes x (List.mem_cons_of_mem _ hx))]
    congr 1
    have hiff : (rowMap.getD e.1 0 = rowMap.getD li 0 ∧ colMap.getD e.2.1 0 = colMap.getD lj 0)
        ↔ (e.1 = li ∧ e.2.1 = lj) :=
      ⟨fun h => ⟨getD_inj_of_nodup hr he.1 hli h.1, getD_inj_of_nodup hc he.2 hlj h.2⟩,
       fun h => by rw [h.1, h.2]; exact ⟨rfl, rfl⟩⟩
    show (if rowMap.getD e.1 0 = rowMap.getD li 0 ∧ colMap.getD e.2.1 0 = colMap.getD lj 0
      then e.2.2 else 0) = _
    simp only [hiff]

/-- the global dense image of a block vanishes outside the ranges of its maps (no injectivity
    needed) -/
theorem denE_map_global_zero (rowMap colMap : List Nat) (es : List (Entry K))
    (hes : ∀ e ∈ es, e.1 < rowMap.length ∧ e.2.1 < colMap.length)
    (i j : Nat) (h : i ∉ rowMap ∨ j ∉ colMap) :
    denE (es.map fun e => (rowMap.getD e.1 0, colMap.getD e.2.1 0, e.2.2)) i j = 0 := by
  apply denE_eq_zero
  intro x hx hc
  obtain ⟨e, he, rfl⟩ := List.mem_map.mp hx
  have hlt := hes e he
  rcases h with h | h
  · exact h (hc.1 ▸ getD_mem hlt.1)
  · exact h (hc.2 ▸ getD_mem hlt.2)

/-- a rank whose three maps are duplicate-free and whose on-process and halo columns are
    disjoint: the on-process block is read back from the global image of the rank -/
theorem denE_global_on (B : Blk K) (hr : B.rowMap.Nodup) (hc : B.onColMap.Nodup)
    (hon : ∀ e ∈ B.on, e.1 < B.rowMap.length ∧ e.2.1 < B.onColMap.length)
    (hoff : ∀ e ∈ B.off, e.1 < B.rowMap.length ∧ e.2.1 < B.offColMap.length)
    (hdisj : ∀ g ∈ B.onColMap, g ∉ B.offColMap)
    (li lj : Nat) (hli : li < B.rowMap.length) (hlj : lj < B.onColMap.length) :
    denE B.global (B.rowMap.getD li 0) (B.onColMap.getD lj 0) = denE B.on li lj := by
  unfold Blk.global
  rw [denE_append, denE_map_global _ _ _ hr hc hon li lj hli hlj,
    denE_map_global_zero _ _ _ hoff _ _ (Or.inr (hdisj _ (getD_mem hlj))), add_zero]

/-- the same for the halo block -/
theorem denE_global_off (B : Blk K) (hr : B.rowMap.Nodup) (hc : B.offColMap.Nodup)
    (hon : ∀ e ∈ B.on, e.1 < B.rowMap.length ∧ e.2.1 < B.onColMap.length)
    (hoff : ∀ e ∈ B.off, e.1 < B.rowMap.length ∧ e.2.1 < B.offColMap.length)
    (hdisj : ∀ g ∈ B.offColMap, g ∉ B.onColMap)
    (li lj : Nat) (hli : li < B.rowMap.length) (hlj : lj < B.offColMap.length) :
    denE B.global (B.rowMap.getD li 0) (B.offColMap.getD lj 0) = denE B.off li lj := by
  unfold Blk.global
  rw [denE_append, denE_map_global _ _ _ hr hc hoff li lj hli hlj,
    denE_map_global_zero _ _ _ hon _ _ (Or.inr (hdisj _ (getD_mem hlj))), zero_add]

end OneBlock

/-! ## 2. the lifting theorem -/

section Lifting
variable [AddCommMonoid K]

/-- one block, any maps `r c` (not necessarily injective, local indices not necessarily in range):
    the global dense image is determined by the local one -/
theorem denE_map_congr (r c : Nat → Nat) {es es' : List (Entry K)}
    (h : ∀ li lj, denE es' li lj = denE es li lj) (i j : Nat) :
    denE (es'.map fun e => (r e.1, c e.2.1, e.2.2)) i j
      = denE (es.map fun e => (r e.1, c e.2.1, e.2.2)) i j :=
  denE_map_reIdx_congr r c h i j

/-- **lifting theorem**: rank by rank the same maps and blocks with equal local dense images
    (`BlkEquiv`) ⟹ the same global matrix -/
theorem image_congr {bs' bs : List (Blk K)} (h : List.Forall₂ BlkEquiv bs' bs) (i j : Nat) :
    denE (image bs') i j = denE (image bs) i j := by
  induction h with
  | nil => rfl
  | cons hB _ ih => rw [denE_image_cons, denE_image_cons, denE_global_congr hB, ih]

/-- the lifting theorem with the hypotheses spelled out by rank number -/
theorem image_congr_index {bs' bs : List (Blk K)} (hlen : bs'.length = bs.length)
    (h : ∀ k (h' : k < bs'.length) (h0 : k < bs.length),
      bs'[k].rowMap = bs[k].rowMap ∧ bs'[k].onColMap = bs[k].onColMap ∧
      bs'[k].offColMap = bs[k].offColMap ∧
      (∀ li lj, denE bs'[k].on li lj = denE bs[k].on li lj) ∧
      (∀ li lj, denE bs'[k].off li lj = denE bs[k].off li lj))
    (i j : Nat) : denE (image bs') i j = denE (image bs) i j := by
  apply image_congr
  rw [List.forall₂_iff_get]
  refine ⟨hlen, fun k h' h0 => ?_⟩
  obtain ⟨h1, h2, h3, h4, h5⟩ := h k h' h0
  exact ⟨⟨h1, h2, h3⟩, h4, h5⟩

/-- an operation `g` on ranks that keeps the maps and the local dense images of the ranks of `bs` -/
theorem image_map_blk (g : Blk K → Blk K) (bs : List (Blk K))
    (h : ∀ B ∈ bs, BlkEquiv (g B) B) (i j : Nat) :
    denE (image (bs.map g)) i j = denE (image bs) i j := by
  apply image_congr
  induction bs with
  | nil => exact List.Forall₂.nil
  | cons B bs ih =>
    exact List.Forall₂.cons (h B List.mem_cons_self)
      (ih (fun B' hB' => h B' (List.mem_cons_of_mem _ hB')))

/-- block-local operation that preserves the local dense image of the blocks it is applied to
    (the hypothesis is only asked of the blocks of `bs`, so that it can depend on their
    well-formedness) -/
theorem image_mapBlocks_on (f : List (Entry K) → List (Entry K)) (bs : List (Blk K))
    (h : ∀ B ∈ bs, (∀ li lj, denE (f B.on) li lj = denE B.on li lj) ∧
      (∀ li lj, denE (f B.off) li lj = denE B.off li lj)) (i j : Nat) :
    denE (image (mapBlocks f bs)) i j = denE (image bs) i j :=
  image_map_blk (fun B => { B with on := f B.on, off := f B.off }) bs
    (fun B hB => ⟨⟨rfl, rfl, rfl⟩, (h B hB).1, (h B hB).2⟩) i j

/-- `image_mapBlocks`, dense-image form: `f` preserves the local dense image of every list. (That
    `f` creates no index is not needed.) -/
theorem image_mapBlocks_den (f : List (Entry K) → List (Entry K))
    (hf : ∀ es li lj, denE (f es) li lj = denE es li lj) (bs : List (Blk K)) (i j : Nat) :
    denE (image (mapBlocks f bs)) i j = denE (image bs) i j :=
  image_mapBlocks_on f bs (fun B _ => ⟨hf B.on, hf B.off⟩) i j

/-- `image_mapBlocks`, permutation form: `f` reorders the entries of a block -/
theorem image_mapBlocks_perm (f : List (Entry K) → List (Entry K))
    (hf : ∀ es, (f es).Perm es) (bs : List (Blk K)) (i j : Nat) :
    denE (image (mapBlocks f bs)) i j = denE (image bs) i j :=
  image_mapBlocks_den f (fun es li lj => denE_perm (hf es) li lj) bs i j

/-- **`image_mapBlocks`**: a block-local operation that either reorders the entries of a block or
    preserves its local dense image does not change the matrix represented -/
theorem image_mapBlocks (f : List (Entry K) → List (Entry K))
    (hf : (∀ es, (f es).Perm es) ∨ (∀ es li lj, denE (f es) li lj = denE es li lj))
    (bs : List (Blk K)) (i j : Nat) :
    denE (image (mapBlocks f bs)) i j = denE (image bs) i j := by
  rcases hf with hf | hf
  · exact image_mapBlocks_perm f hf bs i j
  · exact image_mapBlocks_den f hf bs i j

omit [AddCommMonoid K] in
/-- in the permutation case the global entry list itself is only permuted -/
theorem image_mapBlocks_perm_list (f : List (Entry K) → List (Entry K))
    (hf : ∀ es, (f es).Perm es) (bs : List (Blk K)) :
    (image (mapBlocks f bs)).Perm (image bs) := by
  induction bs with
  | nil => exact List.Perm.refl _
  | cons B bs ih =>
    show (Blk.global _ ++ image (mapBlocks f bs)).Perm (B.global ++ image bs)
    refine List.Perm.append ?_ ih
    exact List.Perm.append ((hf B.on).map _) ((hf B.off).map _)

end Lifting

/-! ## 3. the sequential theorems lifted -/

section Corollaries
variable [AddCommMonoid K]

/-- COO → CSR → COO applied to both blocks of every rank with common dimensions `nR × nC` -/
theorem par_conv_image (nR nC : Nat) (bs : List (Blk K))
    (hwf : ∀ B ∈ bs, (⟨nR, nC, B.on⟩ : Coo K).WF = true ∧ (⟨nR, nC, B.off⟩ : Coo K).WF = true)
    (i j : Nat) :
    denE (image (mapBlocks (fun es => (csrToCoo (cooToCsr ⟨nR, nC, es⟩)).ents) bs)) i j
      = denE (image bs) i j :=
  image_mapBlocks_on (fun es => (csrToCoo (cooToCsr ⟨nR, nC, es⟩)).ents) bs (fun B hB =>
    ⟨fun li lj => den_coo_csr_coo ⟨nR, nC, B.on⟩ (hwf B hB).1 li lj,
     fun li lj => den_coo_csr_coo ⟨nR, nC, B.off⟩ (hwf B hB).2 li lj⟩) i j

/-- COO → CSC → CSR → COO blockwise -/
theorem par_conv_csc_image (nR nC : Nat) (bs : List (Blk K))
    (hwf : ∀ B ∈ bs, (⟨nR, nC, B.on⟩ : Coo K).WF = true ∧ (⟨nR, nC, B.off⟩ : Coo K).WF = true)
    (i j : Nat) :
    denE (image (mapBlocks (fun es => (csrToCoo (cscToCsr (cooToCsc ⟨nR, nC, es⟩))).ents) bs)) i j
      = denE (image bs) i j :=
  image_mapBlocks_on (fun es => (csrToCoo (cscToCsr (cooToCsc ⟨nR, nC, es⟩))).ents) bs (fun B hB =>
    ⟨fun li lj => den_coo_csc_csr_coo ⟨nR, nC, B.on⟩ (hwf B hB).1 li lj,
     fun li lj => den_coo_csc_csr_coo ⟨nR, nC, B.off⟩ (hwf B hB).2 li lj⟩) i j

/-- a rank is well formed: local indices inside the ranges of its maps -/
def Blk.WF (B : Blk K) : Bool :=
  (⟨B.rowMap.length, B.onColMap.length, B.on⟩ : Coo K).WF &&
  (⟨B.rowMap.length, B.offColMap.length, B.off⟩ : Coo K).WF

/-- the distributed conversion with the dimensions each rank really uses: the on-process block is
    `local_rows × on_proc_num_cols`, the halo block `local_rows × off_proc_num_cols` -/
def convBlk (B : Blk K) : Blk K :=
  { B with
    on := (csrToCoo (cooToCsr ⟨B.rowMap.length, B.onColMap.length, B.on⟩)).ents,
    off := (csrToCoo (cooToCsr ⟨B.rowMap.length, B.offColMap.length, B.off⟩)).ents }

theorem par_convBlk_image (bs : List (Blk K)) (hwf : ∀ B ∈ bs, Blk.WF B = true) (i j : Nat) :
    denE (image (bs.map convBlk)) i j = denE (image bs) i j := by
  refine image_map_blk convBlk bs (fun B hB => ?_) i j
  have h := hwf B hB
  unfold Blk.WF at h
  rw [Bool.and_eq_true] at h
  exact ⟨⟨rfl, rfl, rfl⟩, fun li lj => den_coo_csr_coo _ h.1 li lj,
    fun li lj => den_coo_csr_coo _ h.2 li lj⟩

/-- the full local pipeline (COO → CSR, `remove_duplicates` dropping nothing, `sort`, `move_diag`,
    back to COO) on every block -/
theorem par_assemble_image (nR nC : Nat) (bs : List (Blk K))
    (hwf : ∀ B ∈ bs, (⟨nR, nC, B.on⟩ : Coo K).WF = true ∧ (⟨nR, nC, B.off⟩ : Coo K).WF = true)
    (i j : Nat) :
    denE (image (mapBlocks (fun es => (csrToCoo
      (((cooToCsr ⟨nR, nC, es⟩).removeDuplicates (fun _ => false)).sort.moveDiag)).ents) bs)) i j
      = denE (image bs) i j := by
  refine image_mapBlocks_on (fun es => (csrToCoo
      (((cooToCsr ⟨nR, nC, es⟩).removeDuplicates (fun _ => false)).sort.moveDiag)).ents) bs
      (fun B hB => ⟨fun li lj => ?_, fun li lj => ?_⟩) i j
  · have := den_assemble (fun _ => false) ⟨nR, nC, B.on⟩ (hwf B hB).1 li lj
    simp only [Bool.false_eq_true, if_false] at this
    exact this
  · have := den_assemble (fun _ => false) ⟨nR, nC, B.off⟩ (hwf B hB).2 li lj
    simp only [Bool.false_eq_true, if_false] at this
    exact this

/-- COO `sort` on every block (dimensions irrelevant, no hypothesis) -/
theorem par_sort_image (nR nC : Nat) (bs : List (Blk K)) (i j : Nat) :
    denE (image (mapBlocks (fun es => (Coo.sort ⟨nR, nC, es⟩).ents) bs)) i j
      = denE (image bs) i j :=
  image_mapBlocks_perm _ (fun es => perm_sort_coo ⟨nR, nC, es⟩) bs i j

/-- COO `move_diag` on every block (no hypothesis) -/
theorem par_moveDiag_image (nR nC : Nat) (bs : List (Blk K)) (i j : Nat) :
    denE (image (mapBlocks (fun es => (Coo.moveDiag ⟨nR, nC, es⟩).ents) bs)) i j
      = denE (image bs) i j :=
  image_mapBlocks_perm _ (fun es => perm_moveDiag_coo ⟨nR, nC, es⟩) bs i j

/-- COO `remove_duplicates` on every block (not a permutation: entries are merged; no hypothesis) -/
theorem par_removeDuplicates_image (nR nC : Nat) (bs : List (Blk K)) (i j : Nat) :
    denE (image (mapBlocks (fun es => (Coo.removeDuplicates ⟨nR, nC, es⟩).ents) bs)) i j
      = denE (image bs) i j :=
  image_mapBlocks_den _ (fun es li lj => den_removeDuplicates_coo ⟨nR, nC, es⟩ li lj) bs i j

end Corollaries

/-! ## 4. block forms -/

section BlockForms
variable [AddCommMonoid K]

/-- expanding the block `(I, J)` of `es`: `es` restricted to the block -/
theorem denE_expandBlock_blockOf (br bc : Nat) (hbr : 0 < br) (hbc : 0 < bc)
    (es : List (Entry K)) (I J i j : Nat) :
    denE (expandBlock br bc (I, J, blockOf br bc es I J)) i j
      = if i / br = I ∧ j / bc = J then denE es i j else 0 := by
  rw [denE_expandBlock br bc hbc]
  simp only [inBlock_iff hbr, inBlock_iff hbc]

/-- expanding the blocks of `es` over an `nbr × nbc` grid of block positions: `es` restricted to
    `[0, nbr*br) × [0, nbc*bc)` -/
theorem denE_expand_allBlocks (br bc nbr nbc : Nat) (hbr : 0 < br) (hbc : 0 < bc)
    (es : List (Entry K)) (i j : Nat) :
    denE (expand br bc (allBlocks br bc nbr nbc es)) i j
      = if i < nbr * br ∧ j < nbc * bc then denE es i j else 0 := by
  unfold expand allBlocks
  rw [List.flatMap_assoc, denE_flatMap]
  have hinner : ∀ I ∈ List.range nbr,
      denE (((List.range nbc).map fun J => (I, J, blockOf br bc es I J)).flatMap
        (expandBlock br bc)) i j
      = if I = i / br then (if j / bc < nbc then denE es i j else 0) else 0 := by
    intro I _
    rw [denE_flatMap, List.map_map]
    have hJ : ∀ J ∈ List.range nbc,
        ((fun e => denE (expandBlock br bc e) i j) ∘ fun J => (I, J, blockOf br bc es I J)) J
        = if J = j / bc then (if I = i / br then denE es i j else 0) else 0 := by
      intro J _
      show denE (expandBlock br bc (I, J, blockOf br bc es I J)) i j = _
      rw [denE_expandBlock_blockOf br bc hbr hbc]
      by_cases h1 : J = j / bc
      · by_cases h2 : I = i / br
        · simp [h1, h2]
        · have : ¬ i / br = I := fun h => h2 h.symm
          simp [h1, h2, this]
      · have : ¬ j / bc = J := fun h => h1 h.symm
        simp [h1, this]
    rw [sum_map_congr _ _ _ hJ, sum_range_single nbc (j / bc) _ (fun t _ ht => if_neg ht)]
    by_cases h2 : I = i / br
    · simp [h2]
    · simp [h2]
  rw [sum_map_congr _ _ _ hinner, sum_range_single nbr (i / br) _ (fun t _ ht => if_neg ht)]
  have e1 : i < nbr * br ↔ i / br < nbr := (Nat.div_lt_iff_lt_mul hbr).symm
  have e2 : j < nbc * bc ↔ j / bc < nbc := (Nat.div_lt_iff_lt_mul hbc).symm
  simp only [e1, e2]
  by_cases h1 : i / br < nbr
  · by_cases h2 : j / bc < nbc
    · simp [h1, h2]
    · simp [h1, h2]
  · simp [h1]

/-- **`expand_blockOf`**: for entries inside `[0, nbr*br) × [0, nbc*bc)`, regrouping into
    `br × bc` blocks and expanding gives back the dense image -/
theorem denE_expand_blockOf (br bc nbr nbc : Nat) (hbr : 0 < br) (hbc : 0 < bc)
    (es : List (Entry K)) (hes : ∀ e ∈ es, e.1 < nbr * br ∧ e.2.1 < nbc * bc) (i j : Nat) :
    denE (expand br bc (allBlocks br bc nbr nbc es)) i j = denE es i j := by
  rw [denE_expand_allBlocks br bc nbr nbc hbr hbc]
  split
  · rfl
  · rename_i hn
    symm
    apply denE_eq_zero
    intro e he hc
    exact hn (hc.1 ▸ hc.2 ▸ hes e he)

end BlockForms

/-! ## 5. sums -/

section Sums
variable [AddCommMonoid K]

/-- distributed sum of two operands with the same maps: blocks concatenated rank by rank -/
theorem image_add {as bs : List (Blk K)} (h : List.Forall₂ SameMaps as bs) (i j : Nat) :
    denE (image (zipBlocks (· ++ ·) as bs)) i j = denE (image as) i j + denE (image bs) i j := by
  induction h with
  | nil => exact (add_zero _).symm
  | @cons A B as bs hAB _ ih =>
    show denE (image (({ A with on := A.on ++ B.on, off := A.off ++ B.off } : Blk K) ::
      zipBlocks (· ++ ·) as bs)) i j = _
    rw [denE_image_cons, denE_image_cons, denE_image_cons, denE_global_append A B hAB, ih,
      add_add_add_comm]

/-- one rank of the sum of two operands whose halo maps differ: the obligation the repaired
    `ParCSRMatrix::add` has to meet. `m` is the merged halo map, `ra`/`rb` renumber the halo
    positions of `A`/`B` into `m`. -/
theorem global_add_merged (m : List Nat) (ra rb : Nat → Nat) (A B : Blk K)
    (hrow : A.rowMap = B.rowMap) (hon : A.onColMap = B.onColMap)
    (hAoff : ∀ e ∈ A.off, e.2.1 < A.offColMap.length)
    (hBoff : ∀ e ∈ B.off, e.2.1 < B.offColMap.length)
    (hra : ∀ k, k < A.offColMap.length → m.getD (ra k) 0 = A.offColMap.getD k 0)
    (hrb : ∀ k, k < B.offColMap.length → m.getD (rb k) 0 = B.offColMap.getD k 0) (i j : Nat) :
    denE (mergeBlk m ra rb A B).global i j = denE A.global i j + denE B.global i j :=
  denE_global_mergeBlk m ra rb A B hrow hon (fun e he => hra _ (hAoff e he))
    (fun e he => hrb _ (hBoff e he)) i j

omit [AddCommMonoid K] in
/-- in fact the global entries of the result are those of `A` and of `B`, reordered -/
theorem global_add_merged_perm (m : List Nat) (ra rb : Nat → Nat) (A B : Blk K)
    (hrow : A.rowMap = B.rowMap) (hon : A.onColMap = B.onColMap)
    (ha : ∀ e ∈ A.off, m.getD (ra e.2.1) 0 = A.offColMap.getD e.2.1 0)
    (hb : ∀ e ∈ B.off, m.getD (rb e.2.1) 0 = B.offColMap.getD e.2.1 0) :
    (mergeBlk m ra rb A B).global.Perm (A.global ++ B.global) := by
  rw [Blk.global_eq, Blk.global_eq A, Blk.global_eq B, ← hrow, ← hon]
  simp only [mergeBlk, List.map_append]
  rw [map_colIdx_reIdx (fun k => A.rowMap.getD k 0) (fun k => m.getD k 0) ra
      (fun k => A.offColMap.getD k 0) A.off ha,
    map_colIdx_reIdx (fun k => A.rowMap.getD k 0) (fun k => m.getD k 0) rb
      (fun k => B.offColMap.getD k 0) B.off hb]
  -- (a ++ b) ++ (c ++ d) ~ (a ++ c) ++ (b ++ d)
  rw [List.append_assoc, List.append_assoc]
  refine List.Perm.append_left _ ?_
  rw [← List.append_assoc, ← List.append_assoc]
  exact List.Perm.append_right _ List.perm_append_comm

/-- data of the merge on one rank: merged halo map and the two renumberings -/
abbrev MergeData := List Nat × (Nat → Nat) × (Nat → Nat)

/-- the distributed sum with merged halo maps, rank by rank -/
def mergeBlocks (md : List MergeData) (as bs : List (Blk K)) : List (Blk K) :=
  List.zipWith3 (fun d A B => mergeBlk d.1 d.2.1 d.2.2 A B) md as bs

/-- the merge data of one rank fit its two operands -/
def MergeOK (d : MergeData) (A B : Blk K) : Prop :=
  A.rowMap = B.rowMap ∧ A.onColMap = B.onColMap ∧
  (∀ e ∈ A.off, e.2.1 < A.offColMap.length) ∧ (∀ e ∈ B.off, e.2.1 < B.offColMap.length) ∧
  (∀ k, k < A.offColMap.length → d.1.getD (d.2.1 k) 0 = A.offColMap.getD k 0) ∧
  (∀ k, k < B.offColMap.length → d.1.getD (d.2.2 k) 0 = B.offColMap.getD k 0)

/-- distributed sum of two operands with different halo maps -/
theorem image_add_merged (md : List MergeData) (as bs : List (Blk K))
    (hla : as.length = md.length) (hlb : bs.length = md.length)
    (h : ∀ k (h0 : k < md.length) (h1 : k < as.length) (h2 : k < bs.length),
      MergeOK md[k] as[k] bs[k]) (i j : Nat) :
    denE (image (mergeBlocks md as bs)) i j = denE (image as) i j + denE (image bs) i j := by
  induction md generalizing as bs with
  | nil =>
    rw [List.length_nil, List.length_eq_zero_iff] at hla hlb
    subst hla hlb
    exact (add_zero _).symm
  | cons d md ih =>
    cases as with
    | nil => simp at hla
    | cons A as =>
      cases bs with
      | nil => simp at hlb
      | cons B bs =>
        simp only [List.length_cons, Nat.add_right_cancel_iff] at hla hlb
        have h0 := h 0 (Nat.zero_lt_succ _) (Nat.zero_lt_succ _) (Nat.zero_lt_succ _)
        obtain ⟨h1, h2, h3, h4, h5, h6⟩ := h0
        have ih' := ih as bs hla hlb (fun k k0 k1 k2 =>
          h (k + 1) (Nat.succ_lt_succ k0) (Nat.succ_lt_succ k1) (Nat.succ_lt_succ k2))
        show denE (image (mergeBlk d.1 d.2.1 d.2.2 A B :: mergeBlocks md as bs)) i j = _
        rw [denE_image_cons, denE_image_cons, denE_image_cons,
          global_add_merged d.1 d.2.1 d.2.2 A B h1 h2 h3 h4 h5 h6, ih', add_add_add_comm]

end Sums

/-! ## 6. concrete checks over `Int` (kernel evaluation of the executable model) -/

section Examples

/-- dense `n × m` table of an entry list -/
def table (n m : Nat) (es : List (Entry Int)) : List (List Int) :=
  (List.range n).map fun i => (List.range m).map fun j => denE es i j

/-- a 4×4 matrix on two ranks (rows 0-1 and 2-3), halo columns `[2]` on rank 0 and `[0, 1]` on
    rank 1 -/
def exRanks : List (Blk Int) :=
  [ { rowMap := [0, 1], onColMap := [0, 1], offColMap := [2],
      on := [(0, 0, 2), (0, 1, -1), (1, 0, -1), (1, 1, 2)], off := [(1, 0, -1)] },
    { rowMap := [2, 3], onColMap := [2, 3], offColMap := [0, 1],
      on := [(0, 0, 2), (0, 1, -1), (1, 0, -1), (1, 1, 2)], off := [(0, 1, -1), (1, 0, 5)] } ]

example : image exRanks =
    [(0, 0, 2), (0, 1, -1), (1, 0, -1), (1, 1, 2), (1, 2, -1),
     (2, 2, 2), (2, 3, -1), (3, 2, -1), (3, 3, 2), (2, 1, -1), (3, 0, 5)] := by decide

example : table 4 4 (image exRanks) =
    [[2, -1, 0, 0], [-1, 2, -1, 0], [0, -1, 2, -1], [5, 0, -1, 2]] := by decide

/-- blockwise reordering: another entry list, the same matrix -/
example : image (mapBlocks List.reverse exRanks) =
    [(1, 1, 2), (1, 0, -1), (0, 1, -1), (0, 0, 2), (1, 2, -1),
     (3, 3, 2), (3, 2, -1), (2, 3, -1), (2, 2, 2), (3, 0, 5), (2, 1, -1)] := by decide

example : table 4 4 (image (mapBlocks List.reverse exRanks)) = table 4 4 (image exRanks) := by
  decide

/-- blockwise COO → CSR → COO with the local dimensions 2 × 2 -/
example : table 4 4 (image (mapBlocks (fun es => (csrToCoo (cooToCsr ⟨2, 2, es⟩)).ents) exRanks))
    = table 4 4 (image exRanks) := by decide

/-- the hypotheses of `par_conv_image` and `par_convBlk_image` hold on the example -/
example : exRanks.all (fun B => (⟨2, 2, B.on⟩ : Coo Int).WF && (⟨2, 2, B.off⟩ : Coo Int).WF)
    = true := by decide
example : exRanks.all Blk.WF = true := by decide

/-- `expand 2 2` of one block at block position `(1, 0)` -/
example : expand 2 2 [(1, 0, ([1, 2, 3, 4] : List Int))]
    = [(2, 0, 1), (2, 1, 2), (3, 0, 3), (3, 1, 4)] := by decide

/-- the block `(1, 0)` of the example matrix, and regrouping + expansion of the whole matrix -/
example : blockOf 2 2 (image exRanks) 1 0 = [0, -1, 5, 0] := by decide
example : table 4 4 (expand 2 2 (allBlocks 2 2 2 2 (image exRanks))) = table 4 4 (image exRanks) := by
  decide

/-- sum of the example with an operand that has other halo maps (`[3, 2]` on rank 0, `[1]` on
    rank 1), through the merged maps `[2, 3]` and `[0, 1]` -/
def exRanksB : List (Blk Int) :=
  [ { rowMap := [0, 1], onColMap := [0, 1], offColMap := [3, 2],
      on := [(0, 0, 10)], off := [(0, 0, 7), (1, 1, 1)] },
    { rowMap := [2, 3], onColMap := [2, 3], offColMap := [1],
      on := [], off := [(0, 0, 1)] } ]

def exMerge : List MergeData :=
  [ ([2, 3], (fun k => [0].getD k 0), (fun k => [1, 0].getD k 0)),
    ([0, 1], (fun k => [0, 1].getD k 0), (fun k => [1].getD k 0)) ]

example : table 4 4 (image (mergeBlocks exMerge exRanks exRanksB)) =
    [[12, -1, 0, 7], [-1, 2, 0, 0], [0, 0, 2, -1], [5, 0, -1, 2]] := by decide

example : table 4 4 (image (mergeBlocks exMerge exRanks exRanksB)) =
    List.zipWith (List.zipWith (· + ·)) (table 4 4 (image exRanks)) (table 4 4 (image exRanksB)) := by
  decide

/-- the generic theorems apply to the executable model at `Int` with the instances of core Lean
    (they are the ones Mathlib's `AddCommMonoid Int` provides) -/
example (bs' bs : List (Blk Int))
    (h : List.Forall₂ (@BlkEquiv Int Int.instAdd Zero.ofOfNat0) bs' bs) (i j : Nat) :
    @denE Int Int.instAdd Zero.ofOfNat0 (image bs') i j
      = @denE Int Int.instAdd Zero.ofOfNat0 (image bs) i j :=
  image_congr h i j

example (es : List (Entry Int)) (hes : ∀ e ∈ es, e.1 < 2 * 2 ∧ e.2.1 < 2 * 2) (i j : Nat) :
    @denE Int Int.instAdd Zero.ofOfNat0
      (@expand Int Zero.ofOfNat0 2 2 (@allBlocks Int Int.instAdd Zero.ofOfNat0 2 2 2 2 es)) i j
      = @denE Int Int.instAdd Zero.ofOfNat0 es i j :=
  denE_expand_blockOf 2 2 2 2 (by decide) (by decide) es hes i j

end Examples

/- OPEN (not proved): none. Remarks for the audit:
   * `image_congr` needs neither injectivity of the maps nor a range condition on the local
     indices: `denE_map_rowIdx` writes the global dense image as a finite sum of local ones;
   * `image_mapBlocks_den` does not need "`f` creates no index" (a consequence of the above);
   * `denE_map_global` needs `Nodup` of both maps and the local indices in range;
     `denE_map_global_zero` only the range condition;
   * `par_conv_image`, `par_conv_csc_image`, `par_assemble_image`, `par_convBlk_image` need the
     blocks to be well formed for the dimensions used (`cooToCsr` drops out-of-range rows, see
     `C07.cooToCsr_drops_out_of_range`); `par_sort_image`, `par_moveDiag_image`,
     `par_removeDuplicates_image` need nothing;
   * `denE_expand_blockOf` needs `0 < br`, `0 < bc` and the entries inside the grid;
     `denE_expand_allBlocks` says what happens without the last condition (entries outside the
     grid are lost);
   * `image_add` needs the same maps on both operands (`Forall₂ SameMaps`), `image_add_merged` /
     `global_add_merged` the same row and on-process maps and merged halo maps with
     `m[ra k] = A.offColMap[k]`, `m[rb k] = B.offColMap[k]` on the halo positions that occur. -/

end Raptor.C07Par
