import RaptorModel.Lemmas.RelaxLemmas
import Mathlib.Algebra.Field.Rat
import Mathlib.Tactic.NormNum
/-!
# C11 — one relaxation sweep is the textbook update, hence a solution is a fixed point

Theorems about the very functions of `RaptorModel/Model/Relax.lean` over an arbitrary field `K`
(the `Add/Sub/Mul/Div/Zero/One` instances the model takes are the ones of Mathlib's `Field`), for
every matrix size, every weight `ω` (in particular all of `(0,2)`) and every number of sweeps.

* `subDot`/`addDot` are `init ∓ Σ a·x[col]`;
* `sorRow` writes the textbook SOR value in entry `i` and nothing else; if the row equation holds it
  returns `x` itself (`sorRow_fixed`), for every `ω`;
* `sorForward`, `sorBackward`, `sor`, `ssor` return `x` when `A x = b` (`RowEqs`);
* `jacobiSweep` computes `(1-ω) x_i + ω (b_i − Σ_{col≠i} a x_col)/diag`, and returns `x` when
  `A x = b` (`JacEqs`), whatever `big` says;
* the full forward/backward sweeps satisfy the Gauss–Seidel/SOR recurrence (already updated
  entries enter with their NEW value, the others with the OLD one): `sorForward_spec`,
  `sorBackward_spec`;
* the distributed per-rank sweeps with a frozen halo: `hybridRow_get`, `hybrid*_fixed`,
  `hybridForward_spec`, `hybridBackward_spec`;
* all sweeps preserve the length of `x`. The right-hand side `b` is an input only.

Helper lemmas are in `RaptorModel/Lemmas/RelaxLemmas.lean`.
-/
namespace Raptor.C11
open Raptor.Relax

variable {K : Type} [Field K]

/-! ## 1. dot products -/

theorem subDot_eq (row : List (Nat × K)) (x : List K) (init : K) :
    subDot row x init = init - (row.map fun e => e.2 * at' x e.1).sum :=
  Relax.subDot_eq row x init

theorem addDot_eq (row : List (Nat × K)) (x : List K) (init : K) :
    addDot row x init = init + (row.map fun e => e.2 * at' x e.1).sum :=
  Relax.addDot_eq row x init

/-- `rowResidual` is `b_i − Σ_on a x − Σ_off a dist` -/
theorem rowResidual_eq (onRow offRow : List (Nat × K)) (b x dist : List K) (i : Nat) :
    rowResidual onRow offRow b x dist i
      = at' b i - ((onRow.map fun e => e.2 * at' x e.1).sum
          + (offRow.map fun e => e.2 * at' dist e.1).sum) := by
  simp only [rowResidual, Relax.addDot_eq, zero_add]

/-! ## 2. one SOR row -/

/-- the new entry `i` is the textbook SOR value -/
theorem sorRow_get (i : Nat) (d : K) (rest : List (Nat × K)) (b : List K) (ω : K) (x : List K)
    (hi : i < x.length) :
    (sorRow ((i, d) :: rest) b ω x i).getD i 0
      = (ω / d) * (at' b i - (rest.map fun e => e.2 * at' x e.1).sum) + (1 - ω) * at' x i :=
  sorRow_at'_self (i, d) rest b ω x i hi

theorem sorRow_length (row : List (Nat × K)) (b : List K) (ω : K) (x : List K) (i : Nat) :
    (sorRow row b ω x i).length = x.length :=
  Relax.sorRow_length row b ω x i

/-- no other entry is touched (any row, any `i`) -/
theorem sorRow_get_ne (row : List (Nat × K)) (b : List K) (ω : K) (x : List K) (i k : Nat)
    (hk : k ≠ i) : (sorRow row b ω x i).getD k 0 = x.getD k 0 :=
  sorRow_at'_ne row b ω x i k hk

/-! ## 3. a row whose equation holds is left unchanged, for every `ω` -/

theorem sorRow_fixed (i : Nat) (d : K) (rest : List (Nat × K)) (b : List K) (ω : K) (x : List K)
    (hd : d ≠ 0) (hi : i < x.length)
    (heq : d * at' x i + (rest.map fun e => e.2 * at' x e.1).sum = at' b i) :
    sorRow ((i, d) :: rest) b ω x i = x := by
  simp only [sorRow]
  rw [Relax.subDot_eq, sor_alg ω d _ _ _ hd heq, set_at'_self x i hi]

/-! ## 4. sweeps: `A x = b` is a fixed point -/

/-- `A x = b` for a matrix stored with a non-zero diagonal first in every row -/
def RowEqs (rows : List (List (Nat × K))) (b x : List K) : Prop :=
  rows.length ≤ x.length ∧ ∀ i (hi : i < rows.length), ∃ d rest, rows[i] = (i, d) :: rest ∧ d ≠ 0 ∧
    d * at' x i + (rest.map fun e => e.2 * at' x e.1).sum = at' b i

theorem sorStep_fixed {rows : List (List (Nat × K))} {b x : List K} (h : RowEqs rows b x) (ω : K)
    (ri : List (Nat × K) × Nat) (hmem : ri ∈ rows.zipIdx) : sorRow ri.1 b ω x ri.2 = x := by
  obtain ⟨row, i⟩ := ri
  obtain ⟨hi, hrow⟩ := List.mem_zipIdx' hmem
  obtain ⟨d, rest, hr, hd, heq⟩ := h.2 i hi
  simp only
  rw [hrow, hr]
  exact sorRow_fixed i d rest b ω x hd (Nat.lt_of_lt_of_le hi h.1) heq

theorem sorForward_fixed {rows : List (List (Nat × K))} {b x : List K} (h : RowEqs rows b x)
    (ω : K) : sorForward rows b ω x = x :=
  foldl_fixed _ _ _ fun ri hmem => sorStep_fixed h ω ri hmem

theorem sorBackward_fixed {rows : List (List (Nat × K))} {b x : List K} (h : RowEqs rows b x)
    (ω : K) : sorBackward rows b ω x = x :=
  foldl_fixed _ _ _ fun ri hmem => sorStep_fixed h ω ri (List.mem_reverse.1 hmem)

theorem sor_fixed {rows : List (List (Nat × K))} {b x : List K} (h : RowEqs rows b x)
    (ω : K) (n : Nat) : sor rows b ω n x = x :=
  iter_fixed _ _ (sorForward_fixed h ω) n

theorem ssor_fixed {rows : List (List (Nat × K))} {b x : List K} (h : RowEqs rows b x)
    (ω : K) (n : Nat) : ssor rows b ω n x = x :=
  iter_fixed _ _ (by simp only [sorForward_fixed h ω, sorBackward_fixed h ω]) n

/-! ## 5. Jacobi -/

/-- the diagonal the code finds: the value of the last stored entry with column `i` (0 if none) -/
def diagOf (row : List (Nat × K)) (i : Nat) : K :=
  (((row.filter fun e => e.1 == i).getLast?).map Prod.snd).getD 0

/-- `Σ_{col ≠ i} a · x[col]` over the stored entries of the row -/
def offSum (row : List (Nat × K)) (x : List K) (i : Nat) : K :=
  ((row.filter fun e => e.1 != i).map fun e => e.2 * at' x e.1).sum

omit [Field K] in
theorem foldl_last (l : List (Nat × K)) (init : K) :
    l.foldl (fun _ e => e.2) init = ((l.getLast?).map Prod.snd).getD init := by
  induction l generalizing init with
  | nil => rfl
  | cons a l ih =>
    rw [List.foldl_cons, ih]
    cases l with
    | nil => rfl
    | cons c l =>
      rw [List.getLast?_cons_cons]
      cases h : (c :: l).getLast? with
      | none => simp at h
      | some v => rfl

theorem jacobiSweep_length (big : K → Bool) (rows : List (List (Nat × K))) (b x : List K) (ω : K) :
    (jacobiSweep big rows b x ω).length = rows.length := by
  simp [jacobiSweep]

/-- entry `i` of a Jacobi sweep, any row -/
theorem jacobiSweep_at' (big : K → Bool) (rows : List (List (Nat × K))) (b x : List K) (ω : K)
    (i : Nat) (hi : i < rows.length) :
    at' (jacobiSweep big rows b x ω) i
      = if rows[i].isEmpty then at' x i
        else if big (diagOf rows[i] i)
          then (1 - ω) * at' x i + ω * ((at' b i - offSum rows[i] x i) / diagOf rows[i] i)
          else at' x i := by
  rw [at'_eq_getElem _ _ (by rw [jacobiSweep_length]; exact hi)]
  simp only [jacobiSweep, List.getElem_map, List.getElem_zipIdx, Relax.addDot_eq,
    zero_add, foldl_last, diagOf, offSum]
  rfl

/-- the new entry of a non-empty row whose diagonal passes the `zero_tol` test -/
theorem jacobiSweep_get (big : K → Bool) (rows : List (List (Nat × K))) (b x : List K) (ω : K)
    (i : Nat) (hi : i < rows.length) (hne : rows[i] ≠ []) (hbig : big (diagOf rows[i] i) = true) :
    (jacobiSweep big rows b x ω).getD i 0
      = (1 - ω) * at' x i + ω * ((at' b i - offSum rows[i] x i) / diagOf rows[i] i) := by
  have := jacobiSweep_at' big rows b x ω i hi
  rw [at'] at this
  rw [this, if_neg (by simpa using hne), if_pos hbig]

/-- **the definition, with the guard the property allows** (`d ≠ 0`, the instance the driver uses since fix 237c789): every
    row with a stored nonzero diagonal gets the weighted Jacobi update — no absolute cut-off -/
theorem jacobiSweep_definition [DecidableEq K] (rows : List (List (Nat × K))) (b x : List K) (ω : K)
    (i : Nat) (hi : i < rows.length) (hne : rows[i] ≠ []) (hd : diagOf rows[i] i ≠ 0) :
    (jacobiSweep (fun d => decide (d ≠ 0)) rows b x ω).getD i 0
      = (1 - ω) * at' x i + ω * ((at' b i - offSum rows[i] x i) / diagOf rows[i] i) :=
  jacobiSweep_get _ rows b x ω i hi hne (by simpa using hd)

/-- a row that is empty or whose diagonal fails the test keeps its entry -/
theorem jacobiSweep_get_skip (big : K → Bool) (rows : List (List (Nat × K))) (b x : List K) (ω : K)
    (i : Nat) (hi : i < rows.length) (h : rows[i] = [] ∨ big (diagOf rows[i] i) = false) :
    (jacobiSweep big rows b x ω).getD i 0 = at' x i := by
  have := jacobiSweep_at' big rows b x ω i hi
  rw [at'] at this
  rw [this]
  rcases h with h | h
  · rw [if_pos (by simp [h])]
  · split
    · rfl
    · rw [if_neg (by simp [h])]

/-- with exactly one stored entry in column `i` the diagonal found is that entry -/
theorem diagOf_unique (row : List (Nat × K)) (i : Nat) (d : K)
    (h : (row.filter fun e => e.1 == i) = [(i, d)]) : diagOf row i = d := by
  simp [diagOf, h]

/-- `A x = b` for Jacobi: square, every row has exactly one stored entry in column `i`, non-zero -/
def JacEqs (rows : List (List (Nat × K))) (b x : List K) : Prop :=
  rows.length = x.length ∧ ∀ i (hi : i < rows.length), ∃ d,
    (rows[i].filter fun e => e.1 == i) = [(i, d)] ∧ d ≠ 0 ∧ d * at' x i + offSum rows[i] x i = at' b i

theorem jacobiSweep_fixed (big : K → Bool) {rows : List (List (Nat × K))} {b x : List K}
    (h : JacEqs rows b x) (ω : K) : jacobiSweep big rows b x ω = x := by
  apply ext_at' _ _ (by rw [jacobiSweep_length, h.1])
  intro i hi
  have hi' : i < rows.length := by rw [h.1]; exact hi
  obtain ⟨d, hf, hd, heq⟩ := h.2 i hi'
  rw [jacobiSweep_at' big rows b x ω i hi', diagOf_unique _ _ _ hf, jac_alg ω d _ _ _ hd heq]
  simp only [ite_self]

theorem jacobi_fixed (big : K → Bool) {rows : List (List (Nat × K))} {b x : List K}
    (h : JacEqs rows b x) (ω : K) (n : Nat) : jacobi big rows b ω n x = x :=
  iter_fixed _ _ (jacobiSweep_fixed big h ω) n

/-! ## 6. the Gauss–Seidel / SOR recurrence of a full sweep -/

/-- Forward sweep, row `i` (only this row's shape matters; `d` may even be 0 — the formula is the
one the code evaluates): columns already visited (`< i`) enter with their NEW value, all others
with the OLD one. -/
theorem sorForward_spec_row (rows : List (List (Nat × K))) (b : List K) (ω : K) (x : List K)
    (i : Nat) (hi : i < rows.length) (hx : i < x.length) (e0 : Nat × K) (rest : List (Nat × K))
    (hrow : rows[i] = e0 :: rest) :
    at' (sorForward rows b ω x) i
      = (ω / e0.2) * (at' b i - (rest.map fun e => e.2 *
          (if e.1 < i then at' (sorForward rows b ω x) e.1 else at' x e.1)).sum)
        + (1 - ω) * at' x i := by
  -- state before row `i`
  obtain ⟨xi, hxi⟩ : ∃ xi, xi = (rows.take i).zipIdx.foldl (fun x ri => sorRow ri.1 b ω x ri.2) x :=
    ⟨_, rfl⟩
  have key : sorForward rows b ω x
      = ((rows.drop (i + 1)).zipIdx (i + 1)).foldl (fun x ri => sorRow ri.1 b ω x ri.2)
          (sorRow rows[i] b ω xi i) := by
    rw [hxi, sorForward, zipIdx_split rows i hi, List.foldl_append, List.foldl_cons]
  -- the entries `≥ i` have not been touched before row `i`
  have hold : ∀ j, i ≤ j → at' xi j = at' x j := fun j hj => by
    rw [hxi]
    exact foldl_sorRow_at'_of_not_mem _ _ _ _ _ fun ri h =>
      Nat.ne_of_lt (Nat.lt_of_lt_of_le (zipIdx_take_snd_lt _ _ _ h) hj)
  -- the entries `≤ i` are not touched after row `i`
  have hnew : ∀ j, j ≤ i → at' (sorForward rows b ω x) j = at' (sorRow rows[i] b ω xi i) j :=
    fun j hj => by
      rw [key]
      exact foldl_sorRow_at'_of_not_mem _ _ _ _ _ fun ri h =>
        Nat.ne_of_gt (Nat.lt_of_le_of_lt hj (zipIdx_drop_snd_gt _ _ _ h))
  have hlen : i < xi.length := by rw [hxi, foldl_sorRow_length]; exact hx
  rw [hnew i (Nat.le_refl i), hrow, sorRow_at'_self _ _ _ _ _ _ hlen, hold i (Nat.le_refl i)]
  congr 4
  apply List.map_congr_left
  intro e _
  split
  · next hlt =>
    rw [hnew e.1 (Nat.le_of_lt hlt), sorRow_at'_ne _ _ _ _ _ _ (Nat.ne_of_lt hlt)]
  · next hge => rw [hold e.1 (Nat.le_of_not_lt hge)]

/-- Backward sweep, row `i`: columns already visited (`> i`) enter with their NEW value. -/
theorem sorBackward_spec_row (rows : List (List (Nat × K))) (b : List K) (ω : K) (x : List K)
    (i : Nat) (hi : i < rows.length) (hx : i < x.length) (e0 : Nat × K) (rest : List (Nat × K))
    (hrow : rows[i] = e0 :: rest) :
    at' (sorBackward rows b ω x) i
      = (ω / e0.2) * (at' b i - (rest.map fun e => e.2 *
          (if e.1 > i then at' (sorBackward rows b ω x) e.1 else at' x e.1)).sum)
        + (1 - ω) * at' x i := by
  obtain ⟨xi, hxi⟩ : ∃ xi, xi = ((rows.drop (i + 1)).zipIdx (i + 1)).reverse.foldl
      (fun x ri => sorRow ri.1 b ω x ri.2) x := ⟨_, rfl⟩
  have key : sorBackward rows b ω x
      = (rows.take i).zipIdx.reverse.foldl (fun x ri => sorRow ri.1 b ω x ri.2)
          (sorRow rows[i] b ω xi i) := by
    rw [hxi, sorBackward, zipIdx_split rows i hi, List.reverse_append, List.reverse_cons,
      List.append_assoc, List.foldl_append, List.singleton_append, List.foldl_cons]
  have hold : ∀ j, j ≤ i → at' xi j = at' x j := fun j hj => by
    rw [hxi]
    exact foldl_sorRow_at'_of_not_mem _ _ _ _ _ fun ri h =>
      Nat.ne_of_gt (Nat.lt_of_le_of_lt hj (zipIdx_drop_snd_gt _ _ _ (List.mem_reverse.1 h)))
  have hnew : ∀ j, i ≤ j → at' (sorBackward rows b ω x) j = at' (sorRow rows[i] b ω xi i) j :=
    fun j hj => by
      rw [key]
      exact foldl_sorRow_at'_of_not_mem _ _ _ _ _ fun ri h =>
        Nat.ne_of_lt (Nat.lt_of_lt_of_le (zipIdx_take_snd_lt _ _ _ (List.mem_reverse.1 h)) hj)
  have hlen : i < xi.length := by rw [hxi, foldl_sorRow_length]; exact hx
  rw [hnew i (Nat.le_refl i), hrow, sorRow_at'_self _ _ _ _ _ _ hlen, hold i (Nat.le_refl i)]
  congr 4
  apply List.map_congr_left
  intro e _
  split
  · next hgt =>
    rw [hnew e.1 (Nat.le_of_lt hgt), sorRow_at'_ne _ _ _ _ _ _ (Nat.ne_of_gt hgt)]
  · next hle => rw [hold e.1 (Nat.le_of_not_lt hle)]

/-- the shape `RowEqs` asks for, without the equations: diagonal first and non-zero, the other
stored columns different from `i` and inside `x` -/
def DiagFirst (rows : List (List (Nat × K))) (n : Nat) : Prop :=
  ∀ i (hi : i < rows.length), ∃ d rest, rows[i] = (i, d) :: rest ∧ d ≠ 0 ∧
    ∀ e ∈ rest, e.1 ≠ i ∧ e.1 < n

/-- textbook SOR, forward: `x'_i = (ω/d_i)(b_i − Σ_{j<i} a_ij x'_j − Σ_{j>i} a_ij x_j) + (1−ω) x_i` -/
theorem sorForward_spec (rows : List (List (Nat × K))) (b : List K) (ω : K) (x : List K)
    (hlen : rows.length ≤ x.length) (hshape : DiagFirst rows x.length)
    (i : Nat) (hi : i < rows.length) :
    ∃ d rest, rows[i] = (i, d) :: rest ∧ d ≠ 0 ∧
      at' (sorForward rows b ω x) i
        = (ω / d) * (at' b i - (rest.map fun e => e.2 *
            (if e.1 < i then at' (sorForward rows b ω x) e.1 else at' x e.1)).sum)
          + (1 - ω) * at' x i := by
  obtain ⟨d, rest, hrow, hd, _⟩ := hshape i hi
  exact ⟨d, rest, hrow, hd,
    sorForward_spec_row rows b ω x i hi (Nat.lt_of_lt_of_le hi hlen) (i, d) rest hrow⟩

/-- textbook SOR, backward: `x'_i = (ω/d_i)(b_i − Σ_{j>i} a_ij x'_j − Σ_{j<i} a_ij x_j) + (1−ω) x_i` -/
theorem sorBackward_spec (rows : List (List (Nat × K))) (b : List K) (ω : K) (x : List K)
    (hlen : rows.length ≤ x.length) (hshape : DiagFirst rows x.length)
    (i : Nat) (hi : i < rows.length) :
    ∃ d rest, rows[i] = (i, d) :: rest ∧ d ≠ 0 ∧
      at' (sorBackward rows b ω x) i
        = (ω / d) * (at' b i - (rest.map fun e => e.2 *
            (if e.1 > i then at' (sorBackward rows b ω x) e.1 else at' x e.1)).sum)
          + (1 - ω) * at' x i := by
  obtain ⟨d, rest, hrow, hd, _⟩ := hshape i hi
  exact ⟨d, rest, hrow, hd,
    sorBackward_spec_row rows b ω x i hi (Nat.lt_of_lt_of_le hi hlen) (i, d) rest hrow⟩

/-- Converse of `sorForward_fixed` for `ω ≠ 0`: a forward sweep that returns `x` certifies
`A x = b`. So the fixed points of the sweep are exactly the solutions. -/
theorem sorForward_fixed_iff (rows : List (List (Nat × K))) (b : List K) (ω : K) (x : List K)
    (hω : ω ≠ 0) (hlen : rows.length ≤ x.length) (hshape : DiagFirst rows x.length) :
    sorForward rows b ω x = x ↔ RowEqs rows b x := by
  refine ⟨fun h => ⟨hlen, fun i hi => ?_⟩, fun h => sorForward_fixed h ω⟩
  obtain ⟨d, rest, hrow, hd, _⟩ := hshape i hi
  have hs := sorForward_spec_row rows b ω x i hi (Nat.lt_of_lt_of_le hi hlen) (i, d) rest hrow
  rw [h] at hs
  simp only [ite_self] at hs
  exact ⟨d, rest, hrow, hd, sor_alg_conv ω d _ _ _ hω hd hs⟩

/-- entries beyond the rows are never touched -/
theorem sorForward_get_ge (rows : List (List (Nat × K))) (b : List K) (ω : K) (x : List K)
    (j : Nat) (hj : rows.length ≤ j) : at' (sorForward rows b ω x) j = at' x j :=
  foldl_sorRow_at'_of_not_mem _ _ _ _ _ fun ri h =>
    Nat.ne_of_lt (Nat.lt_of_lt_of_le (List.mem_zipIdx' (x := ri.1) (i := ri.2) h).1 hj)

theorem sorBackward_get_ge (rows : List (List (Nat × K))) (b : List K) (ω : K) (x : List K)
    (j : Nat) (hj : rows.length ≤ j) : at' (sorBackward rows b ω x) j = at' x j :=
  foldl_sorRow_at'_of_not_mem _ _ _ _ _ fun ri h =>
    Nat.ne_of_lt (Nat.lt_of_lt_of_le
      (List.mem_zipIdx' (x := ri.1) (i := ri.2) (List.mem_reverse.1 h)).1 hj)

/-! ## 7. distributed sweeps of one rank, halo `dist` frozen -/

/-- the textbook row update with the off-process unknowns taken from the halo -/
theorem hybridRow_get (i : Nat) (d : K) (rest offRow : List (Nat × K)) (b dist : List K) (ω : K)
    (x : List K) (hi : i < x.length) :
    (hybridRow ((i, d) :: rest) offRow b dist ω x i).getD i 0
      = (1 - ω) * at' x i + ω * ((at' b i - ((rest.map fun e => e.2 * at' x e.1).sum
          + (offRow.map fun e => e.2 * at' dist e.1).sum)) / d) :=
  hybridRow_at'_self d rest offRow b dist ω x i hi

theorem hybridRow_length (onRow offRow : List (Nat × K)) (b dist : List K) (ω : K) (x : List K)
    (i : Nat) : (hybridRow onRow offRow b dist ω x i).length = x.length :=
  Relax.hybridRow_length onRow offRow b dist ω x i

theorem hybridRow_get_ne (onRow offRow : List (Nat × K)) (b dist : List K) (ω : K) (x : List K)
    (i k : Nat) (hk : k ≠ i) : (hybridRow onRow offRow b dist ω x i).getD k 0 = x.getD k 0 :=
  hybridRow_at'_ne onRow offRow b dist ω x i k hk

theorem hybridRow_fixed (i : Nat) (d : K) (rest offRow : List (Nat × K)) (b dist : List K) (ω : K)
    (x : List K) (hd : d ≠ 0) (hi : i < x.length)
    (heq : d * at' x i + (rest.map fun e => e.2 * at' x e.1).sum
        + (offRow.map fun e => e.2 * at' dist e.1).sum = at' b i) :
    hybridRow ((i, d) :: rest) offRow b dist ω x i = x := by
  simp only [hybridRow, bne_self_eq_false, Bool.false_eq_true, if_false]
  rw [Relax.addDot_eq, Relax.addDot_eq, zero_add,
    jac_alg ω d _ _ _ hd (by rw [← heq]; ring), set_at'_self x i hi]

/-- the global equations of the local rows, off-process unknowns taken from the halo -/
def HybridEqs (on off : List (List (Nat × K))) (b dist x : List K) : Prop :=
  on.length = off.length ∧ on.length ≤ x.length ∧
  ∀ i (hi : i < on.length) (hi' : i < off.length), ∃ d rest, on[i] = (i, d) :: rest ∧ d ≠ 0 ∧
    d * at' x i + (rest.map fun e => e.2 * at' x e.1).sum
      + (off[i].map fun e => e.2 * at' dist e.1).sum = at' b i

theorem hybridStep_fixed {on off : List (List (Nat × K))} {b dist x : List K}
    (h : HybridEqs on off b dist x) (ω : K) (ri : (List (Nat × K) × List (Nat × K)) × Nat)
    (hmem : ri ∈ (on.zip off).zipIdx) : hybridRow ri.1.1 ri.1.2 b dist ω x ri.2 = x := by
  obtain ⟨⟨ron, roff⟩, i⟩ := ri
  obtain ⟨hi, hrow⟩ := List.mem_zipIdx' hmem
  rw [List.length_zip] at hi
  have hi1 : i < on.length := Nat.lt_of_lt_of_le hi (Nat.min_le_left _ _)
  have hi2 : i < off.length := Nat.lt_of_lt_of_le hi (Nat.min_le_right _ _)
  rw [List.getElem_zip, Prod.mk.injEq] at hrow
  obtain ⟨d, rest, hr, hd, heq⟩ := h.2.2 i hi1 hi2
  have h1 : ron = on[i]'hi1 := hrow.1
  have h2 : roff = off[i]'hi2 := hrow.2
  simp only
  rw [h1, h2, hr]
  exact hybridRow_fixed i d rest _ b dist ω x hd (Nat.lt_of_lt_of_le hi1 h.2.1) heq

theorem hybridForward_fixed {on off : List (List (Nat × K))} {b dist x : List K}
    (h : HybridEqs on off b dist x) (ω : K) : hybridForward on off b dist ω x = x :=
  foldl_fixed _ _ _ fun ri hmem => hybridStep_fixed h ω ri hmem

theorem hybridBackward_fixed {on off : List (List (Nat × K))} {b dist x : List K}
    (h : HybridEqs on off b dist x) (ω : K) : hybridBackward on off b dist ω x = x :=
  foldl_fixed _ _ _ fun ri hmem => hybridStep_fixed h ω ri (List.mem_reverse.1 hmem)

theorem hybridJacobi_length (big : K → Bool) (on off : List (List (Nat × K))) (b dist : List K)
    (ω : K) (x : List K) :
    (hybridJacobi big on off b dist ω x).length = min on.length off.length := by
  simp [hybridJacobi]

/-- entry `i` of a distributed Jacobi sweep for a row with its diagonal first -/
theorem hybridJacobi_get (big : K → Bool) (on off : List (List (Nat × K))) (b dist : List K)
    (ω : K) (x : List K) (i : Nat) (hi : i < on.length) (hi' : i < off.length)
    (e0 : Nat × K) (rest : List (Nat × K)) (hrow : on[i] = e0 :: rest) :
    (hybridJacobi big on off b dist ω x).getD i 0
      = if big e0.2 then (1 - ω) * at' x i + ω * ((at' b i
            - ((rest.map fun e => e.2 * at' x e.1).sum
              + (off[i].map fun e => e.2 * at' dist e.1).sum)) / e0.2)
        else at' x i := by
  have hl : i < (hybridJacobi big on off b dist ω x).length := by
    rw [hybridJacobi_length]; exact Nat.lt_min.2 ⟨hi, hi'⟩
  have : (hybridJacobi big on off b dist ω x).getD i 0
      = at' (hybridJacobi big on off b dist ω x) i := rfl
  rw [this, at'_eq_getElem _ _ hl]
  simp only [hybridJacobi, List.getElem_map, List.getElem_zipIdx, List.getElem_zip,
    hrow, Relax.addDot_eq, zero_add]

theorem hybridJacobi_fixed (big : K → Bool) {on off : List (List (Nat × K))} {b dist x : List K}
    (h : HybridEqs on off b dist x) (hsq : on.length = x.length) (ω : K) :
    hybridJacobi big on off b dist ω x = x := by
  apply ext_at' _ _ (by rw [hybridJacobi_length, ← h.1, Nat.min_self, hsq])
  intro i hi
  have hi1 : i < on.length := by rw [hsq]; exact hi
  have hi2 : i < off.length := by rw [← h.1]; exact hi1
  obtain ⟨d, rest, hr, hd, heq⟩ := h.2.2 i hi1 hi2
  have := hybridJacobi_get big on off b dist ω x i hi1 hi2 (i, d) rest hr
  rw [at', this, jac_alg ω d _ _ _ hd (by rw [← heq]; ring)]
  simp only [ite_self]

/-- Distributed forward sweep, local row `i`: local columns already visited enter with their NEW
value, the other local columns with the OLD one, halo columns with the frozen `dist`. -/
theorem hybridForward_spec (on off : List (List (Nat × K))) (b dist : List K) (ω : K) (x : List K)
    (i : Nat) (hi : i < on.length) (hi' : i < off.length) (hx : i < x.length) (d : K)
    (rest : List (Nat × K)) (hrow : on[i] = (i, d) :: rest) :
    at' (hybridForward on off b dist ω x) i
      = (1 - ω) * at' x i + ω * ((at' b i - ((rest.map fun e => e.2 *
          (if e.1 < i then at' (hybridForward on off b dist ω x) e.1 else at' x e.1)).sum
          + (off[i].map fun e => e.2 * at' dist e.1).sum)) / d) := by
  have hiz : i < (on.zip off).length := by rw [List.length_zip]; exact Nat.lt_min.2 ⟨hi, hi'⟩
  obtain ⟨xi, hxi⟩ : ∃ xi, xi = ((on.zip off).take i).zipIdx.foldl
      (fun x ri => hybridRow ri.1.1 ri.1.2 b dist ω x ri.2) x := ⟨_, rfl⟩
  have key : hybridForward on off b dist ω x
      = (((on.zip off).drop (i + 1)).zipIdx (i + 1)).foldl
          (fun x ri => hybridRow ri.1.1 ri.1.2 b dist ω x ri.2)
          (hybridRow on[i] off[i] b dist ω xi i) := by
    rw [hxi, hybridForward, zipIdx_split (on.zip off) i hiz, List.foldl_append, List.foldl_cons,
      List.getElem_zip]
  have hold : ∀ j, i ≤ j → at' xi j = at' x j := fun j hj => by
    rw [hxi]
    exact foldl_hybridRow_at'_of_not_mem _ _ _ _ _ _ fun ri h =>
      Nat.ne_of_lt (Nat.lt_of_lt_of_le (zipIdx_take_snd_lt _ _ _ h) hj)
  have hnew : ∀ j, j ≤ i →
      at' (hybridForward on off b dist ω x) j = at' (hybridRow on[i] off[i] b dist ω xi i) j :=
    fun j hj => by
      rw [key]
      exact foldl_hybridRow_at'_of_not_mem _ _ _ _ _ _ fun ri h =>
        Nat.ne_of_gt (Nat.lt_of_le_of_lt hj (zipIdx_drop_snd_gt _ _ _ h))
  have hlen : i < xi.length := by rw [hxi, foldl_hybridRow_length]; exact hx
  rw [hnew i (Nat.le_refl i), hrow, hybridRow_at'_self _ _ _ _ _ _ _ _ hlen, hold i (Nat.le_refl i)]
  congr 6
  apply List.map_congr_left
  intro e _
  split
  · next hlt =>
    rw [hnew e.1 (Nat.le_of_lt hlt), hybridRow_at'_ne _ _ _ _ _ _ _ _ (Nat.ne_of_lt hlt)]
  · next hge => rw [hold e.1 (Nat.le_of_not_lt hge)]

/-- Distributed backward sweep, local row `i`. -/
theorem hybridBackward_spec (on off : List (List (Nat × K))) (b dist : List K) (ω : K) (x : List K)
    (i : Nat) (hi : i < on.length) (hi' : i < off.length) (hx : i < x.length) (d : K)
    (rest : List (Nat × K)) (hrow : on[i] = (i, d) :: rest) :
    at' (hybridBackward on off b dist ω x) i
      = (1 - ω) * at' x i + ω * ((at' b i - ((rest.map fun e => e.2 *
          (if e.1 > i then at' (hybridBackward on off b dist ω x) e.1 else at' x e.1)).sum
          + (off[i].map fun e => e.2 * at' dist e.1).sum)) / d) := by
  have hiz : i < (on.zip off).length := by rw [List.length_zip]; exact Nat.lt_min.2 ⟨hi, hi'⟩
  obtain ⟨xi, hxi⟩ : ∃ xi, xi = (((on.zip off).drop (i + 1)).zipIdx (i + 1)).reverse.foldl
      (fun x ri => hybridRow ri.1.1 ri.1.2 b dist ω x ri.2) x := ⟨_, rfl⟩
  have key : hybridBackward on off b dist ω x
      = ((on.zip off).take i).zipIdx.reverse.foldl
          (fun x ri => hybridRow ri.1.1 ri.1.2 b dist ω x ri.2)
          (hybridRow on[i] off[i] b dist ω xi i) := by
    rw [hxi, hybridBackward, zipIdx_split (on.zip off) i hiz, List.reverse_append,
      List.reverse_cons, List.append_assoc, List.foldl_append, List.singleton_append,
      List.foldl_cons, List.getElem_zip]
  have hold : ∀ j, j ≤ i → at' xi j = at' x j := fun j hj => by
    rw [hxi]
    exact foldl_hybridRow_at'_of_not_mem _ _ _ _ _ _ fun ri h =>
      Nat.ne_of_gt (Nat.lt_of_le_of_lt hj (zipIdx_drop_snd_gt _ _ _ (List.mem_reverse.1 h)))
  have hnew : ∀ j, i ≤ j →
      at' (hybridBackward on off b dist ω x) j = at' (hybridRow on[i] off[i] b dist ω xi i) j :=
    fun j hj => by
      rw [key]
      exact foldl_hybridRow_at'_of_not_mem _ _ _ _ _ _ fun ri h =>
        Nat.ne_of_lt (Nat.lt_of_lt_of_le (zipIdx_take_snd_lt _ _ _ (List.mem_reverse.1 h)) hj)
  have hlen : i < xi.length := by rw [hxi, foldl_hybridRow_length]; exact hx
  rw [hnew i (Nat.le_refl i), hrow, hybridRow_at'_self _ _ _ _ _ _ _ _ hlen, hold i (Nat.le_refl i)]
  congr 6
  apply List.map_congr_left
  intro e _
  split
  · next hgt =>
    rw [hnew e.1 (Nat.le_of_lt hgt), hybridRow_at'_ne _ _ _ _ _ _ _ _ (Nat.ne_of_gt hgt)]
  · next hle => rw [hold e.1 (Nat.le_of_not_lt hle)]

/-! ## 8. lengths (the sweeps are total functions of `(rows, b, ω, x)` that keep the size) -/

theorem sorForward_length (rows : List (List (Nat × K))) (b : List K) (ω : K) (x : List K) :
    (sorForward rows b ω x).length = x.length :=
  foldl_sorRow_length _ b ω x

theorem sorBackward_length (rows : List (List (Nat × K))) (b : List K) (ω : K) (x : List K) :
    (sorBackward rows b ω x).length = x.length :=
  foldl_sorRow_length _ b ω x

theorem hybridForward_length (on off : List (List (Nat × K))) (b dist : List K) (ω : K)
    (x : List K) : (hybridForward on off b dist ω x).length = x.length :=
  foldl_hybridRow_length _ b dist ω x

theorem hybridBackward_length (on off : List (List (Nat × K))) (b dist : List K) (ω : K)
    (x : List K) : (hybridBackward on off b dist ω x).length = x.length :=
  foldl_hybridRow_length _ b dist ω x

/-! ## 9. a concrete non-symmetric 3×3 system over `ℚ`, `ω = 1/2`

```
        ⎡ 4  1  2 ⎤        ⎡ 1 ⎤        ⎡ 12 ⎤
    A = ⎢ 1  5  1 ⎥    x = ⎢ 2 ⎥    b = ⎢ 14 ⎥
        ⎣ 2 -1  6 ⎦        ⎣ 3 ⎦        ⎣ 18 ⎦
```
-/
section Example

/-- diagonal first in every row -/
def exRows : List (List (Nat × Rat)) :=
  [[(0, 4), (1, 1), (2, 2)], [(1, 5), (0, 1), (2, 1)], [(2, 6), (0, 2), (1, -1)]]
def exB : List Rat := [12, 14, 18]
def exX : List Rat := [1, 2, 3]

/-- the hypotheses of the fixed-point theorems hold at the exact solution -/
theorem exRowEqs : RowEqs exRows exB exX := by
  refine ⟨by decide, ?_⟩
  intro i hi
  have : i = 0 ∨ i = 1 ∨ i = 2 := by simp [exRows] at hi; omega
  rcases this with rfl | rfl | rfl
  · exact ⟨4, [(1, 1), (2, 2)], rfl, by norm_num, by norm_num [at', exX, exB]⟩
  · exact ⟨5, [(0, 1), (2, 1)], rfl, by norm_num, by norm_num [at', exX, exB]⟩
  · exact ⟨6, [(0, 2), (1, -1)], rfl, by norm_num, by norm_num [at', exX, exB]⟩

example : sorForward exRows exB (1/2) exX = exX := sorForward_fixed exRowEqs (1/2)
example : sorBackward exRows exB (1/2) exX = exX := sorBackward_fixed exRowEqs (1/2)
example : sor exRows exB (1/2) 7 exX = exX := sor_fixed exRowEqs (1/2) 7
example : ssor exRows exB (1/2) 7 exX = exX := ssor_fixed exRowEqs (1/2) 7
/-- also outside `(0,2)` -/
example : ssor exRows exB (-3) 2 exX = exX := ssor_fixed exRowEqs (-3) 2

/-- direct evaluation agrees with the theorem -/
example : sorForward exRows exB (1/2) exX = exX := by
  norm_num [sorForward, sorRow, subDot, at', exRows, exB, exX, List.zipIdx]

/-- from another start the sweep does move: `x' = (3/2, 5/4, 65/48)` -/
theorem exSweep : sorForward exRows exB (1/2) [0, 0, 0] = [3/2, 5/4, 65/48] := by
  norm_num [sorForward, sorRow, subDot, at', exRows, exB, List.zipIdx]

example : sorForward exRows exB (1/2) [0, 0, 0] ≠ [0, 0, 0] := by
  rw [exSweep]; norm_num

/-- the values of `exSweep` are the textbook recurrence: new `x'_0` in row 1, new `x'_0, x'_1` in
row 2 -/
example : ((1:Rat)/2/4) * (12 - (1*0 + 2*0)) + (1 - 1/2) * 0 = 3/2
    ∧ ((1:Rat)/2/5) * (14 - (1*(3/2) + 1*0)) + (1 - 1/2) * 0 = 5/4
    ∧ ((1:Rat)/2/6) * (18 - (2*(3/2) + (-1)*(5/4))) + (1 - 1/2) * 0 = 65/48 := by
  norm_num

theorem exJacEqs : JacEqs exRows exB exX := by
  refine ⟨by decide, ?_⟩
  intro i hi
  have : i = 0 ∨ i = 1 ∨ i = 2 := by simp [exRows] at hi; omega
  rcases this with rfl | rfl | rfl
  · exact ⟨4, rfl, by norm_num, by norm_num [offSum, at', exRows, exX, exB]⟩
  · exact ⟨5, rfl, by norm_num, by norm_num [offSum, at', exRows, exX, exB]⟩
  · exact ⟨6, rfl, by norm_num, by norm_num [offSum, at', exRows, exX, exB]⟩

example (big : Rat → Bool) : jacobi big exRows exB (1/2) 5 exX = exX :=
  jacobi_fixed big exJacEqs (1/2) 5

example : jacobiSweep (fun _ => true) exRows exB [0, 0, 0] (1/2) = [3/2, 7/5, 3/2] := by
  norm_num [jacobiSweep, addDot, at', exRows, exB, List.zipIdx]
  exact ⟨List.cons_ne_nil _ _, List.cons_ne_nil _ _, List.cons_ne_nil _ _⟩

/-- the same system on a rank that owns rows/columns 0,1; column 2 lives in the halo `[3]` -/
def exOn : List (List (Nat × Rat)) := [[(0, 4), (1, 1)], [(1, 5), (0, 1)]]
def exOff : List (List (Nat × Rat)) := [[(0, 2)], [(0, 1)]]

theorem exHybridEqs : HybridEqs exOn exOff [12, 14] [3] [1, 2] := by
  refine ⟨by decide, by decide, ?_⟩
  intro i hi hi'
  have : i = 0 ∨ i = 1 := by simp [exOn] at hi; omega
  rcases this with rfl | rfl
  · exact ⟨4, [(1, 1)], rfl, by norm_num, by norm_num [at', exOff]⟩
  · exact ⟨5, [(0, 1)], rfl, by norm_num, by norm_num [at', exOff]⟩

example : hybridForward exOn exOff [12, 14] [3] (1/2) [1, 2] = [1, 2] :=
  hybridForward_fixed exHybridEqs (1/2)
example : hybridBackward exOn exOff [12, 14] [3] (1/2) [1, 2] = [1, 2] :=
  hybridBackward_fixed exHybridEqs (1/2)
example (big : Rat → Bool) : hybridJacobi big exOn exOff [12, 14] [3] (1/2) [1, 2] = [1, 2] :=
  hybridJacobi_fixed big exHybridEqs rfl (1/2)
/-- a stale halo (`0` instead of `3`) moves the iterate -/
example : hybridForward exOn exOff [12, 14] [0] (1/2) [1, 2] = [7/4, 89/40] := by
  norm_num [hybridForward, hybridRow, addDot, at', exOn, exOff, List.zipIdx]

end Example

end Raptor.C11

/- OPEN (not proved): none — every target of C11 (1–8) is proved above in full generality;
   no `_partial` versions were needed. -/
