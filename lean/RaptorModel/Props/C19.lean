import RaptorModel.Lemmas.StencilLemmas
/-!
# C19 — stencil matrices on a regular grid, PETSc byte order and file offsets

Property theorems about `Model/Stencil.lean` (`coords`, `index`, `numPoints`, `stencilPos`, `entry`,
`matrix`) for grids of ANY dimension and ANY extents, plus the pure arithmetic behind the PETSc
binary reader (big-endian byte swap, per-rank file offsets).

Vocabulary from `Lemmas/StencilLemmas.lean`:
* `InRange grid c`      — `c` is a coordinate vector of the grid (`Forall₂ (· < ·) c grid`);
  indexed form `inRange_iff_getD`;
* `strides grid`        — `stride_k = Π_{j>k} grid[j]`; `dotInt s o = Σ_k s_k * o_k` over `Int`;
* `addOff c o`          — componentwise integer sum `c + o`; `AddInRange grid c o` — it is in range;
* `Unit3 o`             — every entry of `o` is in `{-1,0,1}`;
* `offset grid p q`     — `coords q − coords p` as integers (exactly the list `entry` computes).
-/
namespace Raptor.C19
open Raptor.Stencil

/-! ## 1. coordinates have the right shape -/

theorem coords_length (grid : List Nat) (p : Nat) : (coords grid p).length = grid.length :=
  Stencil.coords_length grid p

/-- For a valid point every coordinate is below its extent. (`p < numPoints grid` already forces
    all extents to be positive, see `extents_pos`.) -/
theorem coords_lt (grid : List Nat) (p : Nat) (hp : p < numPoints grid) :
    ∀ k, k < grid.length → (coords grid p).getD k 0 < grid.getD k 0 :=
  ((inRange_iff_getD grid _).1 (coords_inRange grid p hp)).2

/-- the same with the panicking accessor `[k]!` -/
theorem coords_lt' (grid : List Nat) (p : Nat) (hp : p < numPoints grid) :
    ∀ k, k < grid.length → (coords grid p)[k]! < grid[k]! := by
  intro k hk
  have h := coords_lt grid p hp k hk
  have hk' : k < (coords grid p).length := by rw [Stencil.coords_length]; exact hk
  simpa [List.getD_eq_getElem?_getD, hk, hk'] using h

theorem extents_pos (grid : List Nat) (p : Nat) (hp : p < numPoints grid) : ∀ g ∈ grid, 0 < g :=
  pos_of_numPoints_pos grid (Nat.lt_of_le_of_lt (Nat.zero_le _) hp)

theorem numPoints_eq_prod (grid : List Nat) : numPoints grid = grid.prod :=
  Stencil.numPoints_eq_prod grid

/-! ## 2. the numbering is a bijection between points and coordinate vectors -/

theorem index_coords (grid : List Nat) (p : Nat) (hp : p < numPoints grid) :
    index grid (coords grid p) = p :=
  Stencil.index_coords grid p hp

theorem coords_index (grid c : List Nat) (hl : c.length = grid.length)
    (hc : ∀ k, k < grid.length → c.getD k 0 < grid.getD k 0) :
    coords grid (index grid c) = c ∧ index grid c < numPoints grid :=
  have h : InRange grid c := (inRange_iff_getD grid c).2 ⟨hl, hc⟩
  ⟨Stencil.coords_index grid c h, index_lt grid c h⟩

/-- `coords` is injective on valid points -/
theorem coords_injective (grid : List Nat) (p q : Nat) (hp : p < numPoints grid)
    (hq : q < numPoints grid) (h : coords grid p = coords grid q) : p = q := by
  rw [← index_coords grid p hp, ← index_coords grid q hq, h]

/-! ## 3. diagonal offset = coordinate offset, exactly when the neighbour is inside the grid -/

/-- If `c` and `c + o` are both coordinate vectors of the grid, the neighbour's index is the
    point's index plus `Σ_k stride_k * o_k` — the diagonal on which the C++ generator puts the
    weight of offset `o`. -/
theorem index_add_offset (grid c : List Nat) (o : List Int) (hc : InRange grid c)
    (ho : o.length = grid.length) (hco : AddInRange grid c o) :
    (index grid ((addOff c o).map Int.toNat) : Int) = index grid c + dotInt (strides grid) o :=
  index_add_offset_gen grid c o hc.length_eq ho (forall₂_nonneg _ _ hco)

/-- ... and that neighbour is a valid point whose coordinate offset from `c` is `o`. -/
theorem index_add_offset_valid (grid c : List Nat) (o : List Int) (hc : InRange grid c)
    (ho : o.length = grid.length) (hco : AddInRange grid c o) :
    index grid ((addOff c o).map Int.toNat) < numPoints grid ∧
      offset grid (index grid c) (index grid ((addOff c o).map Int.toNat)) = o :=
  ⟨index_lt grid _ (forall₂_toNat_inRange _ _ hco), offset_index_add grid c o hc ho hco⟩

/-- The weight the model couples `c` and its in-grid neighbour `c + o` with is the stencil weight
    of `o`. -/
theorem entry_index_add_offset {K : Type} (grid c : List Nat) (o : List Int) (stencil : List K)
    (hc : InRange grid c) (ho : o.length = grid.length) (hco : AddInRange grid c o)
    (hu : Unit3 o) :
    entry grid stencil (index grid c) (index grid ((addOff c o).map Int.toNat)) =
      stencil[stencilPos o]? := by
  have h := offset_index_add grid c o hc ho hco
  rw [entry_of_unit3 grid stencil _ _ (by rw [h]; exact hu), h]

/-- "Only then": if `coords p + o` leaves the grid, NO grid point `q` (in particular not the point
    on the diagonal `p + Σ stride_k * o_k`) has coordinate offset `o` from `p`. -/
theorem offset_ne_of_not_addInRange (grid : List Nat) (p q : Nat) (o : List Int)
    (hq : q < numPoints grid) (hout : ¬ AddInRange grid (coords grid p) o) :
    offset grid p q ≠ o :=
  fun h => hout (addInRange_of_offset_eq grid p q o hq h)

/-! ## 4. positions in the stencil array are base-3 numerals -/

theorem stencilPos_lt (o : List Int) (ho : ∀ x ∈ o, -1 ≤ x ∧ x ≤ 1) :
    stencilPos o < 3 ^ o.length :=
  Stencil.stencilPos_lt o ho

theorem stencilPos_injective (o₁ o₂ : List Int) (hl : o₁.length = o₂.length)
    (h₁ : ∀ x ∈ o₁, -1 ≤ x ∧ x ≤ 1) (h₂ : ∀ x ∈ o₂, -1 ≤ x ∧ x ≤ 1)
    (h : stencilPos o₁ = stencilPos o₂) : o₁ = o₂ :=
  Stencil.stencilPos_injective o₁ o₂ hl h₁ h₂ h

/-! ## 5. `entry` -/

theorem entry_some_iff {K : Type} (grid : List Nat) (stencil : List K) (p q : Nat) (w : K) :
    entry grid stencil p q = some w ↔
      (∀ x ∈ offset grid p q, -1 ≤ x ∧ x ≤ 1) ∧
        stencil[stencilPos (offset grid p q)]? = some w := by
  by_cases h : Unit3 (offset grid p q)
  · rw [entry_of_unit3 grid stencil p q h]
    exact ⟨fun hw => ⟨h, hw⟩, fun hw => hw.2⟩
  · rw [entry_of_not_unit3 grid stencil p q h]
    exact ⟨fun hw => (by cases hw), fun hw => absurd hw.1 h⟩

/-- `offset` is literally the list `entry` computes -/
theorem offset_def (grid : List Nat) (p q : Nat) :
    offset grid p q =
      ((coords grid p).zip (coords grid q)).map fun c => (c.2 : Int) - (c.1 : Int) := rfl

/-- The diagonal entry is the centre weight. (True for every `p`; the hypothesis `p < numPoints grid`
    of the task statement is not needed.) -/
theorem entry_self {K : Type} (grid : List Nat) (stencil : List K) (p : Nat) :
    entry grid stencil p p = stencil[(3 ^ grid.length - 1) / 2]? := by
  have h := offset_self grid p
  rw [entry_of_unit3 grid stencil p p (by rw [h]; exact unit3_replicate_zero _), h,
    stencilPos_zero]

/-! ## 6. a symmetric stencil generates a symmetric matrix -/

/-- (True for all `p q`; membership in the grid is not needed.) -/
theorem entry_symmetric {K : Type} (grid : List Nat) (stencil : List K)
    (hsym : ∀ o : List Int, o.length = grid.length → (∀ x ∈ o, -1 ≤ x ∧ x ≤ 1) →
      stencil[stencilPos o]? = stencil[stencilPos (o.map Neg.neg)]?)
    (p q : Nat) : entry grid stencil p q = entry grid stencil q p := by
  by_cases h : Unit3 (offset grid p q)
  · have h' : Unit3 (offset grid q p) := by rw [offset_swap]; exact unit3_neg h
    rw [entry_of_unit3 grid stencil p q h, entry_of_unit3 grid stencil q p h', offset_swap grid p q]
    exact hsym _ (offset_length grid p q) h
  · have h' : ¬ Unit3 (offset grid q p) := by
      intro h'
      apply h
      have := unit3_neg h'
      rw [offset_swap grid p q] at this
      simpa [List.map_map, Function.comp_def] using this
    rw [entry_of_not_unit3 grid stencil p q h, entry_of_not_unit3 grid stencil q p h']

/-! ## 7. the list of matrix entries -/

theorem matrix_mem_iff {K : Type} (zero : K → Bool) (grid : List Nat) (stencil : List K)
    (p q : Nat) (w : K) :
    (p, q, w) ∈ matrix zero grid stencil ↔
      p < numPoints grid ∧ q < numPoints grid ∧ entry grid stencil p q = some w ∧
        zero w = false :=
  Stencil.matrix_mem_iff zero grid stencil p q w

/-- the symmetric-stencil matrix is symmetric as a set of triples -/
theorem matrix_symmetric {K : Type} (zero : K → Bool) (grid : List Nat) (stencil : List K)
    (hsym : ∀ o : List Int, o.length = grid.length → (∀ x ∈ o, -1 ≤ x ∧ x ≤ 1) →
      stencil[stencilPos o]? = stencil[stencilPos (o.map Neg.neg)]?)
    (p q : Nat) (w : K) :
    (p, q, w) ∈ matrix zero grid stencil ↔ (q, p, w) ∈ matrix zero grid stencil := by
  rw [matrix_mem_iff, matrix_mem_iff, entry_symmetric grid stencil hsym p q]
  constructor <;> exact fun ⟨a, b, c⟩ => ⟨b, a, c⟩

/-! ## 8. byte order (PETSc files are big-endian) -/

/-- reverse the four bytes of a 32-bit word -/
def byteswap32 (x : BitVec 32) : BitVec 32 :=
  x.extractLsb' 0 8 ++ x.extractLsb' 8 8 ++ x.extractLsb' 16 8 ++ x.extractLsb' 24 8

/-- reverse the eight bytes of a 64-bit word -/
def byteswap64 (x : BitVec 64) : BitVec 64 :=
  x.extractLsb' 0 8 ++ x.extractLsb' 8 8 ++ x.extractLsb' 16 8 ++ x.extractLsb' 24 8 ++
    x.extractLsb' 32 8 ++ x.extractLsb' 40 8 ++ x.extractLsb' 48 8 ++ x.extractLsb' 56 8

/-- bit `i` of the swapped word is bit `i % 8` of byte `3 - i / 8` -/
theorem getLsbD_byteswap32 (x : BitVec 32) (i : Nat) (hi : i < 32) :
    (byteswap32 x).getLsbD i = x.getLsbD (8 * (3 - i / 8) + i % 8) := by
  unfold byteswap32
  simp only [BitVec.getLsbD_append, BitVec.getLsbD_extractLsb']
  have h1 : i < 8 ∨ (8 ≤ i ∧ i < 16) ∨ (16 ≤ i ∧ i < 24) ∨ (24 ≤ i) := by omega
  rcases h1 with h | h | h | h <;>
    simp (disch := omega) only [if_pos, if_neg, decide_eq_true, Bool.true_and] <;>
    congr 1 <;> omega

theorem byteswap32_byteswap32 (x : BitVec 32) : byteswap32 (byteswap32 x) = x := by
  apply BitVec.eq_of_getLsbD_eq
  intro i hi
  rw [getLsbD_byteswap32 _ _ hi, getLsbD_byteswap32 _ _ (by omega)]
  congr 1
  omega

theorem getLsbD_byteswap64 (x : BitVec 64) (i : Nat) (hi : i < 64) :
    (byteswap64 x).getLsbD i = x.getLsbD (8 * (7 - i / 8) + i % 8) := by
  unfold byteswap64
  simp only [BitVec.getLsbD_append, BitVec.getLsbD_extractLsb']
  have h1 : i < 8 ∨ (8 ≤ i ∧ i < 16) ∨ (16 ≤ i ∧ i < 24) ∨ (24 ≤ i ∧ i < 32) ∨
      (32 ≤ i ∧ i < 40) ∨ (40 ≤ i ∧ i < 48) ∨ (48 ≤ i ∧ i < 56) ∨ (56 ≤ i) := by omega
  rcases h1 with h | h | h | h | h | h | h | h <;>
    simp (disch := omega) only [if_pos, if_neg, decide_eq_true, Bool.true_and] <;>
    congr 1 <;> omega

theorem byteswap64_byteswap64 (x : BitVec 64) : byteswap64 (byteswap64 x) = x := by
  apply BitVec.eq_of_getLsbD_eq
  intro i hi
  rw [getLsbD_byteswap64 _ _ hi, getLsbD_byteswap64 _ _ (by omega)]
  congr 1
  omega

/-- big-endian reading of a byte string (first byte most significant) -/
def readBE (b : List (BitVec 8)) : Nat := b.foldl (fun acc x => acc * 256 + x.toNat) 0
/-- little-endian reading of a byte string (first byte least significant) -/
def readLE (b : List (BitVec 8)) : Nat := b.foldr (fun x acc => x.toNat + 256 * acc) 0

/-- reversing the bytes exchanges the big- and little-endian readings (any length) -/
theorem readBE_reverse (b : List (BitVec 8)) : readBE b.reverse = readLE b := by
  unfold readBE readLE
  rw [List.foldl_reverse]
  congr 1
  funext x acc
  omega

theorem readLE_reverse (b : List (BitVec 8)) : readLE b.reverse = readBE b := by
  rw [← readBE_reverse, List.reverse_reverse]

/-- the four bytes of a word as they lie in the memory of a little-endian machine -/
def bytesLE32 (x : BitVec 32) : List (BitVec 8) :=
  [x.extractLsb' 0 8, x.extractLsb' 8 8, x.extractLsb' 16 8, x.extractLsb' 24 8]

def bytesLE64 (x : BitVec 64) : List (BitVec 8) :=
  [x.extractLsb' 0 8, x.extractLsb' 8 8, x.extractLsb' 16 8, x.extractLsb' 24 8,
   x.extractLsb' 32 8, x.extractLsb' 40 8, x.extractLsb' 48 8, x.extractLsb' 56 8]

theorem readLE_bytesLE32 (x : BitVec 32) : readLE (bytesLE32 x) = x.toNat := by
  simp only [readLE, bytesLE32, List.foldr_cons, List.foldr_nil, BitVec.extractLsb'_toNat,
    Nat.shiftRight_eq_div_pow]
  have := x.isLt
  omega

theorem readLE_bytesLE64 (x : BitVec 64) : readLE (bytesLE64 x) = x.toNat := by
  simp only [readLE, bytesLE64, List.foldr_cons, List.foldr_nil, BitVec.extractLsb'_toNat,
    Nat.shiftRight_eq_div_pow]
  have := x.isLt
  omega

theorem bytesLE32_byteswap32 (x : BitVec 32) :
    bytesLE32 (byteswap32 x) = (bytesLE32 x).reverse := by
  simp only [bytesLE32, List.reverse_cons, List.reverse_nil, List.nil_append, List.cons_append,
    List.cons.injEq, and_true]
  refine ⟨?_, ?_, ?_, ?_⟩ <;>
  · apply BitVec.eq_of_getLsbD_eq
    intro i hi
    simp only [BitVec.getLsbD_extractLsb', hi, decide_true, Bool.true_and]
    rw [getLsbD_byteswap32 _ _ (by omega)]
    congr 1
    omega

theorem bytesLE64_byteswap64 (x : BitVec 64) :
    bytesLE64 (byteswap64 x) = (bytesLE64 x).reverse := by
  simp only [bytesLE64, List.reverse_cons, List.reverse_nil, List.nil_append, List.cons_append,
    List.cons.injEq, and_true]
  refine ⟨?_, ?_, ?_, ?_, ?_, ?_, ?_, ?_⟩ <;>
  · apply BitVec.eq_of_getLsbD_eq
    intro i hi
    simp only [BitVec.getLsbD_extractLsb', hi, decide_true, Bool.true_and]
    rw [getLsbD_byteswap64 _ _ (by omega)]
    congr 1
    omega

/-- A word read raw from a big-endian file on a little-endian machine, then byte-swapped, has the
    value the file encodes (the big-endian reading of the bytes as they lie in memory). -/
theorem byteswap32_toNat (x : BitVec 32) : (byteswap32 x).toNat = readBE (bytesLE32 x) := by
  rw [← readLE_bytesLE32, bytesLE32_byteswap32, readLE_reverse]

theorem byteswap64_toNat (x : BitVec 64) : (byteswap64 x).toNat = readBE (bytesLE64 x) := by
  rw [← readLE_bytesLE64, bytesLE64_byteswap64, readLE_reverse]

/-! ## 9. PETSc binary file offsets

Layout: 4 header ints (classid, n_rows, n_cols, nnz), `n` row lengths (4 bytes each), `total`
column indices (4 bytes each), `total` values (8 bytes each). -/

def rowLenOff (firstRow : Nat) : Nat := (4 + firstRow) * 4
def colOff (n firstNnz : Nat) : Nat := (4 + n + firstNnz) * 4
def valOff (n total firstNnz : Nat) : Nat := (4 + n + total) * 4 + firstNnz * 8

/-- prefix sums: what rank `r` skips -/
def prefixSum (f : Nat → Nat) : Nat → Nat
  | 0 => 0
  | r + 1 => prefixSum f r + f r

theorem rowLenOff_zero : rowLenOff 0 = 16 := rfl

theorem rowLenOff_succ (rows : Nat → Nat) (r : Nat) :
    rowLenOff (prefixSum rows (r + 1)) = rowLenOff (prefixSum rows r) + 4 * rows r := by
  simp only [rowLenOff, prefixSum]; omega

theorem rowLen_end_eq_col_begin (n : Nat) : rowLenOff n = colOff n 0 := by
  simp only [rowLenOff, colOff]; omega

theorem colOff_succ (n : Nat) (nnz : Nat → Nat) (r : Nat) :
    colOff n (prefixSum nnz (r + 1)) = colOff n (prefixSum nnz r) + 4 * nnz r := by
  simp only [colOff, prefixSum]; omega

theorem col_end_eq_val_begin (n total : Nat) : colOff n total = valOff n total 0 := by
  simp only [colOff, valOff]; omega

theorem valOff_succ (n total : Nat) (nnz : Nat → Nat) (r : Nat) :
    valOff n total (prefixSum nnz (r + 1)) = valOff n total (prefixSum nnz r) + 8 * nnz r := by
  simp only [valOff, prefixSum]; omega

/-- the file ends where the last rank's values end -/
theorem valOff_end (n total : Nat) : valOff n total total = 16 + 4 * n + 12 * total := by
  simp only [valOff]; omega

/-- with `P` ranks whose rows sum to `n` and whose nonzeros sum to `total`, the last rank's ranges
    end exactly at the section boundaries -/
theorem sections_tile (P n total : Nat) (rows nnz : Nat → Nat)
    (hn : prefixSum rows P = n) (ht : prefixSum nnz P = total) :
    rowLenOff (prefixSum rows P) = colOff n 0 ∧
      colOff n (prefixSum nnz P) = valOff n total 0 ∧
        valOff n total (prefixSum nnz P) = 16 + 4 * n + 12 * total := by
  rw [hn, ht]
  exact ⟨rowLen_end_eq_col_begin n, col_end_eq_val_begin n total, valOff_end n total⟩

/-! ## examples: 2×3 grid, 9-point stencil `[1,…,9]` (position `3*(dy+1) + (dx+1)`)

```
points:   0 1 2
          3 4 5
```
-/

example : coords [2, 3] 4 = [1, 1] := by decide
example : index [2, 3] [1, 2] = 5 := by decide
example : strides [2, 3] = [3, 1] := by decide
/-- interior coupling: 1 = (0,1) and 4 = (1,1): offset (+1, 0), weight number 7 -/
example : entry [2, 3] [1, 2, 3, 4, 5, 6, 7, 8, 9] 1 4 = some (8 : Int) := by decide
/-- 0 = (0,0) and 1 = (0,1): offset (0,+1), weight number 5 -/
example : entry [2, 3] [1, 2, 3, 4, 5, 6, 7, 8, 9] 0 1 = some (6 : Int) := by decide
/-- diagonal neighbour 1 = (0,1), 3 = (1,0): offset (+1,-1), weight number 6 -/
example : entry [2, 3] [1, 2, 3, 4, 5, 6, 7, 8, 9] 1 3 = some (7 : Int) := by decide
/-- the diagonal entry is the centre weight -/
example : entry [2, 3] [1, 2, 3, 4, 5, 6, 7, 8, 9] 2 2 = some (5 : Int) := by decide
/-- the offset `(0,+1)` sits on the diagonal `q - p = 1` ... -/
example : dotInt (strides [2, 3]) [0, 1] = 1 := by decide
/-- ... but p = 2 (end of row 0) and q = 3 (start of row 1) are NOT coupled although q − p = 1:
    their coordinate offset is (+1, −2). -/
example : entry [2, 3] [1, 2, 3, 4, 5, 6, 7, 8, 9] 2 3 = (none : Option Int) := by decide
example : offset [2, 3] 2 3 = [1, -2] := by decide
/-- likewise 3 → 2 (offset (0,−1) would be diagonal −1) -/
example : entry [2, 3] [1, 2, 3, 4, 5, 6, 7, 8, 9] 3 2 = (none : Option Int) := by decide
/-- far-apart points are not coupled -/
example : entry [2, 3] [1, 2, 3, 4, 5, 6, 7, 8, 9] 0 5 = (none : Option Int) := by decide
/-- the 5-point Laplacian on the 2×3 grid has 6 + 2*7 = 20 nonzeros (zero weights skipped) -/
example : (matrix (fun w : Int => w == 0) [2, 3] [0, -1, 0, -1, 4, -1, 0, -1, 0]).length = 20 := by
  decide
example : stencilPos [0, 0] = 4 := by decide
example : byteswap32 0x11223344#32 = 0x44332211#32 := by decide
example : byteswap64 0x1122334455667788#64 = 0x8877665544332211#64 := by decide

end Raptor.C19
