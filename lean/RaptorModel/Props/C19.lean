import RaptorModel.Model.Stencil
namespace Raptor.C19
theorem placeholder : (1 : Nat) = 1 := rfl
end Raptor.C19
