import RaptorModel.Lemmas.EnergyLemmas

/-!
# Property C10 — variational guarantee of multigrid

On a symmetric operator `A`, a V-cycle built from
 (i)   Galerkin coarse operators `A_c = R A P`,
 (ii)  restriction equal to the adjoint of interpolation,
 (iii) an exact coarsest solve,
 (iv)  smoothers that are non-expansive in the energy norm (Gauss–Seidel / SOR / SSOR),
does not increase the energy norm of the error, `‖e_{k+1}‖_A ≤ ‖e_k‖_A`, whatever the quality
of the interpolation `P`.

`energy A e = ⟪A e, e⟫` is the squared energy norm.  Definitions (`energy`, `IsSymm`,
`IsAdjointPair`, `IsGalerkin`, `NonExpansiveSolver`, …) live in
`RaptorModel/Lemmas/EnergyLemmas.lean`.
-/

namespace Raptor.C10

open scoped RealInnerProductSpace

universe u

variable {F : Type*} [NormedAddCommGroup F] [InnerProductSpace ℝ F]
variable {C : Type*} [NormedAddCommGroup C] [InnerProductSpace ℝ C]

/-! ## 1. Smoothers: Gauss–Seidel, SOR, SSOR are energy-non-expansive -/

/-- One relaxation sweep `e ↦ e - y` with `M y = A e`, where `A = 2 M - D` in the quadratic-form
sense and `D ⪰ 0`, does not increase the energy. -/
theorem gs_nonexpansive (A M D : F →ₗ[ℝ] F)
    (hAsymm : ∀ u v, ⟪A u, v⟫ = ⟪u, A v⟫)
    (hsplit : ∀ y, ⟪A y, y⟫ = 2 * ⟪M y, y⟫ - ⟪D y, y⟫)
    (hD : ∀ y, 0 ≤ ⟪D y, y⟫) (e y : F) (hy : M y = A e) :
    ⟪A (e - y), e - y⟫ ≤ ⟪A e, e⟫ := by
  have h1 : ⟪A (e - y), e - y⟫ = ⟪A e, e⟫ - 2 * ⟪A e, y⟫ + ⟪A y, y⟫ :=
    energy_sub A hAsymm e y
  rw [h1, hsplit y, ← hy]
  have := hD y
  linarith

/-- Exact energy decrement of a sweep: `‖e - y‖_A² = ‖e‖_A² - ⟪D y, y⟫`. -/
theorem gs_energy_eq (A M D : F →ₗ[ℝ] F)
    (hAsymm : ∀ u v, ⟪A u, v⟫ = ⟪u, A v⟫)
    (hsplit : ∀ y, ⟪A y, y⟫ = 2 * ⟪M y, y⟫ - ⟪D y, y⟫)
    (e y : F) (hy : M y = A e) :
    ⟪A (e - y), e - y⟫ = ⟪A e, e⟫ - ⟪D y, y⟫ := by
  have h1 : ⟪A (e - y), e - y⟫ = ⟪A e, e⟫ - 2 * ⟪A e, y⟫ + ⟪A y, y⟫ :=
    energy_sub A hAsymm e y
  rw [h1, hsplit y, ← hy]
  ring

/-- Quadratic-form splitting for `A = L + D + U` with `U = Lᵀ`: forward matrix `M = D + L`. -/
theorem split_forward (A L D U : F →ₗ[ℝ] F)
    (hA : ∀ y, A y = L y + D y + U y)
    (hLU : ∀ u v, ⟪L u, v⟫ = ⟪u, U v⟫) (y : F) :
    ⟪A y, y⟫ = 2 * ⟪(D + L) y, y⟫ - ⟪D y, y⟫ := by
  have hU : ⟪U y, y⟫ = ⟪L y, y⟫ := by rw [real_inner_comm, ← hLU]
  rw [hA, LinearMap.add_apply, inner_add_left, inner_add_left, inner_add_left, hU]
  ring

/-- Quadratic-form splitting for `A = L + D + U` with `U = Lᵀ`: backward matrix `M = D + U`. -/
theorem split_backward (A L D U : F →ₗ[ℝ] F)
    (hA : ∀ y, A y = L y + D y + U y)
    (hLU : ∀ u v, ⟪L u, v⟫ = ⟪u, U v⟫) (y : F) :
    ⟪A y, y⟫ = 2 * ⟪(D + U) y, y⟫ - ⟪D y, y⟫ := by
  have hU : ⟪U y, y⟫ = ⟪L y, y⟫ := by rw [real_inner_comm, ← hLU]
  rw [hA, LinearMap.add_apply, inner_add_left, inner_add_left, inner_add_left, hU]
  ring

/-- Forward Gauss–Seidel sweep (`(D + L) y = A e`, new error `e - y`). -/
theorem gs_forward_nonexpansive (A L D U : F →ₗ[ℝ] F)
    (hAsymm : ∀ u v, ⟪A u, v⟫ = ⟪u, A v⟫)
    (hA : ∀ y, A y = L y + D y + U y)
    (hLU : ∀ u v, ⟪L u, v⟫ = ⟪u, U v⟫)
    (hD : ∀ y, 0 ≤ ⟪D y, y⟫) (e y : F) (hy : (D + L) y = A e) :
    ⟪A (e - y), e - y⟫ ≤ ⟪A e, e⟫ :=
  gs_nonexpansive A (D + L) D hAsymm (split_forward A L D U hA hLU) hD e y hy

/-- Backward Gauss–Seidel sweep (`(D + U) y = A e`, new error `e - y`): `gs_nonexpansive`
instantiated with `M := D + U`. -/
theorem gs_backward_nonexpansive (A L D U : F →ₗ[ℝ] F)
    (hAsymm : ∀ u v, ⟪A u, v⟫ = ⟪u, A v⟫)
    (hA : ∀ y, A y = L y + D y + U y)
    (hLU : ∀ u v, ⟪L u, v⟫ = ⟪u, U v⟫)
    (hD : ∀ y, 0 ≤ ⟪D y, y⟫) (e y : F) (hy : (D + U) y = A e) :
    ⟪A (e - y), e - y⟫ ≤ ⟪A e, e⟫ :=
  gs_nonexpansive A (D + U) D hAsymm (split_backward A L D U hA hLU) hD e y hy

/-- SOR sweep with relaxation weight `0 < ω ≤ 2` (`(ω⁻¹ D + L) y = A e`); `ω = 1` is
Gauss–Seidel. -/
theorem sor_nonexpansive (A L D U : F →ₗ[ℝ] F) (ω : ℝ) (hω0 : 0 < ω) (hω2 : ω ≤ 2)
    (hAsymm : ∀ u v, ⟪A u, v⟫ = ⟪u, A v⟫)
    (hA : ∀ y, A y = L y + D y + U y)
    (hLU : ∀ u v, ⟪L u, v⟫ = ⟪u, U v⟫)
    (hD : ∀ y, 0 ≤ ⟪D y, y⟫) (e y : F) (hy : (ω⁻¹ • D + L) y = A e) :
    ⟪A (e - y), e - y⟫ ≤ ⟪A e, e⟫ := by
  refine gs_nonexpansive A (ω⁻¹ • D + L) ((2 * ω⁻¹ - 1) • D) hAsymm ?_ ?_ e y hy
  · intro z
    have hU : ⟪U z, z⟫ = ⟪L z, z⟫ := by rw [real_inner_comm, ← hLU]
    rw [hA, LinearMap.add_apply, LinearMap.smul_apply, LinearMap.smul_apply,
      inner_add_left, inner_add_left, inner_add_left, inner_smul_left, inner_smul_left, hU]
    simp only [RCLike.conj_to_real]
    ring
  · intro z
    rw [LinearMap.smul_apply, inner_smul_left]
    simp only [RCLike.conj_to_real]
    apply mul_nonneg _ (hD z)
    have : 1 ≤ 2 * ω⁻¹ := by
      rw [← div_eq_mul_inv, le_div_iff₀ hω0]; linarith
    linarith

/-- Backward SOR sweep with weight `0 < ω ≤ 2` (`(ω⁻¹ D + U) y = A e`). -/
theorem sor_backward_nonexpansive (A L D U : F →ₗ[ℝ] F) (ω : ℝ) (hω0 : 0 < ω) (hω2 : ω ≤ 2)
    (hAsymm : ∀ u v, ⟪A u, v⟫ = ⟪u, A v⟫)
    (hA : ∀ y, A y = L y + D y + U y)
    (hLU : ∀ u v, ⟪L u, v⟫ = ⟪u, U v⟫)
    (hD : ∀ y, 0 ≤ ⟪D y, y⟫) (e y : F) (hy : (ω⁻¹ • D + U) y = A e) :
    ⟪A (e - y), e - y⟫ ≤ ⟪A e, e⟫ := by
  refine gs_nonexpansive A (ω⁻¹ • D + U) ((2 * ω⁻¹ - 1) • D) hAsymm ?_ ?_ e y hy
  · intro z
    have hU : ⟪U z, z⟫ = ⟪L z, z⟫ := by rw [real_inner_comm, ← hLU]
    rw [hA, LinearMap.add_apply, LinearMap.smul_apply, LinearMap.smul_apply,
      inner_add_left, inner_add_left, inner_add_left, inner_smul_left, inner_smul_left, hU]
    simp only [RCLike.conj_to_real]
    ring
  · intro z
    rw [LinearMap.smul_apply, inner_smul_left]
    simp only [RCLike.conj_to_real]
    apply mul_nonneg _ (hD z)
    have : 1 ≤ 2 * ω⁻¹ := by
      rw [← div_eq_mul_inv, le_div_iff₀ hω0]; linarith
    linarith

/-- SSOR (weight 1) = forward sweep followed by backward sweep: the error after both sweeps has
no more energy than before. -/
theorem ssor_nonexpansive (A L D U : F →ₗ[ℝ] F)
    (hAsymm : ∀ u v, ⟪A u, v⟫ = ⟪u, A v⟫)
    (hA : ∀ y, A y = L y + D y + U y)
    (hLU : ∀ u v, ⟪L u, v⟫ = ⟪u, U v⟫)
    (hD : ∀ y, 0 ≤ ⟪D y, y⟫) (e y₁ y₂ : F)
    (hy₁ : (D + L) y₁ = A e) (hy₂ : (D + U) y₂ = A (e - y₁)) :
    ⟪A (e - y₁ - y₂), e - y₁ - y₂⟫ ≤ ⟪A e, e⟫ :=
  le_trans (gs_backward_nonexpansive A L D U hAsymm hA hLU hD (e - y₁) y₂ hy₂)
    (gs_forward_nonexpansive A L D U hAsymm hA hLU hD e y₁ hy₁)

/-- SSOR with a weight `0 < ω ≤ 2`. -/
theorem ssor_weighted_nonexpansive (A L D U : F →ₗ[ℝ] F) (ω : ℝ) (hω0 : 0 < ω) (hω2 : ω ≤ 2)
    (hAsymm : ∀ u v, ⟪A u, v⟫ = ⟪u, A v⟫)
    (hA : ∀ y, A y = L y + D y + U y)
    (hLU : ∀ u v, ⟪L u, v⟫ = ⟪u, U v⟫)
    (hD : ∀ y, 0 ≤ ⟪D y, y⟫) (e y₁ y₂ : F)
    (hy₁ : (ω⁻¹ • D + L) y₁ = A e) (hy₂ : (ω⁻¹ • D + U) y₂ = A (e - y₁)) :
    ⟪A (e - y₁ - y₂), e - y₁ - y₂⟫ ≤ ⟪A e, e⟫ :=
  le_trans (sor_backward_nonexpansive A L D U ω hω0 hω2 hAsymm hA hLU hD (e - y₁) y₂ hy₂)
    (sor_nonexpansive A L D U ω hω0 hω2 hAsymm hA hLU hD e y₁ hy₁)

/-- A relaxation given as a solver `N = M⁻¹` (`M (N r) = r`) is a `NonExpansiveSolver`. -/
theorem gs_solver_nonexpansive (A M D : F →ₗ[ℝ] F) (N : F → F)
    (hAsymm : IsSymm A)
    (hsplit : ∀ y, ⟪A y, y⟫ = 2 * ⟪M y, y⟫ - ⟪D y, y⟫)
    (hD : IsPSD D) (hN : ∀ r, M (N r) = r) :
    NonExpansiveSolver A N :=
  fun e => gs_nonexpansive A M D hAsymm hsplit hD e (N (A e)) (hN _)

/-- Two solvers applied one after the other (`x₁ = x + N₁ (b - A x)`, `x₂ = x₁ + N₂ (b - A x₁)`)
form the solver `r ↦ N₁ r + N₂ (r - A (N₁ r))`; it is non-expansive if both are. -/
theorem compose_solver_nonexpansive (A : F →ₗ[ℝ] F) (N₁ N₂ : F → F)
    (h₁ : NonExpansiveSolver A N₁) (h₂ : NonExpansiveSolver A N₂) :
    NonExpansiveSolver A (fun r => N₁ r + N₂ (r - A (N₁ r))) := by
  intro e
  have key : e - (N₁ (A e) + N₂ (A e - A (N₁ (A e))))
      = (e - N₁ (A e)) - N₂ (A (e - N₁ (A e))) := by
    rw [map_sub]; abel
  show energy A (e - (N₁ (A e) + N₂ (A e - A (N₁ (A e))))) ≤ energy A e
  rw [key]
  exact le_trans (h₂ _) (h₁ e)

/-- SSOR as a solver: forward solver `Nf = (D+L)⁻¹` followed by backward solver `Nb = (D+U)⁻¹`. -/
theorem ssor_solver_nonexpansive (A L D U : F →ₗ[ℝ] F) (Nf Nb : F → F)
    (hAsymm : IsSymm A)
    (hA : ∀ y, A y = L y + D y + U y)
    (hLU : ∀ u v, ⟪L u, v⟫ = ⟪u, U v⟫)
    (hD : IsPSD D)
    (hNf : ∀ r, (D + L) (Nf r) = r) (hNb : ∀ r, (D + U) (Nb r) = r) :
    NonExpansiveSolver A (fun r => Nf r + Nb (r - A (Nf r))) :=
  compose_solver_nonexpansive A Nf Nb
    (gs_solver_nonexpansive A (D + L) D Nf hAsymm (split_forward A L D U hA hLU) hD hNf)
    (gs_solver_nonexpansive A (D + U) D Nb hAsymm (split_backward A L D U hA hLU) hD hNb)

/-- The trivial solver (no smoothing) is non-expansive. -/
theorem zero_solver_nonexpansive (A : F →ₗ[ℝ] F) : NonExpansiveSolver A (fun _ => 0) := by
  intro w
  show energy A (w - 0) ≤ energy A w
  rw [sub_zero]

/-! ## 2. Exact coarsest solve -/

/-- Base case: an exact solve `Bc (Ac w) = w` has zero error, hence satisfies the coarse-solver
hypothesis (the right-hand side `⟪Ac w, w⟫` is non-negative because `Ac` is PSD). -/
theorem exact_coarse_nonexpansive (Ac : C →ₗ[ℝ] C) (Bc : C → C)
    (hpsd : ∀ w, 0 ≤ ⟪Ac w, w⟫)
    (hexact : ∀ w, Bc (Ac w) = w) :
    ∀ w, ⟪Ac (w - Bc (Ac w)), w - Bc (Ac w)⟫ ≤ ⟪Ac w, w⟫ := by
  intro w
  rw [hexact, sub_self, map_zero, inner_zero_left]
  exact hpsd w

/-- Variant for singular (semi-definite) coarsest operators: it is enough that the coarsest
solve reproduces the right-hand side, `Ac (Bc g) = g` for consistent `g = Ac w`. -/
theorem exact_coarse_nonexpansive' (Ac : C →ₗ[ℝ] C) (Bc : C → C)
    (hpsd : ∀ w, 0 ≤ ⟪Ac w, w⟫)
    (hexact : ∀ w, Ac (Bc (Ac w)) = Ac w) :
    ∀ w, ⟪Ac (w - Bc (Ac w)), w - Bc (Ac w)⟫ ≤ ⟪Ac w, w⟫ := by
  intro w
  rw [map_sub, hexact, sub_self, inner_zero_left]
  exact hpsd w

theorem exact_solver_nonexpansive (A : F →ₗ[ℝ] F) (B : F → F)
    (hpsd : IsPSD A) (hexact : ∀ w, B (A w) = w) : NonExpansiveSolver A B :=
  exact_coarse_nonexpansive A B hpsd hexact

/-! ## 3. Coarse-grid correction and the two-grid cycle -/

/-- Coarse-grid correction with an inexact coarse solver `Bc` is energy-non-expansive as soon as
`Bc` is a non-expansive solver for the Galerkin operator `Ac = R A P`, `R = Pᵀ`.  No assumption on
the quality of `P`.  `w` is any solution of the coarse error equation `Ac w = R (A e)`. -/
theorem cgc_nonexpansive
    (A : F →ₗ[ℝ] F) (Ac : C →ₗ[ℝ] C) (P : C →ₗ[ℝ] F) (R : F →ₗ[ℝ] C) (Bc : C → C)
    (hAsymm : ∀ u v, ⟪A u, v⟫ = ⟪u, A v⟫)
    (hR : ∀ r v, ⟪R r, v⟫ = ⟪r, P v⟫)
    (hGal : ∀ v, Ac v = R (A (P v)))
    (hBc : ∀ w, ⟪Ac (w - Bc (Ac w)), w - Bc (Ac w)⟫ ≤ ⟪Ac w, w⟫)
    (e : F) (w : C) (hw : Ac w = R (A e)) :
    ⟪A (e - P (Bc (R (A e)))), e - P (Bc (R (A e)))⟫ ≤ ⟪A e, e⟫ := by
  set z := w - Bc (Ac w) with hz
  have hBg : Bc (R (A e)) = w - z := by rw [hz, hw]; abel
  have hPen : ∀ u v : C, ⟪A (P u), P v⟫ = ⟪Ac u, v⟫ := by intro u v; rw [hGal, hR]
  -- Galerkin orthogonality: the exactly corrected error is `A`-orthogonal to `range P`.
  have horth : ∀ v : C, ⟪A (e - P w), P v⟫ = 0 := by
    intro v; rw [map_sub, inner_sub_left, hPen, hw, hR]; ring
  have horth' : ∀ v : C, ⟪A (P v), e - P w⟫ = 0 := by
    intro v; rw [hAsymm, real_inner_comm]; exact horth v
  have hdecomp : e - P (Bc (R (A e))) = (e - P w) + P z := by rw [hBg, map_sub]; abel
  have he : e = (e - P w) + P w := by abel
  have h1 : ⟪A ((e - P w) + P z), (e - P w) + P z⟫
      = ⟪A (e - P w), e - P w⟫ + ⟪Ac z, z⟫ := by
    rw [map_add, inner_add_left, inner_add_right, inner_add_right, horth z, horth' z, hPen]; ring
  have h2 : ⟪A e, e⟫ = ⟪A (e - P w), e - P w⟫ + ⟪Ac w, w⟫ := by
    conv_lhs => rw [he]
    rw [map_add, inner_add_left, inner_add_right, inner_add_right, horth w, horth' w, hPen]; ring
  rw [hdecomp, h1, h2]
  have := hBc w
  linarith

/-- Pythagoras for the exact coarse-grid correction: `‖e‖_A² = ‖e - P w‖_A² + ‖w‖_{Ac}²`
whenever `Ac w = R A e`. -/
theorem cgc_pythagoras
    (A : F →ₗ[ℝ] F) (Ac : C →ₗ[ℝ] C) (P : C →ₗ[ℝ] F) (R : F →ₗ[ℝ] C)
    (hAsymm : IsSymm A) (hR : IsAdjointPair R P) (hGal : IsGalerkin A Ac P R)
    (e : F) (w : C) (hw : Ac w = R (A e)) :
    energy A e = energy A (e - P w) + energy Ac w := by
  have hPen : ∀ u v : C, ⟪A (P u), P v⟫ = ⟪Ac u, v⟫ := by intro u v; rw [hGal, hR]
  have horth : ⟪A (e - P w), P w⟫ = 0 := by
    rw [map_sub, inner_sub_left, hPen, hw, hR]; ring
  have he : e = (e - P w) + P w := by abel
  conv_lhs => rw [he]
  rw [energy_add A hAsymm, horth]
  unfold energy
  rw [hPen]; ring

/-- One smoothing step `x ↦ x + N (b - A x)` (`N` = application of the smoother's `M⁻¹`). -/
def smooth (A : F →ₗ[ℝ] F) (N : F → F) (x b : F) : F := x + N (b - A x)

/-- Coarse-grid correction `x ↦ x + P (Bc (R (b - A x)))`. -/
def coarseCorrect (A : F →ₗ[ℝ] F) (P : C →ₗ[ℝ] F) (R : F →ₗ[ℝ] C) (Bc : C → C) (x b : F) : F :=
  x + P (Bc (R (b - A x)))

/-- Two-grid cycle: pre-smooth, coarse-grid correction with coarse solver `Bc`, post-smooth. -/
def twoGridCycle (A : F →ₗ[ℝ] F) (P : C →ₗ[ℝ] F) (R : F →ₗ[ℝ] C) (Bc : C → C)
    (N₁ N₂ : F → F) (x b : F) : F :=
  smooth A N₂ (coarseCorrect A P R Bc (smooth A N₁ x b) b) b

/-- Error propagation of the coarse-grid correction. -/
def cgcErr (A : F →ₗ[ℝ] F) (P : C →ₗ[ℝ] F) (R : F →ₗ[ℝ] C) (Bc : C → C) (e : F) : F :=
  e - P (Bc (R (A e)))

/-- Error propagation of the two-grid cycle with smoother error maps `S₁`, `S₂`. -/
def twoGridErr (A : F →ₗ[ℝ] F) (P : C →ₗ[ℝ] F) (R : F →ₗ[ℝ] C) (Bc : C → C)
    (S₁ S₂ : F → F) (e : F) : F :=
  S₂ (cgcErr A P R Bc (S₁ e))

theorem smooth_error (A : F →ₗ[ℝ] F) (N : F → F) (x u : F) :
    u - smooth A N x (A u) = errMap A N (u - x) := by
  unfold smooth errMap
  rw [map_sub]; abel

theorem coarseCorrect_error (A : F →ₗ[ℝ] F) (P : C →ₗ[ℝ] F) (R : F →ₗ[ℝ] C) (Bc : C → C)
    (x u : F) :
    u - coarseCorrect A P R Bc x (A u) = cgcErr A P R Bc (u - x) := by
  unfold coarseCorrect cgcErr
  rw [← map_sub]; abel

/-- The error of the algorithmic two-grid cycle is the error-propagation operator applied to
the previous error. -/
theorem twoGridCycle_error (A : F →ₗ[ℝ] F) (P : C →ₗ[ℝ] F) (R : F →ₗ[ℝ] C) (Bc : C → C)
    (N₁ N₂ : F → F) (x u : F) :
    u - twoGridCycle A P R Bc N₁ N₂ x (A u)
      = twoGridErr A P R Bc (errMap A N₁) (errMap A N₂) (u - x) := by
  unfold twoGridCycle twoGridErr
  rw [smooth_error, coarseCorrect_error, smooth_error]

/-- A cycle started from `x` is `x` plus the cycle started from `0` on the residual equation
(holds even for non-linear smoothers / coarse solvers). -/
theorem twoGridCycle_shift (A : F →ₗ[ℝ] F) (P : C →ₗ[ℝ] F) (R : F →ₗ[ℝ] C) (Bc : C → C)
    (N₁ N₂ : F → F) (x b : F) :
    twoGridCycle A P R Bc N₁ N₂ x b = x + twoGridCycle A P R Bc N₁ N₂ 0 (b - A x) := by
  unfold twoGridCycle coarseCorrect smooth
  simp only [map_add, map_zero, sub_zero, zero_add]
  have h1 : b - (A x + A (N₁ (b - A x))) = b - A x - A (N₁ (b - A x)) := by abel
  have h2 : b - (A x + A (N₁ (b - A x)) + A (P (Bc (R (b - A x - A (N₁ (b - A x)))))))
      = b - A x - (A (N₁ (b - A x)) + A (P (Bc (R (b - A x - A (N₁ (b - A x))))))) := by abel
  rw [h1, h2]
  abel

/-- Coarse-grid correction as an `EnergyNonExpansive` error map. -/
theorem cgcErr_nonexpansive
    (A : F →ₗ[ℝ] F) (Ac : C →ₗ[ℝ] C) (P : C →ₗ[ℝ] F) (R : F →ₗ[ℝ] C) (Bc : C → C)
    (hAsymm : IsSymm A) (hR : IsAdjointPair R P) (hGal : IsGalerkin A Ac P R)
    (hBc : NonExpansiveSolver Ac Bc)
    (hsolv : ∀ e, ∃ w, Ac w = R (A e)) :
    EnergyNonExpansive A (cgcErr A P R Bc) := by
  intro e
  obtain ⟨w, hw⟩ := hsolv e
  exact cgc_nonexpansive A Ac P R Bc hAsymm hR hGal hBc e w hw

/-- **Two-grid theorem.**  `E e = S₂ (e' - P (Bc (R (A e'))))`, `e' = S₁ e`, with
energy-non-expansive smoother error maps and a non-expansive coarse solver, does not increase
the energy. -/
theorem twoGrid_nonexpansive
    (A : F →ₗ[ℝ] F) (Ac : C →ₗ[ℝ] C) (P : C →ₗ[ℝ] F) (R : F →ₗ[ℝ] C) (Bc : C → C)
    (S₁ S₂ : F → F)
    (hAsymm : ∀ u v, ⟪A u, v⟫ = ⟪u, A v⟫)
    (hR : ∀ r v, ⟪R r, v⟫ = ⟪r, P v⟫)
    (hGal : ∀ v, Ac v = R (A (P v)))
    (hBc : ∀ w, ⟪Ac (w - Bc (Ac w)), w - Bc (Ac w)⟫ ≤ ⟪Ac w, w⟫)
    (hsolv : ∀ e, ∃ w, Ac w = R (A e))
    (hS₁ : ∀ e, ⟪A (S₁ e), S₁ e⟫ ≤ ⟪A e, e⟫)
    (hS₂ : ∀ e, ⟪A (S₂ e), S₂ e⟫ ≤ ⟪A e, e⟫) (e : F) :
    ⟪A (S₂ (S₁ e - P (Bc (R (A (S₁ e)))))), S₂ (S₁ e - P (Bc (R (A (S₁ e)))))⟫ ≤ ⟪A e, e⟫ := by
  obtain ⟨w, hw⟩ := hsolv (S₁ e)
  exact le_trans (hS₂ _)
    (le_trans (cgc_nonexpansive A Ac P R Bc hAsymm hR hGal hBc (S₁ e) w hw) (hS₁ e))

theorem twoGridErr_nonexpansive
    (A : F →ₗ[ℝ] F) (Ac : C →ₗ[ℝ] C) (P : C →ₗ[ℝ] F) (R : F →ₗ[ℝ] C) (Bc : C → C)
    (S₁ S₂ : F → F)
    (hAsymm : IsSymm A) (hR : IsAdjointPair R P) (hGal : IsGalerkin A Ac P R)
    (hBc : NonExpansiveSolver Ac Bc)
    (hsolv : ∀ e, ∃ w, Ac w = R (A e))
    (hS₁ : EnergyNonExpansive A S₁) (hS₂ : EnergyNonExpansive A S₂) :
    EnergyNonExpansive A (twoGridErr A P R Bc S₁ S₂) :=
  fun e => twoGrid_nonexpansive A Ac P R Bc S₁ S₂ hAsymm hR hGal hBc hsolv hS₁ hS₂ e

/-- The algorithmic two-grid cycle, any initial guess `x`, exact solution `u` (`b = A u`):
the energy of the error does not increase. -/
theorem twoGridCycle_energy_le
    (A : F →ₗ[ℝ] F) (Ac : C →ₗ[ℝ] C) (P : C →ₗ[ℝ] F) (R : F →ₗ[ℝ] C) (Bc : C → C)
    (N₁ N₂ : F → F)
    (hAsymm : IsSymm A) (hR : IsAdjointPair R P) (hGal : IsGalerkin A Ac P R)
    (hBc : NonExpansiveSolver Ac Bc)
    (hsolv : ∀ e, ∃ w, Ac w = R (A e))
    (hN₁ : NonExpansiveSolver A N₁) (hN₂ : NonExpansiveSolver A N₂) (x u : F) :
    energy A (u - twoGridCycle A P R Bc N₁ N₂ x (A u)) ≤ energy A (u - x) := by
  rw [twoGridCycle_error]
  exact twoGridErr_nonexpansive A Ac P R Bc _ _ hAsymm hR hGal hBc hsolv hN₁ hN₂ (u - x)

/-! ## 4. From two grids to V-cycles -/

/-- **Level-induction step.**  If the coarse solver is a `NonExpansiveSolver` for the Galerkin
operator, the two-grid cycle started from the zero initial guess is a `NonExpansiveSolver` for
the fine operator. -/
theorem twoGrid_solver_nonexpansive
    (A : F →ₗ[ℝ] F) (Ac : C →ₗ[ℝ] C) (P : C →ₗ[ℝ] F) (R : F →ₗ[ℝ] C) (Bc : C → C)
    (N₁ N₂ : F → F)
    (hAsymm : IsSymm A) (hR : IsAdjointPair R P) (hGal : IsGalerkin A Ac P R)
    (hBc : NonExpansiveSolver Ac Bc)
    (hsolv : ∀ e, ∃ w, Ac w = R (A e))
    (hN₁ : NonExpansiveSolver A N₁) (hN₂ : NonExpansiveSolver A N₂) :
    NonExpansiveSolver A (fun b => twoGridCycle A P R Bc N₁ N₂ 0 b) := by
  intro u
  have := twoGridCycle_energy_le A Ac P R Bc N₁ N₂ hAsymm hR hGal hBc hsolv hN₁ hN₂ 0 u
  rw [sub_zero] at this
  exact this

section explicit

variable {F₀ : Type*} [NormedAddCommGroup F₀] [InnerProductSpace ℝ F₀]
variable {F₁ : Type*} [NormedAddCommGroup F₁] [InnerProductSpace ℝ F₁]
variable {F₂ : Type*} [NormedAddCommGroup F₂] [InnerProductSpace ℝ F₂]

/-- Two-level V-cycle (level 0 fine, level 1 coarsest with exact solve `B₁`). -/
theorem vcycle2_nonexpansive
    (A₀ : F₀ →ₗ[ℝ] F₀) (A₁ : F₁ →ₗ[ℝ] F₁) (P₀ : F₁ →ₗ[ℝ] F₀) (R₀ : F₀ →ₗ[ℝ] F₁)
    (N₀ N₀' : F₀ → F₀) (B₁ : F₁ → F₁)
    (hsymm : IsSymm A₀) (hpsd : IsPSD A₀)
    (hR₀ : IsAdjointPair R₀ P₀) (hGal₀ : IsGalerkin A₀ A₁ P₀ R₀)
    (hsolv₀ : ∀ e, ∃ w, A₁ w = R₀ (A₀ e))
    (hexact : ∀ w, B₁ (A₁ w) = w)
    (hN₀ : NonExpansiveSolver A₀ N₀) (hN₀' : NonExpansiveSolver A₀ N₀') :
    NonExpansiveSolver A₀ (fun b => twoGridCycle A₀ P₀ R₀ B₁ N₀ N₀' 0 b) :=
  twoGrid_solver_nonexpansive A₀ A₁ P₀ R₀ B₁ N₀ N₀' hsymm hR₀ hGal₀
    (exact_solver_nonexpansive A₁ B₁ (galerkin_psd hpsd hR₀ hGal₀) hexact) hsolv₀ hN₀ hN₀'

/-- Three-level V-cycle: level 0 (fine) → level 1 → level 2 (coarsest, exact solve `B₂`).  The
coarse solver on level 1 is the two-grid cycle (levels 1,2) started from the zero guess. -/
theorem vcycle3_nonexpansive
    (A₀ : F₀ →ₗ[ℝ] F₀) (A₁ : F₁ →ₗ[ℝ] F₁) (A₂ : F₂ →ₗ[ℝ] F₂)
    (P₀ : F₁ →ₗ[ℝ] F₀) (R₀ : F₀ →ₗ[ℝ] F₁) (P₁ : F₂ →ₗ[ℝ] F₁) (R₁ : F₁ →ₗ[ℝ] F₂)
    (N₀ N₀' : F₀ → F₀) (N₁ N₁' : F₁ → F₁) (B₂ : F₂ → F₂)
    (hsymm : IsSymm A₀) (hpsd : IsPSD A₀)
    (hR₀ : IsAdjointPair R₀ P₀) (hGal₀ : IsGalerkin A₀ A₁ P₀ R₀)
    (hR₁ : IsAdjointPair R₁ P₁) (hGal₁ : IsGalerkin A₁ A₂ P₁ R₁)
    (hsolv₀ : ∀ e, ∃ w, A₁ w = R₀ (A₀ e))
    (hsolv₁ : ∀ e, ∃ w, A₂ w = R₁ (A₁ e))
    (hexact : ∀ w, B₂ (A₂ w) = w)
    (hN₀ : NonExpansiveSolver A₀ N₀) (hN₀' : NonExpansiveSolver A₀ N₀')
    (hN₁ : NonExpansiveSolver A₁ N₁) (hN₁' : NonExpansiveSolver A₁ N₁') :
    NonExpansiveSolver A₀
      (fun b => twoGridCycle A₀ P₀ R₀
        (fun g => twoGridCycle A₁ P₁ R₁ B₂ N₁ N₁' 0 g) N₀ N₀' 0 b) :=
  twoGrid_solver_nonexpansive A₀ A₁ P₀ R₀ _ N₀ N₀' hsymm hR₀ hGal₀
    (vcycle2_nonexpansive A₁ A₂ P₁ R₁ N₁ N₁' B₂
      (galerkin_symm hsymm hR₀ hGal₀) (galerkin_psd hpsd hR₀ hGal₀)
      hR₁ hGal₁ hsolv₁ hexact hN₁ hN₁')
    hsolv₀ hN₀ hN₀'

end explicit

/-! ### General hierarchies of arbitrary depth

The spaces change type from level to level, so a hierarchy is a dependent inductive structure
indexed by its finest space. -/

/-- A multigrid hierarchy whose finest space is `F`.  `coarsest A Ainv`: a single level with
operator `A` and (candidate) exact solver `Ainv`.  `level A P R Npre Npost coarse`: fine operator
`A`, interpolation `P`, restriction `R`, pre- and post-smoother, and the rest of the hierarchy. -/
inductive Hierarchy : (F : Type u) → [NormedAddCommGroup F] → [InnerProductSpace ℝ F] → Type (u + 1)
  | coarsest {F : Type u} [NormedAddCommGroup F] [InnerProductSpace ℝ F]
      (A : F →ₗ[ℝ] F) (Ainv : F → F) : Hierarchy F
  | level {F C : Type u} [NormedAddCommGroup F] [InnerProductSpace ℝ F]
      [NormedAddCommGroup C] [InnerProductSpace ℝ C]
      (A : F →ₗ[ℝ] F) (P : C →ₗ[ℝ] F) (R : F →ₗ[ℝ] C) (Npre Npost : F → F)
      (coarse : Hierarchy C) : Hierarchy F

namespace Hierarchy

/-- Operator on the finest level. -/
def op : {F : Type u} → [NormedAddCommGroup F] → [InnerProductSpace ℝ F] →
    Hierarchy F → (F →ₗ[ℝ] F)
  | _, _, _, coarsest A _ => A
  | _, _, _, level A _ _ _ _ _ => A

/-- Number of levels. -/
def numLevels : {F : Type u} → [NormedAddCommGroup F] → [InnerProductSpace ℝ F] →
    Hierarchy F → ℕ
  | _, _, _, coarsest _ _ => 1
  | _, _, _, level _ _ _ _ _ c => c.numLevels + 1

/-- The V-cycle from the zero initial guess, as a solver `b ↦ x`: exact solve on the coarsest
level; otherwise a two-grid cycle whose coarse solver is the V-cycle of the coarser hierarchy. -/
def solve : {F : Type u} → [NormedAddCommGroup F] → [InnerProductSpace ℝ F] →
    Hierarchy F → F → F
  | _, _, _, coarsest _ Ainv => Ainv
  | _, _, _, level A P R Npre Npost c => fun b => twoGridCycle A P R c.solve Npre Npost 0 b

/-- One V-cycle for `A x = b` from the initial guess `x`. -/
def cycle {F : Type u} [NormedAddCommGroup F] [InnerProductSpace ℝ F]
    (H : Hierarchy F) (x b : F) : F :=
  x + H.solve (b - H.op x)

/-- The variational conditions, level by level: `R = Pᵀ`, Galerkin coarse operator, solvable
coarse error equations, energy-non-expansive smoothers, exact coarsest solve. -/
def Variational : {F : Type u} → [NormedAddCommGroup F] → [InnerProductSpace ℝ F] →
    Hierarchy F → Prop
  | _, _, _, coarsest A Ainv => ∀ w, Ainv (A w) = w
  | _, _, _, level A P R Npre Npost c =>
      IsAdjointPair R P ∧ IsGalerkin A c.op P R ∧ (∀ e, ∃ w, c.op w = R (A e)) ∧
      NonExpansiveSolver A Npre ∧ NonExpansiveSolver A Npost ∧ c.Variational

end Hierarchy

/-- On a non-coarsest level, `Hierarchy.cycle` is the algorithmic two-grid cycle with the
recursive V-cycle as coarse solver. -/
theorem Hierarchy.cycle_level {F C : Type u} [NormedAddCommGroup F] [InnerProductSpace ℝ F]
    [NormedAddCommGroup C] [InnerProductSpace ℝ C]
    (A : F →ₗ[ℝ] F) (P : C →ₗ[ℝ] F) (R : F →ₗ[ℝ] C) (Npre Npost : F → F) (c : Hierarchy C)
    (x b : F) :
    (Hierarchy.level A P R Npre Npost c).cycle x b
      = twoGridCycle A P R c.solve Npre Npost x b := by
  rw [twoGridCycle_shift]
  rfl

/-- **V-cycle theorem, arbitrary number of levels.**  For a hierarchy satisfying the variational
conditions over a symmetric positive semi-definite fine operator, the V-cycle is a
`NonExpansiveSolver`: its error-propagation operator does not increase the energy norm. -/
theorem vcycle_nonexpansive :
    ∀ {F : Type u} [NormedAddCommGroup F] [InnerProductSpace ℝ F] (H : Hierarchy F),
      H.Variational → IsSymm H.op → IsPSD H.op → NonExpansiveSolver H.op H.solve := by
  intro F _ _ H
  induction H with
  | coarsest A Ainv =>
    intro hV _ hpsd
    exact exact_solver_nonexpansive A Ainv hpsd hV
  | level A P R Npre Npost c ih =>
    intro hV hsymm hpsd
    obtain ⟨hR, hGal, hsolv, hpre, hpost, hc⟩ := hV
    exact twoGrid_solver_nonexpansive A c.op P R c.solve Npre Npost hsymm hR hGal
      (ih hc (galerkin_symm hsymm hR hGal) (galerkin_psd hpsd hR hGal)) hsolv hpre hpost

/-- Energy form of the V-cycle theorem: for the exact solution `u` of `A u = b` and any current
iterate `x`, `‖u - cycle x b‖_A ≤ ‖u - x‖_A` (squared). -/
theorem vcycle_energy_le {F : Type u} [NormedAddCommGroup F] [InnerProductSpace ℝ F]
    (H : Hierarchy F) (hV : H.Variational) (hsymm : IsSymm H.op) (hpsd : IsPSD H.op) (x u : F) :
    energy H.op (u - H.cycle x (H.op u)) ≤ energy H.op (u - x) := by
  have h := vcycle_nonexpansive H hV hsymm hpsd (u - x)
  have e : u - H.cycle x (H.op u) = (u - x) - H.solve (H.op (u - x)) := by
    unfold Hierarchy.cycle
    rw [map_sub]; abel
  rw [e]
  exact h

/-- W-cycle style coarse solve (the coarse solver applied twice) stays non-expansive, so the
level-induction step also covers W-cycles. -/
theorem twice_solver_nonexpansive (Ac : C →ₗ[ℝ] C) (Bc : C → C) (hBc : NonExpansiveSolver Ac Bc) :
    NonExpansiveSolver Ac (fun r => Bc r + Bc (r - Ac (Bc r))) :=
  compose_solver_nonexpansive Ac Bc Bc hBc hBc

/-- Variational conditions for an SPD problem, with the solvability hypothesis replaced by what
the library actually guarantees: interpolation of full column rank (injective) into a
finite-dimensional coarse space. -/
def Hierarchy.VariationalSPD : {F : Type u} → [NormedAddCommGroup F] → [InnerProductSpace ℝ F] →
    Hierarchy F → Prop
  | _, _, _, Hierarchy.coarsest A Ainv => ∀ w, Ainv (A w) = w
  | _, _, _, Hierarchy.level (C := C) A P R Npre Npost c =>
      IsAdjointPair R P ∧ IsGalerkin A c.op P R ∧ Function.Injective P ∧
      FiniteDimensional ℝ C ∧
      NonExpansiveSolver A Npre ∧ NonExpansiveSolver A Npost ∧ c.VariationalSPD

/-- For a positive definite fine operator the coarse error equations are automatically
solvable on every level. -/
theorem Hierarchy.variational_of_spd :
    ∀ {F : Type u} [NormedAddCommGroup F] [InnerProductSpace ℝ F] (H : Hierarchy F),
      H.VariationalSPD → IsPD H.op → H.Variational := by
  intro F _ _ H
  induction H with
  | coarsest A Ainv => intro hV _; exact hV
  | level A P R Npre Npost c ih =>
    intro hV hpd
    obtain ⟨hR, hGal, hinj, hfin, hpre, hpost, hc⟩ := hV
    have := hfin
    have hpdc : IsPD c.op := galerkin_pd hpd hR hGal hinj
    exact ⟨hR, hGal, fun e => hpdc.surjective _, hpre, hpost, ih hc hpdc⟩

/-- **V-cycle theorem, SPD form** (no solvability hypothesis). -/
theorem vcycle_nonexpansive_spd {F : Type u} [NormedAddCommGroup F] [InnerProductSpace ℝ F]
    (H : Hierarchy F) (hV : H.VariationalSPD) (hsymm : IsSymm H.op) (hpd : IsPD H.op) :
    NonExpansiveSolver H.op H.solve :=
  vcycle_nonexpansive H (H.variational_of_spd hV hpd) hsymm hpd.isPSD

/-! ## 5. Energy history of repeated cycles is monotone -/

/-- Iterating any non-expansive solver, `x_{k+1} = x_k + B (b - A x_k)` with `b = A u`:
the error after `k` steps is the `k`-fold error map applied to the initial error. -/
theorem solver_iterate_error (A : F →ₗ[ℝ] F) (B : F → F) (u x₀ : F) (k : ℕ) :
    u - (fun x => x + B (A u - A x))^[k] x₀ = (errMap A B)^[k] (u - x₀) := by
  induction k with
  | zero => rfl
  | succ n ih =>
    rw [Function.iterate_succ_apply', Function.iterate_succ_apply', ← ih]
    unfold errMap
    rw [map_sub]; abel

/-- Energy history of a stationary iteration with a non-expansive solver is antitone. -/
theorem solver_iteration_antitone (A : F →ₗ[ℝ] F) (B : F → F) (hB : NonExpansiveSolver A B)
    (u x₀ : F) :
    Antitone (fun k : ℕ => energy A (u - (fun x => x + B (A u - A x))^[k] x₀)) := by
  have h : (fun k : ℕ => energy A (u - (fun x => x + B (A u - A x))^[k] x₀))
      = fun k : ℕ => energy A ((errMap A B)^[k] (u - x₀)) := by
    funext k; rw [solver_iterate_error]
  rw [h]
  exact EnergyNonExpansive.iterate_antitone (A := A) (S := errMap A B) hB (u - x₀)

/-- **Monotone energy history for repeated two-grid cycles** (`e_k = u - x_k`,
`x_{k+1} = twoGridCycle x_k b`, `b = A u`): `⟪A e_{k+1}, e_{k+1}⟫ ≤ ⟪A e_k, e_k⟫`. -/
theorem twoGrid_history_antitone
    (A : F →ₗ[ℝ] F) (Ac : C →ₗ[ℝ] C) (P : C →ₗ[ℝ] F) (R : F →ₗ[ℝ] C) (Bc : C → C)
    (N₁ N₂ : F → F)
    (hAsymm : IsSymm A) (hR : IsAdjointPair R P) (hGal : IsGalerkin A Ac P R)
    (hBc : NonExpansiveSolver Ac Bc)
    (hsolv : ∀ e, ∃ w, Ac w = R (A e))
    (hN₁ : NonExpansiveSolver A N₁) (hN₂ : NonExpansiveSolver A N₂) (u x₀ : F) :
    Antitone (fun k : ℕ =>
      ⟪A (u - (fun x => twoGridCycle A P R Bc N₁ N₂ x (A u))^[k] x₀),
        u - (fun x => twoGridCycle A P R Bc N₁ N₂ x (A u))^[k] x₀⟫) := by
  apply antitone_nat_of_succ_le
  intro n
  simp only [Function.iterate_succ_apply']
  exact twoGridCycle_energy_le A Ac P R Bc N₁ N₂ hAsymm hR hGal hBc hsolv hN₁ hN₂ _ u

/-- **Monotone energy history for repeated V-cycles** on a hierarchy of any depth:
with `e_k = u - x_k`, `x_{k+1} = H.cycle x_k b`, `b = A u`, the sequence `⟪A e_k, e_k⟫` is
antitone. -/
theorem residual_history_antitone {F : Type u} [NormedAddCommGroup F] [InnerProductSpace ℝ F]
    (H : Hierarchy F) (hV : H.Variational) (hsymm : IsSymm H.op) (hpsd : IsPSD H.op)
    (u x₀ : F) :
    Antitone (fun k : ℕ =>
      ⟪H.op (u - (fun x => H.cycle x (H.op u))^[k] x₀),
        u - (fun x => H.cycle x (H.op u))^[k] x₀⟫) := by
  apply antitone_nat_of_succ_le
  intro n
  simp only [Function.iterate_succ_apply']
  exact vcycle_energy_le H hV hsymm hpsd _ u

/-- Step form and bound by the initial energy: `‖e_{k+1}‖_A² ≤ ‖e_k‖_A² ≤ ‖e_0‖_A²`. -/
theorem residual_history_bounded {F : Type u} [NormedAddCommGroup F] [InnerProductSpace ℝ F]
    (H : Hierarchy F) (hV : H.Variational) (hsymm : IsSymm H.op) (hpsd : IsPSD H.op)
    (u x₀ : F) (k : ℕ) :
    energy H.op (u - (fun x => H.cycle x (H.op u))^[k + 1] x₀)
        ≤ energy H.op (u - (fun x => H.cycle x (H.op u))^[k] x₀) ∧
    energy H.op (u - (fun x => H.cycle x (H.op u))^[k] x₀) ≤ energy H.op (u - x₀) := by
  have h := residual_history_antitone H hV hsymm hpsd u x₀
  exact ⟨h (Nat.le_succ k), h (Nat.zero_le k)⟩

/-- The energy history is also bounded below by `0` (PSD), hence a bounded monotone sequence. -/
theorem residual_history_nonneg {F : Type u} [NormedAddCommGroup F] [InnerProductSpace ℝ F]
    (H : Hierarchy F) (hpsd : IsPSD H.op) (u x₀ : F) (k : ℕ) :
    0 ≤ energy H.op (u - (fun x => H.cycle x (H.op u))^[k] x₀) :=
  hpsd _

/-! ## 6. Conjugate-gradient energy step (used by property C17) -/

/-- One CG step `e ↦ e - α p`, `α = ⟪r,r⟫ / ⟪A p,p⟫`, `r = A e`, `⟪r,p⟫ = ⟪r,r⟫`:
the energy decreases by exactly `α ⟪r,r⟫`. -/
theorem cg_step_energy (A : F →ₗ[ℝ] F)
    (hAsymm : ∀ u v, ⟪A u, v⟫ = ⟪u, A v⟫)
    (e r p : F) (hr : r = A e) (hrp : ⟪r, p⟫ = ⟪r, r⟫) (hpos : 0 < ⟪A p, p⟫) :
    ⟪A (e - (⟪r, r⟫ / ⟪A p, p⟫) • p), e - (⟪r, r⟫ / ⟪A p, p⟫) • p⟫
      = ⟪A e, e⟫ - (⟪r, r⟫ / ⟪A p, p⟫) * ⟪r, r⟫ := by
  set α := ⟪r, r⟫ / ⟪A p, p⟫ with hαdef
  have hα : α * ⟪A p, p⟫ = ⟪r, r⟫ := by
    rw [hαdef]; field_simp
  have hpe : ⟪A p, e⟫ = ⟪r, p⟫ := by rw [hAsymm, real_inner_comm, hr]
  have hep : ⟪A e, p⟫ = ⟪r, p⟫ := by rw [hr]
  rw [map_sub, map_smul, inner_sub_left, inner_sub_right, inner_sub_right,
    inner_smul_left, inner_smul_left, inner_smul_right, inner_smul_right]
  simp only [RCLike.conj_to_real]
  rw [hpe, hep, hrp, ← hα]
  ring

theorem cg_step_energy_le (A : F →ₗ[ℝ] F)
    (hAsymm : ∀ u v, ⟪A u, v⟫ = ⟪u, A v⟫)
    (e r p : F) (hr : r = A e) (hrp : ⟪r, p⟫ = ⟪r, r⟫) (hpos : 0 < ⟪A p, p⟫) :
    ⟪A (e - (⟪r, r⟫ / ⟪A p, p⟫) • p), e - (⟪r, r⟫ / ⟪A p, p⟫) • p⟫ ≤ ⟪A e, e⟫ := by
  rw [cg_step_energy A hAsymm e r p hr hrp hpos]
  have h1 : 0 ≤ ⟪r, r⟫ := real_inner_self_nonneg
  have h2 : 0 ≤ ⟪r, r⟫ / ⟪A p, p⟫ := div_nonneg h1 hpos.le
  have := mul_nonneg h2 h1
  linarith

/-! ## 7. Non-vacuity -/

section nonvacuity

/-- `F = ℝ`, `A = D = M = 2·id` satisfy all hypotheses of `gs_nonexpansive`. -/
example (e : ℝ) :
    ∃ (A M D : ℝ →ₗ[ℝ] ℝ) (y : ℝ),
      (∀ u v : ℝ, ⟪A u, v⟫ = ⟪u, A v⟫) ∧
      (∀ y : ℝ, ⟪A y, y⟫ = 2 * ⟪M y, y⟫ - ⟪D y, y⟫) ∧
      (∀ y : ℝ, 0 ≤ ⟪D y, y⟫) ∧ M y = A e ∧
      ⟪A (e - y), e - y⟫ ≤ ⟪A e, e⟫ := by
  refine ⟨(2 : ℝ) • LinearMap.id, (2 : ℝ) • LinearMap.id, (2 : ℝ) • LinearMap.id, e,
    ?_, ?_, ?_, rfl, ?_⟩
  · intro u v; simp; ring
  · intro y; simp; ring
  · intro y; simp; nlinarith [mul_self_nonneg y]
  · simp; nlinarith [mul_self_nonneg e]

/-- A concrete two-level hierarchy on `ℝ` with a deliberately badly scaled interpolation
`P = R = 3·id` (so `Ac = R A P = 18·id`), exact coarse solve `g ↦ g / 18`, and damped-Jacobi-like
smoother `r ↦ r / 2` for `A = 2·id`. -/
noncomputable def exampleHierarchy : Hierarchy ℝ :=
  Hierarchy.level ((2 : ℝ) • LinearMap.id) ((3 : ℝ) • LinearMap.id) ((3 : ℝ) • LinearMap.id)
    (fun r => r / 2) (fun r => r / 2)
    (Hierarchy.coarsest ((18 : ℝ) • LinearMap.id) (fun g => g / 18))

theorem exampleHierarchy_variational : exampleHierarchy.Variational := by
  refine ⟨?_, ?_, ?_, ?_, ?_, ?_⟩
  · intro r v; simp; ring
  · intro v; simp [Hierarchy.op]; ring
  · intro e; exact ⟨e / 3, by simp [Hierarchy.op]; ring⟩
  · intro w; simp [energy]; nlinarith [mul_self_nonneg w]
  · intro w; simp [energy]; nlinarith [mul_self_nonneg w]
  · intro w; simp

theorem exampleHierarchy_symm : IsSymm exampleHierarchy.op := by
  intro u v; simp [exampleHierarchy, Hierarchy.op]; ring

theorem exampleHierarchy_psd : IsPSD exampleHierarchy.op := by
  intro v; simp [exampleHierarchy, Hierarchy.op]; nlinarith [mul_self_nonneg v]

/-- All hypotheses of the V-cycle theorem are simultaneously satisfiable. -/
example : NonExpansiveSolver exampleHierarchy.op exampleHierarchy.solve :=
  vcycle_nonexpansive exampleHierarchy exampleHierarchy_variational
    exampleHierarchy_symm exampleHierarchy_psd

end nonvacuity

end Raptor.C10
