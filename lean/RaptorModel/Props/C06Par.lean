import RaptorModel.Props.C06
/-!
# C06, distributed: the product does not depend on how the rows of `A` are split, nor on the on/off-process split of a row

`par_matmult.cpp` forms the rows of `C = A B` rank by rank. A rank walks the on-process part of a row of `A` against its
own rows of `B` and the off-process part against the rows of `B` it has received (`communicate(B)`: the rows whose
global indices are the rank's off-process columns — that they are the owners' rows is C03), accumulating into one list
(`spgemm_helper`, same linked list). The statements:

* `rowProducts_split` — the products generated from the two parts, each read through its column map against the
  rows the rank holds, are the products of the row in global numbering against the global `B`;
* `par_rows` — the rows of the product of a row block are the corresponding rows of the product of the whole matrix, so
  the concatenation over any contiguous row partition (empty blocks included) is the global product;
* `par_den` — hence the dense image of the distributed product is the specification `denProd` for every partition.
-/
namespace Raptor.C06Par
open Raptor.Sparse Raptor.Spgemm

variable {K : Type}

/-- one local row through a column map: local column `c` ↦ global column `colMap[c]` -/
def globalRow (colMap : List Nat) (row : List (Nat × K)) : List (Nat × K) :=
  row.map fun e => (colMap.getD e.1 0, e.2)

/-- the rows of `B` a rank holds for a column map: position `c` holds the global row `colMap[c]` -/
def heldRows (colMap : List Nat) (Bglobal : List (List (Nat × K))) : List (List (Nat × K)) :=
  colMap.map fun g => Bglobal.getD g []

theorem heldRows_getD (colMap : List Nat) (Bglobal : List (List (Nat × K))) (c : Nat) (hc : c < colMap.length) :
    (heldRows colMap Bglobal).getD c [] = Bglobal.getD (colMap.getD c 0) [] := by
  simp [heldRows, List.getD_eq_getElem?_getD, hc]

/-- products of a local row against the held rows = products of the global row against the global matrix -/
theorem rowProducts_held [Mul K] (colMap : List Nat) (Bglobal : List (List (Nat × K))) (row : List (Nat × K))
    (hrow : ∀ e ∈ row, e.1 < colMap.length) :
    rowProducts row (heldRows colMap Bglobal) = rowProducts (globalRow colMap row) Bglobal := by
  unfold rowProducts globalRow
  rw [List.flatMap_map]
  apply List.flatMap_congr
  intro e he
  obtain ⟨k, a⟩ := e
  simp only
  rw [heldRows_getD colMap Bglobal k (hrow (k, a) he)]

/-- **on/off-process split**: walking the on-process part against the rank's own rows of `B` and the off-process part
    against the received rows generates exactly the products of the whole row in global numbering -/
theorem rowProducts_split [Mul K] (onMap offMap : List Nat) (Bglobal : List (List (Nat × K)))
    (rowOn rowOff : List (Nat × K))
    (hon : ∀ e ∈ rowOn, e.1 < onMap.length) (hoff : ∀ e ∈ rowOff, e.1 < offMap.length) :
    rowProducts rowOn (heldRows onMap Bglobal) ++ rowProducts rowOff (heldRows offMap Bglobal)
      = rowProducts (globalRow onMap rowOn ++ globalRow offMap rowOff) Bglobal := by
  rw [rowProducts_held onMap Bglobal rowOn hon, rowProducts_held offMap Bglobal rowOff hoff]
  unfold rowProducts
  rw [List.flatMap_append]

/-- the row of `C` a rank computes from the two parts is the row of the global product -/
theorem par_row [Add K] [Mul K] [Zero K] (big : K → Bool) (colMap : Nat → Nat) (onMap offMap : List Nat)
    (Bglobal : List (List (Nat × K))) (rowOn rowOff : List (Nat × K))
    (hon : ∀ e ∈ rowOn, e.1 < onMap.length) (hoff : ∀ e ∈ rowOff, e.1 < offMap.length) :
    ((accumulate (rowProducts rowOn (heldRows onMap Bglobal) ++ rowProducts rowOff (heldRows offMap Bglobal))).filter
        fun e => big e.2).map (fun e => (colMap e.1, e.2))
      = ((accumulate (rowProducts (globalRow onMap rowOn ++ globalRow offMap rowOff) Bglobal)).filter
        fun e => big e.2).map (fun e => (colMap e.1, e.2)) := by
  rw [rowProducts_split onMap offMap Bglobal rowOn rowOff hon hoff]

/-- **row partition**: the product of a block of rows is the corresponding block of rows of the product -/
theorem par_rows [Add K] [Mul K] [Zero K] (big : K → Bool) (colMap : Nat → Nat) (nCols : Nat)
    (blocks : List (List (List (Nat × K)))) (B : Csr K) :
    (spgemm big ⟨blocks.flatten.length, nCols, blocks.flatten⟩ B colMap).rows
      = (blocks.map fun rows => (spgemm big ⟨rows.length, nCols, rows⟩ B colMap).rows).flatten := by
  simp only [spgemm, List.map_flatten]

/-- two partitions of the same rows give the same product -/
theorem par_rows_indep [Add K] [Mul K] [Zero K] (big : K → Bool) (colMap : Nat → Nat) (nCols : Nat)
    (blocks blocks' : List (List (List (Nat × K)))) (B : Csr K) (h : blocks.flatten = blocks'.flatten) :
    (blocks.map fun rows => (spgemm big ⟨rows.length, nCols, rows⟩ B colMap).rows).flatten
      = (blocks'.map fun rows => (spgemm big ⟨rows.length, nCols, rows⟩ B colMap).rows).flatten := by
  rw [← par_rows, ← par_rows, h]

/-- **the distributed product represents `A B`** for every row partition (entries the drop rule removes read as 0) -/
theorem par_den [CommSemiring K] (big : K → Bool) (nCols : Nat) (blocks : List (List (List (Nat × K)))) (B : Csr K)
    (hA : (⟨blocks.flatten.length, nCols, blocks.flatten⟩ : Csr K).WF = true) (i j : Nat) :
    (⟨blocks.flatten.length, B.nCols,
        (blocks.map fun rows => (spgemm big ⟨rows.length, nCols, rows⟩ B).rows).flatten⟩ : Csr K).den i j
      = (let s := denProd (⟨blocks.flatten.length, nCols, blocks.flatten⟩ : Csr K).entries B.entries nCols i j
         if big s then s else 0) := by
  have h := C06.den_spgemm_of_left_WF big ⟨blocks.flatten.length, nCols, blocks.flatten⟩ B hA i j
  rw [← h]
  unfold Csr.den Csr.entries
  rw [← par_rows big id nCols blocks B]

/-! ### `C = Aᵀ B` over row blocks: every rank contributes the products of its own rows, the contributions are summed

`mult_T` lets rank `r` form `A_rᵀ B_r` from its rows `lo_r ≤ k < lo_r + len_r` of both factors and sends the rows of the
result to their owners, where equal positions are added. The inner index of `Aᵀ B` is the row index, so splitting the
rows splits the sum. (Exact products; the drop rule is applied by each rank to its own contribution, which C06's
statement covers by "entries below 1e-16 may be dropped".) -/

/-- first row of each block -/
def offsets : List Nat → List Nat
  | [] => []
  | l :: ls => 0 :: (offsets ls).map (l + ·)

theorem sum_range_tile [AddCommMonoid K] (f : Nat → K) (lens : List Nat) :
    ((List.range lens.sum).map f).sum
      = (((offsets lens).zip lens).map fun p => ((List.range p.2).map fun k => f (p.1 + k)).sum).sum := by
  induction lens generalizing f with
  | nil => simp [offsets]
  | cons l ls ih =>
    simp only [List.sum_cons, offsets, List.zip_cons_cons, List.map_cons]
    rw [List.range_add, List.map_append, List.sum_append, List.map_map]
    congr 1
    · simp
    · rw [show (f ∘ fun x => l + x) = fun k => f (l + k) from rfl, ih (fun k => f (l + k))]
      congr 1
      rw [List.zip_map_left, List.map_map]
      apply List.map_congr_left
      intro p _
      simp [Nat.add_assoc]

/-- **the contributions of the ranks add up to `Aᵀ B`**: `A`, `B` have `lens.sum` rows; rank `r` owns rows
    `offsets[r] … offsets[r] + lens[r] - 1` -/
theorem parT_den [CommSemiring K] (Aden Bden : Nat → Nat → K) (lens : List Nat) (i j : Nat) :
    ((List.range lens.sum).map fun k => Aden k i * Bden k j).sum
      = (((offsets lens).zip lens).map fun p =>
          ((List.range p.2).map fun k => Aden (p.1 + k) i * Bden (p.1 + k) j).sum).sum :=
  sum_range_tile (fun k => Aden k i * Bden k j) lens

/-- two row partitions give the same `Aᵀ B` -/
theorem parT_indep [CommSemiring K] (Aden Bden : Nat → Nat → K) (lens lens' : List Nat) (h : lens.sum = lens'.sum)
    (i j : Nat) :
    (((offsets lens).zip lens).map fun p =>
        ((List.range p.2).map fun k => Aden (p.1 + k) i * Bden (p.1 + k) j).sum).sum
      = (((offsets lens').zip lens').map fun p =>
        ((List.range p.2).map fun k => Aden (p.1 + k) i * Bden (p.1 + k) j).sum).sum := by
  rw [← parT_den, ← parT_den, h]

/-! ### non-vacuity (tests, labelled as tests) -/

/-- 3 rows split 1 | 0 | 2 and 2 | 1: same product -/
example :
    ([[[(0, (2 : Int))]], [], [[(1, 3)], [(0, 1), (1, 1)]]].map fun rows =>
        (spgemm (fun _ => true) ⟨rows.length, 2, rows⟩ (⟨2, 2, [[(0, 1), (1, 5)], [(1, 7)]]⟩ : Csr Int)).rows).flatten
      = ([[[(0, (2 : Int))], [(1, 3)]], [[(0, 1), (1, 1)]]].map fun rows =>
        (spgemm (fun _ => true) ⟨rows.length, 2, rows⟩ (⟨2, 2, [[(0, 1), (1, 5)], [(1, 7)]]⟩ : Csr Int)).rows).flatten := by
  decide

/-- a row with one on-process and one off-process entry: local column 0 is global 2, halo position 0 is global 0 -/
example :
    rowProducts [(0, (2 : Int))] (heldRows [2] [[(0, 1)], [], [(1, 5)]]) ++ rowProducts [(0, 3)] (heldRows [0] [[(0, 1)], [], [(1, 5)]])
      = rowProducts [(2, 2), (0, 3)] [[(0, 1)], [], [(1, 5)]] := by decide

example : offsets [2, 0, 3] = [0, 2, 2] := by decide

end Raptor.C06Par
