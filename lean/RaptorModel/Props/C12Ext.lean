import RaptorModel.Props.C12
import RaptorModel.Lemmas.ExtInterpLemmas
/-!
# C12 (extension) — extended+i classical interpolation

For the executable model `cHat` / `extPass1` / `extFine` / `extendedRow` / `extended` of `Model/Interp.lean`:
1. a coarse row is the unit row `[(colToNew states i, 1)]` (`extendedRow_injection`, `extended_injection`);
2. the interpolation set `cHat` has pairwise distinct columns (`cHat_keys_nodup`) and consists exactly of the
   coarse points reachable from `i` through strong connections within distance two (`cHat_mem_iff`);
3. the columns of a fine row are exactly `colToNew` of `cHat`, in the same order (`extendedRow_support`); hence
   a fine point interpolates only from coarse points at strong distance ≤ 2 (`extended_support`) and every column
   index is `< numCoarse states` (`extended_col_lt`, `extended_shape`);
4. conservation (`extPass1_total`, `extFine_total_gen`, `extFinal_total`): with an exact test `tiny x ↔ x = 0`,
   numerators + lumped diagonal of a fine row = row sum of `A`; so the weights of a fine row with zero row sum
   add up to one (`extendedRow_rowsum_one`), and under the M-matrix guard the denominator is positive
   (`extendedRow_finite`, `extendedRow_rowsum_one_of_MMatrixRow`, `extended_rowsum_one_of_MMatrixRow`); for a
   tolerance test the tiny branch leaks `cs²` and the weights sum to `1 − extLeak / extDen`
   (`extFinal_total_gen`, `extendedRow_rowsum_gen`);
5. examples over `ℚ`, including the tiny-branch leak `cs²` (see `extFine_total_gen`).
-/
namespace Raptor.C12Ext
open Raptor.Interp Raptor.C12

/-! ## 1. injection, rows of `extended` -/
section Injection
variable {K : Type} [Field K] [LinearOrder K]

theorem extendedRow_injection (tiny : K → Bool) {states : List Int} (A S : List (List (Nat × K))) {i : Nat}
    (h : isC states i = true) : extendedRow tiny states A S i = [(colToNew states i, 1)] := by
  unfold extendedRow; rw [if_pos h]

theorem extended_length (tiny : K → Bool) (states : List Int) (A S : List (List (Nat × K))) :
    (extended tiny states A S).length = A.length := by
  simp [extended]

theorem extended_getElem? (tiny : K → Bool) (states : List Int) (A S : List (List (Nat × K))) {i : Nat}
    (hA : i < A.length) : (extended tiny states A S)[i]? = some (extendedRow tiny states A S i) := by
  simp [extended, hA]

theorem extended_getElem?_none (tiny : K → Bool) (states : List Int) (A S : List (List (Nat × K))) {i : Nat}
    (hA : A.length ≤ i) : (extended tiny states A S)[i]? = none := by
  simp [extended, hA]

theorem extended_injection (tiny : K → Bool) (states : List Int) (A S : List (List (Nat × K))) {i : Nat}
    (hA : i < A.length) (h : isC states i = true) :
    (extended tiny states A S)[i]? = some [(colToNew states i, 1)] := by
  rw [extended_getElem? tiny states A S hA, extendedRow_injection tiny A S h]

end Injection

/-! ## 2. the interpolation set -/
section CHat
variable {K : Type} [Zero K]

/-- no column occurs twice in `cHat` -/
theorem cHat_keys_nodup (states : List Int) (S : List (List (Nat × K))) (i : Nat) :
    ((cHat states S i).map (·.1)).Nodup := Raptor.Interp.cHat_keys_nodup states S i

/-- `c` is strongly connected to `i` within distance two: it is a strong neighbour of `i`, or a strong
    neighbour of a strong *fine* neighbour `k` of `i` -/
def StrongReach (states : List Int) (S : List (List (Nat × K))) (i c : Nat) : Prop :=
  c ∈ (offDiag i (S.getD i [])).map (·.1) ∨
    ∃ k ∈ (offDiag i (S.getD i [])).map (·.1), isF states k = true ∧ c ∈ (offDiag k (S.getD k [])).map (·.1)

/-- **the interpolation set is exactly the set of coarse points within strong distance two** -/
theorem cHat_mem_iff (states : List Int) (S : List (List (Nat × K))) (i c : Nat) :
    c ∈ (cHat states S i).map (·.1) ↔ isC states c = true ∧ StrongReach states S i c := by
  rw [cHat_mem_iff']
  unfold StrongReach
  simp only [List.mem_map]
  constructor
  · rintro (⟨e, he, hC, rfl⟩ | ⟨e, he, hF, k, hk, hC, rfl⟩)
    · exact ⟨hC, Or.inl ⟨e, he, rfl⟩⟩
    · exact ⟨hC, Or.inr ⟨e.1, ⟨e, he, rfl⟩, hF, k, hk, rfl⟩⟩
  · rintro ⟨hC, ⟨e, he, rfl⟩ | ⟨k, ⟨e, he, rfl⟩, hF, k', hk', rfl⟩⟩
    · exact Or.inl ⟨e, he, hC, rfl⟩
    · exact Or.inr ⟨e, he, hF, k', hk', hC, rfl⟩

/-- every point of `cHat` is coarse and reachable through strong connections within distance two -/
theorem cHat_mem_reach {states : List Int} {S : List (List (Nat × K))} {i c : Nat}
    (h : c ∈ (cHat states S i).map (·.1)) : isC states c = true ∧ StrongReach states S i c :=
  (cHat_mem_iff states S i c).mp h

/-- conversely every such coarse point is in `cHat` -/
theorem cHat_mem_of_reach {states : List Int} {S : List (List (Nat × K))} {i c : Nat}
    (hC : isC states c = true) (h : StrongReach states S i c) : c ∈ (cHat states S i).map (·.1) :=
  (cHat_mem_iff states S i c).mpr ⟨hC, h⟩

theorem cHat_isC {states : List Int} {S : List (List (Nat × K))} {i : Nat} {e : Nat × K}
    (he : e ∈ cHat states S i) : isC states e.1 = true :=
  (cHat_mem_reach (List.mem_map_of_mem he)).1

omit [Zero K] in
/-- the version with `S[i]` for an index in range -/
theorem strongReach_getElem {states : List Int} {S : List (List (Nat × K))} {i c : Nat} (hS : i < S.length) :
    StrongReach states S i c ↔ (c ∈ (offDiag i S[i]).map (·.1) ∨
      ∃ k ∈ (offDiag i S[i]).map (·.1), isF states k = true ∧ c ∈ (offDiag k (S.getD k [])).map (·.1)) := by
  unfold StrongReach
  rw [List.getD_eq_getElem?_getD, List.getElem?_eq_getElem hS, Option.getD_some]

end CHat

/-! ## 3. support, column range, shape -/
section Support
variable {K : Type} [Field K] [LinearOrder K]

omit [LinearOrder K] in
theorem addAt_keys (l : List (Nat × K)) (c : Nat) (v : K) : (addAt l c v).map (·.1) = l.map (·.1) :=
  Raptor.Interp.addAt_keys l c v

omit [LinearOrder K] in
theorem extPass1_keys (states : List Int) (A S : List (List (Nat × K))) (i : Nat) :
    (extPass1 states A S i).1.map (·.1) = (cHat states S i).map (·.1) :=
  Raptor.Interp.extPass1_keys states A S i

theorem extFine_keys (tiny : K → Bool) (states : List Int) (A : List (List (Nat × K))) (i : Nat)
    (inHat : Nat → Bool) (pw : List (Nat × K) × K) (e : Nat × K) :
    (extFine tiny states A i inHat pw e).1.map (·.1) = pw.1.map (·.1) :=
  Raptor.Interp.extFine_keys tiny states A i inHat pw e

/-- **support of a fine row**: its columns are the coarse numbers of `cHat`, same length, same order -/
theorem extendedRow_support (tiny : K → Bool) {states : List Int} (A S : List (List (Nat × K))) {i : Nat}
    (h : isC states i = false) :
    (extendedRow tiny states A S i).map (·.1) = (cHat states S i).map fun e => colToNew states e.1 := by
  rw [extendedRow_fine_eq tiny A S h, List.map_map]
  have hk := congrArg (List.map (colToNew states)) (extFinal_keys tiny states A S i)
  rw [List.map_map, List.map_map] at hk
  exact hk

theorem extendedRow_length (tiny : K → Bool) {states : List Int} (A S : List (List (Nat × K))) {i : Nat}
    (h : isC states i = false) : (extendedRow tiny states A S i).length = (cHat states S i).length := by
  have := congrArg List.length (extendedRow_support tiny A S h)
  simpa using this

/-- the columns of a fine row are pairwise distinct -/
theorem extendedRow_cols_nodup (tiny : K → Bool) {states : List Int} (A S : List (List (Nat × K))) {i : Nat}
    (h : isC states i = false) : ((extendedRow tiny states A S i).map (·.1)).Nodup := by
  rw [extendedRow_support tiny A S h]
  have hnd := cHat_keys_nodup states S i
  have : ((cHat states S i).map fun e => colToNew states e.1)
      = ((cHat states S i).map (·.1)).map (colToNew states) := by rw [List.map_map]; rfl
  rw [this]
  refine nodup_map_on (colToNew states) _ ?_ hnd
  intro a ha b hb hab
  exact colToNew_inj_on_C (cHat_mem_reach ha).1 (cHat_mem_reach hb).1 hab

/-- **a fine point interpolates only from coarse points reachable through its strong connections
    within distance two** -/
theorem extendedRow_support_mem (tiny : K → Bool) {states : List Int} (A S : List (List (Nat × K))) {i : Nat}
    (h : isC states i = false) {c : Nat} {w : K} (hcw : (c, w) ∈ extendedRow tiny states A S i) :
    ∃ j, isC states j = true ∧ c = colToNew states j ∧ StrongReach states S i j := by
  have hc : c ∈ (extendedRow tiny states A S i).map (·.1) := List.mem_map_of_mem (f := (·.1)) hcw
  rw [extendedRow_support tiny A S h, List.mem_map] at hc
  obtain ⟨e, he, rfl⟩ := hc
  obtain ⟨hC, hR⟩ := cHat_mem_reach (List.mem_map_of_mem (f := (·.1)) he)
  exact ⟨e.1, hC, rfl, hR⟩

/-- conversely every coarse point within strong distance two gets a column -/
theorem extendedRow_support_complete (tiny : K → Bool) {states : List Int} (A S : List (List (Nat × K)))
    {i j : Nat} (h : isC states i = false) (hC : isC states j = true) (hR : StrongReach states S i j) :
    colToNew states j ∈ (extendedRow tiny states A S i).map (·.1) := by
  rw [extendedRow_support tiny A S h]
  have := cHat_mem_of_reach hC hR
  rw [List.mem_map] at this ⊢
  obtain ⟨e, he, rfl⟩ := this
  exact ⟨e, he, rfl⟩

theorem extended_support (tiny : K → Bool) (states : List Int) (A S : List (List (Nat × K))) {i : Nat}
    (h : isC states i = false) {row : List (Nat × K)}
    (hrow : (extended tiny states A S)[i]? = some row) {c : Nat} {w : K} (hcw : (c, w) ∈ row) :
    ∃ j, isC states j = true ∧ c = colToNew states j ∧ StrongReach states S i j := by
  have hA : i < A.length := by
    by_contra hge
    rw [extended_getElem?_none tiny states A S (Nat.le_of_not_lt hge)] at hrow
    cases hrow
  rw [extended_getElem? tiny states A S hA] at hrow
  cases hrow
  exact extendedRow_support_mem tiny A S h hcw

theorem extendedRow_col_lt (tiny : K → Bool) (states : List Int) (A S : List (List (Nat × K))) (i : Nat) :
    ∀ e ∈ extendedRow tiny states A S i, e.1 < numCoarse states := by
  intro e he
  cases h : isC states i with
  | true =>
    rw [extendedRow_injection tiny A S h, List.mem_singleton] at he
    rw [he]; exact colToNew_lt_numCoarse h
  | false =>
    obtain ⟨j, hC, hc, _⟩ := extendedRow_support_mem (c := e.1) (w := e.2) tiny A S h he
    rw [hc]; exact colToNew_lt_numCoarse hC

/-- every column index of `extended` is a coarse index -/
theorem extended_col_lt (tiny : K → Bool) (states : List Int) (A S : List (List (Nat × K))) :
    ∀ row ∈ extended tiny states A S, ∀ e ∈ row, e.1 < numCoarse states := by
  intro row hrow
  unfold extended at hrow
  rw [List.mem_map] at hrow
  obtain ⟨i, _, rfl⟩ := hrow
  exact extendedRow_col_lt tiny states A S i

theorem extended_shape (tiny : K → Bool) (states : List Int) (A S : List (List (Nat × K))) :
    (extended tiny states A S).length = A.length
    ∧ ∀ row ∈ extended tiny states A S, ∀ e ∈ row, e.1 < numCoarse states :=
  ⟨extended_length tiny states A S, extended_col_lt tiny states A S⟩

end Support

/-! ## 4. conservation and the row sum -/
section RowSum
variable {K : Type} [Field K] [LinearOrder K]

omit [LinearOrder K] in
/-- `addAt` at a key of the list adds `v` to numerators + lumped diagonal -/
theorem addAt_total (l : List (Nat × K)) (w : K) (c : Nat) (v : K)
    (hnd : (l.map (·.1)).Nodup) (hc : c ∈ l.map (·.1)) :
    total (addAt l c v, w) = total (l, w) + v := Raptor.Interp.addAt_total l w c v hnd hc

omit [LinearOrder K] in
/-- **conservation, pass 1**: numerators + lumped diagonal = initial numerators + diagonal + all non-strong
    entries of row `i` (no hypothesis) -/
theorem extPass1_total (states : List Int) (A S : List (List (Nat × K))) (i : Nat) :
    total (extPass1 states A S i) = ((cHat states S i).map (·.2)).sum + diagVal (A.getD i [])
      + ((((A.getD i []).drop 1).filter fun e =>
          !((offDiag i (S.getD i [])).map (·.1)).contains e.1).map (·.2)).sum :=
  Raptor.Interp.extPass1_total states A S i

omit [LinearOrder K] in
/-- the initial numerators add up to the strong coarse entries (distinct strong columns) -/
theorem cHat_sum (states : List Int) (S : List (List (Nat × K))) (i : Nat)
    (hnd : ((offDiag i (S.getD i [])).map (·.1)).Nodup) :
    ((cHat states S i).map (·.2)).sum
      = (((offDiag i (S.getD i [])).filter fun e => isC states e.1).map (·.2)).sum :=
  Raptor.Interp.cHat_sum states S i hnd

/-- **conservation, one strong fine neighbour** `(k, a_ik)` whose row is an M-matrix row: numerators + lumped
    diagonal grow by `a_ik`, plus `cs²` if the `tiny` branch fires (the model, like the C++, multiplies by the tiny
    `cs` itself in that branch); `cs` must be non-zero in the other branch -/
theorem extFine_total_gen (tiny : K → Bool) (states : List Int) (A S : List (List (Nat × K))) (i : Nat)
    (pw : List (Nat × K) × K) (e : Nat × K) (hpw : pw.1.map (·.1) = (cHat states S i).map (·.1))
    (h : isC states i = false) (hM : MMatrixRow e.1 (A.getD e.1 []))
    (hcs : tiny (fineCs A i (fun c => (cHat states S i).any (·.1 == c)) e.1) = false →
      fineCs A i (fun c => (cHat states S i).any (·.1 == c)) e.1 ≠ 0) :
    total (extFine tiny states A i (fun c => (cHat states S i).any (·.1 == c)) pw e) = total pw + e.2 +
      (if tiny (fineCs A i (fun c => (cHat states S i).any (·.1 == c)) e.1)
        then fineCs A i (fun c => (cHat states S i).any (·.1 == c)) e.1
          * fineCs A i (fun c => (cHat states S i).any (·.1 == c)) e.1 else 0) := by
  obtain ⟨dk, koffs, hkrow, hdk, hkoff⟩ := hM
  have hin : ∀ c, ((cHat states S i).any (·.1 == c)) = true → c ∈ (cHat states S i).map (·.1) :=
    fun c hc => (any_key_iff _ c).mp hc
  exact Raptor.Interp.extFine_total_gen tiny states A i _ _ (cHat_keys_nodup states S i) hin pw e hpw
    e.1 dk koffs hkrow hdk hkoff h (fun c hc => (cHat_mem_reach (hin c hc)).1) hcs

theorem extFine_total (tiny : K → Bool) (htiny : ∀ x, tiny x = true ↔ x = 0)
    (states : List Int) (A S : List (List (Nat × K))) (i : Nat)
    (pw : List (Nat × K) × K) (e : Nat × K) (hpw : pw.1.map (·.1) = (cHat states S i).map (·.1))
    (h : isC states i = false) (hM : MMatrixRow e.1 (A.getD e.1 [])) :
    total (extFine tiny states A i (fun c => (cHat states S i).any (·.1 == c)) pw e) = total pw + e.2 := by
  obtain ⟨dk, koffs, hkrow, hdk, hkoff⟩ := hM
  have hin : ∀ c, ((cHat states S i).any (·.1 == c)) = true → c ∈ (cHat states S i).map (·.1) :=
    fun c hc => (any_key_iff _ c).mp hc
  exact Raptor.Interp.extFine_total tiny htiny states A i _ _ (cHat_keys_nodup states S i) hin pw e hpw
    e.1 dk koffs hkrow hdk hkoff h (fun c hc => (cHat_mem_reach (hin c hc)).1)

omit [LinearOrder K] in
/-- the last step: numerators + denominator = 0 and a non-zero denominator give weights that sum to one -/
theorem rowsum_one_of_total_zero (pw : List (Nat × K) × K) (h0 : total pw = 0) (hden : pw.2 ≠ 0) :
    (pw.1.map fun e => e.2 / (-pw.2)).sum = 1 := Raptor.Interp.rowsum_one_of_total_zero pw h0 hden

/-- **conservation law**: for a fine row `i` whose row of `A` is `(c0, d) :: offs` with distinct off-diagonal
    columns, whose strong off-diagonal entries are a sub-list of `offs`, all coarse or fine, every strong fine
    neighbour having an M-matrix row, and an exact `tiny`: numerators + lumped diagonal = row sum of `A` -/
theorem extFinal_total (tiny : K → Bool) (htiny : ∀ x, tiny x = true ↔ x = 0) {states : List Int}
    (A S : List (List (Nat × K))) {i : Nat} (c0 : Nat) (d : K) (offs : List (Nat × K))
    (h : isC states i = false)
    (hrow : A.getD i [] = (c0, d) :: offs)
    (hnd : (offs.map (·.1)).Nodup)
    (hsub : (offDiag i (S.getD i [])).Sublist offs)
    (hCF : ∀ e ∈ offDiag i (S.getD i []), isC states e.1 = true ∨ isF states e.1 = true)
    (hK : ∀ e ∈ offDiag i (S.getD i []), isF states e.1 = true → MMatrixRow e.1 (A.getD e.1 [])) :
    total (extFinal tiny states A S i) = d + (offs.map (·.2)).sum := by
  obtain ⟨_, h2⟩ := foldl_total_inv
    (extFine tiny states A i fun c => (cHat states S i).any (·.1 == c)) (·.2)
    ((cHat states S i).map (·.1)) ((offDiag i (S.getD i [])).filter fun e => isF states e.1)
    (fun pw e he hpw => by
      rw [List.mem_filter] at he
      refine ⟨?_, extFine_total tiny htiny states A S i pw e hpw h (hK e he.1 he.2)⟩
      rw [Raptor.Interp.extFine_keys, hpw])
    (extPass1 states A S i) (Raptor.Interp.extPass1_keys states A S i)
  have hsnd : ((offDiag i (S.getD i [])).map (·.1)).Nodup := List.Nodup.sublist (hsub.map _) hnd
  unfold extFinal
  rw [h2, Raptor.Interp.extPass1_total, Raptor.Interp.cHat_sum states S i hsnd, hrow]
  have hF : (offDiag i (S.getD i [])).filter (fun e => isF states e.1)
      = (offDiag i (S.getD i [])).filter (fun e => !isC states e.1) := by
    apply List.filter_congr
    intro e he
    rcases hCF e he with hc | hf
    · rw [hc, isC_isF_excl hc]; rfl
    · rw [hf]
      cases hc : isC states e.1 with
      | false => rfl
      | true => rw [isC_isF_excl hc] at hf; exact Bool.noConfusion hf
  rw [hF]
  have h1 := sum_filter_split_bool (fun e : Nat × K => isC states e.1) (·.2) (offDiag i (S.getD i []))
  have h3 := sum_filter_split_bool
    (fun e : Nat × K => ((offDiag i (S.getD i [])).map (·.1)).contains e.1) (·.2) offs
  rw [filter_contains_of_sublist hsub hnd] at h3
  simp only [diagVal, List.head?_cons, Option.map_some, Option.getD_some, List.drop_succ_cons, List.drop_zero]
  linear_combination h1 + h3

/-- the amount the `tiny` branches leak into numerators + denominator: `Σ cs_k²` over the strong fine neighbours
    `k` of `i` whose `cs_k` is tiny -/
def extLeak (tiny : K → Bool) (states : List Int) (A S : List (List (Nat × K))) (i : Nat) : K :=
  (((offDiag i (S.getD i [])).filter fun e => isF states e.1).map fun e =>
    if tiny (fineCs A i (fun c => (cHat states S i).any (·.1 == c)) e.1)
      then fineCs A i (fun c => (cHat states S i).any (·.1 == c)) e.1
        * fineCs A i (fun c => (cHat states S i).any (·.1 == c)) e.1 else 0).sum

/-- **conservation law for an arbitrary tolerance test** with `tiny 0 = true`: numerators + lumped diagonal
    = row sum of `A` + `extLeak` -/
theorem extFinal_total_gen (tiny : K → Bool) (htiny : tiny 0 = true) {states : List Int}
    (A S : List (List (Nat × K))) {i : Nat} (c0 : Nat) (d : K) (offs : List (Nat × K))
    (h : isC states i = false)
    (hrow : A.getD i [] = (c0, d) :: offs)
    (hnd : (offs.map (·.1)).Nodup)
    (hsub : (offDiag i (S.getD i [])).Sublist offs)
    (hCF : ∀ e ∈ offDiag i (S.getD i []), isC states e.1 = true ∨ isF states e.1 = true)
    (hK : ∀ e ∈ offDiag i (S.getD i []), isF states e.1 = true → MMatrixRow e.1 (A.getD e.1 [])) :
    total (extFinal tiny states A S i) = d + (offs.map (·.2)).sum + extLeak tiny states A S i := by
  obtain ⟨_, h2⟩ := foldl_total_inv
    (extFine tiny states A i fun c => (cHat states S i).any (·.1 == c))
    (fun e => e.2 + (if tiny (fineCs A i (fun c => (cHat states S i).any (·.1 == c)) e.1)
      then fineCs A i (fun c => (cHat states S i).any (·.1 == c)) e.1
        * fineCs A i (fun c => (cHat states S i).any (·.1 == c)) e.1 else 0))
    ((cHat states S i).map (·.1)) ((offDiag i (S.getD i [])).filter fun e => isF states e.1)
    (fun pw e he hpw => by
      rw [List.mem_filter] at he
      refine ⟨by rw [Raptor.Interp.extFine_keys, hpw], ?_⟩
      rw [extFine_total_gen tiny states A S i pw e hpw h (hK e he.1 he.2)
        (fun ht h0 => by rw [h0, htiny] at ht; exact Bool.noConfusion ht), add_assoc])
    (extPass1 states A S i) (Raptor.Interp.extPass1_keys states A S i)
  have hsnd : ((offDiag i (S.getD i [])).map (·.1)).Nodup := List.Nodup.sublist (hsub.map _) hnd
  unfold extFinal extLeak
  rw [h2, List.sum_map_add, Raptor.Interp.extPass1_total, Raptor.Interp.cHat_sum states S i hsnd, hrow]
  have hF : (offDiag i (S.getD i [])).filter (fun e => isF states e.1)
      = (offDiag i (S.getD i [])).filter (fun e => !isC states e.1) := by
    apply List.filter_congr
    intro e he
    rcases hCF e he with hc | hf
    · rw [hc, isC_isF_excl hc]; rfl
    · rw [hf]
      cases hc : isC states e.1 with
      | false => rfl
      | true => rw [isC_isF_excl hc] at hf; exact Bool.noConfusion hf
  have h1 := sum_filter_split_bool (fun e : Nat × K => isC states e.1) (·.2) (offDiag i (S.getD i []))
  have h3 := sum_filter_split_bool
    (fun e : Nat × K => ((offDiag i (S.getD i [])).map (·.1)).contains e.1) (·.2) offs
  rw [filter_contains_of_sublist hsub hnd] at h3
  rw [← hF] at h1
  simp only [diagVal, List.head?_cons, Option.map_some, Option.getD_some, List.drop_succ_cons, List.drop_zero]
  linear_combination h1 + h3

/-- **row sum for an arbitrary tolerance test**: on a zero-row-sum row the weights add up to
    `1 − extLeak / extDen` -/
theorem extendedRow_rowsum_gen (tiny : K → Bool) (htiny : tiny 0 = true) {states : List Int}
    (A S : List (List (Nat × K))) {i : Nat} (c0 : Nat) (d : K) (offs : List (Nat × K))
    (h : isC states i = false)
    (hrow : A.getD i [] = (c0, d) :: offs)
    (hnd : (offs.map (·.1)).Nodup)
    (hsub : (offDiag i (S.getD i [])).Sublist offs)
    (hCF : ∀ e ∈ offDiag i (S.getD i []), isC states e.1 = true ∨ isF states e.1 = true)
    (hK : ∀ e ∈ offDiag i (S.getD i []), isF states e.1 = true → MMatrixRow e.1 (A.getD e.1 []))
    (hsum : d + lsumK (offs.map (·.2)) = 0)
    (hden : extDen tiny states A S i ≠ 0) :
    lsumK ((extendedRow tiny states A S i).map (·.2))
      = 1 - extLeak tiny states A S i / extDen tiny states A S i := by
  rw [extendedRow_fine_eq tiny A S h, lsumK_eq_sum, List.map_map]
  rw [lsumK_eq_sum] at hsum
  have ht := extFinal_total_gen tiny htiny A S c0 d offs h hrow hnd hsub hCF hK
  rw [hsum, zero_add] at ht
  have hs := sum_map_div' (-extDen tiny states A S i) (·.2) (extFinal tiny states A S i).1
  unfold total at ht
  have hd' : (extFinal tiny states A S i).2 = extDen tiny states A S i := rfl
  rw [hd'] at ht
  refine Eq.trans hs ?_
  rw [← ht]
  field_simp
  ring

/-- **Row sum of a fine row of extended+i interpolation.**  Hypotheses:
* `i` is not coarse; `tiny` is the exact test `x = 0`;
* row `i` of `A` is `(c0, d) :: offs` (diagonal first) with pairwise distinct off-diagonal columns and zero sum;
* the strong off-diagonal entries `offDiag i S[i]` form a sub-list of `offs` (same values, same order);
* every strong neighbour of `i` is coarse or fine (no isolated labels);
* every strong fine neighbour `k` has an M-matrix row (diagonal first and positive, off-diagonals non-positive);
* the final denominator `extDen` is non-zero. -/
theorem extendedRow_rowsum_one (tiny : K → Bool) (htiny : ∀ x, tiny x = true ↔ x = 0) {states : List Int}
    (A S : List (List (Nat × K))) {i : Nat} (c0 : Nat) (d : K) (offs : List (Nat × K))
    (h : isC states i = false)
    (hrow : A.getD i [] = (c0, d) :: offs)
    (hnd : (offs.map (·.1)).Nodup)
    (hsub : (offDiag i (S.getD i [])).Sublist offs)
    (hCF : ∀ e ∈ offDiag i (S.getD i []), isC states e.1 = true ∨ isF states e.1 = true)
    (hK : ∀ e ∈ offDiag i (S.getD i []), isF states e.1 = true → MMatrixRow e.1 (A.getD e.1 []))
    (hsum : d + lsumK (offs.map (·.2)) = 0)
    (hden : extDen tiny states A S i ≠ 0) :
    lsumK ((extendedRow tiny states A S i).map (·.2)) = 1 := by
  rw [extendedRow_fine_eq tiny A S h, lsumK_eq_sum, List.map_map]
  rw [lsumK_eq_sum] at hsum
  have ht := extFinal_total tiny htiny A S c0 d offs h hrow hnd hsub hCF hK
  rw [hsum] at ht
  exact Raptor.Interp.rowsum_one_of_total_zero (extFinal tiny states A S i) ht hden

end RowSum

/-! ## 4b. the denominator is positive under the M-matrix guard -/
section Finite
variable {K : Type} [Field K] [LinearOrder K] [IsStrictOrderedRing K]

/-- the numerators only decrease from their initial values (all contributions are non-positive) -/
theorem extFinal_numsum_le (tiny : K → Bool) (htiny : ∀ x, tiny x = true ↔ x = 0) {states : List Int}
    (A S : List (List (Nat × K))) {i : Nat} (offs : List (Nat × K))
    (hdrop : (A.getD i []).drop 1 = offs) (hoff : ∀ e ∈ offs, e.2 ≤ 0)
    (hsub : (offDiag i (S.getD i [])).Sublist offs)
    (hK : ∀ e ∈ offDiag i (S.getD i []), isF states e.1 = true → MMatrixRow e.1 (A.getD e.1 [])) :
    ((extFinal tiny states A S i).1.map (·.2)).sum ≤ ((cHat states S i).map (·.2)).sum := by
  unfold extFinal
  refine le_trans (foldl_numsum_le _ ((cHat states S i).map (·.1)) _ (fun pw e he hpw => ?_) _
    (Raptor.Interp.extPass1_keys states A S i)) (extPass1_numsum_le states A S i (hdrop ▸ hoff))
  rw [List.mem_filter] at he
  obtain ⟨dk, koffs, hkrow, hdk, hkoff⟩ := hK e he.1 he.2
  exact extFine_numsum_le tiny htiny states A i _ _ (cHat_keys_nodup states S i) pw e hpw
    (hoff e (hsub.subset he.1)) e.1 dk koffs hkrow hdk hkoff

/-- **finiteness**: on an M-matrix row `i` with zero row sum and a strong coarse neighbour with a negative
    value, the final denominator of `extendedRow` is positive -/
theorem extendedRow_finite (tiny : K → Bool) (htiny : ∀ x, tiny x = true ↔ x = 0) {states : List Int}
    (A S : List (List (Nat × K))) {i : Nat} (c0 : Nat) (d : K) (offs : List (Nat × K))
    (h : isC states i = false)
    (hrow : A.getD i [] = (c0, d) :: offs) (hoff : ∀ e ∈ offs, e.2 ≤ 0)
    (hnd : (offs.map (·.1)).Nodup)
    (hsub : (offDiag i (S.getD i [])).Sublist offs)
    (hCF : ∀ e ∈ offDiag i (S.getD i []), isC states e.1 = true ∨ isF states e.1 = true)
    (hK : ∀ e ∈ offDiag i (S.getD i []), isF states e.1 = true → MMatrixRow e.1 (A.getD e.1 []))
    (hsum : d + lsumK (offs.map (·.2)) = 0)
    (hex : ∃ e ∈ offDiag i (S.getD i []), isC states e.1 = true ∧ e.2 < 0) :
    0 < extDen tiny states A S i := by
  have ht := extFinal_total tiny htiny A S c0 d offs h hrow hnd hsub hCF hK
  rw [lsumK_eq_sum] at hsum
  rw [hsum] at ht
  have hle := extFinal_numsum_le tiny htiny A S offs (by rw [hrow]; rfl) hoff hsub hK
  have hsnd : ((offDiag i (S.getD i [])).map (·.1)).Nodup := List.Nodup.sublist (hsub.map _) hnd
  rw [Raptor.Interp.cHat_sum states S i hsnd] at hle
  have hneg : (((offDiag i (S.getD i [])).filter fun e => isC states e.1).map (·.2)).sum < 0 := by
    apply list_sum_neg_of_exists
    · intro x hx
      simp only [List.mem_map, List.mem_filter] at hx
      obtain ⟨e, ⟨he, _⟩, rfl⟩ := hx
      exact hoff e (hsub.subset he)
    · obtain ⟨e, he, hC, hlt⟩ := hex
      exact ⟨e.2, List.mem_map_of_mem (List.mem_filter.mpr ⟨he, hC⟩), hlt⟩
  unfold total at ht
  unfold extDen
  linarith

/-- **C12, extended+i interpolation**: on an M-matrix row (diagonal first, distinct columns) with zero row sum,
    whose strong entries are a sub-list of the row, all coarse or fine, one of them coarse with a negative value,
    and whose strong fine neighbours have M-matrix rows, the weights are finite (positive denominator) and sum to one
    (`tiny` exact) -/
theorem extendedRow_rowsum_one_of_MMatrixRow (tiny : K → Bool) (htiny : ∀ x, tiny x = true ↔ x = 0)
    {states : List Int} (A S : List (List (Nat × K))) {i : Nat}
    (h : isC states i = false)
    (hM : MMatrixRow i (A.getD i [])) (hnd : ((A.getD i []).map (·.1)).Nodup)
    (hsub : (offDiag i (S.getD i [])).Sublist ((A.getD i []).drop 1))
    (hCF : ∀ e ∈ offDiag i (S.getD i []), isC states e.1 = true ∨ isF states e.1 = true)
    (hK : ∀ e ∈ offDiag i (S.getD i []), isF states e.1 = true → MMatrixRow e.1 (A.getD e.1 []))
    (hsum : lsumK ((A.getD i []).map (·.2)) = 0)
    (hex : ∃ e ∈ offDiag i (S.getD i []), isC states e.1 = true ∧ e.2 < 0) :
    lsumK ((extendedRow tiny states A S i).map (·.2)) = 1 := by
  obtain ⟨d, offs, hrow, _, hoff⟩ := hM
  rw [hrow] at hnd hsub hsum
  rw [List.map_cons, List.nodup_cons] at hnd
  have hsub' : (offDiag i (S.getD i [])).Sublist offs := by simpa using hsub
  have hsum' : d + lsumK (offs.map (·.2)) = 0 := by
    rw [lsumK_eq_sum] at hsum ⊢
    simpa using hsum
  exact extendedRow_rowsum_one tiny htiny A S i d offs h hrow hnd.2 hsub' hCF hK hsum'
    (ne_of_gt (extendedRow_finite tiny htiny A S i d offs h hrow hoff hnd.2 hsub' hCF hK hsum' hex))

/-- the same for row `i` of `extended`, with `A[i]`, `S[i]` -/
theorem extended_rowsum_one_of_MMatrixRow (tiny : K → Bool) (htiny : ∀ x, tiny x = true ↔ x = 0)
    (states : List Int) (A S : List (List (Nat × K))) {i : Nat} (hA : i < A.length) (hS : i < S.length)
    (h : isC states i = false)
    (hM : MMatrixRow i A[i]) (hnd : (A[i].map (·.1)).Nodup)
    (hsub : (offDiag i S[i]).Sublist (A[i].drop 1))
    (hCF : ∀ e ∈ offDiag i S[i], isC states e.1 = true ∨ isF states e.1 = true)
    (hK : ∀ e ∈ offDiag i S[i], isF states e.1 = true → MMatrixRow e.1 (A.getD e.1 []))
    (hsum : lsumK (A[i].map (·.2)) = 0)
    (hex : ∃ e ∈ offDiag i S[i], isC states e.1 = true ∧ e.2 < 0) :
    ∃ row, (extended tiny states A S)[i]? = some row ∧ lsumK (row.map (·.2)) = 1 := by
  refine ⟨_, extended_getElem? tiny states A S hA, ?_⟩
  have hAi : A.getD i [] = A[i] := by
    rw [List.getD_eq_getElem?_getD, List.getElem?_eq_getElem hA, Option.getD_some]
  have hSi : S.getD i [] = S[i] := by
    rw [List.getD_eq_getElem?_getD, List.getElem?_eq_getElem hS, Option.getD_some]
  apply extendedRow_rowsum_one_of_MMatrixRow tiny htiny A S h
  · rw [hAi]; exact hM
  · rw [hAi]; exact hnd
  · rw [hAi, hSi]; exact hsub
  · rw [hSi]; exact hCF
  · rw [hSi]; exact hK
  · rw [hAi]; exact hsum
  · rw [hSi]; exact hex

end Finite

/-! ## 5. examples over `ℚ` (exact arithmetic, `tinyQ x ↔ x = 0`) -/
section Examples

theorem tinyQ_exact : ∀ x : ℚ, tinyQ x = true ↔ x = 0 := by
  intro x; simp [tinyQ]

/-- three mutually strongly connected points, zero row sums, `S = A`; points 0, 1 fine, 2 coarse -/
def A3 : List (List (Nat × ℚ)) :=
  [[(0, 4), (1, -2), (2, -2)], [(1, 4), (0, -2), (2, -2)], [(2, 4), (0, -2), (1, -2)]]

example : extended tinyQ [0, 0, 1] A3 A3 = [[(0, 1)], [(0, 1)], [(0, 1)]] := by decide +kernel
example : (extended tinyQ [0, 0, 1] A3 A3).map (fun r => lsumK (r.map (·.2))) = [1, 1, 1] := by
  decide +kernel
example : cHat (K := ℚ) [0, 0, 1] A3 0 = [(2, -2)] := by decide +kernel
/-- pass 1 leaves the strong entries alone; the fine neighbour 1 (`cs = -4`, `m = 1/2`) then gives `-1` to the
    numerator of point 2 and `-1` to the denominator -/
example : extPass1 [0, 0, 1] A3 A3 0 = ([(2, -2)], 4) := by decide +kernel
example : extFinal tinyQ [0, 0, 1] A3 A3 0 = ([(2, -3)], 3) := by decide +kernel

/-- the row-sum theorem applies to the fine row 0 of `A3` -/
example : ∃ row, (extended tinyQ [0, 0, 1] A3 A3)[0]? = some row ∧ lsumK (row.map (·.2)) = 1 :=
  extended_rowsum_one_of_MMatrixRow tinyQ tinyQ_exact [0, 0, 1] A3 A3 (i := 0) (by decide) (by decide)
    (by decide +kernel) ⟨4, [(1, -2), (2, -2)], rfl, by decide +kernel, by decide +kernel⟩
    (by decide +kernel) (by decide +kernel) (by decide +kernel)
    (by
      intro e he hF
      have he' : e = (1, -2) ∨ e = (2, -2) := by simpa [A3, offDiag] using he
      rcases he' with rfl | rfl
      · exact ⟨4, [(0, -2), (2, -2)], rfl, by decide +kernel, by decide +kernel⟩
      · exact absurd hF (by decide +kernel))
    (by decide +kernel) ⟨(2, -2), by decide +kernel, by decide +kernel, by decide +kernel⟩

/-- four points: 0, 1 fine, 2, 3 coarse.  Point 3 is *not* a strong neighbour of 0 (weak entry `-1/10`), but it is
    a strong neighbour of the strong fine neighbour 1 of 0, so it belongs to `cHat` of row 0 -/
def A4w : List (List (Nat × ℚ)) :=
  [[(0, 41/10), (1, -2), (2, -2), (3, -1/10)], [(1, 6), (0, -2), (2, -2), (3, -2)],
   [(2, 4), (0, -2), (1, -2)], [(3, 21/10), (0, -1/10), (1, -2)]]
def S4w : List (List (Nat × ℚ)) :=
  [[(0, 41/10), (1, -2), (2, -2)], [(1, 6), (0, -2), (2, -2), (3, -2)],
   [(2, 4), (0, -2), (1, -2)], [(3, 21/10), (1, -2)]]
/-- the same without the weak entry (diagonals compensated: zero row sums) -/
def A4n : List (List (Nat × ℚ)) :=
  [[(0, 4), (1, -2), (2, -2)], [(1, 6), (0, -2), (2, -2), (3, -2)],
   [(2, 4), (0, -2), (1, -2)], [(3, 2), (1, -2)]]

example : (cHat (K := ℚ) [0, 0, 1, 1] S4w 0).map (·.1) = [2, 3] := by decide +kernel
/-- the weak entry `a_03 = -1/10` lands in the numerator of the distance-two point 3 … -/
example : extPass1 [0, 0, 1, 1] A4w S4w 0 = ([(2, -2), (3, -1/10)], 41/10) := by decide +kernel
example : extended tinyQ [0, 0, 1, 1] A4w S4w
    = [[(0, 80/103), (1, 23/103)], [(0, 61/103), (1, 42/103)], [(0, 1)], [(1, 1)]] := by decide +kernel
example : extended tinyQ [0, 0, 1, 1] A4n A4n
    = [[(0, 4/5), (1, 1/5)], [(0, 3/5), (1, 2/5)], [(0, 1)], [(1, 1)]] := by decide +kernel
/-- … so the weight of point 3 (coarse index 1) in row 0 is larger than without the weak entry … -/
example : (1/5 : ℚ) < 23/103 := by decide +kernel
/-- … and every row still sums to one -/
example : (extended tinyQ [0, 0, 1, 1] A4w S4w).map (fun r => lsumK (r.map (·.2))) = [1, 1, 1, 1] := by
  decide +kernel
/-- modified classical interpolation lumps the same weak entry into the diagonal (one column only) -/
example : (modClassical tinyQ [0, 0, 1, 1] A4w S4w)[0]? = some [(0, 1)] := by decide +kernel

/-- the row-sum theorem applies to the fine row 0 of `A4w` -/
example : ∃ row, (extended tinyQ [0, 0, 1, 1] A4w S4w)[0]? = some row ∧ lsumK (row.map (·.2)) = 1 :=
  extended_rowsum_one_of_MMatrixRow tinyQ tinyQ_exact [0, 0, 1, 1] A4w S4w (i := 0) (by decide) (by decide)
    (by decide +kernel) ⟨41/10, [(1, -2), (2, -2), (3, -1/10)], rfl, by decide +kernel, by decide +kernel⟩
    (by decide +kernel) (by decide +kernel) (by decide +kernel)
    (by
      intro e he hF
      have he' : e = (1, -2) ∨ e = (2, -2) := by simpa [S4w, offDiag] using he
      rcases he' with rfl | rfl
      · exact ⟨6, [(0, -2), (2, -2), (3, -2)], rfl, by decide +kernel, by decide +kernel⟩
      · exact absurd hF (by decide +kernel))
    (by decide +kernel) ⟨(2, -2), by decide +kernel, by decide +kernel, by decide +kernel⟩

/-- **the exactness of `tiny` is needed.**  `A3` scaled by `1/1000` with the tolerance test `|x| < 1/100`: the
    `tiny` branch fires on `cs = -4/1000 ≠ 0`, the model multiplies the entries of row `k` by `cs` itself, `cs²`
    leaks into numerators + denominator (`extFine_total_gen`) and the fine rows sum to `249/251`, not `1` -/
def tinyTol : ℚ → Bool := fun x => decide (-1/100 < x ∧ x < 1/100)
def A3s : List (List (Nat × ℚ)) := A3.map fun r => r.map fun e => (e.1, e.2 / 1000)

example : extended tinyTol [0, 0, 1] A3s A3s = [[(0, 249/251)], [(0, 249/251)], [(0, 1)]] := by decide +kernel
example : extended tinyQ [0, 0, 1] A3s A3s = [[(0, 1)], [(0, 1)], [(0, 1)]] := by decide +kernel
example : total (extFinal tinyTol [0, 0, 1] A3s A3s 0) = (-4/1000) * (-4/1000) := by decide +kernel
/-- the defect is the one `extendedRow_rowsum_gen` predicts: `1 − extLeak / extDen` -/
example : extLeak tinyTol [0, 0, 1] A3s A3s 0 = 16/1000000 ∧ extDen tinyTol [0, 0, 1] A3s A3s 0 = 2008/1000000
    ∧ (1 : ℚ) - (16/1000000) / (2008/1000000) = 249/251 := by decide +kernel

end Examples

/- OPEN (not proved):
   * nothing among the five targets is left open for an exact `tiny` (`∀ x, tiny x = true ↔ x = 0`).
   * For a tolerance test (`tiny x ↔ |x| < tol`) the statement "the weights sum to one" is FALSE in general
     (example `A3s` above); the exact defect is proved instead (`extFinal_total_gen`, `extendedRow_rowsum_gen`:
     `Σ weights = 1 − extLeak / extDen`, `extLeak = Σ cs_k²` over the strong fine neighbours with a tiny `cs_k`).
     Not proved: positivity of `extDen` for a tolerance test (`extendedRow_finite` assumes an exact `tiny`), and
     an a-priori bound `extLeak ≤ (#strong fine neighbours) · tol²` (immediate from `tiny`, not stated). -/
end Raptor.C12Ext
