import RaptorModel.Props.C16
/-!
# C16 — the aggregate norms over a partition of the vertices

An aggregate may span several ranks. Each rank sums the squares of the candidate over *its* members
of aggregate `c`; the partial sums are added at the aggregate's owner. `sqNorm_blocks`: for every
list of block lengths summing to the number of vertices (empty ranks allowed), the sum of the ranks'
partial sums is the sum of squares over all members — the quantity under the root in
`coarseCandidate` / `tentative` — so `R` and `T` do not depend on the partition.
-/
namespace Raptor.C16
open Raptor.Candidates

noncomputable section

/-- the members of aggregate `c` among the vertices `first … first + len − 1` (one rank's share) -/
def membersIn (agg : List (Option Nat)) (c first len : Nat) : List Nat :=
  ((List.range len).map (first + ·)).filter fun i => agg.getD i none == some c

/-- the ranks' partial sums of squares, rank by rank -/
def partialSums (agg : List (Option Nat)) (B : List ℝ) (c : Nat) : Nat → List Nat → List ℝ
  | _, [] => []
  | first, len :: rest =>
    (membersIn agg c first len).foldl (fun s i => s + B.getD i 0 * B.getD i 0) 0 :: partialSums agg B c (first + len) rest

/-- **the sum of the ranks' partial sums is the global sum of squares over the aggregate** -/
theorem sqNorm_blocks (agg : List (Option Nat)) (B : List ℝ) (c : Nat) (first : Nat) (lens : List Nat) :
    (partialSums agg B c first lens).sum
      = ((((List.range lens.sum).map (first + ·)).filter fun i => agg.getD i none == some c).map
          fun k => B.getD k 0 * B.getD k 0).sum := by
  induction lens generalizing first with
  | nil => simp [partialSums]
  | cons len rest ih =>
    rw [partialSums, List.sum_cons, ih, foldl_eq_sum, membersIn, List.sum_cons, List.range_add, List.map_append,
      List.filter_append, List.map_append, List.sum_append, List.map_map]
    congr 4
    apply List.map_congr_left
    intro k _
    simp [Function.comp, Nat.add_assoc]

/-- with the blocks covering all vertices: the partial sums add up to the quantity under the root in `coarseCandidate` -/
theorem sqNorm_partition (agg : List (Option Nat)) (B : List ℝ) (c : Nat) (lens : List Nat) (h : lens.sum = agg.length) :
    (partialSums agg B c 0 lens).sum
      = (members agg c).foldl (fun s i => s + B.getD i 0 * B.getD i 0) 0 := by
  rw [sqNorm_blocks, foldl_eq_sum, h, members]
  simp

theorem sqNorm_partition_indep (agg : List (Option Nat)) (B : List ℝ) (c : Nat) (lens lens' : List Nat)
    (h : lens.sum = agg.length) (h' : lens'.sum = agg.length) :
    (partialSums agg B c 0 lens).sum = (partialSums agg B c 0 lens').sum := by
  rw [sqNorm_partition agg B c lens h, sqNorm_partition agg B c lens' h']

end

end Raptor.C16
