import RaptorModel.Model.Partition
import RaptorModel.Model.Topology
/-!
# C18 — row/column ownership and node maps are exact bijections

Property theorems only (helper lemmas are in the first section and are `private`-free so that the
audit can print their axioms too). All statements are unbounded in the sizes, the number of ranks
and PPN.
-/
namespace Raptor.C18
open Raptor.Partition Raptor.Topology

/-! ## block arithmetic -/

theorem blk_first_zero (n np : Nat) : blkFirst n np 0 = 0 := by
  unfold blkFirst; split <;> simp; omega

theorem blk_contig (n np r : Nat) :
    blkFirst n np (r+1) = blkFirst n np r + blkSize n np r := by
  unfold blkFirst blkSize
  split <;> split <;> simp_all [Nat.mul_add] <;> omega

theorem blk_first_last (n np : Nat) (hnp : 0 < np) : blkFirst n np np = n := by
  unfold blkFirst
  have h1 : n % np < np := Nat.mod_lt _ hnp
  have h2 := Nat.div_add_mod n np
  have h3 : n / np * np = np * (n / np) := Nat.mul_comm _ _
  split <;> omega

theorem blk_first_mono (n np : Nat) {r s : Nat} (h : r ≤ s) : blkFirst n np r ≤ blkFirst n np s := by
  induction s with
  | zero => have : r = 0 := by omega
            subst this; exact Nat.le_refl _
  | succ s ih =>
    rcases Nat.lt_or_ge r (s+1) with h' | h'
    · have := ih (by omega); rw [blk_contig]; omega
    · have : r = s+1 := by omega
      subst this; exact Nat.le_refl _

/-- every index `i < n` lies in the block of some rank `r < np` -/
theorem blk_owner_exists (n np i : Nat) (hnp : 0 < np) (hi : i < n) :
    ∃ r, r < np ∧ blkFirst n np r ≤ i ∧ i < blkFirst n np r + blkSize n np r := by
  -- walk up from rank 0
  have key : ∀ k, k ≤ np → blkFirst n np k ≤ i →
      ∃ r, r < np ∧ blkFirst n np r ≤ i ∧ i < blkFirst n np r + blkSize n np r := by
    intro k
    induction h : np - k generalizing k with
    | zero =>
      intro hk hle
      have : k = np := by omega
      subst this; rw [blk_first_last n k hnp] at hle; omega
    | succ m ih =>
      intro hk hle
      by_cases hlt : i < blkFirst n np k + blkSize n np k
      · exact ⟨k, by omega, hle, hlt⟩
      · apply ih (k+1) (by omega) (by omega)
        rw [blk_contig]; omega
  exact key 0 (Nat.zero_le _) (by rw [blk_first_zero]; exact Nat.zero_le _)

/-- …and in the block of only one rank -/
theorem blk_owner_unique (n np i r s : Nat)
    (hr : blkFirst n np r ≤ i ∧ i < blkFirst n np r + blkSize n np r)
    (hs : blkFirst n np s ≤ i ∧ i < blkFirst n np s + blkSize n np s) : r = s := by
  rcases Nat.lt_trichotomy r s with h | h | h
  · have := blk_first_mono n np (show r+1 ≤ s by omega); rw [blk_contig] at this; omega
  · exact h
  · have := blk_first_mono n np (show s+1 ≤ r by omega); rw [blk_contig] at this; omega


/-! ## the default constructor: rows and columns -/

/-- the rows of the default partition are the blocks of `blkFirst/blkSize` on every rank -/
theorem default_rows (nRows nCols np r : Nat) :
    (Partition.default nRows nCols np r).firstRow = blkFirst nRows np r ∧
    (Partition.default nRows nCols np r).localRows = blkSize nRows np r := by
  unfold Partition.default
  by_cases h : blkSize nRows np r = 0 <;> simp [h]

/-- a rank owns rows exactly when it is below `min np nRows` -/
theorem default_has_rows_iff (nRows np r : Nat) (hnp : 0 < np) (hr : r < np) :
    blkSize nRows np r ≠ 0 ↔ r < (if nRows < np then nRows else np) := by
  unfold blkSize
  by_cases h : nRows < np
  · have h0 : nRows / np = 0 := Nat.div_eq_of_lt h
    have h1 : nRows % np = nRows := Nat.mod_eq_of_lt h
    simp only [h, if_true, h0, h1]
    split <;> omega
  · have : 0 < nRows / np := Nat.div_pos (by omega) hnp
    simp only [h, if_false]
    split <;> omega

/-- columns: the ranks that own rows hold the blocks of the deal over `min np nRows` ranks,
    the others hold no column -/
theorem default_cols (nRows nCols np r : Nat) (hnp : 0 < np) (hr : r < np) :
    let npc := if nRows < np then nRows else np
    (r < npc → (Partition.default nRows nCols np r).firstCol = blkFirst nCols npc r ∧
               (Partition.default nRows nCols np r).localCols = blkSize nCols npc r) ∧
    (npc ≤ r → (Partition.default nRows nCols np r).localCols = 0) := by
  intro npc
  have hiff := default_has_rows_iff nRows np r hnp hr
  unfold Partition.default
  by_cases h : blkSize nRows np r = 0
  · have : ¬ r < npc := by
      intro hlt; exact (hiff.mpr hlt) h
    simp [h]; intro hlt; exact absurd hlt this
  · have hlt : r < npc := hiff.mp h
    simp [h]
    refine ⟨fun _ => ⟨rfl, rfl⟩, fun hge => ?_⟩
    exact absurd hlt (by simp only [npc] at hge ⊢; omega)

/-! ## owner search -/

/-- `first_cols` as the search needs it: one entry per rank plus the total, starting at 0, monotone -/
structure FcValid (fc : List Nat) (np nCols : Nat) : Prop where
  len : fc.length = np + 1
  zero : fc.getD 0 0 = 0
  last : fc.getD np 0 = nCols
  mono : ∀ a, a < np → fc.getD a 0 ≤ fc.getD (a+1) 0

theorem FcValid.mono_le {fc : List Nat} {np nCols : Nat} (h : FcValid fc np nCols) :
    ∀ a b, a ≤ b → b ≤ np → fc.getD a 0 ≤ fc.getD b 0 := by
  intro a b hab hb
  induction b with
  | zero => have : a = 0 := by omega
            subst this; exact Nat.le_refl _
  | succ b ih =>
    rcases Nat.lt_or_ge a (b+1) with h' | h'
    · exact Nat.le_trans (ih (by omega) (by omega)) (h.mono b (by omega))
    · have : a = b+1 := by omega
      subst this; exact Nat.le_refl _

theorem walkDown_spec (fc : List Nat) (col : Nat) (h0 : fc.getD 0 0 ≤ col) :
    ∀ a, ∃ b, walkDown fc col a = some b ∧ b ≤ a ∧ fc.getD b 0 ≤ col ∧
      (∀ c, b < c → c ≤ a → col < fc.getD c 0) := by
  intro a
  induction a with
  | zero =>
    refine ⟨0, ?_, Nat.le_refl _, h0, ?_⟩
    · have : ¬ col < fc.getD 0 0 := by omega
      simp only [walkDown, if_neg this]
    · intro c h1 h2; omega
  | succ a ih =>
    by_cases h : col < fc.getD (a+1) 0
    · obtain ⟨b, hb, hle, hfc, hall⟩ := ih
      refine ⟨b, ?_, by omega, hfc, ?_⟩
      · simp only [walkDown, if_pos h, hb]
      · intro c h1 h2
        by_cases hc : c = a+1
        · subst hc; exact h
        · exact hall c h1 (by omega)
    · refine ⟨a+1, ?_, Nat.le_refl _, by omega, ?_⟩
      · simp only [walkDown, if_neg h]
      · intro c h1 h2; omega

theorem walkUp_spec (fc : List Nat) (np col : Nat) :
    ∀ fuel a, a < np → np ≤ a + 1 + fuel → fc.getD a 0 ≤ col →
      let b := walkUp fc np col fuel a
      a ≤ b ∧ b < np ∧ fc.getD b 0 ≤ col ∧ (b + 1 < np → col < fc.getD (b+1) 0) ∧
      (∀ c, a < c → c ≤ b → fc.getD c 0 ≤ col) := by
  intro fuel
  induction fuel with
  | zero =>
    intro a ha hf hle
    simp only [walkUp]
    exact ⟨Nat.le_refl _, ha, hle, fun h => by omega, fun c h1 h2 => by omega⟩
  | succ f ih =>
    intro a ha hf hle
    simp only [walkUp]
    by_cases h : a + 1 < np ∧ fc.getD (a+1) 0 ≤ col
    · rw [if_pos h]
      obtain ⟨h1, h2, h3, h4, h5⟩ := ih (a+1) h.1 (by omega) h.2
      refine ⟨by omega, h2, h3, h4, ?_⟩
      intro c hc1 hc2
      by_cases hc : c = a+1
      · subst hc; exact h.2
      · exact h5 c (by omega) hc2
    · rw [if_neg h]
      refine ⟨Nat.le_refl _, ha, hle, ?_, fun c h1 h2 => by omega⟩
      intro hlt
      have : ¬ fc.getD (a+1) 0 ≤ col := fun hh => h ⟨hlt, hh⟩
      omega

/-- **Owner search is exact on every monotone `first_cols`**, wherever it starts: it returns the
    rank `p < np` with `first_cols[p] ≤ col < first_cols[p+1]`. Empty ranks are allowed. -/
theorem ownerSearch_correct (fc : List Nat) (np nCols assumed col : Nat)
    (hv : FcValid fc np nCols) (hnp : 0 < np) (ha : 0 < assumed) (hcol : col < nCols)
    (hstart : col / assumed < np) :
    ∃ p, ownerSearch fc assumed np col = some p ∧ p < np ∧
         fc.getD p 0 ≤ col ∧ col < fc.getD (p+1) 0 := by
  unfold ownerSearch
  have h0 : fc.getD 0 0 ≤ col := by rw [hv.zero]; exact Nat.zero_le _
  obtain ⟨b, hb, hble, hbfc, _⟩ := walkDown_spec fc col h0 (col / assumed)
  have hbnp : b < np := by omega
  obtain ⟨h1, h2, h3, h4, _⟩ := walkUp_spec fc np col np b hbnp (by omega) hbfc
  refine ⟨walkUp fc np col np b, ?_, h2, h3, ?_⟩
  · simp [Nat.ne_of_gt ha, hb]
  · by_cases hlast : walkUp fc np col np b + 1 < np
    · exact h4 hlast
    · have : walkUp fc np col np b + 1 = np := by omega
      rw [this, hv.last]; exact hcol

/-- the rank found is the only one whose half-open range contains the column -/
theorem owner_unique (fc : List Nat) (np nCols col p q : Nat) (hv : FcValid fc np nCols)
    (hp : p < np) (hq : q < np)
    (h1 : fc.getD p 0 ≤ col ∧ col < fc.getD (p+1) 0)
    (h2 : fc.getD q 0 ≤ col ∧ col < fc.getD (q+1) 0) : p = q := by
  rcases Nat.lt_trichotomy p q with h | h | h
  · have := hv.mono_le (p+1) q (by omega) (by omega); omega
  · exact h
  · have := hv.mono_le (q+1) p (by omega) (by omega); omega

/-- the start rank `col / ceil(nCols/np)` used by the code is always a legal rank -/
theorem assumed_start_lt (nCols np col : Nat) (hnp : 0 < np) (hcol : col < nCols) :
    0 < assumedNumCols nCols np ∧ col / assumedNumCols nCols np < np := by
  unfold assumedNumCols
  have h1 : np * (nCols / np) + nCols % np = nCols := Nat.div_add_mod nCols np
  have h2 : nCols % np < np := Nat.mod_lt _ hnp
  generalize nCols / np = q at *
  generalize nCols % np = m at *
  by_cases hm0 : m = 0
  · subst hm0
    have hq0 : 0 < q := by
      rcases Nat.eq_zero_or_pos q with hz | hz
      · subst hz; simp at h1; omega
      · exact hz
    simp only [ne_eq, not_true_eq_false, if_false, Nat.add_zero]
    refine ⟨hq0, ?_⟩
    rw [Nat.div_lt_iff_lt_mul hq0]; omega
  · simp only [ne_eq, hm0, not_false_eq_true, if_true]
    refine ⟨Nat.succ_pos q, ?_⟩
    rw [Nat.div_lt_iff_lt_mul (Nat.succ_pos q), Nat.mul_succ]; omega


/-! ## end to end: the default constructor followed by the owner search -/

theorem getD_firstCols_lt (f : Nat → Part) (np nCols a : Nat) (ha : a < np) :
    (firstCols ((List.range np).map f) nCols).getD a 0 = (f a).firstCol := by
  unfold firstCols
  rw [List.getD_eq_getElem?_getD, List.getElem?_append_left (by simp; exact ha)]
  simp [List.getElem?_range ha]

theorem getD_firstCols_last (f : Nat → Part) (np nCols : Nat) :
    (firstCols ((List.range np).map f) nCols).getD np 0 = nCols := by
  unfold firstCols
  rw [List.getD_eq_getElem?_getD, List.getElem?_append_right (by simp)]
  simp

theorem default_firstCol_eq (nRows nCols np r : Nat) (hnp : 0 < np) (hr : r < np) :
    (Partition.default nRows nCols np r).firstCol =
      if r < (if nRows < np then nRows else np) then
        blkFirst nCols (if nRows < np then nRows else np) r else nCols := by
  have hiff := default_has_rows_iff nRows np r hnp hr
  unfold Partition.default emptyFirstCol
  by_cases h : blkSize nRows np r = 0
  · have : ¬ r < (if nRows < np then nRows else np) := fun hlt => (hiff.mpr hlt) h
    simp [h, this]
  · have hlt := hiff.mp h
    simp [h, hlt]

/-- the gathered `first_cols` of the default partition is monotone, starts at 0 and ends at the
    number of columns, whatever the sizes — including fewer rows than ranks -/
theorem default_firstCols_valid (nRows nCols np : Nat) (hnp : 0 < np) (hrows : 0 < nRows) :
    FcValid (firstCols ((List.range np).map (Partition.default nRows nCols np)) nCols) np nCols := by
  have hnpc : 0 < (if nRows < np then nRows else np) := by split <;> omega
  have hnpcle : (if nRows < np then nRows else np) ≤ np := by split <;> omega
  generalize hnpcdef : (if nRows < np then nRows else np) = npc at *
  have hfirst : ∀ r, r < np → (Partition.default nRows nCols np r).firstCol =
      if r < npc then blkFirst nCols npc r else nCols := by
    intro r hr; rw [default_firstCol_eq nRows nCols np r hnp hr, hnpcdef]
  have hle : ∀ r, r ≤ npc → blkFirst nCols npc r ≤ nCols := by
    intro r hr
    have := blk_first_mono nCols npc hr
    rwa [blk_first_last nCols npc hnpc] at this
  refine ⟨by simp [firstCols], ?_, getD_firstCols_last _ _ _, ?_⟩
  · rw [getD_firstCols_lt _ _ _ _ hnp, hfirst 0 hnp, if_pos hnpc, blk_first_zero]
  · intro a ha
    rw [getD_firstCols_lt _ _ _ _ ha, hfirst a ha]
    by_cases hlast : a + 1 < np
    · rw [getD_firstCols_lt _ _ _ _ hlast, hfirst (a+1) hlast]
      by_cases h1 : a + 1 < npc
      · rw [if_pos (by omega), if_pos h1]; exact blk_first_mono nCols npc (by omega)
      · rw [if_neg h1]; split
        · exact hle a (by omega)
        · exact Nat.le_refl _
    · have : a + 1 = np := by omega
      rw [this, getD_firstCols_last]
      split
      · exact hle a (by omega)
      · exact Nat.le_refl _

/-- **C18, ownership end to end.** For the partition the library builds by default on any number
    of ranks (also more ranks than rows or columns), the owner lookup of `form_col_to_proc` returns,
    for every column, a rank whose own column block `[first_local_col, first_local_col +
    local_num_cols)` contains that column. -/
theorem default_owner_correct (nRows nCols np col : Nat) (hnp : 0 < np) (hrows : 0 < nRows)
    (hcol : col < nCols) :
    ∃ p, ownerSearch (firstCols ((List.range np).map (Partition.default nRows nCols np)) nCols)
            (assumedNumCols nCols np) np col = some p ∧ p < np ∧
         (Partition.default nRows nCols np p).firstCol ≤ col ∧
         col < (Partition.default nRows nCols np p).firstCol +
               (Partition.default nRows nCols np p).localCols := by
  have hv := default_firstCols_valid nRows nCols np hnp hrows
  obtain ⟨ha, hs⟩ := assumed_start_lt nCols np col hnp hcol
  obtain ⟨p, hp, hpnp, hlo, hhi⟩ := ownerSearch_correct _ np nCols _ col hv hnp ha hcol hs
  refine ⟨p, hp, hpnp, ?_, ?_⟩
  · rwa [getD_firstCols_lt _ _ _ _ hpnp] at hlo
  · rw [getD_firstCols_lt _ _ _ _ hpnp] at hlo
    have hnpc : 0 < (if nRows < np then nRows else np) := by split <;> omega
    have hcols := default_cols nRows nCols np p hnp hpnp
    have hfc := default_firstCol_eq nRows nCols np p hnp hpnp
    generalize hnpcdef : (if nRows < np then nRows else np) = npc at *
    simp only at hcols
    by_cases hpc : p < npc
    · obtain ⟨hf, hl⟩ := hcols.1 hpc
      rw [hf, hl, ← blk_contig]
      by_cases hlast : p + 1 < np
      · rw [getD_firstCols_lt _ _ _ _ hlast, default_firstCol_eq nRows nCols np (p+1) hnp hlast,
          hnpcdef] at hhi
        by_cases h1 : p + 1 < npc
        · rwa [if_pos h1] at hhi
        · have : p + 1 = npc := by omega
          rw [this, blk_first_last nCols npc hnpc]; exact hcol
      · have hnpcle : npc ≤ np := by rw [← hnpcdef]; split <;> omega
        have : p + 1 = npc := by omega
        rw [this, blk_first_last nCols npc hnpc]; exact hcol
    · rw [hfc, if_neg hpc] at hlo; omega

/-- Monotonicity of `first_cols` is necessary: on the array the unrepaired constructor produced
    for 2 rows × 2 columns on 4 ranks, the same search sends column 1 to rank 3, which owns nothing. -/
theorem ownerSearch_needs_monotone : ownerSearch [0, 1, 0, 0, 2] 1 4 1 = some 3 := by decide

/-- non-vacuity: the hypotheses of `default_owner_correct` are met by 2×2 on 4 ranks, and the
    lookup there now returns rank 1 for column 1 -/
example : ownerSearch (firstCols ((List.range 4).map (Partition.default 2 2 4)) 2)
    (assumedNumCols 2 4) 4 1 = some 1 := by decide

/-! ## machine layout maps -/

theorem numNodes_pos (np ppn : Nat) (hnp : 0 < np) (hppn : 0 < ppn) : 0 < numNodes np ppn := by
  unfold numNodes
  have h1 := Nat.div_add_mod np ppn
  generalize np / ppn = q at *
  generalize hm : np % ppn = m at *
  by_cases hm0 : m = 0
  · subst hm0
    rcases Nat.eq_zero_or_pos q with hz | hz
    · subst hz; simp at h1; omega
    · simp; exact hz
  · simp [hm0]

/-- `np ≤ numNodes * PPN`: the nodes have room for every rank -/
theorem numNodes_cover (np ppn : Nat) (hppn : 0 < ppn) : np ≤ numNodes np ppn * ppn := by
  unfold numNodes
  have h1 := Nat.div_add_mod np ppn
  have h2 := Nat.mod_lt np hppn
  generalize np / ppn = q at *
  generalize np % ppn = m at *
  by_cases hm0 : m = 0
  · subst hm0; simp; rw [Nat.mul_comm]; omega
  · simp [hm0]; rw [Nat.add_mul, Nat.mul_comm q ppn]; omega

/-- rank → (node, on-node index) → rank is the identity, for each supported ordering -/
theorem global_of_node_local (ord nn ppn p : Nat) (hord : ord ≤ 2) (hnn : 0 < nn) (hppn : 0 < ppn) :
    ∃ node l, getNode ord nn ppn p = some node ∧ getLocal ord nn ppn p = some l ∧
      getGlobal ord nn ppn node l = some p := by
  have e1 := Nat.div_add_mod p nn
  have e2 := Nat.mod_lt p hnn
  have e3 := Nat.div_add_mod p ppn
  have e5 : p / nn * nn = nn * (p / nn) := Nat.mul_comm _ _
  have e6 : p / ppn * ppn = ppn * (p / ppn) := Nat.mul_comm _ _
  have h012 : ord = 0 ∨ ord = 1 ∨ ord = 2 := by omega
  rcases h012 with h | h | h <;> subst h
  · exact ⟨p % nn, p / nn, by simp [getNode], by simp [getLocal], by simp [getGlobal]; omega⟩
  · exact ⟨p / ppn, p % ppn, by simp [getNode], by simp [getLocal], by simp [getGlobal]; omega⟩
  · by_cases hpar : (p / nn) % 2 = 0
    · exact ⟨p % nn, p / nn, by simp [getNode, hpar], by simp [getLocal],
        by simp [getGlobal, hpar]; omega⟩
    · exact ⟨nn - p % nn - 1, p / nn, by simp [getNode, hpar], by simp [getLocal],
        by simp [getGlobal, hpar]; omega⟩

/-- (node, on-node index) → rank → (node, on-node index) is the identity -/
theorem node_local_of_global (ord nn ppn node l : Nat) (hord : ord ≤ 2)
    (hnode : node < nn) (hl : l < ppn) :
    ∃ g, getGlobal ord nn ppn node l = some g ∧ getNode ord nn ppn g = some node ∧
      getLocal ord nn ppn g = some l := by
  have hnn : 0 < nn := by omega
  have h012 : ord = 0 ∨ ord = 1 ∨ ord = 2 := by omega
  rcases h012 with h | h | h <;> subst h
  · refine ⟨l * nn + node, by simp [getGlobal], ?_, ?_⟩
    · simp [getNode, Nat.mul_add_mod_self_right, Nat.mod_eq_of_lt hnode]
    · simp [getLocal]
      rw [Nat.add_comm, Nat.add_mul_div_right _ _ hnn, Nat.div_eq_of_lt hnode]; simp
  · refine ⟨l + node * ppn, by simp [getGlobal], ?_, ?_⟩
    · simp [getNode]
      rw [Nat.add_mul_div_right _ _ (by omega : 0 < ppn), Nat.div_eq_of_lt hl]; simp
    · simp [getLocal, Nat.add_mul_mod_self_right, Nat.mod_eq_of_lt hl]
  · by_cases hpar : l % 2 = 0
    · have hdiv : (l * nn + node) / nn = l := by
        rw [Nat.add_comm, Nat.add_mul_div_right _ _ hnn, Nat.div_eq_of_lt hnode]; simp
      refine ⟨l * nn + node, by simp [getGlobal, hpar], ?_, ?_⟩
      · simp [getNode, hdiv, hpar, Nat.mul_add_mod_self_right, Nat.mod_eq_of_lt hnode]
      · simp [getLocal, hdiv]
    · have hlt : nn - node - 1 < nn := by omega
      have hrew : l * nn + nn - node - 1 = l * nn + (nn - node - 1) := by omega
      have hdiv : (l * nn + (nn - node - 1)) / nn = l := by
        rw [Nat.add_comm, Nat.add_mul_div_right _ _ hnn, Nat.div_eq_of_lt hlt]; simp
      have hmod : (l * nn + (nn - node - 1)) % nn = nn - node - 1 := by
        rw [Nat.mul_add_mod_self_right, Nat.mod_eq_of_lt hlt]
      refine ⟨l * nn + nn - node - 1, by simp [getGlobal, hpar], ?_, ?_⟩
      · rw [hrew]; simp [getNode, hdiv, hpar, hmod]; omega
      · rw [hrew]; simp [getLocal, hdiv]

/-- every rank `p < np` lands on an existing node, at an on-node index below PPN -/
theorem node_local_in_range (ord np ppn p : Nat) (hord : ord ≤ 2) (hppn : 0 < ppn) (hp : p < np) :
    ∃ node l, getNode ord (numNodes np ppn) ppn p = some node ∧
      getLocal ord (numNodes np ppn) ppn p = some l ∧ node < numNodes np ppn ∧ l < ppn := by
  have hnn : 0 < numNodes np ppn := numNodes_pos np ppn (by omega) hppn
  have hcov := numNodes_cover np ppn hppn
  generalize numNodes np ppn = nn at *
  have hmod := Nat.mod_lt p hnn
  have hdivnn : p / nn < ppn := by
    rw [Nat.div_lt_iff_lt_mul hnn]; rw [Nat.mul_comm] at hcov; omega
  have hdivppn : p / ppn < nn := by
    rw [Nat.div_lt_iff_lt_mul hppn]; omega
  have h012 : ord = 0 ∨ ord = 1 ∨ ord = 2 := by omega
  rcases h012 with h | h | h <;> subst h
  · exact ⟨p % nn, p / nn, by simp [getNode], by simp [getLocal], hmod, hdivnn⟩
  · exact ⟨p / ppn, p % ppn, by simp [getNode], by simp [getLocal], hdivppn, Nat.mod_lt _ hppn⟩
  · by_cases hpar : (p / nn) % 2 = 0
    · exact ⟨p % nn, p / nn, by simp [getNode, hpar], by simp [getLocal], hmod, hdivnn⟩
    · exact ⟨nn - p % nn - 1, p / nn, by simp [getNode, hpar], by simp [getLocal], by omega, hdivnn⟩

/-- non-vacuity: 7 ranks, PPN 3 (ragged last node), ordering 2 -/
example : getNode 2 (numNodes 7 3) 3 5 = some 0 ∧ getLocal 2 (numNodes 7 3) 3 5 = some 1 ∧
    getGlobal 2 (numNodes 7 3) 3 0 1 = some 5 := by decide

end Raptor.C18
