import RaptorModel.Lemmas.CycleLemmas
import Mathlib.Algebra.Module.LinearMap.Defs
import Mathlib.Algebra.Module.LinearMap.Basic
import Mathlib.Algebra.Module.Basic
import Mathlib.Tactic.Abel
import Mathlib.Algebra.Ring.Rat
/-!
# C09 — the multigrid cycle is linear, fixes the solution, and is exact on one level

Part B1 works on the executable list model `Raptor.Cycle.cycle` over a ring.
Part B2 is the abstract statement with Mathlib linear maps (`twoGrid`, `absCycle`).
-/
namespace Raptor.C09
open Raptor.Relax Raptor.Cycle

/-! ## B1 — the list model -/
section B1
variable {K : Type} [Ring K]

/-- `A x = b`, row by row, as the kernels compute it -/
def Solves (A : Rows K) (x b : List K) : Prop :=
  ∀ i (h : i < A.length), addDot A[i] x 0 = at' b i

/-- `mulVec A x = b` (as lists) gives the row-wise hypothesis used below -/
theorem solves_of_mulVec_eq (A : Rows K) (x b : List K) (h : mulVec A x = b) :
    ∀ i (hi : i < A.length), addDot A[i] x 0 = at' b i := by
  intro i hi
  subst h
  rw [at'_of_lt _ i (by rw [length_mulVec]; exact hi), getElem_mulVec A x i hi]

/-- 7. the residual of a solution is the zero vector -/
theorem residual_eq_zero_of_solution (A : Rows K) (x b : List K)
    (h : ∀ i (hi : i < A.length), addDot A[i] x 0 = at' b i) :
    residual A x b = List.replicate A.length 0 := by
  apply List.ext_getElem
  · rw [length_residual, List.length_replicate]
  · intro i h1 _
    have hi : i < A.length := by rw [length_residual] at h1; exact h1
    rw [getElem_residual A x b i hi, List.getElem_replicate, subDot_eq_sub_addDot, h i hi, sub_self]

/-- 7'. conversely, a zero residual means every row equation holds -/
theorem solution_of_residual_eq_zero (A : Rows K) (x b : List K)
    (h : residual A x b = List.replicate A.length 0) : Solves A x b := by
  intro i hi
  have h1 : i < (residual A x b).length := by rw [length_residual]; exact hi
  have h2 : (residual A x b)[i] = 0 := by
    have : ∀ (l : List K) (hl : i < l.length), l = List.replicate A.length 0 → l[i] = 0 := by
      intro l hl e; subst e; rw [List.getElem_replicate]
    exact this _ h1 h
  rw [getElem_residual A x b i hi, subDot_eq_sub_addDot] at h2
  exact (sub_eq_zero.mp h2).symm

/-- residual of the zero vector against a zero right-hand side -/
theorem residual_zero (A : Rows K) (n m : Nat) :
    residual A (List.replicate n 0) (List.replicate m 0) = List.replicate A.length 0 := by
  apply residual_eq_zero_of_solution
  intro i hi
  rw [addDot_zero_vec, at'_replicate_zero]

/-- 8. restriction of the zero residual is zero (whatever the column indices in `P`) -/
theorem mulVecT_zero (P : Rows K) (nc n : Nat) :
    mulVecT P nc (List.replicate n 0) = List.replicate nc 0 := by
  unfold mulVecT
  exact scatter_zero P.zipIdx n (List.replicate nc 0)

/-- 9. prolongation of the zero correction adds nothing -/
theorem addMul_zero (P : Rows K) (nc : Nat) (x : List K) (hx : x.length = P.length) :
    addMul P (List.replicate nc 0) x = x := by
  apply List.ext_getElem
  · rw [length_addMul, hx]
  · intro i h1 h2
    have hi : i < P.length := by rw [length_addMul] at h1; exact h1
    rw [getElem_addMul P _ x i hi, addDot_zero_vec, add_zero, at'_of_lt x i h2]

/-- `ZeroOk relax coarse lv n`: on the hierarchy `lv` whose finest level has `n` unknowns the sizes
are consistent (`A` and `P` have `n` rows, the next level has `nc` unknowns), every smoother maps
(zero rhs, zero guess) to zero and the coarsest solve maps zero to zero. -/
def ZeroOk (relax : Rows K → List K → List K → List K) (coarse : List K → List K) :
    List (Level K) → Nat → Prop
  | [], n => coarse (List.replicate n 0) = List.replicate n 0
  | l :: rest, n =>
    l.A.length = n ∧ l.P.length = n ∧
    relax l.A (List.replicate n 0) (List.replicate n 0) = List.replicate n 0 ∧
    ZeroOk relax coarse rest l.nc

/-- 10a. a cycle started from zero with a zero right-hand side returns zero -/
theorem cycle_zero (relax : Rows K → List K → List K → List K) (coarse : List K → List K) :
    ∀ (lv : List (Level K)) (n : Nat), ZeroOk relax coarse lv n →
      cycle relax coarse lv (List.replicate n 0) (List.replicate n 0) = List.replicate n 0 := by
  intro lv
  induction lv with
  | nil => intro n h; exact h
  | cons l rest ih =>
    intro n h
    obtain ⟨hA, hP, hrel, hrest⟩ := h
    show relax l.A (List.replicate n 0) (addMul l.P (cycle relax coarse rest (List.replicate l.nc 0)
      (mulVecT l.P l.nc (residual l.A (relax l.A (List.replicate n 0) (List.replicate n 0))
        (List.replicate n 0)))) (relax l.A (List.replicate n 0) (List.replicate n 0))) = _
    rw [hrel, residual_zero, mulVecT_zero, ih l.nc hrest,
      addMul_zero l.P l.nc _ (by rw [List.length_replicate, hP]), hrel]

/-- 10. **the cycle fixes the solution.** Hypotheses: the smoother of the finest level fixes `x`
(C11 gives this whenever `A x = b`), `A x = b` row-wise, `x` has as many entries as `P` has rows,
and the coarser part of the hierarchy maps (0, 0) to 0. -/
theorem cycle_fixes_solution (relax : Rows K → List K → List K → List K) (coarse : List K → List K)
    (l : Level K) (rest : List (Level K)) (x b : List K)
    (hfix : relax l.A b x = x)
    (hsol : ∀ i (hi : i < l.A.length), addDot l.A[i] x 0 = at' b i)
    (hlen : x.length = l.P.length)
    (hzero : ZeroOk relax coarse rest l.nc) :
    cycle relax coarse (l :: rest) x b = x := by
  show relax l.A b (addMul l.P (cycle relax coarse rest (List.replicate l.nc 0)
      (mulVecT l.P l.nc (residual l.A (relax l.A b x) b))) (relax l.A b x)) = x
  rw [hfix, residual_eq_zero_of_solution l.A x b hsol, mulVecT_zero,
    cycle_zero relax coarse rest l.nc hzero, addMul_zero l.P l.nc x hlen, hfix]

/-- 10'. with a smoother that fixes every solution (the conclusion of C11) -/
theorem cycle_fixes_solution' (relax : Rows K → List K → List K → List K)
    (coarse : List K → List K) (l : Level K) (rest : List (Level K)) (x b : List K)
    (hrelax : ∀ x b, Solves l.A x b → relax l.A b x = x)
    (hsol : Solves l.A x b) (hlen : x.length = l.P.length)
    (hzero : ZeroOk relax coarse rest l.nc) :
    cycle relax coarse (l :: rest) x b = x :=
  cycle_fixes_solution relax coarse l rest x b (hrelax x b hsol) hsol hlen hzero

/-- 10''. hence any number of cycles leaves the solution where it is -/
theorem cycle_iterate_fixes_solution (relax : Rows K → List K → List K → List K)
    (coarse : List K → List K) (l : Level K) (rest : List (Level K)) (x b : List K)
    (hfix : relax l.A b x = x)
    (hsol : ∀ i (hi : i < l.A.length), addDot l.A[i] x 0 = at' b i)
    (hlen : x.length = l.P.length) (hzero : ZeroOk relax coarse rest l.nc) (k : Nat) :
    (fun y => cycle relax coarse (l :: rest) y b)^[k] x = x :=
  Function.iterate_fixed (cycle_fixes_solution relax coarse l rest x b hfix hsol hlen hzero) k

/-- 11. on one level the cycle is the coarse solve -/
theorem cycle_single_level (relax : Rows K → List K → List K → List K) (coarse : List K → List K)
    (x b : List K) : cycle relax coarse [] x b = coarse b := rfl

/-- 11'. so with an exact coarse solver the one-level cycle solves `A x = b` for every `A`
(no symmetry, no definiteness), from every initial guess -/
theorem cycle_single_level_exact (relax : Rows K → List K → List K → List K)
    (coarse : List K → List K) (A : Rows K) (hexact : ∀ b, mulVec A (coarse b) = b)
    (x b : List K) : mulVec A (cycle relax coarse [] x b) = b :=
  hexact b

/-- 11''. and its residual is zero when `b` has one entry per row -/
theorem cycle_single_level_residual (relax : Rows K → List K → List K → List K)
    (coarse : List K → List K) (A : Rows K) (hexact : ∀ b, mulVec A (coarse b) = b)
    (x b : List K) (hb : b.length = A.length) :
    residual A (cycle relax coarse [] x b) b = List.replicate A.length 0 := by
  apply residual_eq_zero_of_solution
  intro i hi
  have h := hexact b
  have hi' : i < b.length := by rw [hb]; exact hi
  rw [at'_of_lt b i hi', cycle_single_level, ← getElem_mulVec A (coarse b) i hi]
  exact List.getElem_of_eq h _

end B1

/-! ## B2 — abstract linear algebra -/
section B2
variable (K : Type) {U U' V W : Type} [Ring K]
  [AddCommGroup U] [Module K U] [AddCommGroup U'] [Module K U']
  [AddCommGroup V] [Module K V] [AddCommGroup W] [Module K W]

/-- a two-argument map that is linear in the pair of its arguments -/
def JointLinear (F : U → U → U') : Prop :=
  ∀ (a c : K) (p₁ p₂ q₁ q₂ : U), F (a • p₁ + c • p₂) (a • q₁ + c • q₂) = a • F p₁ q₁ + c • F p₂ q₂

variable {K}

/-- fine-level cycle built from a smoother `S b x`, the operator `A`, interpolation `P`,
restriction `R` and the coarse cycle `C xc bc` -/
def twoGrid (S : V → V → V) (A : V →ₗ[K] V) (P : W →ₗ[K] V) (R : V →ₗ[K] W) (C : W → W → W)
    (x b : V) : V :=
  S b (S b x + P (C 0 (R (b - A (S b x)))))

theorem JointLinear.map_zero {F : U → U → U'} (h : JointLinear K F) : F 0 0 = 0 := by
  have := h 0 0 0 0 0 0
  simpa using this

/-- swapping the arguments keeps joint linearity -/
theorem JointLinear.swap {F : U → U → U'} (h : JointLinear K F) :
    JointLinear K (fun p q => F q p) := fun a c p₁ p₂ q₁ q₂ => h a c q₁ q₂ p₁ p₂

/-- 12 (base). an exact coarse solve, or any linear map of the right-hand side alone, is jointly
linear in `(x, b)` -/
theorem exactSolve_linear (L : U →ₗ[K] U') : JointLinear K (fun (_x b : U) => L b) := by
  intro a c p₁ p₂ q₁ q₂
  show L (a • q₁ + c • q₂) = a • L q₁ + c • L q₂
  rw [map_add, map_smul, map_smul]

/-- more generally `(x, b) ↦ M x + L b` -/
theorem affineSolve_linear (M L : U →ₗ[K] U') : JointLinear K (fun (x b : U) => M x + L b) := by
  intro a c p₁ p₂ q₁ q₂
  show M (a • p₁ + c • p₂) + L (a • q₁ + c • q₂) = a • (M p₁ + L q₁) + c • (M p₂ + L q₂)
  rw [map_add, map_smul, map_smul, map_add, map_smul, map_smul, smul_add, smul_add]
  abel

/-- 12 (step). **if the smoother and the coarse cycle are jointly linear, so is the fine cycle** -/
theorem twoGrid_linear (S : V → V → V) (A : V →ₗ[K] V) (P : W →ₗ[K] V) (R : V →ₗ[K] W)
    (C : W → W → W) (hS : JointLinear K S) (hC : JointLinear K C) :
    JointLinear K (twoGrid S A P R C) := by
  intro a c x₁ x₂ b₁ b₂
  unfold twoGrid
  have hres : (a • b₁ + c • b₂) - A (a • S b₁ x₁ + c • S b₂ x₂)
      = a • (b₁ - A (S b₁ x₁)) + c • (b₂ - A (S b₂ x₂)) := by
    rw [map_add, map_smul, map_smul, smul_sub, smul_sub]; abel
  have hzero : (0 : W) = a • (0 : W) + c • (0 : W) := by
    rw [smul_zero, smul_zero, add_zero]
  have hsum : a • S b₁ x₁ + c • S b₂ x₂ +
        (a • P (C 0 (R (b₁ - A (S b₁ x₁)))) + c • P (C 0 (R (b₂ - A (S b₂ x₂)))))
      = a • (S b₁ x₁ + P (C 0 (R (b₁ - A (S b₁ x₁)))))
        + c • (S b₂ x₂ + P (C 0 (R (b₂ - A (S b₂ x₂))))) := by
    rw [smul_add, smul_add]; abel
  rw [hS a c b₁ b₂ x₁ x₂, hres, map_add, map_smul, map_smul]
  conv_lhs => rw [hzero]
  rw [hC a c 0 0 _ _, map_add, map_smul, map_smul, hsum, hS a c b₁ b₂ _ _]

/-- 13. the two-grid cycle fixes the solution -/
theorem twoGrid_fixes_solution (S : V → V → V) (A : V →ₗ[K] V) (P : W →ₗ[K] V) (R : V →ₗ[K] W)
    (C : W → W → W) (hS : ∀ x b, A x = b → S b x = x) (hC : C 0 0 = 0) (x b : V) (h : A x = b) :
    twoGrid S A P R C x b = x := by
  unfold twoGrid
  rw [hS x b h, h, sub_self, map_zero, hC, map_zero, add_zero, hS x b h]

/-- 14a. joint linearity in exactly the property's wording -/
theorem affine_consequence (cyc : V → V → V) (h : JointLinear K cyc) (a c : K) (x₁ x₂ b₁ b₂ : V) :
    cyc (a • x₁ + c • x₂) (a • b₁ + c • b₂) = a • cyc x₁ b₁ + c • cyc x₂ b₂ :=
  h a c x₁ x₂ b₁ b₂

/-- additivity and homogeneity separately -/
theorem JointLinear.map_add {F : U → U → U'} (h : JointLinear K F) (p₁ p₂ q₁ q₂ : U) :
    F (p₁ + p₂) (q₁ + q₂) = F p₁ q₁ + F p₂ q₂ := by
  have := h 1 1 p₁ p₂ q₁ q₂
  simpa using this

theorem JointLinear.map_smul {F : U → U → U'} (h : JointLinear K F) (a : K) (p q : U) :
    F (a • p) (a • q) = a • F p q := by
  have := h a 0 p 0 q 0
  simpa using this

theorem JointLinear.map_sub {F : U → U → U'} (h : JointLinear K F) (p₁ p₂ q₁ q₂ : U) :
    F (p₁ - p₂) (q₁ - q₂) = F p₁ q₁ - F p₂ q₂ := by
  have := h 1 (-1) p₁ p₂ q₁ q₂
  simpa [sub_eq_add_neg] using this

/-- the error propagation operator `E x = cycle(x, 0)` as a linear map -/
def errorOp (cyc : V → V → V) (h : JointLinear K cyc) : V →ₗ[K] V where
  toFun x := cyc x 0
  map_add' x y := by
    have := h.map_add x y 0 0
    rw [add_zero] at this; exact this
  map_smul' a x := by
    have := h.map_smul a x 0
    rw [smul_zero] at this; exact this

/-- the right-hand side operator `B b = cycle(0, b)` as a linear map -/
def rhsOp (cyc : V → V → V) (h : JointLinear K cyc) : V →ₗ[K] V where
  toFun b := cyc 0 b
  map_add' x y := by
    have := h.map_add 0 0 x y
    rw [add_zero] at this; exact this
  map_smul' a x := by
    have := h.map_smul a 0 x
    rw [smul_zero] at this; exact this

/-- 14b. `cycle(x, b) − cycle(x', b) = E (x − x')` with `E` linear and independent of `b` -/
theorem error_propagation (cyc : V → V → V) (h : JointLinear K cyc) (x x' b : V) :
    cyc x b - cyc x' b = errorOp cyc h (x - x') := by
  show cyc x b - cyc x' b = cyc (x - x') 0
  rw [← h.map_sub x x' b b, sub_self]

/-- 14c. the cycle is affine in `x`: `cycle(x, b) = E x + B b` -/
theorem cycle_eq_error_add_rhs (cyc : V → V → V) (h : JointLinear K cyc) (x b : V) :
    cyc x b = errorOp cyc h x + rhsOp cyc h b := by
  show cyc x b = cyc x 0 + cyc 0 b
  rw [← h.map_add x 0 0 b, add_zero, zero_add]

/-- 14d. if the cycle fixes the solution `x⋆` of `b`, the error of the next iterate is `E` applied
to the error of the current one -/
theorem error_recursion (cyc : V → V → V) (h : JointLinear K cyc) (x xs b : V)
    (hfix : cyc xs b = xs) : cyc x b - xs = errorOp cyc h (x - xs) := by
  rw [← error_propagation cyc h x xs b, hfix]

/-- 14e. and after `k` cycles the error is `E^k` applied to the initial error -/
theorem error_iterate (cyc : V → V → V) (h : JointLinear K cyc) (x xs b : V)
    (hfix : cyc xs b = xs) (k : Nat) :
    (fun y => cyc y b)^[k] x - xs = (errorOp cyc h)^[k] (x - xs) := by
  induction k with
  | zero => rfl
  | succ k ih =>
    rw [Function.iterate_succ_apply', Function.iterate_succ_apply', ← ih]
    exact error_recursion cyc h _ xs b hfix

/-! ### any depth: a list of abstract levels on one carrier

All levels live in the same module `V` (take `V` large enough to embed every level, e.g. finitely
supported functions; `P` and `R` are then arbitrary linear maps), which avoids dependent types and
loses nothing for the algebraic statement. -/

/-- abstract level: operator, interpolation, restriction, smoother `S b x` -/
structure ALevel (K V : Type) [Ring K] [AddCommGroup V] [Module K V] where
  A : V →ₗ[K] V
  P : V →ₗ[K] V
  R : V →ₗ[K] V
  S : V → V → V

/-- abstract multilevel cycle (same recursion as `Raptor.Cycle.cycle`) -/
def absCycle (coarse : V → V) : List (ALevel K V) → V → V → V
  | [], _, b => coarse b
  | l :: rest, x, b => twoGrid l.S l.A l.P l.R (absCycle coarse rest) x b

/-- 12 (any depth). **the whole cycle is jointly linear** when every smoother is and the coarsest
solve is a linear map -/
theorem absCycle_linear (coarse : V →ₗ[K] V) (lv : List (ALevel K V))
    (hS : ∀ l ∈ lv, JointLinear K l.S) : JointLinear K (absCycle coarse lv) := by
  induction lv with
  | nil => exact exactSolve_linear coarse
  | cons l rest ih =>
    exact twoGrid_linear l.S l.A l.P l.R _ (hS l (List.mem_cons_self))
      (ih fun l' hl' => hS l' (List.mem_cons_of_mem _ hl'))

/-- 13 (any depth). the whole cycle fixes the solution of the finest level -/
theorem absCycle_fixes_solution (coarse : V →ₗ[K] V) (l : ALevel K V) (rest : List (ALevel K V))
    (hS : ∀ l' ∈ rest, JointLinear K l'.S)
    (hfix : ∀ x b, l.A x = b → l.S b x = x) (x b : V) (h : l.A x = b) :
    absCycle coarse (l :: rest) x b = x :=
  twoGrid_fixes_solution l.S l.A l.P l.R _ hfix (absCycle_linear coarse rest hS).map_zero x b h

/-- one abstract level: the cycle is the coarse solve, exact whenever the solve is -/
theorem absCycle_single_level (coarse : V → V) (x b : V) :
    absCycle (K := K) coarse [] x b = coarse b := rfl

end B2

/-! ## concrete instance over `Rat`: three levels (3 → 2 → 1 unknowns), Gauss–Seidel smoother -/
section Example

def exRelax (A : Rows Rat) (b x : List Rat) : List Rat := sorForward A b 1 x
def exCoarse (b : List Rat) : List Rat := b.map (· / 2)
def exA1 : Rows Rat := [[(0, 2), (1, -1)], [(1, 2), (0, -1), (2, -1)], [(2, 2), (1, -1)]]
def exP1 : Rows Rat := [[(0, 1)], [(0, 1/2), (1, 1/2)], [(1, 1)]]
def exL1 : Level Rat := { A := exA1, P := exP1, nc := 2 }
def exA2 : Rows Rat := [[(0, 3/2), (1, -1/2)], [(1, 3/2), (0, -1/2)]]
def exP2 : Rows Rat := [[(0, 1)], [(0, 1)]]
def exL2 : Level Rat := { A := exA2, P := exP2, nc := 1 }
/-- the solution and its right-hand side `b = A₁ x` -/
def exX : List Rat := [1, 2, 3]
def exB : List Rat := [0, 0, 4]

theorem ex_zeroOk : ZeroOk exRelax exCoarse [exL2] exL1.nc :=
  ⟨rfl, rfl, by decide +kernel,
    (by decide +kernel : exCoarse (List.replicate 1 0) = List.replicate 1 0)⟩

theorem ex_solves : ∀ i (hi : i < exL1.A.length), addDot exL1.A[i] exX 0 = at' exB i :=
  solves_of_mulVec_eq exL1.A exX exB (by decide +kernel)

/-- `cycle_fixes_solution` applies: all hypotheses are checked by evaluation -/
example : cycle exRelax exCoarse [exL1, exL2] exX exB = exX :=
  cycle_fixes_solution exRelax exCoarse exL1 [exL2] exX exB (by decide +kernel) ex_solves rfl
    ex_zeroOk
/-- the same fact by direct evaluation of the model -/
example : cycle exRelax exCoarse [exL1, exL2] exX exB = exX := by decide +kernel
/-- a vector that is not the solution is moved (the theorem is not vacuous) -/
example : cycle exRelax exCoarse [exL1, exL2] [0, 0, 0] exB ≠ [0, 0, 0] := by decide +kernel
/-- `cycle_zero` on the full hierarchy -/
example : cycle exRelax exCoarse [exL1, exL2] [0, 0, 0] [0, 0, 0] = [0, 0, 0] :=
  cycle_zero exRelax exCoarse [exL1, exL2] 3 ⟨rfl, rfl, by decide +kernel, ex_zeroOk⟩
/-- one level with an exact coarse solve (`A = 2 I`, `coarse b = b / 2`) -/
example : mulVec [[(0, 2)], [(1, 2)]] (cycle exRelax exCoarse [] [7, 7] [4, 6]) = [4, 6] := by
  decide +kernel

end Example
end Raptor.C09
