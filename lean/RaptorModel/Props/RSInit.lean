import RaptorModel.Props.RSLemmas
/-!
# The initial buckets of the Ruge–Stüben first pass are a counting sort

`init` places the columns by increasing weight (`weight_idx_to_col`). Consequences used by `C13RS`: the array has `n`
entries when no weight reaches `n` (no self-dependency), and the column at the last position — the first one the main
loop visits — has the largest weight, hence a dependent whenever the graph has an edge.
-/
namespace Raptor.RS
open Raptor.Split (Graph dependents)

/-- `weight_idx_to_col` after the counting sort: columns grouped by weight, groups in increasing order -/
def buckets (n : Nat) (wt : Nat → Nat) (cs : List Nat) : List Nat :=
  (List.range n).flatMap fun w => cs.filter fun c => wt c == w

def wts (S : Graph) : List Nat := (List.range S.length).map fun c => (dependents S c).length

theorem init_i2c (S : Graph) (l0 : List Int) :
    (init S l0).i2c = buckets S.length (fun c => nat (wts S) c) (List.range S.length) := rfl

theorem sum_map_add (l : List Nat) (f g : Nat → Nat) :
    (l.map fun x => f x + g x).sum = (l.map f).sum + (l.map g).sum := by
  induction l with
  | nil => rfl
  | cons a l ih => simp only [List.map_cons, List.sum_cons, ih]; omega

theorem sum_map_zero (l : List Nat) : (l.map fun _ => 0).sum = 0 := by
  induction l with
  | nil => rfl
  | cons a l ih => simp only [List.map_cons, List.sum_cons, ih]

theorem nat_eq_getElem (l : List Nat) (i : Nat) (h : i < l.length) : nat l i = l[i] := by
  simp [nat, h]

theorem sum_indicator (n k : Nat) :
    ((List.range n).map fun w => if k == w then 1 else 0).sum = if k < n then 1 else 0 := by
  induction n with
  | zero => rfl
  | succ n ih =>
    rw [List.range_succ, List.map_append, List.sum_append_nat, ih]
    simp only [List.map_cons, List.map_nil, List.sum_cons, List.sum_nil]
    by_cases h1 : k < n
    · have : (k == n) = false := by simp; omega
      simp [h1, this]; omega
    · by_cases h2 : k = n
      · subst h2; simp
      · have : (k == n) = false := by simp [h2]
        simp [h1, this]; omega

theorem buckets_length (n : Nat) (wt : Nat → Nat) (cs : List Nat) (h : ∀ c ∈ cs, wt c < n) :
    (buckets n wt cs).length = cs.length := by
  unfold buckets
  rw [List.length_flatMap]
  induction cs with
  | nil => simpa using sum_map_zero (List.range n)
  | cons c cs ih =>
    have hc : wt c < n := h c List.mem_cons_self
    have hrest := ih fun x hx => h x (List.mem_cons_of_mem _ hx)
    have : (List.map (fun w => ((c :: cs).filter fun c => wt c == w).length) (List.range n))
        = List.map (fun w => (cs.filter fun c => wt c == w).length + (if wt c == w then 1 else 0)) (List.range n) := by
      apply List.map_congr_left
      intro w _
      rw [List.filter_cons]
      split <;> simp
    rw [this, sum_map_add, hrest, sum_indicator, if_pos hc]; simp

theorem mem_buckets (n : Nat) (wt : Nat → Nat) (cs : List Nat) {c : Nat} (hc : c ∈ cs) (hw : wt c < n) :
    c ∈ buckets n wt cs := by
  unfold buckets
  rw [List.mem_flatMap]
  exact ⟨wt c, List.mem_range.mpr hw, List.mem_filter.mpr ⟨hc, by simp⟩⟩

theorem buckets_sorted (n : Nat) (wt : Nat → Nat) (cs : List Nat) :
    (buckets n wt cs).Pairwise fun a b => wt a ≤ wt b := by
  unfold buckets
  rw [List.pairwise_flatMap]
  constructor
  · intro w _
    apply List.pairwise_of_forall_mem_list
    intro a ha b hb
    have h1 : wt a = w := by simpa using (List.mem_filter.mp ha).2
    have h2 : wt b = w := by simpa using (List.mem_filter.mp hb).2
    omega
  · apply List.Pairwise.imp _ List.pairwise_lt_range
    intro w1 w2 hlt x hx y hy
    have h1 : wt x = w1 := by simpa using (List.mem_filter.mp hx).2
    have h2 : wt y = w2 := by simpa using (List.mem_filter.mp hy).2
    omega

/-- the column at the last position has the largest weight -/
theorem buckets_last_max (n : Nat) (wt : Nat → Nat) (cs : List Nat) (hn : cs.length = n) (h : ∀ c ∈ cs, wt c < n)
    {c : Nat} (hc : c ∈ cs) : wt c ≤ wt (nat (buckets n wt cs) (n - 1)) := by
  have hlen := buckets_length n wt cs h
  have hmem := mem_buckets n wt cs hc (h c hc)
  obtain ⟨i, hi, hic⟩ := List.mem_iff_getElem.mp hmem
  have hn1 : n - 1 < (buckets n wt cs).length := by rw [hlen, hn]; rw [hlen, hn] at hi; omega
  rw [nat_eq_getElem _ _ hn1, ← hic]
  by_cases hlt : i < n - 1
  · exact (List.pairwise_iff_getElem.mp (buckets_sorted n wt cs)) i (n - 1) hi hn1 hlt
  · have : i = n - 1 := by rw [hlen, hn] at hi; omega
    subst this; exact Nat.le_refl _

/-! ### for the strength graph -/

/-- no vertex depends on itself, and every entry is a vertex -/
def WF (S : Graph) : Prop := ∀ v, v < S.length → v ∉ S.getD v []

theorem weight_lt (S : Graph) (hwf : WF S) {c : Nat} (hc : c < S.length) : (dependents S c).length < S.length := by
  unfold dependents
  have := (List.length_filter_lt_length_iff_exists (p := fun r => (S.getD r []).contains c) (l := List.range S.length)).mpr
    ⟨c, List.mem_range.mpr hc, by simpa using hwf c hc⟩
  simpa using this

theorem nat_wts (S : Graph) {c : Nat} (hc : c < S.length) : nat (wts S) c = (dependents S c).length := by
  simp [nat, wts, List.getD_eq_getElem?_getD, hc]

/-- the first column the main loop visits is the one at the last bucket position -/
theorem firstPass_order_head (S : Graph) (l0 : List Int) (hn : 0 < S.length) :
    (firstPass S l0).2.head? = some (nat (init S l0).i2c (S.length - 1)) := by
  unfold firstPass
  obtain ⟨m, hm⟩ : ∃ m, S.length = m + 1 := ⟨S.length - 1, by omega⟩
  rw [hm, List.range_succ, List.reverse_append]
  simp [runFrom]

/-- **when the graph has an edge, the first column visited has a dependent other than itself** (the hypothesis of
    `splitRS_mixed` that concerns the initial buckets) -/
theorem first_visit_has_dependent (S : Graph) (hwf : WF S) {u : Nat} (hu : u < S.length) (hdep : dependents S u ≠ []) :
    nat (init S (List.replicate S.length (-1))).i2c (S.length - 1) < S.length ∧
    ∃ d, d ∈ dependents S (nat (init S (List.replicate S.length (-1))).i2c (S.length - 1)) ∧
      d ≠ nat (init S (List.replicate S.length (-1))).i2c (S.length - 1) := by
  rw [init_i2c]
  have hall : ∀ c ∈ List.range S.length, nat (wts S) c < S.length := by
    intro c hc
    have hc' := List.mem_range.mp hc
    rw [nat_wts S hc']; exact weight_lt S hwf hc'
  have hmax := buckets_last_max S.length (fun c => nat (wts S) c) (List.range S.length) (by simp) hall (List.mem_range.mpr hu)
  generalize hc0 : nat (buckets S.length (fun c => nat (wts S) c) (List.range S.length)) (S.length - 1) = c0 at hmax ⊢
  -- c0 is a vertex: it is an element of the bucket array
  have hlen := buckets_length S.length (fun c => nat (wts S) c) (List.range S.length) hall
  have hc0mem : c0 ∈ buckets S.length (fun c => nat (wts S) c) (List.range S.length) := by
    rw [← hc0]
    have hn1 : S.length - 1 < (buckets S.length (fun c => nat (wts S) c) (List.range S.length)).length := by
      rw [hlen]; simp; omega
    rw [nat_eq_getElem _ _ hn1]
    exact List.getElem_mem hn1
  have hc0n : c0 < S.length := by
    unfold buckets at hc0mem
    obtain ⟨w, _, hw⟩ := List.mem_flatMap.mp hc0mem
    exact List.mem_range.mp (List.mem_filter.mp hw).1
  rw [nat_wts S hu, nat_wts S hc0n] at hmax
  have hpos : 0 < (dependents S u).length := List.length_pos_iff.mpr hdep
  have hne : dependents S c0 ≠ [] := by
    intro e; rw [e, List.length_nil] at hmax; omega
  obtain ⟨d, hd⟩ := List.exists_mem_of_ne_nil _ hne
  refine ⟨hc0n, d, hd, ?_⟩
  intro e; subst e
  -- d ∈ dependents S d would be a self-dependency
  unfold dependents at hd
  have := (List.mem_filter.mp hd).2
  exact hwf d hc0n (by simpa using this)

end Raptor.RS
