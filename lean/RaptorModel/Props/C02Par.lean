import RaptorModel.Props.C02
import RaptorModel.Model.ParSpmv
import Mathlib.Data.List.Perm.Basic
import Mathlib.Data.List.Nodup
/-!
# C02 — the distributed mat-vec is the global product, on every partition

`Model/ParSpmv.lean` is `ParMatrix::mult / mult_append / residual / mult_T` on per-rank blocks.
The theorems below hold for **any** list of blocks (any number of ranks, empty ranks, any row and
column maps, any halo maps, stored duplicates, any storage order) under three hypotheses, all of
which the driver evaluates on the real objects of every distributed case (`spec/hypothesis`):

* every stored local index lies inside its block / its halo map (`Blk.WF`),
* no global row is held twice (`(bs.flatMap (·.rowMap)).Nodup`),
* for `mult_T`: no global column is owned twice.

What a rank reads from its neighbours is a parameter here: `gatherMap B.offColMap X`, the owners'
values of the halo columns — the conclusion of C03's `exchange_delivers`; for `mult_T` the reverse
exchange adds what arrives (`arrivals`; C03's `exchangeT_collects`).  The conclusions speak of
`image bs`, the global entry list of the distributed object, so they do not depend on how the
matrix was cut: two layouts of the same matrix give the same global vector
(`parMult_layout_indep`).
-/
namespace Raptor.C02Par
open Raptor.Sparse Raptor.Spmv Raptor.ParMat Raptor.ParSpmv Raptor.C02

variable {K : Type}

/-- stored local indices lie inside the block and inside the maps -/
def Blk.WF (B : Blk K) : Prop :=
  (∀ e ∈ B.on, e.1 < B.rowMap.length ∧ e.2.1 < B.onColMap.length) ∧
  (∀ e ∈ B.off, e.1 < B.rowMap.length ∧ e.2.1 < B.offColMap.length)

/-- local entries read through a row map and a column map -/
def globalize (rm cm : List Nat) (es : List (Entry K)) : List (Entry K) :=
  es.map fun e => (rm.getD e.1 0, cm.getD e.2.1 0, e.2.2)

theorem global_eq (B : Blk K) :
    B.global = globalize B.rowMap B.onColMap B.on ++ globalize B.rowMap B.offColMap B.off := rfl

section Semiring
variable [CommSemiring K]

theorem gatherMap_at (m : List Nat) (X : List K) (k : Nat) (hk : k < m.length) :
    at' (gatherMap m X) k = at' X (m.getD k 0) := by
  simp [at', gatherMap, List.getD_eq_getElem?_getD, List.getElem?_eq_getElem hk]

theorem getD_inj_of_nodup {m : List Nat} (h : m.Nodup) {a b : Nat} (ha : a < m.length) (hb : b < m.length)
    (e : m.getD a 0 = m.getD b 0) : a = b := by
  exact (List.getD_inj ha hb h).mp e

/-- a block product in local numbering is the product with the globalized entries -/
theorem actE_globalize (rm cm : List Nat) (es : List (Entry K)) (X : List K) (i : Nat)
    (hrm : rm.Nodup) (hi : i < rm.length)
    (hes : ∀ e ∈ es, e.1 < rm.length ∧ e.2.1 < cm.length) :
    actE es (gatherMap cm X) i = actE (globalize rm cm es) X (rm.getD i 0) := by
  rw [actE_eq_sum_ite, actE_eq_sum_ite, globalize, List.map_map]
  congr 1
  apply List.map_congr_left
  intro e he
  obtain ⟨h1, h2⟩ := hes e he
  simp only [Function.comp]
  rw [gatherMap_at cm X _ h2]
  by_cases h : e.1 = i
  · rw [if_pos h, if_pos (by rw [h])]
  · rw [if_neg h, if_neg (fun e' => h (getD_inj_of_nodup hrm h1 hi e'))]

theorem multBlk_length (B : Blk K) (xloc halo : List K) :
    (multBlk B xloc halo).length = B.rowMap.length := by
  simp [multBlk, appendE_length, zeros_length]

/-- what `mult` leaves in local row `i` -/
theorem multBlk_get (B : Blk K) (xloc halo : List K) (i : Nat) (hi : i < B.rowMap.length) :
    (multBlk B xloc halo).getD i 0 = actE B.on xloc i + actE B.off halo i := by
  unfold multBlk
  rw [appendE_get _ _ _ _ (by rw [appendE_length, zeros_length]; exact hi),
    appendE_get _ _ _ _ (by rw [zeros_length]; exact hi), zeros_getD, zero_add]

theorem multAppendBlk_get (B : Blk K) (xloc halo b : List K) (i : Nat) (hi : i < b.length) :
    (multAppendBlk B xloc halo b).getD i 0 = b.getD i 0 + (actE B.on xloc i + actE B.off halo i) := by
  unfold multAppendBlk
  rw [appendE_get _ _ _ _ (by rw [appendE_length]; exact hi), appendE_get _ _ _ _ hi, add_assoc]

/-- one rank's `mult` is the product with its own globalized entries -/
theorem multBlk_global (B : Blk K) (X : List K) (hB : Blk.WF B) (hrm : B.rowMap.Nodup)
    (i : Nat) (hi : i < B.rowMap.length) :
    (multBlk B (gatherMap B.onColMap X) (gatherMap B.offColMap X)).getD i 0
      = actE B.global X (B.rowMap.getD i 0) := by
  rw [multBlk_get B _ _ i hi, global_eq, actE_append,
    actE_globalize B.rowMap B.onColMap B.on X i hrm hi hB.1,
    actE_globalize B.rowMap B.offColMap B.off X i hrm hi hB.2]

/-- entries of a block whose row map misses `g` contribute nothing to row `g` -/
theorem actE_global_zero (B : Blk K) (X : List K) (hB : Blk.WF B) (g : Nat) (hg : g ∉ B.rowMap) :
    actE B.global X g = 0 := by
  have key : ∀ (cm : List Nat) (es : List (Entry K)), (∀ e ∈ es, e.1 < B.rowMap.length) →
      actE (globalize B.rowMap cm es) X g = 0 := by
    intro cm es hes
    rw [actE_eq_sum_ite, globalize, List.map_map]
    apply List.sum_eq_zero
    intro t ht
    obtain ⟨e, he, rfl⟩ := List.mem_map.mp ht
    simp only [Function.comp]
    rw [if_neg]
    intro hEq
    apply hg
    rw [← hEq, List.getD_eq_getElem?_getD, List.getElem?_eq_getElem (hes e he)]
    exact List.getElem_mem _
  rw [global_eq, actE_append, key _ _ (fun e he => (hB.1 e he).1), key _ _ (fun e he => (hB.2 e he).1), add_zero]

omit [CommSemiring K] in
theorem image_cons (B : Blk K) (bs : List (Blk K)) : image (B :: bs) = B.global ++ image bs := by
  simp [image]

theorem actE_image_zero (bs : List (Blk K)) (X : List K) (hWF : ∀ B ∈ bs, Blk.WF B) (g : Nat)
    (hg : g ∉ bs.flatMap (·.rowMap)) : actE (image bs) X g = 0 := by
  induction bs with
  | nil => rfl
  | cons B bs ih =>
    rw [image_cons, actE_append]
    simp only [List.flatMap_cons, List.mem_append, not_or] at hg
    rw [actE_global_zero B X (hWF B List.mem_cons_self) g hg.1,
      ih (fun B' h => hWF B' (List.mem_cons_of_mem _ h)) hg.2, add_zero]

/-- in the whole distributed object, the entries of a global row all sit in the block that holds it -/
theorem actE_image_eq (bs : List (Blk K)) (X : List K) (hWF : ∀ B ∈ bs, Blk.WF B)
    (hrows : (bs.flatMap (·.rowMap)).Nodup) (B : Blk K) (hB : B ∈ bs) (g : Nat) (hg : g ∈ B.rowMap) :
    actE (image bs) X g = actE B.global X g := by
  induction bs with
  | nil => cases hB
  | cons B0 bs ih =>
    rw [image_cons, actE_append]
    simp only [List.flatMap_cons] at hrows
    have hdis := (List.nodup_append.mp hrows).2.2
    rcases List.mem_cons.mp hB with rfl | hmem
    · have hnot : g ∉ bs.flatMap (·.rowMap) := fun h => hdis g hg g h rfl
      rw [actE_image_zero bs X (fun B' h => hWF B' (List.mem_cons_of_mem _ h)) g hnot, add_zero]
    · have hin : g ∈ bs.flatMap (·.rowMap) := List.mem_flatMap.mpr ⟨B, hmem, hg⟩
      have hnot : g ∉ B0.rowMap := fun h => hdis g h g hin rfl
      rw [actE_global_zero B0 X (hWF B0 List.mem_cons_self) g hnot, zero_add]
      exact ih (fun B' h => hWF B' (List.mem_cons_of_mem _ h)) (List.nodup_append.mp hrows).2.1 hmem

theorem getD_mem {m : List Nat} {i : Nat} (hi : i < m.length) : m.getD i 0 ∈ m := by
  rw [List.getD_eq_getElem?_getD, List.getElem?_eq_getElem hi]
  exact List.getElem_mem _

/-- **`ParMatrix::mult` on every partition.** Whatever the blocks, the maps and the number of
    ranks: local row `i` of rank `B` receives row `rowMap[i]` of the product of the *global* entry
    list with the *global* vector. -/
theorem parMult_global (bs : List (Blk K)) (X : List K) (hWF : ∀ B ∈ bs, Blk.WF B)
    (hrows : (bs.flatMap (·.rowMap)).Nodup) (B : Blk K) (hB : B ∈ bs) (i : Nat) (hi : i < B.rowMap.length) :
    (multBlk B (gatherMap B.onColMap X) (gatherMap B.offColMap X)).getD i 0
      = actE (image bs) X (B.rowMap.getD i 0) := by
  have hnd : B.rowMap.Nodup := by
    obtain ⟨l1, l2, rfl⟩ := List.append_of_mem hB
    simp only [List.flatMap_append, List.flatMap_cons] at hrows
    exact (List.nodup_append.mp (List.nodup_append.mp hrows).2.1).1
  rw [multBlk_global B X (hWF B hB) hnd i hi, actE_image_eq bs X hWF hrows B hB _ (getD_mem hi)]

/-- `mult_append`: `b + A x`, row by row -/
theorem parMultAppend_global (bs : List (Blk K)) (X b : List K) (hWF : ∀ B ∈ bs, Blk.WF B)
    (hrows : (bs.flatMap (·.rowMap)).Nodup) (B : Blk K) (hB : B ∈ bs) (i : Nat) (hi : i < B.rowMap.length) :
    (multAppendBlk B (gatherMap B.onColMap X) (gatherMap B.offColMap X) (gatherMap B.rowMap b)).getD i 0
      = b.getD (B.rowMap.getD i 0) 0 + actE (image bs) X (B.rowMap.getD i 0) := by
  have hlen : i < (gatherMap B.rowMap b).length := by simpa [gatherMap] using hi
  rw [multAppendBlk_get B _ _ _ i hlen, ← multBlk_get B _ _ i hi, parMult_global bs X hWF hrows B hB i hi]
  congr 1
  exact gatherMap_at B.rowMap b i hi

/-- the product does not depend on how the matrix is cut: two distributed objects with the same
    global entries (up to order) give the same value for every global row -/
theorem parMult_layout_indep (bs bs' : List (Blk K)) (X : List K)
    (hWF : ∀ B ∈ bs, Blk.WF B) (hWF' : ∀ B ∈ bs', Blk.WF B)
    (hrows : (bs.flatMap (·.rowMap)).Nodup) (hrows' : (bs'.flatMap (·.rowMap)).Nodup)
    (himg : (image bs).Perm (image bs'))
    (B : Blk K) (hB : B ∈ bs) (i : Nat) (hi : i < B.rowMap.length)
    (B' : Blk K) (hB' : B' ∈ bs') (i' : Nat) (hi' : i' < B'.rowMap.length)
    (hsame : B.rowMap.getD i 0 = B'.rowMap.getD i' 0) :
    (multBlk B (gatherMap B.onColMap X) (gatherMap B.offColMap X)).getD i 0
      = (multBlk B' (gatherMap B'.onColMap X) (gatherMap B'.offColMap X)).getD i' 0 := by
  rw [parMult_global bs X hWF hrows B hB i hi, parMult_global bs' X hWF' hrows' B' hB' i' hi', hsame]
  exact actE_perm himg X _

end Semiring

section Ring
variable [CommRing K]

theorem residualBlk_get (B : Blk K) (xloc halo b : List K) (i : Nat) (hi : i < b.length) :
    (residualBlk B xloc halo b).getD i 0 = b.getD i 0 - (actE B.on xloc i + actE B.off halo i) := by
  unfold residualBlk
  rw [appendNegE_get _ _ _ _ (by rw [appendNegE_length]; exact hi), appendNegE_get _ _ _ _ hi, sub_sub]

/-- `residual`: `b − A x`, row by row, on every partition -/
theorem parResidual_global (bs : List (Blk K)) (X b : List K) (hWF : ∀ B ∈ bs, Blk.WF B)
    (hrows : (bs.flatMap (·.rowMap)).Nodup) (B : Blk K) (hB : B ∈ bs) (i : Nat) (hi : i < B.rowMap.length) :
    (residualBlk B (gatherMap B.onColMap X) (gatherMap B.offColMap X) (gatherMap B.rowMap b)).getD i 0
      = b.getD (B.rowMap.getD i 0) 0 - actE (image bs) X (B.rowMap.getD i 0) := by
  have hlen : i < (gatherMap B.rowMap b).length := by simpa [gatherMap] using hi
  rw [residualBlk_get B _ _ _ i hlen, ← multBlk_get B _ _ i hi, parMult_global bs X hWF hrows B hB i hi]
  congr 1
  exact gatherMap_at B.rowMap b i hi

end Ring

/-! ## `mult_T`: the transposed product on every partition -/
section Transpose
variable [CommSemiring K]

/-- the on-process block of a rank with the roles of rows and columns exchanged -/
def tBlk (B : Blk K) : Blk K :=
  { rowMap := B.onColMap, onColMap := B.rowMap, offColMap := [], on := B.on.map swapE, off := [] }

omit [CommSemiring K] in
theorem tBlk_WF (B : Blk K) (h : Blk.WF B) : Blk.WF (tBlk B) := by
  refine ⟨?_, ?_⟩
  · intro e he
    obtain ⟨e0, he0, rfl⟩ := List.mem_map.mp he
    exact ⟨(h.1 e0 he0).2, (h.1 e0 he0).1⟩
  · intro e he; cases he

def onImage (bs : List (Blk K)) : List (Entry K) := bs.flatMap fun B => globalize B.rowMap B.onColMap B.on
def offImage (bs : List (Blk K)) : List (Entry K) := bs.flatMap fun B => globalize B.rowMap B.offColMap B.off

theorem actTE_append (es₁ es₂ : List (Entry K)) (x : List K) (j : Nat) :
    actTE (es₁ ++ es₂) x j = actTE es₁ x j + actTE es₂ x j := by
  simp only [actTE_eq_sum_ite, List.map_append, List.sum_append]

theorem actTE_image_split (bs : List (Blk K)) (X : List K) (g : Nat) :
    actTE (image bs) X g = actTE (onImage bs) X g + actTE (offImage bs) X g := by
  induction bs with
  | nil => simp [image, onImage, offImage, actTE_nil]
  | cons B bs ih =>
    have h1 : onImage (B :: bs) = globalize B.rowMap B.onColMap B.on ++ onImage bs := by simp [onImage]
    have h2 : offImage (B :: bs) = globalize B.rowMap B.offColMap B.off ++ offImage bs := by simp [offImage]
    rw [image_cons, actTE_append, ih, h1, h2, actTE_append, actTE_append, global_eq, actTE_append]
    exact add_add_add_comm _ _ _ _

omit [CommSemiring K] in
theorem tBlk_global (B : Blk K) : (tBlk B).global = (globalize B.rowMap B.onColMap B.on).map swapE := by
  simp [Blk.global, tBlk, globalize, List.map_map, Function.comp_def]

/-- the on-process parts of all ranks, transposed, are a distributed object of their own -/
theorem actE_image_tBlk (bs : List (Blk K)) (X : List K) (g : Nat) :
    actE (image (bs.map tBlk)) X g = actTE (onImage bs) X g := by
  induction bs with
  | nil => rfl
  | cons B bs ih =>
    have h1 : onImage (B :: bs) = globalize B.rowMap B.onColMap B.on ++ onImage bs := by simp [onImage]
    rw [List.map_cons, image_cons, actE_append, ih, h1, actTE_append, tBlk_global, ← actTE_eq_actE_swap]

theorem multTOn_eq (B : Blk K) (xloc : List K) : multTOn B xloc = multBlk (tBlk B) xloc [] := by
  simp [multTOn, multBlk, tBlk, appendTE_eq_appendE_swap, appendE]

/-- the local part of `mult_T` on the owner of column `onColMap[j]` collects every on-process entry of that column -/
theorem multTOn_global (bs : List (Blk K)) (X : List K) (hWF : ∀ B ∈ bs, Blk.WF B)
    (hcols : (bs.flatMap (·.onColMap)).Nodup) (B : Blk K) (hB : B ∈ bs) (j : Nat) (hj : j < B.onColMap.length) :
    (multTOn B (gatherMap B.rowMap X)).getD j 0 = actTE (onImage bs) X (B.onColMap.getD j 0) := by
  have hrows : ((bs.map tBlk).flatMap (·.rowMap)).Nodup := by
    simpa [List.flatMap_map, tBlk] using hcols
  have hWF' : ∀ B' ∈ bs.map tBlk, Blk.WF B' := by
    intro B' h
    obtain ⟨B0, hB0, rfl⟩ := List.mem_map.mp h
    exact tBlk_WF B0 (hWF B0 hB0)
  have := parMult_global (bs.map tBlk) X hWF' hrows (tBlk B) (List.mem_map_of_mem hB) j hj
  rw [actE_image_tBlk] at this
  rw [multTOn_eq]
  simpa [tBlk, gatherMap] using this

theorem multTOff_get (B : Blk K) (xloc : List K) (k : Nat) (hk : k < B.offColMap.length) :
    (multTOff B xloc).getD k 0 = actTE B.off xloc k := by
  unfold multTOff
  rw [appendTE_get _ _ _ _ (by rw [zeros_length]; exact hk), zeros_getD, zero_add]

/-- regrouping by halo position: what a rank's off-process entries contribute to global column `g`
    is the sum of its send buffer over the halo positions that name `g` -/
theorem off_regroup (rm cm : List Nat) (es : List (Entry K)) (X : List K) (g : Nat)
    (hes : ∀ e ∈ es, e.1 < rm.length ∧ e.2.1 < cm.length) :
    actTE (globalize rm cm es) X g
      = ((List.range cm.length).map fun k => if cm.getD k 0 = g then actTE es (gatherMap rm X) k else 0).sum := by
  induction es with
  | nil => simp [globalize, actTE_nil]
  | cons e es ih =>
    have hrest : ∀ e' ∈ es, e'.1 < rm.length ∧ e'.2.1 < cm.length := fun e' h => hes e' (List.mem_cons_of_mem _ h)
    obtain ⟨h1, h2⟩ := hes e List.mem_cons_self
    have hsplit : ((List.range cm.length).map fun k => if cm.getD k 0 = g then actTE (e :: es) (gatherMap rm X) k else 0).sum
        = ((List.range cm.length).map fun k => if e.2.1 = k then (if cm.getD k 0 = g then e.2.2 * at' (gatherMap rm X) e.1 else 0) else 0).sum
          + ((List.range cm.length).map fun k => if cm.getD k 0 = g then actTE es (gatherMap rm X) k else 0).sum := by
      rw [← List.sum_map_add]
      congr 1
      apply List.map_congr_left
      intro k _
      rw [actTE_cons]
      by_cases hc : cm.getD k 0 = g
      · by_cases hk : e.2.1 = k
        · simp only [if_pos hc, if_pos hk]
        · simp only [if_pos hc, if_neg hk]
      · by_cases hk : e.2.1 = k
        · simp only [if_neg hc, if_pos hk, add_zero]
        · simp only [if_neg hc, if_neg hk, add_zero]
    rw [hsplit, sum_range_ite, if_pos h2, ← ih hrest]
    show actTE ((rm.getD e.1 0, cm.getD e.2.1 0, e.2.2) :: globalize rm cm es) X g = _
    rw [actTE_cons, gatherMap_at rm X _ h1]

/-- everything that arrives at the owner of `g` is the off-process part of column `g` of the global matrix -/
theorem arrivals_sum (bs : List (Blk K)) (X : List K) (hWF : ∀ B ∈ bs, Blk.WF B) (g : Nat) :
    (arrivals bs (fun B' => multTOff B' (gatherMap B'.rowMap X)) g).sum = actTE (offImage bs) X g := by
  induction bs with
  | nil => rfl
  | cons B bs ih =>
    have h2 : offImage (B :: bs) = globalize B.rowMap B.offColMap B.off ++ offImage bs := by simp [offImage]
    have h3 : arrivals (B :: bs) (fun B' => multTOff B' (gatherMap B'.rowMap X)) g
        = (((List.range B.offColMap.length).filter fun k => B.offColMap.getD k 0 == g).map
            fun k => (multTOff B (gatherMap B.rowMap X)).getD k 0)
          ++ arrivals bs (fun B' => multTOff B' (gatherMap B'.rowMap X)) g := by simp [arrivals]
    rw [h2, actTE_append, h3, List.sum_append, ih (fun B' h => hWF B' (List.mem_cons_of_mem _ h)),
      off_regroup B.rowMap B.offColMap B.off X g (hWF B List.mem_cons_self).2, sum_map_filter]
    congr 2
    apply List.map_congr_left
    intro k hk
    rw [multTOff_get B _ k (List.mem_range.mp hk)]
    by_cases hc : B.offColMap.getD k 0 = g
    · have hb : (B.offColMap.getD k 0 == g) = true := by simpa using hc
      simp only [hb, if_pos hc, if_true]
    · have hb : (B.offColMap.getD k 0 == g) = false := by simpa using hc
      simp only [hb, if_neg hc]
      rfl

/-- **`ParMatrix::mult_T` on every partition.** Position `j` of the owner `B` receives column
    `onColMap[j]` of the transposed product of the *global* entry list with the *global*
    (row-indexed) vector: local transposed product plus the sum of what the reverse halo
    exchange delivers. -/
theorem parMultT_global (bs : List (Blk K)) (X : List K) (hWF : ∀ B ∈ bs, Blk.WF B)
    (hcols : (bs.flatMap (·.onColMap)).Nodup) (B : Blk K) (hB : B ∈ bs) (j : Nat) (hj : j < B.onColMap.length) :
    (multTBlk bs (fun B' => gatherMap B'.rowMap X) B).getD j 0 = actTE (image bs) X (B.onColMap.getD j 0) := by
  have hget : (multTBlk bs (fun B' => gatherMap B'.rowMap X) B).getD j 0
      = (multTOn B (gatherMap B.rowMap X)).getD j 0
        + (arrivals bs (fun B' => multTOff B' (gatherMap B'.rowMap X)) (B.onColMap.getD j 0)).sum := by
    simp [multTBlk, List.getD_eq_getElem?_getD, List.getElem?_map, List.getElem?_range hj]
  rw [hget, multTOn_global bs X hWF hcols B hB j hj, arrivals_sum bs X hWF, actTE_image_split]

end Transpose

/-! ## assembly (`distribute`): the hypotheses hold on every layout, and the conclusions speak of the triplets -/
section Distribute
theorem mem_haloCols (l : Rank) (es : List (Entry K)) (e : Entry K) (he : e ∈ es)
    (h : (l.ownsRow e.1 && !l.ownsCol e.2.1) = true) : e.2.1 ∈ haloCols l es := by
  unfold haloCols
  rw [List.mem_mergeSort, List.mem_eraseDups]
  exact List.mem_map.mpr ⟨e, List.mem_filter.mpr ⟨he, h⟩, rfl⟩

theorem ownsRow_iff (l : Rank) (i : Nat) : l.ownsRow i = true ↔ l.2.2.1 ≤ i ∧ i < l.2.2.1 + l.1 := by
  simp [Rank.ownsRow]
theorem ownsCol_iff (l : Rank) (j : Nat) : l.ownsCol j = true ↔ l.2.2.2 ≤ j ∧ j < l.2.2.2 + l.2.1 := by
  simp [Rank.ownsCol]

theorem shift_getD (n f k : Nat) (hk : k < n) : ((List.range n).map (· + f)).getD k 0 = k + f := by
  simp [List.getD_eq_getElem?_getD, List.getElem?_map, List.getElem?_range hk]

theorem distributeRank_WF (l : Rank) (es : List (Entry K)) : Blk.WF (distributeRank l es) := by
  refine ⟨?_, ?_⟩
  · intro e he
    simp only [distributeRank] at he
    obtain ⟨e0, he0, rfl⟩ := List.mem_map.mp he
    have hp := (List.mem_filter.mp he0).2
    rw [Bool.and_eq_true, ownsRow_iff, ownsCol_iff] at hp
    simp only [distributeRank, List.length_map, List.length_range]
    omega
  · intro e he
    simp only [distributeRank] at he
    obtain ⟨e0, he0, rfl⟩ := List.mem_map.mp he
    have hm := List.mem_filter.mp he0
    have hp := hm.2
    have hmem := mem_haloCols l es e0 hm.1 hp
    rw [Bool.and_eq_true, ownsRow_iff] at hp
    simp only [distributeRank, List.length_map, List.length_range]
    exact ⟨by omega, List.idxOf_lt_length_of_mem hmem⟩

/-- read through its maps, the block of a rank is the list of the entries of its rows: first those in its own columns, then the others -/
theorem distributeRank_global (l : Rank) (es : List (Entry K)) :
    (distributeRank l es).global
      = es.filter (fun e => l.ownsRow e.1 && l.ownsCol e.2.1) ++ es.filter (fun e => l.ownsRow e.1 && !l.ownsCol e.2.1) := by
  rw [global_eq]
  congr 1
  · simp only [distributeRank, globalize, List.map_map]
    conv => rhs; rw [← List.map_id (es.filter _)]
    apply List.map_congr_left
    intro e he
    have hp := (List.mem_filter.mp he).2
    rw [Bool.and_eq_true, ownsRow_iff, ownsCol_iff] at hp
    simp only [Function.comp, id]
    rw [shift_getD _ _ _ (by omega), shift_getD _ _ _ (by omega)]
    ext <;> simp <;> omega
  · simp only [distributeRank, globalize, List.map_map]
    conv => rhs; rw [← List.map_id (es.filter _)]
    apply List.map_congr_left
    intro e he
    have hm := List.mem_filter.mp he
    have hp := hm.2
    have hmem := mem_haloCols l es e hm.1 hp
    rw [Bool.and_eq_true, ownsRow_iff] at hp
    simp only [Function.comp, id]
    rw [shift_getD _ _ _ (by omega)]
    have hidx : (haloCols l es).getD ((haloCols l es).idxOf e.2.1) 0 = e.2.1 := by
      rw [List.getD_eq_getElem?_getD, List.getElem?_eq_getElem (List.idxOf_lt_length_of_mem hmem)]
      simp
    rw [hidx]
    ext <;> simp <;> omega

theorem distributeRank_global_perm (l : Rank) (es : List (Entry K)) :
    (distributeRank l es).global.Perm (es.filter fun e => l.ownsRow e.1) := by
  rw [distributeRank_global]
  have h1 : es.filter (fun e => l.ownsRow e.1 && l.ownsCol e.2.1) = (es.filter fun e => l.ownsRow e.1).filter (fun e => l.ownsCol e.2.1) := by
    rw [List.filter_filter]; congr 1; funext e; exact Bool.and_comm _ _
  have h2 : es.filter (fun e => l.ownsRow e.1 && !l.ownsCol e.2.1) = (es.filter fun e => l.ownsRow e.1).filter (fun e => !l.ownsCol e.2.1) := by
    rw [List.filter_filter]; congr 1; funext e; exact Bool.and_comm _ _
  rw [h1, h2]
  exact List.filter_append_perm _ _

section Assembled
variable [CommSemiring K]

theorem actE_filter_rows (p : Nat → Bool) (es : List (Entry K)) (X : List K) (g : Nat) (hg : p g = true) :
    actE (es.filter fun e => p e.1) X g = actE es X g := by
  unfold actE
  rw [List.filter_filter]
  congr 2
  apply List.filter_congr
  intro e _
  by_cases h : e.1 = g
  · simp [h, hg]
  · simp [h]

omit [CommSemiring K] in
theorem rowMap_nodup (l : Rank) (es : List (Entry K)) : (distributeRank l es).rowMap.Nodup := by
  simp only [distributeRank]
  exact List.Nodup.map (fun a b h => by simpa using h) List.nodup_range

/-- **mat-vec on an assembled layout.** For any rank description `l` (any first row, any sizes,
    any column block) and any triplet list, local row `i` of `ParMatrix::mult` on the blocks that
    assembly gives this rank is row `first_row + i` of the global product. -/
theorem parMult_distribute (l : Rank) (es : List (Entry K)) (X : List K) (i : Nat) (hi : i < l.1) :
    (multBlk (distributeRank l es) (gatherMap (distributeRank l es).onColMap X)
        (gatherMap (distributeRank l es).offColMap X)).getD i 0 = actE es X (i + l.2.2.1) := by
  have hlen : (distributeRank l es).rowMap.length = l.1 := by simp [distributeRank]
  have hi' : i < (distributeRank l es).rowMap.length := by rw [hlen]; exact hi
  rw [multBlk_global _ X (distributeRank_WF l es) (rowMap_nodup l es) i hi']
  have hrow : (distributeRank l es).rowMap.getD i 0 = i + l.2.2.1 := by
    simp only [distributeRank]; exact shift_getD _ _ _ hi
  rw [hrow, actE_perm (distributeRank_global_perm l es) X _]
  exact actE_filter_rows (fun r => l.ownsRow r) es X _ (by rw [ownsRow_iff]; omega)

theorem actTE_flatMap {α : Type} (f : α → List (Entry K)) (l : List α) (X : List K) (g : Nat) :
    actTE (l.flatMap f) X g = (l.map fun a => actTE (f a) X g).sum := by
  induction l with
  | nil => rfl
  | cons a l ih => rw [List.flatMap_cons, actTE_append, ih, List.map_cons, List.sum_cons]

/-- when every stored row has exactly one owner, the assembled object holds every entry exactly once -/
theorem actTE_image_distribute (layout : List Rank) (es : List (Entry K)) (X : List K) (g : Nat)
    (hown : ∀ e ∈ es, (layout.filter fun l => l.ownsRow e.1).length = 1) :
    actTE (image (distribute layout es)) X g = actTE es X g := by
  have h0 : image (distribute layout es) = layout.flatMap fun l => (distributeRank l es).global := by
    simp [image, distribute, List.flatMap_map]
  rw [h0, actTE_flatMap]
  have h1 : (layout.map fun l => actTE (distributeRank l es).global X g)
      = layout.map fun l => actTE (es.filter fun e => l.ownsRow e.1) X g := by
    apply List.map_congr_left
    intro l _
    exact actTE_perm (distributeRank_global_perm l es) X g
  rw [h1]
  clear h0 h1
  induction es with
  | nil => simp [actTE_nil]
  | cons e es ih =>
    have hstep : (layout.map fun l => actTE ((e :: es).filter fun e' => l.ownsRow e'.1) X g)
        = layout.map fun l => (if l.ownsRow e.1 = true then (if e.2.1 = g then e.2.2 * at' X e.1 else 0) else 0)
            + actTE (es.filter fun e' => l.ownsRow e'.1) X g := by
      apply List.map_congr_left
      intro l _
      by_cases hp : l.ownsRow e.1 = true
      · rw [List.filter_cons_of_pos (by simpa using hp), actTE_cons, if_pos hp]
      · rw [List.filter_cons_of_neg (by simpa using hp), if_neg hp, zero_add]
    rw [hstep, List.sum_map_add, ih (fun e' h => hown e' (List.mem_cons_of_mem _ h)), actTE_cons]
    congr 1
    have h1 := hown e List.mem_cons_self
    have : (layout.map fun l => if l.ownsRow e.1 = true then (if e.2.1 = g then e.2.2 * at' X e.1 else 0) else 0).sum
        = ((layout.filter fun l => l.ownsRow e.1).map fun _ => (if e.2.1 = g then e.2.2 * at' X e.1 else 0)).sum := by
      rw [sum_map_filter]
    rw [this]
    obtain ⟨a, ha⟩ := List.length_eq_one_iff.mp h1
    rw [ha]
    simp

/-- **transposed mat-vec on an assembled layout**: position `j` of rank `l` receives column
    `first_col + j` of the transposed global product, for every layout whose column blocks are
    disjoint and in which every stored row has exactly one owner (empty ranks, ranks with columns
    but no rows, unequal blocks all included). -/
theorem parMultT_distribute (layout : List Rank) (es : List (Entry K)) (X : List K)
    (hcols : (layout.flatMap fun l => (List.range l.2.1).map (· + l.2.2.2)).Nodup)
    (hown : ∀ e ∈ es, (layout.filter fun l => l.ownsRow e.1).length = 1)
    (l : Rank) (hl : l ∈ layout) (j : Nat) (hj : j < l.2.1) :
    (multTBlk (distribute layout es) (fun B' => gatherMap B'.rowMap X) (distributeRank l es)).getD j 0
      = actTE es X (j + l.2.2.2) := by
  have hWF : ∀ B ∈ distribute layout es, Blk.WF B := by
    intro B hB
    obtain ⟨l0, _, rfl⟩ := List.mem_map.mp hB
    exact distributeRank_WF l0 es
  have hc : ((distribute layout es).flatMap (·.onColMap)).Nodup := by
    simpa [distribute, List.flatMap_map, distributeRank] using hcols
  have hmem : distributeRank l es ∈ distribute layout es := List.mem_map_of_mem hl
  have hlen : (distributeRank l es).onColMap.length = l.2.1 := by simp [distributeRank]
  rw [parMultT_global _ X hWF hc _ hmem j (by rw [hlen]; exact hj), actTE_image_distribute layout es X _ hown]
  congr 1
  simp only [distributeRank]; exact shift_getD _ _ _ hj

end Assembled

end Distribute

/-! ## non-vacuity: a 3 × 3 matrix on two ranks (rank 1 reads column 0 of rank 0 through its halo) -/
section Example
def exB0 : Blk Int := { rowMap := [0, 1], onColMap := [0, 1], offColMap := [2], on := [(0, 0, 2), (1, 1, 3), (0, 1, -1)], off := [(1, 0, 5)] }
def exB1 : Blk Int := { rowMap := [2], onColMap := [2], offColMap := [0], on := [(0, 0, 4)], off := [(0, 0, 7)] }
def exX : List Int := [1, 10, 100]

example : Blk.WF exB0 ∧ Blk.WF exB1 ∧ ([exB0, exB1].flatMap (·.rowMap)).Nodup ∧ ([exB0, exB1].flatMap (·.onColMap)).Nodup := by
  refine ⟨⟨?_, ?_⟩, ⟨?_, ?_⟩, by decide, by decide⟩ <;> simp [exB0, exB1]
example : multBlk exB0 (gatherMap exB0.onColMap exX) (gatherMap exB0.offColMap exX) = [-8, 530] := by decide
example : multBlk exB1 (gatherMap exB1.onColMap exX) (gatherMap exB1.offColMap exX) = [407] := by decide
example : multTBlk [exB0, exB1] (fun B' => gatherMap B'.rowMap exX) exB0 = [702, 29] := by decide
example : multTBlk [exB0, exB1] (fun B' => gatherMap B'.rowMap exX) exB1 = [450] := by decide

/-- the assembled-layout theorems are not vacuous: two ranks with unequal blocks, the second reading a halo column -/
def exLayout : List Rank := [(2, 2, 0, 0), (1, 1, 2, 2)]
def exEs : List (Entry Int) := [(0, 0, 2), (1, 1, 3), (0, 1, -1), (1, 2, 5), (2, 2, 4), (2, 0, 7)]
example : (exLayout.flatMap fun l => (List.range l.2.1).map (· + l.2.2.2)).Nodup ∧
    ∀ e ∈ exEs, (exLayout.filter fun l => l.ownsRow e.1).length = 1 := by decide
example : (multBlk (distributeRank (2, 2, 0, 0) exEs) (gatherMap (distributeRank (2, 2, 0, 0) exEs).onColMap exX)
    (gatherMap (distributeRank (2, 2, 0, 0) exEs).offColMap exX)).getD 1 0 = 530 := by
  rw [parMult_distribute (2, 2, 0, 0) exEs exX 1 (by decide)]; decide
example : (multTBlk (distribute exLayout exEs) (fun B' => gatherMap B'.rowMap exX) (distributeRank (1, 1, 2, 2) exEs)).getD 0 0 = 450 := by
  rw [parMultT_distribute exLayout exEs exX (by decide) (by decide) (1, 1, 2, 2) (by decide) 0 (by decide)]; decide
end Example

end Raptor.C02Par
