import RaptorModel.Props.C02Par
import RaptorModel.Props.C03
/-!
# C02 — the distributed mat-vec end to end: assembly, the standard package's halo exchange, the kernels

`Props/C02Par.lean` takes the halo buffer as a parameter. Here it is the result of the message-level
exchange of `Model/Comm.lean` (C03) on the ranks' slices of one global vector, for the halo maps
that assembly produces; C03's `exchange_delivers` turns it into the owners' values, and
`parMult_distribute` finishes.  Nothing about the partition is assumed beyond a valid `first_cols`
array (non-decreasing, empty ranks allowed).
-/
namespace Raptor.C02Par
open Raptor.Sparse Raptor.Spmv Raptor.ParMat Raptor.ParSpmv Raptor.Comm Raptor.C02

variable {K : Type}

/-- the slices of a global vector held by the ranks of a column partition `fc` (`x.local` on every rank) -/
def slices [Zero K] (fc : List Nat) (np : Nat) (X : List K) : List (List K) :=
  (List.range np).map fun p => (List.range (fc.getD (p+1) 0 - fc.getD p 0)).map fun j => X.getD (j + fc.getD p 0) 0

theorem slices_getD [Zero K] (fc : List Nat) (np : Nat) (X : List K) (p : Nat) (hp : p < np) :
    (slices fc np X).getD p [] = (List.range (fc.getD (p+1) 0 - fc.getD p 0)).map fun j => X.getD (j + fc.getD p 0) 0 := by
  simp [slices, List.getD_eq_getElem?_getD, List.getElem?_map, List.getElem?_range hp]

theorem range_map_getD {β : Type} (n : Nat) (f : Nat → β) (d : β) (k : Nat) (hk : k < n) :
    ((List.range n).map f).getD k d = f k := by
  simp [List.getD_eq_getElem?_getD, List.getElem?_map, List.getElem?_range hk]

/-- what C03's specification of the halo says, for slices of one global vector: the owners' values -/
theorem haloSpec_slices [Zero K] {fc : List Nat} {np : Nat} (h : FcOk fc np) (off : List (List Nat)) (X : List K) (r : Nat)
    (hb : ∀ c ∈ off.getD r [], c < fc.getD np 0) :
    haloSpec 0 fc off (slices fc np X) r = gatherMap (off.getD r []) X := by
  unfold haloSpec gatherMap
  apply List.map_congr_left
  intro c hc
  obtain ⟨h1, h2, h3⟩ := C03.owner_spec h (hb c hc)
  rw [slices_getD fc np X _ h1]
  have hlt : c - fc.getD (owner fc c) 0 < fc.getD (owner fc c + 1) 0 - fc.getD (owner fc c) 0 := by omega
  rw [range_map_getD _ _ _ _ hlt]
  congr 1
  omega

theorem haloCols_sorted (l : Rank) (es : List (Entry K)) : (haloCols l es).Pairwise (· ≤ ·) := by
  unfold haloCols
  have := List.pairwise_mergeSort (le := fun a b : Nat => decide (a ≤ b))
    (fun a b c h1 h2 => by simp only [decide_eq_true_eq] at *; omega)
    (fun a b => by simp only [Bool.or_eq_true, decide_eq_true_eq]; omega)
    (((es.filter fun e => l.ownsRow e.1 && !l.ownsCol e.2.1).map (·.2.1)).eraseDups)
  simpa using this

theorem haloCols_mem (l : Rank) (es : List (Entry K)) (c : Nat) (hc : c ∈ haloCols l es) : ∃ e ∈ es, e.2.1 = c := by
  unfold haloCols at hc
  rw [List.mem_mergeSort, List.mem_eraseDups] at hc
  obtain ⟨e, he, rfl⟩ := List.mem_map.mp hc
  exact ⟨e, (List.mem_filter.mp he).1, rfl⟩

/-- **End to end: assembly, halo exchange (C03's message-level model) and the two kernel calls.**
    For every column partition `fc` (empty ranks allowed), every row description of the ranks and
    every triplet list with columns in range: the vector `ParMatrix::mult` leaves on rank `r`,
    with the halo buffer filled by the standard package's exchange of the ranks' slices, is the
    rank's row block of the global product. -/
theorem parMult_end_to_end [CommSemiring K] {fc : List Nat} {np : Nat} (h : FcOk fc np) (layout : List Rank)
    (es : List (Entry K)) (hes : ∀ e ∈ es, e.2.1 < fc.getD np 0) (X : List K)
    (r : Nat) (hr : r < np) (l : Rank) (hl : layout.getD r (0, 0, 0, 0) = l) (hlen : r < layout.length)
    (hlc : l.2.1 = fc.getD (r+1) 0 - fc.getD r 0) (hfc : l.2.2.2 = fc.getD r 0)
    (i : Nat) (hi : i < l.1) :
    (multBlk (distributeRank l es) ((slices fc np X).getD r [])
        (exchange 0 fc (layout.map fun l' => haloCols l' es) (slices fc np X) r)).getD i 0
      = actE es X (i + l.2.2.1) := by
  have hoff : (layout.map fun l' => haloCols l' es).getD r [] = haloCols l es := by
    rw [List.getD_eq_getElem?_getD, List.getElem?_map, List.getElem?_eq_getElem hlen]
    rw [List.getD_eq_getElem?_getD, List.getElem?_eq_getElem hlen] at hl
    simp only [Option.getD_some] at hl
    simp [hl]
  have hb : ∀ c ∈ (layout.map fun l' => haloCols l' es).getD r [], c < fc.getD np 0 := by
    intro c hc
    rw [hoff] at hc
    obtain ⟨e, he, rfl⟩ := haloCols_mem l es c hc
    exact hes e he
  rw [C03.exchange_delivers h 0 _ _ r (by rw [hoff]; exact haloCols_sorted l es) hb, haloSpec_slices h _ X r hb, hoff,
    slices_getD fc np X r hr]
  have hon : ((List.range (fc.getD (r+1) 0 - fc.getD r 0)).map fun j => X.getD (j + fc.getD r 0) 0)
      = gatherMap (distributeRank l es).onColMap X := by
    simp [gatherMap, distributeRank, hlc, hfc, List.map_map, Function.comp_def]
  rw [hon]
  exact parMult_distribute l es X i hi

/-- the halo buffer that the exchange of the slices delivers on rank `r` is the owners' values of the rank's halo columns -/
theorem exchange_slices [Zero K] {fc : List Nat} {np : Nat} (h : FcOk fc np) (layout : List Rank)
    (es : List (Entry K)) (hes : ∀ e ∈ es, e.2.1 < fc.getD np 0) (X : List K)
    (r : Nat) (l : Rank) (hl : layout.getD r (0, 0, 0, 0) = l) (hlen : r < layout.length) :
    exchange 0 fc (layout.map fun l' => haloCols l' es) (slices fc np X) r = gatherMap (distributeRank l es).offColMap X := by
  have hoff : (layout.map fun l' => haloCols l' es).getD r [] = haloCols l es := by
    rw [List.getD_eq_getElem?_getD, List.getElem?_map, List.getElem?_eq_getElem hlen]
    rw [List.getD_eq_getElem?_getD, List.getElem?_eq_getElem hlen] at hl
    simp only [Option.getD_some] at hl
    simp [hl]
  have hb : ∀ c ∈ (layout.map fun l' => haloCols l' es).getD r [], c < fc.getD np 0 := by
    intro c hc
    rw [hoff] at hc
    obtain ⟨e, he, rfl⟩ := haloCols_mem l es c hc
    exact hes e he
  rw [C03.exchange_delivers h 0 _ _ r (by rw [hoff]; exact haloCols_sorted l es) hb, haloSpec_slices h _ X r hb, hoff]
  rfl

/-- `residual` end to end: `b − A x` on the rank's rows -/
theorem parResidual_end_to_end [CommRing K] {fc : List Nat} {np : Nat} (h : FcOk fc np) (layout : List Rank)
    (es : List (Entry K)) (hes : ∀ e ∈ es, e.2.1 < fc.getD np 0) (X b : List K)
    (r : Nat) (hr : r < np) (l : Rank) (hl : layout.getD r (0, 0, 0, 0) = l) (hlen : r < layout.length)
    (hlc : l.2.1 = fc.getD (r+1) 0 - fc.getD r 0) (hfc : l.2.2.2 = fc.getD r 0)
    (i : Nat) (hi : i < l.1) :
    (residualBlk (distributeRank l es) ((slices fc np X).getD r [])
        (exchange 0 fc (layout.map fun l' => haloCols l' es) (slices fc np X) r)
        (gatherMap (distributeRank l es).rowMap b)).getD i 0
      = b.getD (i + l.2.2.1) 0 - actE es X (i + l.2.2.1) := by
  have hon : (slices fc np X).getD r [] = gatherMap (distributeRank l es).onColMap X := by
    rw [slices_getD fc np X r hr]
    simp [gatherMap, distributeRank, hlc, hfc, List.map_map, Function.comp_def]
  have hlenr : (distributeRank l es).rowMap.length = l.1 := by simp [distributeRank]
  have hi' : i < (distributeRank l es).rowMap.length := by rw [hlenr]; exact hi
  have hlenb : i < (gatherMap (distributeRank l es).rowMap b).length := by simpa [gatherMap] using hi'
  have hrow : (distributeRank l es).rowMap.getD i 0 = i + l.2.2.1 := by
    simp only [distributeRank]; exact shift_getD _ _ _ hi
  rw [exchange_slices h layout es hes X r l hl hlen, hon, residualBlk_get _ _ _ _ i hlenb,
    ← multBlk_get _ _ _ i hi', parMult_distribute l es X i hi]
  have hg := gatherMap_at (distributeRank l es).rowMap b i hi'
  unfold at' at hg
  rw [hg, hrow]

/-! ## the transposed product with C03's reverse exchange, for any arrival order -/

theorem zip_eq_range {α β : Type} (l1 : List α) (l2 : List β) (d1 : α) (d2 : β) (h : l1.length = l2.length) :
    l1.zip l2 = (List.range l1.length).map fun k => (l1.getD k d1, l2.getD k d2) := by
  induction l1 generalizing l2 with
  | nil => simp
  | cons a l1 ih =>
    cases l2 with
    | nil => simp at h
    | cons b l2 =>
      have h' : l1.length = l2.length := by simpa using h
      rw [List.zip_cons_cons, ih l2 h', List.length_cons, List.range_succ_eq_map, List.map_cons, List.map_map]
      simp [Function.comp_def]

/-- the contributions that reach position `j` of owner `p` from one sender are the entries of its buffer at the halo
    positions that name column `j + fc[p]` -/
theorem contrib_eq [Zero K] {fc : List Nat} {np : Nat} (h : FcOk fc np) (offR : List Nat) (sentR : List K)
    (hlen : offR.length = sentR.length) (hb : ∀ c ∈ offR, c < fc.getD np 0) (p : Nat) (hp : p < np) (j : Nat)
    (hj : j + fc.getD p 0 < fc.getD (p+1) 0) :
    ((((offR.zip sentR).filter fun cy => owner fc cy.1 == p).map fun cy => (cy.1 - fc.getD p 0, cy.2)).filter
        (fun c => c.1 == j)).map (·.2)
      = ((List.range offR.length).filter fun k => offR.getD k 0 == j + fc.getD p 0).map fun k => sentR.getD k 0 := by
  rw [zip_eq_range offR sentR 0 0 hlen]
  simp only [List.filter_map, List.map_map, List.filter_filter]
  have hfilt : (List.range offR.length).filter (fun a =>
          ((fun c : Nat × K => c.1 == j) ∘ (fun cy : Nat × K => (cy.1 - fc.getD p 0, cy.2)) ∘ fun k => (offR.getD k 0, sentR.getD k 0)) a &&
            ((fun cy : Nat × K => owner fc cy.1 == p) ∘ fun k => (offR.getD k 0, sentR.getD k 0)) a)
      = (List.range offR.length).filter (fun k => offR.getD k 0 == j + fc.getD p 0) := by
    apply List.filter_congr
    intro k hk
    have hk' := List.mem_range.mp hk
    have hc := hb _ (getD_mem hk')
    simp only [Function.comp]
    by_cases he : offR.getD k 0 = j + fc.getD p 0
    · have ho : p = owner fc (offR.getD k 0) := C03.owner_unique h hp (by omega) (by omega)
      have h1 : (offR.getD k 0 - fc.getD p 0 == j) = true := beq_iff_eq.mpr (by omega)
      have h2 : (owner fc (offR.getD k 0) == p) = true := beq_iff_eq.mpr ho.symm
      have h3 : (offR.getD k 0 == j + fc.getD p 0) = true := beq_iff_eq.mpr he
      rw [h1, h2, h3]; rfl
    · have h3 : (offR.getD k 0 == j + fc.getD p 0) = false := beq_eq_false_iff_ne.mpr he
      rw [h3]
      by_cases ho : owner fc (offR.getD k 0) = p
      · obtain ⟨_, hlo, _⟩ := C03.owner_spec h hc
        rw [ho] at hlo
        have h1 : (offR.getD k 0 - fc.getD p 0 == j) = false := beq_eq_false_iff_ne.mpr (by omega)
        rw [h1]; rfl
      · have h2 : (owner fc (offR.getD k 0) == p) = false := beq_eq_false_iff_ne.mpr ho
        rw [h2, Bool.and_false]
  rw [hfilt]
  rfl

section EndToEndT
variable [CommSemiring K]

theorem sum_flatMap_map {α : Type} (l : List α) (f : α → List K) :
    (l.flatMap f).sum = (l.map fun a => (f a).sum).sum := by
  induction l with
  | nil => rfl
  | cons a l ih => rw [List.flatMap_cons, List.sum_append, ih, List.map_cons, List.sum_cons]

theorem multTOff_length (B : Blk K) (xloc : List K) : (multTOff B xloc).length = B.offColMap.length := by
  simp [multTOff, appendTE_length, zeros_length]

theorem multTOn_length (B : Blk K) (xloc : List K) : (multTOn B xloc).length = B.onColMap.length := by
  simp [multTOn, appendTE_length, zeros_length]

/-- **`mult_T` end to end**: local transposed products, the reverse exchange of C03's message-level
    model (`exchangeT` with `+`, the senders' buffers arriving in **any** order `order`), assembly.
    Position `j` of rank `p` ends up with column `j + fc[p]` of the transposed global product. -/
theorem parMultT_end_to_end {fc : List Nat} {np : Nat} (h : FcOk fc np) (lay : Nat → Rank)
    (hlc : ∀ r, r < np → (lay r).2.1 = fc.getD (r+1) 0 - fc.getD r 0 ∧ (lay r).2.2.2 = fc.getD r 0)
    (es : List (Entry K)) (hes : ∀ e ∈ es, e.2.1 < fc.getD np 0)
    (hown : ∀ e ∈ es, (((List.range np).map lay).filter fun l => l.ownsRow e.1).length = 1)
    (hcols : (((List.range np).map lay).flatMap fun l => (List.range l.2.1).map (· + l.2.2.2)).Nodup)
    (X : List K) (order : List Nat) (hord : order.Perm (List.range np)) (p : Nat) (hp : p < np)
    (j : Nat) (hj : j < (lay p).2.1) :
    (exchangeT (fun b a => b + a) fc (((List.range np).map lay).map fun l' => haloCols l' es)
        ((distribute ((List.range np).map lay) es).map fun B' => multTOff B' (gatherMap B'.rowMap X))
        (multTOn (distributeRank (lay p) es) (gatherMap (distributeRank (lay p) es).rowMap X)) p order).getD j 0
      = actTE es X (j + fc.getD p 0) := by
  have hmem : lay p ∈ (List.range np).map lay := List.mem_map.mpr ⟨p, List.mem_range.mpr hp, rfl⟩
  have key := parMultT_distribute ((List.range np).map lay) es X hcols hown (lay p) hmem j hj
  rw [(hlc p hp).2] at key
  rw [← key]
  -- the owner's result in the block-level model
  have hlenOn : (distributeRank (lay p) es).onColMap.length = (lay p).2.1 := by simp [distributeRank]
  have hjOn : j < (distributeRank (lay p) es).onColMap.length := by rw [hlenOn]; exact hj
  have hget : (multTBlk (distribute ((List.range np).map lay) es) (fun B' => gatherMap B'.rowMap X) (distributeRank (lay p) es)).getD j 0
      = (multTOn (distributeRank (lay p) es) (gatherMap (distributeRank (lay p) es).rowMap X)).getD j 0
        + (arrivals (distribute ((List.range np).map lay) es) (fun B' => multTOff B' (gatherMap B'.rowMap X))
            ((distributeRank (lay p) es).onColMap.getD j 0)).sum := by
    simp [multTBlk, List.getD_eq_getElem?_getD, List.getElem?_map, List.getElem?_range hjOn]
  have hcolj : (distributeRank (lay p) es).onColMap.getD j 0 = j + fc.getD p 0 := by
    simp only [distributeRank]; rw [shift_getD _ _ _ hj, (hlc p hp).2]
  rw [hget, hcolj]
  -- the exchange
  have hjInit : j < (multTOn (distributeRank (lay p) es) (gatherMap (distributeRank (lay p) es).rowMap X)).length := by
    rw [multTOn_length]; exact hjOn
  rw [List.getD_eq_getElem?_getD, C03.exchangeT_get _ _ _ _ _ _ _ j hjInit, Option.getD_some,
    foldl_add_eq (fun c : Nat × K => c.2)]
  congr 1
  · rw [List.getD_eq_getElem?_getD, List.getElem?_eq_getElem hjInit, Option.getD_some]
  · -- both sides as sums over the ranks
    unfold revContribs arrivals
    rw [List.filter_flatMap, List.map_flatMap, sum_flatMap_map, sum_flatMap_map, (hord.map _).sum_eq]
    have hbs : distribute ((List.range np).map lay) es = (List.range np).map fun r => distributeRank (lay r) es := by
      simp [distribute, List.map_map, Function.comp_def]
    rw [hbs]
    conv_rhs => rw [List.map_map]
    congr 1
    apply List.map_congr_left
    intro r hr
    have hr' := List.mem_range.mp hr
    have hoff : (((List.range np).map lay).map fun l' => haloCols l' es).getD r [] = haloCols (lay r) es := by
      simp [List.getD_eq_getElem?_getD, List.getElem?_map, List.getElem?_range hr']
    have hsent : (((List.range np).map fun r => distributeRank (lay r) es).map fun B' => multTOff B' (gatherMap B'.rowMap X)).getD r []
        = multTOff (distributeRank (lay r) es) (gatherMap (distributeRank (lay r) es).rowMap X) := by
      simp [List.getD_eq_getElem?_getD, List.getElem?_map, List.getElem?_range hr']
    simp only [Function.comp]
    rw [hoff, hsent]
    have hoc : (distributeRank (lay r) es).offColMap = haloCols (lay r) es := rfl
    rw [contrib_eq h (haloCols (lay r) es) _ (by rw [multTOff_length, hoc]) (fun c hc => by
        obtain ⟨e, he, rfl⟩ := haloCols_mem (lay r) es c hc; exact hes e he) p hp j (by have := (hlc p hp).1; omega), hoc]

end EndToEndT


/-- non-vacuity: two ranks with column blocks `[0,2)`, `[2,3)` -/
example : FcOk [0, 2, 3] 2 := ⟨rfl, rfl, by decide⟩
example : ∀ e ∈ exEs, e.2.1 < ([0, 2, 3] : List Nat).getD 2 0 := by decide

/-- the hypotheses of `parMultT_end_to_end` on the two-rank example (every arrival order of two senders) -/
example : (∀ r, r < 2 → ((fun r => exLayout.getD r (0,0,0,0)) r).2.1 = ([0, 2, 3] : List Nat).getD (r+1) 0 - ([0, 2, 3] : List Nat).getD r 0 ∧
      ((fun r => exLayout.getD r (0,0,0,0)) r).2.2.2 = ([0, 2, 3] : List Nat).getD r 0) ∧
    [1, 0].Perm (List.range 2) := by decide

end Raptor.C02Par
