import RaptorModel.Lemmas.TapLemmas
import RaptorModel.Props.C03
/-!
# C04 — the node-aware exchange is pure data movement and agrees with the standard exchange

Theorems about the very functions of `RaptorModel/Model/Tap.lean` (`subMsg`, `subExchange`,
`subExchangeAll`, `scatter`, `tapForward`, `subConsistent`, `ids`, `certificate`), for every
package `T` (any number of ranks, any sub-packages — even inconsistent ones), every payload type.

* every stage (`subMsg`, `subExchange`, `subExchangeAll`, `scatter`) and the whole three-step /
  two-step pipeline `tapForward` is natural in the payload: it commutes with `map f` for every `f`
  (sections 1-3, no hypotheses at all);
* hence a package that routes the identity payload to `off r` routes every payload that is given
  by values attached to global indices to the values of `off r` (section 4);
* hence `certificate fc off T = true` (a decidable check run on the packages dumped from the real
  code) implies that `T` delivers every payload (section 5) and agrees, rank by rank and slot by
  slot, with the standard exchange of C03 and with its specification `haloSpec` (section 6);
* block payloads and sparse rows are instances (section 7);
* consistency of a sub-package fixes the size of every receive buffer; `tapForward` always has
  size `recv_size`; the certificate forces `recv_size r = |off r|` (section 8);
* section 9: the default value. `tapForward d` reads `d` when a send index is out of range; the
  certificate is evaluated with `d = 0`, which is also the global index 0, so the theorems above are
  stated with the default `v 0`. A check with the identity payload shifted by one (`routesShifted`)
  excludes any use of the default, and then the result holds for every default `d`.

Helper lemmas are in `RaptorModel/Lemmas/TapLemmas.lean`.
-/
namespace Raptor.C04
open Raptor.Comm Raptor.Tap

variable {α β : Type}

/-! ## 1. the sub-package exchange is natural in the payload -/

section SubNatural

theorem subMsg_natural (f : α → β) (d : α) (pk : List SubPkg) (vals : List (List α)) (p r : Nat) :
    subMsg (f d) pk (vals.map (List.map f)) p r = (subMsg d pk vals p r).map f :=
  subMsg_natural_aux f d pk vals p r

theorem subExchange_natural (f : α → β) (d : α) (pk : List SubPkg) (vals : List (List α)) (r : Nat) :
    subExchange (f d) pk (vals.map (List.map f)) r = (subExchange d pk vals r).map f :=
  subExchange_natural_aux f d pk vals r

theorem subExchangeAll_natural (f : α → β) (d : α) (np : Nat) (pk : List SubPkg) (vals : List (List α)) :
    subExchangeAll (f d) np pk (vals.map (List.map f)) = (subExchangeAll d np pk vals).map (List.map f) :=
  subExchangeAll_natural_aux f d np pk vals

end SubNatural

/-! ## 2. `scatter` is natural -/

section Scatter

theorem scatter_natural (f : α → β) (buf : List (Option α)) (idx : List Nat) (vals : List α) :
    scatter (buf.map (Option.map f)) idx (vals.map f) = (scatter buf idx vals).map (Option.map f) :=
  scatter_natural_aux f idx buf vals

theorem scatter_preserves_length (buf : List (Option α)) (idx : List Nat) (vals : List α) :
    (scatter buf idx vals).length = buf.length :=
  scatter_length idx buf vals

/-- a position that is not a target keeps its content -/
theorem scatter_untouched (buf : List (Option α)) (idx : List Nat) (vals : List α) (j : Nat)
    (hj : j ∉ idx) : (scatter buf idx vals)[j]? = buf[j]? :=
  scatter_getElem?_of_not_mem idx j hj buf vals

end Scatter

/-! ## 3. the whole node-aware exchange is natural — no hypotheses -/

section Forward

/-- **`L ∥ (S → G → R)` followed by the two scatters commutes with every map of the payload** -/
theorem tapForward_natural (f : α → β) (d : α) (T : TapPkg) (x : List (List α)) (r : Nat) :
    tapForward (f d) T (x.map (List.map f)) r = (tapForward d T x r).map (Option.map f) :=
  tapForward_natural_aux f d T x r

theorem tapForward_length (d : α) (T : TapPkg) (x : List (List α)) (r : Nat) :
    (tapForward d T x r).length = T.recvSize.getD r 0 :=
  tapForward_length_aux d T x r

end Forward

/-! ## 4. a package that routes the identity payload routes every payload -/

section Routes

/-- general form: whatever the tagged payload `idx` and the expected tags `want` are -/
theorem tap_routes_of_tags_routed (v : Nat → α) (d0 : Nat) (T : TapPkg) (idx : List (List Nat))
    (want : List Nat) (r : Nat) (hid : tapForward d0 T idx r = want.map some) :
    tapForward (v d0) T (idx.map (List.map v)) r = want.map (fun c => some (v c)) := by
  rw [tapForward_natural, hid, List.map_map]
  rfl

/-- **if the indices arrive as `off r`, then values `v` attached to the indices arrive as
    `(off r).map v`** (hypothesis = the certificate's routing clause for rank `r`) -/
theorem tap_routes_every_payload (v : Nat → α) (fc : List Nat) (off : List (List Nat)) (T : TapPkg)
    (r : Nat) (hid : tapForward 0 T (ids fc T.np) r = (off.getD r []).map some) :
    tapForward (v 0) T ((ids fc T.np).map (List.map v)) r = (off.getD r []).map (fun c => some (v c)) :=
  tap_routes_of_tags_routed v 0 T (ids fc T.np) (off.getD r []) r hid

end Routes

/-! ## 5. soundness of the certificate -/

section Certificate

/-- the five clauses of the certificate -/
theorem certificate_iff (fc : List Nat) (off : List (List Nat)) (T : TapPkg) :
    certificate fc off T = true ↔
      subConsistent T.np T.L = true ∧ (T.hasS = true → subConsistent T.np T.S = true) ∧
      subConsistent T.np T.G = true ∧ subConsistent T.np T.R = true ∧
      ∀ r, r < T.np → tapForward 0 T (ids fc T.np) r = (off.getD r []).map some := by
  unfold certificate
  simp only [Bool.and_eq_true, Bool.or_eq_true, Bool.not_eq_true', List.all_eq_true, List.mem_range,
    beq_iff_eq]
  constructor
  · rintro ⟨⟨⟨⟨h1, h2⟩, h3⟩, h4⟩, h5⟩
    refine ⟨h1, ?_, h3, h4, h5⟩
    intro hS
    rcases h2 with h2 | h2
    · rw [hS] at h2; cases h2
    · exact h2
  · rintro ⟨h1, h2, h3, h4, h5⟩
    refine ⟨⟨⟨⟨h1, ?_⟩, h3⟩, h4⟩, h5⟩
    cases hS : T.hasS with
    | false => exact Or.inl rfl
    | true => exact Or.inr (h2 hS)

theorem certificate_routes {fc : List Nat} {off : List (List Nat)} {T : TapPkg}
    (hc : certificate fc off T = true) {r : Nat} (hr : r < T.np) :
    tapForward 0 T (ids fc T.np) r = (off.getD r []).map some :=
  ((certificate_iff fc off T).1 hc).2.2.2.2 r hr

/-- **a certified package delivers every payload**: slot `j` of rank `r` holds the value of the
    global index `off r j` -/
theorem certificate_sound {fc : List Nat} {off : List (List Nat)} {T : TapPkg}
    (hc : certificate fc off T = true) (r : Nat) (hr : r < T.np) (v : Nat → α) :
    tapForward (v 0) T ((ids fc T.np).map (List.map v)) r = (off.getD r []).map (fun c => some (v c)) :=
  tap_routes_every_payload v fc off T r (certificate_routes hc hr)

/-- every slot of the final buffer is written -/
theorem certificate_all_written {fc : List Nat} {off : List (List Nat)} {T : TapPkg}
    (hc : certificate fc off T = true) (r : Nat) (hr : r < T.np) (v : Nat → α) :
    ∀ o ∈ tapForward (v 0) T ((ids fc T.np).map (List.map v)) r, o ≠ none := by
  rw [certificate_sound hc r hr v]
  intro o ho
  rw [List.mem_map] at ho
  obtain ⟨c, _, rfl⟩ := ho
  exact Option.some_ne_none _

/-- the announced size of the final buffer is the number of off-process columns -/
theorem certificate_recvSize {fc : List Nat} {off : List (List Nat)} {T : TapPkg}
    (hc : certificate fc off T = true) (r : Nat) (hr : r < T.np) :
    T.recvSize.getD r 0 = (off.getD r []).length := by
  rw [← tapForward_length 0 T (ids fc T.np) r, certificate_routes hc hr, List.length_map]

end Certificate

/-! ## 6. agreement with the standard exchange of C03 -/

section Standard
variable {fc : List Nat} {np : Nat}

/-- the identity payloads of C03 and C04 are the same -/
theorem ids_eq_globalIdx (fc : List Nat) (np : Nat) : ids fc np = globalIdx fc np :=
  Raptor.Tap.ids_eq_globalIdx fc np

/-- the standard exchange routes a payload of values attached to global indices -/
theorem standard_routes (h : FcOk fc np) (off : List (List Nat)) (v : Nat → α) (r : Nat)
    (hs : (off.getD r []).Pairwise (· ≤ ·)) (hb : ∀ c ∈ off.getD r [], c < fc.getD np 0) :
    exchange (v 0) fc off ((ids fc np).map (List.map v)) r = (off.getD r []).map v := by
  apply Raptor.C03.exchange_of_identity_routed v 0 fc off (ids fc np) r
  rw [ids_eq_globalIdx]
  exact Raptor.C03.exchange_identity h 0 off r hs hb

/-- **a certified node-aware package and the standard package deliver the same buffer**, for every
    payload given by values of global indices -/
theorem tap_eq_standard (h : FcOk fc np) (off : List (List Nat)) (T : TapPkg) (hT : T.np = np)
    (hc : certificate fc off T = true) (v : Nat → α) (r : Nat) (hr : r < np)
    (hs : (off.getD r []).Pairwise (· ≤ ·)) (hb : ∀ c ∈ off.getD r [], c < fc.getD np 0) :
    tapForward (v 0) T ((ids fc np).map (List.map v)) r
      = (exchange (v 0) fc off ((ids fc np).map (List.map v)) r).map some := by
  subst hT
  rw [certificate_sound hc r hr v, standard_routes h off v r hs hb, List.map_map]
  rfl

/-- the value a distributed payload `x` attaches to the global index `c` -/
abbrev valOf (d : α) (fc : List Nat) (x : List (List α)) (c : Nat) : α := Raptor.Tap.valOf d fc x c

/-- every payload of the right shape is given by values of global indices -/
theorem payload_is_indexed (h : FcOk fc np) (d : α) (x : List (List α)) (hx : x.length = np)
    (hxl : ∀ p, p < np → (x.getD p []).length = fc.getD (p+1) 0 - fc.getD p 0) :
    x = (ids fc np).map (List.map (valOf d fc x)) :=
  (payload_eq_ids_map h d x hx hxl).symm

/-- a certified package satisfies the specification of the halo exchange for an arbitrary payload
    of the right shape (the default is `x`'s value at global index 0, see section 9) -/
theorem tap_delivers_spec (h : FcOk fc np) (off : List (List Nat)) (T : TapPkg) (hT : T.np = np)
    (hc : certificate fc off T = true) (d : α) (x : List (List α)) (hx : x.length = np)
    (hxl : ∀ p, p < np → (x.getD p []).length = fc.getD (p+1) 0 - fc.getD p 0)
    (r : Nat) (hr : r < np) :
    tapForward (valOf d fc x 0) T x r = (haloSpec d fc off x r).map some := by
  subst hT
  have := certificate_sound hc r hr (valOf d fc x)
  rw [payload_eq_ids_map h d x hx hxl] at this
  rw [this, haloSpec_eq_map_valOf, List.map_map]
  rfl

/-- **the same for an arbitrary payload `x` of the right shape**: certified node-aware exchange =
    standard exchange -/
theorem tap_eq_standard_general (h : FcOk fc np) (off : List (List Nat)) (T : TapPkg) (hT : T.np = np)
    (hc : certificate fc off T = true) (d : α) (x : List (List α)) (hx : x.length = np)
    (hxl : ∀ p, p < np → (x.getD p []).length = fc.getD (p+1) 0 - fc.getD p 0)
    (r : Nat) (hr : r < np)
    (hs : (off.getD r []).Pairwise (· ≤ ·)) (hb : ∀ c ∈ off.getD r [], c < fc.getD np 0) :
    tapForward (valOf d fc x 0) T x r = (exchange d fc off x r).map some := by
  rw [tap_delivers_spec h off T hT hc d x hx hxl r hr, Raptor.C03.exchange_delivers h d off x r hs hb]

/-- when global index 0 exists its value is `x[0][0]`, whatever `d` -/
theorem valOf_zero (h : FcOk fc np) (d : α) (x : List (List α)) (hnp : 0 < np) (h1 : 0 < fc.getD 1 0) :
    valOf d fc x 0 = (x.getD 0 []).getD 0 d := by
  have ho : 0 = owner fc 0 := Raptor.C03.owner_unique h hnp (Nat.le_of_eq h.zero) h1
  unfold valOf Raptor.Tap.valOf
  rw [← ho, Nat.zero_sub]

end Standard

/-! ## 7. blocks and sparse rows are instances -/

section Rows

/-- sparse rows (lists of `(column, value)`), as communicated by `communicate(ParCSRMatrix)` -/
theorem tap_routes_rows {K : Type} (rows : Nat → List (Nat × K)) {fc : List Nat}
    {off : List (List Nat)} {T : TapPkg} (hc : certificate fc off T = true) (r : Nat) (hr : r < T.np) :
    tapForward (rows 0) T ((ids fc T.np).map (List.map rows)) r
      = (off.getD r []).map (fun c => some (rows c)) :=
  certificate_sound hc r hr rows

/-- block vectors (`b` values per index) -/
theorem tap_routes_blocks {K : Type} (blk : Nat → List K) {fc : List Nat}
    {off : List (List Nat)} {T : TapPkg} (hc : certificate fc off T = true) (r : Nat) (hr : r < T.np) :
    tapForward (blk 0) T ((ids fc T.np).map (List.map blk)) r
      = (off.getD r []).map (fun c => some (blk c)) :=
  certificate_sound hc r hr blk

/-- post-processing the received rows (e.g. renumbering their columns) can be done before sending -/
theorem tap_rows_postprocess {K : Type} (g : List (Nat × K) → List (Nat × K)) (d : List (Nat × K))
    (T : TapPkg) (x : List (List (List (Nat × K)))) (r : Nat) :
    (tapForward d T x r).map (Option.map g) = tapForward (g d) T (x.map (List.map g)) r :=
  (tapForward_natural g d T x r).symm

end Rows

/-! ## 8. consistency fixes the buffer sizes -/

section Consistent

theorem subConsistent_recv_matched {np : Nat} {pk : List SubPkg} (hc : subConsistent np pk = true)
    {r : Nat} (hr : r < np) :
    ∀ m ∈ (pk.getD r default).recv,
      ∃ s, (pk.getD m.1 default).send.find? (fun s => s.1 == r) = some s ∧ s.2.length = m.2 :=
  subConsistent_recv hc hr

theorem subMsg_length {np : Nat} {pk : List SubPkg} (hc : subConsistent np pk = true)
    (d : α) (vals : List (List α)) {r : Nat} (hr : r < np) :
    ∀ m ∈ (pk.getD r default).recv, (subMsg d pk vals m.1 r).length = m.2 := by
  intro m hm
  obtain ⟨s, hf, hl⟩ := subConsistent_recv hc hr m hm
  rw [subMsg_length_of_find hf, hl]

/-- the receive buffer of a consistent sub-package has the announced size, whatever is sent -/
theorem subExchange_length {np : Nat} {pk : List SubPkg} (hc : subConsistent np pk = true)
    (d : α) (vals : List (List α)) {r : Nat} (hr : r < np) :
    (subExchange d pk vals r).length = ((pk.getD r default).recv.map (·.2)).sum :=
  subExchange_length_aux d vals hc hr

theorem subExchangeAll_length (d : α) (np : Nat) (pk : List SubPkg) (vals : List (List α)) :
    (subExchangeAll d np pk vals).length = np := by
  unfold subExchangeAll
  rw [List.length_map, List.length_range]

end Consistent

/-! ## 9. the default value -/

section Default


/-- extend `v` by a value for tag 0 -/
def shiftVal (d : α) (v : Nat → α) : Nat → α
  | 0 => d
  | c + 1 => v c

/-- if the shifted identity payload is routed, every payload is routed **for every default** -/
theorem tap_routes_any_default (fc : List Nat) (off : List (List Nat)) (T : TapPkg) (r : Nat)
    (hid : tapForward 0 T ((ids fc T.np).map (List.map (· + 1))) r
      = (off.getD r []).map (fun c => some (c + 1)))
    (d : α) (v : Nat → α) :
    tapForward d T ((ids fc T.np).map (List.map v)) r = (off.getD r []).map (fun c => some (v c)) := by
  have hn := tapForward_natural (shiftVal d v) 0 T ((ids fc T.np).map (List.map (· + 1))) r
  rw [hid, List.map_map, List.map_map] at hn
  have e : (List.map (shiftVal d v) ∘ List.map (· + 1)) = List.map v := by
    funext l
    simp only [Function.comp_apply, List.map_map]
    rfl
  rw [e] at hn
  exact hn

theorem routesShifted_sound {fc : List Nat} {off : List (List Nat)} {T : TapPkg}
    (hc : routesShifted fc off T = true) (r : Nat) (hr : r < T.np) (d : α) (v : Nat → α) :
    tapForward d T ((ids fc T.np).map (List.map v)) r = (off.getD r []).map (fun c => some (v c)) := by
  unfold routesShifted at hc
  rw [List.all_eq_true] at hc
  have := hc r (List.mem_range.2 hr)
  rw [beq_iff_eq] at this
  exact tap_routes_any_default fc off T r this d v

/-- the shifted check implies the routing clause of the certificate -/
theorem routesShifted_routes {fc : List Nat} {off : List (List Nat)} {T : TapPkg}
    (hc : routesShifted fc off T = true) (r : Nat) (hr : r < T.np) :
    tapForward 0 T (ids fc T.np) r = (off.getD r []).map some := by
  have := routesShifted_sound hc r hr 0 id
  simp only [List.map_id_fun, id_eq] at this
  exact this

/-- with the shifted check, the result does not depend on the default -/
theorem tap_default_irrelevant {fc : List Nat} {off : List (List Nat)} {T : TapPkg}
    (hc : routesShifted fc off T = true) (r : Nat) (hr : r < T.np) (d d' : α) (v : Nat → α) :
    tapForward d T ((ids fc T.np).map (List.map v)) r
      = tapForward d' T ((ids fc T.np).map (List.map v)) r := by
  rw [routesShifted_sound hc r hr d v, routesShifted_sound hc r hr d' v]

/-- with the shifted check a package satisfies the specification for an arbitrary payload of the
    right shape and an arbitrary default on either side -/
theorem tap_delivers_spec_any_default {fc : List Nat} {np : Nat} (h : FcOk fc np)
    (off : List (List Nat)) (T : TapPkg) (hT : T.np = np) (hc : routesShifted fc off T = true)
    (d d' : α) (x : List (List α)) (hx : x.length = np)
    (hxl : ∀ p, p < np → (x.getD p []).length = fc.getD (p+1) 0 - fc.getD p 0)
    (r : Nat) (hr : r < np) :
    tapForward d' T x r = (haloSpec d fc off x r).map some := by
  subst hT
  have := routesShifted_sound hc r hr d' (valOf d fc x)
  rw [payload_eq_ids_map h d x hx hxl] at this
  rw [this, haloSpec_eq_map_valOf, List.map_map]
  rfl

/-- … and agrees with the standard exchange -/
theorem tap_eq_standard_any_default {fc : List Nat} {np : Nat} (h : FcOk fc np)
    (off : List (List Nat)) (T : TapPkg) (hT : T.np = np) (hc : routesShifted fc off T = true)
    (d d' : α) (x : List (List α)) (hx : x.length = np)
    (hxl : ∀ p, p < np → (x.getD p []).length = fc.getD (p+1) 0 - fc.getD p 0)
    (r : Nat) (hr : r < np)
    (hs : (off.getD r []).Pairwise (· ≤ ·)) (hb : ∀ c ∈ off.getD r [], c < fc.getD np 0) :
    tapForward d' T x r = (exchange d fc off x r).map some := by
  rw [tap_delivers_spec_any_default h off T hT hc d d' x hx hxl r hr,
    Raptor.C03.exchange_delivers h d off x r hs hb]

end Default

/-! ## concrete instance: 4 ranks on 2 nodes (ranks 0,1 on node 0; ranks 2,3 on node 1) -/

section Examples

/-- every rank owns two indices -/
def exFc : List Nat := [0,2,4,6,8]
/-- rank 0 needs 2 (on-node) and 5 (off-node); rank 1 needs 1 (on-node) and 4 (off-node);
    rank 2 needs 0,1 (off-node); rank 3 needs 1 (off-node) and 4 (on-node) -/
def exOff : List (List Nat) := [[2,5],[1,4],[0,1],[1,4]]

/-- `L`: 1→0 `[2]`, 0→1 `[1]`, 2→3 `[4]`, with the positions in the final buffers -/
def exL : List SubPkg :=
  [ { send := [(1,[1])], recv := [(1,1)], recvIdx := [0] },
    { send := [(0,[0])], recv := [(0,1)], recvIdx := [0] },
    { send := [(3,[0])], recv := [],      recvIdx := [] },
    { send := [],        recv := [(2,1)], recvIdx := [1] } ]
/-- `S`: the owners 0 and 2 hand what the other node needs (`{0,1}` resp. `{4,5}`, each index once)
    to the ranks 1 and 3 that talk to the other node -/
def exS : List SubPkg :=
  [ { send := [(1,[0,1])] }, { recv := [(0,2)] }, { send := [(3,[0,1])] }, { recv := [(2,2)] } ]
/-- `G`: 1→2 and 3→0 across the nodes -/
def exG : List SubPkg :=
  [ { recv := [(3,2)] }, { send := [(2,[0,1])] }, { recv := [(1,2)] }, { send := [(0,[0,1])] } ]
/-- `R`: 0 keeps `5` and gives `4` to 1; 2 keeps `0,1` and gives `1` to 3 -/
def exR : List SubPkg :=
  [ { send := [(0,[1]),(1,[0])],   recv := [(0,1)], recvIdx := [1] },
    { send := [],                  recv := [(0,1)], recvIdx := [1] },
    { send := [(2,[0,1]),(3,[1])], recv := [(2,2)], recvIdx := [0,1] },
    { send := [],                  recv := [(2,1)], recvIdx := [0] } ]
/-- the three-step package -/
def exT : TapPkg :=
  { np := 4, hasS := true, L := exL, S := exS, G := exG, R := exR, recvSize := [2,2,2,2] }

example : FcOk exFc 4 := ⟨rfl, rfl, by decide⟩
example : ids exFc 4 = [[0,1],[2,3],[4,5],[6,7]] := by decide
example : subConsistent 4 exL = true ∧ subConsistent 4 exS = true ∧ subConsistent 4 exG = true ∧
    subConsistent 4 exR = true := by decide

/-- the three stages on the identity payload -/
example : subExchangeAll 0 4 exS (ids exFc 4) = [[],[0,1],[],[4,5]] := by decide
example : subExchangeAll 0 4 exG [[],[0,1],[],[4,5]] = [[4,5],[],[0,1],[]] := by decide
example : (List.range 4).map (subExchange 0 exR [[4,5],[],[0,1],[]]) = [[5],[4],[0,1],[1]] := by decide
example : (List.range 4).map (subExchange 0 exL (ids exFc 4)) = [[2],[1],[],[4]] := by decide
example : (List.range 4).map (tapForward 0 exT (ids exFc 4)) = exOff.map (List.map some) := by decide

/-- **the certificate holds** -/
theorem exT_certified : certificate exFc exOff exT = true := by decide
example : routesShifted exFc exOff exT = true := by decide

/-- hence (by `certificate_sound`, not by evaluation) every payload is delivered -/
example (v : Nat → α) : tapForward (v 0) exT ((ids exFc 4).map (List.map v)) 3 = [some (v 1), some (v 4)] :=
  certificate_sound exT_certified 3 (by decide) v

/-- a concrete payload: node-aware = standard = specification -/
example : (List.range 4).map (tapForward 10 exT [[10,11],[12,13],[14,15],[16,17]])
    = ((List.range 4).map (exchange 10 exFc exOff [[10,11],[12,13],[14,15],[16,17]])).map (List.map some) := by
  decide
example : (List.range 4).map (exchange 10 exFc exOff [[10,11],[12,13],[14,15],[16,17]])
    = [[12,15],[11,14],[10,11],[11,14]] := by decide

/-- a deliberately broken package: rank 0 swaps the two indices of its redistribution messages
    (keeps `4`, gives `5` to rank 1). Still consistent, but the certificate fails -/
def exRbad : List SubPkg :=
  [ { send := [(0,[0]),(1,[1])],   recv := [(0,1)], recvIdx := [1] },
    { send := [],                  recv := [(0,1)], recvIdx := [1] },
    { send := [(2,[0,1]),(3,[1])], recv := [(2,2)], recvIdx := [0,1] },
    { send := [],                  recv := [(2,1)], recvIdx := [0] } ]
def exTbad : TapPkg := { exT with R := exRbad }

example : subConsistent 4 exRbad = true := by decide
example : certificate exFc exOff exTbad = false := by decide
example : (List.range 4).map (tapForward 0 exTbad (ids exFc 4))
    = [[some 2, some 4],[some 1, some 5],[some 0, some 1],[some 1, some 4]] := by decide

/-- a wrong position in the final buffer (rank 3 of `L` writes slot 0 instead of 1): slot 1 is never
    written, the certificate fails -/
def exTbadIdx : TapPkg :=
  { exT with L := exL.set 3 { send := [], recv := [(2,1)], recvIdx := [0] } }
example : certificate exFc exOff exTbadIdx = false := by decide
example : tapForward 0 exTbadIdx (ids exFc 4) 3 = [some 4, none] := by decide

/-- an inconsistent sub-package (rank 1 announces 3 entries from 0, which sends 2) -/
example : subConsistent 4 (exS.set 1 { recv := [(0,3)] }) = false := by decide
/-- a message nobody receives -/
example : subConsistent 4 (exG.set 2 {}) = false := by decide

/-- the two-step variant (`hasS = false`): the owners 0 and 2 send across the nodes themselves -/
def exG2 : List SubPkg :=
  [ { send := [(2,[0,1])], recv := [(2,2)] }, {}, { send := [(0,[0,1])], recv := [(0,2)] }, {} ]
def exT2 : TapPkg :=
  { np := 4, hasS := false, L := exL, S := [], G := exG2, R := exR, recvSize := [2,2,2,2] }
example : certificate exFc exOff exT2 = true := by decide
example : routesShifted exFc exOff exT2 = true := by decide

/-- why section 9: 2 ranks with one index each, rank 1 needs index 0, but rank 0's send message
    reads position 7 of its one-entry vector. On the identity payload with default 0 the
    out-of-range read is indistinguishable from index 0: `certificate` accepts, the shifted check
    does not, and a real payload is not delivered -/
def exTalias : TapPkg :=
  { np := 2, hasS := false,
    L := [ { send := [(1,[7])] }, { recv := [(0,1)], recvIdx := [0] } ],
    S := [], G := [{},{}], R := [{},{}], recvSize := [0,1] }
example : certificate [0,1,2] [[],[0]] exTalias = true := by decide
example : routesShifted [0,1,2] [[],[0]] exTalias = false := by decide
example : tapForward 99 exTalias [[10],[11]] 1 = [some 99] := by decide

end Examples

end Raptor.C04

/- OPEN (not proved): none — targets 1-8 are proved in full generality.

   Remark on target 6 (arbitrary `x`): `tap_eq_standard_general` is stated with the default
   `valOf d fc x 0` (the value `x` holds at global index 0) on the node-aware side, because
   `certificate` is evaluated with default 0 = global index 0 and cannot distinguish an out-of-range
   send index from a request for index 0 (`exTalias`). The statement with an arbitrary default on the
   node-aware side is false for `certificate` and true for `routesShifted` (`routesShifted_sound`). -/
