import RaptorModel.Model.Tap
namespace Raptor.C04
open Raptor.Tap

theorem scatter_nil {α : Type} (buf : List (Option α)) (vals : List α) : scatter buf [] vals = buf := by
  simp [scatter]

end Raptor.C04
