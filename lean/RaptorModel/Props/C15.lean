import RaptorModel.Model.Mis
namespace Raptor.C15
theorem placeholder : (1 : Nat) = 1 := rfl
end Raptor.C15
