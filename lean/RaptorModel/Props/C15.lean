import RaptorModel.Lemmas.MisLemmas
import Mathlib.Data.Nat.Basic

/-!
# Property C15 — distance-two maximal independent set and aggregation

Model: `RaptorModel/Model/Mis.lean` (`mis2Round`, `mis2`, `pass1`, `pass2`, `aggregate`).
Helper lemmas and the hypotheses on the graph live in `RaptorModel/Lemmas/MisLemmas.lean`:

* `SelfLoops S` : `∀ v < n, v ∈ S[v]`;
* `Symm S`      : `w ∈ S[v] → v ∈ S[w]`;
* `Closed S`    : every listed neighbour is `< n = S.length`;
* `DistinctKeys S r` : vertices `< n` with equal keys are equal;
* `N2 S v x`    : `∃ w ∈ S[v], x ∈ S[w]` (two stored edges `v → w → x`);
* `Valid L`     : every label is `1`, `0` or `-1`.

Results
1. shape and monotonicity of one round (`mis2Round_length`, `mis2Round_keeps`, `mis2Round_valid`);
2. progress (`min_key_tentative`, `max_key_confirmed`, `mis2Round_progress`) and totality
   `mis2_total`: after `n` rounds every vertex is decided — no hypothesis on the graph or the keys;
3. `mis2_independent`: no two roots within two edges (symmetric graph, self loops, distinct keys);
4. `mis2_maximal`: every vertex is a root or within two edges of a root (self loops);
5. aggregation: `pass1_root`, `pass1_nonroot`, `aggregate_sound`, `aggregate_total`,
   `aggregate_pass2_adjacent`;
6. partition independence is by construction: `mis2 S r` and `aggregate S absA r labels` are
   functions of the global graph `S`, the keys `r` (and the weights `absA`) only — the model has no
   process-count or partition argument, so any distributed run that implements these rounds
   faithfully returns the same labels and aggregates on every partition.
-/

namespace Raptor.C15
open Raptor.Mis

variable {W : Type} [LinearOrder W] [Zero W]

/-! ## 1. Shape and monotonicity -/

/-- a round returns one label per vertex -/
theorem mis2Round_length (S : Graph) (r : List W) (L : List Int) :
    (mis2Round S r L).length = S.length :=
  Raptor.Mis.mis2Round_length S r L

/-- a decided vertex keeps its label -/
theorem mis2Round_keeps {S : Graph} {r : List W} {L : List Int} (hlen : L.length = S.length)
    {v : Nat} (h : decided L v = true) : lab (mis2Round S r L) v = lab L v :=
  lab_round_keeps hlen h

/-- a decided vertex stays decided -/
theorem mis2Round_decided {S : Graph} {r : List W} {L : List Int} (hlen : L.length = S.length)
    {v : Nat} (h : decided L v = true) : decided (mis2Round S r L) v = true :=
  decided_round_keeps hlen h

/-- labels stay in `{1, 0, -1}` -/
theorem mis2Round_valid {S : Graph} {r : List W} {L : List Int} (h : Valid L) :
    Valid (mis2Round S r L) :=
  valid_round h

/-- a vertex becomes a root only by being confirmed -/
theorem mis2Round_root {S : Graph} {r : List W} {L : List Int} {v : Nat}
    (h : lab (mis2Round S r L) v = 1) : lab L v = 1 ∨ confirmed S r L v = true :=
  root_round h

theorem mis2_length (S : Graph) (r : List W) : (mis2 S r).length = S.length :=
  iterN_inv (mis2Round S r) (fun L => L.length = S.length)
    (fun L _ => Raptor.Mis.mis2Round_length S r L) _ _ (by simp)

theorem mis2_valid (S : Graph) (r : List W) : Valid (mis2 S r) :=
  iterN_inv (mis2Round S r) Valid (fun _ h => valid_round h) _ _ (by
    intro v
    rw [lab_replicate]
    split
    · exact Or.inr (Or.inr rfl)
    · exact Or.inr (Or.inl rfl))

/-! ## 2. Progress and totality -/

/-- an undecided vertex whose key is minimal among the undecided vertices is tentative -/
theorem min_key_is_tentative {S : Graph} {r : List W} {L : List Int} {u : Nat}
    (hu : decided L u = false) (hmin : ∀ w, decided L w = false → key r u ≤ key r w) :
    tentative S r L u = true := by
  refine tentative_iff.mpr ⟨hu, fun w _ hlt => ?_⟩
  cases hd : decided L w
  · exact absurd hlt (not_lt.mpr (hmin w hd))
  · rfl

/-- a tentative vertex whose key is maximal among the tentative vertices is confirmed -/
theorem max_key_is_confirmed {S : Graph} {r : List W} {L : List Int} {t : Nat}
    (ht : tentative S r L t = true) (hmax : ∀ u, tentative S r L u = true → key r u ≤ key r t) :
    confirmed S r L t = true :=
  confirmed_iff.mpr ⟨ht, fun _ _ u _ hu => not_lt.mpr (hmax u hu)⟩

/-- while some vertex is undecided, some (minimum-key) undecided vertex is tentative -/
theorem min_key_tentative {S : Graph} {r : List W} {L : List Int} (hlen : L.length = S.length)
    (h : ∃ v, decided L v = false) : ∃ v, tentative S r L v = true :=
  exists_tentative hlen h

/-- while some vertex is tentative, some (maximum-key) tentative vertex is confirmed -/
theorem max_key_confirmed {S : Graph} {r : List W} {L : List Int} (hlen : L.length = S.length)
    (h : ∃ v, tentative S r L v = true) : ∃ v, confirmed S r L v = true :=
  exists_confirmed hlen h

/-- **progress**: if some vertex is undecided, at least one undecided vertex becomes a root in the
    round (no closedness and no distinctness of the keys needed) -/
theorem mis2Round_progress {S : Graph} {r : List W} {L : List Int} (hlen : L.length = S.length)
    (h : ∃ v, decided L v = false) :
    ∃ v, decided L v = false ∧ lab (mis2Round S r L) v = 1 := by
  obtain ⟨c, hc⟩ := exists_confirmed (S := S) (r := r) hlen (exists_tentative hlen h)
  exact ⟨c, confirmed_undecided hc, lab_round_confirmed hlen hc⟩

/-- the number of undecided vertices strictly decreases while it is positive -/
theorem mis2Round_decreases {S : Graph} {r : List W} {L : List Int} (hlen : L.length = S.length)
    (h : 0 < undecCount L) : undecCount (mis2Round S r L) < undecCount L :=
  undecCount_round_lt hlen h

/-- **totality**: after `n` rounds every vertex is decided -/
theorem mis2_total (S : Graph) (r : List W) (v : Nat) : decided (mis2 S r) v = true := by
  apply undecCount_eq_zero
  have h1 := undecCount_iterN (S := S) (r := r) S.length (List.replicate S.length (-1)) (by simp)
  have h2 := undecCount_replicate S.length
  unfold mis2
  omega

/-- every label of the result is `1` or `0` -/
theorem mis2_labels (S : Graph) (r : List W) (v : Nat) :
    lab (mis2 S r) v = 1 ∨ lab (mis2 S r) v = 0 :=
  decided_iff.mp (mis2_total S r v)

/-! ## 3. Independence -/

/-- one round preserves the independence invariant (roots pairwise more than two edges apart; no
    undecided vertex within two edges of a root) -/
theorem mis2Round_independent {S : Graph} {r : List W} {L : List Int} (hs : Symm S)
    (hk : DistinctKeys S r) (h : InvI S L) : InvI S (mis2Round S r L) :=
  InvI_round hs hk h

/-- two distinct roots of the result are never joined by two stored edges -/
theorem mis2_independent_N2 {S : Graph} {r : List W} (hs : Symm S) (hk : DistinctKeys S r)
    {a b : Nat} (ha : lab (mis2 S r) a = 1) (hb : lab (mis2 S r) b = 1) (hn : N2 S a b) : a = b :=
  (InvI_mis2 hs hk).indep a b ha hb hn

/-- **independence**: no two roots of `mis2` share an edge or a neighbour -/
theorem mis2_independent {S : Graph} {r : List W} (hl : SelfLoops S) (hs : Symm S)
    (hk : DistinctKeys S r) : independent2 S (mis2 S r) = true := by
  rw [independent2_iff]
  intro a b ha hb hm
  have han : a < S.length := mis2_length S r ▸ root_lt ha
  exact mis2_independent_N2 hs hk ha hb (N2_of_mem_within2 hl han hm)

/-! ## 4. Maximality -/

/-- one round preserves the maximality invariant (every excluded vertex has a root within two
    edges) -/
theorem mis2Round_cover {S : Graph} {r : List W} {L : List Int} (hl : SelfLoops S)
    (h : InvM S L) : InvM S (mis2Round S r L) :=
  InvM_round hl h

/-- **maximality**: every vertex is a root or within two edges of a root -/
theorem mis2_maximal {S : Graph} {r : List W} (hl : SelfLoops S) : maximal2 S (mis2 S r) = true := by
  rw [maximal2_iff]
  intro v hv
  rcases mis2_labels S r v with h | h
  · exact Or.inl h
  · obtain ⟨x, hx, hn⟩ := (InvM_mis2 (r := r) hl).cover v hv h
    exact Or.inr ⟨x, mem_within2_of_N2 hn, hx⟩

/-! ## 5. Aggregation -/

/-- (a) every root founds its own aggregate -/
theorem pass1_root {S : Graph} {L : List Int} {v : Nat} (hv : v < S.length) (hr : lab L v = 1) :
    (pass1 S L).getD v none = some v := by
  rw [pass1_getD hv, if_pos hr]

/-- (b) a non-root with a root neighbour joins that root, and the root neighbour is unique -/
theorem pass1_nonroot {S : Graph} {L : List Int} (hs : Symm S) (hI : independent2 S L = true)
    {v w : Nat} (hv : v < S.length) (hnr : lab L v ≠ 1) (hw : w ∈ S.getD v []) (hr : lab L w = 1) :
    (pass1 S L).getD v none = some w ∧ ∀ w' ∈ S.getD v [], lab L w' = 1 → w' = w := by
  have huniq : ∀ w' ∈ S.getD v [], lab L w' = 1 → w' = w := fun w' hw' hr' =>
    independent2_iff.mp hI w' w hr' hr (mem_within2_of_N2 ⟨v, hs v w' hw', hw⟩)
  refine ⟨?_, huniq⟩
  obtain ⟨a, ha⟩ := pass1_isSome hv hw hr
  obtain ⟨har, hav⟩ := pass1_some hv ha
  rcases hav with rfl | hav
  · exact absurd har hnr
  · rw [ha, huniq a hav har]

/-- whatever `aggregate` returns for a vertex is a root within two edges of it -/
theorem aggregate_sound [Add W] {S : Graph} {absA : Nat → Nat → W} {r : List W} {L : List Int}
    (hl : SelfLoops S) (hc : Closed S) {v a : Nat} (hv : v < S.length)
    (h : (aggregate S absA r L).getD v none = some a) : lab L a = 1 ∧ a ∈ within2 S v := by
  unfold aggregate at h
  cases h1 : (pass1 S L).getD v none with
  | some b =>
    rw [pass2_of_some hv h1] at h
    cases h
    obtain ⟨hr, ha⟩ := pass1_some hv h1
    refine ⟨hr, ?_⟩
    rcases ha with rfl | ha
    · exact mem_within2.mpr (Or.inl (hl _ hv))
    · exact mem_within2.mpr (Or.inl ha)
  | none =>
    rw [pass2_of_none hv h1] at h
    cases hf : (S.getD v []).foldl (p2step absA r (pass1 S L) v) none with
    | none => rw [hf] at h; cases h
    | some p =>
      obtain ⟨m, b⟩ := p
      rw [hf] at h
      cases h
      rcases foldl_p2step_origin _ _ hf with h0 | ⟨u, hu, hua⟩
      · cases h0
      · obtain ⟨hr, ha⟩ := pass1_some (hc v u hu) hua
        refine ⟨hr, ?_⟩
        rcases ha with rfl | ha
        · exact mem_within2.mpr (Or.inl hu)
        · exact mem_within2_of_N2 ⟨u, hu, ha⟩

/-- (d) the aggregate chosen in pass 2 is the pass-1 aggregate of an adjacent vertex -/
theorem aggregate_pass2_adjacent [Add W] {S : Graph} {absA : Nat → Nat → W} {r : List W}
    {L : List Int} {v a : Nat} (hv : v < S.length) (h1 : (pass1 S L).getD v none = none)
    (h : (aggregate S absA r L).getD v none = some a) :
    ∃ w ∈ S.getD v [], (pass1 S L).getD w none = some a := by
  unfold aggregate at h
  rw [pass2_of_none hv h1] at h
  cases hf : (S.getD v []).foldl (p2step absA r (pass1 S L) v) none with
  | none => rw [hf] at h; cases h
  | some p =>
    obtain ⟨m, b⟩ := p
    rw [hf] at h
    cases h
    rcases foldl_p2step_origin _ _ hf with h0 | h0
    · cases h0
    · exact h0

/-- (c) **every vertex is aggregated**, to a root within two edges: on a closed graph with self
    loops whose labels are maximal, with positive scores `|a_vw| + r_w` -/
theorem aggregate_total [Add W] {S : Graph} {absA : Nat → Nat → W} {r : List W} {L : List Int}
    (hl : SelfLoops S) (hc : Closed S) (hM : maximal2 S L = true)
    (hpos : ∀ v w, 0 < absA v w + key r w) {v : Nat} (hv : v < S.length) :
    ∃ a, (aggregate S absA r L).getD v none = some a ∧ lab L a = 1 ∧ a ∈ within2 S v := by
  suffices hex : ∃ a, (aggregate S absA r L).getD v none = some a by
    obtain ⟨a, ha⟩ := hex
    exact ⟨a, ha, aggregate_sound hl hc hv ha⟩
  unfold aggregate
  cases h1 : (pass1 S L).getD v none with
  | some a => exact ⟨a, pass2_of_some hv h1⟩
  | none =>
    have hnr : lab L v ≠ 1 := fun hr => by rw [pass1_getD hv, if_pos hr] at h1; cases h1
    rcases maximal2_iff.mp hM v hv with hr | ⟨x, hx, hxr⟩
    · exact absurd hr hnr
    · obtain ⟨w, hw, hxw⟩ := N2_of_mem_within2 hl hv hx
      obtain ⟨b, hb⟩ := pass1_isSome (L := L) (hc v w hw) hxw hxr
      have hsome := foldl_p2step_isSome_of_mem (v := v) hpos hb (S.getD v []) none hw
      obtain ⟨⟨m, a⟩, hma⟩ := Option.isSome_iff_exists.mp hsome
      exact ⟨a, by rw [pass2_of_none hv h1, hma]; rfl⟩

/-- the whole pipeline: on a closed graph with self loops (positive scores), `mis2` followed by
    `aggregate` maps every vertex to a root within two edges -/
theorem mis2_aggregate_total [Add W] {S : Graph} {absA : Nat → Nat → W} {r : List W}
    (hl : SelfLoops S) (hc : Closed S) (hpos : ∀ v w, 0 < absA v w + key r w)
    {v : Nat} (hv : v < S.length) :
    ∃ a, (aggregate S absA r (mis2 S r)).getD v none = some a ∧ lab (mis2 S r) a = 1 ∧
      a ∈ within2 S v :=
  aggregate_total hl hc (mis2_maximal hl) hpos hv

/-! ## Examples: the path `0 – 1 – 2 – 3 – 4` with self loops -/

/-- the path graph with self loops -/
def path5 : Graph := [[0, 1], [0, 1, 2], [1, 2, 3], [2, 3, 4], [3, 4]]

theorem path5_selfLoops : SelfLoops path5 := selfLoops_of_check (by decide)
theorem path5_symm : Symm path5 := symm_of_check (by decide)
theorem path5_closed : Closed path5 := closed_of_check (by decide)

/-- distinct keys on a five-vertex graph, checked on the finitely many pairs -/
theorem path5_distinct (r : List Nat)
    (h : (List.range 5).all (fun v => (List.range 5).all fun w =>
      v == w || key r v != key r w) = true) : DistinctKeys path5 r := by
  intro v w hv hw hk
  rw [List.all_eq_true] at h
  have h1 := h v (List.mem_range.mpr hv)
  rw [List.all_eq_true] at h1
  have h2 := h1 w (List.mem_range.mpr hw)
  rcases Bool.or_eq_true _ _ ▸ h2 with h3 | h3
  · exact beq_iff_eq.mp h3
  · rw [hk] at h3; simp at h3

/-- the general theorems instantiated on the path (no evaluation of `mis2` involved) -/
example : independent2 path5 (mis2 path5 [3, 1, 4, 2, 5]) = true :=
  mis2_independent path5_selfLoops path5_symm (path5_distinct _ (by decide))
example : maximal2 path5 (mis2 path5 [3, 1, 4, 2, 5]) = true := mis2_maximal path5_selfLoops

/-- keys `3 1 4 2 5`: round 1 confirms vertex 3 (vertex 1 is tentative but loses against 3),
    round 2 confirms vertex 0 -/
example : mis2Round path5 [3, 1, 4, 2, 5] (List.replicate 5 (-1)) = [-1, 0, 0, 1, 0] := by decide
example : mis2 path5 [3, 1, 4, 2, 5] = [1, 0, 0, 1, 0] := by decide
example : independent2 path5 (mis2 path5 [3, 1, 4, 2, 5]) = true := by decide
example : maximal2 path5 (mis2 path5 [3, 1, 4, 2, 5]) = true := by decide
example : aggregate path5 (fun _ _ => 1) [3, 1, 4, 2, 5] (mis2 path5 [3, 1, 4, 2, 5]) =
    [some 0, some 0, some 3, some 3, some 3] := by decide

/-- keys `1 5 4 3 2`: both ends are confirmed in round 1; vertex 2 is two edges away from both
    roots and joins in pass 2 the aggregate of its neighbour with the larger score (vertex 1) -/
example : mis2 path5 [1, 5, 4, 3, 2] = [1, 0, 0, 0, 1] := by decide
example : independent2 path5 (mis2 path5 [1, 5, 4, 3, 2]) = true := by decide
example : maximal2 path5 (mis2 path5 [1, 5, 4, 3, 2]) = true := by decide
example : pass1 path5 [1, 0, 0, 0, 1] = [some 0, some 0, none, some 4, some 4] := by decide
example : aggregate path5 (fun _ _ => 1) [1, 5, 4, 3, 2] [1, 0, 0, 0, 1] =
    [some 0, some 0, some 0, some 4, some 4] := by decide

/-- independence fails for a non-maximal-distance labelling, as expected -/
example : independent2 path5 [1, 0, 1, 0, 0] = false := by decide
example : maximal2 path5 [1, 0, 0, 0, 0] = false := by decide

end Raptor.C15
