import RaptorModel.Props.C02Par
/-!
# C02 — the block kernels (`Matrix::append` for `double*` values, matrix.hpp:287-336) are the scalar
kernels on the expanded entries

A block entry `(I, J, vals)` with `vals` row-major `br × bc` is multiplied by two nested loops
(`row`, `col`) with `val[row * b_cols + col]`.  `blockAppend` mirrors them; `blockAppend_eq_expand`
shows that this is `appendE` — the scalar kernel of `Props/C02.lean` — on `ParMat.expand br bc es`,
the expansion through which the operator of a block matrix is defined (`Props/C07Par.lean`).  Every
scalar statement (entry-wise result, dense image, the distributed theorems of this file's siblings)
therefore transfers to BCOO / BSR / BSC storage, for every block shape, rectangular blocks included.
-/
namespace Raptor.C02Par
open Raptor.Sparse Raptor.Spmv Raptor.ParMat Raptor.C02

variable {K : Type}

/-- one block entry, the two nested loops of `append(int, int, double*, const double*, const double*)` -/
def blockAppendEntry [Add K] [Mul K] [Zero K] (br bc : Nat) (e : Nat × Nat × List K) (x b : List K) : List K :=
  (List.range br).foldl (fun b r =>
    (List.range bc).foldl (fun b c => upd b (e.1 * br + r) (· + e.2.2.getD (r * bc + c) 0 * at' x (e.2.1 * bc + c))) b) b

/-- `b += A x` for a list of block entries in storage order -/
def blockAppend [Add K] [Mul K] [Zero K] (br bc : Nat) (es : List (Nat × Nat × List K)) (x b : List K) : List K :=
  es.foldl (fun b e => blockAppendEntry br bc e x b) b

/-- the scalar entries of a block in loop order -/
def expandNested [Zero K] (br bc : Nat) (e : Nat × Nat × List K) : List (Entry K) :=
  (List.range br).flatMap fun r => (List.range bc).map fun c => (e.1 * br + r, e.2.1 * bc + c, e.2.2.getD (r * bc + c) 0)

theorem blockAppendEntry_eq [Add K] [Mul K] [Zero K] (br bc : Nat) (e : Nat × Nat × List K) (x b : List K) :
    blockAppendEntry br bc e x b = appendE (expandNested br bc e) x b := by
  unfold blockAppendEntry appendE expandNested
  rw [List.foldl_flatMap]
  congr 1
  funext b r
  rw [List.foldl_map]

theorem range_flatMap_eq {β : Type} (br bc : Nat) (hbc : 0 < bc) (g : Nat → Nat → β) :
    ((List.range br).flatMap fun r => (List.range bc).map fun c => g r c)
      = (List.range (br * bc)).map fun t => g (t / bc) (t % bc) := by
  induction br with
  | zero => simp
  | succ n ih =>
    rw [List.range_succ, List.flatMap_append, ih, Nat.succ_mul, List.range_add, List.map_append]
    congr 1
    simp only [List.flatMap_cons, List.flatMap_nil, List.append_nil, List.map_map]
    apply List.map_congr_left
    intro c hc
    have hc' := List.mem_range.mp hc
    simp only [Function.comp]
    have h1 : (n * bc + c) / bc = n := by
      rw [Nat.add_comm, Nat.add_mul_div_right _ _ hbc, Nat.div_eq_of_lt hc', Nat.zero_add]
    have h2 : (n * bc + c) % bc = c := by
      rw [Nat.add_comm, Nat.add_mul_mod_self_right, Nat.mod_eq_of_lt hc']
    rw [h1, h2]

theorem expandNested_eq [Zero K] (br bc : Nat) (hbc : 0 < bc) (e : Nat × Nat × List K) :
    expandNested br bc e = expandBlock br bc e := by
  unfold expandNested expandBlock
  rw [range_flatMap_eq br bc hbc (fun r c => (e.1 * br + r, e.2.1 * bc + c, e.2.2.getD (r * bc + c) 0))]
  apply List.map_congr_left
  intro t _
  have : t / bc * bc + t % bc = t := Nat.div_add_mod' t bc
  rw [this]

/-- **the block kernel is the scalar kernel on the expanded entries** -/
theorem blockAppend_eq_expand [Add K] [Mul K] [Zero K] (br bc : Nat) (hbc : 0 < bc)
    (es : List (Nat × Nat × List K)) (x b : List K) :
    blockAppend br bc es x b = appendE (expand br bc es) x b := by
  unfold blockAppend expand appendE
  rw [List.foldl_flatMap]
  congr 1
  funext b e
  have := blockAppendEntry_eq br bc e x b
  unfold appendE at this
  rw [this, expandNested_eq br bc hbc e]

/-- entry-wise: `b[i]` ends up as `b[i] + Σ` over the expanded entries of row `i` — the statement `C02.appendE_get` for blocks -/
theorem blockAppend_get [CommSemiring K] (br bc : Nat) (hbc : 0 < bc) (es : List (Nat × Nat × List K)) (x b : List K)
    (i : Nat) (hi : i < b.length) :
    (blockAppend br bc es x b).getD i 0 = b.getD i 0 + actE (expand br bc es) x i := by
  rw [blockAppend_eq_expand br bc hbc, appendE_get _ _ _ _ hi]

/-- the transposed block kernel `append_T(int, int, double*, const double*, const double*)` -/
def blockAppendTEntry [Add K] [Mul K] [Zero K] (br bc : Nat) (e : Nat × Nat × List K) (x b : List K) : List K :=
  (List.range br).foldl (fun b r =>
    (List.range bc).foldl (fun b c => upd b (e.2.1 * bc + c) (· + e.2.2.getD (r * bc + c) 0 * at' x (e.1 * br + r))) b) b

def blockAppendT [Add K] [Mul K] [Zero K] (br bc : Nat) (es : List (Nat × Nat × List K)) (x b : List K) : List K :=
  es.foldl (fun b e => blockAppendTEntry br bc e x b) b

theorem blockAppendTEntry_eq [Add K] [Mul K] [Zero K] (br bc : Nat) (e : Nat × Nat × List K) (x b : List K) :
    blockAppendTEntry br bc e x b = appendTE (expandNested br bc e) x b := by
  unfold blockAppendTEntry appendTE expandNested
  rw [List.foldl_flatMap]
  congr 1
  funext b r
  rw [List.foldl_map]

/-- **the transposed block kernel is the transposed scalar kernel on the expanded entries** -/
theorem blockAppendT_eq_expand [Add K] [Mul K] [Zero K] (br bc : Nat) (hbc : 0 < bc)
    (es : List (Nat × Nat × List K)) (x b : List K) :
    blockAppendT br bc es x b = appendTE (expand br bc es) x b := by
  unfold blockAppendT expand appendTE
  rw [List.foldl_flatMap]
  congr 1
  funext b e
  have := blockAppendTEntry_eq br bc e x b
  unfold appendTE at this
  rw [this, expandNested_eq br bc hbc e]

theorem blockAppendT_get [CommSemiring K] (br bc : Nat) (hbc : 0 < bc) (es : List (Nat × Nat × List K)) (x b : List K)
    (j : Nat) (hj : j < b.length) :
    (blockAppendT br bc es x b).getD j 0 = b.getD j 0 + actTE (expand br bc es) x j := by
  rw [blockAppendT_eq_expand br bc hbc, appendTE_get _ _ _ _ hj]

example : blockAppend 2 3 [(0, 1, [1, 2, 3, 4, 5, 6])] [0, 0, 0, 1, 10, 100] [0, 0] = ([321, 654] : List Int) := by decide

end Raptor.C02Par
