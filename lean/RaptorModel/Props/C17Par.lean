import RaptorModel.Props.C17
/-!
# C17 — distributed CG and BiCGStab = the sequential solvers, for every partition

`par_cg.cpp` differs from `cg.cpp` in two places: vectors live in per-rank pieces (the vector
updates act piece by piece — `axpy_flatten`, `scale_flatten` — so they are the global updates on the
concatenation), and every inner product is the sum of the ranks' local inner products
(`ParVector::inner_product`: local `dot`, then all-reduce).  `cgLoopG` is `cgLoop` with the inner
product as a parameter; `dotD lens` is the inner product of a distribution with piece lengths
`lens`.  Under `LinSys` (the operator is the same global operator — for `ParMatrix::mult` that is
`C02Par.parMult_global`) the whole run — iterates, reported history, iteration count — is the
sequential run, whatever `lens` is: empty ranks, one rank owning everything, any number of ranks.
-/
namespace Raptor.C17
open Raptor Raptor.Krylov

variable {K : Type}

/-- cut a vector into consecutive pieces of the given lengths -/
def splitBy : List Nat → List K → List (List K)
  | [], _ => []
  | n :: ns, v => v.take n :: splitBy ns (v.drop n)

/-- distributed inner product: local inner products, summed (the all-reduce) -/
def dotD [Add K] [Mul K] [Zero K] (lens : List Nat) (u v : List K) : K :=
  (List.zipWith dot (splitBy lens u) (splitBy lens v)).sum

theorem flatten_splitBy (lens : List Nat) (v : List K) (h : v.length = lens.sum) :
    (splitBy lens v).flatten = v := by
  induction lens generalizing v with
  | nil => simp at h; simp [splitBy, h]
  | cons n ns ih =>
    have hd : (v.drop n).length = ns.sum := by simp [List.length_drop, h]
    simp only [splitBy, List.flatten_cons, ih _ hd, List.take_append_drop]

theorem splitBy_forall₂ (lens : List Nat) (u v : List K) (h : u.length = v.length) :
    List.Forall₂ (fun a b => a.length = b.length) (splitBy lens u) (splitBy lens v) := by
  induction lens generalizing u v with
  | nil => exact .nil
  | cons n ns ih =>
    exact .cons (by simp [h]) (ih _ _ (by simp [h]))

/-- **the all-reduced inner product is the global inner product**, for every piece-length list that covers the vectors -/
theorem dotD_eq_dot [NonUnitalNonAssocSemiring K] (lens : List Nat) (u v : List K)
    (hu : u.length = lens.sum) (hv : v.length = lens.sum) : dotD lens u v = dot u v := by
  rw [dotD, ← dot_flatten _ _ (splitBy_forall₂ lens u v (by rw [hu, hv])), flatten_splitBy lens u hu,
    flatten_splitBy lens v hv]

section Loop
variable [Add K] [Sub K] [Mul K] [Div K] [Neg K] [Zero K] [SqrtOp K] [LT K] [DecidableLT K]

/-- `cgLoop` with the inner product as a parameter (`par_cg.cpp`: `dotf = dotD lens`) -/
def cgLoopG (dotf : List K → List K → K)
    (mv : List K → List K) (resid : List K → List K) (tol : K) (maxIter : Nat) (report : K → K) :
    Nat → Nat → List K → List K → List K → K → K → List K → Out K
  | 0, it, x, _, _, _, _, res => { x := x, res := res, iters := it }
  | fuel+1, it, x, r, p, rr, normr, res =>
    if tol < normr ∧ it < maxIter then
      let ap := mv p
      let alpha := rr / dotf ap p
      let x' := axpy x p alpha
      let r' := if it % 8 != 0 && it > 0 then axpy r ap (-alpha) else resid x'
      let next := dotf r' r'
      let beta := next / rr
      let p'' := (scale p beta).zip r' |>.map fun q => q.1 + q.2
      let normr' := SqrtOp.sqrt next
      cgLoopG dotf mv resid tol maxIter report fuel (it + 1) x' r' p'' next normr' (res ++ [report normr'])
    else { x := x, res := res, iters := it }

def cgG [DecidableEq K] (dotf : List K → List K → K)
    (mv : List K → List K) (resid : List K → List K) (tol : K) (maxIter : Nat) (report : K → K) (x0 : List K) : Out K :=
  let r := resid x0
  let rr := dotf r r
  let normr := SqrtOp.sqrt rr
  let tol' := if normr = 0 then tol else tol * normr
  cgLoopG dotf mv resid tol' maxIter report maxIter 0 x0 r r rr normr [report normr]

/-- with the plain inner product the parametrised loop is the sequential loop -/
theorem cgLoopG_dot (mv resid : List K → List K) (tol : K) (maxIter : Nat) (report : K → K)
    (fuel it : Nat) (x r p : List K) (rr normr : K) (res : List K) :
    cgLoopG dot mv resid tol maxIter report fuel it x r p rr normr res
      = cgLoop mv resid tol maxIter report fuel it x r p rr normr res := by
  induction fuel generalizing it x r p rr normr res with
  | zero => rfl
  | succ f ih =>
    unfold cgLoopG cgLoop
    split
    · exact ih _ _ _ _ _ _ _
    · rfl

theorem cgG_dot [DecidableEq K] (mv resid : List K → List K) (tol : K) (maxIter : Nat) (report : K → K) (x0 : List K) :
    cgG dot mv resid tol maxIter report x0 = cg mv resid tol maxIter report x0 := by
  unfold cgG cg
  exact cgLoopG_dot _ _ _ _ _ _ _ _ _ _ _ _ _

end Loop

section Indep
variable [CommRing K] [Div K] [SqrtOp K] [LT K] [DecidableLT K]

/-- an inner product that agrees with `dot` on vectors of length `n` drives the same run -/
theorem cgLoopG_congr {n : Nat} {mv resid : List K → List K} {b : List K} (L : LinSys n mv resid b)
    (dotf : List K → List K → K) (hdot : ∀ u v, u.length = n → v.length = n → dotf u v = dot u v)
    (tol : K) (maxIter : Nat) (report : K → K) (fuel it : Nat) (x r p : List K) (rr normr : K) (res : List K)
    (hx : x.length = n) (hr : r.length = n) (hp : p.length = n) :
    cgLoopG dotf mv resid tol maxIter report fuel it x r p rr normr res
      = cgLoopG dot mv resid tol maxIter report fuel it x r p rr normr res := by
  induction fuel generalizing it x r p rr normr res with
  | zero => rfl
  | succ f ih =>
    unfold cgLoopG
    have hap : (mv p).length = n := L.hlen p hp
    have h1 : dotf (mv p) p = dot (mv p) p := hdot _ _ hap hp
    split
    · simp only [h1]
      have hx' : (axpy x p (rr / dot (mv p) p)).length = n := length_axpy_of_eq _ hx hp
      have hr' : (if (it % 8 != 0 && decide (it > 0)) = true then axpy r (mv p) (-(rr / dot (mv p) p))
          else resid (axpy x p (rr / dot (mv p) p))).length = n := by
        split
        · exact length_axpy_of_eq _ hr hap
        · exact L.length_resid hx'
      rw [hdot _ _ hr' hr']
      exact ih _ _ _ _ _ _ _ hx' hr' (length_pupdate _ hp hr')
    · rfl

/-- **distributed CG = sequential CG for every distribution of the vectors** (piece lengths `lens`, any number of
    ranks, empty pieces allowed): same iterates, same reported history, same iteration count. -/
theorem cg_distributed_eq_sequential [DecidableEq K] {n : Nat} {mv resid : List K → List K} {b : List K}
    (L : LinSys n mv resid b) (lens : List Nat) (hlens : lens.sum = n)
    (tol : K) (maxIter : Nat) (report : K → K) (x0 : List K) (hx0 : x0.length = n) :
    cgG (dotD lens) mv resid tol maxIter report x0 = cg mv resid tol maxIter report x0 := by
  have hdot : ∀ u v : List K, u.length = n → v.length = n → dotD lens u v = dot u v :=
    fun u v hu hv => dotD_eq_dot lens u v (by rw [hu, hlens]) (by rw [hv, hlens])
  have hr0 : (resid x0).length = n := L.length_resid hx0
  rw [← cgG_dot]
  unfold cgG
  simp only [hdot _ _ hr0 hr0]
  exact cgLoopG_congr L (dotD lens) hdot _ _ _ _ _ _ _ _ _ _ _ hx0 hr0 hr0

/-- hence any two distributions give the same run -/
theorem cg_partition_indep [DecidableEq K] {n : Nat} {mv resid : List K → List K} {b : List K}
    (L : LinSys n mv resid b) (lens lens' : List Nat) (h : lens.sum = n) (h' : lens'.sum = n)
    (tol : K) (maxIter : Nat) (report : K → K) (x0 : List K) (hx0 : x0.length = n) :
    cgG (dotD lens) mv resid tol maxIter report x0 = cgG (dotD lens') mv resid tol maxIter report x0 := by
  rw [cg_distributed_eq_sequential L lens h _ _ _ _ hx0, cg_distributed_eq_sequential L lens' h' _ _ _ _ hx0]

end Indep

/-! ## BiCGStab -/

section BiLoop
variable [Add K] [Sub K] [Mul K] [Div K] [Neg K] [Zero K] [LT K] [DecidableLT K] [DecidableEq K]

/-- `bicgLoop` with the inner product as a parameter -/
def bicgLoopG (dotf : List K → List K → K)
    (mv : List K → List K) (norm : List K → K) (rstar : List K) (tol : K) (maxIter : Nat) :
    Nat → Nat → List K → List K → List K → K → K → List K → Out K
  | 0, it, x, _, _, _, _, res => { x := x, res := res, iters := it }
  | fuel+1, it, x, r, p, rr, normr, res =>
    if tol < normr ∧ it < maxIter then
      let ap := mv p
      let alpha := rr / dotf ap rstar
      let s := axpy r ap (-alpha)
      let as := mv s
      let aa := dotf as as
      let omega := if aa = 0 then 0 else dotf as s / aa
      let x' := axpy (axpy x p alpha) s omega
      let r' := axpy s as (-omega)
      let next := dotf r' rstar
      let beta := (next / rr) * (alpha / omega)
      let p' := axpy (((scale p beta).zip r').map fun q => q.1 + q.2) ap (-(beta * omega))
      let normr' := norm r'
      bicgLoopG dotf mv norm rstar tol maxIter fuel (it + 1) x' r' p' next normr' (res ++ [normr'])
    else { x := x, res := res, iters := it }

def bicgstabG (dotf : List K → List K → K)
    (mv : List K → List K) (resid : List K → List K) (norm : List K → K) (tol : K) (maxIter : Nat) (x0 : List K) : Out K :=
  let r := resid x0
  let normr := norm r
  let tol' := if normr = 0 then tol else tol * normr
  bicgLoopG dotf mv norm r tol' maxIter maxIter 0 x0 r r (dotf r r) normr [normr]

theorem bicgLoopG_dot (mv : List K → List K) (norm : List K → K) (rstar : List K) (tol : K) (maxIter : Nat)
    (fuel it : Nat) (x r p : List K) (rr normr : K) (res : List K) :
    bicgLoopG dot mv norm rstar tol maxIter fuel it x r p rr normr res
      = bicgLoop mv norm rstar tol maxIter fuel it x r p rr normr res := by
  induction fuel generalizing it x r p rr normr res with
  | zero => rfl
  | succ f ih =>
    unfold bicgLoopG bicgLoop
    split
    · exact ih _ _ _ _ _ _ _
    · rfl

end BiLoop

section BiIndep
variable [CommRing K] [Div K] [LT K] [DecidableLT K] [DecidableEq K]

theorem bicgLoopG_congr {n : Nat} {mv resid : List K → List K} {b : List K} (L : LinSys n mv resid b)
    (dotf : List K → List K → K) (hdot : ∀ u v, u.length = n → v.length = n → dotf u v = dot u v)
    (norm : List K → K) (rstar : List K) (hrs : rstar.length = n)
    (tol : K) (maxIter : Nat) (fuel it : Nat) (x r p : List K) (rr normr : K) (res : List K)
    (hx : x.length = n) (hr : r.length = n) (hp : p.length = n) :
    bicgLoopG dotf mv norm rstar tol maxIter fuel it x r p rr normr res
      = bicgLoopG dot mv norm rstar tol maxIter fuel it x r p rr normr res := by
  induction fuel generalizing it x r p rr normr res with
  | zero => rfl
  | succ f ih =>
    unfold bicgLoopG
    have hap : (mv p).length = n := L.hlen p hp
    have h1 : dotf (mv p) rstar = dot (mv p) rstar := hdot _ _ hap hrs
    split
    · simp only [h1]
      have hs : (axpy r (mv p) (-(rr / dot (mv p) rstar))).length = n := length_axpy_of_eq _ hr hap
      have has : (mv (axpy r (mv p) (-(rr / dot (mv p) rstar)))).length = n := L.hlen _ hs
      simp only [hdot _ _ has has, hdot _ _ has hs]
      generalize (if dot (mv (axpy r (mv p) (-(rr / dot (mv p) rstar)))) (mv (axpy r (mv p) (-(rr / dot (mv p) rstar)))) = 0 then 0
        else dot (mv (axpy r (mv p) (-(rr / dot (mv p) rstar)))) (axpy r (mv p) (-(rr / dot (mv p) rstar))) /
          dot (mv (axpy r (mv p) (-(rr / dot (mv p) rstar)))) (mv (axpy r (mv p) (-(rr / dot (mv p) rstar))))) = omega
      have hx' : (axpy (axpy x p (rr / dot (mv p) rstar)) (axpy r (mv p) (-(rr / dot (mv p) rstar))) omega).length = n :=
        length_axpy_of_eq _ (length_axpy_of_eq _ hx hp) hs
      have hr' : (axpy (axpy r (mv p) (-(rr / dot (mv p) rstar))) (mv (axpy r (mv p) (-(rr / dot (mv p) rstar)))) (-omega)).length = n :=
        length_axpy_of_eq _ hs has
      simp only [hdot _ _ hr' hrs]
      exact ih _ _ _ _ _ _ _ hx' hr' (length_axpy_of_eq _ (length_pupdate _ hp hr') hap)
    · rfl

/-- **distributed BiCGStab = sequential BiCGStab for every distribution of the vectors** -/
theorem bicgstab_distributed_eq_sequential {n : Nat} {mv resid : List K → List K} {b : List K}
    (L : LinSys n mv resid b) (lens : List Nat) (hlens : lens.sum = n) (norm : List K → K)
    (tol : K) (maxIter : Nat) (x0 : List K) (hx0 : x0.length = n) :
    bicgstabG (dotD lens) mv resid norm tol maxIter x0 = bicgstab mv resid norm tol maxIter x0 := by
  have hdot : ∀ u v : List K, u.length = n → v.length = n → dotD lens u v = dot u v :=
    fun u v hu hv => dotD_eq_dot lens u v (by rw [hu, hlens]) (by rw [hv, hlens])
  have hr0 : (resid x0).length = n := L.length_resid hx0
  unfold bicgstabG bicgstab
  simp only [hdot _ _ hr0 hr0]
  rw [← bicgLoopG_dot]
  exact bicgLoopG_congr L (dotD lens) hdot norm _ hr0 _ _ _ _ _ _ _ _ _ _ hx0 hr0 hr0

end BiIndep

/-- non-vacuity: three ranks, the middle one empty -/
example : dotD [1, 0, 2] [1, 2, 3] [4, 5, (6 : Int)] = 32 := by decide
example : splitBy [1, 0, 2] [1, 2, (3 : Int)] = [[1], [], [2, 3]] := by decide

end Raptor.C17
