import RaptorModel.Props.RSLemmas
import RaptorModel.Props.RSInit
/-!
# C13, sequential Ruge–Stüben (`split_rs`): the labelling is total and every fine point keeps a strong coarse neighbour

The theorems are about `RS.firstPass` / `RS.secondPass` / `RS.splitRS`, the bucket machine that mirrors
`cf_splitting.cpp:92-345` array for array (the correspondence check compares its labels with `split_rs` on every
sequential case, and evaluates the one hypothesis that is not proved here — the visit order of the buckets reaches every
column — on every instance).
-/
namespace Raptor.RS
open Raptor.Split (Graph dependents)

/-- every fine point has a strong coarse neighbour -/
def FC (S : Graph) (l : List Int) : Prop := ∀ v, lab l v = 0 → ∃ u ∈ S.getD v [], lab l u = 1

/-- no point is left unassigned -/
def Assigned (l : List Int) : Prop := ∀ v, v < l.length → lab l v ≠ -1

theorem mem_dependents {S : Graph} {c idx : Nat} (h : idx ∈ dependents S c) : c ∈ S.getD idx [] := by
  unfold dependents at h
  have := (List.mem_filter.mp h).2
  simpa using this

/-! ### one visit -/

theorem selectCol_keep (S : Graph) {l : List Int} (c : Nat) {v : Nat} (h : lab l v ≠ -1) :
    lab (selectCol S l c) v = lab l v := by
  rw [selectCol_eq]; split
  · rfl
  · rename_i hc
    have hc' : lab l c = -1 := by simpa using hc
    have hne : c ≠ v := fun e => h (e ▸ hc')
    have h1 : lab (l.set c 1) v = lab l v := lab_set_ne hne
    rw [foldl_markF_keep _ (by rw [h1]; exact h), h1]

theorem selectCol_assigns (S : Graph) {l : List Int} {c : Nat} (hc : c < l.length) :
    lab (selectCol S l c) c ≠ -1 := by
  rw [selectCol_eq]; split
  · rename_i h; simpa using h
  · have h1 : lab (l.set c 1) c = 1 := lab_set_self hc
    rw [foldl_markF_keep _ (by rw [h1]; decide), h1]; decide

theorem selectCol_FC (S : Graph) {l : List Int} (c : Nat) (h : FC S l) : FC S (selectCol S l c) := by
  rw [selectCol_eq]; split
  · exact h
  · rename_i hc
    have hc' : lab l c = -1 := by simpa using hc
    have hlen : c < l.length := by
      apply Nat.lt_of_not_le; intro hn; rw [lab_oob hn] at hc'; omega
    have hc1 : lab (l.set c 1) c = 1 := lab_set_self hlen
    intro v hv
    rcases foldl_markF_zero _ hv with h0 | ⟨hm, _⟩
    · have hvc : c ≠ v := by
        intro e; subst e; rw [hc1] at h0; omega
      rw [lab_set_ne hvc] at h0
      obtain ⟨u, hu, hu1⟩ := h v h0
      refine ⟨u, hu, ?_⟩
      rw [foldl_markF_one]
      have huc : c ≠ u := by
        intro e; subst e; rw [hc'] at hu1; omega
      rw [lab_set_ne huc]; exact hu1
    · exact ⟨c, mem_dependents hm, by rw [foldl_markF_one]; exact hc1⟩

/-! ### any sequence of visits -/

theorem foldl_selectCol_length (S : Graph) (order : List Nat) (l : List Int) :
    (order.foldl (selectCol S) l).length = l.length := by
  induction order generalizing l with
  | nil => rfl
  | cons c cs ih => simp only [List.foldl_cons]; rw [ih, selectCol_length]

theorem foldl_selectCol_keep (S : Graph) (order : List Nat) {l : List Int} {v : Nat} (h : lab l v ≠ -1) :
    lab (order.foldl (selectCol S) l) v = lab l v := by
  induction order generalizing l with
  | nil => rfl
  | cons c cs ih =>
    simp only [List.foldl_cons]
    rw [ih (by rw [selectCol_keep S c h]; exact h), selectCol_keep S c h]

theorem foldl_selectCol_assigns (S : Graph) (order : List Nat) {l : List Int} {v : Nat}
    (hv : v ∈ order) (hl : v < l.length) : lab (order.foldl (selectCol S) l) v ≠ -1 := by
  induction order generalizing l with
  | nil => cases hv
  | cons c cs ih =>
    simp only [List.foldl_cons]
    rcases List.mem_cons.mp hv with rfl | hm
    · rw [foldl_selectCol_keep S cs (selectCol_assigns S hl)]; exact selectCol_assigns S hl
    · exact ih hm (by rw [selectCol_length]; exact hl)

theorem foldl_selectCol_FC (S : Graph) (order : List Nat) {l : List Int} (h : FC S l) :
    FC S (order.foldl (selectCol S) l) := by
  induction order generalizing l with
  | nil => exact h
  | cons c cs ih => simp only [List.foldl_cons]; exact ih (selectCol_FC S c h)

/-! ### the first pass of the bucket machine -/

/-- **fine points keep a coarse neighbour**, whatever order the buckets produce -/
theorem firstPass_FC (S : Graph) (l0 : List Int) (h : FC S l0) : FC S (firstPass S l0).1.labels := by
  unfold firstPass; rw [runFrom_labels]; exact foldl_selectCol_FC S _ h

/-- labels the caller supplied (`prev_states`) are left alone -/
theorem firstPass_keeps (S : Graph) (l0 : List Int) {v : Nat} (h : lab l0 v ≠ -1) :
    lab (firstPass S l0).1.labels v = lab l0 v := by
  unfold firstPass; rw [runFrom_labels]; exact foldl_selectCol_keep S _ h

theorem firstPass_length (S : Graph) (l0 : List Int) : (firstPass S l0).1.labels.length = l0.length := by
  unfold firstPass; rw [runFrom_labels]; exact foldl_selectCol_length S _ _

/-- **totality**: if the visit order of the buckets reaches every column (evaluated on every instance by the
    correspondence check), no point is left unassigned -/
theorem firstPass_total (S : Graph) (l0 : List Int)
    (hcover : ∀ c, c < l0.length → c ∈ (firstPass S l0).2) : Assigned (firstPass S l0).1.labels := by
  intro v hv
  rw [firstPass_length] at hv
  have := foldl_selectCol_assigns S (firstPass S l0).2 (l := l0) (hcover v hv) hv
  unfold firstPass at this ⊢; rw [runFrom_labels]; exact this

/-- the fresh labelling satisfies the invariant vacuously -/
theorem FC_fresh (S : Graph) (n : Nat) : FC S (List.replicate n (-1)) := by
  intro v hv
  unfold lab at hv
  rw [List.getD_eq_getElem?_getD] at hv
  by_cases h : v < n
  · simp [h] at hv
  · simp [h] at hv

/-! ### the second pass only promotes -/

/-- relation between the labels before and after: equal, or a promotion of a fine point -/
def Promotes (a b : List Int) : Prop := a.length = b.length ∧ ∀ v, lab b v = lab a v ∨ (lab a v = 0 ∧ lab b v = 1)

theorem Promotes.refl (a : List Int) : Promotes a a := ⟨rfl, fun _ => Or.inl rfl⟩

theorem Promotes.trans {a b c : List Int} (h1 : Promotes a b) (h2 : Promotes b c) : Promotes a c := by
  refine ⟨h1.1.trans h2.1, fun v => ?_⟩
  rcases h1.2 v with e1 | ⟨e1, e1'⟩ <;> rcases h2.2 v with e2 | ⟨e2, e2'⟩
  · left; rw [e2, e1]
  · right; exact ⟨by rw [← e1]; exact e2, e2'⟩
  · right; exact ⟨e1, by rw [e2]; exact e1'⟩
  · omega

theorem promotes_set {l : List Int} {c : Nat} (h : lab l c = 0) : Promotes l (l.set c 1) := by
  refine ⟨by simp, fun v => ?_⟩
  rw [lab_set]; split
  · rename_i hc; obtain ⟨rfl, _⟩ := hc; right; exact ⟨h, rfl⟩
  · left; rfl

theorem secondRow_promotes (rows : List (List Nat)) (st : List Int × List Int) (i : Nat) :
    Promotes st.1 (secondRow rows st i).1 := by
  unfold secondRow
  split
  · exact Promotes.refl _
  · simp only
    generalize (rows.getD i []).foldl _ st.2 = rc
    suffices ∀ (row : List Nat) (st' : List Int × List Int), Promotes st.1 st'.1 →
        Promotes st.1 (row.foldl (fun (st : List Int × List Int) col =>
          if lab st.1 col == 0 then
            if (rows.getD col []).isEmpty then st
            else if (rows.getD col []).any (fun ck => st.2.getD ck (-1) == (i : Int)) then st
            else (st.1.set col 1, st.2.set col (i : Int))
          else st) st').1 from this _ (st.1, rc) (Promotes.refl _)
    intro row
    induction row with
    | nil => intro st' h; exact h
    | cons c cs ih =>
      intro st' h
      simp only [List.foldl_cons]
      apply ih
      split
      · rename_i hc
        split
        · exact h
        · split
          · exact h
          · exact h.trans (promotes_set (by simpa using hc))
      · exact h

theorem secondPass_promotes (rows : List (List Nat)) (l : List Int) : Promotes l (secondPass rows l) := by
  unfold secondPass
  suffices ∀ (is : List Nat) (st : List Int × List Int), Promotes l st.1 →
      Promotes l (is.foldl (secondRow rows) st).1 from this _ _ (Promotes.refl _)
  intro is
  induction is with
  | nil => intro st h; exact h
  | cons i is ih =>
    intro st h
    simp only [List.foldl_cons]
    exact ih _ (h.trans (secondRow_promotes rows st i))

theorem Promotes.assigned {a b : List Int} (h : Promotes a b) (ha : Assigned a) : Assigned b := by
  intro v hv
  rcases h.2 v with e | ⟨_, e⟩
  · rw [e]; exact ha v (by rw [h.1]; exact hv)
  · rw [e]; decide

theorem Promotes.FC {S : Graph} {a b : List Int} (h : Promotes a b) (ha : FC S a) : FC S b := by
  intro v hv
  have hav : lab a v = 0 := by
    rcases h.2 v with e | ⟨e, e'⟩
    · rw [← e]; exact hv
    · exact e
  obtain ⟨u, hu, hu1⟩ := ha v hav
  refine ⟨u, hu, ?_⟩
  rcases h.2 u with e | ⟨e, _⟩
  · rw [e]; exact hu1
  · omega

/-- a coarse point of the first pass is coarse in the result; a fine point of the result was fine after the first pass -/
theorem secondPass_coarse_stays (rows : List (List Nat)) (l : List Int) {v : Nat} (h : lab l v = 1) :
    lab (secondPass rows l) v = 1 := by
  rcases (secondPass_promotes rows l).2 v with e | ⟨e, _⟩
  · rw [e]; exact h
  · omega

/-! ### `split_rs` -/

/-- **C13, Ruge–Stüben clause**: in the result of `split_rs` (with or without the second pass) every fine point has a
    strong coarse neighbour -/
theorem splitRS_FC (S : Graph) (second : Bool) : FC S (splitRS S second) := by
  unfold splitRS
  have h1 := firstPass_FC S (List.replicate S.length (-1)) (FC_fresh S _)
  cases second
  · simpa using h1
  · simp only [if_true]
    exact (secondPass_promotes _ _).FC h1

/-- **C13, totality clause**, under the certificate that the buckets visit every column -/
theorem splitRS_total (S : Graph) (second : Bool)
    (hcover : ∀ c, c < S.length → c ∈ (firstPass S (List.replicate S.length (-1))).2) :
    Assigned (splitRS S second) := by
  unfold splitRS
  have h1 := firstPass_total S (List.replicate S.length (-1)) (by simpa using hcover)
  cases second
  · simpa using h1
  · simp only [if_true]
    exact (secondPass_promotes _ _).assigned h1

theorem splitRS_length (S : Graph) (second : Bool) : (splitRS S second).length = S.length := by
  unfold splitRS
  have h1 := firstPass_length S (List.replicate S.length (-1))
  cases second
  · simpa using h1
  · simp only [if_true]
    rw [← (secondPass_promotes _ _).1, h1]; simp

/-- labels are `1` or `0` only: with the certificate, nothing else can appear from a fresh start -/
theorem selectCol_values (S : Graph) {l : List Int} (c : Nat) (h : ∀ v, v < l.length → lab l v = 1 ∨ lab l v = 0 ∨ lab l v = -1) :
    ∀ v, v < (selectCol S l c).length → lab (selectCol S l c) v = 1 ∨ lab (selectCol S l c) v = 0 ∨ lab (selectCol S l c) v = -1 := by
  intro v hv
  rw [selectCol_length] at hv
  rw [selectCol_eq]; split
  · exact h v hv
  · suffices ∀ (ds : List Nat) (l' : List Int), l'.length = l.length →
        (∀ v, v < l'.length → lab l' v = 1 ∨ lab l' v = 0 ∨ lab l' v = -1) →
        lab (ds.foldl markF l') v = 1 ∨ lab (ds.foldl markF l') v = 0 ∨ lab (ds.foldl markF l') v = -1 by
      apply this _ _ (by simp)
      intro w hw
      rw [lab_set]; split
      · left; rfl
      · exact h w (by simpa using hw)
    intro ds
    induction ds with
    | nil => intro l' hl h'; exact h' v (by omega)
    | cons d ds ih =>
      intro l' hl h'
      simp only [List.foldl_cons]
      apply ih _ (by rw [markF_length]; exact hl)
      intro w hw
      rw [markF_length] at hw
      unfold markF; split
      · rw [lab_set]; split
        · right; left; rfl
        · exact h' w hw
      · exact h' w hw

/-! ### the second pass cannot promote every fine point -/

/-- every label in range is coarse or fine -/
def Vals (l : List Int) : Prop := ∀ v, v < l.length → lab l v = 1 ∨ lab l v = 0

theorem Promotes.vals {a b : List Int} (h : Promotes a b) (ha : Vals a) : Vals b := by
  intro v hv
  rcases h.2 v with e | ⟨_, e⟩
  · rw [e]; exact ha v (by rw [h.1]; exact hv)
  · left; exact e

theorem secondRow_skip (rows : List (List Nat)) (st : List Int × List Int) (i : Nat) (h : lab st.1 i = 1) :
    secondRow rows st i = st := by
  unfold secondRow; rw [if_pos (by simp [h])]

theorem secondRow_rc_length (rows : List (List Nat)) (st : List Int × List Int) (i : Nat) :
    (secondRow rows st i).2.length = st.2.length := by
  unfold secondRow
  split
  · rfl
  · simp only
    have hm := mark_length st.1 i (rows.getD i []) st.2
    generalize (rows.getD i []).foldl _ st.2 = rc at hm
    rw [← hm]
    suffices ∀ (row : List Nat) (st' : List Int × List Int),
        (row.foldl (fun (st : List Int × List Int) col =>
          if lab st.1 col == 0 then
            if (rows.getD col []).isEmpty then st
            else if (rows.getD col []).any (fun ck => st.2.getD ck (-1) == (i : Int)) then st
            else (st.1.set col 1, st.2.set col (i : Int))
          else st) st').2.length = st'.2.length from this _ (st.1, rc)
    intro row
    induction row with
    | nil => intro st'; rfl
    | cons c cs ih =>
      intro st'
      simp only [List.foldl_cons]
      rw [ih]
      split
      · split
        · rfl
        · split
          · rfl
          · simp
      · rfl

/-- the row under examination is not promoted while it is examined: it has a coarse neighbour in its own row, which the
    marking pass has just recorded -/
theorem secondRow_keeps_self (rows : List (List Nat)) (st : List Int × List Int) (i : Nat)
    (h0 : lab st.1 i = 0) (hfc : FC rows st.1) (hlen : st.2.length = st.1.length) :
    lab (secondRow rows st i).1 i = 0 := by
  obtain ⟨u, hu, hu1⟩ := hfc i h0
  have hul : u < st.2.length := by
    rw [hlen]; apply Nat.lt_of_not_le; intro hn; rw [lab_oob hn] at hu1; omega
  unfold secondRow
  rw [if_neg (by simp [h0])]
  simp only
  have hm := mark_sets st.1 i (rows.getD i []) st.2 u hu hu1 hul
  generalize (rows.getD i []).foldl _ st.2 = rc at hm
  suffices ∀ (row : List Nat) (st' : List Int × List Int), lab st'.1 i = 0 → st'.2.getD u (-1) = (i : Int) →
      lab (row.foldl (fun (st : List Int × List Int) col =>
        if lab st.1 col == 0 then
          if (rows.getD col []).isEmpty then st
          else if (rows.getD col []).any (fun ck => st.2.getD ck (-1) == (i : Int)) then st
          else (st.1.set col 1, st.2.set col (i : Int))
        else st) st').1 i = 0 from this _ (st.1, rc) h0 hm
  intro row
  induction row with
  | nil => intro st' h _; exact h
  | cons c cs ih =>
    intro st' hi hrc
    simp only [List.foldl_cons]
    split
    · split
      · exact ih _ hi hrc
      · split
        · exact ih _ hi hrc
        · rename_i hany
          have hci : c ≠ i := by
            intro e; subst e
            apply hany
            rw [List.any_eq_true]
            exact ⟨u, hu, by simpa using hrc⟩
          apply ih
          · simp only; rw [lab_set_ne hci]; exact hi
          · simp only
            by_cases hcu : c = u
            · subst hcu
              by_cases hl : c < st'.2.length
              · simp [hl]
              · rw [List.set_eq_of_length_le (by omega)]; exact hrc
            · simp [List.getElem?_set_ne hcu]; simpa using hrc
    · exact ih _ hi hrc

theorem foldl_secondRow_all_coarse (rows : List (List Nat)) (is : List Nat) (st : List Int × List Int)
    (h : ∀ v ∈ is, lab st.1 v = 1) : is.foldl (secondRow rows) st = st := by
  induction is with
  | nil => rfl
  | cons i is ih =>
    simp only [List.foldl_cons]
    rw [secondRow_skip rows st i (h i List.mem_cons_self)]
    exact ih fun v hv => h v (List.mem_cons_of_mem _ hv)

/-- among the rows still to be examined take the last one that is fine when its turn comes: it is not promoted by its own
    examination, and no later examination happens — so it is fine in the result -/
theorem foldl_secondRow_has_fine (rows : List (List Nat)) (is : List Nat) (st : List Int × List Int)
    (hfc : FC rows st.1) (hv : Vals st.1) (hlen : st.2.length = st.1.length)
    (hin : ∀ v ∈ is, v < st.1.length) (h0 : ∃ v ∈ is, lab st.1 v = 0) :
    ∃ v, lab (is.foldl (secondRow rows) st).1 v = 0 := by
  induction is generalizing st with
  | nil => obtain ⟨v, hm, _⟩ := h0; cases hm
  | cons i is ih =>
    simp only [List.foldl_cons]
    have hp := secondRow_promotes rows st i
    have hfc' := hp.FC hfc
    have hv' := hp.vals hv
    have hlen' : (secondRow rows st i).2.length = (secondRow rows st i).1.length := by
      rw [secondRow_rc_length, hlen, hp.1]
    have hin' : ∀ v ∈ is, v < (secondRow rows st i).1.length := fun v hm => by
      rw [← hp.1]; exact hin v (List.mem_cons_of_mem _ hm)
    by_cases hB : ∃ v ∈ is, lab (secondRow rows st i).1 v = 0
    · exact ih _ hfc' hv' hlen' hin' hB
    · have hall : ∀ v ∈ is, lab (secondRow rows st i).1 v = 1 := by
        intro v hm
        rcases hv' v (hin' v hm) with e | e
        · exact e
        · exact absurd ⟨v, hm, e⟩ hB
      rw [foldl_secondRow_all_coarse rows is _ hall]
      rcases hv i (hin i List.mem_cons_self) with e1 | e0
      · -- row i is coarse: nothing happens, the witness is in the rest
        rw [secondRow_skip rows st i e1]
        obtain ⟨v, hm, hz⟩ := h0
        exact ⟨v, hz⟩
      · exact ⟨i, secondRow_keeps_self rows st i e0 hfc hlen⟩

theorem secondPass_has_fine (rows : List (List Nat)) (l : List Int) (hfc : FC rows l) (hv : Vals l)
    (hlen : l.length = rows.length) (h0 : ∃ v, lab l v = 0) : ∃ v, lab (secondPass rows l) v = 0 := by
  unfold secondPass
  obtain ⟨v, hz⟩ := h0
  have hvl : v < l.length := by
    apply Nat.lt_of_not_le; intro hn; rw [lab_oob hn] at hz; omega
  apply foldl_secondRow_has_fine rows _ (l, List.replicate rows.length (-1)) hfc hv (by simp [hlen])
  · intro w hw; simp only; rw [hlen]; exact List.mem_range.mp hw
  · exact ⟨v, List.mem_range.mpr (by rw [← hlen]; exact hvl), hz⟩

/-! ### `split_rs`: at least one coarse and one fine point -/

/-- the rows as the second pass walks them (diagonal entry first) contain the rows of the graph -/
theorem withDiag_getD (S : Graph) (v : Nat) (hv : v < S.length) :
    (S.zipIdx.map fun (r, i) => i :: r).getD v [] = v :: S.getD v [] := by
  simp [List.getD_eq_getElem?_getD, hv]

theorem FC_withDiag (S : Graph) (l : List Int) (hl : l.length = S.length) (h : FC S l) :
    FC (S.zipIdx.map fun (r, i) => i :: r) l := by
  intro v hv
  have hvl : v < S.length := by
    rw [← hl]; apply Nat.lt_of_not_le; intro hn; rw [lab_oob hn] at hv; omega
  obtain ⟨u, hu, hu1⟩ := h v hv
  exact ⟨u, by rw [withDiag_getD S v hvl]; exact List.mem_cons_of_mem _ hu, hu1⟩

theorem foldl_selectCol_values (S : Graph) (order : List Nat) (l : List Int)
    (h : ∀ v, v < l.length → lab l v = 1 ∨ lab l v = 0 ∨ lab l v = -1) :
    ∀ v, v < (order.foldl (selectCol S) l).length →
      lab (order.foldl (selectCol S) l) v = 1 ∨ lab (order.foldl (selectCol S) l) v = 0 ∨ lab (order.foldl (selectCol S) l) v = -1 := by
  induction order generalizing l with
  | nil => exact h
  | cons c cs ih => simp only [List.foldl_cons]; exact ih _ (selectCol_values S c h)

theorem firstPass_vals (S : Graph) (n : Nat)
    (hcover : ∀ c, c < n → c ∈ (firstPass S (List.replicate n (-1))).2) :
    Vals (firstPass S (List.replicate n (-1))).1.labels := by
  intro v hv
  have ha := firstPass_total S (List.replicate n (-1)) (by simpa using hcover) v hv
  have hvals : ∀ w, w < (firstPass S (List.replicate n (-1))).1.labels.length →
      lab (firstPass S (List.replicate n (-1))).1.labels w = 1 ∨ lab (firstPass S (List.replicate n (-1))).1.labels w = 0 ∨
      lab (firstPass S (List.replicate n (-1))).1.labels w = -1 := by
    unfold firstPass; rw [runFrom_labels]
    apply foldl_selectCol_values
    intro w hw
    right; right
    change w < (List.replicate n (-1 : Int)).length at hw
    show lab (List.replicate n (-1)) w = -1
    simp only [List.length_replicate] at hw
    simp [lab, hw]
  rcases hvals v hv with e | e | e
  · left; exact e
  · right; exact e
  · exact absurd e ha

/-- the first column visited becomes coarse and each of its dependents fine, and the first pass never changes them again -/
theorem firstPass_first (S : Graph) (n : Nat) (c0 : Nat) (rest : List Nat) (d : Nat)
    (horder : (firstPass S (List.replicate n (-1))).2 = c0 :: rest)
    (hc0 : c0 < n) (hd : d ∈ dependents S c0) (hdn : d < n) (hne : d ≠ c0) :
    lab (firstPass S (List.replicate n (-1))).1.labels c0 = 1 ∧ lab (firstPass S (List.replicate n (-1))).1.labels d = 0 := by
  have hfresh : ∀ w, w < n → lab (List.replicate n (-1)) w = -1 := fun w hw => by simp [lab, hw]
  have hl : (firstPass S (List.replicate n (-1))).1.labels
      = rest.foldl (selectCol S) (selectCol S (List.replicate n (-1)) c0) := by
    unfold firstPass at horder ⊢; rw [runFrom_labels, horder]; rfl
  have hsel : selectCol S (List.replicate n (-1)) c0
      = (dependents S c0).foldl markF ((List.replicate n (-1)).set c0 1) := by
    rw [selectCol_eq, if_neg (by simp [hfresh c0 hc0])]
  have h1 : lab (selectCol S (List.replicate n (-1)) c0) c0 = 1 := by
    rw [hsel, foldl_markF_one]; exact lab_set_self (by simpa using hc0)
  have h0 : lab (selectCol S (List.replicate n (-1)) c0) d = 0 := by
    rw [hsel]
    apply foldl_markF_sets _ hd (by simpa using hdn)
    rw [lab_set_ne (Ne.symm hne)]; exact hfresh d hdn
  rw [hl]
  exact ⟨by rw [foldl_selectCol_keep S rest (by rw [h1]; decide), h1],
         by rw [foldl_selectCol_keep S rest (by rw [h0]; decide), h0]⟩

/-- **C13, Ruge–Stüben: at least one coarse and at least one fine point.** Hypotheses evaluated per instance by the
    correspondence check: the buckets reach every column, and the first column visited (the one of largest weight) has a
    dependent other than itself — true whenever the graph has an edge, because the initial buckets are sorted. -/
theorem splitRS_mixed (S : Graph) (second : Bool) (c0 : Nat) (rest : List Nat) (d : Nat)
    (hcover : ∀ c, c < S.length → c ∈ (firstPass S (List.replicate S.length (-1))).2)
    (horder : (firstPass S (List.replicate S.length (-1))).2 = c0 :: rest)
    (hc0 : c0 < S.length) (hd : d ∈ dependents S c0) (hne : d ≠ c0) :
    (∃ v, lab (splitRS S second) v = 1) ∧ (∃ v, lab (splitRS S second) v = 0) := by
  have hdn : d < S.length := by
    unfold dependents at hd; exact List.mem_range.mp (List.mem_filter.mp hd).1
  obtain ⟨h1, h0⟩ := firstPass_first S S.length c0 rest d horder hc0 hd hdn hne
  unfold splitRS
  cases second
  · exact ⟨⟨c0, by simpa using h1⟩, ⟨d, by simpa using h0⟩⟩
  · simp only [if_true]
    refine ⟨⟨c0, secondPass_coarse_stays _ _ h1⟩, ?_⟩
    have hlen := firstPass_length S (List.replicate S.length (-1))
    apply secondPass_has_fine
    · exact FC_withDiag S _ (by rw [hlen]; simp) (firstPass_FC S _ (FC_fresh S _))
    · exact firstPass_vals S S.length hcover
    · rw [hlen]; simp
    · exact ⟨d, h0⟩

/-- **the same without the second hypothesis**: the initial buckets are a counting sort (`RSInit`), so the first column
    visited has the largest weight; if any vertex has a dependent, so has that column. What remains assumed is the cover
    hypothesis alone. -/
theorem splitRS_mixed_of_edge (S : Graph) (second : Bool) (hwf : WF S) {u : Nat} (hu : u < S.length)
    (hdep : dependents S u ≠ [])
    (hcover : ∀ c, c < S.length → c ∈ (firstPass S (List.replicate S.length (-1))).2) :
    (∃ v, lab (splitRS S second) v = 1) ∧ (∃ v, lab (splitRS S second) v = 0) := by
  have hn : 0 < S.length := by omega
  obtain ⟨hc0, d, hd, hne⟩ := first_visit_has_dependent S hwf hu hdep
  have hhead := firstPass_order_head S (List.replicate S.length (-1)) hn
  obtain ⟨rest, hrest⟩ : ∃ rest, (firstPass S (List.replicate S.length (-1))).2
      = nat (init S (List.replicate S.length (-1))).i2c (S.length - 1) :: rest := by
    generalize (firstPass S (List.replicate S.length (-1))).2 = order at hhead
    cases order with
    | nil => simp at hhead
    | cons a rest => simp at hhead; exact ⟨rest, by rw [hhead]⟩
  exact splitRS_mixed S second _ rest d hcover hrest hc0 hd hne

/-! ### non-vacuity: the machine on concrete graphs (tests, labelled as tests) -/

/-- path 0–1–2–3 (symmetric): the buckets visit every column; result C F C F -/
example : (firstPass [[1], [0, 2], [1, 3], [2]] (List.replicate 4 (-1))).2.length = 4 := by decide
example : splitRS [[1], [0, 2], [1, 3], [2]] true = [1, 0, 1, 0] := by decide
/-- directed 3-cycle: the second pass must not promote everything -/
example : splitRS [[1], [2], [0]] true = [1, 0, 1] := by decide
example : WF [[1], [2], [0]] ∧ dependents [[1], [2], [0]] 1 ≠ [] := by
  refine ⟨?_, by decide⟩
  intro v hv
  have : v = 0 ∨ v = 1 ∨ v = 2 := by simp at hv; omega
  rcases this with rfl | rfl | rfl <;> decide
/-- the hypotheses of `splitRS_mixed` are met by the 3-cycle: order 2,1,0 covers, column 2 has the dependent 1 -/
example : (∃ v, lab (splitRS [[1], [2], [0]] true) v = 1) ∧ (∃ v, lab (splitRS [[1], [2], [0]] true) v = 0) :=
  splitRS_mixed [[1], [2], [0]] true 2 [1, 0] 1 (by decide) (by decide) (by decide) (by decide) (by decide)
/-- a second pass that does promote: 0 and 1 depend on each other and on different coarse points -/
example : (firstPass [[1,2],[0,3],[],[],[2],[2],[3],[3]] (List.replicate 8 (-1))).1.labels = [0, 0, 1, 1, 0, 0, 0, 0] ∧
    splitRS [[1,2],[0,3],[],[],[2],[2],[3],[3]] true = [0, 1, 1, 1, 0, 0, 0, 0] := by decide +kernel
example : (firstPass [[1], [2], [0]] (List.replicate 3 (-1))).2 = [2, 1, 0] := by decide

end Raptor.RS
