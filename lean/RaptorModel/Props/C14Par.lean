import RaptorModel.Props.C14
/-!
# C14 — classical strength does not depend on the partition or on the local numbering

`par_strength.cpp` computes the strength rows rank by rank on rows stored in *local* numbering
(on-process block through `on_proc_column_map`, off-process block through `off_proc_column_map`),
the threshold of a row from the entries of both blocks.  Two facts make the result the global
strength matrix for every partition:

* `classicalRow_renumber` — the strength row is natural in the column numbering: renumbering the
  columns by any map that keeps "is the diagonal" and "same variable" commutes with `classicalRow`
  (values are never touched, the threshold is computed from values only);
* `classical_blocks` — the matrix routine is a map over rows, so the rows of any contiguous block of
  rows (taken with its first global row index) are the corresponding rows of the global result;
  concatenating the ranks' results in rank order gives `classical` of the whole matrix, empty ranks
  included (`classical_partition_indep` for two partitions).
-/
namespace Raptor.C14
open Raptor.Strength

variable {K : Type} [LT K] [DecidableLT K] [Neg K] [Mul K] [Zero K]

/-- column renumbering of a stored row -/
def renum (f : Nat → Nat) (row : List (Nat × K)) : List (Nat × K) := row.map fun e => (f e.1, e.2)

omit [LT K] [DecidableLT K] [Neg K] [Mul K] in
theorem splitDiag_renum (f : Nat → Nat) (i : Nat) (row : List (Nat × K))
    (hd : ∀ e ∈ row, (f e.1 == f i) = (e.1 == i)) :
    splitDiag (f i) (renum f row)
      = ((splitDiag i row).1.map fun e => (f e.1, e.2), (splitDiag i row).2.1, renum f (splitDiag i row).2.2) := by
  cases row with
  | nil => rfl
  | cons e rest =>
    obtain ⟨c, d⟩ := e
    have h := hd (c, d) List.mem_cons_self
    simp only [renum, List.map_cons, splitDiag]
    simp only at h
    rw [h]
    by_cases hc : (c == i) = true
    · simp [hc]
    · simp [hc]

/-- **the strength row is natural in the column numbering** -/
theorem classicalRow_renumber (big θ : K) (f : Nat → Nat) (i : Nat) (sv sv' : Nat → Bool) (row : List (Nat × K))
    (hd : ∀ e ∈ row, (f e.1 == f i) = (e.1 == i)) (hsv : ∀ e ∈ row, sv' (f e.1) = sv e.1) :
    classicalRow big θ (f i) sv' (renum f row) = renum f (classicalRow big θ i sv row) := by
  unfold classicalRow
  by_cases hemp : row = []
  · subst hemp; rfl
  · have h1 : (renum f row).isEmpty = false := by cases row <;> simp_all [renum]
    have h2 : row.isEmpty = false := by cases row <;> simp_all
    rw [h1, h2, splitDiag_renum f i row hd]
    simp only [Bool.false_eq_true, if_false]
    have hrest : ∀ e ∈ (splitDiag i row).2.2, e ∈ row := by
      intro e he
      cases row with
      | nil => simp [splitDiag] at he
      | cons e0 rest =>
        obtain ⟨c, d⟩ := e0
        simp only [splitDiag] at he
        split at he
        · exact List.mem_cons_of_mem _ he
        · exact he
    have hfil : (renum f (splitDiag i row).2.2).filter (fun e => sv' e.1)
        = renum f ((splitDiag i row).2.2.filter fun e => sv e.1) := by
      simp only [renum, List.filter_map]
      congr 1
      apply List.filter_congr
      intro e he
      exact hsv e (hrest e he)
    rw [hfil]
    have hvals : (renum f ((splitDiag i row).2.2.filter fun e => sv e.1)).map (·.2)
        = ((splitDiag i row).2.2.filter fun e => sv e.1).map (·.2) := by
      simp [renum, List.map_map, Function.comp_def]
    rw [hvals]
    simp only [renum, List.map_append, List.filter_map]
    congr 1
    cases (splitDiag i row).1 <;> rfl

/-- the matrix routine started at global row `first` (what a rank whose first row is `first` computes) -/
def classicalAt (big θ : K) (numVars first : Nat) (rows : List (List (Nat × K))) : List (List (Nat × K)) :=
  (rows.zipIdx first).map fun (row, i) =>
    classicalRow big θ i (fun j => numVars ≤ 1 || (i % numVars == j % numVars)) row

theorem classicalAt_zero (big θ : K) (numVars : Nat) (rows : List (List (Nat × K))) :
    classicalAt big θ numVars 0 rows = classical big θ numVars rows := rfl

theorem classicalAt_append (big θ : K) (numVars first : Nat) (r1 r2 : List (List (Nat × K))) :
    classicalAt big θ numVars first (r1 ++ r2)
      = classicalAt big θ numVars first r1 ++ classicalAt big θ numVars (first + r1.length) r2 := by
  simp [classicalAt, List.zipIdx_append]

/-- the ranks' results, each computed from its own block of rows and its first global row, in rank order -/
def classicalBlocks (big θ : K) (numVars : Nat) : Nat → List (List (List (Nat × K))) → List (List (Nat × K))
  | _, [] => []
  | first, blk :: rest => classicalAt big θ numVars first blk ++ classicalBlocks big θ numVars (first + blk.length) rest

/-- **row partition**: for every cut of the rows into contiguous blocks (empty blocks allowed) the concatenated
    per-rank results are the global strength matrix -/
theorem classical_blocks (big θ : K) (numVars first : Nat) (blocks : List (List (List (Nat × K)))) :
    classicalBlocks big θ numVars first blocks = classicalAt big θ numVars first blocks.flatten := by
  induction blocks generalizing first with
  | nil => rfl
  | cons blk rest ih => rw [classicalBlocks, ih, List.flatten_cons, classicalAt_append]

theorem classical_partition_indep (big θ : K) (numVars : Nat) (blocks blocks' : List (List (List (Nat × K))))
    (h : blocks.flatten = blocks'.flatten) :
    classicalBlocks big θ numVars 0 blocks = classicalBlocks big θ numVars 0 blocks' := by
  rw [classical_blocks, classical_blocks, h]

theorem classical_blocks_eq_global (big θ : K) (numVars : Nat) (blocks : List (List (List (Nat × K)))) :
    classicalBlocks big θ numVars 0 blocks = classical big θ numVars blocks.flatten := by
  rw [classical_blocks, classicalAt_zero]

/-- non-vacuity: a rank owning global rows/columns 2, 3 whose local row 1 (diagonal at local column 1) has one halo
    column (local index 2 ↦ global column 0); the hypotheses of `classicalRow_renumber` hold and both sides agree -/
example :
    let f : Nat → Nat := fun c => if c < 2 then c + 2 else 0
    let row : List (Nat × Int) := [(1, 4), (0, -1), (2, -2)]
    (∀ e ∈ row, (f e.1 == f 1) = (e.1 == 1)) ∧
      classicalRow (1000 : Int) 1 (f 1) (fun _ => true) (renum f row) = renum f (classicalRow 1000 1 1 (fun _ => true) row) := by
  decide
example : classicalBlocks (1000 : Int) 1 1 0 [[[(0, 2), (1, -1)]], [], [[(1, 2), (0, -1)]]]
    = classical 1000 1 1 [[(0, 2), (1, -1)], [(1, 2), (0, -1)]] := by decide

/-! ## the symmetric measure over a row partition

Every rank computes the row data (`rowInfo`: sign of the diagonal, threshold) of its own rows and
obtains those of its halo columns from their owners (a halo exchange of two numbers per row, C03).
`infosAt` is what a rank computes for its block; `infos_blocks`: in rank order these are the global
row data, so "the owner's value of column `j`" is `infos[j]`.  `symmetricAt` is the routine on a
block of rows given the row data of all columns it touches; `symmetric_blocks_eq_global`: the ranks'
results concatenate to `symmetric` of the whole matrix for every contiguous partition. -/

def infosAt (big θ : K) (first : Nat) (rows : List (List (Nat × K))) : List (Bool × K) :=
  (rows.zipIdx first).map fun (row, i) => if row.isEmpty then (false, (0 : K)) else rowInfo big θ i row

def symmetricAt (infos : List (Bool × K)) (first : Nat) (rows : List (List (Nat × K))) :
    List (List (Nat × K)) :=
  (rows.zipIdx first).map fun (row, i) =>
    if row.isEmpty then [] else
    let (dEntry, _, rest) := splitDiag i row
    let mine := infos.getD i (false, 0)
    dEntry.toList ++ rest.filter fun e =>
      let other := infos.getD e.1 (false, 0)
      passes mine.1 mine.2 e.2 || passes other.1 other.2 e.2

theorem symmetric_eq_at (big θ : K) (rows : List (List (Nat × K))) :
    symmetric big θ rows = symmetricAt (infosAt big θ 0 rows) 0 rows := rfl

theorem infosAt_append (big θ : K) (first : Nat) (r1 r2 : List (List (Nat × K))) :
    infosAt big θ first (r1 ++ r2) = infosAt big θ first r1 ++ infosAt big θ (first + r1.length) r2 := by
  simp [infosAt, List.zipIdx_append]

omit [Neg K] [Mul K] in
theorem symmetricAt_append (infos : List (Bool × K)) (first : Nat) (r1 r2 : List (List (Nat × K))) :
    symmetricAt infos first (r1 ++ r2)
      = symmetricAt infos first r1 ++ symmetricAt infos (first + r1.length) r2 := by
  simp [symmetricAt, List.zipIdx_append]

def infosBlocks (big θ : K) : Nat → List (List (List (Nat × K))) → List (Bool × K)
  | _, [] => []
  | first, blk :: rest => infosAt big θ first blk ++ infosBlocks big θ (first + blk.length) rest

def symmetricBlocks (infos : List (Bool × K)) : Nat → List (List (List (Nat × K))) → List (List (Nat × K))
  | _, [] => []
  | first, blk :: rest => symmetricAt infos first blk ++ symmetricBlocks infos (first + blk.length) rest

/-- the row data computed rank by rank are the global row data -/
theorem infos_blocks (big θ : K) (first : Nat) (blocks : List (List (List (Nat × K)))) :
    infosBlocks big θ first blocks = infosAt big θ first blocks.flatten := by
  induction blocks generalizing first with
  | nil => rfl
  | cons blk rest ih => rw [infosBlocks, ih, List.flatten_cons, infosAt_append]

omit [Neg K] [Mul K] in
theorem symmetric_blocks (infos : List (Bool × K)) (first : Nat) (blocks : List (List (List (Nat × K)))) :
    symmetricBlocks infos first blocks = symmetricAt infos first blocks.flatten := by
  induction blocks generalizing first with
  | nil => rfl
  | cons blk rest ih => rw [symmetricBlocks, ih, List.flatten_cons, symmetricAt_append]

/-- **the symmetric measure over any contiguous row partition** (empty ranks included): row data computed by the owners,
    strength rows computed by the ranks from their own rows and those data, concatenated in rank order = the global result -/
theorem symmetric_blocks_eq_global (big θ : K) (blocks : List (List (List (Nat × K)))) :
    symmetricBlocks (infosBlocks big θ 0 blocks) 0 blocks = symmetric big θ blocks.flatten := by
  rw [symmetric_blocks, infos_blocks, symmetric_eq_at]

theorem symmetric_partition_indep (big θ : K) (blocks blocks' : List (List (List (Nat × K))))
    (h : blocks.flatten = blocks'.flatten) :
    symmetricBlocks (infosBlocks big θ 0 blocks) 0 blocks
      = symmetricBlocks (infosBlocks big θ 0 blocks') 0 blocks' := by
  rw [symmetric_blocks_eq_global, symmetric_blocks_eq_global, h]

example : symmetricBlocks (infosBlocks (1000 : Int) 1 0 [[[(0, 2), (1, -1)]], [], [[(1, 2), (0, -1)]]]) 0
      [[[(0, 2), (1, -1)]], [], [[(1, 2), (0, -1)]]]
    = symmetric 1000 1 [[(0, 2), (1, -1)], [(1, 2), (0, -1)]] := by decide

end Raptor.C14
