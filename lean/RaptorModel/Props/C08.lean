import RaptorModel.Lemmas.SetupLemmas
import RaptorModel.Props.C06
import RaptorModel.Props.C13
import RaptorModel.Props.C15
/-!
# C08 — the hierarchy built by setup is conformal, Galerkin, and stops at a limit

Model: `RaptorModel/Model/Setup.lean` (`continue?`, `galerkin`, `setupLoop`, `setup`, `conformal`,
`stoppedAtLimit`). The prolongator builder is a parameter `prolong`; the two hypotheses on it are

* `GoodProlong prolong` : on a well-formed square operator `prolong A` is well formed and has one
  row per unknown of `A`;
* `Strict o prolong`    : on a well-formed square operator with more than `max_coarse` unknowns
  `prolong A` has fewer columns than rows (coarsening is strict).

`Consec H l c` (`Lemmas/SetupLemmas.lean`) says that level `l` is immediately followed by level `c`
in the hierarchy `H` (`H = pre ++ l :: c :: post`; index form `consec_iff_getElem?`).

Results (all for arbitrary fuel and arbitrary starting depth `k`)
1. structure: `setupLoop_ne_nil`, `setupLoop_head`, `setupLoop_last_P_none`,
   `setupLoop_consecutive_struct`, `setupLoop_nonlast_P_some`;
2. depth limit: `setupLoop_length_le`, `setup_length_le`;
3. shapes: `galerkin_shape`, `galerkin_WF`, `setupLoop_levels_WF`, `setupLoop_conformal`,
   `setup_conformal`, `workSize_eq`, `setupLoop_workSizes`;
4. Galerkin: `setupLoop_consecutive`, `setupLoop_galerkin`, `setup_galerkin`;
5. strict coarsening and termination: `setupLoop_sizes_strict`, `setupLoop_fuel_succ`,
   `setup_fuel_irrelevant`, `setupLoop_stops_at_limit`, `setup_stops_at_limit`,
   `setup_stoppedAtLimit`;
6. why coarsening is strict when the strength graph has an edge: `count_lt_of_pair`,
   `count_lt_of_independent`, `strict_of_labels`, `pmis_coarse_count_lt`,
   `pmis_coarse_count_lt_of_symm`,
   `pmis_coarse_count_lt_of_usableEdge`, `mis2_root_count_lt`, `mis2_roots_lt`,
   `mis2_aggregates_lt`;
7. a concrete run (4×4 path-graph Laplacian, pairwise aggregation), by `decide`.
-/
namespace Raptor.C08
open Raptor.Sparse Raptor.Spgemm Raptor.Setup Raptor.SetupLemmas

variable {K : Type}

/-! ## Hypotheses on the prolongator builder -/

/-- on a well-formed square operator the prolongator is well formed, one row per fine unknown -/
def GoodProlong (prolong : Csr K → Csr K) : Prop :=
  ∀ A : Csr K, A.WF = true → A.nRows = A.nCols →
    (prolong A).WF = true ∧ (prolong A).nRows = A.nRows

/-- coarsening is strict while the operator is larger than `max_coarse` -/
def Strict (o : Opts) (prolong : Csr K → Csr K) : Prop :=
  ∀ A : Csr K, A.WF = true → A.nRows = A.nCols → o.maxCoarse < A.nRows →
    (prolong A).nCols < A.nRows

/-! ## 1. Structure of the hierarchy -/
section Structure
variable [Add K] [Mul K] [Zero K] (big : K → Bool) (prolong : Csr K → Csr K) (o : Opts)

theorem setupLoop_ne_nil (fuel k : Nat) (A : Csr K) : setupLoop big prolong o fuel k A ≠ [] := by
  obtain ⟨P, rest, h⟩ := setupLoop_cons big prolong o fuel k A
  rw [h]
  exact List.cons_ne_nil _ _

theorem setupLoop_length_pos (fuel k : Nat) (A : Csr K) :
    1 ≤ (setupLoop big prolong o fuel k A).length := by
  obtain ⟨P, rest, h⟩ := setupLoop_cons big prolong o fuel k A
  rw [h]
  exact Nat.succ_le_succ (Nat.zero_le _)

/-- the first level holds the input operator -/
theorem setupLoop_head (fuel k : Nat) (A : Csr K) :
    ((setupLoop big prolong o fuel k A).head (setupLoop_ne_nil big prolong o fuel k A)).A = A := by
  obtain ⟨P, rest, h⟩ := setupLoop_cons big prolong o fuel k A
  have key : ∀ (H : List (HLevel K)) (hne : H ≠ []), H = ⟨A, P⟩ :: rest → (H.head hne).A = A := by
    intro H hne hH
    subst hH
    rfl
  exact key _ _ h

theorem setupLoop_head? (fuel k : Nat) (A : Csr K) :
    (setupLoop big prolong o fuel k A).head?.map (·.A) = some A := by
  obtain ⟨P, rest, h⟩ := setupLoop_cons big prolong o fuel k A
  rw [h]
  rfl

/-- the last level has no prolongator (`levels[last]->P == NULL`) -/
theorem setupLoop_last?_P_none : ∀ (fuel k : Nat) (A : Csr K) (l : HLevel K),
    (setupLoop big prolong o fuel k A).getLast? = some l → l.P = none
  | 0, k, A, l, h => by
    rw [setupLoop_zero, List.getLast?_singleton] at h
    cases h
    rfl
  | f + 1, k, A, l, h => by
    cases hc : continue? o A.nRows k with
    | true =>
      rw [setupLoop_succ_pos big prolong o hc] at h
      obtain ⟨P', rest, hT⟩ := setupLoop_cons big prolong o f (k + 1) (galerkin big A (prolong A))
      rw [hT, List.getLast?_cons_cons, ← hT] at h
      exact setupLoop_last?_P_none f (k + 1) _ l h
    | false =>
      rw [setupLoop_succ_neg big prolong o hc, List.getLast?_singleton] at h
      cases h
      rfl

theorem setupLoop_last_P_none (fuel k : Nat) (A : Csr K) :
    ((setupLoop big prolong o fuel k A).getLast (setupLoop_ne_nil big prolong o fuel k A)).P
      = none :=
  setupLoop_last?_P_none big prolong o fuel k A _ (List.getLast?_eq_some_getLast _)

/-- **structural lemma**: every level that has a successor stores `prolong` of its operator, and
    the successor's operator is the library's triple product (no hypothesis at all) -/
theorem setupLoop_consecutive_struct : ∀ (fuel k : Nat) (A : Csr K) (l c : HLevel K),
    Consec (setupLoop big prolong o fuel k A) l c →
      l.P = some (prolong l.A) ∧ c.A = galerkin big l.A (prolong l.A)
  | 0, k, A, l, c, h => absurd h (by rw [setupLoop_zero]; exact consec_singleton _ _ _)
  | f + 1, k, A, l, c, h => by
    cases hc : continue? o A.nRows k with
    | true =>
      rw [setupLoop_succ_pos big prolong o hc] at h
      obtain ⟨P', rest, hT⟩ := setupLoop_cons big prolong o f (k + 1) (galerkin big A (prolong A))
      rw [hT] at h
      rcases consec_cons_cons.mp h with ⟨rfl, rfl⟩ | h'
      · exact ⟨rfl, rfl⟩
      · rw [← hT] at h'
        exact setupLoop_consecutive_struct f (k + 1) _ l c h'
    | false =>
      rw [setupLoop_succ_neg big prolong o hc] at h
      exact absurd h (consec_singleton _ _ _)

/-- every level but the last has a prolongator -/
theorem setupLoop_nonlast_P_some (fuel k : Nat) (A : Csr K) (l c : HLevel K)
    (h : Consec (setupLoop big prolong o fuel k A) l c) : l.P.isSome = true := by
  rw [(setupLoop_consecutive_struct big prolong o fuel k A l c h).1]
  rfl

/-- index form: level `i` has a prolongator whenever level `i + 1` exists -/
theorem setupLoop_nonlast_P_some_idx (fuel k : Nat) (A : Csr K) (i : Nat) (l c : HLevel K)
    (hl : (setupLoop big prolong o fuel k A)[i]? = some l)
    (hc : (setupLoop big prolong o fuel k A)[i + 1]? = some c) :
    l.P = some (prolong l.A) ∧ c.A = galerkin big l.A (prolong l.A) :=
  setupLoop_consecutive_struct big prolong o fuel k A l c (consec_iff_getElem?.mpr ⟨i, hl, hc⟩)

/-! ## 2. The depth limit -/

/-- **depth limit**: started with `k` levels already built (`1 ≤ k ≤ max_levels`), the loop never
    brings the total above `max_levels` -/
theorem setupLoop_length_le {m : Nat} (hm : o.maxLevels = some m) : ∀ (fuel k : Nat) (A : Csr K),
    1 ≤ k → k ≤ m → k - 1 + (setupLoop big prolong o fuel k A).length ≤ m
  | 0, k, A, h1, hk => by
    rw [setupLoop_zero, List.length_singleton]
    omega
  | f + 1, k, A, h1, hk => by
    cases hc : continue? o A.nRows k with
    | true =>
      have hlt : k < m := ((continue?_iff o).mp hc).2 m hm
      have ih := setupLoop_length_le hm f (k + 1) (galerkin big A (prolong A)) (by omega) (by omega)
      rw [setupLoop_succ_pos big prolong o hc, List.length_cons]
      omega
    | false =>
      rw [setupLoop_succ_neg big prolong o hc, List.length_singleton]
      omega

/-- once the limit is reached nothing is added -/
theorem setupLoop_length_eq_one {m : Nat} (hm : o.maxLevels = some m) (fuel k : Nat) (A : Csr K)
    (hk : m ≤ k) : (setupLoop big prolong o fuel k A).length = 1 := by
  have hc : continue? o A.nRows k = false := (continue?_false_iff o).mpr (Or.inr ⟨m, hm, hk⟩)
  cases fuel with
  | zero => rfl
  | succ f => rw [setupLoop_succ_neg big prolong o hc, List.length_singleton]

/-- the hierarchy has at most `max_levels` levels (one level exists before the loop starts) -/
theorem setup_length_le {m : Nat} (hm : o.maxLevels = some m) (A : Csr K) :
    (setup big prolong o A).length ≤ max m 1 := by
  unfold setup
  by_cases h : 1 ≤ m
  · have := setupLoop_length_le big prolong o hm A.nRows 1 A (Nat.le_refl 1) h
    omega
  · have := setupLoop_length_eq_one big prolong o hm A.nRows 1 A (by omega)
    omega

theorem setup_length_pos (A : Csr K) : 1 ≤ (setup big prolong o A).length :=
  setupLoop_length_pos big prolong o _ _ _

end Structure

/-! ## 3. Shapes -/

/-- `Pᵀ(AP)` has one row and one column per column of `P` -/
theorem galerkin_shape [Add K] [Mul K] [Zero K] (big : K → Bool) (A P : Csr K) :
    (galerkin big A P).nRows = P.nCols ∧ (galerkin big A P).nCols = P.nCols := ⟨rfl, rfl⟩

/-- work vectors of a level have the size of its operator (definitional) -/
theorem workSize_eq (l : HLevel K) : workSize l = l.A.nRows := rfl

section Shapes
variable [CommSemiring K] (big : K → Bool) (prolong : Csr K → Csr K) (o : Opts)

theorem galerkin_WF (A P : Csr K) (hA : A.WF = true) (hP : P.WF = true) :
    (galerkin big A P).WF = true :=
  C06.spgemmT_WF big (csrToCsc P) (spgemm big A P) (SpgemmLemmas.csrToCsc_WF P hP)
    (C06.spgemm_WF big A P hA hP)

/-- every level's operator is well formed and square -/
theorem setupLoop_levels_WF (hg : GoodProlong prolong) : ∀ (fuel k : Nat) (A : Csr K),
    A.WF = true → A.nRows = A.nCols → ∀ l ∈ setupLoop big prolong o fuel k A,
      l.A.WF = true ∧ l.A.nRows = l.A.nCols
  | 0, k, A, hA, hsq, l, hl => by
    rw [setupLoop_zero, List.mem_singleton] at hl
    subst hl
    exact ⟨hA, hsq⟩
  | f + 1, k, A, hA, hsq, l, hl => by
    cases hc : continue? o A.nRows k with
    | true =>
      rw [setupLoop_succ_pos big prolong o hc, List.mem_cons] at hl
      rcases hl with rfl | hl
      · exact ⟨hA, hsq⟩
      · exact setupLoop_levels_WF hg f (k + 1) _ (galerkin_WF big A _ hA (hg A hA hsq).1) rfl l hl
    | false =>
      rw [setupLoop_succ_neg big prolong o hc, List.mem_singleton] at hl
      subst hl
      exact ⟨hA, hsq⟩

/-- **conformal**: `P` of a level has one row per unknown of the level and one column per unknown
    of the next, every operator is square, the last level has no `P` -/
theorem setupLoop_conformal (hg : GoodProlong prolong) : ∀ (fuel k : Nat) (A : Csr K),
    A.WF = true → A.nRows = A.nCols → conformal (setupLoop big prolong o fuel k A) = true
  | 0, k, A, hA, hsq => by
    rw [setupLoop_zero]
    show (Option.isNone (none : Option (Csr K)) && A.nRows == A.nCols) = true
    rw [hsq]
    simp only [Option.isNone_none, beq_self_eq_true, Bool.and_self]
  | f + 1, k, A, hA, hsq => by
    cases hc : continue? o A.nRows k with
    | true =>
      obtain ⟨hPwf, hPn⟩ := hg A hA hsq
      have ih := setupLoop_conformal hg f (k + 1) (galerkin big A (prolong A))
        (galerkin_WF big A _ hA hPwf) rfl
      obtain ⟨P', rest, hT⟩ := setupLoop_cons big prolong o f (k + 1) (galerkin big A (prolong A))
      rw [hT] at ih
      rw [setupLoop_succ_pos big prolong o hc, hT]
      show (((prolong A).nRows == A.nRows && (prolong A).nCols == (galerkin big A (prolong A)).nRows
        && (prolong A).WF) && A.nRows == A.nCols && conformal (⟨_, P'⟩ :: rest)) = true
      rw [ih, hPwf, hPn, hsq]
      show ((A.nCols == A.nCols && (prolong A).nCols == (prolong A).nCols && true)
        && A.nCols == A.nCols && true) = true
      simp only [beq_self_eq_true, Bool.and_self]
    | false =>
      rw [setupLoop_succ_neg big prolong o hc]
      show (Option.isNone (none : Option (Csr K)) && A.nRows == A.nCols) = true
      rw [hsq]
      simp only [Option.isNone_none, beq_self_eq_true, Bool.and_self]

theorem setup_conformal (hg : GoodProlong prolong) (A : Csr K) (hA : A.WF = true)
    (hsq : A.nRows = A.nCols) : conformal (setup big prolong o A) = true :=
  setupLoop_conformal big prolong o hg _ _ A hA hsq

/-! ## 4. The Galerkin identity -/

/-- **consecutive levels**: `l.P = prolong l.A`, `c.A = galerkin l.A l.P`, with `l.A` well formed
    and square (so that C06 applies) -/
theorem setupLoop_consecutive (hg : GoodProlong prolong) (fuel k : Nat) (A : Csr K)
    (hA : A.WF = true) (hsq : A.nRows = A.nCols) (l c : HLevel K)
    (h : Consec (setupLoop big prolong o fuel k A) l c) :
    l.P = some (prolong l.A) ∧ c.A = galerkin big l.A (prolong l.A) ∧
      l.A.WF = true ∧ l.A.nRows = l.A.nCols := by
  obtain ⟨h1, h2⟩ := setupLoop_consecutive_struct big prolong o fuel k A l c h
  obtain ⟨h3, h4⟩ := setupLoop_levels_WF big prolong o hg fuel k A hA hsq l (consec_mem_left h)
  exact ⟨h1, h2, h3, h4⟩

/-- sizes of the work vectors against the prolongator between two consecutive levels -/
theorem setupLoop_workSizes (hg : GoodProlong prolong) (fuel k : Nat) (A : Csr K)
    (hA : A.WF = true) (hsq : A.nRows = A.nCols) (l c : HLevel K)
    (h : Consec (setupLoop big prolong o fuel k A) l c) :
    ∃ P, l.P = some P ∧ P.WF = true ∧ P.nRows = workSize l ∧ P.nCols = workSize c ∧
      c.A.nCols = workSize c := by
  obtain ⟨h1, h2, h3, h4⟩ := setupLoop_consecutive big prolong o hg fuel k A hA hsq l c h
  obtain ⟨hPwf, hPn⟩ := hg l.A h3 h4
  refine ⟨prolong l.A, h1, hPwf, hPn, ?_, ?_⟩
  · rw [workSize_eq, h2]; rfl
  · rw [workSize_eq, h2]; rfl

/-- **Galerkin**: nothing dropped — the stored coarse operator is `Pᵀ A P` of the level above -/
theorem setupLoop_galerkin (hg : GoodProlong prolong) (fuel k : Nat) (A₀ : Csr K)
    (hA : A₀.WF = true) (hsq : A₀.nRows = A₀.nCols) (l c : HLevel K) (P : Csr K)
    (h : Consec (setupLoop (fun _ => true) prolong o fuel k A₀) l c) (hP : l.P = some P)
    (I J : Nat) :
    c.A.den I J = ((List.range P.nRows).map fun k =>
        ((List.range l.A.nCols).map fun m => P.den k I * l.A.den k m * P.den m J).sum).sum := by
  obtain ⟨h1, h2, h3, h4⟩ := setupLoop_consecutive _ prolong o hg fuel k A₀ hA hsq l c h
  rw [h1] at hP
  cases hP
  rw [h2]
  exact C06.galerkin_csrToCsc l.A (prolong l.A) h3 (hg l.A h3 h4).1 I J

/-- index form for `setup`: levels `i` and `i + 1` -/
theorem setup_galerkin (hg : GoodProlong prolong) (A₀ : Csr K)
    (hA : A₀.WF = true) (hsq : A₀.nRows = A₀.nCols) (i : Nat) (l c : HLevel K) (P : Csr K)
    (hl : (setup (fun _ => true) prolong o A₀)[i]? = some l)
    (hc : (setup (fun _ => true) prolong o A₀)[i + 1]? = some c) (hP : l.P = some P)
    (I J : Nat) :
    c.A.den I J = ((List.range P.nRows).map fun k =>
        ((List.range l.A.nCols).map fun m => P.den k I * l.A.den k m * P.den m J).sum).sum :=
  setupLoop_galerkin prolong o hg _ _ A₀ hA hsq l c P (consec_iff_getElem?.mpr ⟨i, hl, hc⟩) hP I J

/-! ## 5. Strict coarsening and termination -/

/-- a level with a successor was larger than `max_coarse` (and below the depth limit) -/
theorem setupLoop_consecutive_continue : ∀ (fuel k : Nat) (A : Csr K) (l c : HLevel K),
    Consec (setupLoop big prolong o fuel k A) l c → o.maxCoarse < l.A.nRows
  | 0, k, A, l, c, h => absurd h (by rw [setupLoop_zero]; exact consec_singleton _ _ _)
  | f + 1, k, A, l, c, h => by
    cases hc : continue? o A.nRows k with
    | true =>
      rw [setupLoop_succ_pos big prolong o hc] at h
      obtain ⟨P', rest, hT⟩ := setupLoop_cons big prolong o f (k + 1) (galerkin big A (prolong A))
      rw [hT] at h
      rcases consec_cons_cons.mp h with ⟨rfl, rfl⟩ | h'
      · exact ((continue?_iff o).mp hc).1
      · rw [← hT] at h'
        exact setupLoop_consecutive_continue f (k + 1) _ l c h'
    | false =>
      rw [setupLoop_succ_neg big prolong o hc] at h
      exact absurd h (consec_singleton _ _ _)

/-- **strict coarsening**: the number of unknowns decreases from a level to the next -/
theorem setupLoop_sizes_strict (hg : GoodProlong prolong) (hs : Strict o prolong) (fuel k : Nat)
    (A : Csr K) (hA : A.WF = true) (hsq : A.nRows = A.nCols) (l c : HLevel K)
    (h : Consec (setupLoop big prolong o fuel k A) l c) : c.A.nRows < l.A.nRows := by
  obtain ⟨_, h2, h3, h4⟩ := setupLoop_consecutive big prolong o hg fuel k A hA hsq l c h
  rw [h2]
  exact hs l.A h3 h4 (setupLoop_consecutive_continue big prolong o fuel k A l c h)

/-- one more unit of fuel changes nothing once the fuel covers the number of unknowns -/
theorem setupLoop_fuel_succ (hg : GoodProlong prolong) (hs : Strict o prolong) :
    ∀ (fuel k : Nat) (A : Csr K), A.WF = true → A.nRows = A.nCols → A.nRows ≤ fuel →
      setupLoop big prolong o (fuel + 1) k A = setupLoop big prolong o fuel k A
  | 0, k, A, hA, hsq, hle => by
    have h0 : A.nRows = 0 := Nat.le_zero.mp hle
    have hc : continue? o A.nRows k = false := by rw [h0]; exact continue?_zero o k
    rw [setupLoop_succ_neg big prolong o hc, setupLoop_zero]
  | f + 1, k, A, hA, hsq, hle => by
    cases hc : continue? o A.nRows k with
    | true =>
      obtain ⟨hPwf, _⟩ := hg A hA hsq
      have hlt : (prolong A).nCols < A.nRows := hs A hA hsq ((continue?_iff o).mp hc).1
      have ih := setupLoop_fuel_succ hg hs f (k + 1) (galerkin big A (prolong A))
        (galerkin_WF big A _ hA hPwf) rfl
        (by show (prolong A).nCols ≤ f; omega)
      rw [setupLoop_succ_pos big prolong o hc, setupLoop_succ_pos big prolong o hc, ih]
    | false =>
      rw [setupLoop_succ_neg big prolong o hc, setupLoop_succ_neg big prolong o hc]

theorem setupLoop_fuel_add (hg : GoodProlong prolong) (hs : Strict o prolong)
    (fuel k : Nat) (A : Csr K) (hA : A.WF = true) (hsq : A.nRows = A.nCols) (hle : A.nRows ≤ fuel) :
    ∀ extra, setupLoop big prolong o (fuel + extra) k A = setupLoop big prolong o fuel k A
  | 0 => rfl
  | e + 1 => by
    rw [← Nat.add_assoc, setupLoop_fuel_succ big prolong o hg hs (fuel + e) k A hA hsq (by omega)]
    exact setupLoop_fuel_add hg hs fuel k A hA hsq hle e

/-- **the fuel of the model never cuts the loop short**: the C++ `while` (which has no fuel) runs
    at most `A.nRows` times, any larger allowance gives the same hierarchy -/
theorem setup_fuel_irrelevant (hg : GoodProlong prolong) (hs : Strict o prolong)
    (k : Nat) (A : Csr K) (hA : A.WF = true) (hsq : A.nRows = A.nCols) (extra : Nat) :
    setupLoop big prolong o (A.nRows + extra) k A = setupLoop big prolong o A.nRows k A :=
  setupLoop_fuel_add big prolong o hg hs A.nRows k A hA hsq (Nat.le_refl _) extra

/-- `setup` is the loop run with any sufficient fuel -/
theorem setup_eq_of_fuel_ge (hg : GoodProlong prolong) (hs : Strict o prolong)
    (A : Csr K) (hA : A.WF = true) (hsq : A.nRows = A.nCols) (fuel : Nat) (h : A.nRows ≤ fuel) :
    setupLoop big prolong o fuel 1 A = setup big prolong o A := by
  obtain ⟨e, rfl⟩ := Nat.exists_eq_add_of_le h
  exact setup_fuel_irrelevant big prolong o hg hs 1 A hA hsq e

/-- **the loop stops for one of its two reasons**: with enough fuel the `while` condition is false
    on the last level (`k + length - 1` levels exist at that point) -/
theorem setupLoop_stops_at_limit (hg : GoodProlong prolong) (hs : Strict o prolong) :
    ∀ (fuel k : Nat) (A : Csr K), A.WF = true → A.nRows = A.nCols → A.nRows ≤ fuel →
      ∀ l, (setupLoop big prolong o fuel k A).getLast? = some l →
        continue? o l.A.nRows (k + (setupLoop big prolong o fuel k A).length - 1) = false
  | 0, k, A, hA, hsq, hle, l, hl => by
    have h0 : A.nRows = 0 := Nat.le_zero.mp hle
    rw [setupLoop_zero, List.getLast?_singleton] at hl
    cases hl
    show continue? o A.nRows _ = false
    rw [h0]
    exact continue?_zero o _
  | f + 1, k, A, hA, hsq, hle, l, hl => by
    cases hc : continue? o A.nRows k with
    | true =>
      obtain ⟨hPwf, _⟩ := hg A hA hsq
      have hlt : (prolong A).nCols < A.nRows := hs A hA hsq ((continue?_iff o).mp hc).1
      obtain ⟨P', rest, hT⟩ := setupLoop_cons big prolong o f (k + 1) (galerkin big A (prolong A))
      rw [setupLoop_succ_pos big prolong o hc] at hl ⊢
      rw [hT, List.getLast?_cons_cons, ← hT] at hl
      have ih := setupLoop_stops_at_limit hg hs f (k + 1) (galerkin big A (prolong A))
        (galerkin_WF big A _ hA hPwf) rfl (by show (prolong A).nCols ≤ f; omega) l hl
      rw [List.length_cons]
      have he : k + ((setupLoop big prolong o f (k + 1) (galerkin big A (prolong A))).length + 1) - 1
          = k + 1 + (setupLoop big prolong o f (k + 1) (galerkin big A (prolong A))).length - 1 := by
        omega
      rw [he]
      exact ih
    | false =>
      rw [setupLoop_succ_neg big prolong o hc] at hl ⊢
      rw [List.getLast?_singleton] at hl
      cases hl
      show continue? o A.nRows (k + 1 - 1) = false
      rw [Nat.add_sub_cancel]
      exact hc

/-- the same in the form `k - 1 + length` (`1 ≤ k` levels exist when the loop is entered):
    either the last operator has at most `max_coarse` unknowns or the depth limit is reached -/
theorem setup_stops_at_limit (hg : GoodProlong prolong) (hs : Strict o prolong)
    (fuel k : Nat) (A : Csr K) (hA : A.WF = true) (hsq : A.nRows = A.nCols) (hle : A.nRows ≤ fuel)
    (hk : 1 ≤ k) (l : HLevel K) (hl : (setupLoop big prolong o fuel k A).getLast? = some l) :
    continue? o l.A.nRows (k - 1 + (setupLoop big prolong o fuel k A).length) = false ∧
    (l.A.nRows ≤ o.maxCoarse ∨
      ∃ m, o.maxLevels = some m ∧ m ≤ k - 1 + (setupLoop big prolong o fuel k A).length) := by
  have h := setupLoop_stops_at_limit big prolong o hg hs fuel k A hA hsq hle l hl
  have he : k + (setupLoop big prolong o fuel k A).length - 1
      = k - 1 + (setupLoop big prolong o fuel k A).length := by omega
  rw [he] at h
  exact ⟨h, (continue?_false_iff o).mp h⟩

/-- **`setup` stops at the size limit or at the depth limit** -/
theorem setup_stoppedAtLimit (hg : GoodProlong prolong) (hs : Strict o prolong)
    (A : Csr K) (hA : A.WF = true) (hsq : A.nRows = A.nCols) :
    stoppedAtLimit o (setup big prolong o A) = true := by
  have hne : setup big prolong o A ≠ [] := setupLoop_ne_nil big prolong o _ _ _
  have hl := List.getLast?_eq_some_getLast hne
  have h := (setup_stops_at_limit big prolong o hg hs A.nRows 1 A hA hsq (Nat.le_refl _)
    (Nat.le_refl 1) _ hl).1
  unfold stoppedAtLimit
  rw [hl]
  show (!continue? o _ (setup big prolong o A).length) = true
  rw [Nat.sub_self, Nat.zero_add] at h
  show (!continue? o _ (setupLoop big prolong o A.nRows 1 A).length) = true
  rw [h]
  rfl

end Shapes

/-! ## 6. Why coarsening is strict when the strength graph has an edge -/
section Counting

/-- two positions that are not both labelled 1 -/
theorem count_lt_of_pair (L : List Int) {i j : Nat} (hi : i < L.length) (hj : j < L.length)
    (h : ¬ (L.getD i 0 = 1 ∧ L.getD j 0 = 1)) : L.countP (· == 1) < L.length := by
  apply countP_lt_length_of_exists
  by_cases h1 : L.getD i 0 = 1
  · have h2 : L.getD j 0 ≠ 1 := fun h2 => h ⟨h1, h2⟩
    refine ⟨L[j], List.getElem_mem hj, ?_⟩
    rw [getD_of_lt _ _ _ hj] at h2
    exact beq_false_of_ne h2
  · refine ⟨L[i], List.getElem_mem hi, ?_⟩
    rw [getD_of_lt _ _ _ hi] at h1
    exact beq_false_of_ne h1

/-- **pure counting**: on a graph with `n` vertices given by adjacency lists, if no two distinct
    adjacent vertices are both labelled 1 and there is an edge between two distinct vertices, then
    fewer than `n` vertices are labelled 1 -/
theorem count_lt_of_independent (S : List (List Nat)) (L : List Int) (n : Nat) (hlen : L.length = n)
    (hind : ∀ i j, i < n → j < n → i ≠ j → j ∈ S.getD i [] → ¬ (L.getD i 0 = 1 ∧ L.getD j 0 = 1))
    {i j : Nat} (hi : i < n) (hj : j < n) (hij : i ≠ j) (hadj : j ∈ S.getD i []) :
    L.countP (· == 1) < n := by
  subst hlen
  exact count_lt_of_pair L hi hj (hind i j hi hj hij hadj)

/-- the bridge to `Strict`: a builder whose prolongator has one column per point labelled 1 by a
    splitting `labels` is strict as soon as, on every operator still above `max_coarse`, two
    points are not both labelled 1 (which `count_lt_of_independent` derives from one edge of the
    strength graph and the independence of the splitting) -/
theorem strict_of_labels (o : Opts) (prolong : Csr K → Csr K) (labels : Csr K → List Int)
    (hcols : ∀ A, (prolong A).nCols = (labels A).countP (· == 1))
    (hlen : ∀ A, (labels A).length = A.nRows)
    (hpair : ∀ A : Csr K, A.WF = true → A.nRows = A.nCols → o.maxCoarse < A.nRows →
      ∃ i j, i < A.nRows ∧ j < A.nRows ∧ ¬ ((labels A).getD i 0 = 1 ∧ (labels A).getD j 0 = 1)) :
    Strict o prolong := by
  intro A hA hsq hlt
  obtain ⟨i, j, hi, hj, hn⟩ := hpair A hA hsq hlt
  rw [hcols, ← hlen A]
  exact count_lt_of_pair (labels A) (by rw [hlen]; exact hi) (by rw [hlen]; exact hj) hn

end Counting

/-! ### (a) PMIS: fewer coarse points than points -/
section PmisCount
variable {W : Type} [LinearOrder W] [Zero W] [One W] [Add W]

/-- two distinct vertices that strongly depend on each other: not every point is coarse
    (distinct initial weights, as in `C13.pmis_independent`) -/
theorem pmis_coarse_count_lt (S : Split.Graph) (rand : List W) (natCast : Nat → W)
    (hdist : ∀ i j, i < S.length → j < S.length →
      C13.w0 S rand natCast i = C13.w0 S rand natCast j → i = j)
    {i j : Nat} (hi : i < S.length) (hj : j < S.length) (hij : i ≠ j)
    (hadj : j ∈ S.getD i []) (hadj' : i ∈ S.getD j []) :
    (Split.pmis S rand natCast).countP (· == 1) < S.length := by
  have hlen := C13.pmis_length rand natCast S
  have := count_lt_of_pair (Split.pmis S rand natCast) (by rw [hlen]; exact hi)
    (by rw [hlen]; exact hj) (C13.pmis_independent rand natCast hdist hi hj hij hadj hadj')
  rwa [hlen] at this

/-- on a symmetric strength graph the coarse points are independent, so one edge between distinct
    vertices is enough (instance of `count_lt_of_independent`) -/
theorem pmis_coarse_count_lt_of_symm (S : Split.Graph) (rand : List W) (natCast : Nat → W)
    (hdist : ∀ i j, i < S.length → j < S.length →
      C13.w0 S rand natCast i = C13.w0 S rand natCast j → i = j)
    (hsym : ∀ i j, j ∈ S.getD i [] → i ∈ S.getD j [])
    {i j : Nat} (hi : i < S.length) (hj : j < S.length) (hij : i ≠ j) (hadj : j ∈ S.getD i []) :
    (Split.pmis S rand natCast).countP (· == 1) < S.length :=
  count_lt_of_independent S _ S.length (C13.pmis_length rand natCast S)
    (fun a b ha hb hab h => C13.pmis_independent rand natCast hdist ha hb hab h (hsym a b h))
    hi hj hij hadj

/-- the form used by setup: symmetric strength graph with the diagonal removed and in-range
    columns; `hasUsableEdge` (the graph has an edge) makes the coarse grid smaller -/
theorem pmis_coarse_count_lt_of_usableEdge (S : Split.Graph) (rand : List W) (natCast : Nat → W)
    (hdist : ∀ i j, i < S.length → j < S.length →
      C13.w0 S rand natCast i = C13.w0 S rand natCast j → i = j)
    (hsym : ∀ i j, j ∈ S.getD i [] → i ∈ S.getD j [])
    (hnoself : ∀ i, i ∉ S.getD i [])
    (hclosed : ∀ i j, j ∈ S.getD i [] → j < S.length)
    (hedge : Split.hasUsableEdge S = true) :
    (Split.pmis S rand natCast).countP (· == 1) < S.length := by
  obtain ⟨i, hi, j, hj, _⟩ := (C13.hasUsableEdge_iff S).mp hedge
  have hij : i ≠ j := fun h => hnoself i (h ▸ hj)
  exact pmis_coarse_count_lt_of_symm S rand natCast hdist hsym hi (hclosed i j hj) hij hj

end PmisCount

/-! ### (b) MIS-2: fewer roots, hence fewer aggregates, than points -/
section MisCount
open Raptor.Mis
variable {W : Type} [LinearOrder W] [Zero W]

/-- adjacent distinct vertices are within two edges of each other, so not both roots -/
theorem mis2_not_both_roots {S : Mis.Graph} {r : List W} (hl : SelfLoops S) (hs : Symm S)
    (hk : DistinctKeys S r) {i j : Nat} (hij : i ≠ j) (hadj : j ∈ S.getD i []) :
    ¬ ((mis2 S r).getD i 0 = 1 ∧ (mis2 S r).getD j 0 = 1) := by
  rintro ⟨h1, h2⟩
  exact hij (independent2_iff.mp (C15.mis2_independent hl hs hk) i j h1 h2
    (mem_within2.mpr (Or.inl hadj)))

/-- instance of `count_lt_of_independent` -/
theorem mis2_root_count_lt {S : Mis.Graph} {r : List W} (hl : SelfLoops S) (hs : Symm S)
    (hk : DistinctKeys S r) {i j : Nat} (hi : i < S.length) (hj : j < S.length) (hij : i ≠ j)
    (hadj : j ∈ S.getD i []) : (mis2 S r).countP (· == 1) < S.length :=
  count_lt_of_independent S _ S.length (C15.mis2_length S r)
    (fun _ _ _ _ hab h => mis2_not_both_roots hl hs hk hab h) hi hj hij hadj

/-- the list of roots is shorter than the list of vertices -/
theorem mis2_roots_lt {S : Mis.Graph} {r : List W} (hl : SelfLoops S) (hs : Symm S)
    (hk : DistinctKeys S r) {i j : Nat} (hi : i < S.length) (hj : j < S.length) (hij : i ≠ j)
    (hadj : j ∈ S.getD i []) : (roots (mis2 S r)).length < S.length := by
  have hnb := mis2_not_both_roots hl hs hk hij hadj
  have hlen := C15.mis2_length S r
  unfold roots
  rw [← List.countP_eq_length_filter, hlen]
  have := countP_lt_length_of_exists (fun v => lab (mis2 S r) v == 1) (List.range S.length) (by
    by_cases h1 : lab (mis2 S r) i = 1
    · exact ⟨j, List.mem_range.mpr hj, beq_false_of_ne fun h2 => hnb ⟨h1, h2⟩⟩
    · exact ⟨i, List.mem_range.mpr hi, beq_false_of_ne h1⟩)
  rwa [List.length_range] at this

/-- **fewer aggregates than points**: the distinct aggregate identifiers produced by `aggregate`
    on the MIS-2 labels are roots, so there are fewer of them than vertices -/
theorem mis2_aggregates_lt [Add W] {S : Mis.Graph} {absA : Nat → Nat → W} {r : List W}
    (hl : SelfLoops S) (hs : Symm S) (hc : Closed S) (hk : DistinctKeys S r)
    {i j : Nat} (hi : i < S.length) (hj : j < S.length) (hij : i ≠ j) (hadj : j ∈ S.getD i []) :
    (((aggregate S absA r (mis2 S r)).filterMap id).dedup).length < S.length := by
  refine Nat.lt_of_le_of_lt ?_ (mis2_roots_lt hl hs hk hi hj hij hadj)
  apply length_le_of_nodup_subset (List.nodup_dedup _)
  intro a ha
  rw [List.mem_dedup, List.mem_filterMap] at ha
  obtain ⟨x, hx, hxa⟩ := ha
  have hxa' : x = some a := hxa
  subst hxa'
  obtain ⟨v, hv, hva⟩ := List.getElem_of_mem hx
  have hlenA : (aggregate S absA r (mis2 S r)).length = S.length := by
    unfold aggregate pass2
    rw [List.length_map, List.length_range]
  have hget : (aggregate S absA r (mis2 S r)).getD v none = some a := by
    rw [getD_of_lt _ _ _ hv, hva]
  exact mem_roots.mpr (C15.aggregate_sound hl hc (hlenA ▸ hv) hget).1

end MisCount

/-! ## 7. A concrete run: 4×4 path-graph Laplacian, pairwise aggregation -/
section Example

/-- `tridiag(-1, 2, -1)` of size 4 -/
def exA : Csr Int :=
  ⟨4, 4, [[(0, 2), (1, -1)], [(0, -1), (1, 2), (2, -1)], [(1, -1), (2, 2), (3, -1)],
          [(2, -1), (3, 2)]]⟩

/-- pairwise aggregation: unknown `i` goes to aggregate `i / 2`
    (4 → 2: `[[(0,1)],[(0,1)],[(1,1)],[(1,1)]]`, then 2 → 1: `[[(0,1)],[(0,1)]]`) -/
def pairAgg (A : Csr Int) : Csr Int :=
  ⟨A.nRows, (A.nRows + 1) / 2, (List.range A.nRows).map fun i => [(i / 2, 1)]⟩

def exO1 : Opts := ⟨1, none⟩
def exO2 : Opts := ⟨0, some 2⟩
def exBig : Int → Bool := fun _ => true

example : pairAgg exA = ⟨4, 2, [[(0, 1)], [(0, 1)], [(1, 1)], [(1, 1)]]⟩ := by decide
example : exA.WF = true ∧ exA.nRows = exA.nCols ∧ hasEdge exA = true := by decide

/-- the hypotheses of the theorems are satisfiable -/
theorem pairAgg_good : GoodProlong pairAgg := by
  intro A _ _
  refine ⟨?_, rfl⟩
  rw [SpgemmLemmas.Csr.WF_iff]
  refine ⟨?_, ?_⟩
  · show ((List.range A.nRows).map fun i => [(i / 2, (1 : Int))]).length = A.nRows
    rw [List.length_map, List.length_range]
  · intro r hr e he
    have hr' : r ∈ (List.range A.nRows).map fun i => [(i / 2, (1 : Int))] := hr
    rw [List.mem_map] at hr'
    obtain ⟨i, hi, rfl⟩ := hr'
    rw [List.mem_singleton] at he
    subst he
    have := List.mem_range.mp hi
    show i / 2 < (A.nRows + 1) / 2
    omega

theorem pairAgg_strict (o : Opts) (h1 : 1 ≤ o.maxCoarse) : Strict o pairAgg := by
  intro A _ _ h
  show (A.nRows + 1) / 2 < A.nRows
  omega

/-- `max_coarse = 1`, no depth limit: 4 → 2 → 1 unknowns, three levels -/
example : (setup exBig pairAgg exO1 exA).length = 3 := by decide
example : (setup exBig pairAgg exO1 exA).map (·.A.nRows) = [4, 2, 1] := by decide
example : conformal (setup exBig pairAgg exO1 exA) = true := by decide
example : stoppedAtLimit exO1 (setup exBig pairAgg exO1 exA) = true := by decide
/-- hand-computed `PᵀAP`: `[[2,-1],[-1,2]]`, then `[[2]]` -/
example : (setup exBig pairAgg exO1 exA).map (fun l => (List.range l.A.nRows).map fun i =>
      (List.range l.A.nCols).map fun j => l.A.den i j)
    = [[[2, -1, 0, 0], [-1, 2, -1, 0], [0, -1, 2, -1], [0, 0, -1, 2]],
       [[2, -1], [-1, 2]],
       [[2]]] := by decide
example : (setup exBig pairAgg exO1 exA).map (·.P)
    = [some ⟨4, 2, [[(0, 1)], [(0, 1)], [(1, 1)], [(1, 1)]]⟩, some ⟨2, 1, [[(0, 1)], [(0, 1)]]⟩,
       none] := by decide

/-- `max_coarse = 0`, `max_levels = 2`: the depth limit stops the loop after one coarsening -/
example : (setup exBig pairAgg exO2 exA).length = 2 := by decide
example : (setup exBig pairAgg exO2 exA).map (·.A.nRows) = [4, 2] := by decide
example : conformal (setup exBig pairAgg exO2 exA) = true := by decide
example : stoppedAtLimit exO2 (setup exBig pairAgg exO2 exA) = true := by decide
example : (setup exBig pairAgg exO2 exA).map (fun l => (List.range l.A.nRows).map fun i =>
      (List.range l.A.nCols).map fun j => l.A.den i j)
    = [[[2, -1, 0, 0], [-1, 2, -1, 0], [0, -1, 2, -1], [0, 0, -1, 2]],
       [[2, -1], [-1, 2]]] := by decide

/-- the general theorems applied to the run -/
example : conformal (setup exBig pairAgg exO1 exA) = true :=
  setup_conformal exBig pairAgg exO1 pairAgg_good exA (by decide) (by decide)
example : stoppedAtLimit exO1 (setup exBig pairAgg exO1 exA) = true :=
  setup_stoppedAtLimit exBig pairAgg exO1 pairAgg_good (pairAgg_strict exO1 (by decide)) exA
    (by decide) (by decide)
example : (setup exBig pairAgg exO2 exA).length ≤ 2 :=
  setup_length_le exBig pairAgg exO2 (m := 2) rfl exA

/-- without strictness the depth limit is what stops the loop: `max_coarse = 0` can never be
    reached by pairwise aggregation (1 → 1), and with no depth limit the fuel would cut the loop -/
example : (setup exBig pairAgg ⟨0, none⟩ exA).length = 5
    ∧ stoppedAtLimit ⟨0, none⟩ (setup exBig pairAgg ⟨0, none⟩ exA) = false := by decide

end Example

end Raptor.C08
