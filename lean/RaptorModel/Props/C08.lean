import RaptorModel.Model.Setup
namespace Raptor.C08
theorem placeholder : (1 : Nat) = 1 := rfl
end Raptor.C08
