import RaptorModel.Lemmas.StrengthLemmas
import Mathlib.Algebra.Order.Field.Basic
/-!
# C14 — strength of connection

The strength matrix keeps the diagonal of every non-empty row (stored first), contains only entries
of `A` with their original values, and contains an off-diagonal entry exactly when it passes the
documented threshold test (`Model/Strength.lean`: `classical`, `symmetric`).

Most statements only use the order of `K` (the model compares, negates the sentinel and multiplies
by `θ`); the compatibility of order and arithmetic (`IsStrictOrderedRing`) is needed only where the
sentinel bound is stated with `|v| < big`.
-/
namespace Raptor.C14
open Raptor.Strength

/-- the column filter of `classical` for row `i` with `numVars` interleaved variables -/
def sameVar (numVars i : Nat) : Nat → Bool :=
  fun j => decide (numVars ≤ 1) || (i % numVars == j % numVars)

theorem sameVar_iff (numVars i j : Nat) :
    sameVar numVars i j = true ↔ numVars ≤ 1 ∨ i % numVars = j % numVars := by
  simp [sameVar]

theorem sameVar_scalar (numVars i j : Nat) (h : numVars ≤ 1) : sameVar numVars i j = true := by
  simp [sameVar, h]

section OrderOnly
variable {K : Type} [Field K] [LinearOrder K]

/-! ## 1. `rowScale` is the sentinel-started extreme -/

theorem rowScale_neg_eq_max (big : K) (offs : List K) :
    (∀ v ∈ offs, v ≤ rowScale true big offs) ∧ -big ≤ rowScale true big offs ∧
      (rowScale true big offs = -big ∨ rowScale true big offs ∈ offs) :=
  ⟨rowScale_true_ge_mem big offs, rowScale_true_ge_sentinel big offs,
    rowScale_true_eq_or_mem big offs⟩

theorem rowScale_pos_eq_min (big : K) (offs : List K) :
    (∀ v ∈ offs, rowScale false big offs ≤ v) ∧ rowScale false big offs ≤ big ∧
      (rowScale false big offs = big ∨ rowScale false big offs ∈ offs) :=
  ⟨rowScale_false_le_mem big offs, rowScale_false_le_sentinel big offs,
    rowScale_false_eq_or_mem big offs⟩

/-- weak-bound form: the sentinel does not interfere as soon as every value is `≥ -big` -/
theorem rowScale_true_of_ge (big : K) (offs : List K) (hne : offs ≠ [])
    (hb : ∀ v ∈ offs, -big ≤ v) : IsGreatest {v | v ∈ offs} (rowScale true big offs) :=
  rowScale_true_isGreatest big offs hne hb

theorem rowScale_false_of_le (big : K) (offs : List K) (hne : offs ≠ [])
    (hb : ∀ v ∈ offs, v ≤ big) : IsLeast {v | v ∈ offs} (rowScale false big offs) :=
  rowScale_false_isLeast big offs hne hb

/-- the same with core's `List.max?` -/
theorem rowScale_true_eq_max? (big : K) (offs : List K) (hne : offs ≠ [])
    (hb : ∀ v ∈ offs, -big ≤ v) : offs.max? = some (rowScale true big offs) := by
  have h := rowScale_true_isGreatest big offs hne hb
  exact List.max?_eq_some_iff.mpr ⟨h.1, fun b hb' => h.2 hb'⟩

theorem rowScale_false_eq_min? (big : K) (offs : List K) (hne : offs ≠ [])
    (hb : ∀ v ∈ offs, v ≤ big) : offs.min? = some (rowScale false big offs) := by
  have h := rowScale_false_isLeast big offs hne hb
  exact List.min?_eq_some_iff.mpr ⟨h.1, fun b hb' => h.2 hb'⟩

/-! ## 2–4. one row of the classical measure -/

/-- only entries of `A`, with their original values, in the original order -/
theorem classicalRow_sublist (big θ : K) (i : Nat) (sv : Nat → Bool) (row : List (Nat × K)) :
    (classicalRow big θ i sv row).Sublist row :=
  Raptor.Strength.classicalRow_sublist big θ i sv row

theorem classicalRow_mem (big θ : K) (i : Nat) (sv : Nat → Bool) (row : List (Nat × K))
    (e : Nat × K) (he : e ∈ classicalRow big θ i sv row) : e ∈ row :=
  (classicalRow_sublist big θ i sv row).subset he

/-- no entry is duplicated -/
theorem classicalRow_nodup (big θ : K) (i : Nat) (sv : Nat → Bool) (row : List (Nat × K))
    (h : row.Nodup) : (classicalRow big θ i sv row).Nodup :=
  (classicalRow_sublist big θ i sv row).nodup h

/-- no column is duplicated -/
theorem classicalRow_cols_nodup (big θ : K) (i : Nat) (sv : Nat → Bool) (row : List (Nat × K))
    (h : (row.map (·.1)).Nodup) : ((classicalRow big θ i sv row).map (·.1)).Nodup :=
  ((classicalRow_sublist big θ i sv row).map _).nodup h

/-- the diagonal of a non-empty row that stores it first is kept, with its value -/
theorem classicalRow_diag_kept (big θ : K) (i : Nat) (sv : Nat → Bool) (d : K)
    (rest : List (Nat × K)) :
    classicalRow big θ i sv ((i, d) :: rest) =
      (i, d) :: ((rest.filter fun e => sv e.1).filter fun e =>
        passes (decide (d < 0))
          (rowScale (decide (d < 0)) big ((rest.filter fun e => sv e.1).map (·.2)) * θ) e.2) :=
  classicalRow_diag_first big θ i sv d rest

theorem classicalRow_head (big θ : K) (i : Nat) (sv : Nat → Bool) (d : K)
    (rest : List (Nat × K)) : (classicalRow big θ i sv ((i, d) :: rest)).head? = some (i, d) := by
  rw [classicalRow_diag_kept]; rfl

/-- **the threshold test**, written as the model computes it -/
theorem classicalRow_mem_iff (big θ : K) (i : Nat) (sv : Nat → Bool) (d : K)
    (rest : List (Nat × K)) (e : Nat × K) (he : e ∈ rest) :
    e ∈ (classicalRow big θ i sv ((i, d) :: rest)).tail ↔
      sv e.1 = true ∧
        (if d < 0 then rowScale true big ((rest.filter fun x => sv x.1).map (·.2)) * θ < e.2
         else e.2 < rowScale false big ((rest.filter fun x => sv x.1).map (·.2)) * θ) := by
  rw [classicalRow_diag_kept, List.tail_cons, List.mem_filter, List.mem_filter]
  by_cases hd : d < 0 <;> simp [hd, he, passes]

/-- bounded corollary, negative diagonal: the threshold is `θ * max` of the candidate values -/
theorem classicalRow_mem_iff_max (big θ : K) (i : Nat) (sv : Nat → Bool) (d : K)
    (rest : List (Nat × K)) (e : Nat × K) (he : e ∈ rest) (hd : d < 0)
    (hb : ∀ x ∈ rest, sv x.1 = true → -big ≤ x.2) (M : K)
    (hM : IsGreatest {v | v ∈ (rest.filter fun x => sv x.1).map (·.2)} M) :
    e ∈ (classicalRow big θ i sv ((i, d) :: rest)).tail ↔ sv e.1 = true ∧ θ * M < e.2 := by
  have hne : (rest.filter fun x => sv x.1).map (·.2) ≠ [] := List.ne_nil_of_mem hM.1
  have hb' : ∀ v ∈ (rest.filter fun x => sv x.1).map (·.2), -big ≤ v := by
    intro v hv
    obtain ⟨x, hx, rfl⟩ := List.mem_map.mp hv
    obtain ⟨hx1, hx2⟩ := List.mem_filter.mp hx
    exact hb x hx1 hx2
  have hEq : rowScale true big ((rest.filter fun x => sv x.1).map (·.2)) = M :=
    (rowScale_true_isGreatest big _ hne hb').unique hM
  rw [classicalRow_mem_iff big θ i sv d rest e he, if_pos hd, hEq, mul_comm]

/-- bounded corollary, non-negative diagonal: the threshold is `θ * min` of the candidate values -/
theorem classicalRow_mem_iff_min (big θ : K) (i : Nat) (sv : Nat → Bool) (d : K)
    (rest : List (Nat × K)) (e : Nat × K) (he : e ∈ rest) (hd : ¬ d < 0)
    (hb : ∀ x ∈ rest, sv x.1 = true → x.2 ≤ big) (m : K)
    (hm : IsLeast {v | v ∈ (rest.filter fun x => sv x.1).map (·.2)} m) :
    e ∈ (classicalRow big θ i sv ((i, d) :: rest)).tail ↔ sv e.1 = true ∧ e.2 < θ * m := by
  have hne : (rest.filter fun x => sv x.1).map (·.2) ≠ [] := List.ne_nil_of_mem hm.1
  have hb' : ∀ v ∈ (rest.filter fun x => sv x.1).map (·.2), v ≤ big := by
    intro v hv
    obtain ⟨x, hx, rfl⟩ := List.mem_map.mp hv
    obtain ⟨hx1, hx2⟩ := List.mem_filter.mp hx
    exact hb x hx1 hx2
  have hEq : rowScale false big ((rest.filter fun x => sv x.1).map (·.2)) = m :=
    (rowScale_false_isLeast big _ hne hb').unique hm
  rw [classicalRow_mem_iff big θ i sv d rest e he, if_neg hd, hEq, mul_comm]

/-- both signs at once, without the sentinel: `M`/`m` are the greatest/least candidate value -/
theorem classicalRow_mem_iff_extreme (big θ : K) (i : Nat) (sv : Nat → Bool) (d : K)
    (rest : List (Nat × K)) (e : Nat × K) (he : e ∈ rest)
    (hb : ∀ x ∈ rest, sv x.1 = true → -big ≤ x.2 ∧ x.2 ≤ big) (M m : K)
    (hM : IsGreatest {v | v ∈ (rest.filter fun x => sv x.1).map (·.2)} M)
    (hm : IsLeast {v | v ∈ (rest.filter fun x => sv x.1).map (·.2)} m) :
    e ∈ (classicalRow big θ i sv ((i, d) :: rest)).tail ↔
      sv e.1 = true ∧ (if d < 0 then θ * M < e.2 else e.2 < θ * m) := by
  by_cases hd : d < 0
  · rw [if_pos hd]
    exact classicalRow_mem_iff_max big θ i sv d rest e he hd (fun x hx h => (hb x hx h).1) M hM
  · rw [if_neg hd]
    exact classicalRow_mem_iff_min big θ i sv d rest e he hd (fun x hx h => (hb x hx h).2) m hm

/-! ## 5. the classical strength matrix -/

theorem classical_length (big θ : K) (numVars : Nat) (rows : List (List (Nat × K))) :
    (classical big θ numVars rows).length = rows.length :=
  Raptor.Strength.classical_length big θ numVars rows

/-- row `i` of `classical` is `classicalRow` of row `i` of `A` -/
theorem classical_row (big θ : K) (numVars : Nat) (rows : List (List (Nat × K))) (i : Nat)
    (hi : i < rows.length) :
    (classical big θ numVars rows)[i]'(by rw [classical_length]; exact hi) =
      classicalRow big θ i (sameVar numVars i) rows[i] :=
  classical_getElem big θ numVars rows i hi

theorem classical_row_sublist (big θ : K) (numVars : Nat) (rows : List (List (Nat × K))) (i : Nat)
    (hi : i < rows.length) :
    ((classical big θ numVars rows)[i]'(by rw [classical_length]; exact hi)).Sublist rows[i] := by
  rw [classical_row big θ numVars rows i hi]
  exact classicalRow_sublist _ _ _ _ _

/-- every stored entry of the strength matrix is an entry of `A` with the same value -/
theorem classical_entry_of_A (big θ : K) (numVars : Nat) (rows : List (List (Nat × K))) (i : Nat)
    (hi : i < rows.length) (e : Nat × K)
    (he : e ∈ (classical big θ numVars rows)[i]'(by rw [classical_length]; exact hi)) :
    e ∈ rows[i] :=
  (classical_row_sublist big θ numVars rows i hi).subset he

theorem classical_diag_kept (big θ : K) (numVars : Nat) (rows : List (List (Nat × K))) (i : Nat)
    (hi : i < rows.length) (d : K) (rest : List (Nat × K)) (hrow : rows[i] = (i, d) :: rest) :
    ∃ kept, (classical big θ numVars rows)[i]'(by rw [classical_length]; exact hi) = (i, d) :: kept
      ∧ kept.Sublist rest := by
  rw [classical_row big θ numVars rows i hi, hrow, classicalRow_diag_kept]
  exact ⟨_, rfl, List.Sublist.trans List.filter_sublist List.filter_sublist⟩

theorem classical_mem_iff (big θ : K) (numVars : Nat) (rows : List (List (Nat × K))) (i : Nat)
    (hi : i < rows.length) (d : K) (rest : List (Nat × K)) (hrow : rows[i] = (i, d) :: rest)
    (e : Nat × K) (he : e ∈ rest) :
    e ∈ ((classical big θ numVars rows)[i]'(by rw [classical_length]; exact hi)).tail ↔
      (numVars ≤ 1 ∨ i % numVars = e.1 % numVars) ∧
        (if d < 0 then
          rowScale true big ((rest.filter fun x => sameVar numVars i x.1).map (·.2)) * θ < e.2
         else
          e.2 < rowScale false big ((rest.filter fun x => sameVar numVars i x.1).map (·.2)) * θ) := by
  rw [classical_row big θ numVars rows i hi, hrow, classicalRow_mem_iff big θ i _ d rest e he,
    sameVar_iff]

/-- bounded form, no sentinel: `M`/`m` are the greatest/least value among the candidates (the
    off-diagonals of row `i` in columns of the same variable). Such `M`, `m` exist iff there is at
    least one candidate. -/
theorem classical_mem_iff_extreme (big θ : K) (numVars : Nat) (rows : List (List (Nat × K)))
    (i : Nat) (hi : i < rows.length) (d : K) (rest : List (Nat × K))
    (hrow : rows[i] = (i, d) :: rest) (e : Nat × K) (he : e ∈ rest)
    (hb : ∀ x ∈ rest, sameVar numVars i x.1 = true → -big ≤ x.2 ∧ x.2 ≤ big) (M m : K)
    (hM : IsGreatest {v | v ∈ (rest.filter fun x => sameVar numVars i x.1).map (·.2)} M)
    (hm : IsLeast {v | v ∈ (rest.filter fun x => sameVar numVars i x.1).map (·.2)} m) :
    e ∈ ((classical big θ numVars rows)[i]'(by rw [classical_length]; exact hi)).tail ↔
      (numVars ≤ 1 ∨ i % numVars = e.1 % numVars) ∧
        (if d < 0 then θ * M < e.2 else e.2 < θ * m) := by
  rw [classical_row big θ numVars rows i hi, hrow,
    classicalRow_mem_iff_extreme big θ i _ d rest e he hb M m hM hm, sameVar_iff]

omit [Field K] in
/-- the hypotheses `hM`, `hm` of `classical_mem_iff_extreme` can be met as soon as row `i` has at
    least one candidate -/
theorem classical_extremes_exist (numVars i : Nat) (rest : List (Nat × K)) (x : Nat × K)
    (hx : x ∈ rest) (hsv : sameVar numVars i x.1 = true) :
    (∃ M, IsGreatest {v | v ∈ (rest.filter fun x => sameVar numVars i x.1).map (·.2)} M) ∧
      (∃ m, IsLeast {v | v ∈ (rest.filter fun x => sameVar numVars i x.1).map (·.2)} m) := by
  have hne : (rest.filter fun x => sameVar numVars i x.1).map (·.2) ≠ [] :=
    List.ne_nil_of_mem (List.mem_map_of_mem (List.mem_filter.mpr ⟨hx, hsv⟩))
  exact ⟨exists_isGreatest_of_ne_nil _ hne, exists_isLeast_of_ne_nil _ hne⟩

/-- the same with core's `List.max?` / `List.min?` of the candidate values -/
theorem classical_mem_iff_max_min (big θ : K) (numVars : Nat) (rows : List (List (Nat × K)))
    (i : Nat) (hi : i < rows.length) (d : K) (rest : List (Nat × K))
    (hrow : rows[i] = (i, d) :: rest) (e : Nat × K) (he : e ∈ rest)
    (hb : ∀ x ∈ rest, sameVar numVars i x.1 = true → -big ≤ x.2 ∧ x.2 ≤ big) (M m : K)
    (hM : ((rest.filter fun x => sameVar numVars i x.1).map (·.2)).max? = some M)
    (hm : ((rest.filter fun x => sameVar numVars i x.1).map (·.2)).min? = some m) :
    e ∈ ((classical big θ numVars rows)[i]'(by rw [classical_length]; exact hi)).tail ↔
      (numVars ≤ 1 ∨ i % numVars = e.1 % numVars) ∧
        (if d < 0 then θ * M < e.2 else e.2 < θ * m) := by
  have hM' := List.max?_eq_some_iff.mp hM
  have hm' := List.min?_eq_some_iff.mp hm
  exact classical_mem_iff_extreme big θ numVars rows i hi d rest hrow e he hb M m
    ⟨hM'.1, fun v hv => hM'.2 v hv⟩ ⟨hm'.1, fun v hv => hm'.2 v hv⟩

/-! ## 6. the symmetric strength matrix -/

theorem symmetric_length (big θ : K) (rows : List (List (Nat × K))) :
    (symmetric big θ rows).length = rows.length :=
  Raptor.Strength.symmetric_length big θ rows

theorem symmetric_row_sublist (big θ : K) (rows : List (List (Nat × K))) (i : Nat)
    (hi : i < rows.length) :
    ((symmetric big θ rows)[i]'(by rw [symmetric_length]; exact hi)).Sublist rows[i] := by
  rw [symmetric_getElem big θ rows i hi]
  exact symmetricRow_sublist _ _ _ _ _

theorem symmetric_entry_of_A (big θ : K) (rows : List (List (Nat × K))) (i : Nat)
    (hi : i < rows.length) (e : Nat × K)
    (he : e ∈ (symmetric big θ rows)[i]'(by rw [symmetric_length]; exact hi)) : e ∈ rows[i] :=
  (symmetric_row_sublist big θ rows i hi).subset he

theorem symmetric_diag_kept (big θ : K) (rows : List (List (Nat × K))) (i : Nat)
    (hi : i < rows.length) (d : K) (rest : List (Nat × K)) (hrow : rows[i] = (i, d) :: rest) :
    ∃ kept, (symmetric big θ rows)[i]'(by rw [symmetric_length]; exact hi) = (i, d) :: kept
      ∧ kept.Sublist rest := by
  rw [symmetric_getElem big θ rows i hi, hrow, symmetricRow_diag_first]
  exact ⟨_, rfl, List.filter_sublist⟩

/-- **the symmetric test**: kept iff it passes the test of its row or of its column's row -/
theorem symmetric_mem_iff (big θ : K) (rows : List (List (Nat × K))) (i : Nat)
    (hi : i < rows.length) (d : K) (rest : List (Nat × K)) (hrow : rows[i] = (i, d) :: rest)
    (e : Nat × K) (he : e ∈ rest) (hj : e.1 < rows.length) (hne : rows[e.1] ≠ []) :
    e ∈ ((symmetric big θ rows)[i]'(by rw [symmetric_length]; exact hi)).tail ↔
      passes (rowInfo big θ i rows[i]).1 (rowInfo big θ i rows[i]).2 e.2 = true ∨
        passes (rowInfo big θ e.1 rows[e.1]).1 (rowInfo big θ e.1 rows[e.1]).2 e.2 = true := by
  have h1 := infoTable_getD big θ rows i hi (by rw [hrow]; exact List.cons_ne_nil _ _)
  have h2 := infoTable_getD big θ rows e.1 hj hne
  rw [symmetric_getElem big θ rows i hi]
  rw [hrow] at h1 ⊢
  rw [symmetricRow_diag_first, List.tail_cons, List.mem_filter, h1, h2, Bool.or_eq_true]
  exact and_iff_right he

theorem rowInfo_diag_first (big θ : K) (k : Nat) (d : K) (rest : List (Nat × K)) :
    rowInfo big θ k ((k, d) :: rest) =
      (decide (d < 0), rowScale (decide (d < 0)) big (rest.map (·.2)) * θ) := by
  simp [rowInfo, splitDiag]

/-- the test of one row, spelled out -/
theorem passes_rowInfo_iff (big θ : K) (k : Nat) (d : K) (rest : List (Nat × K)) (v : K) :
    passes (rowInfo big θ k ((k, d) :: rest)).1 (rowInfo big θ k ((k, d) :: rest)).2 v = true ↔
      (if d < 0 then rowScale true big (rest.map (·.2)) * θ < v
       else v < rowScale false big (rest.map (·.2)) * θ) := by
  rw [rowInfo_diag_first]
  by_cases hd : d < 0 <;> simp [hd, passes]

/-- `symmetric_mem_iff` with both thresholds spelled out -/
theorem symmetric_mem_iff_thresholds (big θ : K) (rows : List (List (Nat × K))) (i : Nat)
    (hi : i < rows.length) (d : K) (rest : List (Nat × K)) (hrow : rows[i] = (i, d) :: rest)
    (e : Nat × K) (he : e ∈ rest) (hj : e.1 < rows.length) (d' : K) (rest' : List (Nat × K))
    (hrow' : rows[e.1] = (e.1, d') :: rest') :
    e ∈ ((symmetric big θ rows)[i]'(by rw [symmetric_length]; exact hi)).tail ↔
      (if d < 0 then rowScale true big (rest.map (·.2)) * θ < e.2
       else e.2 < rowScale false big (rest.map (·.2)) * θ) ∨
      (if d' < 0 then rowScale true big (rest'.map (·.2)) * θ < e.2
       else e.2 < rowScale false big (rest'.map (·.2)) * θ) := by
  rw [symmetric_mem_iff big θ rows i hi d rest hrow e he hj (by rw [hrow']; exact List.cons_ne_nil _ _),
    hrow, hrow', passes_rowInfo_iff, passes_rowInfo_iff]

/-! ## 7. sanity: `θ = 0` and `θ = 1` -/

/-- `θ = 0`, positive diagonal, negative off-diagonals: every candidate is kept -/
theorem classicalRow_theta_zero_keeps_negative (big : K) (i : Nat) (sv : Nat → Bool) (d : K)
    (rest : List (Nat × K)) (hd : 0 < d) (hneg : ∀ e ∈ rest, e.2 < 0) :
    classicalRow big 0 i sv ((i, d) :: rest) = (i, d) :: rest.filter fun e => sv e.1 := by
  rw [classicalRow_diag_kept]
  congr 1
  apply List.filter_eq_self.mpr
  intro e he
  have hd' : ¬ d < 0 := lt_asymm hd
  simp only [passes, hd', decide_false, mul_zero, Bool.false_eq_true, if_false, decide_eq_true_eq]
  exact hneg e (List.mem_filter.mp he).1

theorem classical_theta_zero_keeps_negative (big : K) (numVars : Nat)
    (rows : List (List (Nat × K))) (i : Nat) (hi : i < rows.length) (d : K)
    (rest : List (Nat × K)) (hrow : rows[i] = (i, d) :: rest) (hd : 0 < d)
    (hneg : ∀ e ∈ rest, e.2 < 0) :
    (classical big 0 numVars rows)[i]'(by rw [classical_length]; exact hi) =
      (i, d) :: rest.filter fun e => sameVar numVars i e.1 := by
  rw [classical_row big 0 numVars rows i hi, hrow,
    classicalRow_theta_zero_keeps_negative big i _ d rest hd hneg]

/-- scalar problem: the whole row is kept -/
theorem classical_theta_zero_keeps_row (big : K) (numVars : Nat) (hnv : numVars ≤ 1)
    (rows : List (List (Nat × K))) (i : Nat) (hi : i < rows.length) (d : K)
    (rest : List (Nat × K)) (hrow : rows[i] = (i, d) :: rest) (hd : 0 < d)
    (hneg : ∀ e ∈ rest, e.2 < 0) :
    (classical big 0 numVars rows)[i]'(by rw [classical_length]; exact hi) = rows[i] := by
  rw [classical_theta_zero_keeps_negative big numVars rows i hi d rest hrow hd hneg, hrow]
  congr 1
  exact List.filter_eq_self.mpr fun e _ => sameVar_scalar numVars i e.1 hnv

/-- `θ = 1`: comparisons are strict, so nothing can beat the extreme — no off-diagonal is kept -/
theorem classicalRow_theta_one_keeps_none (big : K) (i : Nat) (sv : Nat → Bool) (d : K)
    (rest : List (Nat × K)) : classicalRow big 1 i sv ((i, d) :: rest) = [(i, d)] := by
  rw [classicalRow_diag_kept]
  congr 1
  apply List.filter_eq_nil_iff.mpr
  intro e he
  have hv : e.2 ∈ (rest.filter fun x => sv x.1).map (·.2) := List.mem_map_of_mem he
  by_cases hd : d < 0
  · have := rowScale_true_ge_mem big _ e.2 hv
    simp only [passes, hd, decide_true, if_true, mul_one, decide_eq_true_eq]
    exact not_lt.mpr this
  · have := rowScale_false_le_mem big _ e.2 hv
    simp only [passes, hd, decide_false, Bool.false_eq_true, if_false, mul_one, decide_eq_true_eq]
    exact not_lt.mpr this

/-- `θ = 1`: an entry equal to the extreme of its row is NOT kept -/
theorem classical_theta_one_strict (big : K) (numVars : Nat) (rows : List (List (Nat × K)))
    (i : Nat) (hi : i < rows.length) (d : K) (rest : List (Nat × K))
    (hrow : rows[i] = (i, d) :: rest) (e : Nat × K)
    (_hext : e.2 = rowScale (decide (d < 0)) big
      ((rest.filter fun x => sameVar numVars i x.1).map (·.2))) :
    e ∉ ((classical big 1 numVars rows)[i]'(by rw [classical_length]; exact hi)).tail := by
  rw [classical_row big 1 numVars rows i hi, hrow, classicalRow_theta_one_keeps_none]
  exact List.not_mem_nil

/-- in fact with `θ = 1` only the diagonal survives -/
theorem classical_theta_one_only_diag (big : K) (numVars : Nat) (rows : List (List (Nat × K)))
    (i : Nat) (hi : i < rows.length) (d : K) (rest : List (Nat × K))
    (hrow : rows[i] = (i, d) :: rest) :
    (classical big 1 numVars rows)[i]'(by rw [classical_length]; exact hi) = [(i, d)] := by
  rw [classical_row big 1 numVars rows i hi, hrow, classicalRow_theta_one_keeps_none]

/-- general `θ`: an entry equal to the threshold itself is not kept (strict comparison) -/
theorem classicalRow_threshold_not_kept (big θ : K) (i : Nat) (sv : Nat → Bool) (d : K)
    (rest : List (Nat × K)) (e : Nat × K) (he : e ∈ rest)
    (heq : e.2 = rowScale (decide (d < 0)) big ((rest.filter fun x => sv x.1).map (·.2)) * θ) :
    e ∉ (classicalRow big θ i sv ((i, d) :: rest)).tail := by
  rw [classicalRow_mem_iff big θ i sv d rest e he]
  rintro ⟨_, h⟩
  by_cases hd : d < 0
  · rw [if_pos hd] at h
    simp only [hd, decide_true] at heq
    exact absurd h (heq ▸ lt_irrefl _)
  · rw [if_neg hd] at h
    simp only [hd, decide_false] at heq
    exact absurd h (heq ▸ lt_irrefl _)

end OrderOnly

section Bounded
variable {K : Type} [Field K] [LinearOrder K] [IsStrictOrderedRing K]

/-- if every `|v| < big` and `offs ≠ []` the result is the true maximum of `offs` -/
theorem rowScale_true_of_bounded (big : K) (offs : List K) (hne : offs ≠ [])
    (hb : ∀ v ∈ offs, |v| < big) : IsGreatest {v | v ∈ offs} (rowScale true big offs) :=
  rowScale_true_of_ge big offs hne fun v hv => (abs_lt.mp (hb v hv)).1.le

/-- if every `|v| < big` and `offs ≠ []` the result is the true minimum of `offs` -/
theorem rowScale_false_of_bounded (big : K) (offs : List K) (hne : offs ≠ [])
    (hb : ∀ v ∈ offs, |v| < big) : IsLeast {v | v ∈ offs} (rowScale false big offs) :=
  rowScale_false_of_le big offs hne fun v hv => (abs_lt.mp (hb v hv)).2.le

/-- `classical_mem_iff_extreme` with the bound stated as `|v| < big` -/
theorem classical_mem_iff_extreme_abs (big θ : K) (numVars : Nat) (rows : List (List (Nat × K)))
    (i : Nat) (hi : i < rows.length) (d : K) (rest : List (Nat × K))
    (hrow : rows[i] = (i, d) :: rest) (e : Nat × K) (he : e ∈ rest)
    (hb : ∀ x ∈ rest, sameVar numVars i x.1 = true → |x.2| < big) (M m : K)
    (hM : IsGreatest {v | v ∈ (rest.filter fun x => sameVar numVars i x.1).map (·.2)} M)
    (hm : IsLeast {v | v ∈ (rest.filter fun x => sameVar numVars i x.1).map (·.2)} m) :
    e ∈ ((classical big θ numVars rows)[i]'(by rw [classical_length]; exact hi)).tail ↔
      (numVars ≤ 1 ∨ i % numVars = e.1 % numVars) ∧
        (if d < 0 then θ * M < e.2 else e.2 < θ * m) :=
  classical_mem_iff_extreme big θ numVars rows i hi d rest hrow e he
    (fun x hx h => ⟨(abs_lt.mp (hb x hx h)).1.le, (abs_lt.mp (hb x hx h)).2.le⟩) M m hM hm

end Bounded

/-! ## examples (exact rationals, `θ = 1/2`, `big = 1000`) -/
section Examples

/-- a 3×3 M-matrix-like example; note `(2, -1)` in row 0 equals the threshold and is dropped -/
def exA : List (List (Nat × Rat)) :=
  [[(0, 4), (1, -2), (2, -1)],
   [(1, 4), (0, -2), (2, -3)],
   [(2, 4), (0, -5/4), (1, -3)]]

example : classical (1000 : Rat) (1/2) 1 exA =
    [[(0, 4), (1, -2)],
     [(1, 4), (0, -2), (2, -3)],
     [(2, 4), (1, -3)]] := by decide +kernel

/-- `(0, -5/4)` of row 2 fails its own test (`< -3/2`) but passes the test of row 0 (`< -1`) -/
example : symmetric (1000 : Rat) (1/2) exA =
    [[(0, 4), (1, -2)],
     [(1, 4), (0, -2), (2, -3)],
     [(2, 4), (0, -5/4), (1, -3)]] := by decide +kernel

/-- negative diagonal: the maximum is used and the comparison flips -/
example : classical (1000 : Rat) (1/2) 1 [[(0, -4), (1, 2), (2, 1)], [(1, -4), (0, 3)], []] =
    [[(0, -4), (1, 2)], [(1, -4), (0, 3)], []] := by decide +kernel

/-- two interleaved variables: only columns of the same parity are candidates -/
example : classical (1000 : Rat) (1/2) 2
    [[(0, 4), (1, -8), (2, -1)], [(1, 4), (0, -8), (2, -1)], [(2, 4), (0, -1), (1, -8)]] =
    [[(0, 4), (2, -1)], [(1, 4)], [(2, 4), (0, -1)]] := by decide +kernel

/-- over `Int`, `θ = 1`: only the diagonal survives (strict comparisons) -/
example : classical (1000 : Int) 1 1 [[(0, 4), (1, -2), (2, -1)], [(1, 4), (0, -2)], [(2, 4)]] =
    [[(0, 4)], [(1, 4)], [(2, 4)]] := by decide

example : symmetric (1000 : Int) 0 [[(0, 4), (1, -2), (2, 1)], [(1, 4), (0, -2)], [(2, -4), (0, 1)]] =
    [[(0, 4), (1, -2), (2, 1)], [(1, 4), (0, -2)], [(2, -4), (0, 1)]] := by decide

end Examples

/- OPEN (not proved): none — every target of C14 is proved above. -/

end Raptor.C14
