import RaptorModel.Model.Strength
namespace Raptor.C14
theorem placeholder : (1 : Nat) = 1 := rfl
end Raptor.C14
