import RaptorModel.Lemmas.CommLemmas
/-!
# C03 — the standard halo package delivers, and its reverse exchange is the adjoint

Theorems about the very functions of `RaptorModel/Model/Comm.lean`, for every number of ranks
`np`, every `first_cols` array `fc` that is valid (`FcOk`: length `np+1`, starts at 0,
non-decreasing — empty ranks allowed), every off-process column lists, every payload.

* `owner` is the unique rank whose range contains the column, and is monotone;
* `groupRuns` (the receive side) is a lossless run-length encoding; on a sorted list each proc
  appears in exactly one run and the run's size is the number of its columns;
* what a receiver expects from `p` is what `p` sends to it, for every arrival order of requests;
* `exchange = haloSpec` (slot `j` holds the owner's value of index `off r j`);
* the exchange is natural in the payload;
* the reverse exchange folds every contribution into the owner's entry and touches nothing else;
  its result does not depend on the arrival order for a right-commutative reduction;
* with sum, the reverse exchange is the exact adjoint of the forward exchange;
* a filtered package delivers the kept columns.

Helper lemmas are in `RaptorModel/Lemmas/CommLemmas.lean` (`FcOk` and `dot` are defined there).
-/
namespace Raptor.C03
open Raptor.Comm

/-! ## 1. `owner` -/

section Owner
variable {fc : List Nat} {np : Nat}

theorem owner_spec (h : FcOk fc np) {c : Nat} (hc : c < fc.getD np 0) :
    owner fc c < np ∧ fc.getD (owner fc c) 0 ≤ c ∧ c < fc.getD (owner fc c + 1) 0 :=
  owner_spec_aux h hc

theorem owner_unique (h : FcOk fc np) {c p : Nat} (hp : p < np)
    (h1 : fc.getD p 0 ≤ c) (h2 : c < fc.getD (p+1) 0) : p = owner fc c :=
  owner_unique_aux h hp h1 h2

theorem owner_mono (h : FcOk fc np) {c c' : Nat} (hcc : c ≤ c') (hc' : c' < fc.getD np 0) :
    owner fc c ≤ owner fc c' :=
  owner_mono_aux h hcc hc'

/-- `owner` stays inside `0..np-1` even for a column beyond the total (it then answers 0) -/
theorem owner_lt (hl : fc.length = np + 1) (hnp : 0 < np) (c : Nat) : owner fc c < np :=
  owner_lt_of_len hl hnp c

/-- a rank whose range is empty owns nothing -/
theorem owner_ne_of_empty (h : FcOk fc np) {c p : Nat} (hc : c < fc.getD np 0)
    (he : fc.getD p 0 = fc.getD (p+1) 0) : owner fc c ≠ p := by
  intro e
  have := owner_spec h hc
  rw [e] at this
  omega

end Owner

/-! ## 2. `groupRuns` -/

section GroupRuns

theorem groupRuns_expand (l : List Nat) :
    (groupRuns l).flatMap (fun m => List.replicate m.2 m.1) = l :=
  groupRuns_expand_aux l

theorem groupRuns_count_pos (l : List Nat) : ∀ m ∈ groupRuns l, 0 < m.2 :=
  groupRuns_pos l

/-- adjacent runs have different procs (the runs are maximal) -/
theorem groupRuns_adjacent_ne (l : List Nat) : (groupRuns l).IsChain (fun a b => a.1 ≠ b.1) :=
  groupRuns_chain l

/-- the same, by position -/
theorem groupRuns_adjacent_ne_get (l : List Nat) (i : Nat) (hi : i + 1 < (groupRuns l).length) :
    (groupRuns l)[i].1 ≠ (groupRuns l)[i+1].1 :=
  List.isChain_iff_getElem.1 (groupRuns_chain l) i hi

theorem groupRuns_procs (l : List Nat) (p : Nat) : p ∈ (groupRuns l).map Prod.fst ↔ p ∈ l :=
  mem_groupRuns_fst l p

theorem groupRuns_procs_lt (l : List Nat) (hs : l.Pairwise (· ≤ ·)) :
    ((groupRuns l).map Prod.fst).Pairwise (· < ·) :=
  groupRuns_sorted_lt l hs

/-- on a sorted list each proc appears in at most one run -/
theorem groupRuns_procs_nodup (l : List Nat) (hs : l.Pairwise (· ≤ ·)) :
    ((groupRuns l).map Prod.fst).Nodup :=
  (groupRuns_sorted_lt l hs).imp (fun h => Nat.ne_of_lt h)

/-- … and that run counts all the occurrences of the proc -/
theorem groupRuns_count_eq (l : List Nat) (hs : l.Pairwise (· ≤ ·)) {p k : Nat}
    (hm : (p, k) ∈ groupRuns l) : k = l.count p :=
  groupRuns_count l hs p k hm

theorem groupRuns_run_unique (l : List Nat) (hs : l.Pairwise (· ≤ ·)) {p k k' : Nat}
    (hm : (p, k) ∈ groupRuns l) (hm' : (p, k') ∈ groupRuns l) : k = k' := by
  rw [groupRuns_count l hs p k hm, groupRuns_count l hs p k' hm']

/-- key lemma of the forward exchange: for a sorted list `cols` and a monotone key `k`,
    concatenating, run by run, the columns that have that run's key gives `cols` back -/
theorem groupRuns_flatMap_filter_sorted (k : Nat → Nat) (hk : ∀ a b, a ≤ b → k a ≤ k b)
    (cols : List Nat) (hs : cols.Pairwise (· ≤ ·)) :
    (groupRuns (cols.map k)).flatMap (fun m => cols.filter (fun c => k c == m.1)) = cols :=
  groupRuns_flatMap_filter k cols (hs.map k hk)

end GroupRuns

/-! ## 3. the receive side of `r` and the send sides of the others agree -/

section Handshake
variable {fc : List Nat} {np : Nat}

/-- every receive message `(p, k)` of `r` has the size of what `r` asks `p` for, is non-empty, comes
    from a real rank that owns something; and `p`'s send message to `r` is exactly that request,
    whatever the order in which the requests arrived at `p` -/
theorem recv_matches_send (h : FcOk fc np) (off : List (List Nat)) (r : Nat)
    (hs : (off.getD r []).Pairwise (· ≤ ·)) (hb : ∀ c ∈ off.getD r [], c < fc.getD np 0) :
    (∀ p k, (p, k) ∈ recvSide fc (off.getD r []) →
        k = (request fc (off.getD r []) p).length ∧ 0 < k) ∧
    (∀ p order, r ∈ order → request fc (off.getD r []) p ≠ [] →
        (r, request fc (off.getD r []) p) ∈ sendSide fc off p order) := by
  constructor
  · intro p k hm
    exact (mem_recvSide_iff fc _ (owners_sorted h hs hb) p k).1 hm
  · intro p order hr hne
    exact (mem_sendSide_iff fc off p order r _).2 ⟨hr, rfl, hne⟩

/-- the two sides are in bijection: `p` has a send message `(r, req)` iff `r` has the receive
    message `(p, req.length)` and `req` is `r`'s request to `p` -/
theorem send_iff_recv (h : FcOk fc np) (off : List (List Nat)) (r : Nat)
    (hs : (off.getD r []).Pairwise (· ≤ ·)) (hb : ∀ c ∈ off.getD r [], c < fc.getD np 0)
    (p : Nat) (order : List Nat) (hr : r ∈ order) (req : List Nat) :
    (r, req) ∈ sendSide fc off p order ↔
      req = request fc (off.getD r []) p ∧ (p, req.length) ∈ recvSide fc (off.getD r []) := by
  rw [mem_sendSide_iff, mem_recvSide_iff fc _ (owners_sorted h hs hb)]
  constructor
  · rintro ⟨_, rfl, hne⟩
    exact ⟨rfl, rfl, List.length_pos_iff.2 hne⟩
  · rintro ⟨rfl, _, hpos⟩
    exact ⟨hr, rfl, List.length_pos_iff.1 hpos⟩

/-- senders of receive messages are real ranks with a non-empty range -/
theorem recv_proc_valid (h : FcOk fc np) (offR : List Nat)
    (hb : ∀ c ∈ offR, c < fc.getD np 0) {p k : Nat} (hm : (p, k) ∈ recvSide fc offR) :
    p < np ∧ fc.getD p 0 < fc.getD (p+1) 0 := by
  have hp : p ∈ (groupRuns (offR.map (owner fc))).map Prod.fst := List.mem_map_of_mem (f := Prod.fst) hm
  rw [mem_groupRuns_fst, List.mem_map] at hp
  obtain ⟨c, hc, rfl⟩ := hp
  have := owner_spec h (hb c hc)
  omega

/-- requested local indices are inside the owner's range -/
theorem request_in_range (h : FcOk fc np) (offR : List Nat)
    (hb : ∀ c ∈ offR, c < fc.getD np 0) (p : Nat) :
    ∀ i ∈ request fc offR p, i < fc.getD (p+1) 0 - fc.getD p 0 := by
  intro i hi
  unfold request at hi
  rw [List.mem_map] at hi
  obtain ⟨c, hc, rfl⟩ := hi
  rw [List.mem_filter] at hc
  have e : owner fc c = p := by simpa using hc.2
  have := owner_spec h (hb c hc.1)
  rw [e] at this
  omega

end Handshake

/-! ## 4. the forward exchange delivers -/

section Forward
variable {α : Type} {fc : List Nat} {np : Nat}

/-- it is enough that the owners of `off r` are sorted -/
theorem exchange_delivers_of_sorted_owners (d : α) (fc : List Nat) (off : List (List Nat))
    (x : List (List α)) (r : Nat) (hs : ((off.getD r []).map (owner fc)).Pairwise (· ≤ ·)) :
    exchange d fc off x r = haloSpec d fc off x r :=
  exchange_eq_spec_of_sorted d fc off x r hs

/-- **slot `j` of the receive buffer of `r` holds the owner's value of index `off r j`** -/
theorem exchange_delivers (h : FcOk fc np) (d : α) (off : List (List Nat)) (x : List (List α)) (r : Nat)
    (hs : (off.getD r []).Pairwise (· ≤ ·)) (hb : ∀ c ∈ off.getD r [], c < fc.getD np 0) :
    exchange d fc off x r = haloSpec d fc off x r :=
  exchange_eq_spec_of_sorted d fc off x r (owners_sorted h hs hb)

theorem exchange_length (h : FcOk fc np) (d : α) (off : List (List Nat)) (x : List (List α)) (r : Nat)
    (hs : (off.getD r []).Pairwise (· ≤ ·)) (hb : ∀ c ∈ off.getD r [], c < fc.getD np 0) :
    (exchange d fc off x r).length = (off.getD r []).length := by
  rw [exchange_delivers h d off x r hs hb]
  unfold haloSpec
  rw [List.length_map]

/-- the sortedness hypothesis is needed: on an unsorted list an owner gets two receive messages and
    the contiguous unpacking duplicates its columns -/
example : exchange 0 [0,2,4] [[], [0,3,1]] [[10,11],[12,13]] 1 ≠ haloSpec 0 [0,2,4] [[], [0,3,1]] [[10,11],[12,13]] 1 := by
  decide

/-! ## 5. naturality in the payload -/

theorem exchange_natural {β : Type} (f : α → β) (d : α) (fc : List Nat) (off : List (List Nat))
    (x : List (List α)) (r : Nat) :
    exchange (f d) fc off (x.map (List.map f)) r = (exchange d fc off x r).map f :=
  exchange_natural_aux f d fc off x r

/-- the identity payload (`globalIdx`: every rank holds the global indices of its range) is routed
    to itself: rank `r` receives exactly its list `off r` -/
theorem exchange_identity (h : FcOk fc np) (d : Nat) (off : List (List Nat)) (r : Nat)
    (hs : (off.getD r []).Pairwise (· ≤ ·)) (hb : ∀ c ∈ off.getD r [], c < fc.getD np 0) :
    exchange d fc off (globalIdx fc np) r = off.getD r [] := by
  rw [exchange_delivers h d off _ r hs hb]
  unfold haloSpec
  conv => rhs; rw [← List.map_id (off.getD r [])]
  apply List.map_congr_left
  intro c hc
  obtain ⟨h1, h2, h3⟩ := owner_spec h (hb c hc)
  rw [globalIdx_getD fc np h1, range'_getD d (by omega)]
  simp only [id_eq]
  omega

/-- an exchange that routes the identity payload correctly routes every payload: if the indices
    arrive as `off r`, then values `v` attached to the indices arrive as `(off r).map v`
    (no hypothesis on `fc`, `off`: this is what a test with an identity payload establishes) -/
theorem exchange_of_identity_routed (v : Nat → α) (d0 : Nat) (fc : List Nat) (off : List (List Nat))
    (idx : List (List Nat)) (r : Nat) (hid : exchange d0 fc off idx r = off.getD r []) :
    exchange (v d0) fc off (idx.map (List.map v)) r = (off.getD r []).map v := by
  rw [exchange_natural, hid]

end Forward

/-! ## 6. the reverse exchange -/

section Reverse
variable {α β : Type}

theorem exchangeT_length (f : β → α → β) (fc : List Nat) (off : List (List Nat)) (y : List (List α))
    (init : List β) (p : Nat) (order : List Nat) :
    (exchangeT f fc off y init p order).length = init.length :=
  foldl_modify_length f _ init

/-- entry `i` of the result is the initial entry into which every contribution for `i` has been
    folded, in message order — and nothing else -/
theorem exchangeT_get (f : β → α → β) (fc : List Nat) (off : List (List Nat)) (y : List (List α))
    (init : List β) (p : Nat) (order : List Nat) (i : Nat) (hi : i < init.length) :
    (exchangeT f fc off y init p order)[i]? =
      some (((revContribs fc off y p order).filter (fun c => c.1 == i)).foldl
        (fun b c => f b c.2) init[i]) := by
  unfold exchangeT
  rw [foldl_modify_getElem?, List.getElem?_eq_getElem hi]
  rfl

/-- an entry that receives no contribution is unchanged -/
theorem exchangeT_untouched (f : β → α → β) (fc : List Nat) (off : List (List Nat)) (y : List (List α))
    (init : List β) (p : Nat) (order : List Nat) (i : Nat)
    (hn : ∀ c ∈ revContribs fc off y p order, c.1 ≠ i) :
    (exchangeT f fc off y init p order)[i]? = init[i]? := by
  unfold exchangeT
  rw [foldl_modify_getElem?]
  have : (revContribs fc off y p order).filter (fun c => c.1 == i) = [] := by
    rw [List.filter_eq_nil_iff]
    intro c hc
    simpa using hn c hc
  rw [this]
  cases init[i]? <;> rfl

/-! ## 7. the arrival order does not matter for a right-commutative reduction -/

theorem exchangeT_order_indep (f : β → α → β) (hf : ∀ b a₁ a₂, f (f b a₁) a₂ = f (f b a₂) a₁)
    (fc : List Nat) (off : List (List Nat)) (y : List (List α)) (init : List β) (p : Nat)
    {order₁ order₂ : List Nat} (hp : order₁.Perm order₂) :
    exchangeT f fc off y init p order₁ = exchangeT f fc off y init p order₂ := by
  unfold exchangeT revContribs
  exact (hp.flatMap_right _).foldl_eq'
    (fun c1 _ c2 _ res => modify_comm_of_rightComm f hf res c1 c2) init

end Reverse

/-! ## 8. the reverse exchange with sum is the adjoint of the forward exchange -/

section Adjoint
variable {K : Type} [CommSemiring K] {fc : List Nat} {np : Nat}

/-- minimal hypotheses: only the length of `fc` matters (columns out of range are routed to rank 0
    by `owner` on both sides; entries out of a short `x p` read as 0 on one side and are dropped by
    `modify` on the other; `zip` truncates `y r` and `off r` alike) -/
theorem exchange_adjoint_general (hl : fc.length = np + 1) (off : List (List Nat)) (x y : List (List K)) :
    ((List.range np).map fun r => dot (haloSpec 0 fc off x r) (y.getD r [])).sum
      = ((List.range np).map fun p => dot (x.getD p [])
          (exchangeT (· + ·) fc off y (List.replicate (x.getD p []).length 0) p (List.range np))).sum :=
  adjoint_general fc np hl off x y

/-- `⟨halo(x), y⟩ = ⟨x, haloᵀ(y)⟩` -/
theorem exchange_adjoint (h : FcOk fc np) (off : List (List Nat)) (x y : List (List K))
    (_hoff : off.length = np) (_hb : ∀ r, ∀ c ∈ off.getD r [], c < fc.getD np 0)
    (_hx : x.length = np) (_hxl : ∀ p, p < np → (x.getD p []).length = fc.getD (p+1) 0 - fc.getD p 0)
    (_hy : ∀ r, r < np → (y.getD r []).length = (off.getD r []).length) :
    ((List.range np).map fun r => dot (haloSpec 0 fc off x r) (y.getD r [])).sum
      = ((List.range np).map fun p => dot (x.getD p [])
          (exchangeT (· + ·) fc off y (List.replicate (x.getD p []).length 0) p (List.range np))).sum :=
  adjoint_general fc np h.len off x y

/-- the same with the message-level `exchange` on the left, for sorted in-range `off` lists, and
    any arrival order of the reverse messages -/
theorem exchange_adjoint_msg (h : FcOk fc np) (off : List (List Nat)) (x y : List (List K))
    (hs : ∀ r, (off.getD r []).Pairwise (· ≤ ·)) (hb : ∀ r, ∀ c ∈ off.getD r [], c < fc.getD np 0)
    (order : List Nat) (ho : order.Perm (List.range np)) :
    ((List.range np).map fun r => dot (exchange 0 fc off x r) (y.getD r [])).sum
      = ((List.range np).map fun p => dot (x.getD p [])
          (exchangeT (· + ·) fc off y (List.replicate (x.getD p []).length 0) p order)).sum := by
  have e1 : ∀ r, exchange 0 fc off x r = haloSpec 0 fc off x r :=
    fun r => exchange_delivers h 0 off x r (hs r) (hb r)
  have e2 : ∀ p, exchangeT (· + ·) fc off y (List.replicate (x.getD p []).length 0) p order
      = exchangeT (· + ·) fc off y (List.replicate (x.getD p []).length 0) p (List.range np) :=
    fun p => exchangeT_order_indep (· + ·) (fun b a₁ a₂ => add_right_comm b a₁ a₂) fc off y _ p ho
  simp only [e1, e2]
  exact adjoint_general fc np h.len off x y

end Adjoint

/-! ## 9. a filtered package delivers the kept columns -/

section Filter
variable {α : Type} {fc : List Nat} {np : Nat}

theorem filter_delivers (h : FcOk fc np) (keep : Nat → Bool) (d : α) (off : List (List Nat))
    (x : List (List α)) (r : Nat)
    (hs : (off.getD r []).Pairwise (· ≤ ·)) (hb : ∀ c ∈ off.getD r [], c < fc.getD np 0) :
    exchange d fc (off.map (filterOff keep)) x r =
      ((off.getD r []).filter keep).map
        (fun c => (x.getD (owner fc c) []).getD (c - fc.getD (owner fc c) 0) d) := by
  have e : (off.map (filterOff keep)).getD r [] = (off.getD r []).filter keep :=
    getD_map_nil (filterOff keep) rfl off r
  have := exchange_delivers h d (off.map (filterOff keep)) x r
    (by rw [e]; exact hs.filter keep)
    (by rw [e]; intro c hc; exact hb c (List.mem_filter.1 hc).1)
  rw [this]
  unfold haloSpec
  rw [e]

/-- the same, as the kept slots of the unfiltered specification -/
theorem filter_delivers_slots (h : FcOk fc np) (keep : Nat → Bool) (d : α) (off : List (List Nat))
    (x : List (List α)) (r : Nat)
    (hs : (off.getD r []).Pairwise (· ≤ ·)) (hb : ∀ c ∈ off.getD r [], c < fc.getD np 0) :
    exchange d fc (off.map (filterOff keep)) x r =
      ((((off.getD r []).zip (haloSpec d fc off x r)).filter (fun cv => keep cv.1)).map Prod.snd) := by
  rw [filter_delivers h keep d off x r hs hb]
  unfold haloSpec
  generalize off.getD r [] = cols
  induction cols with
  | nil => rfl
  | cons c t ih =>
    by_cases hk : keep c = true
    · simp only [List.filter_cons, hk, if_true, List.map_cons, List.zip_cons_cons, ih]
    · simp only [List.filter_cons, hk, Bool.false_eq_true, if_false, List.map_cons,
        List.zip_cons_cons, ih]

end Filter

/-! ## concrete instance: 3 ranks, rank 1 empty -/

section Examples

/-- `fc = [0,2,2,5]`, `off = [[2,4],[0,3],[0,1]]`, `x = [[10,11],[],[12,13,14]]` -/
example : FcOk [0,2,2,5] 3 := ⟨rfl, rfl, by decide⟩

example : (List.range 5).map (owner [0,2,2,5]) = [0,0,2,2,2] := by decide
example : globalIdx [0,2,2,5] 3 = [[0,1],[],[2,3,4]] := by decide
example : (List.range 3).map (exchange 0 [0,2,2,5] [[2,4],[0,3],[0,1]] (globalIdx [0,2,2,5] 3))
    = [[2,4],[0,3],[0,1]] := by decide
example : recvSide [0,2,2,5] [0,1] = [(0,2)] := by decide
example : recvSide [0,2,2,5] [0,3] = [(0,1),(2,1)] := by decide
example : sendSide [0,2,2,5] [[2,4],[0,3],[0,1]] 0 [2,0,1] = [(2,[0,1]),(1,[0])] := by decide

example : (List.range 3).map (exchange 0 [0,2,2,5] [[2,4],[0,3],[0,1]] [[10,11],[],[12,13,14]])
    = [[12,14],[10,13],[10,11]] := by decide
example : ∀ r ∈ List.range 3,
    exchange 0 [0,2,2,5] [[2,4],[0,3],[0,1]] [[10,11],[],[12,13,14]] r
      = haloSpec 0 [0,2,2,5] [[2,4],[0,3],[0,1]] [[10,11],[],[12,13,14]] r := by decide

/-- reverse exchange with sum, `y = [[1,2],[3,4],[5,6]]` -/
example : exchangeT (· + ·) [0,2,2,5] [[2,4],[0,3],[0,1]] [[1,2],[3,4],[5,6]] [0,0] 0 [0,1,2] = [8,6] := by
  decide
example : exchangeT (· + ·) [0,2,2,5] [[2,4],[0,3],[0,1]] [[1,2],[3,4],[5,6]] [0,0] 0 [2,1,0] = [8,6] := by
  decide
example : exchangeT (· + ·) [0,2,2,5] [[2,4],[0,3],[0,1]] [[1,2],[3,4],[5,6]] ([] : List Nat) 1 [0,1,2] = [] := by
  decide
example : exchangeT (· + ·) [0,2,2,5] [[2,4],[0,3],[0,1]] [[1,2],[3,4],[5,6]] [0,0,0] 2 [0,1,2] = [1,4,2] := by
  decide
/-- a non-commutative reduction does depend on the arrival order -/
example : exchangeT (fun _ a => a) [0,2,2,5] [[2,4],[0,3],[0,1]] [[1,2],[3,4],[5,6]] [0,0] 0 [1,2]
    ≠ exchangeT (fun _ a => a) [0,2,2,5] [[2,4],[0,3],[0,1]] [[1,2],[3,4],[5,6]] [0,0] 0 [2,1] := by
  decide

/-- both sides of the adjoint identity: 238 -/
example : ((List.range 3).map fun r => dot (haloSpec (0:Nat) [0,2,2,5] [[2,4],[0,3],[0,1]] [[10,11],[],[12,13,14]] r)
      (([[1,2],[3,4],[5,6]] : List (List Nat)).getD r [])).sum = 238 := by
  decide
example : ((List.range 3).map fun p => dot (([[10,11],[],[12,13,14]] : List (List Nat)).getD p [])
      (exchangeT (· + ·) [0,2,2,5] [[2,4],[0,3],[0,1]] [[1,2],[3,4],[5,6]]
        (List.replicate (([[10,11],[],[12,13,14]] : List (List Nat)).getD p []).length 0) p (List.range 3))).sum = 238 := by
  decide
example : dot ([10,11] : List Nat) [8,6] + dot ([] : List Nat) [] + dot ([12,13,14] : List Nat) [1,4,2] = 238 := by
  decide

/-- filtered package (keep the even columns) -/
example : (List.range 3).map (exchange 0 [0,2,2,5] ([[2,4],[0,3],[0,1]].map (filterOff (· % 2 == 0)))
    [[10,11],[],[12,13,14]]) = [[12,14],[10],[10]] := by decide

end Examples

end Raptor.C03

/- OPEN (not proved): none — all nine targets are proved in full generality. -/
