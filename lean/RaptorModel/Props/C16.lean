import RaptorModel.Model.Basic
namespace Raptor.C16
theorem placeholder : (1 : Nat) = 1 := rfl
end Raptor.C16
