import RaptorModel.Lemmas.CandLemmas
/-!
# C16 — the tentative prolongator reproduces the candidate, has unit-norm disjoint columns, and
prolongator smoothing is an iterated weighted-Jacobi step

Model: `Model/Candidates.lean` (`members`, `coarseCandidate`, `tentative`, `smoothStep`).
`agg i` is the aggregate of vertex `i` (`none` = not aggregated), `B` the near-null-space
candidate, `R[c] = coarseCandidate tol agg B c`, `T[i, agg i] = tentative tol agg B i`.

The norm statements are over `ℝ` with `SqrtOp.sqrt = Real.sqrt`, `AbsOp.abs = |·|` (the scoped
instances of `Raptor.Candidates`, `Lemmas/CandLemmas.lean`); the order/equality tests of the model
are decided by Mathlib's `Real.decidableLT` / `Real.decidableEq`. The statements about `smoothStep`
hold over any type `K` carrying the operator classes the model asks for (no algebraic law is used).
Aggregations, candidates, matrices and prolongators are arbitrary lists (any size, out-of-range
indices allowed).

## What is proved (numbers = targets of the task)

7.  `foldl_eq_sum`, `foldl_sq_nonneg`, `coarseCandidate_nonneg`.
8.  `T_R_eq_B` — `T R = B` on every vertex of an aggregate with non-zero restriction, for every
    `tol < 1` (the sign of `tol` is irrelevant); `T_R_degenerate` — on an aggregate whose
    restriction is zero both `R[c]` and the entries of `T` are 0.
9.  `T_unit_norm` — the column of such an aggregate has unit Euclidean norm.
10. `T_supported`, `T_none`, `T_disjoint`, `members_disjoint`, `members_nodup`.
11. `smoothStep_length`, `smoothStep_row_length`, `smoothStep_row` (left-fold form, any `K`),
    `smoothStep_row_sum` (`List.sum` form, over `ℝ`).
12. `smooth`, `smooth_zero`, `smooth_iter`, `smooth_length`, `smooth_row_length`.
13. `example`s: `agg = [some 0, some 0, some 1]`, `B = [3, 4, 1]` gives `R[0] = 5`,
    `T[0,0] = 3/5`, `T[1,0] = 4/5`, and the unit norm of column 0.
-/

namespace Raptor.C16
open Raptor.Candidates

noncomputable section

/-! ## 7. the candidate norm -/

/-- the model's sum-of-squares left fold is the `List.sum` of the squares -/
theorem foldl_eq_sum (B : List ℝ) (l : List Nat) :
    l.foldl (fun s i => s + B.getD i 0 * B.getD i 0) 0
      = (l.map fun k => B.getD k 0 * B.getD k 0).sum :=
  Candidates.foldl_eq_sum B l

/-- the sum-of-squares fold is non-negative -/
theorem foldl_sq_nonneg (B : List ℝ) (l : List Nat) :
    0 ≤ l.foldl (fun s i => s + B.getD i 0 * B.getD i 0) 0 :=
  Candidates.foldl_sq_nonneg B l

/-- `R[c] ≥ 0` for every tolerance, aggregation and candidate -/
theorem coarseCandidate_nonneg (tol : ℝ) (agg : List (Option Nat)) (B : List ℝ) (c : Nat) :
    0 ≤ coarseCandidate tol agg B c := by
  rw [coarseCandidate_eq]
  split
  · exact Real.sqrt_nonneg _
  · exact le_refl _

/-! ## 8. `T R = B` -/

/-- `T R = B` on a vertex whose aggregate has non-zero restriction: `T[i,c] * R[c] = B[i]` -/
theorem T_R_eq_B {tol : ℝ} (agg : List (Option Nat)) (B : List ℝ) {i c : Nat} (htol : tol < 1)
    (hi : agg.getD i none = some c)
    (hS : 0 < (members agg c).foldl (fun s k => s + B.getD k 0 * B.getD k 0) 0) :
    ∃ t, tentative tol agg B i = some (c, t) ∧ t * coarseCandidate tol agg B c = B.getD i 0 := by
  have hS' : 0 < sqFold B (members agg c) := hS
  have hne : √(sqFold B (members agg c)) ≠ 0 := (Real.sqrt_pos.mpr hS').ne'
  refine ⟨_, tentative_pos B htol hi hS', ?_⟩
  rw [coarseCandidate_pos agg B c htol hS', mul_assoc, one_div, inv_mul_cancel₀ hne, mul_one]

/-- on an aggregate whose restriction is zero, `R[c] = 0` and the entry of `T` is 0 -/
theorem T_R_degenerate (tol : ℝ) (agg : List (Option Nat)) (B : List ℝ) {i c : Nat}
    (hi : agg.getD i none = some c)
    (hS : (members agg c).foldl (fun s k => s + B.getD k 0 * B.getD k 0) 0 = 0) :
    tentative tol agg B i = some (c, 0) ∧ coarseCandidate tol agg B c = 0 := by
  have hS' : sqFold B (members agg c) = 0 := hS
  refine ⟨?_, coarseCandidate_zero tol agg B c hS'⟩
  rw [tentative_eq tol B hi, if_neg (test_zero (le_of_eq hS')), mul_zero]

/-! ## 9. unit-norm columns -/

/-- the column of an aggregate with non-zero restriction has unit norm: `Σ_{k ∈ c} T[k,c]² = 1` -/
theorem T_unit_norm {tol : ℝ} (agg : List (Option Nat)) (B : List ℝ) (c : Nat) (htol : tol < 1)
    (hS : 0 < (members agg c).foldl (fun s k => s + B.getD k 0 * B.getD k 0) 0) :
    ((members agg c).map fun k => Tval tol agg B k ^ 2).sum = 1 := by
  have hS' : 0 < sqFold B (members agg c) := hS
  have hcongr : ∀ k ∈ members agg c,
      Tval tol agg B k ^ 2 = (B.getD k 0 * B.getD k 0) * (1 / sqFold B (members agg c)) := by
    intro k hk
    rw [Tval_of_mem B htol hk hS', mul_pow, div_pow, one_pow, Real.sq_sqrt hS'.le, sq]
  rw [List.map_congr_left hcongr, List.sum_map_mul_right, ← Candidates.foldl_eq_sum]
  exact mul_one_div_cancel hS'.ne'

/-- `Tval` is the second component of `tentative` -/
theorem Tval_eq {tol : ℝ} {agg : List (Option Nat)} {B : List ℝ} {i c : Nat} {t : ℝ}
    (h : tentative tol agg B i = some (c, t)) : Tval tol agg B i = t := by
  simp [Tval, h]

/-! ## 10. support of `T` -/

/-- the only entry of row `i` of `T` sits in the column of the aggregate of `i` -/
theorem T_supported {tol : ℝ} {agg : List (Option Nat)} {B : List ℝ} {i c : Nat} {t : ℝ}
    (h : tentative tol agg B i = some (c, t)) : agg.getD i none = some c := by
  cases hagg : agg.getD i none with
  | none =>
    simp only [tentative, hagg] at h
    cases h
  | some c' =>
    rw [tentative_eq tol B hagg] at h
    rw [(Prod.mk.inj (Option.some.inj h)).1]

/-- a vertex that is not aggregated has an empty row in `T` -/
theorem T_none (tol : ℝ) {agg : List (Option Nat)} (B : List ℝ) {i : Nat}
    (h : agg.getD i none = none) : tentative tol agg B i = none := by
  simp only [tentative, h]

/-- a row of `T` meets one column only: the supports of distinct columns are disjoint -/
theorem T_disjoint {tol : ℝ} {agg : List (Option Nat)} {B : List ℝ} {i c c' : Nat} {t t' : ℝ}
    (h : tentative tol agg B i = some (c, t)) (h' : tentative tol agg B i = some (c', t')) :
    c = c' := by
  rw [h] at h'
  exact (Prod.mk.inj (Option.some.inj h')).1

/-- the support of column `c` of `T` lies in `members agg c` -/
theorem T_support_mem {tol : ℝ} {agg : List (Option Nat)} {B : List ℝ} {i c : Nat} {t : ℝ}
    (h : tentative tol agg B i = some (c, t)) : i ∈ members agg c :=
  mem_members_of_agg (T_supported h)

/-- distinct aggregates have no common vertex -/
theorem members_disjoint {agg : List (Option Nat)} {c c' : Nat} (hne : c ≠ c') :
    List.Disjoint (members agg c) (members agg c') :=
  Candidates.members_disjoint hne

/-- an aggregate lists each of its vertices once -/
theorem members_nodup (agg : List (Option Nat)) (c : Nat) : (members agg c).Nodup :=
  Candidates.members_nodup agg c

end

/-! ## 11. one smoothing step -/
section Step
variable {K : Type} [Add K] [Sub K] [Mul K] [Div K] [Zero K] [One K] [AbsOp K] [DecidableEq K]

/-- one smoothing step returns one row per row of `A` -/
theorem smoothStep_length (A : List (List (Nat × K))) (ω : K) (nc : Nat) (P : List (List K)) :
    (smoothStep A ω nc P).length = A.length :=
  Candidates.smoothStep_length A ω nc P

/-- if every row of `P` has `nc` entries, so has every row after one smoothing step -/
theorem smoothStep_row_length (A : List (List (Nat × K))) (ω : K) {nc : Nat} {P : List (List K)}
    (hP : ∀ row ∈ P, row.length = nc) : ∀ row ∈ smoothStep A ω nc P, row.length = nc :=
  Candidates.smoothStep_row_length A ω hP

/-- entry `(i, c)` after one step is `P[i,c] − Σ_e (A[i,e] · ω/|d_i|) · P[e,c]` (left fold) -/
theorem smoothStep_row (A : List (List (Nat × K))) (ω : K) {nc : Nat} {P : List (List K)}
    (hP : ∀ row ∈ P, row.length = nc) {i c : Nat} (hi : i < A.length) (hc : c < nc) :
    let row := A.getD i []
    let s := row.foldl (fun s e => s + AbsOp.abs e.2) 0
    let sc := if s = 0 then 0 else (1 / AbsOp.abs s) * ω
    ((smoothStep A ω nc P).getD i []).getD c 0
      = (P.getD i []).getD c 0
        - row.foldl (fun acc e => acc + (e.2 * sc) * ((P.getD e.1 []).getD c 0)) 0 :=
  smoothStep_entry A ω hP hi hc

end Step

noncomputable section

/-- over `ℝ`: entry `(i, c)` after one step is `P[i,c] − Σ_e A[i,e] · (ω/|d_i|) · P[e,c]` -/
theorem smoothStep_row_sum (A : List (List (Nat × ℝ))) (ω : ℝ) {nc : Nat} {P : List (List ℝ)}
    (hP : ∀ row ∈ P, row.length = nc) {i c : Nat} (hi : i < A.length) (hc : c < nc) :
    ((smoothStep A ω nc P).getD i []).getD c 0
      = (P.getD i []).getD c 0
        - ((A.getD i []).map fun e =>
            (e.2 * rowScale ω (A.getD i [])) * ((P.getD e.1 []).getD c 0)).sum := by
  rw [smoothStep_entry A ω hP hi hc, apEntry,
    foldl_add_eq (fun e : Nat × ℝ =>
      (e.2 * rowScale ω (A.getD i [])) * ((P.getD e.1 []).getD c 0)), zero_add]

/-- over `ℝ` the diagonal `d_i` is the sum of the absolute values of row `i` -/
theorem absRowSum_eq_sum (row : List (Nat × ℝ)) : absRowSum row = (row.map fun e => |e.2|).sum := by
  rw [absRowSum]
  exact (foldl_add_eq (fun e : Nat × ℝ => |e.2|) row 0).trans (zero_add _)

end

/-! ## 12. `k` smoothing steps -/
section Iter
variable {K : Type} [Add K] [Sub K] [Mul K] [Div K] [Zero K] [One K] [AbsOp K] [DecidableEq K]

/-- `k` weighted-Jacobi smoothing steps applied to the prolongator `P` -/
def smooth (A : List (List (Nat × K))) (ω : K) (nc : Nat) (k : Nat) (P : List (List K)) :
    List (List K) :=
  (smoothStep A ω nc)^[k] P

/-- zero steps leave the prolongator unchanged -/
theorem smooth_zero (A : List (List (Nat × K))) (ω : K) (nc : Nat) (P : List (List K)) :
    smooth A ω nc 0 P = P := rfl

/-- `k + 1` steps are one more `smoothStep` after `k` steps -/
theorem smooth_iter (A : List (List (Nat × K))) (ω : K) (nc : Nat) (k : Nat) (P : List (List K)) :
    smooth A ω nc (k + 1) P = smoothStep A ω nc (smooth A ω nc k P) :=
  Function.iterate_succ_apply' _ _ _

/-- after at least one step the prolongator has one row per row of `A` -/
theorem smooth_length (A : List (List (Nat × K))) (ω : K) (nc : Nat) (k : Nat)
    (P : List (List K)) : (smooth A ω nc (k + 1) P).length = A.length := by
  rw [smooth_iter, smoothStep_length]

/-- the number of rows is preserved by any number of steps when `P` has one row per row of `A` -/
theorem smooth_length' (A : List (List (Nat × K))) (ω : K) (nc : Nat) (k : Nat)
    {P : List (List K)} (hP : P.length = A.length) : (smooth A ω nc k P).length = A.length := by
  cases k with
  | zero => exact hP
  | succ k => exact smooth_length A ω nc k P

/-- every row keeps `nc` entries through any number of steps -/
theorem smooth_row_length (A : List (List (Nat × K))) (ω : K) {nc : Nat} {P : List (List K)}
    (hP : ∀ row ∈ P, row.length = nc) : ∀ k, ∀ row ∈ smooth A ω nc k P, row.length = nc
  | 0 => hP
  | k + 1 => by
    rw [smooth_iter]
    exact smoothStep_row_length A ω (smooth_row_length A ω hP k)

/-- entry `(i, c)` after `k + 1` steps, in terms of the prolongator after `k` steps -/
theorem smooth_row (A : List (List (Nat × K))) (ω : K) {nc : Nat} {P : List (List K)}
    (hP : ∀ row ∈ P, row.length = nc) (k : Nat) {i c : Nat} (hi : i < A.length) (hc : c < nc) :
    ((smooth A ω nc (k + 1) P).getD i []).getD c 0
      = ((smooth A ω nc k P).getD i []).getD c 0
        - apEntry ω (smooth A ω nc k P) (A.getD i []) c := by
  rw [smooth_iter]
  exact smoothStep_entry A ω (smooth_row_length A ω hP k) hi hc

end Iter

/-! ## 13. a concrete aggregation -/
noncomputable section Examples

/-- aggregate 0 of `[some 0, some 0, some 1]` is `{0, 1}` -/
example : members [some 0, some 0, some 1] 0 = [0, 1] := by decide

/-- `√25 = 5` -/
theorem sqrt_25 : √(25 : ℝ) = 5 := by
  rw [show (25 : ℝ) = 5 ^ 2 by norm_num]
  exact Real.sqrt_sq (by norm_num)

/-- the squared norm of `B = [3, 4, 1]` on aggregate 0 is 25 -/
theorem ex_sqFold : sqFold [3, 4, 1] (members [some 0, some 0, some 1] 0) = 25 := by
  rw [show members [some 0, some 0, some 1] 0 = [0, 1] by decide]
  norm_num [sqFold]

/-- `R[0] = ‖(3, 4)‖ = 5` with tolerance 0 -/
example : coarseCandidate (0 : ℝ) [some 0, some 0, some 1] [3, 4, 1] 0 = 5 := by
  rw [coarseCandidate_pos _ _ _ (by norm_num) (by rw [ex_sqFold]; norm_num), ex_sqFold, sqrt_25]

/-- `R[0] = 5` with tolerance 1/2 as well -/
example : coarseCandidate (1 / 2 : ℝ) [some 0, some 0, some 1] [3, 4, 1] 0 = 5 := by
  rw [coarseCandidate_pos _ _ _ (by norm_num) (by rw [ex_sqFold]; norm_num), ex_sqFold, sqrt_25]

/-- `T[0, 0] = 3/5` -/
example : tentative (0 : ℝ) [some 0, some 0, some 1] [3, 4, 1] 0 = some (0, 3 / 5) := by
  rw [tentative_pos (c := 0) _ (by norm_num) (by decide) (by rw [ex_sqFold]; norm_num),
    ex_sqFold, sqrt_25]
  norm_num

/-- `T[1, 0] = 4/5` -/
example : tentative (0 : ℝ) [some 0, some 0, some 1] [3, 4, 1] 1 = some (0, 4 / 5) := by
  rw [tentative_pos (c := 0) _ (by norm_num) (by decide) (by rw [ex_sqFold]; norm_num),
    ex_sqFold, sqrt_25]
  norm_num

/-- the column of aggregate 0 has unit norm: `(3/5)² + (4/5)² = 1` (instance of `T_unit_norm`) -/
example : ((members [some 0, some 0, some 1] 0).map fun k =>
    Tval (0 : ℝ) [some 0, some 0, some 1] [3, 4, 1] k ^ 2).sum = 1 :=
  T_unit_norm _ _ 0 (by norm_num) (by
    have h := ex_sqFold
    rw [sqFold] at h
    rw [h]; norm_num)

end Examples


end Raptor.C16
