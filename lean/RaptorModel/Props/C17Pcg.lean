import Mathlib.Algebra.Field.Basic
import Mathlib.Algebra.Order.Field.Rat
import Mathlib.Order.Defs.LinearOrder
import RaptorModel.Props.C17
import RaptorModel.Lemmas.PcgLemmas

/-!
# C17 (PCG) — the preconditioned CG loop reports true preconditioned residual norms

Model: `Raptor.Pcg.step` / `loop` / `pcg` (`raptor/krylov/par_cg.cpp`, `PCG`).  Exact arithmetic:
`K` a commutative ring with an arbitrary division operation and an arbitrary decidable `<`.  The
operator is any `mv` with `LinSys n mv resid b` (length preserving, additive/homogeneous in the
`axpy` form, `resid x = b − mv x`; the hypotheses of `Props/C17.lean`), the preconditioner any
length-preserving `prec` (nothing else is assumed of it: not linear, not symmetric).

* `recurrence_eq_recomputed_pcg`, `step_inv`, `loop_inv`, `pcg_residual_true` — the stored residual
  is the true residual of the stored iterate, for EVERY recompute period.
* `stateAt … k` — the state after `k` trips (re-run of `loop` with fuel `k`; `loop_add` composes
  fuel; `stateAt_succ`: one `step` per index below `out.iter`); `xAt … k` its `x`;
  `iterates = [x_0, …, x_{out.iter}]`.
* `pcg_reported_true` — `out.res = iterates.map (⟨resid x, prec (resid x)⟩ / ⟨b, prec b⟩)`,
  first entry included; `pcg_res_length`.
* `pcg_period_congr`, `pcg_period_zero_eight`, `pcg_period_irrelevant`.
* `pcg_iter_le`, `pcg_stops`, `pcg_not_before`.
* `pcg_prefix`, `pcg_prefix_res`, `pcg_prefix_iter`, `pcg_prefix_x`, `iterates_prefix`.
-/

namespace Raptor.C17Pcg
open Raptor Raptor.Krylov Raptor.Pcg Raptor.C17

/-! ## 1. the invariant `r = resid x` and its preservation by one trip -/

section Invariant
variable {K : Type} [CommRing K] [Div K]

/-- the loop invariant: `C17.Inv` for the stored `(x, r)` (lengths `n`, `r = resid x`), and the
    direction has length `n` -/
def PInv (resid : List K → List K) (n : Nat) (s : St K) : Prop :=
  Inv resid n s.x s.r ∧ s.p.length = n

omit [Div K] in
/-- **key fact**: the recurrence residual `r − α A p` is the explicitly recomputed residual
    `b − A (x + α p)` of the new iterate, for whatever `α` -/
theorem recurrence_eq_recomputed_pcg {n : Nat} {mv resid : List K → List K} {b : List K}
    (L : LinSys n mv resid b) (s : St K) (al : K) (hx : s.x.length = n) (hp : s.p.length = n)
    (h : s.r = resid s.x) :
    axpy s.r (mv s.p) (-al) = resid (axpy s.x s.p al) :=
  recurrence_eq_recomputed L al hp ⟨hx, by rw [h]; exact L.length_resid hx, h⟩

/-- both branches of the residual update give the true residual of the new iterate -/
theorem stepR_eq {n : Nat} {mv resid : List K → List K} {b : List K}
    (L : LinSys n mv resid b) (rc : Nat) (s : St K) (h : PInv resid n s) :
    stepR mv resid rc s = resid (stepX mv s) := by
  unfold stepR
  split
  · rfl
  · exact recurrence_eq_recomputed L _ h.2 h.1

theorem stepX_length {n : Nat} (mv resid : List K → List K) (s : St K) (h : PInv resid n s) :
    (stepX mv s).length = n :=
  length_axpy_of_eq _ h.1.1 h.2

theorem stepP_length {n : Nat} {mv resid : List K → List K} {b : List K}
    (L : LinSys n mv resid b) (prec : List K → List K)
    (hprec : ∀ v, v.length = n → (prec v).length = n) (rc : Nat) (s : St K)
    (h : PInv resid n s) :
    (stepP mv resid prec rc s).length = n := by
  have hr : (stepR mv resid rc s).length = n := by
    rw [stepR_eq L rc s h]; exact L.length_resid (stepX_length mv resid s h)
  unfold stepP
  split
  · exact hprec _ hr
  · exact length_pupdate _ h.2 (hprec _ hr)

variable [LT K] [DecidableLT K]

/-- **`step_inv`**: one trip through the loop body preserves `r = resid x`, for every recompute
    period `rc` (0 = never, 8 as in the code, any other), every `bInner`, `tol`, and whether or
    not the trip ends in `break` -/
theorem step_inv {n : Nat} {mv resid : List K → List K} {b : List K}
    (L : LinSys n mv resid b) (prec : List K → List K)
    (hprec : ∀ v, v.length = n → (prec v).length = n) (bInner tol : K) (rc : Nat) (s : St K)
    (h : PInv resid n s) :
    PInv resid n (step mv resid prec bInner tol rc s) := by
  have hx' := stepX_length mv resid s h
  have hr' := stepR_eq L rc s h
  refine ⟨⟨?_, ?_, ?_⟩, ?_⟩
  · rw [step_x]; exact hx'
  · rw [step_r, hr']; exact L.length_resid hx'
  · rw [step_r, step_x]; exact hr'
  · rw [step_p]
    split
    · exact h.2
    · exact stepP_length L prec hprec rc s h

/-- `step_inv` in the plain form: `s.r = resid s.x → s'.r = resid s'.x` -/
theorem step_residual_true {n : Nat} {mv resid : List K → List K} {b : List K}
    (L : LinSys n mv resid b) (prec : List K → List K)
    (hprec : ∀ v, v.length = n → (prec v).length = n) (bInner tol : K) (rc : Nat) (s : St K)
    (hx : s.x.length = n) (hp : s.p.length = n) (h : s.r = resid s.x) :
    (step mv resid prec bInner tol rc s).r = resid (step mv resid prec bInner tol rc s).x :=
  (step_inv L prec hprec bInner tol rc s
    ⟨⟨hx, by rw [h]; exact L.length_resid hx, h⟩, hp⟩).1.2.2

/-- **`loop_inv`**: the loop preserves the invariant, for every fuel, limit and period -/
theorem loop_inv {n : Nat} {mv resid : List K → List K} {b : List K}
    (L : LinSys n mv resid b) (prec : List K → List K)
    (hprec : ∀ v, v.length = n → (prec v).length = n) (bInner tol : K) (rc maxIter : Nat)
    (fuel : Nat) (s : St K) (h : PInv resid n s) :
    PInv resid n (loop mv resid prec bInner tol rc maxIter fuel s) := by
  induction fuel generalizing s with
  | zero => exact h
  | succ fuel ih =>
    rw [loop_succ]
    split
    · exact h
    · exact ih _ (step_inv L prec hprec bInner tol rc s h)

end Invariant

/-! ## 2–6. the solver -/

section PCG
variable {K : Type} [CommRing K] [Div K] [LT K] [DecidableLT K]

/-- the threshold `pcg` tests `⟨r, M⁻¹ r⟩` against: the square of the scaled tolerance (`‖r‖_M < tol·‖b‖_M`) -/
def pcgTol (sqrtB : K) (bigB : Bool) (tol : K) : K :=
  (if bigB then tol * sqrtB else tol) * (if bigB then tol * sqrtB else tol)

/-- the scaling of the report: `⟨b, M⁻¹ b⟩`, or 1 for a zero right-hand side -/
def pcgScale (prec : List K → List K) (b : List K) (bigB : Bool) : K := if bigB then dot b (prec b) else 1

/-- the entry state of the loop; it is already an exit state when the start meets the tolerance -/
def init (resid prec : List K → List K) (b : List K) (sqrtB : K) (bigB : Bool) (tol : K) (x0 : List K) : St K :=
  { x := x0, r := resid x0, p := prec (resid x0), rz := dot (resid x0) (prec (resid x0)),
    res := [dot (resid x0) (prec (resid x0)) / pcgScale prec b bigB], iter := 0,
    stopped := !(pcgTol sqrtB bigB tol < dot (resid x0) (prec (resid x0))) }

/-- the preconditioned residual norm (squared) of `x`, in the scaling of the report:
    `⟨b − A x, M⁻¹ (b − A x)⟩ / ⟨b, M⁻¹ b⟩` (absolute for `b = 0`) -/
def trueRho (resid prec : List K → List K) (b : List K) (bigB : Bool) (x : List K) : K :=
  dot (resid x) (prec (resid x)) / pcgScale prec b bigB

variable (mv resid prec : List K → List K) (b : List K) (sqrtB : K) (bigB : Bool) (tol : K)
  (rc maxIter : Nat) (x0 : List K)

theorem pcg_eq :
    pcg mv resid prec b sqrtB bigB tol rc maxIter x0 =
      loop mv resid prec (pcgScale prec b bigB) (pcgTol sqrtB bigB tol) rc maxIter maxIter
        (init resid prec b sqrtB bigB tol x0) := rfl

/-- the state after `k` trips: `loop` re-run with fuel `k` (same limit, same everything) -/
def stateAt (k : Nat) : St K :=
  loop mv resid prec (pcgScale prec b bigB) (pcgTol sqrtB bigB tol) rc maxIter k (init resid prec b sqrtB bigB tol x0)

/-- the `k`-th iterate -/
def xAt (k : Nat) : List K := (stateAt mv resid prec b sqrtB bigB tol rc maxIter x0 k).x

/-- the iterates `x_0, x_1, …, x_{out.iter}` the solver goes through -/
def iterates : List (List K) :=
  (List.range ((pcg mv resid prec b sqrtB bigB tol rc maxIter x0).iter + 1)).map
    (xAt mv resid prec b sqrtB bigB tol rc maxIter x0)

local notation "OUT" => pcg mv resid prec b sqrtB bigB tol rc maxIter x0
local notation "ST" => stateAt mv resid prec b sqrtB bigB tol rc maxIter x0
local notation "XAT" => xAt mv resid prec b sqrtB bigB tol rc maxIter x0
local notation "TOL" => pcgTol sqrtB bigB tol

theorem stateAt_zero : ST 0 = init resid prec b sqrtB bigB tol x0 := rfl
theorem xAt_zero : XAT 0 = x0 := rfl
theorem stateAt_maxIter : ST maxIter = OUT := rfl

/-- fuel composes: the state after `k + m` trips is `m` trips from the state after `k` -/
theorem stateAt_add (k m : Nat) :
    ST (k + m) = loop mv resid prec (pcgScale prec b bigB) TOL rc maxIter m (ST k) :=
  loop_add _ _ _ _ _ _ _ k m _

/-- **`pcg_iter_le`** -/
theorem pcg_iter_le : (OUT).iter ≤ maxIter := by
  rw [pcg_eq]; exact loop_iter_le_max _ _ _ _ _ _ _ _ _ (Nat.zero_le _)

theorem stateAt_iter_le (k : Nat) : (ST k).iter ≤ k := by
  have := loop_iter_le_fuel mv resid prec (pcgScale prec b bigB) TOL rc maxIter k (init resid prec b sqrtB bigB tol x0)
  rw [show (init resid prec b sqrtB bigB tol x0).iter = 0 from rfl, Nat.zero_add] at this
  exact this

/-- one more trip from a state that has not exited is one `step` -/
theorem stateAt_succ_of_not_halted (k : Nat) (h : halted maxIter (ST k) = false) :
    ST (k + 1) = step mv resid prec (pcgScale prec b bigB) TOL rc (ST k) := by
  have e : ST (k + 1) = if halted maxIter (ST k) then ST k
      else step mv resid prec (pcgScale prec b bigB) TOL rc (ST k) := loop_succ_right ..
  rw [e, h]; rfl

theorem stateAt_iter_of_not_halted (k : Nat) (h : halted maxIter (ST k) = false) :
    (ST k).iter = k := by
  have := loop_iter_of_not_halted mv resid prec (pcgScale prec b bigB) TOL rc maxIter k _ h
  rw [show (init resid prec b sqrtB bigB tol x0).iter = 0 from rfl, Nat.zero_add] at this
  exact this

/-- the loop has not exited at any index below `out.iter` -/
theorem stateAt_not_halted (k : Nat) (hk : k < (OUT).iter) : halted maxIter (ST k) = false := by
  cases h : halted maxIter (ST k) with
  | false => rfl
  | true =>
    exfalso
    have hle := pcg_iter_le mv resid prec b sqrtB bigB tol rc maxIter x0
    have e : OUT = ST k := by
      rw [pcg_eq]; exact loop_stable _ _ _ _ _ _ _ k maxIter _ (by omega) h
    have := stateAt_iter_le mv resid prec b sqrtB bigB tol rc maxIter x0 k
    rw [e] at hk; omega

/-- below `out.iter`, consecutive states are related by exactly one `step` -/
theorem stateAt_succ (k : Nat) (hk : k < (OUT).iter) :
    ST (k + 1) = step mv resid prec (pcgScale prec b bigB) TOL rc (ST k) :=
  stateAt_succ_of_not_halted mv resid prec b sqrtB bigB tol rc maxIter x0 k
    (stateAt_not_halted mv resid prec b sqrtB bigB tol rc maxIter x0 k hk)

/-- the returned state is the state after `out.iter` trips -/
theorem stateAt_out_iter : ST (OUT).iter = OUT := by
  have hle := pcg_iter_le mv resid prec b sqrtB bigB tol rc maxIter x0
  cases h : halted maxIter (ST (OUT).iter) with
  | true =>
    rw [pcg_eq]
    exact (loop_stable _ _ _ _ _ _ _ _ maxIter _ hle h).symm
  | false =>
    exfalso
    have hi := stateAt_iter_of_not_halted mv resid prec b sqrtB bigB tol rc maxIter x0 _ h
    have hlt := ((halted_false_iff _ _).1 h).2
    have h1 : (ST ((OUT).iter + 1)).iter = (OUT).iter + 1 := by
      rw [stateAt_succ_of_not_halted mv resid prec b sqrtB bigB tol rc maxIter x0 _ h, step_iter,
        hi]
    have h2 : (ST ((OUT).iter + 1)).iter ≤ (OUT).iter := by
      have hle' : (OUT).iter + 1 ≤ maxIter := by rw [hi] at hlt; omega
      obtain ⟨d, hd⟩ := Nat.exists_eq_add_of_le hle'
      have e : OUT = ST ((OUT).iter + 1 + d) := by rw [← hd]; rfl
      have := loop_iter_ge mv resid prec (pcgScale prec b bigB) TOL rc maxIter d
        (ST ((OUT).iter + 1))
      rw [← stateAt_add, ← e] at this
      exact this
    omega

/-- the state after `k` trips has iteration number `k` (`k ≤ out.iter`) -/
theorem stateAt_iter (k : Nat) (hk : k ≤ (OUT).iter) : (ST k).iter = k := by
  rcases Nat.lt_or_eq_of_le hk with h | h
  · exact stateAt_iter_of_not_halted mv resid prec b sqrtB bigB tol rc maxIter x0 k
      (stateAt_not_halted mv resid prec b sqrtB bigB tol rc maxIter x0 k h)
  · rw [h, stateAt_out_iter]

/-- the returned vector is the last iterate -/
theorem xAt_out_iter : XAT (OUT).iter = (OUT).x := by
  unfold xAt; rw [stateAt_out_iter]

theorem iterates_length :
    (iterates mv resid prec b sqrtB bigB tol rc maxIter x0).length = (OUT).iter + 1 := by
  simp [iterates]

theorem iterates_getElem (k : Nat)
    (hk : k < (iterates mv resid prec b sqrtB bigB tol rc maxIter x0).length) :
    (iterates mv resid prec b sqrtB bigB tol rc maxIter x0)[k] = XAT k := by
  simp [iterates]

/-- history = reports attached to the states after `0, 1, …, out.iter` trips (no hypotheses) -/
theorem pcg_res_eq :
    (OUT).res = (List.range ((OUT).iter + 1)).map fun k => rhoSt prec (pcgScale prec b bigB) (ST k) := by
  have h := loop_res_eq mv resid prec (pcgScale prec b bigB) TOL rc maxIter maxIter
    (init resid prec b sqrtB bigB tol x0)
  rw [← pcg_eq] at h
  rw [h, List.range_succ_eq_map, List.map_cons, List.map_map]
  rfl

/-- **`pcg_res_length`**: one reported entry per iterate, the initial one included -/
theorem pcg_res_length : (OUT).res.length = (OUT).iter + 1 := by
  rw [pcg_res_eq]; simp

/-- the last reported entry is the one of the returned state -/
theorem pcg_res_last (h : (OUT).iter < (OUT).res.length) :
    (OUT).res[(OUT).iter] = dot (OUT).r (prec (OUT).r) / pcgScale prec b bigB := by
  have e := pcg_res_eq mv resid prec b sqrtB bigB tol rc maxIter x0
  rw [List.getElem_of_eq e h, List.getElem_map, List.getElem_range, stateAt_out_iter]
  rfl

/-! ### 2. residual invariant along the run -/

theorem init_inv {n : Nat} {mv : List K → List K} {resid : List K → List K} {b : List K}
    (L : LinSys n mv resid b) (prec : List K → List K)
    (hprec : ∀ v, v.length = n → (prec v).length = n) (x0 : List K) (hx0 : x0.length = n) :
    PInv resid n (init resid prec b sqrtB bigB tol x0) :=
  ⟨Inv.of_resid L hx0, hprec _ (L.length_resid hx0)⟩

variable {mv resid prec b}

theorem stateAt_inv {n : Nat} (L : LinSys n mv resid b)
    (hprec : ∀ v, v.length = n → (prec v).length = n) (hx0 : x0.length = n) (k : Nat) :
    PInv resid n (ST k) :=
  loop_inv L prec hprec _ _ _ _ _ _ (init_inv sqrtB bigB tol L prec hprec x0 hx0)

/-- the stored residual of every intermediate state is the true residual of its iterate -/
theorem stateAt_residual_true {n : Nat} (L : LinSys n mv resid b)
    (hprec : ∀ v, v.length = n → (prec v).length = n) (hx0 : x0.length = n) (k : Nat) :
    (ST k).r = resid (XAT k) :=
  (stateAt_inv sqrtB bigB tol rc maxIter x0 L hprec hx0 k).1.2.2

/-- **`pcg_residual_true`**: the returned residual vector is the true residual `b − A x` of the
    returned iterate — for every recompute period, tolerance and limit -/
theorem pcg_residual_true {n : Nat} (L : LinSys n mv resid b)
    (hprec : ∀ v, v.length = n → (prec v).length = n) (hx0 : x0.length = n) :
    (OUT).r = resid (OUT).x :=
  (stateAt_inv sqrtB bigB tol rc maxIter x0 L hprec hx0 maxIter).1.2.2

/-! ### 3. reported = true -/

/-- **`pcg_reported_true`**: the history is, entry by entry (index 0 included), the
    preconditioned residual norm `⟨b − A x_k, M⁻¹(b − A x_k)⟩ / ⟨b, M⁻¹ b⟩` of the iterates, all
    in the one scaling `1 / ⟨b, M⁻¹ b⟩` -/
theorem pcg_reported_true {n : Nat} (L : LinSys n mv resid b)
    (hprec : ∀ v, v.length = n → (prec v).length = n) (hx0 : x0.length = n) :
    (OUT).res = (iterates mv resid prec b sqrtB bigB tol rc maxIter x0).map
      fun x => dot (resid x) (prec (resid x)) / pcgScale prec b bigB := by
  rw [pcg_res_eq, iterates, List.map_map]
  apply List.map_congr_left
  intro k _
  simp only [Function.comp, rhoSt]
  rw [stateAt_residual_true sqrtB bigB tol rc maxIter x0 L hprec hx0 k]

/-- `pcg_reported_true`, entry `k` -/
theorem pcg_reported_true_get {n : Nat} (L : LinSys n mv resid b)
    (hprec : ∀ v, v.length = n → (prec v).length = n) (hx0 : x0.length = n) (k : Nat)
    (hk : k < (OUT).res.length) :
    (OUT).res[k] = trueRho resid prec b bigB (XAT k) := by
  have e := pcg_reported_true sqrtB bigB tol rc maxIter x0 L hprec hx0
  rw [List.getElem_of_eq e hk, List.getElem_map, iterates_getElem]
  rfl

/-- the first entry is the scaled preconditioned residual norm of the initial guess -/
theorem pcg_reported_first (h : 0 < (OUT).res.length) :
    (OUT).res[0] = trueRho resid prec b bigB x0 := by
  have e := pcg_res_eq mv resid prec b sqrtB bigB tol rc maxIter x0
  rw [List.getElem_of_eq e h, List.getElem_map, List.getElem_range]
  rfl

/-! ### 5. stopping -/

variable (mv resid prec b)

/-- if the flag `stopped` is set the stored residual met the break test -/
theorem pcg_stopped_lt (h : (OUT).stopped = true) : MetTol TOL (dot (OUT).r (prec (OUT).r)) := by
  rw [pcg_eq] at h ⊢
  exact loop_stopMet _ _ _ _ _ _ _ _ _ (by intro h'; right; simpa [init] using h') h

/-- the loop ends by `break` or at the limit -/
theorem pcg_halted : halted maxIter OUT = true := by
  rw [pcg_eq]; exact loop_halted_of_fuel _ _ _ _ _ _ _ _ _ (by simp [init])

/-- **`pcg_stops`** (no hypotheses on the operator): a run that ends before the limit ended by
    `break`, and the test `next < tol'` held for `next = ⟨r, prec r⟩` of the returned residual;
    the last reported entry is that `next / ⟨b, prec b⟩` -/
theorem pcg_stops (hlt : (OUT).iter < maxIter) :
    (OUT).stopped = true ∧ MetTol TOL (dot (OUT).r (prec (OUT).r)) ∧
      (OUT).res[(OUT).iter]'(by rw [pcg_res_length]; omega) =
        dot (OUT).r (prec (OUT).r) / pcgScale prec b bigB := by
  have hs : (OUT).stopped = true := by
    rcases (halted_iff _ _).1 (pcg_halted mv resid prec b sqrtB bigB tol rc maxIter x0) with h | h
    · exact h
    · omega
  exact ⟨hs, pcg_stopped_lt mv resid prec b sqrtB bigB tol rc maxIter x0 hs, pcg_res_last ..⟩

variable {mv resid prec b}

/-- `pcg_stops` on the true residual of the returned iterate -/
theorem pcg_stops_true {n : Nat} (L : LinSys n mv resid b)
    (hprec : ∀ v, v.length = n → (prec v).length = n) (hx0 : x0.length = n)
    (hlt : (OUT).iter < maxIter) :
    MetTol TOL (dot (resid (OUT).x) (prec (resid (OUT).x))) := by
  rw [← pcg_residual_true sqrtB bigB tol rc maxIter x0 L hprec hx0]
  exact (pcg_stops mv resid prec b sqrtB bigB tol rc maxIter x0 hlt).2.1

/-- **`pcg_not_before`**: no tested iterate before the returned one met the test — the solver
    stops at the FIRST iterate `x_k`, `k ≥ 1`, with `⟨resid x_k, prec (resid x_k)⟩ < tol'`.
    (`x_0` is never tested by the code.) -/
theorem pcg_not_before {n : Nat} (L : LinSys n mv resid b)
    (hprec : ∀ v, v.length = n → (prec v).length = n) (hx0 : x0.length = n)
    (k : Nat) (hk1 : 1 ≤ k) (hk : k < (OUT).iter) :
    ¬ dot (resid (XAT k)) (prec (resid (XAT k))) < TOL := by
  obtain ⟨j, rfl⟩ : ∃ j, k = j + 1 := ⟨k - 1, by omega⟩
  have hnh := stateAt_not_halted mv resid prec b sqrtB bigB tol rc maxIter x0 (j + 1) hk
  have hns := ((halted_false_iff _ _).1 hnh).1
  rw [← stateAt_residual_true sqrtB bigB tol rc maxIter x0 L hprec hx0 (j + 1)]
  rw [stateAt_succ mv resid prec b sqrtB bigB tol rc maxIter x0 j (by omega)] at hns ⊢
  intro hlt
  rw [(step_stopped_iff _ _ _ _ _ _ _).2 hlt] at hns
  exact Bool.noConfusion hns

/-- over a linear order: the earlier tested iterates are at or above the tolerance -/
theorem pcg_not_before_le {K : Type} [CommRing K] [Div K] [LinearOrder K]
    {mv resid prec : List K → List K} {b : List K} (sqrtB : K) (bigB : Bool) (tol : K)
    (rc maxIter : Nat) (x0 : List K) {n : Nat} (L : LinSys n mv resid b)
    (hprec : ∀ v, v.length = n → (prec v).length = n) (hx0 : x0.length = n)
    (k : Nat) (hk1 : 1 ≤ k) (hk : k < (pcg mv resid prec b sqrtB bigB tol rc maxIter x0).iter) :
    pcgTol sqrtB bigB tol ≤
      dot (resid (xAt mv resid prec b sqrtB bigB tol rc maxIter x0 k))
        (prec (resid (xAt mv resid prec b sqrtB bigB tol rc maxIter x0 k))) :=
  not_lt.1 (pcg_not_before sqrtB bigB tol rc maxIter x0 L hprec hx0 k hk1 hk)

/-! ### 4. the recompute period -/

variable (mv resid prec b)

/-- the whole output depends on the period only through the "full" flags at `1 … maxIter` -/
theorem pcg_period_congr (rc' : Nat)
    (h : ∀ i, 1 ≤ i → i ≤ maxIter → fullAt rc i = fullAt rc' i) :
    pcg mv resid prec b sqrtB bigB tol rc maxIter x0 =
      pcg mv resid prec b sqrtB bigB tol rc' maxIter x0 := by
  rw [pcg_eq, pcg_eq]
  exact loop_period_congr _ _ _ _ _ _ _ rc' _ _ (fun i hi hm => h i hi hm)

theorem fullAt_zero (i : Nat) : fullAt 0 i = false := rfl

theorem fullAt_of_lt (rc i : Nat) (h1 : 1 ≤ i) (h2 : i < rc) : fullAt rc i = false := by
  simp [fullAt, Nat.mod_eq_of_lt h2]; omega

/-- a period larger than the iteration limit is the same as no recomputation at all -/
theorem pcg_period_zero_of_lt (hm : maxIter < rc) :
    pcg mv resid prec b sqrtB bigB tol 0 maxIter x0 =
      pcg mv resid prec b sqrtB bigB tol rc maxIter x0 := by
  apply pcg_period_congr
  intro i h1 h2
  rw [fullAt_zero, fullAt_of_lt rc i h1 (by omega)]

/-- **`pcg_period_zero_eight`**: with fewer than 8 iterations allowed, the code's period 8 and
    "never recompute" give the same output (iterations 1..7 are not multiples of 8) -/
theorem pcg_period_zero_eight (hm : maxIter < 8) :
    pcg mv resid prec b sqrtB bigB tol 0 maxIter x0 =
      pcg mv resid prec b sqrtB bigB tol 8 maxIter x0 :=
  pcg_period_zero_of_lt mv resid prec b sqrtB bigB tol 8 maxIter x0 hm

variable {mv resid prec b}

/-- **`pcg_period_irrelevant`**: what does NOT depend on the period.  For every two periods
    `rc`, `rc'`, both runs return the true residual of their iterate and both histories are the
    true scaled preconditioned residual norms of their own iterates.  (The iterates themselves may
    differ, since a "full" iteration also resets the direction `p := z`; they coincide when the
    flags agree — `pcg_period_congr`.) -/
theorem pcg_period_irrelevant {n : Nat} (L : LinSys n mv resid b)
    (hprec : ∀ v, v.length = n → (prec v).length = n) (hx0 : x0.length = n) (rc rc' : Nat) :
    ((pcg mv resid prec b sqrtB bigB tol rc maxIter x0).r =
        resid (pcg mv resid prec b sqrtB bigB tol rc maxIter x0).x ∧
      (pcg mv resid prec b sqrtB bigB tol rc' maxIter x0).r =
        resid (pcg mv resid prec b sqrtB bigB tol rc' maxIter x0).x) ∧
    ((pcg mv resid prec b sqrtB bigB tol rc maxIter x0).res =
        (iterates mv resid prec b sqrtB bigB tol rc maxIter x0).map (trueRho resid prec b bigB) ∧
      (pcg mv resid prec b sqrtB bigB tol rc' maxIter x0).res =
        (iterates mv resid prec b sqrtB bigB tol rc' maxIter x0).map (trueRho resid prec b bigB)) :=
  ⟨⟨pcg_residual_true sqrtB bigB tol rc maxIter x0 L hprec hx0,
    pcg_residual_true sqrtB bigB tol rc' maxIter x0 L hprec hx0⟩,
   ⟨pcg_reported_true sqrtB bigB tol rc maxIter x0 L hprec hx0,
    pcg_reported_true sqrtB bigB tol rc' maxIter x0 L hprec hx0⟩⟩

/-! ### 6. prefix purity: a smaller iteration limit gives a prefix of the run -/

variable (mv resid prec b)

/-- the state after `k ≤ m` trips does not depend on the limit `m ≤ M` -/
theorem stateAt_limit (m M : Nat) (hm : m ≤ M) (k : Nat) (hk : k ≤ m) :
    stateAt mv resid prec b sqrtB bigB tol rc m x0 k =
      stateAt mv resid prec b sqrtB bigB tol rc M x0 k := by
  unfold stateAt
  exact loop_limit _ _ _ _ _ _ m M k _ (by simp [init]; omega) (by simp [init]; omega)

/-- **`pcg_prefix`**: the run with limit `m ≤ M` returns the state the run with limit `M` is in
    after `m` trips (which is its final state if it stopped earlier) -/
theorem pcg_prefix (m M : Nat) (hm : m ≤ M) :
    pcg mv resid prec b sqrtB bigB tol rc m x0 =
      stateAt mv resid prec b sqrtB bigB tol rc M x0 m :=
  stateAt_limit mv resid prec b sqrtB bigB tol rc x0 m M hm m (Nat.le_refl _)

/-- … in particular it returns the `m`-th iterate of the longer run -/
theorem pcg_prefix_x (m M : Nat) (hm : m ≤ M) :
    (pcg mv resid prec b sqrtB bigB tol rc m x0).x =
      xAt mv resid prec b sqrtB bigB tol rc M x0 m := by
  rw [pcg_prefix mv resid prec b sqrtB bigB tol rc x0 m M hm]; rfl

theorem xAt_limit (m M : Nat) (hm : m ≤ M) (k : Nat) (hk : k ≤ m) :
    xAt mv resid prec b sqrtB bigB tol rc m x0 k = xAt mv resid prec b sqrtB bigB tol rc M x0 k := by
  unfold xAt; rw [stateAt_limit mv resid prec b sqrtB bigB tol rc x0 m M hm k hk]

theorem pcg_prefix_iter (m M : Nat) (hm : m ≤ M) :
    (pcg mv resid prec b sqrtB bigB tol rc m x0).iter =
      min m (pcg mv resid prec b sqrtB bigB tol rc M x0).iter := by
  rw [pcg_prefix mv resid prec b sqrtB bigB tol rc x0 m M hm]
  have hfu := stateAt_iter_le mv resid prec b sqrtB bigB tol rc M x0 m
  cases h : halted M (stateAt mv resid prec b sqrtB bigB tol rc M x0 m) with
  | true =>
    have e : pcg mv resid prec b sqrtB bigB tol rc M x0 =
        stateAt mv resid prec b sqrtB bigB tol rc M x0 m := by
      rw [pcg_eq]; exact loop_stable _ _ _ _ _ _ _ m M _ hm h
    rw [e]; omega
  | false =>
    have hi' := stateAt_iter_of_not_halted mv resid prec b sqrtB bigB tol rc M x0 m h
    obtain ⟨d, hd⟩ := Nat.exists_eq_add_of_le hm
    have hge := loop_iter_ge mv resid prec (pcgScale prec b bigB) (pcgTol sqrtB bigB tol) rc M d
      (stateAt mv resid prec b sqrtB bigB tol rc M x0 m)
    rw [← stateAt_add, ← hd, stateAt_maxIter] at hge
    omega

/-- **`pcg_prefix_res`**: the history under the smaller limit is the first `m + 1` entries -/
theorem pcg_prefix_res (m M : Nat) (hm : m ≤ M) :
    (pcg mv resid prec b sqrtB bigB tol rc m x0).res =
      (pcg mv resid prec b sqrtB bigB tol rc M x0).res.take (m + 1) := by
  rw [pcg_res_eq, pcg_res_eq, ← List.map_take, List.take_range,
    pcg_prefix_iter mv resid prec b sqrtB bigB tol rc x0 m M hm]
  have e : min (m + 1) ((pcg mv resid prec b sqrtB bigB tol rc M x0).iter + 1) =
      min m (pcg mv resid prec b sqrtB bigB tol rc M x0).iter + 1 := by omega
  rw [e]
  apply List.map_congr_left
  intro k hk
  rw [stateAt_limit mv resid prec b sqrtB bigB tol rc x0 m M hm k
    (by have := List.mem_range.1 hk; omega)]

/-- the iterates under the smaller limit are the first `m + 1` iterates -/
theorem iterates_prefix (m M : Nat) (hm : m ≤ M) :
    iterates mv resid prec b sqrtB bigB tol rc m x0 =
      (iterates mv resid prec b sqrtB bigB tol rc M x0).take (m + 1) := by
  unfold iterates
  rw [← List.map_take, List.take_range,
    pcg_prefix_iter mv resid prec b sqrtB bigB tol rc x0 m M hm]
  have e : min (m + 1) ((pcg mv resid prec b sqrtB bigB tol rc M x0).iter + 1) =
      min m (pcg mv resid prec b sqrtB bigB tol rc M x0).iter + 1 := by omega
  rw [e]
  apply List.map_congr_left
  intro k hk
  exact xAt_limit mv resid prec b sqrtB bigB tol rc x0 m M hm k
    (by have := List.mem_range.1 hk; omega)

/-- `x_k` is the vector `pcg` returns when its iteration limit is `k` -/
theorem xAt_eq_pcg (k : Nat) (hk : k ≤ maxIter) :
    XAT k = (pcg mv resid prec b sqrtB bigB tol rc k x0).x :=
  (pcg_prefix_x mv resid prec b sqrtB bigB tol rc x0 k maxIter hk).symm

/-- as long as the longer run has not stopped before `m`, the shorter one does exactly `m`
    iterations and returns the entry `m` of `iterates` -/
theorem pcg_prefix_getElem (m M : Nat) (hm : m ≤ M)
    (hrun : m ≤ (pcg mv resid prec b sqrtB bigB tol rc M x0).iter) :
    (pcg mv resid prec b sqrtB bigB tol rc m x0).iter = m ∧
    (iterates mv resid prec b sqrtB bigB tol rc M x0)[m]'(by rw [iterates_length]; omega) =
      (pcg mv resid prec b sqrtB bigB tol rc m x0).x := by
  refine ⟨by rw [pcg_prefix_iter mv resid prec b sqrtB bigB tol rc x0 m M hm]; omega, ?_⟩
  rw [iterates_getElem, pcg_prefix_x mv resid prec b sqrtB bigB tol rc x0 m M hm]

end PCG

/-! ## 7. Examples: the hypotheses are satisfiable; concrete runs over `Rat` -/

section Examples

/-- SPD 2×2 system `A = [[2,−1],[−1,2]]`, `b = [1,0]`, solution `[2/3, 1/3]` -/
def A2 : List (List Rat) := [[2, -1], [-1, 2]]
def b2 : List Rat := [1, 0]
def resid2 (x : List Rat) : List Rat := axpy b2 (matMv A2 x) (-1)
/-- Jacobi preconditioner: divide by the diagonal entry 2 -/
def jac2 (v : List Rat) : List Rat := v.map (· / 2)

theorem linSys2 : LinSys 2 (matMv A2) resid2 b2 := matMv_linSys A2 b2 rfl rfl
theorem jac2_length (v : List Rat) (h : v.length = 2) : (jac2 v).length = 2 := by
  simp [jac2, h]

-- `⟨b, M⁻¹ b⟩ = 1/2`; `sqrtB`, `bigB` only enter the tolerance (here `tol = 0`: never `break`)
example : dot b2 (jac2 b2) = 1/2 := by decide +kernel
-- period 8 (the code): converges in two steps; the history has `iter + 1` entries
example : (pcg (matMv A2) resid2 jac2 b2 1 true 0 8 2 [0, 0]).res = [1, 1/4, 0] := by
  decide +kernel
example : (pcg (matMv A2) resid2 jac2 b2 1 true 0 8 2 [0, 0]).x = [2/3, 1/3] := by decide +kernel
example : (pcg (matMv A2) resid2 jac2 b2 1 true 0 8 2 [0, 0]).iter = 2 := by decide +kernel
-- the first two reported entries are the true `⟨b − A x_k, M⁻¹(b − A x_k)⟩ / ⟨b, M⁻¹ b⟩`
example : (iterates (matMv A2) resid2 jac2 b2 1 true 0 8 2 [0, 0]) =
    [[0, 0], [1/2, 0], [2/3, 1/3]] := by decide +kernel
example : ((iterates (matMv A2) resid2 jac2 b2 1 true 0 8 2 [0, 0]).map
    fun x => dot (resid2 x) (jac2 (resid2 x)) / dot b2 (jac2 b2)) = [1, 1/4, 0] := by
  decide +kernel
-- the invariant `r = b − A x` after each step, for periods 8, 0, 1 and 2
example : ∀ k ∈ [0, 1, 2], (stateAt (matMv A2) resid2 jac2 b2 1 true 0 8 2 [0, 0] k).r =
    resid2 (xAt (matMv A2) resid2 jac2 b2 1 true 0 8 2 [0, 0] k) := by decide +kernel
example : ∀ rc ∈ [0, 1, 2], ∀ k ∈ [0, 1, 2, 3],
    (stateAt (matMv A2) resid2 jac2 b2 1 true 0 rc 3 [0, 0] k).r =
      resid2 (xAt (matMv A2) resid2 jac2 b2 1 true 0 rc 3 [0, 0] k) := by decide +kernel
-- recompute every iteration vs never: the same first entries (index 0 and 1) …
example : (pcg (matMv A2) resid2 jac2 b2 1 true 0 1 2 [0, 0]).res.take 2 =
    (pcg (matMv A2) resid2 jac2 b2 1 true 0 0 2 [0, 0]).res.take 2 := by decide +kernel
example : (pcg (matMv A2) resid2 jac2 b2 1 true 0 1 2 [0, 0]).res.take 2 = [1, 1/4] := by
  decide +kernel
-- … but not the same run: a "full" iteration also resets the direction `p := z`, so period 1 is
-- preconditioned steepest descent (history `[1, 1/4, 1/16]`, not `[1, 1/4, 0]`); each history is
-- nevertheless the true one of its own iterates
example : (pcg (matMv A2) resid2 jac2 b2 1 true 0 1 2 [0, 0]).res = [1, 1/4, 1/16] := by
  decide +kernel
example : ((iterates (matMv A2) resid2 jac2 b2 1 true 0 1 2 [0, 0]).map
    fun x => dot (resid2 x) (jac2 (resid2 x)) / dot b2 (jac2 b2)) = [1, 1/4, 1/16] := by
  decide +kernel
-- periods 0 and 8 agree below 8 iterations (`pcg_period_zero_eight`), concretely
example : (pcg (matMv A2) resid2 jac2 b2 1 true 0 0 2 [0, 0]).res =
    (pcg (matMv A2) resid2 jac2 b2 1 true 0 8 2 [0, 0]).res := by decide +kernel
-- tolerance: `tol' = tol·sqrtB = 1/2`, threshold `tol'² = 1/4`; `next = 1/8 < 1/4` at iteration 1: `break`
example : (pcg (matMv A2) resid2 jac2 b2 1 true (1/2) 8 5 [0, 0]).iter = 1 := by decide +kernel
example : (pcg (matMv A2) resid2 jac2 b2 1 true (1/2) 8 5 [0, 0]).stopped = true := by
  decide +kernel
example : (pcg (matMv A2) resid2 jac2 b2 1 true (1/2) 8 5 [0, 0]).res = [1, 1/4] := by
  decide +kernel
-- a start that is the solution meets every tolerance: no iteration, one reported entry, nothing divided by zero
example : (pcg (matMv A2) resid2 jac2 b2 1 true (1/100) 8 5 [2/3, 1/3]).iter = 0 ∧
    (pcg (matMv A2) resid2 jac2 b2 1 true (1/100) 8 5 [2/3, 1/3]).res = [0] ∧
    (pcg (matMv A2) resid2 jac2 b2 1 true (1/100) 8 5 [2/3, 1/3]).x = [2/3, 1/3] := by decide +kernel
-- zero right-hand side (`bigB = false`: absolute residuals, scale 1), start 0: the same
example : (pcg (matMv A2) (fun x => axpy [0, 0] (matMv A2 x) (-1)) jac2 [0, 0] 0 false (1/100) 8 5 [0, 0]).res = [0] ∧
    (pcg (matMv A2) (fun x => axpy [0, 0] (matMv A2 x) (-1)) jac2 [0, 0] 0 false (1/100) 8 5 [0, 0]).x = [0, 0] := by
  decide +kernel
-- iteration limit 1: a prefix of the longer run
example : (pcg (matMv A2) resid2 jac2 b2 1 true 0 8 1 [0, 0]).res = [1, 1/4] := by decide +kernel
example : (pcg (matMv A2) resid2 jac2 b2 1 true 0 8 1 [0, 0]).x = [1/2, 0] := by decide +kernel

-- the theorems instantiate on the concrete system
example (rc maxIter : Nat) :
    (pcg (matMv A2) resid2 jac2 b2 1 true 0 rc maxIter [0, 0]).r =
      resid2 (pcg (matMv A2) resid2 jac2 b2 1 true 0 rc maxIter [0, 0]).x :=
  pcg_residual_true 1 true 0 rc maxIter [0, 0] linSys2 jac2_length rfl

example (rc maxIter : Nat) :
    (pcg (matMv A2) resid2 jac2 b2 1 true 0 rc maxIter [0, 0]).res =
      (iterates (matMv A2) resid2 jac2 b2 1 true 0 rc maxIter [0, 0]).map
        fun x => dot (resid2 x) (jac2 (resid2 x)) / dot b2 (jac2 b2) :=
  pcg_reported_true 1 true 0 rc maxIter [0, 0] linSys2 jac2_length rfl

end Examples

end Raptor.C17Pcg
