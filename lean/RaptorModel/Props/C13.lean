import RaptorModel.Lemmas.SplitLemmas
import Mathlib.Algebra.Order.Ring.Unbundled.Rat
/-!
# C13 — coarse/fine splittings terminate and label every point

Property: every weight-driven coarsening routine (PMIS, CLJP) terminates and labels every point
coarse or fine; with caller-supplied weights the result does not depend on how the vertices are
distributed over processes.

**Partition independence.** `Split.pmis S rand natCast` and `Split.cljp S rand natCast` are
functions of the strength graph `S` and the weight data only: the model runs synchronous rounds in
which every vertex reads the labels and weights of the previous round, and no process count or
ownership map occurs among the arguments. There is nothing to prove beyond the fact that the model
IS that function; the correspondence check (Driver/C13) compares the distributed implementation,
for every partition, with this one function.

All theorems are over an arbitrary linearly ordered weight type `W` with `0`, `1` (and `+`, `-`
where the model needs them); the only order fact used by the termination theorems is `0 < 1`,
stated as a hypothesis `h01`. Graphs are arbitrary lists of rows (any size, out-of-range column
indices and self-loops allowed).

## What is proved (numbers = targets of the task)

1. `pmisRound_length`, `pmisRound_labelsOk` — shape, labels stay in `{1,0,-1}`.
2. `pmisRound_keeps`, `pmisRound_keeps_coarse`, `pmisRound_keeps_fine` — assigned stays assigned
   (needs no invariant).
3. `WInv` — assigned vertices have weight `< 1`, unassigned `≥ 1`. (The requested form "assigned
   vertices have weight 0" — here `WInv0` — is FALSE for the initial PMIS state: a vertex nobody
   depends on is fine at once but keeps its weight `rand i`. `WInv0` is preserved by a round,
   `pmisRound_winv0`, and holds after every CLJP round, `cljpRound_winv0`.) `pmisInit_inv`,
   `pmisRound_winv`, `pmisRound_inv`; `w0_lt_one_iff` relates "initial weight `< 1`" to "nobody
   depends on the vertex" under the `rand ∈ [0,1)` / `natCast` hypotheses.
4. `newCoarse_nonempty`, `pmisRound_progress`, `pmisRound_distinct` — progress holds WITHOUT
   distinct weights (an unassigned vertex of maximum weight is selected even with ties).
5. `pmis_iter_total`, `pmis_total` — after `S.length` rounds everything is labelled; `total = true`.
6. `pmis_coarse_pair` (if `i` depends on `j` and both end coarse then `i` was selected strictly
   earlier, while `j` was unassigned), `pmis_independent` (mutually dependent vertices are never
   both coarse), `pmis_coarseCovers`; adjacent coarse vertices DO occur on non-symmetric graphs —
   see the `example`s at the end.
7. `pmis_fine_reason`, `pmis_fine_reason'`.
8. `cljpRound_shape'`, `cljpRound_labelsOk`, `cljpRound_keeps`, `cljpRound_winv0`,
   `cljpRound_progress`, `cljp_total`.
9. `total_iff`, `fineHasCoarse_iff`, `hasUsableEdge_iff`, `total_of_all_assigned`.
-/
set_option linter.unusedSectionVars false

namespace Raptor.C13
open Raptor.Split

/-! ## State predicates -/
section Defs
variable {W : Type} [LinearOrder W] [Zero W] [One W]

/-- both lists of the state have one entry per vertex -/
def Shape (S : Graph) (s : St W) : Prop :=
  s.labels.length = S.length ∧ s.weights.length = S.length

/-- labels are coarse (1), fine (0) or unassigned (-1) -/
def LabelsOk (S : Graph) (s : St W) : Prop :=
  ∀ i, i < S.length → lab s i = 1 ∨ lab s i = 0 ∨ lab s i = -1

/-- weight invariant: assigned vertices have weight below 1, unassigned vertices at least 1 -/
def WInv (S : Graph) (s : St W) : Prop :=
  ∀ i, i < S.length → (lab s i ≠ -1 → wt s i < 1) ∧ (lab s i = -1 → 1 ≤ wt s i)

/-- strong weight invariant: assigned vertices have weight exactly 0 -/
def WInv0 (S : Graph) (s : St W) : Prop :=
  ∀ i, i < S.length → (lab s i ≠ -1 → wt s i = 0) ∧ (lab s i = -1 → 1 ≤ wt s i)

/-- unassigned vertices have pairwise distinct weights -/
def Distinct (S : Graph) (s : St W) : Prop :=
  ∀ i j, i < S.length → j < S.length → lab s i = -1 → lab s j = -1 → wt s i = wt s j → i = j

/-- number of unassigned vertices -/
def unassignedCount (S : Graph) (s : St W) : Nat :=
  (List.range S.length).countP fun i => lab s i == -1

/-- the three invariants every round preserves -/
def Inv (S : Graph) (s : St W) : Prop := Shape S s ∧ LabelsOk S s ∧ WInv S s

theorem WInv0.toWInv {S : Graph} {s : St W} (h01 : (0 : W) < 1) (h : WInv0 S s) : WInv S s :=
  fun i hi => ⟨fun hne => by rw [(h i hi).1 hne]; exact h01, (h i hi).2⟩

theorem wt_out_of_range {S : Graph} {s : St W} (hs : Shape S s) {v : Nat} (hv : S.length ≤ v) :
    wt s v = 0 := by
  unfold wt
  exact getD_of_length_le _ _ _ (by rw [hs.2]; exact hv)

theorem lab_out_of_range {S : Graph} {s : St W} (hs : Shape S s) {v : Nat} (hv : S.length ≤ v) :
    lab s v = 0 := by
  unfold lab
  exact getD_of_length_le _ _ _ (by rw [hs.1]; exact hv)

theorem unassignedCount_le (S : Graph) (s : St W) : unassignedCount S s ≤ S.length := by
  unfold unassignedCount
  have h := List.countP_le_length (p := fun i => lab s i == -1) (l := List.range S.length)
  rwa [List.length_range] at h

theorem unassignedCount_eq_zero {S : Graph} {s : St W} :
    unassignedCount S s = 0 ↔ ∀ i, i < S.length → lab s i ≠ -1 := by
  simp [unassignedCount, List.countP_eq_zero]

end Defs

/-! ## 1–4. One PMIS round -/
section PmisRound
variable {W : Type} [LinearOrder W] [Zero W] [One W]
variable {S : Graph} {s : St W}

/-- (1) a round produces one label and one weight per vertex -/
theorem pmisRound_length (S : Graph) (s : St W) :
    (pmisRound S s).labels.length = S.length ∧ (pmisRound S s).weights.length = S.length := by
  constructor
  · rw [pmisRound_labels]; simp
  · rw [pmisRound_weights]; simp

theorem pmisRound_shape (S : Graph) (s : St W) : Shape S (pmisRound S s) := pmisRound_length S s

/-- (2) an assigned vertex keeps its label -/
theorem pmisRound_keeps {i : Nat} (hi : i < S.length) (h : lab s i ≠ -1) :
    lab (pmisRound S s) i = lab s i := by
  rw [lab_pmisRound hi]
  have h1 : i ∉ newCoarse S s := fun hm => h (mem_newCoarse.mp hm).2.1
  have h2 : ¬ newF S s i = true := fun hf => h (newF_iff.mp hf).1
  rw [if_neg h1, if_neg h2]

theorem pmisRound_keeps_coarse {i : Nat} (hi : i < S.length) (h : lab s i = 1) :
    lab (pmisRound S s) i = 1 := by
  rw [pmisRound_keeps hi (by rw [h]; decide), h]

theorem pmisRound_keeps_fine {i : Nat} (hi : i < S.length) (h : lab s i = 0) :
    lab (pmisRound S s) i = 0 := by
  rw [pmisRound_keeps hi (by rw [h]; decide), h]

/-- a vertex that is unassigned after the round was unassigned before, was not touched, and keeps
    its weight -/
theorem pmisRound_unassigned {i : Nat} (hi : i < S.length) (h : lab (pmisRound S s) i = -1) :
    lab s i = -1 ∧ i ∉ newCoarse S s ∧ ¬ newF S s i = true ∧ wt (pmisRound S s) i = wt s i := by
  rw [lab_pmisRound hi] at h
  by_cases h1 : i ∈ newCoarse S s
  · rw [if_pos h1] at h; exact absurd h (by decide)
  · rw [if_neg h1] at h
    by_cases h2 : newF S s i = true
    · rw [if_pos h2] at h; exact absurd h (by decide)
    · rw [if_neg h2] at h
      refine ⟨h, h1, h2, ?_⟩
      rw [wt_pmisRound hi, if_neg (by rintro (h' | h') <;> contradiction)]

/-- a new coarse point is labelled 1 -/
theorem pmisRound_newCoarse {i : Nat} (h : i ∈ newCoarse S s) : lab (pmisRound S s) i = 1 := by
  rw [lab_pmisRound (mem_newCoarse.mp h).1, if_pos h]

/-- an unassigned, unselected vertex that depends on a new coarse point is labelled 0 -/
theorem pmisRound_newFine {i : Nat} (hi : i < S.length) (h : newF S s i = true) :
    lab (pmisRound S s) i = 0 := by
  rw [lab_pmisRound hi, if_neg (newF_iff.mp h).2.1, if_pos h]

/-- (1) labels stay in `{1, 0, -1}` -/
theorem pmisRound_labelsOk (h : LabelsOk S s) : LabelsOk S (pmisRound S s) := by
  intro i hi
  rw [lab_pmisRound hi]
  split
  · exact Or.inl rfl
  · split
    · exact Or.inr (Or.inl rfl)
    · exact h i hi

/-- (3) the weight invariant is preserved -/
theorem pmisRound_winv (h01 : (0 : W) < 1) (h : WInv S s) : WInv S (pmisRound S s) := by
  intro i hi
  refine ⟨fun _ => ?_, fun hu => ?_⟩
  · rw [wt_pmisRound hi]
    split
    · exact h01
    · rename_i hn
      have h1 : i ∉ newCoarse S s := fun hm => hn (Or.inl hm)
      have h2 : ¬ newF S s i = true := fun hm => hn (Or.inr hm)
      by_cases hl : lab s i = -1
      · exfalso
        have := lab_pmisRound (S := S) (s := s) hi
        rw [if_neg h1, if_neg h2] at this
        exact ‹lab (pmisRound S s) i ≠ -1› (this.trans hl)
      · exact (h i hi).1 hl
  · obtain ⟨hl, _, _, hw⟩ := pmisRound_unassigned hi hu
    rw [hw]; exact (h i hi).2 hl

/-- (3, strong form) assigned vertices get weight exactly 0 once the strong invariant holds -/
theorem pmisRound_winv0 (h : WInv0 S s) : WInv0 S (pmisRound S s) := by
  intro i hi
  refine ⟨fun hne => ?_, fun hu => ?_⟩
  · rw [wt_pmisRound hi]
    split
    · rfl
    · rename_i hn
      have h1 : i ∉ newCoarse S s := fun hm => hn (Or.inl hm)
      have h2 : ¬ newF S s i = true := fun hm => hn (Or.inr hm)
      have := lab_pmisRound (S := S) (s := s) hi
      rw [if_neg h1, if_neg h2] at this
      exact (h i hi).1 (fun hl => hne (this.trans hl))
  · obtain ⟨hl, _, _, hw⟩ := pmisRound_unassigned hi hu
    rw [hw]; exact (h i hi).2 hl

theorem pmisRound_inv (h01 : (0 : W) < 1) (h : Inv S s) : Inv S (pmisRound S s) :=
  ⟨pmisRound_shape S s, pmisRound_labelsOk h.2.1, pmisRound_winv h01 h.2.2⟩

/-- (4) distinctness of the weights of unassigned vertices is preserved -/
theorem pmisRound_distinct (h : Distinct S s) : Distinct S (pmisRound S s) := by
  intro i j hi hj hli hlj hw
  obtain ⟨hi1, _, _, hi2⟩ := pmisRound_unassigned hi hli
  obtain ⟨hj1, _, _, hj2⟩ := pmisRound_unassigned hj hlj
  exact h i j hi hj hi1 hj1 (by rw [← hi2, ← hj2, hw])

/-- an unassigned vertex whose weight is not exceeded anywhere is selected -/
theorem newCoarse_mem_of_max {u : Nat} (hu : u < S.length) (hl : lab s u = -1)
    (hmax : ∀ v, wt s v ≤ wt s u) : u ∈ newCoarse S s :=
  mem_newCoarse.mpr ⟨hu, hl, fun v _ => not_lt.mpr (hmax v), fun v _ _ => not_lt.mpr (hmax v)⟩

/-- (4/8) selection is never empty while something is unassigned, for any threshold `b` that
    separates the weights of unassigned vertices from all other weights. Ties do not block:
    a vertex is selected iff no neighbour has a strictly larger weight. -/
theorem newCoarse_nonempty_thr (b : W)
    (hlow : ∀ v, (v < S.length ∧ lab s v = -1) ∨ wt s v ≤ b)
    (hhigh : ∀ u, u < S.length → lab s u = -1 → b ≤ wt s u)
    (hex : ∃ i, i < S.length ∧ lab s i = -1) : newCoarse S s ≠ [] := by
  obtain ⟨i0, hi0, hl0⟩ := hex
  have hne : (List.range S.length).filter (fun i => lab s i == -1) ≠ [] :=
    List.ne_nil_of_mem (List.mem_filter.mpr ⟨List.mem_range.mpr hi0, by simp [hl0]⟩)
  obtain ⟨u, hu, hmax⟩ := exists_max_of_ne_nil (wt s) _ hne
  have hu' := List.mem_filter.mp hu
  have hun : u < S.length := List.mem_range.mp hu'.1
  have hul : lab s u = -1 := by simpa using hu'.2
  refine List.ne_nil_of_mem (newCoarse_mem_of_max hun hul fun v => ?_)
  rcases hlow v with ⟨hv, hvl⟩ | hv
  · exact hmax v (List.mem_filter.mpr ⟨List.mem_range.mpr hv, by simp [hvl]⟩)
  · exact le_trans hv (hhigh u hun hul)

/-- (4/8) `newCoarse_nonempty`: under the weight invariant, some vertex is selected whenever some
    vertex is unassigned — no distinctness of weights is needed -/
theorem newCoarse_nonempty (h01 : (0 : W) < 1) (hs : Shape S s) (hw : WInv S s)
    (hex : ∃ i, i < S.length ∧ lab s i = -1) : newCoarse S s ≠ [] := by
  refine newCoarse_nonempty_thr 1 (fun v => ?_) (fun u hu hl => (hw u hu).2 hl) hex
  by_cases hv : v < S.length
  · by_cases hl : lab s v = -1
    · exact Or.inl ⟨hv, hl⟩
    · exact Or.inr (le_of_lt ((hw v hv).1 hl))
  · exact Or.inr (by rw [wt_out_of_range hs (Nat.le_of_not_lt hv)]; exact le_of_lt h01)

/-- the number of unassigned vertices never grows -/
theorem pmisRound_count_mono (S : Graph) (s : St W) :
    unassignedCount S (pmisRound S s) ≤ unassignedCount S s := by
  unfold unassignedCount
  refine countP_le_of_imp _ _ _ fun x hx hp => ?_
  have := (pmisRound_unassigned (List.mem_range.mp hx) (by simpa using hp)).1
  simp [this]

/-- (4) **progress**: while a vertex is unassigned, a round assigns at least one vertex -/
theorem pmisRound_progress (h01 : (0 : W) < 1) (hs : Shape S s) (hw : WInv S s)
    (hex : ∃ i, i < S.length ∧ lab s i = -1) :
    newCoarse S s ≠ [] ∧ unassignedCount S (pmisRound S s) < unassignedCount S s := by
  have hne := newCoarse_nonempty h01 hs hw hex
  refine ⟨hne, ?_⟩
  obtain ⟨u, hu⟩ := List.exists_mem_of_ne_nil _ hne
  have hu' := mem_newCoarse.mp hu
  unfold unassignedCount
  refine countP_lt_countP _ _ _ (fun x hx hp => ?_) ⟨u, List.mem_range.mpr hu'.1, ?_, ?_⟩
  · have := (pmisRound_unassigned (List.mem_range.mp hx) (by simpa using hp)).1
    simp [this]
  · simp [hu'.2.1]
  · simp [pmisRound_newCoarse hu]

/-- each round lowers the count of unassigned vertices by at least one (down to 0) -/
theorem pmisRound_count_le (h01 : (0 : W) < 1) (h : Inv S s) :
    unassignedCount S (pmisRound S s) ≤ unassignedCount S s - 1 := by
  by_cases hex : ∃ i, i < S.length ∧ lab s i = -1
  · have := (pmisRound_progress h01 h.1 h.2.2 hex).2
    omega
  · have h0 : unassignedCount S s = 0 :=
      unassignedCount_eq_zero.mpr fun i hi hl => hex ⟨i, hi, hl⟩
    have := pmisRound_count_mono S s
    omega

end PmisRound

/-! ## 9. Specification predicates unfolded -/
section Spec

theorem getD_default_irrel {α : Type} (l : List α) (i : Nat) (d d' : α) (h : i < l.length) :
    l.getD i d = l.getD i d' := by
  simp [List.getD_eq_getElem?_getD, h]

theorem total_iff (S : Graph) (labels : List Int) :
    total S labels = true ↔ labels.length = S.length ∧ ∀ i, i < S.length →
      labels.getD i 9 = 1 ∨ labels.getD i 9 = 0 ∨ (labels.getD i 9 = -2 ∧ S.getD i [] = []) := by
  simp [total, List.all_eq_true, List.isEmpty_iff, or_assoc]

theorem fineHasCoarse_iff (S : Graph) (labels : List Int) :
    fineHasCoarse S labels = true ↔ ∀ i, i < S.length → labels.getD i 9 = 0 →
      S.getD i [] = [] ∨ ∃ j ∈ S.getD i [], labels.getD j 9 = 1 := by
  simp only [fineHasCoarse, List.all_eq_true, List.mem_range, Bool.or_eq_true, bne_iff_ne, ne_eq,
    List.isEmpty_iff, List.any_eq_true, beq_iff_eq]
  constructor
  · intro h i hi h0
    rcases h i hi with (h' | h') | h'
    · exact absurd h0 h'
    · exact Or.inl h'
    · exact Or.inr h'
  · intro h i hi
    by_cases h0 : labels.getD i 9 = 0
    · rcases h i hi h0 with h' | h'
      · exact Or.inl (Or.inr h')
      · exact Or.inr h'
    · exact Or.inl (Or.inl h0)

theorem hasUsableEdge_iff (S : Graph) :
    hasUsableEdge S = true ↔ ∃ i, i < S.length ∧ ∃ j ∈ S.getD i [], S.getD j [] ≠ [] := by
  simp [hasUsableEdge, List.any_eq_true]

/-- a list of labels that are all 1 or 0 (read with default 0) is `total` -/
theorem total_of_all_assigned (S : Graph) (labels : List Int) (hlen : labels.length = S.length)
    (h : ∀ i, i < S.length → labels.getD i 0 = 1 ∨ labels.getD i 0 = 0) : total S labels = true := by
  rw [total_iff]
  refine ⟨hlen, fun i hi => ?_⟩
  rw [getD_default_irrel labels i 9 0 (by rw [hlen]; exact hi)]
  rcases h i hi with h | h
  · exact Or.inl h
  · exact Or.inr (Or.inl h)

end Spec

/-! ## 5. PMIS terminates and labels every vertex -/
section Pmis
variable {W : Type} [LinearOrder W] [Zero W] [One W]
variable {S : Graph}

theorem pmis_iter_inv (h01 : (0 : W) < 1) (k : Nat) (s : St W) (h : Inv S s) :
    Inv S (iterN (pmisRound S) k s) :=
  iterN_inv (pmisRound S) (Inv S) (fun _ ha => pmisRound_inv h01 ha) k s h

theorem pmis_iter_distinct (k : Nat) (s : St W) (h : Distinct S s) :
    Distinct S (iterN (pmisRound S) k s) :=
  iterN_inv (pmisRound S) (Distinct S) (fun _ ha => pmisRound_distinct ha) k s h

theorem pmis_iter_shape (k : Nat) (s : St W) (h : Shape S s) :
    Shape S (iterN (pmisRound S) k s) :=
  iterN_inv (pmisRound S) (Shape S) (fun a _ => pmisRound_shape S a) k s h

/-- assigned vertices keep their label through any number of rounds -/
theorem pmis_iter_keeps {i : Nat} (hi : i < S.length) :
    ∀ (k : Nat) (s : St W), lab s i ≠ -1 → lab (iterN (pmisRound S) k s) i = lab s i
  | 0, _, _ => rfl
  | k + 1, s, h => by
    show lab (iterN (pmisRound S) k (pmisRound S s)) i = lab s i
    have h1 := pmisRound_keeps hi h
    rw [pmis_iter_keeps hi k (pmisRound S s) (by rw [h1]; exact h), h1]

theorem pmis_iter_keeps_le {i : Nat} (hi : i < S.length) {k1 k2 : Nat} (hk : k1 ≤ k2) (s : St W)
    (h : lab (iterN (pmisRound S) k1 s) i ≠ -1) :
    lab (iterN (pmisRound S) k2 s) i = lab (iterN (pmisRound S) k1 s) i := by
  obtain ⟨d, rfl⟩ := Nat.exists_eq_add_of_le hk
  rw [iterN_add]
  exact pmis_iter_keeps hi d _ h

/-- after `k` rounds at most `count - k` vertices are unassigned -/
theorem pmis_iter_count (h01 : (0 : W) < 1) :
    ∀ (k : Nat) (s : St W), Inv S s →
      unassignedCount S (iterN (pmisRound S) k s) ≤ unassignedCount S s - k
  | 0, _, _ => Nat.le_refl _
  | k + 1, s, h => by
    have ih := pmis_iter_count h01 k (pmisRound S s) (pmisRound_inv h01 h)
    have h1 := pmisRound_count_le h01 h
    show unassignedCount S (iterN (pmisRound S) k (pmisRound S s)) ≤ _
    omega

/-- (5) from any state satisfying the invariants, `S.length` rounds assign every vertex -/
theorem pmis_iter_total (h01 : (0 : W) < 1) (s : St W) (h : Inv S s) :
    ∀ i, i < S.length → lab (iterN (pmisRound S) S.length s) i = 1 ∨
      lab (iterN (pmisRound S) S.length s) i = 0 := by
  intro i hi
  have hc := pmis_iter_count h01 S.length s h
  have hle := unassignedCount_le S s
  have h0 : unassignedCount S (iterN (pmisRound S) S.length s) = 0 := by omega
  have hne := unassignedCount_eq_zero.mp h0 i hi
  rcases (pmis_iter_inv h01 S.length s h).2.1 i hi with h1 | h1 | h1
  · exact Or.inl h1
  · exact Or.inr h1
  · exact absurd h1 hne

variable [Add W]

/-- initial weight of vertex `i`: random part plus the number of vertices that depend on `i` -/
def w0 (S : Graph) (rand : List W) (natCast : Nat → W) (i : Nat) : W :=
  rand.getD i 0 + natCast (inDegree S i)

/-- the state `pmis` starts from -/
def pmisInit (S : Graph) (rand : List W) (natCast : Nat → W) : St W :=
  { labels := ((List.range S.length).map (w0 S rand natCast)).map fun w => if w < 1 then 0 else -1,
    weights := (List.range S.length).map (w0 S rand natCast) }

variable (rand : List W) (natCast : Nat → W)

theorem pmis_eq (S : Graph) :
    pmis S rand natCast = (iterN (pmisRound S) S.length (pmisInit S rand natCast)).labels := rfl

theorem lab_pmisInit {i : Nat} (hi : i < S.length) :
    lab (pmisInit S rand natCast) i = if w0 S rand natCast i < 1 then 0 else -1 := by
  unfold lab pmisInit
  simp only [List.map_map]
  rw [getD_map_range _ _ _ _ hi]
  rfl

theorem wt_pmisInit {i : Nat} (hi : i < S.length) :
    wt (pmisInit S rand natCast) i = w0 S rand natCast i := by
  unfold wt pmisInit
  simp only
  rw [getD_map_range _ _ _ _ hi]

/-- (3) the initial state satisfies the invariants. No assumption on `rand`/`natCast` is needed:
    the initial labels are *defined* by comparing the weight with 1. (Initially fine vertices keep
    their weight `rand i < 1`, which is why `WInv` says `< 1` and not `= 0`.) -/
theorem pmisInit_inv (S : Graph) : Inv S (pmisInit S rand natCast) := by
  refine ⟨⟨by simp [pmisInit], by simp [pmisInit]⟩, fun i hi => ?_, fun i hi => ?_⟩
  · rw [lab_pmisInit rand natCast hi]
    split
    · exact Or.inr (Or.inl rfl)
    · exact Or.inr (Or.inr rfl)
  · rw [lab_pmisInit rand natCast hi, wt_pmisInit rand natCast hi]
    by_cases h : w0 S rand natCast i < 1
    · rw [if_pos h]; exact ⟨fun _ => h, fun h' => absurd h' (by decide)⟩
    · rw [if_neg h]; exact ⟨fun h' => absurd rfl h', fun _ => not_lt.mp h⟩

/-- pairwise distinct initial weights give `Distinct` for the initial state -/
theorem pmisInit_distinct
    (hdist : ∀ i j, i < S.length → j < S.length → w0 S rand natCast i = w0 S rand natCast j → i = j) :
    Distinct S (pmisInit S rand natCast) := by
  intro i j hi hj _ _ hw
  rw [wt_pmisInit rand natCast hi, wt_pmisInit rand natCast hj] at hw
  exact hdist i j hi hj hw

theorem inDegree_eq_zero_iff (S : Graph) (i : Nat) :
    inDegree S i = 0 ↔ ∀ r, r < S.length → i ∉ S.getD r [] := by
  unfold inDegree
  rw [List.length_eq_zero_iff, List.eq_nil_iff_forall_not_mem]
  constructor
  · intro h r hr hm; exact h r (mem_dependents.mpr ⟨hr, hm⟩)
  · intro h r hm; exact h r (mem_dependents.mp hm).1 (mem_dependents.mp hm).2

/-- with random parts in `[0,1)` and `natCast` behaving like the cast of naturals, the initial
    weight is below 1 exactly for the vertices nobody depends on -/
theorem w0_lt_one_iff (hrand : ∀ i, 0 ≤ rand.getD i 0 ∧ rand.getD i 0 < 1)
    (hcast0 : natCast 0 = 0) (hcast1 : ∀ k, 1 ≤ natCast (k + 1))
    (hadd0 : ∀ a : W, a + 0 = a) (hadd_le : ∀ a b : W, 0 ≤ a → 1 ≤ b → 1 ≤ a + b) (i : Nat) :
    w0 S rand natCast i < 1 ↔ inDegree S i = 0 := by
  unfold w0
  cases hk : inDegree S i with
  | zero => rw [hcast0, hadd0]; exact ⟨fun _ => rfl, fun _ => (hrand i).2⟩
  | succ k =>
    refine ⟨fun h => ?_, fun h => by cases h⟩
    exact absurd h (not_lt.mpr (hadd_le _ _ (hrand i).1 (hcast1 k)))

theorem pmis_length (S : Graph) : (pmis S rand natCast).length = S.length := by
  rw [pmis_eq]
  exact (pmis_iter_shape _ _ (pmisInit_inv rand natCast S).1).1

theorem pmis_getD (S : Graph) (i : Nat) :
    (pmis S rand natCast).getD i 0 = lab (iterN (pmisRound S) S.length (pmisInit S rand natCast)) i :=
  rfl

/-- (5) **termination/totality**: after `S.length` rounds every vertex is coarse or fine. Only
    `0 < 1` is needed — ties between weights do not block progress (`newCoarse_nonempty`). -/
theorem pmis_total (h01 : (0 : W) < 1) (S : Graph) :
    (pmis S rand natCast).length = S.length ∧
    (∀ i, i < S.length → (pmis S rand natCast).getD i 0 = 1 ∨ (pmis S rand natCast).getD i 0 = 0) ∧
    total S (pmis S rand natCast) = true := by
  have h := fun i hi => pmis_iter_total h01 _ (pmisInit_inv rand natCast S) i hi
  exact ⟨pmis_length rand natCast S, h,
    total_of_all_assigned S _ (pmis_length rand natCast S) h⟩

/-! ## 6. Which coarse points can be adjacent -/

/-- with distinct weights two different adjacent vertices are never selected in the same round -/
theorem newCoarse_not_adjacent {s : St W} (hd : Distinct S s) {i j : Nat} (hi : i < S.length)
    (hij : i ≠ j) (hadj : j ∈ S.getD i []) (hci : i ∈ newCoarse S s) (hcj : j ∈ newCoarse S s) :
    False := by
  have hi' := mem_newCoarse.mp hci
  have hj' := mem_newCoarse.mp hcj
  have h1 : wt s j ≤ wt s i := not_lt.mp (hi'.2.2.1 j hadj)
  have h2 : wt s i ≤ wt s j := not_lt.mp (hj'.2.2.2 i hi hadj)
  exact hij (hd i j hi hj'.1 hi'.2.1 hj'.2.1 (le_antisymm h2 h1))

/-- invariant behind (6): every vertex that depends on a coarse point is assigned -/
def CoarseCovers (S : Graph) (s : St W) : Prop :=
  ∀ i c, i < S.length → c ∈ S.getD i [] → lab s c = 1 → lab s i ≠ -1

theorem pmisRound_coarseCovers {s : St W} (h : CoarseCovers S s) :
    CoarseCovers S (pmisRound S s) := by
  intro i c hi hc hlc hli
  obtain ⟨hl, hnc, hnf, _⟩ := pmisRound_unassigned hi hli
  have hcn : c < S.length := by
    by_contra hge
    rw [lab_out_of_range (pmisRound_shape S s) (Nat.le_of_not_lt hge)] at hlc
    exact absurd hlc (by decide)
  by_cases hcc : c ∈ newCoarse S s
  · exact hnf (newF_iff.mpr ⟨hl, hnc, c, hc, hcc⟩)
  · by_cases hlc' : lab s c = -1
    · rw [lab_pmisRound hcn, if_neg hcc] at hlc
      split at hlc
      · exact absurd hlc (by decide)
      · rw [hlc'] at hlc; exact absurd hlc (by decide)
    · rw [pmisRound_keeps hcn hlc'] at hlc
      exact h i c hi hc hlc hl

/-- (6, trace form) if `i` depends on `j`, both different and both coarse after `m` rounds from a
    state with distinct weights in which `j` is unassigned, then at some earlier round `i` was
    already coarse while `j` was still unassigned: the *dependent* is always selected first. -/
theorem pmis_coarse_pair_aux {i j : Nat} (hi : i < S.length) (hj : j < S.length) (hij : i ≠ j)
    (hadj : j ∈ S.getD i []) :
    ∀ (m : Nat) (s : St W), Distinct S s → lab s j = -1 →
      lab (iterN (pmisRound S) m s) i = 1 → lab (iterN (pmisRound S) m s) j = 1 →
      ∃ k, k < m ∧ lab (iterN (pmisRound S) k s) i = 1 ∧ lab (iterN (pmisRound S) k s) j = -1
  | 0, s, _, hlj, _, hfj => by
    have : lab s j = 1 := hfj
    rw [hlj] at this; exact absurd this (by decide)
  | m + 1, s, hd, hlj, hfi, hfj => by
    have hfi' : lab (iterN (pmisRound S) m (pmisRound S s)) i = 1 := hfi
    have hfj' : lab (iterN (pmisRound S) m (pmisRound S s)) j = 1 := hfj
    by_cases hli : lab s i = -1
    · by_cases hj1 : lab (pmisRound S s) j = -1
      · obtain ⟨k, hk, h1, h2⟩ :=
          pmis_coarse_pair_aux hi hj hij hadj m (pmisRound S s) (pmisRound_distinct hd) hj1 hfi' hfj'
        exact ⟨k + 1, Nat.succ_lt_succ hk, h1, h2⟩
      · exfalso
        -- `j` is assigned by this round and ends coarse, so it is a new coarse point
        rw [pmis_iter_keeps hj m _ hj1] at hfj'
        have hjc : j ∈ newCoarse S s := by
          by_contra hnc
          rw [lab_pmisRound hj, if_neg hnc] at hfj'
          split at hfj'
          · exact absurd hfj' (by decide)
          · rw [hlj] at hfj'; exact absurd hfj' (by decide)
        have hic : i ∉ newCoarse S s := fun hic => newCoarse_not_adjacent hd hi hij hadj hic hjc
        have hnf : newF S s i = true := newF_iff.mpr ⟨hli, hic, j, hadj, hjc⟩
        have h0 := pmisRound_newFine hi hnf
        rw [pmis_iter_keeps hi m _ (by rw [h0]; decide), h0] at hfi'
        exact absurd hfi' (by decide)
    · have := pmis_iter_keeps hi (m + 1) s hli
      rw [this] at hfi
      exact ⟨0, Nat.succ_pos m, hfi, hlj⟩

/-- (6) **what holds for PMIS as modelled**: if `i` depends on `j` (`j ∈ S[i]`), `i ≠ j`, and both
    are coarse in the result, then `i` was selected strictly before `j`: at some round `k`, `i` is
    coarse and `j` still unassigned. (Only the dependents of a new coarse point become fine, so a
    vertex `j` that a coarse point depends on may be selected later; see `example` below.) -/
theorem pmis_coarse_pair
    (hdist : ∀ i j, i < S.length → j < S.length → w0 S rand natCast i = w0 S rand natCast j → i = j)
    {i j : Nat} (hi : i < S.length) (hij : i ≠ j) (hadj : j ∈ S.getD i [])
    (hci : (pmis S rand natCast).getD i 0 = 1) (hcj : (pmis S rand natCast).getD j 0 = 1) :
    ∃ k, k < S.length ∧ lab (iterN (pmisRound S) k (pmisInit S rand natCast)) i = 1 ∧
      lab (iterN (pmisRound S) k (pmisInit S rand natCast)) j = -1 := by
  rw [pmis_getD] at hci hcj
  have hj : j < S.length := by
    by_contra hge
    rw [lab_out_of_range (pmis_iter_shape _ _ (pmisInit_inv rand natCast S).1)
      (Nat.le_of_not_lt hge)] at hcj
    exact absurd hcj (by decide)
  have hlj : lab (pmisInit S rand natCast) j = -1 := by
    by_contra hne
    rw [pmis_iter_keeps hj _ _ hne, lab_pmisInit rand natCast hj] at hcj
    split at hcj <;> exact absurd hcj (by decide)
  exact pmis_coarse_pair_aux hi hj hij hadj S.length _ (pmisInit_distinct rand natCast hdist) hlj
    hci hcj

/-- (6) **independence on symmetric edges**: two different vertices that depend on each other are
    never both coarse (distinct initial weights). On a symmetric strength graph the coarse points
    therefore form an independent set. -/
theorem pmis_independent
    (hdist : ∀ i j, i < S.length → j < S.length → w0 S rand natCast i = w0 S rand natCast j → i = j)
    {i j : Nat} (hi : i < S.length) (hj : j < S.length) (hij : i ≠ j)
    (hadj : j ∈ S.getD i []) (hadj' : i ∈ S.getD j []) :
    ¬ ((pmis S rand natCast).getD i 0 = 1 ∧ (pmis S rand natCast).getD j 0 = 1) := by
  rintro ⟨hci, hcj⟩
  obtain ⟨k1, _, h1i, h1j⟩ := pmis_coarse_pair rand natCast hdist hi hij hadj hci hcj
  obtain ⟨k2, _, h2j, h2i⟩ := pmis_coarse_pair rand natCast hdist hj (Ne.symm hij) hadj' hcj hci
  rcases Nat.le_total k1 k2 with hk | hk
  · have := pmis_iter_keeps_le hi hk (pmisInit S rand natCast) (by rw [h1i]; decide)
    rw [h1i, h2i] at this; exact absurd this (by decide)
  · have := pmis_iter_keeps_le hj hk (pmisInit S rand natCast) (by rw [h2j]; decide)
    rw [h2j, h1j] at this; exact absurd this (by decide)

/-- (6) in the result every vertex that depends on a coarse point is itself assigned — the
    invariant `CoarseCovers` holds along the whole run (no distinctness needed) -/
theorem pmis_coarseCovers (k : Nat) :
    CoarseCovers S (iterN (pmisRound S) k (pmisInit S rand natCast)) := by
  have h0 : Shape S (pmisInit S rand natCast) ∧ CoarseCovers S (pmisInit S rand natCast) := by
    refine ⟨(pmisInit_inv rand natCast S).1, fun i c hi hc hlc => ?_⟩
    exfalso
    by_cases hcn : c < S.length
    · rw [lab_pmisInit rand natCast hcn] at hlc
      split at hlc <;> exact absurd hlc (by decide)
    · rw [lab_out_of_range (pmisInit_inv rand natCast S).1 (Nat.le_of_not_lt hcn)] at hlc
      exact absurd hlc (by decide)
  exact (iterN_inv (pmisRound S) (fun s => Shape S s ∧ CoarseCovers S s)
    (fun a ha => ⟨pmisRound_shape S a, pmisRound_coarseCovers ha.2⟩) k _ h0).2

/-! ## 7. Why a vertex is fine -/

/-- one round preserves "every fine vertex satisfies `P` or depends on a coarse point" -/
theorem pmisRound_fineReason (P : Nat → Prop) {s : St W} (hs : Shape S s)
    (h : ∀ i, i < S.length → lab s i = 0 → P i ∨ ∃ c ∈ S.getD i [], lab s c = 1) :
    ∀ i, i < S.length → lab (pmisRound S s) i = 0 →
      P i ∨ ∃ c ∈ S.getD i [], lab (pmisRound S s) c = 1 := by
  intro i hi hl
  by_cases h0 : lab s i = 0
  · rcases h i hi h0 with hp | ⟨c, hc, hlc⟩
    · exact Or.inl hp
    · have hcn : c < S.length := by
        by_contra hge
        rw [lab_out_of_range hs (Nat.le_of_not_lt hge)] at hlc
        exact absurd hlc (by decide)
      exact Or.inr ⟨c, hc, pmisRound_keeps_coarse hcn hlc⟩
  · rw [lab_pmisRound hi] at hl
    split at hl
    · exact absurd hl (by decide)
    · split at hl
      · rename_i hf
        obtain ⟨_, _, c, hc, hcc⟩ := newF_iff.mp hf
        exact Or.inr ⟨c, hc, pmisRound_newCoarse hcc⟩
      · exact absurd hl h0

/-- (7) every fine vertex of the result either had initial weight below 1 (it was made fine
    before the first round) or depends on a coarse vertex -/
theorem pmis_fine_reason (S : Graph) {i : Nat} (hi : i < S.length)
    (hf : (pmis S rand natCast).getD i 0 = 0) :
    w0 S rand natCast i < 1 ∨ ∃ c ∈ S.getD i [], (pmis S rand natCast).getD c 0 = 1 := by
  have h0 : Shape S (pmisInit S rand natCast) ∧ ∀ i, i < S.length →
      lab (pmisInit S rand natCast) i = 0 →
        w0 S rand natCast i < 1 ∨ ∃ c ∈ S.getD i [], lab (pmisInit S rand natCast) c = 1 := by
    refine ⟨(pmisInit_inv rand natCast S).1, fun i hi hl => ?_⟩
    rw [lab_pmisInit rand natCast hi] at hl
    split at hl
    · exact Or.inl ‹_›
    · exact absurd hl (by decide)
  exact (iterN_inv (pmisRound S)
    (fun s => Shape S s ∧ ∀ i, i < S.length → lab s i = 0 →
      w0 S rand natCast i < 1 ∨ ∃ c ∈ S.getD i [], lab s c = 1)
    (fun a ha => ⟨pmisRound_shape S a, pmisRound_fineReason _ ha.1 ha.2⟩) S.length _ h0).2 i hi hf

/-- (7) with random parts in `[0,1)`: a fine vertex is one nobody depends on, or it depends on a
    coarse vertex -/
theorem pmis_fine_reason' (hrand : ∀ i, 0 ≤ rand.getD i 0 ∧ rand.getD i 0 < 1)
    (hcast0 : natCast 0 = 0) (hcast1 : ∀ k, 1 ≤ natCast (k + 1))
    (hadd0 : ∀ a : W, a + 0 = a) (hadd_le : ∀ a b : W, 0 ≤ a → 1 ≤ b → 1 ≤ a + b)
    (S : Graph) {i : Nat} (hi : i < S.length) (hf : (pmis S rand natCast).getD i 0 = 0) :
    (∀ r, r < S.length → i ∉ S.getD r []) ∨
      ∃ c ∈ S.getD i [], (pmis S rand natCast).getD c 0 = 1 := by
  rcases pmis_fine_reason rand natCast S hi hf with h | h
  · exact Or.inl ((inDegree_eq_zero_iff S i).mp
      ((w0_lt_one_iff rand natCast hrand hcast0 hcast1 hadd0 hadd_le i).mp h))
  · exact Or.inr h

end Pmis

/-! ## 8. CLJP -/
section Cljp
variable {W : Type} [LinearOrder W] [Zero W] [One W] [Sub W]
variable {S : Graph}

/-- (8) a CLJP round produces one label and one weight per vertex -/
theorem cljpRound_shape' (S : Graph) (cs : CSt W) : Shape S (cljpRound S cs).st :=
  cljpRound_length S cs

/-- (8) an assigned vertex keeps its label -/
theorem cljpRound_keeps {i : Nat} (hi : i < S.length) (cs : CSt W) (h : lab cs.st i ≠ -1) :
    lab (cljpRound S cs).st i = lab cs.st i := by
  obtain ⟨w1, hp⟩ := cljpRound_pointwise S cs
  rw [(hp i hi).1, if_neg (fun hm => h (mem_newCoarse.mp hm).2.1), if_neg (fun hh => h hh.1)]

theorem cljpRound_newCoarse {i : Nat} (cs : CSt W) (h : i ∈ newCoarse S cs.st) :
    lab (cljpRound S cs).st i = 1 := by
  obtain ⟨w1, hp⟩ := cljpRound_pointwise S cs
  rw [(hp i (mem_newCoarse.mp h).1).1, if_pos h]

/-- a vertex unassigned after the round was unassigned before and was not selected -/
theorem cljpRound_unassigned {i : Nat} (hi : i < S.length) (cs : CSt W)
    (h : lab (cljpRound S cs).st i = -1) : lab cs.st i = -1 ∧ i ∉ newCoarse S cs.st := by
  by_cases hl : lab cs.st i = -1
  · refine ⟨hl, fun hm => ?_⟩
    rw [cljpRound_newCoarse cs hm] at h; exact absurd h (by decide)
  · rw [cljpRound_keeps hi cs hl] at h; exact absurd h hl

/-- (8) labels stay in `{1, 0, -1}` -/
theorem cljpRound_labelsOk (cs : CSt W) (h : LabelsOk S cs.st) : LabelsOk S (cljpRound S cs).st := by
  obtain ⟨w1, hp⟩ := cljpRound_pointwise S cs
  intro i hi
  rw [(hp i hi).1]
  split
  · exact Or.inl rfl
  · split
    · exact Or.inr (Or.inl rfl)
    · exact h i hi

/-- (8) after *any* CLJP round the strong weight invariant holds: assigned vertices have weight 0,
    unassigned ones weight at least 1 (`update_states` makes the others fine) -/
theorem cljpRound_winv0 (S : Graph) (cs : CSt W) : WInv0 S (cljpRound S cs).st := by
  obtain ⟨w1, hp⟩ := cljpRound_pointwise S cs
  intro i hi
  refine ⟨fun hne => ?_, fun hu => ?_⟩
  · rw [(hp i hi).2, if_pos hne]
  · rw [(hp i hi).2, if_neg (fun hne => hne hu)]
    have h1 := (hp i hi).1
    rw [hu] at h1
    by_cases hlt : w1.getD i 0 < 1
    · exfalso
      split at h1
      · exact absurd h1 (by decide)
      · by_cases hl : lab cs.st i = -1
        · rw [if_pos ⟨hl, hlt⟩] at h1; exact absurd h1 (by decide)
        · rw [if_neg (fun hh => hl hh.1)] at h1; exact hl h1.symm
    · exact not_lt.mp hlt

theorem cljpRound_count_mono (S : Graph) (cs : CSt W) :
    unassignedCount S (cljpRound S cs).st ≤ unassignedCount S cs.st := by
  unfold unassignedCount
  refine countP_le_of_imp _ _ _ fun x hx hp => ?_
  have := (cljpRound_unassigned (List.mem_range.mp hx) cs (by simpa using hp)).1
  simp [this]

/-- (8) **progress**: while a vertex is unassigned, a CLJP round assigns at least one vertex -/
theorem cljpRound_progress (h01 : (0 : W) < 1) (cs : CSt W) (hs : Shape S cs.st)
    (hw : WInv S cs.st) (hex : ∃ i, i < S.length ∧ lab cs.st i = -1) :
    newCoarse S cs.st ≠ [] ∧ unassignedCount S (cljpRound S cs).st < unassignedCount S cs.st := by
  have hne := newCoarse_nonempty h01 hs hw hex
  refine ⟨hne, ?_⟩
  obtain ⟨u, hu⟩ := List.exists_mem_of_ne_nil _ hne
  have hu' := mem_newCoarse.mp hu
  unfold unassignedCount
  refine countP_lt_countP _ _ _ (fun x hx hp => ?_) ⟨u, List.mem_range.mpr hu'.1, ?_, ?_⟩
  · have := (cljpRound_unassigned (List.mem_range.mp hx) cs (by simpa using hp)).1
    simp [this]
  · simp [hu'.2.1]
  · simp [cljpRound_newCoarse cs hu]

/-- invariants of the CLJP state from the end of the first round on -/
def CInv (S : Graph) (cs : CSt W) : Prop := Shape S cs.st ∧ LabelsOk S cs.st ∧ WInv0 S cs.st

theorem cljpRound_cinv (cs : CSt W) (h : LabelsOk S cs.st) : CInv S (cljpRound S cs) :=
  ⟨cljpRound_shape' S cs, cljpRound_labelsOk cs h, cljpRound_winv0 S cs⟩

theorem cljpRound_count_le (h01 : (0 : W) < 1) (cs : CSt W) (h : CInv S cs) :
    unassignedCount S (cljpRound S cs).st ≤ unassignedCount S cs.st - 1 := by
  by_cases hex : ∃ i, i < S.length ∧ lab cs.st i = -1
  · have := (cljpRound_progress h01 cs h.1 (h.2.2.toWInv h01) hex).2
    omega
  · have h0 : unassignedCount S cs.st = 0 :=
      unassignedCount_eq_zero.mpr fun i hi hl => hex ⟨i, hi, hl⟩
    have := cljpRound_count_mono S cs
    omega

theorem cljp_iter_cinv (k : Nat) (cs : CSt W) (h : CInv S cs) : CInv S (iterN (cljpRound S) k cs) :=
  iterN_inv (cljpRound S) (CInv S) (fun a ha => cljpRound_cinv a ha.2.1) k cs h

theorem cljp_iter_count (h01 : (0 : W) < 1) :
    ∀ (k : Nat) (cs : CSt W), CInv S cs →
      unassignedCount S (iterN (cljpRound S) k cs).st ≤ unassignedCount S cs.st - k
  | 0, _, _ => Nat.le_refl _
  | k + 1, cs, h => by
    have ih := cljp_iter_count h01 k (cljpRound S cs) (cljpRound_cinv cs h.2.1)
    have h1 := cljpRound_count_le h01 cs h
    show unassignedCount S (iterN (cljpRound S) k (cljpRound S cs)).st ≤ _
    omega

/-- assigned vertices keep their label through any number of CLJP rounds -/
theorem cljp_iter_keeps {i : Nat} (hi : i < S.length) :
    ∀ (k : Nat) (cs : CSt W), lab cs.st i ≠ -1 → lab (iterN (cljpRound S) k cs).st i = lab cs.st i
  | 0, _, _ => rfl
  | k + 1, cs, h => by
    show lab (iterN (cljpRound S) k (cljpRound S cs)).st i = lab cs.st i
    have h1 := cljpRound_keeps hi cs h
    rw [cljp_iter_keeps hi k (cljpRound S cs) (by rw [h1]; exact h), h1]

variable [Add W] (rand : List W) (natCast : Nat → W)

/-- the state `cljp` starts from: everything unassigned -/
def cljpInit (S : Graph) (rand : List W) (natCast : Nat → W) : CSt W :=
  { st := { labels := List.replicate S.length (-1),
            weights := (List.range S.length).map fun i => rand.getD i 0 + natCast (inDegree S i) },
    cleared := [] }

theorem cljp_eq (S : Graph) : cljp S rand natCast =
    (iterN (cljpRound S) S.length (cljpRound S (cljpInit S rand natCast))).st.labels := rfl

theorem cljpInit_labelsOk (S : Graph) : LabelsOk S (cljpInit S rand natCast).st := by
  intro i hi
  refine Or.inr (Or.inr ?_)
  unfold lab cljpInit
  simp [List.getD_eq_getElem?_getD, hi]

/-- (8) **CLJP terminates and labels every vertex**: the first round establishes the strong weight
    invariant whatever the initial weights are (vertices of weight below 1 become fine), and each
    of the following `S.length` rounds assigns at least one vertex. Only `0 < 1` is needed. -/
theorem cljp_total (h01 : (0 : W) < 1) (S : Graph) :
    (cljp S rand natCast).length = S.length ∧
    (∀ i, i < S.length → (cljp S rand natCast).getD i 0 = 1 ∨ (cljp S rand natCast).getD i 0 = 0) ∧
    total S (cljp S rand natCast) = true := by
  have h1 : CInv S (cljpRound S (cljpInit S rand natCast)) :=
    cljpRound_cinv _ (cljpInit_labelsOk rand natCast S)
  have hn := cljp_iter_cinv S.length _ h1
  have hlen : (cljp S rand natCast).length = S.length := by rw [cljp_eq]; exact hn.1.1
  have hall : ∀ i, i < S.length →
      (cljp S rand natCast).getD i 0 = 1 ∨ (cljp S rand natCast).getD i 0 = 0 := by
    intro i hi
    have hc := cljp_iter_count h01 S.length _ h1
    have hle := unassignedCount_le S (cljpRound S (cljpInit S rand natCast)).st
    have h0 : unassignedCount S
        (iterN (cljpRound S) S.length (cljpRound S (cljpInit S rand natCast))).st = 0 := by omega
    have hne := unassignedCount_eq_zero.mp h0 i hi
    rcases hn.2.1 i hi with h | h | h
    · exact Or.inl h
    · exact Or.inr h
    · exact absurd h hne
  exact ⟨hlen, hall, total_of_all_assigned S _ hlen hall⟩

end Cljp

/-! ## Concrete instances (`ℚ` weights, checked by kernel evaluation) -/
section Examples

/-- directed 3-cycle: 0 depends on 1, 1 on 2, 2 on 0; every in-degree is 1 -/
def cycle3 : Graph := [[1], [2], [0]]
def rand3 : List Rat := [1/2, 3/10, 1/10]
def castQ : Nat → Rat := fun k => (k : Rat)

/-- the weights 3/2, 13/10, 11/10 are pairwise distinct -/
theorem cycle3_distinct : ∀ i j, i < cycle3.length → j < cycle3.length →
    w0 cycle3 rand3 castQ i = w0 cycle3 rand3 castQ j → i = j := by
  have h : ∀ i, i < cycle3.length → ∀ j, j < cycle3.length →
      w0 cycle3 rand3 castQ i = w0 cycle3 rand3 castQ j → i = j := by decide +kernel
  exact fun i j hi hj => h i hi j hj

/-- round 1 selects vertex 0 (largest weight) and makes its dependent 2 fine; vertex 1, which 0
    depends on, stays unassigned … -/
example : (iterN (pmisRound cycle3) 1 (pmisInit cycle3 rand3 castQ)).labels = [1, -1, 0] := by
  decide +kernel

/-- … and is selected in round 2: vertices 0 and 1 are adjacent (`1 ∈ S[0]`) and both coarse.
    PMIS as modelled (only dependents of a new coarse point become fine) does not give an
    independent set on a non-symmetric strength graph. -/
example : pmis cycle3 rand3 castQ = [1, 1, 0] ∧ 1 ∈ cycle3.getD 0 [] := by decide +kernel

/-- `pmis_coarse_pair` on this instance: the dependent 0 was coarse while 1 was unassigned -/
example : ∃ k, k < 3 ∧ lab (iterN (pmisRound cycle3) k (pmisInit cycle3 rand3 castQ)) 0 = 1 ∧
    lab (iterN (pmisRound cycle3) k (pmisInit cycle3 rand3 castQ)) 1 = -1 :=
  pmis_coarse_pair rand3 castQ cycle3_distinct (i := 0) (j := 1) (by decide) (by decide)
    (by decide) (by decide +kernel) (by decide +kernel)

/-- the general theorems instantiate at `ℚ` (the hypotheses are satisfiable) -/
example (S : Graph) (rand : List Rat) : total S (pmis S rand castQ) = true :=
  (pmis_total rand castQ (by decide +kernel) S).2.2

example (S : Graph) (rand : List Rat) : total S (cljp S rand castQ) = true :=
  (cljp_total rand castQ (by decide +kernel) S).2.2

example : cljp cycle3 rand3 castQ = [1, 0, 1] := by decide +kernel

/-- symmetric path 0 — 1 — 2 — 3 with ties in the weights (all random parts equal): the rounds
    still terminate with a total labelling, and the coarse points 1, 2 … -/
def path4 : Graph := [[1], [0, 2], [1, 3], [2]]

example : pmis path4 [0, 0, 0, 0] castQ = [0, 1, 1, 0] ∧
    total path4 (pmis path4 [0, 0, 0, 0] castQ) = true := by decide +kernel

/-- … are adjacent: independence needs distinct weights (`pmis_independent`); with distinct
    weights the same graph gives an independent set -/
example : pmis path4 [1/10, 2/10, 3/10, 4/10] castQ = [1, 0, 1, 0] ∧
    fineHasCoarse path4 (pmis path4 [1/10, 2/10, 3/10, 4/10] castQ) = true := by decide +kernel

end Examples

end Raptor.C13

/- OPEN (not proved): none of the requested targets 1–9 is left open.
   Determined to be FALSE for this model (see the documentation above and the `example`s):
   * "assigned vertices have weight 0" for the initial PMIS state (they have weight `rand i < 1`);
   * unconditional independence of the PMIS coarse set on non-symmetric strength graphs
     (`cycle3`), and independence with tied weights (`path4`).
   Not attempted (outside the task list): an independence or fine-reason statement for CLJP — the
   weight decrements of `update_weights` can create ties between unassigned vertices, so the
   same-round argument `newCoarse_not_adjacent` does not carry over without a further invariant
   on the edge marks. -/
