import RaptorModel.Model.Split
namespace Raptor.C13
theorem placeholder : (1 : Nat) = 1 := rfl
end Raptor.C13
