import RaptorModel.Props.C06Par
import RaptorModel.Props.C03
/-!
# C06 — the rows a rank multiplies with are the owners' rows (composition with C03)

`Props/C06Par.lean` speaks of `heldRows offMap Bglobal`, the rows of `B` whose global indices are the rank's off-process
columns. `communicate(B)` obtains them with the standard package, whole rows (in global column numbering) as payload.
With C03's `exchange_delivers` — generic in the payload — the message-level exchange of the ranks' row slices returns
exactly `heldRows`, so `par_row` / `par_den` apply to what is received.
-/
namespace Raptor.C06Par
open Raptor.Sparse Raptor.Spgemm Raptor.Comm

variable {α : Type}

/-- the slices of a global list held by the ranks of a partition `fc` (rows of `B`, entries of a vector, …) -/
def slicesD (d : α) (fc : List Nat) (np : Nat) (X : List α) : List (List α) :=
  (List.range np).map fun p => (List.range (fc.getD (p+1) 0 - fc.getD p 0)).map fun j => X.getD (j + fc.getD p 0) d

theorem range_map_getD {β : Type} (n : Nat) (f : Nat → β) (d : β) (k : Nat) (hk : k < n) :
    ((List.range n).map f).getD k d = f k := by
  simp [List.getD_eq_getElem?_getD, List.getElem?_map, List.getElem?_range hk]

theorem haloSpec_slicesD {fc : List Nat} {np : Nat} (h : FcOk fc np) (d : α) (off : List (List Nat)) (X : List α) (r : Nat)
    (hb : ∀ c ∈ off.getD r [], c < fc.getD np 0) :
    haloSpec d fc off (slicesD d fc np X) r = (off.getD r []).map fun g => X.getD g d := by
  unfold haloSpec
  apply List.map_congr_left
  intro c hc
  obtain ⟨h1, h2, h3⟩ := C03.owner_spec h (hb c hc)
  have hs : (slicesD d fc np X).getD (owner fc c) []
      = (List.range (fc.getD (owner fc c + 1) 0 - fc.getD (owner fc c) 0)).map fun j => X.getD (j + fc.getD (owner fc c) 0) d := by
    unfold slicesD; exact range_map_getD np _ [] _ h1
  have hlt : c - fc.getD (owner fc c) 0 < fc.getD (owner fc c + 1) 0 - fc.getD (owner fc c) 0 := by omega
  rw [hs, range_map_getD _ _ _ _ hlt]
  congr 1
  omega

/-- **what `communicate(B)` delivers**: for a sorted, in-range off-process column map the exchange of the owners' row
    slices is `heldRows` — for every partition `fc` (empty ranks included) and every arrival order on the send side
    (the receive buffer does not depend on it) -/
theorem exchange_rows_eq_heldRows {K : Type} {fc : List Nat} {np : Nat} (h : FcOk fc np) (off : List (List Nat))
    (Bglobal : List (List (Nat × K))) (r : Nat)
    (hs : (off.getD r []).Pairwise (· ≤ ·)) (hb : ∀ c ∈ off.getD r [], c < fc.getD np 0) :
    exchange [] fc off (slicesD [] fc np Bglobal) r = heldRows (off.getD r []) Bglobal := by
  rw [C03.exchange_delivers h [] off _ r hs hb, haloSpec_slicesD h [] off Bglobal r hb]
  rfl

/-- the row of `C` computed from the rank's own rows and the **received** rows is the row of the global product -/
theorem par_row_received {K : Type} [Add K] [Mul K] [Zero K] {fc : List Nat} {np : Nat} (h : FcOk fc np)
    (big : K → Bool) (colMap : Nat → Nat) (onMap : List Nat) (off : List (List Nat)) (r : Nat)
    (Bglobal : List (List (Nat × K))) (rowOn rowOff : List (Nat × K))
    (hs : (off.getD r []).Pairwise (· ≤ ·)) (hb : ∀ c ∈ off.getD r [], c < fc.getD np 0)
    (hon : ∀ e ∈ rowOn, e.1 < onMap.length) (hoff : ∀ e ∈ rowOff, e.1 < (off.getD r []).length) :
    ((accumulate (rowProducts rowOn (heldRows onMap Bglobal)
          ++ rowProducts rowOff (exchange [] fc off (slicesD [] fc np Bglobal) r))).filter
        fun e => big e.2).map (fun e => (colMap e.1, e.2))
      = ((accumulate (rowProducts (globalRow onMap rowOn ++ globalRow (off.getD r []) rowOff) Bglobal)).filter
        fun e => big e.2).map (fun e => (colMap e.1, e.2)) := by
  rw [exchange_rows_eq_heldRows h off Bglobal r hs hb]
  exact par_row big colMap onMap (off.getD r []) Bglobal rowOn rowOff hon hoff

/-- non-vacuity -/
example : exchange [] [0, 1, 3] [[1, 2], [0]] (slicesD [] [0, 1, 3] 2 [[(0, (5 : Int))], [(2, 7)], [(1, 9)]]) 0
    = heldRows [1, 2] [[(0, (5 : Int))], [(2, 7)], [(1, 9)]] := by decide

end Raptor.C06Par
