import RaptorModel.Props.C11
/-!
# C11 — the distributed Jacobi sweep is the sequential Jacobi sweep of the global matrix, on every partition

A Jacobi sweep reads old values only, so cutting the matrix into ranks cannot change it: the value
`hybridJacobi` leaves in local row `i` of a rank — local block with the diagonal first, halo buffer
holding the owners' old values (C03) — is the value `jacobiSweep` gives the global row
`rowMap[i]`, whatever the maps, the number of ranks and the order of the stored entries.
(The hybrid SOR/SSOR sweeps are different methods from their sequential namesakes by design —
off-process unknowns are frozen — and are specified by `hybridForward_spec` / `hybridBackward_spec`.)
-/
namespace Raptor.C11
open Raptor.Relax

variable {K : Type} [Field K]

/-- slice of a global vector through a map -/
def gather (m : List Nat) (X : List K) : List K := m.map fun g => at' X g

theorem gather_at' (m : List Nat) (X : List K) (k : Nat) (hk : k < m.length) :
    at' (gather m X) k = at' X (m.getD k 0) := by
  simp [at', gather, List.getD_eq_getElem?_getD, List.getElem?_eq_getElem hk]

/-- a local row read through the maps: diagonal `(g, d)` first, then the local block, then the halo block -/
def globalRow (g : Nat) (d : K) (onMap offMap : List Nat) (rest offRow : List (Nat × K)) : List (Nat × K) :=
  (g, d) :: (rest.map fun e => (onMap.getD e.1 0, e.2)) ++ (offRow.map fun e => (offMap.getD e.1 0, e.2))

theorem diagOf_globalRow (g : Nat) (d : K) (onMap offMap : List Nat) (rest offRow : List (Nat × K))
    (hrest : ∀ e ∈ rest, onMap.getD e.1 0 ≠ g) (hoff : ∀ e ∈ offRow, offMap.getD e.1 0 ≠ g) :
    diagOf (globalRow g d onMap offMap rest offRow) g = d := by
  have h1 : ((rest.map fun e => (onMap.getD e.1 0, e.2)) ++ (offRow.map fun e => (offMap.getD e.1 0, e.2))).filter
      (fun e => e.1 == g) = [] := by
    rw [List.filter_eq_nil_iff]
    intro e he
    rcases List.mem_append.mp he with h | h
    · obtain ⟨e0, he0, rfl⟩ := List.mem_map.mp h
      simpa using hrest e0 he0
    · obtain ⟨e0, he0, rfl⟩ := List.mem_map.mp h
      simpa using hoff e0 he0
  unfold diagOf globalRow
  rw [List.cons_append, List.filter_cons_of_pos (by simp), h1]
  rfl

theorem offSum_globalRow (g : Nat) (d : K) (onMap offMap : List Nat) (rest offRow : List (Nat × K)) (X : List K)
    (hrest : ∀ e ∈ rest, onMap.getD e.1 0 ≠ g ∧ e.1 < onMap.length)
    (hoff : ∀ e ∈ offRow, offMap.getD e.1 0 ≠ g ∧ e.1 < offMap.length) :
    offSum (globalRow g d onMap offMap rest offRow) X g
      = (rest.map fun e => e.2 * at' (gather onMap X) e.1).sum + (offRow.map fun e => e.2 * at' (gather offMap X) e.1).sum := by
  have h1 : ((rest.map fun e => (onMap.getD e.1 0, e.2)) ++ (offRow.map fun e => (offMap.getD e.1 0, e.2))).filter
      (fun e => e.1 != g)
      = (rest.map fun e => (onMap.getD e.1 0, e.2)) ++ (offRow.map fun e => (offMap.getD e.1 0, e.2)) := by
    rw [List.filter_eq_self]
    intro e he
    rcases List.mem_append.mp he with h | h
    · obtain ⟨e0, he0, rfl⟩ := List.mem_map.mp h
      simpa using (hrest e0 he0).1
    · obtain ⟨e0, he0, rfl⟩ := List.mem_map.mp h
      simpa using (hoff e0 he0).1
  unfold offSum globalRow
  rw [List.cons_append, List.filter_cons_of_neg (by simp), h1, List.map_append, List.sum_append, List.map_map, List.map_map]
  congr 1
  · congr 1
    apply List.map_congr_left
    intro e he
    simp only [Function.comp]
    rw [gather_at' onMap X e.1 (hrest e he).2]
  · congr 1
    apply List.map_congr_left
    intro e he
    simp only [Function.comp]
    rw [gather_at' offMap X e.1 (hoff e he).2]

/-- **distributed Jacobi = sequential Jacobi, row by row, on every partition.** -/
theorem hybridJacobi_eq_global (big : K → Bool) (on off : List (List (Nat × K))) (rowMap onMap offMap : List Nat)
    (B X : List K) (ω : K) (i : Nat) (hi : i < on.length) (hi' : i < off.length) (hir : i < rowMap.length)
    (hio : i < onMap.length) (hsq : onMap.getD i 0 = rowMap.getD i 0)
    (d : K) (rest : List (Nat × K)) (hrow : on[i] = (i, d) :: rest)
    (hrest : ∀ e ∈ rest, onMap.getD e.1 0 ≠ rowMap.getD i 0 ∧ e.1 < onMap.length)
    (hoff : ∀ e ∈ off[i], offMap.getD e.1 0 ≠ rowMap.getD i 0 ∧ e.1 < offMap.length)
    (rowsG : List (List (Nat × K))) (hg : rowMap.getD i 0 < rowsG.length)
    (hG : rowsG[rowMap.getD i 0] = globalRow (rowMap.getD i 0) d onMap offMap rest off[i]) :
    (hybridJacobi big on off (gather rowMap B) (gather offMap X) ω (gather onMap X)).getD i 0
      = (jacobiSweep big rowsG B X ω).getD (rowMap.getD i 0) 0 := by
  have hL := hybridJacobi_get big on off (gather rowMap B) (gather offMap X) ω (gather onMap X) i hi hi' (i, d) rest hrow
  have hR := jacobiSweep_at' big rowsG B X ω (rowMap.getD i 0) hg
  rw [at', hG, if_neg (by simp [globalRow]),
    diagOf_globalRow _ d onMap offMap rest off[i] (fun e he => (hrest e he).1) (fun e he => (hoff e he).1),
    offSum_globalRow _ d onMap offMap rest off[i] X hrest hoff] at hR
  rw [hL, hR, gather_at' rowMap B i hir, gather_at' onMap X i hio, hsq]

/-- non-vacuity: rank 0 of a 3 × 3 system on two ranks; local row 1 has a local off-diagonal entry and a halo entry -/
example : (∀ e ∈ [((0 : Nat), (-1 : ℚ))], ([0, 1] : List Nat).getD e.1 0 ≠ ([0, 1] : List Nat).getD 1 0 ∧ e.1 < ([0, 1] : List Nat).length) ∧
    (∀ e ∈ [((0 : Nat), (-2 : ℚ))], ([2] : List Nat).getD e.1 0 ≠ ([0, 1] : List Nat).getD 1 0 ∧ e.1 < ([2] : List Nat).length) := by
  constructor <;> intro e he <;> simp at he <;> subst he <;> simp

end Raptor.C11
