import RaptorModel.Lemmas.MpiLemmas
/-!
# C05 — phase isolation of wildcard receives (communication-closed layers)

Theorems about the abstract MPI semantics of `RaptorModel/Model/Mpi.lean` (unchanged), for every
number of ranks `N`, every script family `S` and every execution (`Reach N S c`), unbounded.
The library under verification opens every phase with an all-reduce (a collective), posts its
sends, then receives with wildcard probes as many messages as it learned from the all-reduce.

* `J1` — barrier invariant: no rank has passed more collectives than another has reached;
* `causality` — a message is never received in an earlier epoch than it was sent;
* `J2`, `J2_perm` — `net ++ log` is a permutation of the messages of the executed sends; each
  occurs exactly once and nothing else occurs (messages are identified by (src,pos));
* **`phase_isolation`** — under `CountMatch` a wildcard receive only ever consumes a message of
  its own epoch (`phase_isolation_of_countMatch`: the hypotheses `WildOnly` and `DstValid` are
  not needed for safety; the statement with all three hypotheses is `phase_isolation`);
* `received_multiset_eq`, `received_count_eq` — a rank that has finished epoch `e` has received
  with its wildcard receives of tag `t` exactly the messages sent to it with tag `t` in epoch `e`
  (as a `List.Perm`), all those sends have been executed, none is left in flight
  (`received_core`);
* `progress` / `no_deadlock` — no deadlock: for phase-structured scripts (any number of phases)
  with `CountMatch`, a reachable configuration with an unfinished rank has a successor;
  `steps_bounded` — executions are finite; `maximal_execution_finished` — a terminal
  configuration has all scripts finished and an empty network; `exists_complete_execution`;
* `arrival_order_irrelevant` — two complete executions deliver the same multisets per
  (rank, tag, epoch);
* non-vacuity: the 3-rank two-phase family `exS` reusing tag 7 satisfies all hypotheses
  (`CountMatch` by a bounded decidable check, `countMatch_of_bounded`), with explicitly
  constructed executions exhibiting both arrival orders.

Helper lemmas (and the counting invariants K1 `Reach.count_msgs`, K2 `Reach.count_wild`, the log
well-formedness `Reach.log_wf`) are in `RaptorModel/Lemmas/MpiLemmas.lean`.

Proof of `phase_isolation` (induction over the execution, no "first bad event" needed): when rank
`r` at epoch `e` matches a message `m` of epoch `e' < e` with tag `t`, all `W` wildcard receives
of `(r,t,e')` are already logged (K2, `r` is past epoch `e'`), by induction hypothesis each holds
a `(r,t,e')` message, so the log holds `≥ W` such messages and the network one more (`m`); but
K1 says log + network = number sent so far `≤` number sent at all `= W` (`CountMatch`).
-/
namespace Raptor.C05
open Raptor.Mpi

variable {N : Nat} {S : Nat → Script}

/-- every send addresses an existing rank -/
def DstValid (N : Nat) (S : Nat → Script) : Prop :=
  ∀ p, p < N → ∀ (i d t b : Nat), (S p)[i]? = some (Op.send d t b) → d < N

/-! ## 1. Barrier invariant -/

/-- J1: no rank has passed more collectives than any other rank has reached. -/
theorem J1 {c : Cfg} (h : Reach N S c) {p q : Nat} (hp : p < N) (hq : q < N) :
    passed (S p) (c.pc p) ≤ reached (S q) (c.pc q) :=
  h.barrier p q hp hq

/-! ## 2. Causality -/

/-- A message is never received in an earlier epoch than it was sent; a message in flight was
    sent by a rank `< N` in an epoch that its sender has entered and its destination has reached
    (the destination may still be waiting at the collective that opens that epoch, but it cannot
    receive there: at a receive operation `reached = passed`). -/
theorem causality {c : Cfg} (h : Reach N S c) :
    (∀ r pos m, (r, pos, m) ∈ c.log → m.epoch ≤ passed (S r) pos) ∧
    (∀ m, m ∈ c.net → m.src < N ∧ m.epoch ≤ passed (S m.src) (c.pc m.src)) ∧
    (∀ m, m ∈ c.net → m.dst < N → m.epoch ≤ reached (S m.dst) (c.pc m.dst)) :=
  ⟨fun r pos m hx => h.causality_log (r, pos, m) hx,
   fun _ hm => h.net_epoch_le (mem_allMsgs_of_net hm),
   fun _ hm hd => h.causality_net hm hd⟩

/-! ## 3. Bookkeeping -/

/-- the message created by the send `send d t b` at position `i` of rank `p` -/
def sendMsg (S : Nat → Script) (p i d t b : Nat) : Msg := ⟨p, i, d, t, b, passed (S p) i⟩

/-- J2, permutation form: the messages in flight together with the received ones are a
    permutation of the list of messages of the executed sends. -/
theorem J2_perm {c : Cfg} (h : Reach N S c) : c.allMsgs.Perm (sentList N S c.pc) :=
  h.allMsgs_perm

/-- J2: every executed send has its message exactly once in `net ++ log`, nothing else occurs
    there, and the messages are pairwise distinct. -/
theorem J2 {c : Cfg} (h : Reach N S c) :
    (∀ p i d t b, p < N → i < c.pc p → (S p)[i]? = some (.send d t b) →
        (c.net ++ c.log.map (·.2.2)).count (sendMsg S p i d t b) = 1) ∧
    (∀ m, m ∈ c.net ++ c.log.map (·.2.2) →
        m.src < N ∧ m.pos < c.pc m.src ∧ (S m.src)[m.pos]? = some (.send m.dst m.tag m.body) ∧
        m = sendMsg S m.src m.pos m.dst m.tag m.body) ∧
    (c.net ++ c.log.map (·.2.2)).Nodup := by
  refine ⟨fun p i d t b hp hi hop => ?_, fun m hm => ?_, h.nodup_allMsgs⟩
  · have hmem : sendMsg S p i d t b ∈ c.allMsgs :=
      h.mem_allMsgs.mpr ⟨hp, hi, hop, rfl⟩
    have := h.nodup_allMsgs.count (a := sendMsg S p i d t b)
    rw [if_pos hmem] at this
    exact this
  · obtain ⟨h1, h2, h3, h4⟩ := h.mem_allMsgs.mp hm
    refine ⟨h1, h2, h3, ?_⟩
    cases m
    simp only [sendMsg] at h4 ⊢
    simp only [h4]

/-! ## 4. Phase isolation -/

/-- Phase isolation needs only the count-match hypothesis. -/
theorem phase_isolation_of_countMatch (hcm : CountMatch N S) {c : Cfg} (h : Reach N S c) :
    ∀ x ∈ c.log, ∀ t, (S x.1)[x.2.1]? = some (.recvAny t) →
      x.2.2.epoch = passed (S x.1) x.2.1 := by
  induction h with
  | init => intro x hx; cases hx
  | @step c c' hc hs ih =>
    have hc' : Reach N S c' := Reach.step hc hs
    obtain ⟨r, op, hr, hop, hpc, hcase⟩ := hs.cases'
    rcases hcase with ⟨d, t, b, rfl, hnet, hlog⟩ | ⟨m, hm, hd, hop', hold, hnet, hlog⟩ |
      ⟨rfl, hall, hnet, hlog⟩
    · rw [hlog]; exact ih
    · intro x hx t hopx
      rw [hlog] at hx
      rcases List.mem_cons.mp hx with hx | hx
      case inr => exact ih x hx t hopx
      -- the new entry `(r, c.pc r, m)`
      subst hx
      show m.epoch = passed (S r) (c.pc r)
      have hle : m.epoch ≤ passed (S r) (c.pc r) :=
        hc'.causality_log (r, c.pc r, m) (by rw [hlog]; exact List.mem_cons_self)
      apply Nat.le_antisymm hle
      apply Nat.le_of_not_lt
      intro hlt
      -- the tag
      have htag : m.tag = t := by
        have h1 : (S r)[c.pc r]? = some (.recvAny t) := hopx
        rw [hop] at h1
        rcases hop' with h | h <;> rw [h] at h1 <;> cases h1
        rfl
      -- (1) `m` is an epoch-`m.epoch` message in flight
      have h1 : 0 < List.countP (msgIs r t m.epoch) c.net :=
        List.countP_pos_iff.mpr ⟨m, hm, msgIs_iff.mpr ⟨hd, htag, rfl⟩⟩
      -- (2) in flight + received = sent so far ≤ sent at all = number of wildcard receives
      have h2 := hc.count_msgs r t m.epoch
      have h3 := hc.sent_le r t m.epoch
      have h4 := hcm r hr t m.epoch
      -- (3) all wildcard receives of that earlier epoch have been executed and logged
      have h5 := hc.count_wild r t m.epoch
      have h6 : cntUpto (S r) (Op.isRecvAny t) m.epoch (c.pc r) = wildRecvs (S r) t m.epoch :=
        cntUpto_eq_countAt_of_lt _ _ (hc.pc_le_length r) hlt
      -- (4) by induction hypothesis each of them consumed a message of that epoch
      have h7 : List.countP (wildEntry S r t m.epoch) c.log ≤
          List.countP (fun x => msgIs r t m.epoch x.2.2) c.log := by
        apply List.countP_mono_left
        intro y hy hw
        obtain ⟨w1, w2, w3⟩ := wildEntry_iff.mp hw
        obtain ⟨_, _, l3, l4⟩ := hc.log_wf y hy
        subst w1
        have := ih y hy t w2
        refine msgIs_iff.mpr ⟨l3, ?_, this.trans w3⟩
        rw [w2] at l4
        rcases l4 with l4 | l4 <;> cases l4
        rfl
      omega
    · rw [hlog]; exact ih

/-- **Phase isolation** (C05): whatever the interleaving and the matching of wildcard receives,
    a wildcard receive only ever consumes a message sent in its own epoch. -/
theorem phase_isolation (hcm : CountMatch N S) (_hw : WildOnly N S)
    (_hdst : DstValid N S)
    {c : Cfg} (h : Reach N S c) {r pos t : Nat} {m : Msg} (hlog : (r, pos, m) ∈ c.log)
    (hop : (S r)[pos]? = some (.recvAny t)) : m.epoch = passed (S r) pos :=
  phase_isolation_of_countMatch hcm h (r, pos, m) hlog t hop

/-! ## 5. Every rank receives exactly the messages sent to it in the phase -/

/-- rank `q` has executed all of its operations of epoch `e` -/
def EpochDone (S : Nat → Script) (c : Cfg) (q e : Nat) : Prop :=
  ∀ i, c.pc q ≤ i → i < (S q).length → passed (S q) i ≠ e

theorem epochDone_of_lt {c : Cfg} {q e : Nat} (h : e < passed (S q) (c.pc q)) :
    EpochDone S c q e := by
  intro i hi _ heq
  have := passed_mono (S q) hi
  omega

theorem epochDone_of_finished {c : Cfg} {q : Nat} (h : c.pc q = (S q).length) (e : Nat) :
    EpochDone S c q e := by
  intro i hi hlt; omega

/-- the messages consumed by the wildcard receives of rank `q` with tag `t` in epoch `e`
    (newest first) -/
def wildLog (S : Nat → Script) (c : Cfg) (q t e : Nat) : List Msg :=
  (c.log.filter (wildEntry S q t e)).map (·.2.2)

/-- the messages of the executed sends addressed to `q` with tag `t` in epoch `e` -/
def sentMsgs (N : Nat) (S : Nat → Script) (c : Cfg) (q t e : Nat) : List Msg :=
  (sentList N S c.pc).filter (msgIs q t e)

/-- under phase isolation a wildcard receive entry of `(q,t,e)` holds a `(q,t,e)` message -/
theorem wild_imp_msgIs (hcm : CountMatch N S) {c : Cfg} (h : Reach N S c) (q t e : Nat) :
    ∀ x ∈ c.log, wildEntry S q t e x = true → msgIs q t e x.2.2 = true := by
  intro y hy hw
  obtain ⟨w1, w2, w3⟩ := wildEntry_iff.mp hw
  obtain ⟨_, _, l3, l4⟩ := h.log_wf y hy
  subst w1
  have := phase_isolation_of_countMatch hcm h y hy t w2
  refine msgIs_iff.mpr ⟨l3, ?_, this.trans w3⟩
  rw [w2] at l4
  rcases l4 with l4 | l4 <;> cases l4
  rfl

theorem length_wildLog {c : Cfg} (h : Reach N S c) (q t e : Nat) :
    (wildLog S c q t e).length = cntUpto (S q) (Op.isRecvAny t) e (c.pc q) := by
  unfold wildLog
  rw [List.length_map, ← List.countP_eq_length_filter, h.count_wild]

theorem cntUpto_of_epochDone {c : Cfg} (h : Reach N S c) {q e : Nat} (hd : EpochDone S c q e)
    (f : Op → Bool) : cntUpto (S q) f e (c.pc q) = countAt (S q) f e := by
  apply cntUpto_eq_countAt _ _ _ (h.pc_le_length q)
  intro i hi hlt
  cases hp : posPred (S q) f e i with
  | false => rfl
  | true =>
    obtain ⟨op, _, _, h3⟩ := posPred_iff.mp hp
    exact absurd h3 (hd i hi hlt)

/-- Core of targets 5–7. If rank `q` is past its epoch-`e` operations then: the messages its
    wildcard receives of `(t,e)` consumed are *all* `(q,t,e)` messages present in the system,
    none is left in flight, and every rank has already executed all its `(q,t,e)` sends. -/
theorem received_core (hcm : CountMatch N S) {c : Cfg} (h : Reach N S c) {q : Nat} (hq : q < N)
    (t e : Nat) (hd : EpochDone S c q e) :
    wildLog S c q t e = (c.log.map (·.2.2)).filter (msgIs q t e) ∧
    c.net.filter (msgIs q t e) = [] ∧
    ∀ p, p < N → cntUpto (S p) (Op.isSendTo q t) e (c.pc p) = sentTo (S p) q t e := by
  have hsub : (wildLog S c q t e).Sublist ((c.log.map (·.2.2)).filter (msgIs q t e)) := by
    unfold wildLog
    rw [List.filter_map]
    apply List.Sublist.map
    have : c.log.filter (wildEntry S q t e) =
        (c.log.filter (msgIs q t e ∘ fun x => x.2.2)).filter (wildEntry S q t e) := by
      rw [List.filter_filter]
      apply List.filter_congr
      intro x hx
      cases hw : wildEntry S q t e x with
      | false => rfl
      | true => simp [wild_imp_msgIs hcm h q t e x hx hw]
    rw [this]
    exact List.filter_sublist
  have h1 := length_wildLog h q t e
  rw [cntUpto_of_epochDone h hd] at h1
  have h2 := h.count_msgs q t e
  have h3 := h.sent_le q t e
  have h4 := hcm q hq t e
  have h5 : ((c.log.map (·.2.2)).filter (msgIs q t e)).length =
      List.countP (fun x => msgIs q t e x.2.2) c.log := by
    rw [← List.countP_eq_length_filter, List.countP_map]; rfl
  have h6 := hsub.length_le
  unfold wildRecvs at h4
  refine ⟨hsub.eq_of_length_le (by omega), ?_, ?_⟩
  · rw [List.filter_eq_nil_iff]
    have : List.countP (msgIs q t e) c.net = 0 := by omega
    exact List.countP_eq_zero.mp this
  · apply eq_of_sum_map_range_le
    · intro p _; exact cntUpto_le_countAt _ _ _ (h.pc_le_length p)
    · show ((List.range N).map fun p => sentTo (S p) q t e).sum ≤ _
      omega

/-- **Target 5.** Once rank `q` has executed its operations of epoch `e`, the messages received
    by its wildcard receives of tag `t` in that epoch are, up to order, exactly the messages
    sent to `q` with tag `t` in epoch `e` (and all of those sends have been executed). -/
theorem received_multiset_eq (hcm : CountMatch N S) (_hw : WildOnly N S) (_hdst : DstValid N S)
    {c : Cfg} (h : Reach N S c) {q : Nat} (hq : q < N) (t e : Nat) (hd : EpochDone S c q e) :
    (wildLog S c q t e).Perm (sentMsgs N S c q t e) ∧
    ∀ p, p < N → cntUpto (S p) (Op.isSendTo q t) e (c.pc p) = sentTo (S p) q t e := by
  obtain ⟨h1, h2, h3⟩ := received_core hcm h hq t e hd
  refine ⟨?_, h3⟩
  have := (h.allMsgs_perm.filter (msgIs q t e))
  unfold Cfg.allMsgs at this
  rw [List.filter_append, h2, List.nil_append, ← h1] at this
  exact this

/-- counts per (source, body), as a corollary -/
theorem received_count_eq (hcm : CountMatch N S) (hw : WildOnly N S) (hdst : DstValid N S)
    {c : Cfg} (h : Reach N S c) {q : Nat} (hq : q < N) (t e : Nat) (hd : EpochDone S c q e)
    (s b : Nat) :
    ((wildLog S c q t e).map fun m => (m.src, m.body)).count (s, b) =
      ((sentMsgs N S c q t e).map fun m => (m.src, m.body)).count (s, b) :=
  ((received_multiset_eq hcm hw hdst h hq t e hd).1.map _).count_eq _

/-! ## 7. The arrival order is irrelevant -/

/-- all ranks have finished their scripts -/
def Finished (N : Nat) (S : Nat → Script) (c : Cfg) : Prop := ∀ p, p < N → c.pc p = (S p).length

/-- **Target 7.** Two complete executions deliver to every rank, for every tag and epoch, the same
    multiset of messages (hence of (source, body) pairs): only the order of wildcard matches
    inside a phase can differ. -/
theorem arrival_order_irrelevant (hcm : CountMatch N S) (hw : WildOnly N S) (hdst : DstValid N S)
    {c₁ c₂ : Cfg} (h₁ : Reach N S c₁) (h₂ : Reach N S c₂)
    (f₁ : Finished N S c₁) (f₂ : Finished N S c₂) {q : Nat} (hq : q < N) (t e : Nat) :
    (wildLog S c₁ q t e).Perm (wildLog S c₂ q t e) ∧
    ((wildLog S c₁ q t e).map fun m => (m.src, m.body)).Perm
      ((wildLog S c₂ q t e).map fun m => (m.src, m.body)) := by
  have e1 := (received_multiset_eq hcm hw hdst h₁ hq t e (epochDone_of_finished (f₁ q hq) e)).1
  have e2 := (received_multiset_eq hcm hw hdst h₂ hq t e (epochDone_of_finished (f₂ q hq) e)).1
  have : sentMsgs N S c₁ q t e = sentMsgs N S c₂ q t e := by
    unfold sentMsgs sentList
    rw [flatMap_range_congr (f := fun p => sentBy S p (c₂.pc p))
      (f' := fun p => sentBy S p (c₁.pc p))]
    intro p hp
    show sentBy S p (c₁.pc p) = sentBy S p (c₂.pc p)
    rw [f₁ p hp, f₂ p hp]
  have hp : (wildLog S c₁ q t e).Perm (wildLog S c₂ q t e) :=
    e1.trans (this ▸ e2.symm)
  exact ⟨hp, hp.map _⟩

/-! ## 6. No deadlock -/

/-- no specific-source receives -/
def NoRecvFrom (N : Nat) (S : Nat → Script) : Prop :=
  ∀ q, q < N → ∀ (i s t : Nat), (S q)[i]? ≠ some (Op.recvFrom s t)

/-- inside an epoch, a rank posts its sends before its receives -/
def SendsFirst (N : Nat) (S : Nat → Script) : Prop :=
  ∀ q, q < N → ∀ (i j t d t' b : Nat), i < j → (S q)[i]? = some (Op.recvAny t) →
    (S q)[j]? = some (Op.send d t' b) → passed (S q) i < passed (S q) j

/-- all ranks execute the same number of collectives -/
def SameColls (N : Nat) (S : Nat → Script) : Prop :=
  ∀ p q, p < N → q < N → passed (S p) (S p).length = passed (S q) (S q).length

/-- among the unfinished ranks there is one whose `reached` is minimal over all ranks -/
theorem exists_min_unfinished (hsc : SameColls N S) {c : Cfg} {r : Nat}
    (hr : r < N) (hun : c.pc r < (S r).length) :
    ∃ r₁, r₁ < N ∧ c.pc r₁ < (S r₁).length ∧
      ∀ q, q < N → reached (S r₁) (c.pc r₁) ≤ reached (S q) (c.pc q) := by
  obtain ⟨r₀, hr₀, hmin⟩ := exists_min_range (fun q => reached (S q) (c.pc q))
    (Nat.lt_of_le_of_lt (Nat.zero_le _) hr)
  by_cases h0 : c.pc r₀ < (S r₀).length
  · exact ⟨r₀, hr₀, h0, hmin⟩
  · refine ⟨r, hr, hun, fun q hq => ?_⟩
    have h1 : reached (S r₀) (c.pc r₀) = passed (S r₀) (S r₀).length :=
      reached_of_length_le _ (Nat.le_of_not_lt h0)
    have h2 := reached_le_total (S r) (c.pc r)
    have h3 := hsc r r₀ hr hr₀
    have h4 : reached (S r₀) (c.pc r₀) ≤ reached (S q) (c.pc q) := hmin q hq
    omega

/-- If no step is possible and rank `r` (with globally minimal `reached`) waits at a wildcard
    receive, then every rank has executed all its sends of `r`'s current epoch. -/
theorem sends_done_of_stuck (hnr : NoRecvFrom N S) (hsf : SendsFirst N S)
    {c : Cfg} (h : Reach N S c) (hstuck : ¬ ∃ c', Step N S c c') {r t : Nat}
    (hop : (S r)[c.pc r]? = some (Op.recvAny t))
    (hmin : ∀ q, q < N → reached (S r) (c.pc r) ≤ reached (S q) (c.pc q))
    (f : Op → Bool) (hf : ∀ op, f op = true → ∃ d t b, op = Op.send d t b) :
    ∀ q, q < N → cntUpto (S q) f (passed (S r) (c.pc r)) (c.pc q) =
      countAt (S q) f (passed (S r) (c.pc r)) := by
  intro q hq
  have hre : reached (S r) (c.pc r) = passed (S r) (c.pc r) := reached_of_not_coll hop rfl
  apply cntUpto_eq_countAt _ _ _ (h.pc_le_length q)
  intro i hi hlt
  cases hp : posPred (S q) f (passed (S r) (c.pc r)) i with
  | false => rfl
  | true =>
    exfalso
    obtain ⟨op, hopi, hfop, hpe⟩ := posPred_iff.mp hp
    obtain ⟨d, t', b, rfl⟩ := hf op hfop
    have hlt' : c.pc q < (S q).length := Nat.lt_of_le_of_lt hi hlt
    have hq_op : (S q)[c.pc q]? = some (S q)[c.pc q] := List.getElem?_eq_getElem hlt'
    have hm := hmin q hq
    generalize (S q)[c.pc q] = opq at hq_op
    cases opq with
    | send d t b => exact hstuck ⟨_, Step.send c q d t b hq hq_op⟩
    | recvFrom s t => exact hnr q hq _ _ _ hq_op
    | recvAny t'' =>
      have hne : i ≠ c.pc q := by
        intro heq; rw [heq, hq_op] at hopi; cases hopi
      have h1 := hsf q hq (c.pc q) i t'' d t' b (by omega) hq_op hopi
      have h2 : reached (S q) (c.pc q) = passed (S q) (c.pc q) := reached_of_not_coll hq_op rfl
      omega
    | coll =>
      by_cases heq : reached (S q) (c.pc q) = reached (S r) (c.pc r)
      · exact hstuck ⟨_, Step.coll c q hq hq_op (fun q' hq' => heq ▸ hmin q' hq')⟩
      · have hne : i ≠ c.pc q := by
          intro heq; rw [heq, hq_op] at hopi; cases hopi
        have h1 : reached (S q) (c.pc q) = passed (S q) (c.pc q) + 1 := reached_of_coll hq_op rfl
        have h2 : passed (S q) (c.pc q + 1) ≤ passed (S q) i := passed_mono _ (by omega)
        rw [← reached_eq_passed_succ] at h2
        omega

/-- a log entry holding a `(r,t,e)` message is a wildcard receive of `(r,t,e)` (no `recvFrom`) -/
theorem msgIs_imp_wild (hcm : CountMatch N S) (hnr : NoRecvFrom N S) {c : Cfg}
    (h : Reach N S c) (r t e : Nat) :
    ∀ x ∈ c.log, msgIs r t e x.2.2 = true → wildEntry S r t e x = true := by
  intro x hx hm
  obtain ⟨m1, m2, m3⟩ := msgIs_iff.mp hm
  obtain ⟨l1, _, l3, l4⟩ := h.log_wf x hx
  have hx1 : x.1 = r := l3.symm.trans m1
  rcases l4 with l4 | l4
  · have := phase_isolation_of_countMatch hcm h x hx _ l4
    rw [m2] at l4
    rw [hx1] at l4 this
    exact wildEntry_iff.mpr ⟨hx1, l4, this.symm.trans m3⟩
  · exact absurd l4 (hnr x.1 l1 _ _ _)

/-- **Progress** (general form): with count match, no `recvFrom`, sends before receives inside
    each epoch and the same number of collectives on every rank, a reachable configuration in
    which some rank has not finished has a successor. -/
theorem progress (hcm : CountMatch N S) (hnr : NoRecvFrom N S) (hsf : SendsFirst N S)
    (hsc : SameColls N S) {c : Cfg} (h : Reach N S c) {r : Nat} (hr : r < N)
    (hun : c.pc r < (S r).length) : ∃ c', Step N S c c' := by
  obtain ⟨r, hr, hun, hmin⟩ := exists_min_unfinished hsc hr hun
  have hop : (S r)[c.pc r]? = some (S r)[c.pc r] := List.getElem?_eq_getElem hun
  generalize (S r)[c.pc r] = op at hop
  cases op with
  | send d t b => exact ⟨_, Step.send c r d t b hr hop⟩
  | recvFrom s t => exact absurd hop (hnr r hr _ _ _)
  | coll => exact ⟨_, Step.coll c r hr hop hmin⟩
  | recvAny t =>
    apply Classical.byContradiction
    intro hstuck
    have hs := sends_done_of_stuck hnr hsf h hstuck hop hmin (Op.isSendTo r t)
      (fun op hf => by obtain ⟨b, rfl⟩ := isSendTo_iff.mp hf; exact ⟨_, _, _, rfl⟩)
    have h2 := h.count_msgs r t (passed (S r) (c.pc r))
    have hsum := sum_map_range_congr (N := N) hs
    have h4 := hcm r hr t (passed (S r) (c.pc r))
    have h5 := h.count_wild r t (passed (S r) (c.pc r))
    have h6 : cntUpto (S r) (Op.isRecvAny t) (passed (S r) (c.pc r)) (c.pc r) + 1 ≤
        wildRecvs (S r) t (passed (S r) (c.pc r)) := by
      have := cntUpto_le_countAt (S r) (Op.isRecvAny t) (passed (S r) (c.pc r))
        (k := c.pc r + 1) hun
      rw [cntUpto_succ, posPred_of_op hop] at this
      simpa [Op.isRecvAny, wildRecvs] using this
    have h7 := List.countP_mono_left (msgIs_imp_wild hcm hnr h r t (passed (S r) (c.pc r)))
    have hpos : 0 < List.countP (msgIs r t (passed (S r) (c.pc r))) c.net := by
      unfold sentTo at h4
      omega
    obtain ⟨m, hm, hmis⟩ := List.countP_pos_iff.mp hpos
    obtain ⟨m1, m2, _⟩ := msgIs_iff.mp hmis
    obtain ⟨m', hm', _, e2, e3, hold⟩ := exists_oldest hm
    exact hstuck ⟨_, Step.recvAny c r t m' hr hop hm' (e2.trans m1) (e3.trans m2) hold⟩

/-- number of operations still to execute -/
def remaining (N : Nat) (S : Nat → Script) (c : Cfg) : Nat :=
  ((List.range N).map fun p => (S p).length - c.pc p).sum

/-- every step executes exactly one operation: executions are finite -/
theorem step_remaining {c c' : Cfg} (hs : Step N S c c') :
    remaining N S c' + 1 = remaining N S c := by
  obtain ⟨r, op, hr, hop, hpc, _⟩ := hs.cases'
  unfold remaining
  rw [hpc]
  have hlt := (List.getElem?_eq_some_iff.mp hop).1
  apply sum_map_range_update hr
  · simp only [if_true]; omega
  · intro p hp; simp only [if_neg hp]

/-- when everybody has finished, nothing addressed to an existing rank is left in flight -/
theorem finished_net_empty (hcm : CountMatch N S) (hdst : DstValid N S) {c : Cfg}
    (h : Reach N S c) (hf : Finished N S c) : c.net = [] := by
  cases hnet : c.net with
  | nil => rfl
  | cons m l =>
    exfalso
    have hm : m ∈ c.net := by rw [hnet]; exact List.mem_cons_self
    obtain ⟨h1, _, h3, _⟩ := h.mem_allMsgs.mp (mem_allMsgs_of_net hm)
    have hd : m.dst < N := hdst m.src h1 _ _ _ _ h3
    have := (received_core hcm h hd m.tag m.epoch (epochDone_of_finished (hf _ hd) _)).2.1
    rw [List.filter_eq_nil_iff] at this
    exact this m hm (msgIs_iff.mpr ⟨rfl, rfl, rfl⟩)

/-- `n`-step executions -/
inductive StepsN (N : Nat) (S : Nat → Script) : Nat → Cfg → Cfg → Prop where
  | refl (c : Cfg) : StepsN N S 0 c c
  | cons {n : Nat} {c c' c'' : Cfg} : Step N S c c' → StepsN N S n c' c'' → StepsN N S (n+1) c c''

/-- an execution from `c` has at most `remaining c` steps (termination) -/
theorem steps_bounded {n : Nat} {c c' : Cfg} (h : StepsN N S n c c') :
    n + remaining N S c' = remaining N S c := by
  induction h with
  | refl c => exact Nat.zero_add _
  | cons hs _ ih => have := step_remaining hs; omega

/-- a terminal configuration (no successor) is a final one: all scripts finished, network empty -/
theorem terminal_finished (hcm : CountMatch N S) (hnr : NoRecvFrom N S) (hsf : SendsFirst N S)
    (hsc : SameColls N S) (hdst : DstValid N S) {c : Cfg} (h : Reach N S c)
    (hterm : ¬ ∃ c', Step N S c c') : Finished N S c ∧ c.net = [] := by
  have hf : Finished N S c := by
    intro p hp
    apply Nat.le_antisymm (h.pc_le_length p)
    apply Nat.le_of_not_lt
    intro hlt
    exact hterm (progress hcm hnr hsf hsc h hp hlt)
  exact ⟨hf, finished_net_empty hcm hdst h hf⟩

/-- some complete execution exists (so the statements about finished configurations are not
    vacuous) -/
theorem exists_finished (hcm : CountMatch N S) (hnr : NoRecvFrom N S) (hsf : SendsFirst N S)
    (hsc : SameColls N S) : ∃ c, Reach N S c ∧ Finished N S c := by
  have key : ∀ n c, Reach N S c → remaining N S c = n → ∃ c', Reach N S c' ∧ Finished N S c' := by
    intro n
    induction n with
    | zero =>
      intro c h hrem
      by_cases hex : ∃ r, r < N ∧ c.pc r < (S r).length
      · obtain ⟨r, hr, hun⟩ := hex
        obtain ⟨c', hs⟩ := progress hcm hnr hsf hsc h hr hun
        have := step_remaining hs
        omega
      · refine ⟨c, h, fun p hp => ?_⟩
        apply Nat.le_antisymm (h.pc_le_length p)
        apply Nat.le_of_not_lt
        intro hlt; exact hex ⟨p, hp, hlt⟩
    | succ n ih =>
      intro c h hrem
      by_cases hex : ∃ r, r < N ∧ c.pc r < (S r).length
      · obtain ⟨r, hr, hun⟩ := hex
        obtain ⟨c', hs⟩ := progress hcm hnr hsf hsc h hr hun
        have := step_remaining hs
        exact ih c' (Reach.step h hs) (by omega)
      · refine ⟨c, h, fun p hp => ?_⟩
        apply Nat.le_antisymm (h.pc_le_length p)
        apply Nat.le_of_not_lt
        intro hlt; exact hex ⟨p, hp, hlt⟩
  exact key _ Mpi.init Reach.init rfl

/-! ### Phase-structured scripts -/

/-- one phase: a collective, then sends, then wildcard receives, all with the phase's tag -/
structure Phase where
  (tag : Nat)
  (sends : List (Nat × Nat))   -- (destination, body)
  (nrecv : Nat)

def Phase.ops (ph : Phase) : Script :=
  Op.coll :: ((ph.sends.map fun db => Op.send db.1 ph.tag db.2) ++
    List.replicate ph.nrecv (Op.recvAny ph.tag))

def phasesScript (phs : List Phase) : Script := phs.flatMap Phase.ops

/-- every script is a concatenation of phases, the same number of phases on every rank -/
def PhaseStructured (N : Nat) (S : Nat → Script) : Prop :=
  ∃ K, ∀ q, q < N → ∃ phs : List Phase, phs.length = K ∧ S q = phasesScript phs

theorem phasesScript_cons (ph : Phase) (phs : List Phase) :
    phasesScript (ph :: phs) = ph.ops ++ phasesScript phs := by
  simp [phasesScript]

theorem mem_ops {ph : Phase} {op : Op} (h : op ∈ ph.ops) :
    op = Op.coll ∨ (∃ d b, op = Op.send d ph.tag b) ∨ op = Op.recvAny ph.tag := by
  unfold Phase.ops at h
  rcases List.mem_cons.mp h with h | h
  · exact Or.inl h
  · rcases List.mem_append.mp h with h | h
    · obtain ⟨db, _, rfl⟩ := List.mem_map.mp h
      exact Or.inr (Or.inl ⟨_, _, rfl⟩)
    · exact Or.inr (Or.inr (List.mem_replicate.mp h).2)

theorem ops_total (ph : Phase) : passed ph.ops ph.ops.length = 1 := by
  unfold passed
  rw [List.take_length]
  unfold Phase.ops
  rw [List.filter_cons_of_pos (by rfl), List.filter_append]
  have h1 : (ph.sends.map fun db => Op.send db.1 ph.tag db.2).filter Op.isColl = [] := by
    rw [List.filter_eq_nil_iff]
    intro a ha
    obtain ⟨db, _, rfl⟩ := List.mem_map.mp ha
    simp [Op.isColl]
  have h2 : (List.replicate ph.nrecv (Op.recvAny ph.tag)).filter Op.isColl = [] := by
    rw [List.filter_eq_nil_iff]
    intro a ha
    rw [(List.mem_replicate.mp ha).2]
    simp [Op.isColl]
  rw [h1, h2]; rfl

theorem phasesScript_total (phs : List Phase) :
    passed (phasesScript phs) (phasesScript phs).length = phs.length := by
  induction phs with
  | nil => rfl
  | cons ph phs ih =>
    rw [phasesScript_cons, passed_total_append, ops_total, ih, List.length_cons, Nat.add_comm]

theorem ops_recv_index {ph : Phase} {i t : Nat} (h : ph.ops[i]? = some (Op.recvAny t)) :
    ph.sends.length < i := by
  cases i with
  | zero => simp [Phase.ops] at h
  | succ i =>
    by_cases hi : i < ph.sends.length
    · exfalso
      unfold Phase.ops at h
      rw [List.getElem?_cons_succ, List.getElem?_append_left (by simpa using hi),
        List.getElem?_map] at h
      cases hh : ph.sends[i]? <;> simp [hh] at h
    · omega

theorem ops_send_index {ph : Phase} {j d t b : Nat} (h : ph.ops[j]? = some (Op.send d t b)) :
    j ≤ ph.sends.length := by
  cases j with
  | zero => exact Nat.zero_le _
  | succ j =>
    by_cases hj : j < ph.sends.length
    · omega
    · exfalso
      unfold Phase.ops at h
      rw [List.getElem?_cons_succ, List.getElem?_append_right (by simpa using hj),
        List.getElem?_replicate] at h
      split at h <;> cases h

theorem phasesScript_sendsFirst (phs : List Phase) :
    ∀ (i j t d t' b : Nat), i < j → (phasesScript phs)[i]? = some (Op.recvAny t) →
      (phasesScript phs)[j]? = some (Op.send d t' b) →
      passed (phasesScript phs) i < passed (phasesScript phs) j := by
  induction phs with
  | nil => intro i j t d t' b _ h; simp [phasesScript] at h
  | cons ph phs ih =>
    intro i j t d t' b hij hi hj
    rw [phasesScript_cons] at hi hj ⊢
    by_cases hjl : j < ph.ops.length
    · exfalso
      rw [List.getElem?_append_left hjl] at hj
      rw [List.getElem?_append_left (Nat.lt_trans hij hjl)] at hi
      have := ops_recv_index hi
      have := ops_send_index hj
      omega
    · have hjl' : ph.ops.length ≤ j := Nat.le_of_not_lt hjl
      by_cases hil : i < ph.ops.length
      · -- `i` in this phase, `j` in a later one: the next phase starts with a collective
        have hj' := hj
        rw [List.getElem?_append_right hjl'] at hj'
        have hcoll : (ph.ops ++ phasesScript phs)[ph.ops.length]? = some Op.coll := by
          rw [List.getElem?_append_right (Nat.le_refl _), Nat.sub_self]
          cases phs with
          | nil => simp [phasesScript] at hj'
          | cons ph' phs' => rw [phasesScript_cons]; rfl
        have hne : j ≠ ph.ops.length := by
          intro heq; rw [heq, hcoll] at hj; cases hj
        have h1 := passed_mono (ph.ops ++ phasesScript phs) (Nat.le_of_lt hil)
        have h2 := passed_succ_of_coll hcoll rfl
        have h3 : passed (ph.ops ++ phasesScript phs) (ph.ops.length + 1) ≤
            passed (ph.ops ++ phasesScript phs) j := passed_mono _ (by omega)
        omega
      · obtain ⟨i', rfl⟩ := Nat.exists_eq_add_of_le (Nat.le_of_not_lt hil)
        obtain ⟨j', rfl⟩ := Nat.exists_eq_add_of_le hjl'
        rw [List.getElem?_append_right (Nat.le_add_right _ _), Nat.add_sub_cancel_left] at hi hj
        rw [passed_append_right, passed_append_right]
        have := ih i' j' t d t' b (by omega) hi hj
        omega

theorem PhaseStructured.noRecvFrom (h : PhaseStructured N S) : NoRecvFrom N S := by
  obtain ⟨K, hK⟩ := h
  intro q hq i s t hop
  obtain ⟨phs, _, hS⟩ := hK q hq
  have hmem := List.mem_of_getElem? hop
  rw [hS] at hmem
  obtain ⟨ph, _, hm⟩ := List.mem_flatMap.mp hmem
  rcases mem_ops hm with h | ⟨_, _, h⟩ | h <;> cases h

theorem PhaseStructured.sendsFirst (h : PhaseStructured N S) : SendsFirst N S := by
  obtain ⟨K, hK⟩ := h
  intro q hq i j t d t' b hij hi hj
  obtain ⟨phs, _, hS⟩ := hK q hq
  rw [hS] at hi hj ⊢
  exact phasesScript_sendsFirst phs i j t d t' b hij hi hj

theorem PhaseStructured.sameColls (h : PhaseStructured N S) : SameColls N S := by
  obtain ⟨K, hK⟩ := h
  intro p q hp hq
  obtain ⟨phs, h1, hS⟩ := hK p hp
  obtain ⟨phs', h1', hS'⟩ := hK q hq
  rw [hS, hS', phasesScript_total, phasesScript_total, h1, h1']

theorem WildOnly_of_noRecvFrom (h : NoRecvFrom N S) : WildOnly N S := by
  intro q hq i s t hop
  exact absurd hop (h q hq i s t)

/-- **Target 6 (progress).** For phase-structured scripts with matching counts, a reachable
    configuration in which some rank has not finished its script has a successor. -/
theorem no_deadlock (hps : PhaseStructured N S) (hcm : CountMatch N S) {c : Cfg}
    (h : Reach N S c) {r : Nat} (hr : r < N) (hun : c.pc r < (S r).length) :
    ∃ c', Step N S c c' :=
  progress hcm hps.noRecvFrom hps.sendsFirst hps.sameColls h hr hun

/-- Every execution is finite (`step_remaining`: each step decreases `remaining` by one), and a
    maximal one ends with all scripts finished and an empty network. -/
theorem maximal_execution_finished (hps : PhaseStructured N S) (hcm : CountMatch N S)
    (hdst : DstValid N S) {c : Cfg} (h : Reach N S c) (hterm : ¬ ∃ c', Step N S c c') :
    Finished N S c ∧ c.net = [] :=
  terminal_finished hcm hps.noRecvFrom hps.sendsFirst hps.sameColls hdst h hterm

/-- a complete execution exists -/
theorem exists_complete_execution (hps : PhaseStructured N S) (hcm : CountMatch N S) :
    ∃ c, Reach N S c ∧ Finished N S c :=
  exists_finished hcm hps.noRecvFrom hps.sendsFirst hps.sameColls

/-! ## Non-vacuity: a concrete 3-rank, two-phase script family reusing tag 7

Phase 1: ranks 1 and 2 each send one message (tag 7) to rank 0, which posts two wildcard
receives. Phase 2 (after the second collective): the same tag 7 is reused, now ranks 0 and 2
send to rank 1, which posts two wildcard receives. -/

def exS : Nat → Script
  | 0 => [.coll, .recvAny 7, .recvAny 7, .coll, .send 1 7 30]
  | 1 => [.coll, .send 0 7 10, .coll, .recvAny 7, .recvAny 7]
  | 2 => [.coll, .send 0 7 20, .coll, .send 1 7 40]
  | _ => []

theorem exS_countMatch : CountMatch 3 exS :=
  countMatch_of_bounded [7] 2 (by decide) (by decide) (by decide)

theorem exS_phaseStructured : PhaseStructured 3 exS := by
  refine ⟨2, fun q hq => ?_⟩
  match q, hq with
  | 0, _ => exact ⟨[⟨7, [], 2⟩, ⟨7, [(1, 30)], 0⟩], rfl, rfl⟩
  | 1, _ => exact ⟨[⟨7, [(0, 10)], 0⟩, ⟨7, [], 2⟩], rfl, rfl⟩
  | 2, _ => exact ⟨[⟨7, [(0, 20)], 0⟩, ⟨7, [(1, 40)], 0⟩], rfl, rfl⟩

theorem exS_wildOnly : WildOnly 3 exS := WildOnly_of_noRecvFrom exS_phaseStructured.noRecvFrom

theorem exS_dstValid : DstValid 3 exS := by
  intro p hp i d t b hop
  have hmem := List.mem_of_getElem? hop
  match p, hp with
  | 0, _ => simp [exS] at hmem; omega
  | 1, _ => simp [exS] at hmem; omega
  | 2, _ => simp [exS] at hmem; omega

/-- An explicitly constructed execution prefix: rank 2 passes the first collective and sends,
    rank 0 passes the collective and its first wildcard receive matches the message of rank 2
    (rank 1 has not even sent yet). -/
example : ∃ c, Reach 3 exS c ∧ c.log = [(0, 1, ⟨2, 1, 0, 7, 20, 1⟩)] ∧ c.net = [] := by
  have r1 := Reach.step (N := 3) (S := exS) Reach.init
    (Step.coll Mpi.init 2 (by decide) rfl (by decide))
  have r2 := Reach.step r1 (Step.send _ 2 0 7 20 (by decide) rfl)
  have r3 := Reach.step r2 (Step.coll _ 0 (by decide) rfl (by decide))
  have r4 := Reach.step r3 (Step.recvAny _ 0 7 ⟨2, 1, 0, 7, 20, 1⟩ (by decide) rfl
    (by decide) rfl rfl rfl)
  exact ⟨_, r4, rfl, rfl⟩

/-- The other arrival order is reachable too: both phase-1 messages are in flight and rank 0
    matches the message of rank 1 first, then that of rank 2. -/
example : ∃ c, Reach 3 exS c ∧
    c.log = [(0, 2, ⟨2, 1, 0, 7, 20, 1⟩), (0, 1, ⟨1, 1, 0, 7, 10, 1⟩)] := by
  have r1 := Reach.step (N := 3) (S := exS) Reach.init
    (Step.coll Mpi.init 2 (by decide) rfl (by decide))
  have r2 := Reach.step r1 (Step.send _ 2 0 7 20 (by decide) rfl)
  have r3 := Reach.step r2 (Step.coll _ 1 (by decide) rfl (by decide))
  have r4 := Reach.step r3 (Step.send _ 1 0 7 10 (by decide) rfl)
  have r5 := Reach.step r4 (Step.coll _ 0 (by decide) rfl (by decide))
  have r6 := Reach.step r5 (Step.recvAny _ 0 7 ⟨1, 1, 0, 7, 10, 1⟩ (by decide) rfl
    (by decide) rfl rfl rfl)
  have r7 := Reach.step r6 (Step.recvAny _ 0 7 ⟨2, 1, 0, 7, 20, 1⟩ (by decide) rfl
    (by decide) rfl rfl rfl)
  exact ⟨_, r7, rfl⟩

/-- The theorems apply to the example: complete executions exist, every one of them ends with an
    empty network, and all of them deliver the same multisets. -/
example : ∃ c, Reach 3 exS c ∧ Finished 3 exS c ∧ c.net = [] := by
  obtain ⟨c, h, hf⟩ := exists_complete_execution exS_phaseStructured exS_countMatch
  exact ⟨c, h, hf, finished_net_empty exS_countMatch exS_dstValid h hf⟩

example {c : Cfg} (h : Reach 3 exS c) {r pos t : Nat} {m : Msg} (hl : (r, pos, m) ∈ c.log)
    (hop : (exS r)[pos]? = some (.recvAny t)) : m.epoch = passed (exS r) pos :=
  phase_isolation exS_countMatch exS_wildOnly exS_dstValid h hl hop

/- OPEN (not proved): nothing — targets 1–7 are all proved in the generality asked for.
   Remarks on scope (not open problems of this file):
   * `WildOnly` and `DstValid` turned out to be unnecessary for the safety theorems
     (`phase_isolation`, `received_multiset_eq`, `arrival_order_irrelevant` keep them as unused
     hypotheses to match the specification; the `_of_countMatch`/`received_core` versions omit them).
   * Liveness (`progress`) is proved for scripts without `recvFrom` (`NoRecvFrom`), with sends
     before receives inside each epoch (`SendsFirst`) and equally many collectives on all ranks
     (`SameColls`); `PhaseStructured` implies the three. Progress for scripts that mix `recvFrom`
     with wildcard receives is not addressed (it is false in general).
-/

end Raptor.C05
