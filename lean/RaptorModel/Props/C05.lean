import RaptorModel.Model.Mpi
namespace Raptor.C05
open Raptor.Mpi

theorem passed_zero (s : Script) : passed s 0 = 0 := by simp [passed]

end Raptor.C05
