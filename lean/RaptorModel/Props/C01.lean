import RaptorModel.Model.Cycle
import Mathlib.Order.Basic
import Mathlib.Logic.Function.Iterate
import Mathlib.Data.Nat.Basic
/-!
# C01 — the solve loop tells the truth, for any cycle function

`solve cyc relres tol maxIter x0` is the stopping loop of `Multilevel::solve` /
`ParMultilevel::solve`:
`while (tol < relres x && iter < maxIter) { x := cyc x; iter++; record relres x }`.
Nothing is assumed about `cyc` and `relres`.

The general lemma `solveLoop_spec` needs only `[LT K] [DecidableLT K]` (so it also covers an IEEE
like order in which comparisons with NaN are false); the headline statements are given for a
`LinearOrder`, where `¬ tol < r ↔ r ≤ tol`, and for the NaN-extended scalar `NF K`.
-/
namespace Raptor.C01
open Raptor.Cycle

/-! ### the general loop invariant (any decidable `<`) -/
section Hist
variable {K : Type}

/-- history entries appended by `m` further cycles starting at `x` -/
def tailHist (cyc : List K → List K) (relres : List K → K) (x : List K) (m : Nat) : List K :=
  (List.range m).map fun k => relres (cyc^[k + 1] x)

theorem tailHist_zero (cyc : List K → List K) (relres : List K → K) (x : List K) :
    tailHist cyc relres x 0 = [] := rfl

theorem tailHist_succ (cyc : List K → List K) (relres : List K → K) (x : List K) (m : Nat) :
    tailHist cyc relres x (m + 1) = relres (cyc x) :: tailHist cyc relres (cyc x) m := by
  unfold tailHist
  rw [List.range_succ_eq_map, List.map_cons, List.map_map]
  rfl

/-- `relres x0 :: tailHist … x0 m` is the list of the residuals of the iterates `0 … m` -/
theorem hist_eq_range (cyc : List K → List K) (relres : List K → K) (x0 : List K) (m : Nat) :
    [relres x0] ++ tailHist cyc relres x0 m
      = (List.range (m + 1)).map fun k => relres (cyc^[k] x0) := by
  unfold tailHist
  rw [List.range_succ_eq_map, List.map_cons, List.map_map]
  rfl

end Hist

section General
variable {K : Type} [LT K] [DecidableLT K]

/-- Complete description of the loop: it performs some number `m ≤ fuel` of cycles, returns the
`m`-th iterate, adds `m` to the counter, appends the `m` new residuals, every iterate before the
`m`-th failed the tolerance test, and if fuel was left the `m`-th iterate passed it. -/
theorem solveLoop_spec (cyc : List K → List K) (relres : List K → K) (tol : K) :
    ∀ (fuel : Nat) (x : List K) (it : Nat) (hist : List K),
      ∃ m, m ≤ fuel ∧
        solveLoop cyc relres tol fuel x it hist
          = { x := cyc^[m] x, iters := it + m, hist := hist ++ tailHist cyc relres x m } ∧
        (∀ k, k < m → tol < relres (cyc^[k] x)) ∧
        (m < fuel → ¬ tol < relres (cyc^[m] x)) := by
  intro fuel
  induction fuel with
  | zero =>
    intro x it hist
    refine ⟨0, Nat.le_refl 0, ?_, ?_, ?_⟩
    · simp [solveLoop, tailHist_zero]
    · intro k hk; exact absurd hk (Nat.not_lt_zero k)
    · intro h; exact absurd h (Nat.lt_irrefl 0)
  | succ fuel ih =>
    intro x it hist
    by_cases hx : tol < relres x
    · obtain ⟨m, hm, heq, hbefore, hstop⟩ := ih (cyc x) (it + 1) (hist ++ [relres (cyc x)])
      refine ⟨m + 1, Nat.succ_le_succ hm, ?_, ?_, ?_⟩
      · rw [solveLoop, if_pos hx]
        show solveLoop cyc relres tol fuel (cyc x) (it + 1) (hist ++ [relres (cyc x)]) = _
        rw [heq, tailHist_succ, Function.iterate_succ_apply, List.append_assoc,
          List.singleton_append, Nat.add_assoc, Nat.add_comm 1 m]
      · intro k hk
        cases k with
        | zero => exact hx
        | succ k =>
          rw [Function.iterate_succ_apply]
          exact hbefore k (Nat.lt_of_succ_lt_succ hk)
      · intro h
        rw [Function.iterate_succ_apply]
        exact hstop (Nat.lt_of_succ_lt_succ h)
    · refine ⟨0, Nat.zero_le _, ?_, ?_, ?_⟩
      · rw [solveLoop, if_neg hx]
        simp [tailHist_zero]
      · intro k hk; exact absurd hk (Nat.not_lt_zero k)
      · intro _; exact hx

/-- `solve` in closed form. All numbered statements below are read off from this. -/
theorem solve_spec (cyc : List K → List K) (relres : List K → K) (tol : K) (maxIter : Nat)
    (x0 : List K) :
    ∃ m, m ≤ maxIter ∧
      solve cyc relres tol maxIter x0
        = { x := cyc^[m] x0, iters := m,
            hist := (List.range (m + 1)).map fun k => relres (cyc^[k] x0) } ∧
      (∀ k, k < m → tol < relres (cyc^[k] x0)) ∧
      (m < maxIter → ¬ tol < relres (cyc^[m] x0)) := by
  obtain ⟨m, hm, heq, hbefore, hstop⟩ := solveLoop_spec cyc relres tol maxIter x0 0 [relres x0]
  refine ⟨m, hm, ?_, hbefore, hstop⟩
  rw [solve, heq, hist_eq_range, Nat.zero_add]

/-- 1. the iteration count never exceeds the limit -/
theorem solve_iters_le (cyc : List K → List K) (relres : List K → K) (tol : K) (maxIter : Nat)
    (x0 : List K) : (solve cyc relres tol maxIter x0).iters ≤ maxIter := by
  obtain ⟨m, hm, heq, -, -⟩ := solve_spec cyc relres tol maxIter x0
  rw [heq]; exact hm

/-- 2. the returned vector is the iterate after `iters` cycles -/
theorem solve_x_eq (cyc : List K → List K) (relres : List K → K) (tol : K) (maxIter : Nat)
    (x0 : List K) :
    (solve cyc relres tol maxIter x0).x = cyc^[(solve cyc relres tol maxIter x0).iters] x0 := by
  obtain ⟨m, -, heq, -, -⟩ := solve_spec cyc relres tol maxIter x0
  rw [heq]

/-- 3. the reported history is exactly the residual of the iterates `0 … iters` -/
theorem solve_hist (cyc : List K → List K) (relres : List K → K) (tol : K) (maxIter : Nat)
    (x0 : List K) :
    (solve cyc relres tol maxIter x0).hist
      = (List.range ((solve cyc relres tol maxIter x0).iters + 1)).map
          fun k => relres (cyc^[k] x0) := by
  obtain ⟨m, -, heq, -, -⟩ := solve_spec cyc relres tol maxIter x0
  rw [heq]

theorem solve_hist_length (cyc : List K → List K) (relres : List K → K) (tol : K) (maxIter : Nat)
    (x0 : List K) :
    (solve cyc relres tol maxIter x0).hist.length
      = (solve cyc relres tol maxIter x0).iters + 1 := by
  rw [solve_hist, List.length_map, List.length_range]

/-- 4 (order-free form). fewer iterations than the limit: the loop test is false at the result -/
theorem solve_truthful_lt (cyc : List K → List K) (relres : List K → K) (tol : K) (maxIter : Nat)
    (x0 : List K) (h : (solve cyc relres tol maxIter x0).iters < maxIter) :
    ¬ tol < relres (solve cyc relres tol maxIter x0).x := by
  obtain ⟨m, -, heq, -, hstop⟩ := solve_spec cyc relres tol maxIter x0
  rw [heq] at h ⊢
  exact hstop h

/-- 5. no earlier iterate passed the tolerance test -/
theorem solve_stops_first (cyc : List K → List K) (relres : List K → K) (tol : K) (maxIter : Nat)
    (x0 : List K) :
    ∀ k, k < (solve cyc relres tol maxIter x0).iters → tol < relres (cyc^[k] x0) := by
  obtain ⟨m, -, heq, hbefore, -⟩ := solve_spec cyc relres tol maxIter x0
  rw [heq]; exact hbefore

/-- converse direction of 4/5: an iterate within the budget that passes the test stops the loop
no later than there -/
theorem solve_iters_le_of_pass (cyc : List K → List K) (relres : List K → K) (tol : K)
    (maxIter : Nat) (x0 : List K) (k : Nat) (hk : ¬ tol < relres (cyc^[k] x0)) :
    (solve cyc relres tol maxIter x0).iters ≤ k := by
  apply Nat.le_of_not_lt
  intro h
  exact hk (solve_stops_first cyc relres tol maxIter x0 k h)

end General

/-! ### linear order: "`iters < maxIter` ⇒ converged" -/
section Linear
variable {K : Type} [LinearOrder K]

/-- 4. **fewer iterations than the limit means the returned vector meets the tolerance** -/
theorem solve_truthful (cyc : List K → List K) (relres : List K → K) (tol : K) (maxIter : Nat)
    (x0 : List K) (h : (solve cyc relres tol maxIter x0).iters < maxIter) :
    relres (solve cyc relres tol maxIter x0).x ≤ tol :=
  not_lt.mp (solve_truthful_lt cyc relres tol maxIter x0 h)

/-- 4'. the last entry of the reported history is the residual of the returned vector, hence
`iters < maxIter` implies that the last reported residual is `≤ tol` -/
theorem solve_hist_getLast (cyc : List K → List K) (relres : List K → K) (tol : K) (maxIter : Nat)
    (x0 : List K) :
    (solve cyc relres tol maxIter x0).hist.getLast? =
      some (relres (solve cyc relres tol maxIter x0).x) := by
  rw [solve_hist, solve_x_eq, List.range_succ, List.map_append]
  simp

/-- the loop stops at the first iterate (within the budget) that meets the tolerance -/
theorem solve_iters_le_of_le (cyc : List K → List K) (relres : List K → K) (tol : K)
    (maxIter : Nat) (x0 : List K) (k : Nat) (hk : relres (cyc^[k] x0) ≤ tol) :
    (solve cyc relres tol maxIter x0).iters ≤ k :=
  solve_iters_le_of_pass cyc relres tol maxIter x0 k (not_lt.mpr hk)

/-- exact characterisation: either converged, or the limit was hit -/
theorem solve_converged_or_limit (cyc : List K → List K) (relres : List K → K) (tol : K)
    (maxIter : Nat) (x0 : List K) :
    relres (solve cyc relres tol maxIter x0).x ≤ tol ∨
      (solve cyc relres tol maxIter x0).iters = maxIter := by
  rcases Nat.lt_or_ge (solve cyc relres tol maxIter x0).iters maxIter with h | h
  · exact Or.inl (solve_truthful cyc relres tol maxIter x0 h)
  · exact Or.inr (Nat.le_antisymm (solve_iters_le cyc relres tol maxIter x0) h)

end Linear

/-! ### NaN-aware scalar -/

/-- a scalar that is either finite or NaN -/
inductive NF (K : Type) where
  | fin (k : K)
  | nan
deriving DecidableEq, Repr

namespace NF
variable {K : Type} [LT K]

/-- IEEE comparison: false as soon as one side is NaN -/
def lt : NF K → NF K → Prop
  | fin a, fin b => a < b
  | _, _ => False

instance : LT (NF K) := ⟨NF.lt⟩

instance [DecidableLT K] : DecidableLT (NF K) := fun a b =>
  match a, b with
  | fin a, fin b => inferInstanceAs (Decidable (a < b))
  | fin _, nan => isFalse (fun h => h)
  | nan, fin _ => isFalse (fun h => h)
  | nan, nan => isFalse (fun h => h)

theorem fin_lt_fin (a b : K) : (fin a < fin b) ↔ a < b := Iff.rfl
theorem not_lt_nan (a : NF K) : ¬ a < nan := by
  cases a <;> exact fun h => h
theorem not_nan_lt (a : NF K) : ¬ nan < a := by
  cases a <;> exact fun h => h

end NF

section NaN
variable {K : Type}
open NF

/-- 6a. with a NaN residual at the start the loop test is false: zero iterations are reported,
whatever the tolerance and the limit. (So "iters < maxIter" alone does not mean "converged" in
floating point: the residual has to be finite, see `solve_truthful_nf`.) -/
theorem solve_nan_stops [LT K] [DecidableLT K] (cyc : List (NF K) → List (NF K))
    (relres : List (NF K) → NF K) (tol : NF K) (maxIter : Nat) (x0 : List (NF K))
    (h : relres x0 = nan) :
    solve cyc relres tol maxIter x0 = { x := x0, iters := 0, hist := [nan] } := by
  unfold solve
  cases maxIter with
  | zero => rw [solveLoop, h]
  | succ n =>
    rw [solveLoop, if_neg (by rw [h]; exact not_lt_nan tol), h]

/-- 6a'. the same when the tolerance is NaN -/
theorem solve_nan_tol_stops [LT K] [DecidableLT K] (cyc : List (NF K) → List (NF K))
    (relres : List (NF K) → NF K) (maxIter : Nat) (x0 : List (NF K)) :
    solve cyc relres nan maxIter x0 = { x := x0, iters := 0, hist := [relres x0] } := by
  unfold solve
  cases maxIter with
  | zero => rw [solveLoop]
  | succ n => rw [solveLoop, if_neg (not_nan_lt _)]

/-- 6a''. a NaN residual at any iterate within the budget stops the loop there at the latest -/
theorem solve_nan_stops_at [LT K] [DecidableLT K] (cyc : List (NF K) → List (NF K))
    (relres : List (NF K) → NF K) (tol : NF K) (maxIter : Nat) (x0 : List (NF K)) (k : Nat)
    (h : relres (cyc^[k] x0) = nan) :
    (solve cyc relres tol maxIter x0).iters ≤ k :=
  solve_iters_le_of_pass cyc relres tol maxIter x0 k (by rw [h]; exact not_lt_nan tol)

/-- 6b. truthfulness with NaN: fewer iterations than the limit and a *finite* residual `r` of the
returned vector (finite tolerance `tol'`) give `r ≤ tol'` -/
theorem solve_truthful_nf [LinearOrder K] (cyc : List (NF K) → List (NF K))
    (relres : List (NF K) → NF K) (tol' : K) (maxIter : Nat) (x0 : List (NF K))
    (h : (solve cyc relres (fin tol') maxIter x0).iters < maxIter) :
    ∀ r, relres (solve cyc relres (fin tol') maxIter x0).x = fin r → r ≤ tol' := by
  intro r hr
  have := solve_truthful_lt cyc relres (fin tol') maxIter x0 h
  rw [hr, fin_lt_fin] at this
  exact not_lt.mp this

/-- 6c. the dichotomy: stopping early means NaN residual or converged -/
theorem solve_early_nan_or_le [LinearOrder K] (cyc : List (NF K) → List (NF K))
    (relres : List (NF K) → NF K) (tol' : K) (maxIter : Nat) (x0 : List (NF K))
    (h : (solve cyc relres (fin tol') maxIter x0).iters < maxIter) :
    relres (solve cyc relres (fin tol') maxIter x0).x = nan ∨
      ∃ r, relres (solve cyc relres (fin tol') maxIter x0).x = fin r ∧ r ≤ tol' := by
  cases hr : relres (solve cyc relres (fin tol') maxIter x0).x with
  | nan => exact Or.inl rfl
  | fin r => exact Or.inr ⟨r, rfl, solve_truthful_nf cyc relres tol' maxIter x0 h r hr⟩

end NaN

/-! ### concrete instances -/
section Examples

deriving instance DecidableEq for SolveOut

/-- halve every entry; residual = sum; tol 3; start [40]: 40, 20, 10, 5, 2 → 4 cycles -/
def exCyc (x : List Nat) : List Nat := x.map (· / 2)
def exRes (x : List Nat) : Nat := x.sum

example : (solve exCyc exRes 3 10 [40]).iters = 4 := by decide
example : (solve exCyc exRes 3 10 [40]).iters < 10 := by decide
example : (solve exCyc exRes 3 10 [40]).x = [2] := by decide
example : (solve exCyc exRes 3 10 [40]).hist = [40, 20, 10, 5, 2] := by decide
/-- the conclusion of `solve_truthful`, obtained from the theorem and checked directly -/
example : exRes (solve exCyc exRes 3 10 [40]).x ≤ 3 :=
  solve_truthful exCyc exRes 3 10 [40] (by decide)
example : exRes (solve exCyc exRes 3 10 [40]).x ≤ 3 := by decide
/-- limit hit: 2 cycles are not enough, `iters = maxIter` and the residual is above `tol` -/
example : (solve exCyc exRes 3 2 [40]).iters = 2 ∧ 3 < exRes (solve exCyc exRes 3 2 [40]).x := by
  decide

/-- NaN instance: the "cycle" produces NaN after the first application -/
def exCycN (x : List (NF Nat)) : List (NF Nat) := x.map fun _ => NF.nan
def exResN (x : List (NF Nat)) : NF Nat := x.headD NF.nan

example : solve exCycN exResN (NF.fin 3) 10 [NF.fin 40]
    = { x := [NF.nan], iters := 1, hist := [NF.fin 40, NF.nan] } := by decide
example : solve exCycN exResN (NF.fin 3) 10 [NF.nan]
    = { x := [NF.nan], iters := 0, hist := [NF.nan] } :=
  solve_nan_stops exCycN exResN (NF.fin 3) 10 [NF.nan] rfl

end Examples

end Raptor.C01
