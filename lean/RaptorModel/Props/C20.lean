import RaptorModel.Lemmas.RepartLemmas
import Mathlib.Algebra.BigOperators.Ring.Finset
import Mathlib.Algebra.Field.Basic
import Mathlib.Data.Fintype.Basic
/-!
# C20 — repartitioning (`repartition_matrix`, `make_contiguous`) and diagonal / row scaling

Model: `Model/Repart.lean`. Helper lemmas: `Lemmas/RepartLemmas.lean`.

Standing hypotheses (all decidable, defined in `Lemmas/RepartLemmas.lean`, namespace `Raptor.Repart`):

* `WFInput ranks n` : the global ids of all rows of all ranks are a permutation of `List.range n`
  (every row is owned exactly once) and every column id is `< n`;
* `TgtOk tgt np n` : `tgt g < np` for every `g < n` (here `np = ranks.length`);
* `ValidOrders tgt ranks orders` : for every rank `p`, `orders p` is a permutation of
  `senders tgt ranks p` (each sender exactly once, in any order).

Contents, in the order of the file:

1. sorting (`sortLe_perm`, `sortLe_sorted`, uniqueness) and the independence of the arrival order:
   `recvRows_order_independent`, `recvCols_order_independent`, `repartition_order_independent`;
2. `reported_perm`, `rank_holds`;
3. numbering: `newOf_eq_newIdAt`, `offNew_eq`;
4. `repartition_entries` (main theorem), `repartition_dense`, `repartition_spmv`;
5. validity of the halo map and of the package: `halo_valid`, `block_indices_valid`, `halo_owner`;
6. scaling: `rowScales_spec`, `diagScaleRank_entries`, `diagScale_halo`, `rowScaleRank_entries`,
   `unscale_solves`, `rowScale_equiv`;
7. a concrete 2-rank / 4-row input evaluated by `decide`.
-/
namespace Raptor.C20
open Raptor.Sparse Raptor.Repart

variable {K : Type}

/-! ## 1. sorting and the independence of the arrival order -/

theorem sortLe_perm {α : Type} (le : α → α → Bool) (l : List α) : (sortLe le l).Perm l :=
  Repart.sortLe_perm le l

theorem sortLe_sorted {α : Type} (le : α → α → Bool)
    (total : ∀ a b, le a b = true ∨ le b a = true)
    (trans : ∀ a b c, le a b = true → le b c = true → le a c = true) (l : List α) :
    (sortLe le l).Pairwise (fun a b => le a b = true) :=
  Repart.sortLe_sorted le total trans l

/-- two lists that are permutations of each other, both sorted by a key with pairwise distinct
    values, are equal -/
theorem sorted_unique_of_distinct_keys {α : Type} (key : α → Nat) {l₁ l₂ : List α} (hp : l₁.Perm l₂)
    (hk : (l₁.map key).Nodup)
    (h₁ : l₁.Pairwise (fun a b => key a ≤ key b)) (h₂ : l₂.Pairwise (fun a b => key a ≤ key b)) :
    l₁ = l₂ :=
  sorted_by_key_unique key hp hk h₁ h₂

/-- the rows a rank holds after the receive loop do not depend on the arrival order -/
theorem recvRows_order_independent {tgt : Nat → Nat} {ranks : List (List (GRow K))} {n p : Nat}
    {o₁ o₂ : List Nat} (h : WFInput ranks n)
    (h₁ : o₁.Perm (senders tgt ranks p)) (h₂ : o₂.Perm (senders tgt ranks p)) :
    recvRows tgt ranks p o₁ = recvRows tgt ranks p o₂ := by
  rw [recvRows_spec h h₁, recvRows_spec h h₂]

/-- the foreign column list of a rank does not depend on the arrival order (no well-formedness
    needed: the pair of a column is a function of the column) -/
theorem recvCols_order_independent {tgt : Nat → Nat} {ranks : List (List (GRow K))} {p : Nat}
    {o₁ o₂ : List Nat}
    (h₁ : o₁.Perm (senders tgt ranks p)) (h₂ : o₂.Perm (senders tgt ranks p)) :
    recvCols tgt ranks p o₁ = recvCols tgt ranks p o₂ := by
  rw [recvCols_spec h₁, recvCols_spec h₂]

/-- **the any-source receive cannot influence the result** -/
theorem repartition_order_independent {tgt : Nat → Nat} {ranks : List (List (GRow K))} {n : Nat}
    {orders₁ orders₂ : Nat → List Nat} (h : WFInput ranks n)
    (h₁ : ValidOrders tgt ranks orders₁) (h₂ : ValidOrders tgt ranks orders₂) :
    repartition tgt ranks orders₁ = repartition tgt ranks orders₂ := by
  unfold repartition
  apply List.map_congr_left
  intro p hp
  have hp' := List.mem_range.mp hp
  apply repartRank_congr
  · exact heldIds_congr fun q hq => recvRows_order_independent h (h₁ q hq) (h₂ q hq)
  · exact recvRows_order_independent h (h₁ p hp') (h₂ p hp')
  · exact recvCols_order_independent (h₁ p hp') (h₂ p hp')

/-! ## 2. the reported permutation; who holds what -/

/-- the rows named to the caller form one permutation of the global ids -/
theorem reported_perm {tgt : Nat → Nat} {ranks : List (List (GRow K))} {n : Nat}
    {orders : Nat → List Nat} (h : WFInput ranks n) (ht : TgtOk tgt ranks.length n)
    (ho : ValidOrders tgt ranks orders) :
    (reported (repartition tgt ranks orders)).Perm (List.range n) :=
  reported_perm_range h ht ho

/-- rank `p` holds exactly the rows with `tgt g = p`, increasing -/
theorem rank_holds {tgt : Nat → Nat} {ranks : List (List (GRow K))} {n : Nat}
    {orders : Nat → List Nat} (h : WFInput ranks n) (ho : ValidOrders tgt ranks orders)
    {p : Nat} (hp : p < ranks.length) :
    (repartRank tgt ranks orders p).oldIds = (List.range n).filter (tgt · == p) :=
  recvRows_ids h (ho p hp)

/-- the first new id of a rank is the number of rows held below it -/
theorem rank_first (tgt : Nat → Nat) (ranks : List (List (GRow K))) (orders : Nat → List Nat) (p : Nat) :
    (repartRank tgt ranks orders p).first =
      (((repartition tgt ranks orders).take p).map fun R => R.oldIds.length).sum := by
  unfold repartition
  rw [← List.map_take, List.map_map]
  show firstOf (heldIds tgt ranks orders) p = _
  unfold firstOf heldIds
  rw [← List.map_take, List.map_map]
  rfl

/-! ## 3. numbering -/

/-- the id `make_contiguous` fetches from the owner through the package is the position in the
    reported permutation -/
theorem newOf_eq_newIdAt {tgt : Nat → Nat} {ranks : List (List (GRow K))} {n : Nat}
    {orders : Nat → List Nat} (h : WFInput ranks n) (ht : TgtOk tgt ranks.length n)
    (ho : ValidOrders tgt ranks orders) {g : Nat} (hg : g < n) :
    newOf (reported (repartition tgt ranks orders)) g =
      newIdAt (heldIds tgt ranks orders) (tgt g) g :=
  Repart.newOf_eq_newIdAt h ht ho hg

/-- the halo map of every rank is the reported renumbering of its foreign columns -/
theorem offNew_eq {tgt : Nat → Nat} {ranks : List (List (GRow K))} {n : Nat}
    {orders : Nat → List Nat} (h : WFInput ranks n) (ht : TgtOk tgt ranks.length n)
    (ho : ValidOrders tgt ranks orders) {p : Nat} (hp : p < ranks.length) :
    (repartRank tgt ranks orders p).offNew =
      (repartRank tgt ranks orders p).offOld.map fun c =>
        newOf (reported (repartition tgt ranks orders)) c.1 := by
  rw [repartRank_eq]
  simp only
  apply List.map_congr_left
  intro c hc
  obtain ⟨hc1, hc2, _⟩ := recvCols_mem_spec h ho hp hc
  rw [Repart.newOf_eq_newIdAt h ht ho hc1, hc2]

/-- new ids stay below `n`, and the renumbering is injective on the old ids -/
theorem newOf_lt {tgt : Nat → Nat} {ranks : List (List (GRow K))} {n : Nat}
    {orders : Nat → List Nat} (h : WFInput ranks n) (ht : TgtOk tgt ranks.length n)
    (ho : ValidOrders tgt ranks orders) {g : Nat} (hg : g < n) :
    newOf (reported (repartition tgt ranks orders)) g < n :=
  Repart.newOf_lt (reported_perm h ht ho) hg

theorem newOf_injective {tgt : Nat → Nat} {ranks : List (List (GRow K))} {n : Nat}
    {orders : Nat → List Nat} (h : WFInput ranks n) (ht : TgtOk tgt ranks.length n)
    (ho : ValidOrders tgt ranks orders) {a b : Nat} (ha : a < n) (hb : b < n)
    (hab : newOf (reported (repartition tgt ranks orders)) a =
      newOf (reported (repartition tgt ranks orders)) b) : a = b :=
  newOf_inj (reported_perm h ht ho) a b ha hb hab

/-- position `k` of the reported permutation is the old id whose new id is `k` -/
theorem reported_getElem?_newOf {tgt : Nat → Nat} {ranks : List (List (GRow K))} {n : Nat}
    {orders : Nat → List Nat} (h : WFInput ranks n) (ht : TgtOk tgt ranks.length n)
    (ho : ValidOrders tgt ranks orders) {g : Nat} (hg : g < n) :
    (reported (repartition tgt ranks orders))[newOf (reported (repartition tgt ranks orders)) g]? =
      some g :=
  getElem?_posOf ((reported_perm h ht ho).mem_iff.mpr (List.mem_range.mpr hg))

/-! ## 4. the new matrix is the old one renumbered by the one reported permutation -/

/-- **main theorem** -/
theorem repartition_entries {tgt : Nat → Nat} {ranks : List (List (GRow K))} {n : Nat}
    {orders : Nat → List Nat} (h : WFInput ranks n) (ht : TgtOk tgt ranks.length n)
    (ho : ValidOrders tgt ranks orders) :
    (outputEntries (repartition tgt ranks orders)).Perm
      ((inputEntries ranks).map fun e =>
        (newOf (reported (repartition tgt ranks orders)) e.1,
         newOf (reported (repartition tgt ranks orders)) e.2.1, e.2.2)) :=
  repartition_entries_perm h ht ho

/-- dense form: entry `(i, j)` of the old operator is entry `(new i, new j)` of the new one -/
theorem repartition_dense [AddCommMonoid K] {tgt : Nat → Nat} {ranks : List (List (GRow K))} {n : Nat}
    {orders : Nat → List Nat} (h : WFInput ranks n) (ht : TgtOk tgt ranks.length n)
    (ho : ValidOrders tgt ranks orders) {i j : Nat} (hi : i < n) (hj : j < n) :
    denE (outputEntries (repartition tgt ranks orders))
        (newOf (reported (repartition tgt ranks orders)) i)
        (newOf (reported (repartition tgt ranks orders)) j) =
      denE (inputEntries ranks) i j := by
  rw [denE_perm (repartition_entries h ht ho)]
  exact denE_map_renum _ _ n (newOf_inj (reported_perm h ht ho)) (inputEntries_lt h) hi hj

/-- multiplying the permuted vector by the new matrix gives the permuted product -/
theorem repartition_spmv [CommSemiring K] {tgt : Nat → Nat} {ranks : List (List (GRow K))} {n : Nat}
    {orders : Nat → List Nat} (h : WFInput ranks n) (ht : TgtOk tgt ranks.length n)
    (ho : ValidOrders tgt ranks orders) (x : List K) {i : Nat} (hi : i < n) :
    Spmv.actE (outputEntries (repartition tgt ranks orders))
        ((reported (repartition tgt ranks orders)).map fun g => x.getD g 0)
        (newOf (reported (repartition tgt ranks orders)) i) =
      Spmv.actE (inputEntries ranks) x i := by
  rw [actE_perm (repartition_entries h ht ho)]
  exact actE_map_renum _ _ n x _ (newOf_inj (reported_perm h ht ho)) (inputEntries_lt h)
    (fun c hc => at'_permuted (reported_perm h ht ho) x hc) hi

/-! ## 5. validity of the halo map and of the package built on it -/

/-- the halo map of a rank is strictly increasing, below `n`, and disjoint from the rank's own
    range `[first, first + oldIds.length)` -/
theorem halo_valid {tgt : Nat → Nat} {ranks : List (List (GRow K))} {n : Nat}
    {orders : Nat → List Nat} (h : WFInput ranks n) (ht : TgtOk tgt ranks.length n)
    (ho : ValidOrders tgt ranks orders) {p : Nat} (hp : p < ranks.length) :
    (repartRank tgt ranks orders p).offNew.Pairwise (· < ·) ∧
    ∀ y ∈ (repartRank tgt ranks orders p).offNew,
      y < n ∧ ¬ ((repartRank tgt ranks orders p).first ≤ y ∧
        y < (repartRank tgt ranks orders p).first + (repartRank tgt ranks orders p).oldIds.length) :=
  ⟨offNew_sorted h ht ho hp, offNew_range h ht ho hp⟩

/-- the local indices stored in the two blocks are in range -/
theorem block_indices_valid {tgt : Nat → Nat} {ranks : List (List (GRow K))} {n : Nat}
    {orders : Nat → List Nat} (h : WFInput ranks n)
    (ho : ValidOrders tgt ranks orders) {p : Nat} (hp : p < ranks.length) :
    (∀ row ∈ (repartRank tgt ranks orders p).on, ∀ e ∈ row,
      e.1 < (repartRank tgt ranks orders p).oldIds.length) ∧
    (∀ row ∈ (repartRank tgt ranks orders p).off, ∀ e ∈ row,
      e.1 < (repartRank tgt ranks orders p).offNew.length) :=
  ⟨on_cols_lt tgt ranks orders p, off_cols_lt h ho hp⟩

/-- the gathered first ids of the new partition form a valid `first_cols` array -/
theorem newFc_valid (tgt : Nat → Nat) (ranks : List (List (GRow K))) (orders : Nat → List Nat) :
    Comm.FcOk (newFc (heldIds tgt ranks orders)) ranks.length := by
  have := newFc_ok (heldIds tgt ranks orders)
  rwa [heldIds_length] at this

/-- `newFc` is the gathered array of the ranks' `first`, closed by the total `n` -/
theorem newFc_first {tgt : Nat → Nat} {ranks : List (List (GRow K))} {n : Nat}
    {orders : Nat → List Nat} (h : WFInput ranks n) (ht : TgtOk tgt ranks.length n)
    (ho : ValidOrders tgt ranks orders) :
    (∀ p, p < ranks.length →
      (newFc (heldIds tgt ranks orders)).getD p 0 = (repartRank tgt ranks orders p).first) ∧
    (newFc (heldIds tgt ranks orders)).getD ranks.length 0 = n := by
  constructor
  · intro p hp
    rw [newFc_getD _ (by rw [heldIds_length]; omega)]
    rfl
  · rw [newFc_getD _ (by rw [heldIds_length])]
    exact firstOf_total h ht ho

/-- with `fc` the prefix sums of the numbers of rows held, the owner of halo id `offNew[j]` under
    the new contiguous partition is the owner `offOld[j].2` the package was built with -/
theorem halo_owner {tgt : Nat → Nat} {ranks : List (List (GRow K))} {n : Nat}
    {orders : Nat → List Nat} (h : WFInput ranks n) (ht : TgtOk tgt ranks.length n)
    (ho : ValidOrders tgt ranks orders) {p : Nat} (hp : p < ranks.length) :
    (repartRank tgt ranks orders p).offNew.map (Comm.owner (newFc (heldIds tgt ranks orders))) =
      (repartRank tgt ranks orders p).offOld.map (·.2) :=
  offNew_owner h ht ho hp

/-- hence the standard forward exchange over the new halo maps delivers the specification -/
theorem new_halo_exchange {α : Type} {tgt : Nat → Nat} {ranks : List (List (GRow K))} {n : Nat}
    {orders : Nat → List Nat} (h : WFInput ranks n) (ht : TgtOk tgt ranks.length n)
    (ho : ValidOrders tgt ranks orders) (d : α) (x : List (List α)) {p : Nat} (hp : p < ranks.length) :
    Comm.exchange d (newFc (heldIds tgt ranks orders))
        ((repartition tgt ranks orders).map (·.offNew)) x p =
      Comm.haloSpec d (newFc (heldIds tgt ranks orders))
        ((repartition tgt ranks orders).map (·.offNew)) x p := by
  apply Comm.exchange_eq_spec_of_sorted
  have e : ((repartition tgt ranks orders).map (·.offNew)).getD p [] =
      (repartRank tgt ranks orders p).offNew := by
    unfold repartition
    rw [List.map_map, List.getD_eq_getElem?_getD, List.getElem?_map, List.getElem?_range hp]
    rfl
  rw [e]
  apply Comm.owners_sorted (newFc_valid tgt ranks orders)
  · exact (offNew_sorted h ht ho hp).imp (fun hab => Nat.le_of_lt hab)
  · intro c hc
    rw [← heldIds_length tgt ranks orders, newFc_getD _ (Nat.le_refl _), heldIds_length,
      firstOf_total h ht ho]
    exact (offNew_range h ht ho hp c hc).1

/-! ## 6. scaling -/

/-- if local row `i` of the on-process block has exactly one entry with column `i`, of value `a`,
    the scale of the row is `sc a` -/
theorem rowScales_spec [Zero K] (sc : K → K) (on : List (List (Nat × K))) (i : Nat)
    (row : List (Nat × K)) (a : K) (hrow : on[i]? = some row) (hmem : (i, a) ∈ row)
    (huniq : ∀ e ∈ row, e.1 = i → e = (i, a)) :
    (rowScales sc on).getD i 0 = sc a :=
  Repart.rowScales_spec sc on i row a hrow hmem huniq

/-- `diagonally_scale`, one rank, global reading: entry `(i, j, v)` becomes `(i, j, v * (d i * d j))`
    for any `d` that reads the rank's scales on its own range and the delivered halo scales on the
    halo ids -/
theorem diagScaleRank_entries [Zero K] [Mul K] (sc : K → K) (B : Blk K) (halo : List K)
    (first : Nat) (offMap : List Nat) (d : Nat → K)
    (hon : ∀ i, i < B.on.length → d (first + i) = (rowScales sc B.on).getD i 0)
    (hoff : ∀ k, k < offMap.length → d (offMap.getD k 0) = halo.getD k 0)
    (hlen : B.off.length ≤ B.on.length)
    (hcol : ∀ row ∈ B.on, ∀ e ∈ row, e.1 < B.on.length)
    (hpos : ∀ row ∈ B.off, ∀ e ∈ row, e.1 < offMap.length) :
    ((diagScaleRank sc B halo).1.entries first offMap).Perm
      ((B.entries first offMap).map fun e => (e.1, e.2.1, e.2.2 * (d e.1 * d e.2.1))) :=
  Repart.diagScaleRank_entries sc B halo first offMap d hon hoff hlen hcol hpos

/-- such a `d` exists as soon as the halo ids are distinct and outside the rank's own range -/
theorem diagScaleRank_entries_scaleFn [Zero K] [Mul K] (sc : K → K) (B : Blk K) (halo : List K)
    (first : Nat) (offMap : List Nat)
    (hn : offMap.Nodup) (hout : ∀ g ∈ offMap, ¬ (first ≤ g ∧ g < first + B.on.length))
    (hlen : B.off.length ≤ B.on.length)
    (hcol : ∀ row ∈ B.on, ∀ e ∈ row, e.1 < B.on.length)
    (hpos : ∀ row ∈ B.off, ∀ e ∈ row, e.1 < offMap.length) :
    ((diagScaleRank sc B halo).1.entries first offMap).Perm
      ((B.entries first offMap).map fun e => (e.1, e.2.1, e.2.2 *
        (scaleFn first (rowScales sc B.on) offMap halo e.1 *
         scaleFn first (rowScales sc B.on) offMap halo e.2.1))) := by
  apply Repart.diagScaleRank_entries sc B halo first offMap _ _ _ hlen hcol hpos
  · intro i hi
    exact scaleFn_on first _ offMap halo (by rw [rowScales_length]; exact hi)
  · intro k hk
    exact scaleFn_off first _ offMap halo hn (by rw [rowScales_length]; exact hout) hk

/-- per-block form of `diagonally_scale` (rows keep their multiset of columns: `moveFront_perm`) -/
theorem diagScaleRank_blocks [Zero K] [Mul K] (sc : K → K) (B : Blk K) (halo : List K) (i : Nat) :
    (diagScaleRank sc B halo).1.on[i]? = B.on[i]?.map (fun row =>
      (moveFront i row).map fun e =>
        (e.1, e.2 * ((rowScales sc B.on).getD i 0 * (rowScales sc B.on).getD e.1 0))) ∧
    (diagScaleRank sc B halo).1.off[i]? = B.off[i]?.map (fun row =>
      row.map fun e => (e.1, e.2 * ((rowScales sc B.on).getD i 0 * halo.getD e.1 0))) ∧
    (diagScaleRank sc B halo).1.rhs[i]? = B.rhs[i]?.map (fun b => b * (rowScales sc B.on).getD i 0) ∧
    (diagScaleRank sc B halo).2 = rowScales sc B.on :=
  ⟨diagScaleRank_on sc B halo i, diagScaleRank_off sc B halo i, diagScaleRank_rhs sc B halo i, rfl⟩

/-- in `diagScale`, the halo scales rank `r` uses are the owners' scales (C03) -/
theorem diagScale_halo [Zero K] (sc : K → K) (fc : List Nat) (np : Nat) (offMaps : List (List Nat))
    (blks : List (Blk K)) (r : Nat) (hfc : Comm.FcOk fc np)
    (hs : (offMaps.getD r []).Pairwise (· ≤ ·)) (hb : ∀ c ∈ offMaps.getD r [], c < fc.getD np 0) :
    Comm.exchange 0 fc offMaps (blks.map fun B => rowScales sc B.on) r =
      Comm.haloSpec 0 fc offMaps (blks.map fun B => rowScales sc B.on) r :=
  Repart.diagScale_halo sc fc np offMaps blks r hfc hs hb

/-- rank `r` of `diagScale` is `diagScaleRank` fed with the owners' scales -/
theorem diagScale_rank [Zero K] [Mul K] (sc : K → K) (fc : List Nat) (np : Nat)
    (offMaps : List (List Nat)) (blks : List (Blk K)) (r : Nat) (hfc : Comm.FcOk fc np)
    (hs : (offMaps.getD r []).Pairwise (· ≤ ·)) (hb : ∀ c ∈ offMaps.getD r [], c < fc.getD np 0) :
    (diagScale sc fc offMaps blks)[r]? = blks[r]?.map fun B =>
      diagScaleRank sc B (Comm.haloSpec 0 fc offMaps (blks.map fun B => rowScales sc B.on) r) :=
  diagScale_getElem? sc fc np offMaps blks r hfc hs hb

/-- `row_scale`, one rank, global reading: every entry `(i, j, v)` of either block becomes
    `(i, j, v * s[i])` -/
theorem rowScaleRank_entries [Zero K] [Mul K] (sc : K → K) (B : Blk K) (first : Nat) (offMap : List Nat) :
    ((rowScaleRank sc B).entries first offMap).Perm
      ((B.entries first offMap).map fun e =>
        (e.1, e.2.1, e.2.2 * (rowScales sc B.on).getD (e.1 - first) 0)) :=
  Repart.rowScaleRank_entries sc B first offMap

/-- per-block form of `row_scale`, with the right-hand side -/
theorem rowScaleRank_blocks [Zero K] [Mul K] (sc : K → K) (B : Blk K) (i : Nat) :
    (rowScaleRank sc B).on[i]? = B.on[i]?.map (fun row =>
      (moveFront i row).map fun e => (e.1, e.2 * (rowScales sc B.on).getD i 0)) ∧
    (rowScaleRank sc B).off[i]? = B.off[i]?.map (fun row =>
      row.map fun e => (e.1, e.2 * (rowScales sc B.on).getD i 0)) ∧
    (rowScaleRank sc B).rhs[i]? = B.rhs[i]?.map (fun b => b * (rowScales sc B.on).getD i 0) :=
  ⟨rowScaleRank_on sc B i, rowScaleRank_off sc B i, rowScaleRank_rhs sc B i⟩

/-- `diagonally_unscale` multiplies slot by slot -/
theorem unscale_getElem [Mul K] (sol scales : List K) (i : Nat) (h1 : i < sol.length) (h2 : i < scales.length) :
    (unscale sol scales)[i]'(by simp [unscale]; omega) = sol[i] * scales[i] :=
  Repart.unscale_getElem sol scales i h1 h2

section Algebra
variable {R : Type} [CommRing R] [IsDomain R] {n : Nat}

/-- the unscaled vector solves the original system: if `y` solves `(D A D) y = D b` with `D`
    invertible, then `D y` solves `A x = b` -/
theorem unscale_solves (a : Fin n → Fin n → R) (d b y : Fin n → R) (hd : ∀ i, d i ≠ 0)
    (hs : ∀ i, ∑ j, (d i * a i j * d j) * y j = d i * b i) :
    ∀ i, ∑ j, a i j * (d j * y j) = b i := by
  intro i
  have h1 : ∑ j, (d i * a i j * d j) * y j = d i * ∑ j, a i j * (d j * y j) := by
    rw [Finset.mul_sum]
    apply Finset.sum_congr rfl
    intro j _
    ring
  have h2 := hs i
  rw [h1] at h2
  exact mul_left_cancel₀ (hd i) h2

omit [IsDomain R] in
/-- conversely the scaled system is solved by the scaled-back solution -/
theorem scale_solves (a : Fin n → Fin n → R) (d b x y : Fin n → R)
    (hx : ∀ j, x j = d j * y j) (hs : ∀ i, ∑ j, a i j * x j = b i) :
    ∀ i, ∑ j, (d i * a i j * d j) * y j = d i * b i := by
  intro i
  rw [← hs i, Finset.mul_sum]
  apply Finset.sum_congr rfl
  intro j _
  rw [hx j]; ring

/-- `row_scale` does not change the solution set -/
theorem rowScale_equiv (a : Fin n → Fin n → R) (d b x : Fin n → R) (hd : ∀ i, d i ≠ 0) :
    (∀ i, ∑ j, (d i * a i j) * x j = d i * b i) ↔ (∀ i, ∑ j, a i j * x j = b i) := by
  have h1 : ∀ i, ∑ j, (d i * a i j) * x j = d i * ∑ j, a i j * x j := by
    intro i
    rw [Finset.mul_sum]
    apply Finset.sum_congr rfl
    intro j _
    ring
  constructor
  · intro h i
    have h2 := h i
    rw [h1] at h2
    exact mul_left_cancel₀ (hd i) h2
  · intro h i
    rw [h1, h i]

end Algebra

/-- the algebra applies in particular over any field -/
example {F : Type} [Field F] {n : Nat} (a : Fin n → Fin n → F) (d b y : Fin n → F) (hd : ∀ i, d i ≠ 0)
    (hs : ∀ i, ∑ j, (d i * a i j * d j) * y j = d i * b i) :
    ∀ i, ∑ j, a i j * (d j * y j) = b i :=
  unscale_solves a d b y hd hs

/-! ## 7. a concrete input: 2 ranks, 4 rows -/
section Example

/-- rank 0 owns rows 0, 1; rank 1 owns rows 2, 3 -/
def ranksEx : List (List (GRow Int)) :=
  [[(0, [(0, 2), (1, -1), (2, -1)]), (1, [(0, -1), (1, 2), (3, -1)])],
   [(2, [(2, 2), (0, -1), (3, -1)]), (3, [(3, 2), (1, -1), (2, -1)])]]

/-- round robin -/
def tgtA (g : Nat) : Nat := g % 2
/-- everything to rank 1 -/
def tgtB (_ : Nat) : Nat := 1

def oA₁ (_ : Nat) : List Nat := [0, 1]
def oA₂ (_ : Nat) : List Nat := [1, 0]
def oB₁ (p : Nat) : List Nat := if p = 1 then [0, 1] else []
def oB₂ (p : Nat) : List Nat := if p = 1 then [1, 0] else []

example : WFInput ranksEx 4 := by decide
example : TgtOk tgtA ranksEx.length 4 := by decide
example : TgtOk tgtB ranksEx.length 4 := by decide
example : ValidOrders tgtA ranksEx oA₁ := by decide
example : ValidOrders tgtA ranksEx oA₂ := by decide
example : ValidOrders tgtB ranksEx oB₁ := by decide
example : ValidOrders tgtB ranksEx oB₂ := by decide

example : reported (repartition tgtA ranksEx oA₁) = [0, 2, 1, 3] := by decide
example : reported (repartition tgtB ranksEx oB₁) = [0, 1, 2, 3] := by decide

example : outputEntries (repartition tgtA ranksEx oA₁) =
    [(0, 0, 2), (0, 1, -1), (1, 1, 2), (1, 0, -1), (0, 2, -1), (1, 3, -1),
     (2, 2, 2), (2, 3, -1), (3, 3, 2), (3, 2, -1), (2, 0, -1), (3, 1, -1)] := by decide

example : outputEntries (repartition tgtB ranksEx oB₁) =
    [(0, 0, 2), (0, 1, -1), (0, 2, -1), (1, 1, 2), (1, 0, -1), (1, 3, -1),
     (2, 2, 2), (2, 0, -1), (2, 3, -1), (3, 3, 2), (3, 1, -1), (3, 2, -1)] := by decide

/-- the messages arrive in a different order, the rows are received in a different order … -/
example : (oA₁ 0).flatMap (fun r => (msgRows tgtA (ranksEx.getD r []) 0).map (·.1)) = [0, 2] ∧
    (oA₂ 0).flatMap (fun r => (msgRows tgtA (ranksEx.getD r []) 0).map (·.1)) = [2, 0] := by decide

/-- … and the result is the same -/
example : repartition tgtA ranksEx oA₁ = repartition tgtA ranksEx oA₂ := by decide
example : repartition tgtB ranksEx oB₁ = repartition tgtB ranksEx oB₂ := by decide

/-- the same, from the general theorem -/
example : repartition tgtA ranksEx oA₁ = repartition tgtA ranksEx oA₂ :=
  repartition_order_independent (n := 4) (by decide) (by decide) (by decide)

end Example

end Raptor.C20
