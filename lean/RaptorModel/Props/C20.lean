import RaptorModel.Model.Repart
namespace Raptor.C20
theorem placeholder : (1:Nat) = 1 := rfl
end Raptor.C20
