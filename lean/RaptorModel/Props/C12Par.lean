import RaptorModel.Props.C12
/-!
# C12 — direct interpolation over a row partition

`direct` treats every row on its own: it needs the row of `A`, the row of `S` and the labels of the
columns the row touches. A rank holds its block of rows and the labels of its own points; the
labels of its halo columns come from their owners (C13: halo labels equal the owners' labels; the
exchange itself is C03). With the labels as one global list, the results of the ranks — each
computed from its own block of rows and its first global row — concatenate in rank order to
`direct` of the whole matrix, for every contiguous partition, empty ranks included.
-/
namespace Raptor.C12
open Raptor.Interp

variable {K : Type} [Add K] [Mul K] [Div K] [Neg K] [Zero K] [One K] [LT K] [DecidableLT K] [DecidableEq K]

/-- the routine on a block of (row of `A`, row of `S`) pairs whose first global row is `first` -/
def directAt (states : List Int) (first : Nat) (rows : List (List (Nat × K) × List (Nat × K))) : List (List (Nat × K)) :=
  (rows.zipIdx first).map fun (r, i) => directRow states i r.1 r.2

theorem direct_eq_at (states : List Int) (A S : List (List (Nat × K))) :
    direct states A S = directAt states 0 (A.zip S) := rfl

theorem directAt_append (states : List Int) (first : Nat) (r1 r2 : List (List (Nat × K) × List (Nat × K))) :
    directAt states first (r1 ++ r2) = directAt states first r1 ++ directAt states (first + r1.length) r2 := by
  simp [directAt, List.zipIdx_append]

def directBlocks (states : List Int) : Nat → List (List (List (Nat × K) × List (Nat × K))) → List (List (Nat × K))
  | _, [] => []
  | first, blk :: rest => directAt states first blk ++ directBlocks states (first + blk.length) rest

theorem direct_blocks (states : List Int) (first : Nat) (blocks : List (List (List (Nat × K) × List (Nat × K)))) :
    directBlocks states first blocks = directAt states first blocks.flatten := by
  induction blocks generalizing first with
  | nil => rfl
  | cons blk rest ih => rw [directBlocks, ih, List.flatten_cons, directAt_append]

/-- **row partition**: the ranks' interpolation rows, in rank order, are the rows of the global operator -/
theorem direct_blocks_eq_global (states : List Int) (A S : List (List (Nat × K)))
    (blocks : List (List (List (Nat × K) × List (Nat × K)))) (h : blocks.flatten = A.zip S) :
    directBlocks states 0 blocks = direct states A S := by
  rw [direct_blocks, h, direct_eq_at]

theorem direct_partition_indep (states : List Int)
    (blocks blocks' : List (List (List (Nat × K) × List (Nat × K)))) (h : blocks.flatten = blocks'.flatten) :
    directBlocks states 0 blocks = directBlocks states 0 blocks' := by
  rw [direct_blocks, direct_blocks, h]

end Raptor.C12

namespace Raptor.C12
open Raptor.Interp

/-! ## modified classical interpolation over a row partition

Row `i` of `modClassical` is `modClassicalRow` of the global data (`allParts`: the three parts of every row, own rows
computed locally, rows of strong fine neighbours on other ranks fetched from their owners — the row exchange of C03 —
and the labels). `rangeBlocks`: the ranks' index ranges in rank order are `range n`; hence the concatenated per-rank
results are the global operator for every contiguous partition. -/

variable {K : Type} [Add K] [Mul K] [Div K] [Neg K] [Zero K] [One K] [LT K] [DecidableLT K]

/-- what the ranks compute, rank by rank: rows `first … first + len − 1` -/
def mapBlocks {β : Type} (f : Nat → β) : Nat → List Nat → List β
  | _, [] => []
  | first, len :: rest => (List.range len).map (fun k => f (first + k)) ++ mapBlocks f (first + len) rest

theorem mapBlocks_eq {β : Type} (f : Nat → β) (first : Nat) (lens : List Nat) :
    mapBlocks f first lens = (List.range lens.sum).map fun k => f (first + k) := by
  induction lens generalizing first with
  | nil => rfl
  | cons len rest ih =>
    rw [mapBlocks, ih, List.sum_cons, List.range_add, List.map_append, List.map_map]
    congr 1
    apply List.map_congr_left
    intro k _
    simp only [Function.comp]
    rw [Nat.add_assoc]

/-- **row partition**: for every list of block lengths summing to the number of rows, the ranks' rows in rank order are
    the rows of the global modified classical operator -/
theorem modClassical_blocks_eq_global (tiny : K → Bool) (states : List Int) (A S : List (List (Nat × K)))
    (lens : List Nat) (h : lens.sum = A.length) :
    mapBlocks (fun i => modClassicalRow tiny states ((A.zip S).zipIdx.map fun (r, i) => parts states i r.1 r.2) i) 0 lens
      = modClassical tiny states A S := by
  rw [mapBlocks_eq, h]
  unfold modClassical
  simp

end Raptor.C12
