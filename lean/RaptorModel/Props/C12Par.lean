import RaptorModel.Props.C12
/-!
# C12 — direct interpolation over a row partition

`direct` treats every row on its own: it needs the row of `A`, the row of `S` and the labels of the
columns the row touches. A rank holds its block of rows and the labels of its own points; the
labels of its halo columns come from their owners (C13: halo labels equal the owners' labels; the
exchange itself is C03). With the labels as one global list, the results of the ranks — each
computed from its own block of rows and its first global row — concatenate in rank order to
`direct` of the whole matrix, for every contiguous partition, empty ranks included.
-/
namespace Raptor.C12
open Raptor.Interp

variable {K : Type} [Add K] [Mul K] [Div K] [Neg K] [Zero K] [One K] [LT K] [DecidableLT K] [DecidableEq K]

/-- the routine on a block of (row of `A`, row of `S`) pairs whose first global row is `first` -/
def directAt (states : List Int) (first : Nat) (rows : List (List (Nat × K) × List (Nat × K))) : List (List (Nat × K)) :=
  (rows.zipIdx first).map fun (r, i) => directRow states i r.1 r.2

theorem direct_eq_at (states : List Int) (A S : List (List (Nat × K))) :
    direct states A S = directAt states 0 (A.zip S) := rfl

theorem directAt_append (states : List Int) (first : Nat) (r1 r2 : List (List (Nat × K) × List (Nat × K))) :
    directAt states first (r1 ++ r2) = directAt states first r1 ++ directAt states (first + r1.length) r2 := by
  simp [directAt, List.zipIdx_append]

def directBlocks (states : List Int) : Nat → List (List (List (Nat × K) × List (Nat × K))) → List (List (Nat × K))
  | _, [] => []
  | first, blk :: rest => directAt states first blk ++ directBlocks states (first + blk.length) rest

theorem direct_blocks (states : List Int) (first : Nat) (blocks : List (List (List (Nat × K) × List (Nat × K)))) :
    directBlocks states first blocks = directAt states first blocks.flatten := by
  induction blocks generalizing first with
  | nil => rfl
  | cons blk rest ih => rw [directBlocks, ih, List.flatten_cons, directAt_append]

/-- **row partition**: the ranks' interpolation rows, in rank order, are the rows of the global operator -/
theorem direct_blocks_eq_global (states : List Int) (A S : List (List (Nat × K)))
    (blocks : List (List (List (Nat × K) × List (Nat × K)))) (h : blocks.flatten = A.zip S) :
    directBlocks states 0 blocks = direct states A S := by
  rw [direct_blocks, h, direct_eq_at]

theorem direct_partition_indep (states : List Int)
    (blocks blocks' : List (List (List (Nat × K) × List (Nat × K)))) (h : blocks.flatten = blocks'.flatten) :
    directBlocks states 0 blocks = directBlocks states 0 blocks' := by
  rw [direct_blocks, direct_blocks, h]

end Raptor.C12
