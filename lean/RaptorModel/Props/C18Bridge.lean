import RaptorModel.Generated.Topology
import RaptorModel.Generated.Partition
import RaptorModel.Model.Topology
import RaptorModel.Model.Partition
import RaptorModel.Props.C18
import Mathlib.Tactic.Ring
import Mathlib.Tactic.SplitIfs
import Mathlib.Tactic.NormNum
/-!
# C18 bridge: the definitions regenerated from `/repo`'s headers agree with the hand-written model

`Generated/*.lean` is rewritten by `tools/cxx2lean.py` from clang's AST of the current
`topology.hpp` / `partition.hpp` on every run of the C18 check. The theorems of `Props/C18.lean`
are about `Model/Topology.lean` and `Model/Partition.lean`; the lemmas here transfer them to what
the code says now. All quantities are natural numbers (the C++ `int`s are non-negative on the
property's domain), so C truncating division is `Nat` division.
-/
set_option linter.unusedSimpArgs false
set_option linter.unusedTactic false
set_option linter.unreachableTactic false
namespace Raptor.C18Bridge
open Raptor

theorem tdiv_cast (a b : Nat) : Int.tdiv (a : Int) (b : Int) = ((a / b : Nat) : Int) := by
  rw [Int.tdiv_eq_ediv_of_nonneg (Int.natCast_nonneg a)]; norm_cast
theorem tmod_cast (a b : Nat) : Int.tmod (a : Int) (b : Int) = ((a % b : Nat) : Int) := by
  rw [Int.tmod_eq_emod_of_nonneg (Int.natCast_nonneg a)]; norm_cast

/-- value the C++ returns for a model result: the number, or −1 for an unsupported ordering -/
def ret : Option Nat → Int
  | some v => v
  | none => -1

theorem tmod_two (a : Nat) : Int.tmod (a : Int) 2 = ((a % 2 : Nat) : Int) := tmod_cast a 2

theorem get_node_bridge (ord nn ppn p rk : Nat) (hnn : 0 < nn) :
    Generated.Topology.get_node ppn nn ord rk p = ret (Topology.getNode ord nn ppn p) := by
  have hlt : p % nn < nn := Nat.mod_lt _ hnn
  unfold Generated.Topology.get_node Topology.getNode
  rcases ord with _ | _ | _ | n
  · simp [tmod_cast, ret]
  · simp [tdiv_cast, ret]
  · simp only [tdiv_cast, tmod_cast, tmod_two]
    by_cases h : p / nn % 2 = 0
    · simp [h, ret]
    · simp [h, ret]; omega
  · simp [ret]; omega

theorem get_local_proc_bridge (ord nn ppn p rk : Nat) :
    Generated.Topology.get_local_proc ppn nn ord rk p = ret (Topology.getLocal ord nn ppn p) := by
  unfold Generated.Topology.get_local_proc Topology.getLocal
  rcases ord with _ | _ | _ | n
  · simp [tdiv_cast, ret]
  · simp [tmod_cast, ret]
  · simp [tdiv_cast, ret]
  · simp [ret]; omega

theorem get_global_proc_bridge (ord nn ppn node l rk : Nat) (hn : node < nn) :
    Generated.Topology.get_global_proc ppn nn ord rk node l = ret (Topology.getGlobal ord nn ppn node l) := by
  unfold Generated.Topology.get_global_proc Topology.getGlobal
  rcases ord with _ | _ | _ | n
  · simp [ret]
  · simp [ret]
  · simp only [tmod_two]
    by_cases h : l % 2 = 0
    · simp [h, ret]
    · simp [h, ret]; omega
  · simp [ret]; omega

/-! ## Partition constructors

The generated constructors return
`(global_num_rows, global_num_cols, first_local_row, local_num_rows, first_local_col, local_num_cols, last_local_row, last_local_col, num_shared)`.
The C++ divides by `num_procs` after lowering it to `global_num_rows` when there are fewer rows
than ranks: with zero rows that is a division by zero (undefined behaviour; a trap at `-O0`), which
Lean's total `Int.tdiv _ 0 = 0` would hide — the bridge is therefore stated for `0 < nRows` and the
zero-row case is covered by the guard lemma `ctor_default_divides_by` below. -/

def partTuple (P : Partition.Part) : Int × Int × Int × Int × Int × Int × Int × Int × Int :=
  (P.globalRows, P.globalCols, P.firstRow, P.localRows, P.firstCol, P.localCols, P.lastRow, P.lastCol, 0)

theorem ctor_default_bridge (nRows nCols np rank : Nat) :
    Generated.Partition.ctor_default rank np nRows nCols = partTuple (Partition.default nRows nCols np rank) := by
  unfold Generated.Partition.ctor_default Partition.default partTuple Partition.Part.lastRow Partition.Part.lastCol
    Partition.blkSize Partition.blkFirst Partition.emptyFirstCol
  have hc : (if (nRows : Int) < (np : Int) then (nRows : Int) else (np : Int))
      = ((if nRows < np then nRows else np : Nat) : Int) := by
    split_ifs <;> first | rfl | omega
  simp only [hc, tdiv_cast, tmod_cast]
  generalize (if nRows < np then nRows else np) = npc
  generalize nRows / np = q
  generalize nRows % np = r
  generalize nCols / npc = qc
  generalize nCols % npc = rc
  have e1 : (1 + (q : Int)) ≠ 0 := by omega
  have e2 : ((q : Int) + 1) ≠ 0 := by omega
  by_cases h1 : r > rank <;> by_cases h2 : rc > rank <;> by_cases h3 : q = 0 <;>
    simp [h1, h2, h3, e1, e2]

theorem ctor_block_bridge (nRows nCols bRows bCols np rank : Nat) :
    Generated.Partition.ctor_block rank np nRows nCols bRows bCols
      = partTuple (Partition.block nRows nCols bRows bCols np rank) := by
  unfold Generated.Partition.ctor_block Partition.block partTuple Partition.Part.lastRow Partition.Part.lastCol
    Partition.blkSize Partition.blkFirst Partition.emptyFirstCol
  simp only [tdiv_cast, tmod_cast]
  have hc : (if ((nRows / bRows : Nat) : Int) < (np : Int) then ((nRows / bRows : Nat) : Int) else (np : Int))
      = ((if nRows / bRows < np then nRows / bRows else np : Nat) : Int) := by
    split_ifs <;> first | rfl | omega
  simp only [hc, tdiv_cast, tmod_cast]
  generalize (if nRows / bRows < np then nRows / bRows else np) = npc
  generalize nRows / bRows / np = q
  generalize nRows / bRows % np = r
  generalize nCols / bCols / npc = qc
  generalize nCols / bCols % npc = rc
  by_cases hb : bRows = 0
  · subst hb
    by_cases h1 : r > rank <;> by_cases h2 : rc > rank <;> simp [h1, h2]
  · have hb' : (bRows : Int) ≠ 0 := by omega
    have hnn : 0 ≤ (q : Int) * (bRows : Int) := Int.mul_nonneg (by omega) (by omega)
    have eA : (q : Int) * (bRows : Int) + (bRows : Int) ≠ 0 := by omega
    have eB : q ≠ 0 → (q : Int) * (bRows : Int) ≠ 0 := fun h => Int.mul_ne_zero (by omega) hb'
    by_cases h1 : r > rank <;> by_cases h2 : rc > rank <;> by_cases h3 : q = 0 <;>
      simp [h1, h2, h3, hb, hb', eA, eB, Nat.add_mul, Nat.mul_assoc, add_mul, mul_assoc] <;> (try push_cast) <;> (try ring_nf) <;> (try omega)

theorem ctor_explicit_bridge (nRows nCols lr lc fr fc : Nat) :
    Generated.Partition.ctor_explicit nRows nCols lr lc fr fc
      = (let P := Partition.explicit nRows nCols lr lc fr fc
         ((P.globalRows : Int), (P.globalCols : Int), (P.localRows : Int), (P.localCols : Int), (P.firstRow : Int),
          (P.firstCol : Int), P.lastRow, P.lastCol, (0 : Int))) := by
  simp [Generated.Partition.ctor_explicit, Partition.explicit, Partition.Part.lastRow, Partition.Part.lastCol]

/-! ## Definedness: no division by zero on the executed path

`f_defined` is generated next to `f`: it follows the same control flow and is `true` iff every `/`
and `%` met on the way has a non-zero divisor. Lean's `Int.tdiv _ 0 = 0` would silently totalise what
is undefined behaviour in C++ (a trap at `-O0`), so these are separate obligations. -/

theorem get_node_defined (ord nn ppn p rk : Nat) (hnn : 0 < nn) (hppn : 0 < ppn) :
    Generated.Topology.get_node_defined ppn nn ord rk p = true := by
  have e1 : (nn : Int) ≠ 0 := by omega
  have e2 : (ppn : Int) ≠ 0 := by omega
  unfold Generated.Topology.get_node_defined
  split_ifs <;> simp [e1, e2] <;> omega

theorem get_local_proc_defined (ord nn ppn p rk : Nat) (hnn : 0 < nn) (hppn : 0 < ppn) :
    Generated.Topology.get_local_proc_defined ppn nn ord rk p = true := by
  have e1 : (nn : Int) ≠ 0 := by omega
  have e2 : (ppn : Int) ≠ 0 := by omega
  unfold Generated.Topology.get_local_proc_defined
  split_ifs <;> simp [e1, e2] <;> omega

theorem get_global_proc_defined (ord nn ppn node l rk : Nat) :
    Generated.Topology.get_global_proc_defined ppn nn ord rk node l = true := by
  unfold Generated.Topology.get_global_proc_defined
  split_ifs <;> simp

/-- every rank of every launch, every global size *including 0* -/
theorem ctor_default_defined (nRows nCols np rank : Nat) (hnp : 0 < np) :
    Generated.Partition.ctor_default_defined rank np nRows nCols = true := by
  have e1 : (np : Int) ≠ 0 := by omega
  have hr0 : ¬ ((rank : Int) < 0) := by omega
  unfold Generated.Partition.ctor_default_defined
  simp only [tdiv_cast, tmod_cast]
  have hq : nRows = 0 → nRows / np = 0 ∧ nRows % np = 0 := by intro h; subst h; simp
  generalize nRows / np = q at *
  generalize nRows % np = r at *
  by_cases h0 : nRows = 0
  · obtain ⟨hq0, hr0'⟩ := hq h0
    subst hq0 hr0' h0
    simp [e1, hr0, hnp]
    omega
  · have e3 : (nRows : Int) ≠ 0 := by omega
    have n3 : nRows ≠ 0 := h0
    have n1 : np ≠ 0 := by omega
    by_cases h1 : r > rank <;> by_cases h2 : nRows < np <;> simp [h1, h2, e1, e3, n1, n3] <;> split_ifs <;> simp_all

theorem ctor_block_defined (nRows nCols bRows bCols np rank : Nat) (hnp : 0 < np) (hbr : 0 < bRows) (hbc : 0 < bCols) :
    Generated.Partition.ctor_block_defined rank np nRows nCols bRows bCols = true := by
  have e1 : (np : Int) ≠ 0 := by omega
  have e4 : (bRows : Int) ≠ 0 := by omega
  have e5 : (bCols : Int) ≠ 0 := by omega
  have n1 : np ≠ 0 := by omega
  have n4 : bRows ≠ 0 := by omega
  have n5 : bCols ≠ 0 := by omega
  have hr0 : ¬ ((rank : Int) < 0) := by omega
  unfold Generated.Partition.ctor_block_defined
  simp only [tdiv_cast, tmod_cast]
  generalize nRows / bRows = nb at *
  have hq : nb = 0 → nb / np = 0 ∧ nb % np = 0 := by intro h; subst h; simp
  generalize nb / np = q at *
  generalize nb % np = r at *
  by_cases h0 : nb = 0
  · obtain ⟨hq0, hr0'⟩ := hq h0
    subst hq0 hr0' h0
    simp [e1, e4, e5, n1, n4, n5, hr0, hnp]
  · have e3 : (nb : Int) ≠ 0 := by omega
    by_cases h1 : r > rank <;> by_cases h2 : nb < np <;> simp [h1, h2, e1, e3, e4, e5, n1, n4, n5, h0] <;> split_ifs <;> simp_all

/-! ## The property, stated about the regenerated code

C18's layout-map claims transferred from the model to the translated C++ through the bridge. -/

/-- rank → (node, on-node index) → rank is the identity, on the code as it reads now -/
theorem gen_global_of_node_local (ord nn ppn p rk : Nat) (hord : ord ≤ 2) (hnn : 0 < nn) (hppn : 0 < ppn) :
    ∃ node l : Nat,
      Generated.Topology.get_node ppn nn ord rk p = node ∧
      Generated.Topology.get_local_proc ppn nn ord rk p = l ∧
      (node < nn → Generated.Topology.get_global_proc ppn nn ord rk node l = p) := by
  obtain ⟨node, l, h1, h2, h3⟩ := C18.global_of_node_local ord nn ppn p hord hnn hppn
  refine ⟨node, l, ?_, ?_, ?_⟩
  · rw [get_node_bridge _ _ _ _ _ hnn, h1]; rfl
  · rw [get_local_proc_bridge, h2]; rfl
  · intro hn; rw [get_global_proc_bridge _ _ _ _ _ _ hn, h3]; rfl

/-- (node, on-node index) → rank → (node, on-node index) is the identity -/
theorem gen_node_local_of_global (ord nn ppn node l rk : Nat) (hord : ord ≤ 2) (hnode : node < nn) (hl : l < ppn) :
    ∃ g : Nat, Generated.Topology.get_global_proc ppn nn ord rk node l = g ∧
      Generated.Topology.get_node ppn nn ord rk g = node ∧
      Generated.Topology.get_local_proc ppn nn ord rk g = l := by
  obtain ⟨g, h1, h2, h3⟩ := C18.node_local_of_global ord nn ppn node l hord hnode hl
  refine ⟨g, ?_, ?_, ?_⟩
  · rw [get_global_proc_bridge _ _ _ _ _ _ hnode, h1]; rfl
  · rw [get_node_bridge _ _ _ _ _ (by omega), h2]; rfl
  · rw [get_local_proc_bridge, h3]; rfl

/-- the row blocks built by the translated default constructor on ranks `0..np-1` tile `[0, nRows)`:
    block `r+1` starts where block `r` ends, the first starts at 0 and the last ends at `nRows` -/
theorem gen_default_rows_tile (nRows nCols np : Nat) (hnp : 0 < np) :
    (Generated.Partition.ctor_default 0 np nRows nCols).2.2.1 = 0 ∧
    (∀ r, (Generated.Partition.ctor_default (r + 1 : Nat) np nRows nCols).2.2.1
          = (Generated.Partition.ctor_default r np nRows nCols).2.2.1 + (Generated.Partition.ctor_default r np nRows nCols).2.2.2.1) ∧
    (Generated.Partition.ctor_default (np - 1 : Nat) np nRows nCols).2.2.1
      + (Generated.Partition.ctor_default (np - 1 : Nat) np nRows nCols).2.2.2.1 = nRows := by
  have hdef : ∀ r : Nat, (Partition.default nRows nCols np r).firstRow = Partition.blkFirst nRows np r ∧
      (Partition.default nRows nCols np r).localRows = Partition.blkSize nRows np r := by
    intro r
    by_cases h : Partition.blkSize nRows np r = 0 <;> simp [Partition.default, h]
  refine ⟨?_, ?_, ?_⟩
  · have h0 := ctor_default_bridge nRows nCols np 0
    simp only [Nat.cast_zero] at h0
    rw [h0]; simp [partTuple, (hdef 0).1, C18.blk_first_zero]
  · intro r
    rw [ctor_default_bridge, ctor_default_bridge]
    simp only [partTuple, (hdef r).1, (hdef r).2, (hdef (r+1)).1, C18.blk_contig]
    push_cast; rfl
  · have h := C18.blk_contig nRows np (np - 1)
    have hl := C18.blk_first_last nRows np hnp
    rw [show np - 1 + 1 = np by omega] at h
    rw [ctor_default_bridge]
    simp only [partTuple, (hdef (np-1)).1, (hdef (np-1)).2]
    omega

/-! non-vacuity: the translated code evaluated on concrete launches -/
example : Generated.Partition.ctor_default 1 3 7 5 = (7, 5, 3, 2, 2, 2, 4, 3, 0) := by rfl
example : Generated.Partition.ctor_default 2 4 2 9 = (2, 9, 2, 0, 9, 0, 1, 8, 0) := by rfl
example : Generated.Partition.ctor_default_defined 0 3 0 5 = true := by decide
example : Generated.Partition.ctor_block 1 2 8 6 2 3 = (8, 6, 4, 4, 3, 3, 7, 5, 0) := by rfl
example : Generated.Topology.get_node 4 3 2 0 7 = 1 := by decide
example : Generated.Topology.get_global_proc 4 3 2 0 1 2 = 7 := by decide

end Raptor.C18Bridge
