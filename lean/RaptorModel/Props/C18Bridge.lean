import RaptorModel.Generated.Topology
import RaptorModel.Generated.Partition
import RaptorModel.Model.Topology
import RaptorModel.Model.Partition
import RaptorModel.Props.C18
import Mathlib.Tactic.Ring
import Mathlib.Tactic.SplitIfs
import Mathlib.Tactic.NormNum
/-!
# C18 bridge: the definitions regenerated from `/repo`'s headers agree with the hand-written model

`Generated/*.lean` is rewritten by `tools/cxx2lean.py` from clang's AST of the current
`topology.hpp` / `partition.hpp` on every run of the C18 check. The theorems of `Props/C18.lean`
are about `Model/Topology.lean` and `Model/Partition.lean`; the lemmas here transfer them to what
the code says now. All quantities are natural numbers (the C++ `int`s are non-negative on the
property's domain), so C truncating division is `Nat` division.
-/
set_option linter.unusedSimpArgs false
set_option linter.unusedTactic false
set_option linter.unreachableTactic false
namespace Raptor.C18Bridge
open Raptor

theorem tdiv_cast (a b : Nat) : Int.tdiv (a : Int) (b : Int) = ((a / b : Nat) : Int) := by
  rw [Int.tdiv_eq_ediv_of_nonneg (Int.natCast_nonneg a)]; norm_cast
theorem tmod_cast (a b : Nat) : Int.tmod (a : Int) (b : Int) = ((a % b : Nat) : Int) := by
  rw [Int.tmod_eq_emod_of_nonneg (Int.natCast_nonneg a)]; norm_cast

/-- value the C++ returns for a model result: the number, or −1 for an unsupported ordering -/
def ret : Option Nat → Int
  | some v => v
  | none => -1

theorem tmod_two (a : Nat) : Int.tmod (a : Int) 2 = ((a % 2 : Nat) : Int) := tmod_cast a 2

theorem get_node_bridge (ord nn ppn p rk : Nat) (hnn : 0 < nn) :
    Generated.Topology.get_node ppn nn ord rk p = ret (Topology.getNode ord nn ppn p) := by
  have hlt : p % nn < nn := Nat.mod_lt _ hnn
  unfold Generated.Topology.get_node Topology.getNode
  rcases ord with _ | _ | _ | n
  · simp [tmod_cast, ret]
  · simp [tdiv_cast, ret]
  · simp only [tdiv_cast, tmod_cast, tmod_two]
    by_cases h : p / nn % 2 = 0
    · simp [h, ret]
    · simp [h, ret]; omega
  · simp [ret]; omega

theorem get_local_proc_bridge (ord nn ppn p rk : Nat) :
    Generated.Topology.get_local_proc ppn nn ord rk p = ret (Topology.getLocal ord nn ppn p) := by
  unfold Generated.Topology.get_local_proc Topology.getLocal
  rcases ord with _ | _ | _ | n
  · simp [tdiv_cast, ret]
  · simp [tmod_cast, ret]
  · simp [tdiv_cast, ret]
  · simp [ret]; omega

theorem get_global_proc_bridge (ord nn ppn node l rk : Nat) (hn : node < nn) :
    Generated.Topology.get_global_proc ppn nn ord rk node l = ret (Topology.getGlobal ord nn ppn node l) := by
  unfold Generated.Topology.get_global_proc Topology.getGlobal
  rcases ord with _ | _ | _ | n
  · simp [ret]
  · simp [ret]
  · simp only [tmod_two]
    by_cases h : l % 2 = 0
    · simp [h, ret]
    · simp [h, ret]; omega
  · simp [ret]; omega

/-! ## Partition constructors

The generated constructors return
`(global_num_rows, global_num_cols, first_local_row, local_num_rows, first_local_col, local_num_cols, last_local_row, last_local_col, num_shared)`.
The C++ divides by `num_procs` after lowering it to `global_num_rows` when there are fewer rows
than ranks: with zero rows that is a division by zero (undefined behaviour; a trap at `-O0`), which
Lean's total `Int.tdiv _ 0 = 0` would hide — the bridge is therefore stated for `0 < nRows` and the
zero-row case is covered by the guard lemma `ctor_default_divides_by` below. -/

def partTuple (P : Partition.Part) : Int × Int × Int × Int × Int × Int × Int × Int × Int :=
  (P.globalRows, P.globalCols, P.firstRow, P.localRows, P.firstCol, P.localCols, P.lastRow, P.lastCol, 0)

theorem ctor_default_bridge (nRows nCols np rank : Nat) :
    Generated.Partition.ctor_default rank np nRows nCols = partTuple (Partition.default nRows nCols np rank) := by
  unfold Generated.Partition.ctor_default Partition.default partTuple Partition.Part.lastRow Partition.Part.lastCol
    Partition.blkSize Partition.blkFirst Partition.emptyFirstCol
  have hc : (if (nRows : Int) < (np : Int) then (nRows : Int) else (np : Int))
      = ((if nRows < np then nRows else np : Nat) : Int) := by
    split_ifs <;> first | rfl | omega
  simp only [hc, tdiv_cast, tmod_cast]
  generalize (if nRows < np then nRows else np) = npc
  generalize nRows / np = q
  generalize nRows % np = r
  generalize nCols / npc = qc
  generalize nCols % npc = rc
  have e1 : (1 + (q : Int)) ≠ 0 := by omega
  have e2 : ((q : Int) + 1) ≠ 0 := by omega
  by_cases h1 : r > rank <;> by_cases h2 : rc > rank <;> by_cases h3 : q = 0 <;>
    simp [h1, h2, h3, e1, e2]

theorem ctor_block_bridge (nRows nCols bRows bCols np rank : Nat) :
    Generated.Partition.ctor_block rank np nRows nCols bRows bCols
      = partTuple (Partition.block nRows nCols bRows bCols np rank) := by
  unfold Generated.Partition.ctor_block Partition.block partTuple Partition.Part.lastRow Partition.Part.lastCol
    Partition.blkSize Partition.blkFirst Partition.emptyFirstCol
  simp only [tdiv_cast, tmod_cast]
  have hc : (if ((nRows / bRows : Nat) : Int) < (np : Int) then ((nRows / bRows : Nat) : Int) else (np : Int))
      = ((if nRows / bRows < np then nRows / bRows else np : Nat) : Int) := by
    split_ifs <;> first | rfl | omega
  simp only [hc, tdiv_cast, tmod_cast]
  generalize (if nRows / bRows < np then nRows / bRows else np) = npc
  generalize nRows / bRows / np = q
  generalize nRows / bRows % np = r
  generalize nCols / bCols / npc = qc
  generalize nCols / bCols % npc = rc
  by_cases hb : bRows = 0
  · subst hb
    by_cases h1 : r > rank <;> by_cases h2 : rc > rank <;> simp [h1, h2]
  · have hb' : (bRows : Int) ≠ 0 := by omega
    have hnn : 0 ≤ (q : Int) * (bRows : Int) := Int.mul_nonneg (by omega) (by omega)
    have eA : (q : Int) * (bRows : Int) + (bRows : Int) ≠ 0 := by omega
    have eB : q ≠ 0 → (q : Int) * (bRows : Int) ≠ 0 := fun h => Int.mul_ne_zero (by omega) hb'
    by_cases h1 : r > rank <;> by_cases h2 : rc > rank <;> by_cases h3 : q = 0 <;>
      simp [h1, h2, h3, hb, hb', eA, eB, Nat.add_mul, Nat.mul_assoc, add_mul, mul_assoc] <;> (try push_cast) <;> (try ring_nf) <;> (try omega)

theorem ctor_explicit_bridge (nRows nCols lr lc fr fc : Nat) :
    Generated.Partition.ctor_explicit nRows nCols lr lc fr fc
      = (let P := Partition.explicit nRows nCols lr lc fr fc
         ((P.globalRows : Int), (P.globalCols : Int), (P.localRows : Int), (P.localCols : Int), (P.firstRow : Int),
          (P.firstCol : Int), P.lastRow, P.lastCol, (0 : Int))) := by
  simp [Generated.Partition.ctor_explicit, Partition.explicit, Partition.Part.lastRow, Partition.Part.lastCol]

/-! ## Definedness: no division by zero on the executed path

`f_defined` is generated next to `f`: it follows the same control flow and is `true` iff every `/`
and `%` met on the way has a non-zero divisor. Lean's `Int.tdiv _ 0 = 0` would silently totalise what
is undefined behaviour in C++ (a trap at `-O0`), so these are separate obligations. -/

theorem get_node_defined (ord nn ppn p rk : Nat) (hnn : 0 < nn) (hppn : 0 < ppn) :
    Generated.Topology.get_node_defined ppn nn ord rk p = true := by
  have e1 : (nn : Int) ≠ 0 := by omega
  have e2 : (ppn : Int) ≠ 0 := by omega
  unfold Generated.Topology.get_node_defined
  split_ifs <;> simp [e1, e2] <;> omega

theorem get_local_proc_defined (ord nn ppn p rk : Nat) (hnn : 0 < nn) (hppn : 0 < ppn) :
    Generated.Topology.get_local_proc_defined ppn nn ord rk p = true := by
  have e1 : (nn : Int) ≠ 0 := by omega
  have e2 : (ppn : Int) ≠ 0 := by omega
  unfold Generated.Topology.get_local_proc_defined
  split_ifs <;> simp [e1, e2] <;> omega

theorem get_global_proc_defined (ord nn ppn node l rk : Nat) :
    Generated.Topology.get_global_proc_defined ppn nn ord rk node l = true := by
  unfold Generated.Topology.get_global_proc_defined
  split_ifs <;> simp

/-- every rank of every launch, every global size *including 0* -/
theorem ctor_default_defined (nRows nCols np rank : Nat) (hnp : 0 < np) :
    Generated.Partition.ctor_default_defined rank np nRows nCols = true := by
  have e1 : (np : Int) ≠ 0 := by omega
  have hr0 : ¬ ((rank : Int) < 0) := by omega
  unfold Generated.Partition.ctor_default_defined
  simp only [tdiv_cast, tmod_cast]
  have hq : nRows = 0 → nRows / np = 0 ∧ nRows % np = 0 := by intro h; subst h; simp
  generalize nRows / np = q at *
  generalize nRows % np = r at *
  by_cases h0 : nRows = 0
  · obtain ⟨hq0, hr0'⟩ := hq h0
    subst hq0 hr0' h0
    simp [e1, hr0, hnp]
    omega
  · have e3 : (nRows : Int) ≠ 0 := by omega
    have n3 : nRows ≠ 0 := h0
    have n1 : np ≠ 0 := by omega
    by_cases h1 : r > rank <;> by_cases h2 : nRows < np <;> simp [h1, h2, e1, e3, n1, n3] <;> split_ifs <;> simp_all

theorem ctor_block_defined (nRows nCols bRows bCols np rank : Nat) (hnp : 0 < np) (hbr : 0 < bRows) (hbc : 0 < bCols) :
    Generated.Partition.ctor_block_defined rank np nRows nCols bRows bCols = true := by
  have e1 : (np : Int) ≠ 0 := by omega
  have e4 : (bRows : Int) ≠ 0 := by omega
  have e5 : (bCols : Int) ≠ 0 := by omega
  have n1 : np ≠ 0 := by omega
  have n4 : bRows ≠ 0 := by omega
  have n5 : bCols ≠ 0 := by omega
  have hr0 : ¬ ((rank : Int) < 0) := by omega
  unfold Generated.Partition.ctor_block_defined
  simp only [tdiv_cast, tmod_cast]
  generalize nRows / bRows = nb at *
  have hq : nb = 0 → nb / np = 0 ∧ nb % np = 0 := by intro h; subst h; simp
  generalize nb / np = q at *
  generalize nb % np = r at *
  by_cases h0 : nb = 0
  · obtain ⟨hq0, hr0'⟩ := hq h0
    subst hq0 hr0' h0
    simp [e1, e4, e5, n1, n4, n5, hr0, hnp]
  · have e3 : (nb : Int) ≠ 0 := by omega
    by_cases h1 : r > rank <;> by_cases h2 : nb < np <;> simp [h1, h2, e1, e3, e4, e5, n1, n4, n5, h0] <;> split_ifs <;> simp_all

/-! ## The property, stated about the regenerated code

C18's layout-map claims transferred from the model to the translated C++ through the bridge. -/

/-- rank → (node, on-node index) → rank is the identity, on the code as it reads now -/
theorem gen_global_of_node_local (ord nn ppn p rk : Nat) (hord : ord ≤ 2) (hnn : 0 < nn) (hppn : 0 < ppn) :
    ∃ node l : Nat,
      Generated.Topology.get_node ppn nn ord rk p = node ∧
      Generated.Topology.get_local_proc ppn nn ord rk p = l ∧
      (node < nn → Generated.Topology.get_global_proc ppn nn ord rk node l = p) := by
  obtain ⟨node, l, h1, h2, h3⟩ := C18.global_of_node_local ord nn ppn p hord hnn hppn
  refine ⟨node, l, ?_, ?_, ?_⟩
  · rw [get_node_bridge _ _ _ _ _ hnn, h1]; rfl
  · rw [get_local_proc_bridge, h2]; rfl
  · intro hn; rw [get_global_proc_bridge _ _ _ _ _ _ hn, h3]; rfl

/-- (node, on-node index) → rank → (node, on-node index) is the identity -/
theorem gen_node_local_of_global (ord nn ppn node l rk : Nat) (hord : ord ≤ 2) (hnode : node < nn) (hl : l < ppn) :
    ∃ g : Nat, Generated.Topology.get_global_proc ppn nn ord rk node l = g ∧
      Generated.Topology.get_node ppn nn ord rk g = node ∧
      Generated.Topology.get_local_proc ppn nn ord rk g = l := by
  obtain ⟨g, h1, h2, h3⟩ := C18.node_local_of_global ord nn ppn node l hord hnode hl
  refine ⟨g, ?_, ?_, ?_⟩
  · rw [get_global_proc_bridge _ _ _ _ _ _ hnode, h1]; rfl
  · rw [get_node_bridge _ _ _ _ _ (by omega), h2]; rfl
  · rw [get_local_proc_bridge, h3]; rfl

/-- the row blocks built by the translated default constructor on ranks `0..np-1` tile `[0, nRows)`:
    block `r+1` starts where block `r` ends, the first starts at 0 and the last ends at `nRows` -/
theorem gen_default_rows_tile (nRows nCols np : Nat) (hnp : 0 < np) :
    (Generated.Partition.ctor_default 0 np nRows nCols).2.2.1 = 0 ∧
    (∀ r, (Generated.Partition.ctor_default (r + 1 : Nat) np nRows nCols).2.2.1
          = (Generated.Partition.ctor_default r np nRows nCols).2.2.1 + (Generated.Partition.ctor_default r np nRows nCols).2.2.2.1) ∧
    (Generated.Partition.ctor_default (np - 1 : Nat) np nRows nCols).2.2.1
      + (Generated.Partition.ctor_default (np - 1 : Nat) np nRows nCols).2.2.2.1 = nRows := by
  have hdef : ∀ r : Nat, (Partition.default nRows nCols np r).firstRow = Partition.blkFirst nRows np r ∧
      (Partition.default nRows nCols np r).localRows = Partition.blkSize nRows np r := by
    intro r
    by_cases h : Partition.blkSize nRows np r = 0 <;> simp [Partition.default, h]
  refine ⟨?_, ?_, ?_⟩
  · have h0 := ctor_default_bridge nRows nCols np 0
    simp only [Nat.cast_zero] at h0
    rw [h0]; simp [partTuple, (hdef 0).1, C18.blk_first_zero]
  · intro r
    rw [ctor_default_bridge, ctor_default_bridge]
    simp only [partTuple, (hdef r).1, (hdef r).2, (hdef (r+1)).1, C18.blk_contig]
    push_cast; rfl
  · have h := C18.blk_contig nRows np (np - 1)
    have hl := C18.blk_first_last nRows np hnp
    rw [show np - 1 + 1 = np by omega] at h
    rw [ctor_default_bridge]
    simp only [partTuple, (hdef (np-1)).1, (hdef (np-1)).2]
    omega

/-! non-vacuity: the translated code evaluated on concrete launches -/
example : Generated.Partition.ctor_default 1 3 7 5 = (7, 5, 3, 2, 2, 2, 4, 3, 0) := by rfl
example : Generated.Partition.ctor_default 2 4 2 9 = (2, 9, 2, 0, 9, 0, 1, 8, 0) := by rfl
example : Generated.Partition.ctor_default_defined 0 3 0 5 = true := by decide
example : Generated.Partition.ctor_block 1 2 8 6 2 3 = (8, 6, 4, 4, 3, 3, 7, 5, 0) := by rfl
example : Generated.Topology.get_node 4 3 2 0 7 = 1 := by decide
example : Generated.Topology.get_global_proc 4 3 2 0 1 2 = 7 := by decide


/-! ## Owner lookup `form_col_to_proc`: the translated loops agree with `walkDown` / `walkUp`

`Generated.Partition.owner_search` is the body of the lookup for one column, over `Int`, the two
`while` loops as fuel-recursive functions; `first_cols` is read as a function `Int → Int`. A list
`fc` of the model is embedded as `fcI fc` (0 outside the list, like `List.getD _ 0`).
`owner_search_defined` threads a flag that goes false on a division by zero, on a read
`first_cols[i]` with `i` outside `[0, first_cols_len)`, or when a loop has not stopped within the
fuel. -/

/-- the gathered `first_cols` array as the translated code reads it -/
def fcI (fc : List Nat) : Int → Int := fun i => ((fc.getD i.toNat 0 : Nat) : Int)

theorem fcI_cast (fc : List Nat) (a : Nat) : fcI fc (a : Int) = ((fc.getD a 0 : Nat) : Int) := by
  simp [fcI]

theorem fcI_cast_succ (fc : List Nat) (a : Nat) :
    fcI fc ((a : Int) + 1) = ((fc.getD (a+1) 0 : Nat) : Int) := by
  have h : ((a : Int) + 1) = ((a + 1 : Nat) : Int) := by push_cast; rfl
  rw [h, fcI_cast]

theorem succ_sub_one_cast (a : Nat) : (((a + 1 : Nat) : Int) - 1) = (a : Int) := by
  push_cast; omega

/-- **loop 1** (`while (col < first_cols[a]) a--`): when the model's `walkDown` succeeds (it never
    reaches index −1), the translated loop started at the same index with more fuel than that index
    stops at the same place -/
theorem loop1_bridge (fc : List Nat) (col : Nat) :
    ∀ (a fuel b : Nat), Partition.walkDown fc col a = some b → a < fuel →
      Generated.Partition.owner_search_loop1 (fcI fc) (col : Int) fuel (a : Int) = (b : Int) := by
  intro a
  induction a with
  | zero =>
    intro fuel b h hf
    obtain ⟨f, rfl⟩ : ∃ f, fuel = f + 1 := ⟨fuel - 1, by omega⟩
    rw [Generated.Partition.owner_search_loop1, fcI_cast]
    simp only [Partition.walkDown] at h
    by_cases hc : col < fc.getD 0 0
    · rw [if_pos hc] at h; cases h
    · rw [if_neg hc] at h
      have hb : 0 = b := Option.some.inj h
      have hc' : ¬ ((col : Int) < ((fc.getD 0 0 : Nat) : Int)) := by omega
      rw [if_neg hc', hb]
  | succ a ih =>
    intro fuel b h hf
    obtain ⟨f, rfl⟩ : ∃ f, fuel = f + 1 := ⟨fuel - 1, by omega⟩
    rw [Generated.Partition.owner_search_loop1, fcI_cast]
    simp only [Partition.walkDown] at h
    by_cases hc : col < fc.getD (a+1) 0
    · rw [if_pos hc] at h
      have hc' : ((col : Int) < ((fc.getD (a+1) 0 : Nat) : Int)) := by omega
      rw [if_pos hc']
      simp only [succ_sub_one_cast]
      exact ih f b h (by omega)
    · rw [if_neg hc] at h
      have hb : a + 1 = b := Option.some.inj h
      have hc' : ¬ ((col : Int) < ((fc.getD (a+1) 0 : Nat) : Int)) := by omega
      rw [if_neg hc', hb]

/-- the model's second loop is insensitive to fuel beyond `np - (a+1)`: it has stopped by then -/
theorem walkUp_fuel_irrelevant (fc : List Nat) (np col : Nat) :
    ∀ (f g a : Nat), np ≤ a + 1 + f → f ≤ g →
      Partition.walkUp fc np col g a = Partition.walkUp fc np col f a := by
  intro f
  induction f with
  | zero =>
    intro g a h _
    cases g with
    | zero => rfl
    | succ g =>
      have hn : ¬ (a + 1 < np ∧ fc.getD (a+1) 0 ≤ col) := fun hh => by omega
      simp only [Partition.walkUp, if_neg hn]
  | succ f ih =>
    intro g a h hg
    obtain ⟨g', rfl⟩ : ∃ g', g = g' + 1 := ⟨g - 1, by omega⟩
    simp only [Partition.walkUp]
    by_cases hc : a + 1 < np ∧ fc.getD (a+1) 0 ≤ col
    · rw [if_pos hc, if_pos hc]
      exact ih g' (a+1) (by omega) (by omega)
    · rw [if_neg hc, if_neg hc]

/-- **loop 2**, step for step: with the same fuel the translated loop and `walkUp` coincide -/
theorem loop2_eq_walkUp (fc : List Nat) (np col : Nat) :
    ∀ (fuel a : Nat),
      Generated.Partition.owner_search_loop2 (fcI fc) (col : Int) (np : Int) fuel (a : Int)
        = ((Partition.walkUp fc np col fuel a : Nat) : Int) := by
  intro fuel
  induction fuel with
  | zero => intro a; rfl
  | succ f ih =>
    intro a
    rw [Generated.Partition.owner_search_loop2, fcI_cast_succ]
    simp only [Partition.walkUp]
    by_cases hc : a + 1 < np ∧ fc.getD (a+1) 0 ≤ col
    · have hc' : ((a : Int) < (np : Int) - 1) ∧ ((col : Int) ≥ ((fc.getD (a+1) 0 : Nat) : Int)) :=
        ⟨by omega, by omega⟩
      rw [if_pos hc, if_pos hc']
      have h : ((a : Int) + 1) = ((a + 1 : Nat) : Int) := by push_cast; rfl
      simp only [h]
      exact ih (a+1)
    · have hc' : ¬ (((a : Int) < (np : Int) - 1) ∧ ((col : Int) ≥ ((fc.getD (a+1) 0 : Nat) : Int))) := by
        intro hh; exact hc ⟨by omega, by omega⟩
      rw [if_neg hc, if_neg hc']

/-- **loop 2** (`while (a < np-1 && col >= first_cols[a+1]) a++`): with any fuel `≥ np` the
    translated loop ends where the model's loop (fuel `np`) ends -/
theorem loop2_bridge (fc : List Nat) (np col fuel a : Nat) (hf : np ≤ fuel) :
    Generated.Partition.owner_search_loop2 (fcI fc) (col : Int) (np : Int) fuel (a : Int)
      = ((Partition.walkUp fc np col np a : Nat) : Int) := by
  rw [loop2_eq_walkUp, walkUp_fuel_irrelevant fc np col np fuel a (by omega) hf]

/-- **Bridge for the owner lookup.** Whatever the model's `ownerSearch` returns, the translated
    `form_col_to_proc` body returns, given fuel for both loops. -/
theorem owner_search_bridge (fc : List Nat) (assumed np col rk fuel p : Nat)
    (ha : 0 < assumed) (hf : np ≤ fuel) (hf1 : col / assumed < fuel)
    (h : Partition.ownerSearch fc assumed np col = some p) :
    Generated.Partition.owner_search (assumed : Int) (rk : Int) (np : Int) (fcI fc) fuel (col : Int)
      = (p : Int) := by
  unfold Partition.ownerSearch at h
  rw [if_neg (Nat.ne_of_gt ha)] at h
  cases hw : Partition.walkDown fc col (col / assumed) with
  | none => rw [hw] at h; cases h
  | some b =>
    rw [hw] at h
    have hp : Partition.walkUp fc np col np b = p := Option.some.inj h
    unfold Generated.Partition.owner_search
    simp only [tdiv_cast]
    rw [loop1_bridge fc col (col / assumed) fuel b hw hf1, loop2_bridge fc np col fuel b hf, hp]

/-- **The owner lookup, as translated from the C++, returns precisely the owning process**: on every
    valid `first_cols` (monotone, from 0 to `nCols`; empty ranks allowed) and every column, a rank
    `p < np` with `first_cols[p] ≤ col < first_cols[p+1]`. -/
theorem gen_owner_search_correct (fc : List Nat) (np nCols assumed col rk fuel : Nat)
    (hv : C18.FcValid fc np nCols) (hnp : 0 < np) (ha : 0 < assumed) (hcol : col < nCols)
    (hstart : col / assumed < np) (hf : np ≤ fuel) :
    ∃ p : Nat,
      Generated.Partition.owner_search (assumed : Int) (rk : Int) (np : Int) (fcI fc) fuel (col : Int)
        = (p : Int) ∧ p < np ∧ fc.getD p 0 ≤ col ∧ col < fc.getD (p+1) 0 := by
  obtain ⟨p, hp, h1, h2, h3⟩ := C18.ownerSearch_correct fc np nCols assumed col hv hnp ha hcol hstart
  exact ⟨p, owner_search_bridge fc assumed np col rk fuel p ha hf (by omega) hp, h1, h2, h3⟩

/-! ### Definedness of the owner lookup -/

/-- loop 1 with the flag: started with `ok = true` at an index inside the array, with more fuel than
    that index, and the model's `walkDown` succeeding (no step to −1), the flag stays `true` and the
    index is that of the plain loop -/
theorem defined_loop1_ok (fc : List Nat) (col len : Nat) :
    ∀ (a fuel b : Nat), Partition.walkDown fc col a = some b → a < fuel → a < len →
      Generated.Partition.owner_search_defined_loop1 (fcI fc) (len : Int) (col : Int) fuel ((a : Int), true)
        = (Generated.Partition.owner_search_loop1 (fcI fc) (col : Int) fuel (a : Int), true) := by
  intro a
  induction a with
  | zero =>
    intro fuel b h hf hl
    obtain ⟨f, rfl⟩ : ∃ f, fuel = f + 1 := ⟨fuel - 1, by omega⟩
    rw [Generated.Partition.owner_search_defined_loop1, Generated.Partition.owner_search_loop1, fcI_cast]
    simp only [Partition.walkDown] at h
    by_cases hc : col < fc.getD 0 0
    · rw [if_pos hc] at h; cases h
    · have hc' : ¬ ((col : Int) < ((fc.getD 0 0 : Nat) : Int)) := by omega
      have h1 : (0 : Int) ≤ ((0 : Nat) : Int) := by omega
      have h2 : ((0 : Nat) : Int) < (len : Int) := by omega
      simp only [if_neg hc', h1, h2, decide_true, Bool.and_self]
  | succ a ih =>
    intro fuel b h hf hl
    obtain ⟨f, rfl⟩ : ∃ f, fuel = f + 1 := ⟨fuel - 1, by omega⟩
    rw [Generated.Partition.owner_search_defined_loop1, Generated.Partition.owner_search_loop1, fcI_cast]
    simp only [Partition.walkDown] at h
    have h1 : (0 : Int) ≤ ((a + 1 : Nat) : Int) := by omega
    have h2 : ((a + 1 : Nat) : Int) < (len : Int) := by omega
    by_cases hc : col < fc.getD (a+1) 0
    · rw [if_pos hc] at h
      have hc' : ((col : Int) < ((fc.getD (a+1) 0 : Nat) : Int)) := by omega
      simp only [if_pos hc', succ_sub_one_cast, h1, h2, decide_true, Bool.and_self]
      exact ih f b h (by omega) (by omega)
    · have hc' : ¬ ((col : Int) < ((fc.getD (a+1) 0 : Nat) : Int)) := by omega
      simp only [if_neg hc', h1, h2, decide_true, Bool.and_self]

/-- loop 2 with the flag: started with `ok = true` at a rank `a < np`, with `np ≤ len` entries
    readable and fuel `≥ np - a`, the flag stays `true` and the index is that of the plain loop -/
theorem defined_loop2_ok (fc : List Nat) (np col len : Nat) (hlen : np ≤ len) :
    ∀ (fuel a : Nat), a < np → np ≤ a + fuel →
      Generated.Partition.owner_search_defined_loop2 (fcI fc) (len : Int) (col : Int) (np : Int) fuel ((a : Int), true)
        = (Generated.Partition.owner_search_loop2 (fcI fc) (col : Int) (np : Int) fuel (a : Int), true) := by
  intro fuel
  induction fuel with
  | zero => intro a h1 h2; omega
  | succ f ih =>
    intro a ha hf
    rw [Generated.Partition.owner_search_defined_loop2, Generated.Partition.owner_search_loop2]
    have hok : (!(decide ((a : Int) < (np : Int) - 1)) ||
        (decide ((0 : Int) ≤ (a : Int) + 1) && decide ((a : Int) + 1 < (len : Int)))) = true := by
      by_cases hlt : (a : Int) < (np : Int) - 1
      · have h1 : (0 : Int) ≤ (a : Int) + 1 := by omega
        have h2 : (a : Int) + 1 < (len : Int) := by omega
        simp [hlt, h1, h2]
      · simp [hlt]
    simp only [hok, Bool.and_self]
    by_cases hc : ((a : Int) < (np : Int) - 1) ∧ ((col : Int) ≥ fcI fc ((a : Int) + 1))
    · rw [if_pos hc, if_pos hc]
      have h : ((a : Int) + 1) = ((a + 1 : Nat) : Int) := by push_cast; rfl
      simp only [h]
      exact ih (a+1) (by omega) (by omega)
    · rw [if_neg hc, if_neg hc]

/-- **Definedness of the owner lookup**: on a valid `first_cols` of `np + 1` entries, for every
    column, with fuel `≥ np`: no division by zero, every `first_cols[i]` read lies inside the array
    (the walk down stops at index 0 at the latest because `first_cols[0] = 0 ≤ col`), and both loops
    stop within the fuel. -/
theorem owner_search_defined_true (fc : List Nat) (np nCols assumed col rk fuel : Nat)
    (hv : C18.FcValid fc np nCols) (hnp : 0 < np) (ha : 0 < assumed) (hcol : col < nCols)
    (hstart : col / assumed < np) (hf : np ≤ fuel) :
    Generated.Partition.owner_search_defined (assumed : Int) (rk : Int) (np : Int) (fcI fc)
      ((np : Int) + 1) fuel (col : Int) = true := by
  have h0 : fc.getD 0 0 ≤ col := by rw [hv.zero]; exact Nat.zero_le _
  obtain ⟨b, hb, hble, _, _⟩ := C18.walkDown_spec fc col h0 (col / assumed)
  have hlen : ((np : Int) + 1) = ((np + 1 : Nat) : Int) := by push_cast; rfl
  have e : (assumed : Int) ≠ 0 := by omega
  unfold Generated.Partition.owner_search_defined
  simp only [tdiv_cast, hlen]
  have hok : (true && ((assumed : Int) != 0)) = true := by simp; omega
  rw [hok, defined_loop1_ok fc col (np + 1) (col / assumed) fuel b hb (by omega) (by omega),
    loop1_bridge fc col (col / assumed) fuel b hb (by omega)]
  simp only
  rw [defined_loop2_ok fc np col (np + 1) (by omega) fuel b (by omega) (by omega)]

/-! ### Why `first_cols` must be monotone: the defect the repair of `first_local_col` removed

Before the repair, a rank that owned no rows published `first_local_col = 0`. For 2 rows × 2 columns
on 4 ranks the gathered table was `[0, 1, 0, 0, 2]`: not monotone. Every read is in range and both
loops stop — the lookup is *defined* — but it returns rank 3, whose block `[0, 2) ∩ rows = ∅` is
empty (`local_num_cols = 0`): the owner of column 1 is rank 1. -/
example : Generated.Partition.owner_search 1 0 4 (fcI [0, 1, 0, 0, 2]) 4 1 = 3 := by decide
example : Generated.Partition.owner_search_defined 1 0 4 (fcI [0, 1, 0, 0, 2]) 5 4 1 = true := by decide
/-- the table is not valid in the sense of `FcValid` (so `gen_owner_search_correct` does not apply) -/
example : ¬ C18.FcValid [0, 1, 0, 0, 2] 4 2 := fun h => by
  have := h.mono 1 (by decide)
  revert this; decide
/-- after the repair the table is `[0, 1, 2, 2, 2]` and the same lookup returns rank 1 -/
example : Generated.Partition.owner_search 1 0 4 (fcI [0, 1, 2, 2, 2]) 4 1 = 1 := by decide

/-! non-vacuity of the owner-lookup bridge -/
example : Generated.Partition.owner_search 2 0 3 (fcI [0, 2, 4, 5]) 4 3 = 1 := by decide
example : Generated.Partition.owner_search_defined 2 0 3 (fcI [0, 2, 4, 5]) 4 4 3 = true := by decide
/-- fewer rows than ranks: ranks 1..3 are empty and publish `nCols` -/
example : Generated.Partition.owner_search 1 0 4 (fcI [0, 3, 3, 3, 3]) 4 2 = 0 := by decide
example : Generated.Partition.owner_search_defined 1 0 4 (fcI [0, 3, 3, 3, 3]) 5 4 2 = true := by decide
/-- fuel exhausted is reported as undefined, not silently truncated -/
example : Generated.Partition.owner_search_defined 1 0 4 (fcI [0, 3, 3, 3, 3]) 5 2 2 = false := by decide
/-- a column below `first_cols[0]` would read `first_cols[-1]`: flagged -/
example : Generated.Partition.owner_search_defined 1 0 2 (fcI [1, 2, 3]) 3 4 0 = false := by decide


/-! ## `create_assumed_partition` and `transpose()` (translated since the members-mode / new-expression extension of the translator) -/

/-- `create_assumed_partition`: `assumed_num_cols` is the model's ceiling, and the one store into `first_cols` writes
    `global_num_cols` at index `num_procs` — the sentinel the owner search relies on (`Model.Partition.firstCols`) -/
theorem assumed_partition_bridge (nCols np rk : Nat) :
    Generated.Partition.assumed_partition nCols rk np
      = (((Partition.assumedNumCols nCols np : Nat) : Int), (np : Int), (nCols : Int)) := by
  unfold Generated.Partition.assumed_partition Partition.assumedNumCols
  simp only [tdiv_cast, tmod_cast]
  by_cases h : nCols % np = 0
  · simp [h]
  · have h' : (nCols : Int) % (np : Int) ≠ 0 := by exact_mod_cast h
    simp [h, h']

theorem firstCols_sentinel (parts : List Partition.Part) (nCols : Nat) :
    (Partition.firstCols parts nCols).getD parts.length 0 = nCols := by
  simp [Partition.firstCols, List.getD_eq_getElem?_getD]

theorem assumed_partition_defined (nCols np rk : Nat) (hnp : 0 < np) :
    Generated.Partition.assumed_partition_defined nCols rk np = true := by
  have : (np : Int) ≠ 0 := by omega
  unfold Generated.Partition.assumed_partition_defined
  have hn : np ≠ 0 := by omega
  by_cases h : Int.tmod (nCols : Int) (np : Int) = 0 <;> simp [this, h, hn]

/-- `transpose()` hands the explicit constructor exactly the fields of the model's transposed partition, in the
    constructor's parameter order -/
theorem transpose_bridge (P : Partition.Part) :
    Generated.Partition.transpose_args P.firstCol P.firstRow P.globalCols P.globalRows P.localCols P.localRows
      = (let T := Partition.transpose P
         ((T.globalRows : Int), (T.globalCols : Int), (T.localRows : Int), (T.localCols : Int), (T.firstRow : Int), (T.firstCol : Int))) := by
  simp [Generated.Partition.transpose_args, Partition.transpose, Partition.explicit]

/-- composed with the constructor it calls: the object `transpose()` returns is the model's transpose -/
theorem transpose_ctor_bridge (P : Partition.Part) :
    (let a := Generated.Partition.transpose_args P.firstCol P.firstRow P.globalCols P.globalRows P.localCols P.localRows
     Generated.Partition.ctor_explicit a.1 a.2.1 a.2.2.1 a.2.2.2.1 a.2.2.2.2.1 a.2.2.2.2.2)
      = (let T := Partition.transpose P
         ((T.globalRows : Int), (T.globalCols : Int), (T.localRows : Int), (T.localCols : Int), (T.firstRow : Int),
          (T.firstCol : Int), T.lastRow, T.lastCol, (0 : Int))) := by
  simp [Generated.Partition.transpose_args, Generated.Partition.ctor_explicit, Partition.transpose, Partition.explicit,
    Partition.Part.lastRow, Partition.Part.lastCol]

theorem transpose_args_defined (a b c d e f : Int) : Generated.Partition.transpose_args_defined a b c d e f = true := rfl

end Raptor.C18Bridge
