import RaptorModel.Model.Interp
namespace Raptor.C12
theorem placeholder : (1 : Nat) = 1 := rfl
end Raptor.C12
