import RaptorModel.Lemmas.InterpLemmas
import Mathlib.Tactic.LinearCombination
import Mathlib.Algebra.Order.Field.Rat
/-!
# C12 — classical interpolation (direct, modified classical)

For any coarse/fine splitting `states` the operators of `Model/Interp.lean`
1. number the coarse points by an order-preserving bijection onto `0 .. nC-1` (`colToNew`);
2. have exactly one unit entry per coarse point (`*_injection`);
3. interpolate a fine point only from its strong coarse neighbours (`*_support`);
4. reproduce the constant vector on a fine row of `A` with zero row sum whose denominators are
   non-zero (`directRow_rowsum_one`, `modClassicalRow_rowsum_one`);
5. have non-zero denominators under the M-matrix guard: positive diagonal stored first, non-positive
   off-diagonals, a strong coarse neighbour with a negative value (`directRow_finite`,
   `modClassicalRow_finite`), giving `*_rowsum_one_of_MMatrixRow` without denominator hypotheses;
6. have `min A.length S.length` (direct) / `A.length` (modified classical) rows with all column
   indices `< numCoarse states` (`direct_shape`, `modClassical_shape`).

Algebraic statements need `[Field K] [LinearOrder K]` (the order only supplies the decidable tests
of the model); order compatibility `[IsStrictOrderedRing K]` is used only for the M-matrix guard.
`Lemmas/InterpLemmas.lean` names the intermediate quantities of the model (`strongC`, `sumStrongNeg`,
`directDiag`, …, `mcCoarseSum`, `mcScaled`, `mcAdd`, `mcWeak`) verbatim and proves the normal forms
`directRow_fine_eq`, `modClassicalRow_fine_eq`.
-/
namespace Raptor.C12
open Raptor.Interp

/-! ## 1. coarse numbering -/

theorem colToNew_strictMono_on_C {states : List Int} {i j : Nat}
    (hi : isC states i = true) (_hj : isC states j = true) (h : i < j) :
    colToNew states i < colToNew states j := colToNew_lt_of_isC hi h

theorem colToNew_lt_count {states : List Int} {i n : Nat} (hi : isC states i = true) (h : i < n) :
    colToNew states i < ((List.range n).filter (isC states)).length := colToNew_lt_of_isC hi h

/-- every coarse index `c < colToNew states n` is the number of a coarse point `j < n` -/
theorem colToNew_surj {states : List Int} {n c : Nat} (h : c < colToNew states n) :
    ∃ j, j < n ∧ isC states j = true ∧ colToNew states j = c := by
  induction n with
  | zero => rw [colToNew_zero] at h; exact absurd h (Nat.not_lt_zero _)
  | succ n ih =>
    rw [colToNew_succ] at h
    by_cases hc : c < colToNew states n
    · obtain ⟨j, hj, hC, he⟩ := ih hc
      exact ⟨j, Nat.lt_succ_of_lt hj, hC, he⟩
    · cases hn : isC states n with
      | false => rw [hn] at h; simp at h; exact absurd h hc
      | true =>
        rw [hn] at h; simp at h
        exact ⟨n, Nat.lt_succ_self n, hn, by omega⟩

/-- `colToNew` is injective on coarse points -/
theorem colToNew_inj_on_C {states : List Int} {i j : Nat}
    (hi : isC states i = true) (hj : isC states j = true) (h : colToNew states i = colToNew states j) :
    i = j := by
  rcases Nat.lt_trichotomy i j with hlt | heq | hgt
  · exact absurd h (Nat.ne_of_lt (colToNew_lt_of_isC hi hlt))
  · exact heq
  · exact absurd h.symm (Nat.ne_of_lt (colToNew_lt_of_isC hj hgt))

/-! ## 2. injection -/
section Injection
variable {K : Type} [Field K] [LinearOrder K]

theorem directRow_injection {states : List Int} {i : Nat} (arow srow : List (Nat × K))
    (h : isC states i = true) : directRow states i arow srow = [(colToNew states i, 1)] := by
  unfold directRow; rw [if_pos h]

theorem modClassicalRow_injection (tiny : K → Bool) {states : List Int} (allParts : List (Parts K)) {i : Nat}
    (h : isC states i = true) : modClassicalRow tiny states allParts i = [(colToNew states i, 1)] := by
  unfold modClassicalRow; rw [if_pos h]

theorem direct_getElem? (states : List Int) (A S : List (List (Nat × K))) {i : Nat}
    (hA : i < A.length) (hS : i < S.length) :
    (direct states A S)[i]? = some (directRow states i A[i] S[i]) := by
  simp [direct, hA, hS]

theorem modClassical_getElem? (tiny : K → Bool) (states : List Int) (A S : List (List (Nat × K))) {i : Nat}
    (hA : i < A.length) :
    (modClassical tiny states A S)[i]? = some (modClassicalRow tiny states
      ((A.zip S).zipIdx.map fun (r, i) => parts states i r.1 r.2) i) := by
  simp [modClassical, hA]

theorem allParts_getElem? (states : List Int) (A S : List (List (Nat × K))) {i : Nat}
    (hA : i < A.length) (hS : i < S.length) :
    ((A.zip S).zipIdx.map fun (r, i) => parts states i r.1 r.2)[i]?
      = some (parts states i A[i] S[i]) := by
  simp [hA, hS]

theorem direct_injection (states : List Int) (A S : List (List (Nat × K))) {i : Nat}
    (hA : i < A.length) (hS : i < S.length) (h : isC states i = true) :
    (direct states A S)[i]? = some [(colToNew states i, 1)] := by
  rw [direct_getElem? states A S hA hS, directRow_injection _ _ h]

theorem modClassical_injection (tiny : K → Bool) (states : List Int) (A S : List (List (Nat × K))) {i : Nat}
    (hA : i < A.length) (h : isC states i = true) :
    (modClassical tiny states A S)[i]? = some [(colToNew states i, 1)] := by
  rw [modClassical_getElem? tiny states A S hA, modClassicalRow_injection _ _ h]

end Injection

/-! ## 3. support -/
section Support
variable {K : Type} [Field K] [LinearOrder K]

omit [LinearOrder K] in
theorem mem_strongC {states : List Int} {i : Nat} {arow srow : List (Nat × K)} {e : Nat × K}
    (he : e ∈ strongC states i arow srow) :
    (∃ v, (e.1, v) ∈ offDiag i srow) ∧ isC states e.1 = true ∧ e.2 = aVal arow e.1 := by
  unfold strongC at he
  simp only [List.mem_map, List.mem_filter] at he
  obtain ⟨e', ⟨hmem, hc⟩, rfl⟩ := he
  exact ⟨⟨e'.2, hmem⟩, hc, rfl⟩

/-- a fine row of direct interpolation only uses strong coarse neighbours -/
theorem directRow_support {states : List Int} {i : Nat} (arow srow : List (Nat × K))
    (h : isC states i = false) {c : Nat} {w : K} (hcw : (c, w) ∈ directRow states i arow srow) :
    ∃ j v, (j, v) ∈ offDiag i srow ∧ isC states j = true ∧ c = colToNew states j := by
  rw [directRow_fine_eq arow srow h] at hcw
  simp only [List.mem_map, Prod.mk.injEq] at hcw
  obtain ⟨e, he, hc, _⟩ := hcw
  obtain ⟨⟨v, hv⟩, hC, _⟩ := mem_strongC he
  exact ⟨e.1, v, hv, hC, hc.symm⟩

theorem mem_parts_ss {states : List Int} {i : Nat} {arow srow : List (Nat × K)} {e : Nat × K}
    (he : e ∈ (parts states i arow srow).ss) :
    e ∈ arow.drop 1 ∧ (∃ v, (e.1, v) ∈ offDiag i srow) ∧ isC states e.1 = true := by
  unfold parts at he
  simp only [List.mem_filter, List.contains_eq_mem, List.mem_map, decide_eq_true_eq] at he
  obtain ⟨⟨hmem, e', he', h1⟩, hc⟩ := he
  exact ⟨hmem, ⟨e'.2, by rw [← h1]; exact he'⟩, hc⟩

theorem modClassicalRow_support_parts (tiny : K → Bool) {states : List Int} (allParts : List (Parts K))
    {i : Nat} {p : Parts K} (hp : allParts[i]? = some p)
    (h : isC states i = false) {c : Nat} {w : K} (hcw : (c, w) ∈ modClassicalRow tiny states allParts i) :
    ∃ e ∈ p.ss, c = colToNew states e.1 := by
  unfold modClassicalRow at hcw
  rw [if_neg (by simp [h])] at hcw
  simp only [hp, List.mem_map, Prod.mk.injEq] at hcw
  obtain ⟨e, he, hc, _⟩ := hcw
  exact ⟨e, he, hc.symm⟩

/-- a fine row of modified classical interpolation only uses strong coarse neighbours
    (that are stored in the row of `A`) -/
theorem modClassicalRow_support (tiny : K → Bool) {states : List Int} (allParts : List (Parts K))
    {i : Nat} (arow srow : List (Nat × K)) (hp : allParts[i]? = some (parts states i arow srow))
    (h : isC states i = false) {c : Nat} {w : K} (hcw : (c, w) ∈ modClassicalRow tiny states allParts i) :
    ∃ j v, (j, v) ∈ offDiag i srow ∧ isC states j = true ∧ c = colToNew states j
      ∧ ∃ a, (j, a) ∈ arow.drop 1 := by
  obtain ⟨e, he, hc⟩ := modClassicalRow_support_parts tiny allParts hp h hcw
  obtain ⟨hmem, ⟨v, hv⟩, hC⟩ := mem_parts_ss he
  exact ⟨e.1, v, hv, hC, hc, e.2, hmem⟩

theorem direct_support (states : List Int) (A S : List (List (Nat × K))) {i : Nat}
    (hA : i < A.length) (hS : i < S.length) (h : isC states i = false) {row : List (Nat × K)}
    (hrow : (direct states A S)[i]? = some row) {c : Nat} {w : K} (hcw : (c, w) ∈ row) :
    ∃ j v, (j, v) ∈ offDiag i S[i] ∧ isC states j = true ∧ c = colToNew states j := by
  rw [direct_getElem? states A S hA hS] at hrow
  cases hrow
  exact directRow_support _ _ h hcw

theorem modClassical_support (tiny : K → Bool) (states : List Int) (A S : List (List (Nat × K))) {i : Nat}
    (hA : i < A.length) (hS : i < S.length) (h : isC states i = false) {row : List (Nat × K)}
    (hrow : (modClassical tiny states A S)[i]? = some row) {c : Nat} {w : K} (hcw : (c, w) ∈ row) :
    ∃ j v, (j, v) ∈ offDiag i S[i] ∧ isC states j = true ∧ c = colToNew states j
      ∧ ∃ a, (j, a) ∈ A[i].drop 1 := by
  rw [modClassical_getElem? tiny states A S hA] at hrow
  cases hrow
  exact modClassicalRow_support tiny _ _ _ (allParts_getElem? states A S hA hS) h hcw

end Support

/-! ## 4. direct interpolation reproduces constants on zero-row-sum rows -/
section DirectRowSum
variable {K : Type} [Field K] [LinearOrder K]

/-- **Row sum of a fine row of direct interpolation.**  Hypotheses:
* `i` is not coarse;
* the row of `A` (first entry = diagonal, `diagVal arow`; rest = `arow.drop 1`) sums to zero;
* the two denominators are non-zero: `sumStrongNeg` (sum of the negative values of `A` at strong
  coarse columns) and `directDiag` (`d + sumAllPos` if there is no positive strong coarse value,
  else `d`).
No pattern hypothesis (`S ⊆ A`, distinct columns) is needed: the weights of the strong coarse
columns are rescaled by the *full* negative/positive off-diagonal sums whatever `aVal` returns. -/
theorem directRow_rowsum_one_gen {states : List Int} {i : Nat} (arow srow : List (Nat × K))
    (h : isC states i = false)
    (hsum : diagVal arow + ((arow.drop 1).map (·.2)).sum = 0)
    (hneg : sumStrongNeg states i arow srow ≠ 0)
    (hdiag : directDiag states i arow srow ≠ 0) :
    lsumK ((directRow states i arow srow).map (·.2)) = 1 := by
  rw [directRow_weights_sum arow srow h]
  have hs := sumAll_split arow
  rw [← hs] at hsum
  unfold directNegCoeff directPosCoeff
  unfold directDiag at hdiag ⊢
  by_cases hp : sumStrongPos states i arow srow = 0
  · rw [if_pos hp] at hdiag
    simp only [hp, if_true, mul_zero, add_zero]
    field_simp
    linear_combination -hsum
  · rw [if_neg hp] at hdiag
    simp only [hp, if_false]
    field_simp
    linear_combination -hsum

/-- the same with the row written `(i, d) :: offs` -/
theorem directRow_rowsum_one {states : List Int} {i : Nat} (d : K) (offs srow : List (Nat × K))
    (h : isC states i = false)
    (hsum : d + lsumK (offs.map (·.2)) = 0)
    (hneg : sumStrongNeg states i ((i, d) :: offs) srow ≠ 0)
    (hdiag : directDiag states i ((i, d) :: offs) srow ≠ 0) :
    lsumK ((directRow states i ((i, d) :: offs) srow).map (·.2)) = 1 := by
  apply directRow_rowsum_one_gen _ _ h _ hneg hdiag
  rw [lsumK_eq_sum] at hsum
  simpa [diagVal] using hsum

end DirectRowSum

/-! ## 5. finiteness: the denominators are non-zero under the M-matrix guard -/
section DirectFinite
variable {K : Type} [Field K] [LinearOrder K] [IsStrictOrderedRing K]

/-- row `i` is stored diagonal first, with a positive diagonal and non-positive off-diagonals -/
def MMatrixRow (i : Nat) (arow : List (Nat × K)) : Prop :=
  ∃ d offs, arow = (i, d) :: offs ∧ 0 < d ∧ ∀ e ∈ offs, e.2 ≤ 0

/-- row `i` has a strong coarse neighbour at which `A` is negative -/
def HasStrongNegC (states : List Int) (i : Nat) (arow srow : List (Nat × K)) : Prop :=
  ∃ j v, (j, v) ∈ offDiag i srow ∧ isC states j = true ∧ aVal arow j < 0

omit [IsStrictOrderedRing K] in
theorem strongC_val_nonpos {states : List Int} {i : Nat} {d : K} {offs srow : List (Nat × K)}
    (h : isC states i = false) (hoff : ∀ e ∈ offs, e.2 ≤ 0) {e : Nat × K}
    (he : e ∈ strongC states i ((i, d) :: offs) srow) : e.2 ≤ 0 := by
  obtain ⟨_, hC, hv⟩ := mem_strongC he
  have hne : i ≠ e.1 := by
    intro heq; rw [← heq, h] at hC; exact Bool.false_ne_true hC
  rw [hv, aVal_cons_ne d offs hne]
  rcases aVal_eq_zero_or_mem offs e.1 with h0 | hm
  · exact le_of_eq h0
  · exact hoff _ hm

theorem directRow_finite {states : List Int} {i : Nat} (d : K) (offs srow : List (Nat × K))
    (h : isC states i = false) (hd : 0 < d) (hoff : ∀ e ∈ offs, e.2 ≤ 0)
    (hex : HasStrongNegC states i ((i, d) :: offs) srow) :
    sumStrongNeg states i ((i, d) :: offs) srow < 0
    ∧ sumStrongPos states i ((i, d) :: offs) srow = 0
    ∧ sumAllPos ((i, d) :: offs) = 0
    ∧ directDiag states i ((i, d) :: offs) srow = d
    ∧ 0 < directDiag states i ((i, d) :: offs) srow := by
  have hpos : sumStrongPos states i ((i, d) :: offs) srow = 0 := by
    unfold sumStrongPos
    rw [lsumK_eq_sum]
    apply list_sum_eq_zero'
    intro x hx
    simp only [List.mem_map, List.mem_filter, Bool.not_eq_true', decide_eq_false_iff_not, not_lt] at hx
    obtain ⟨e, ⟨he, hge⟩, rfl⟩ := hx
    exact le_antisymm (strongC_val_nonpos h hoff he) hge
  have hall : sumAllPos ((i, d) :: offs) = 0 := by
    unfold sumAllPos
    rw [lsumK_eq_sum]
    apply list_sum_eq_zero'
    intro x hx
    simp only [List.drop_one, List.tail_cons, List.mem_filter, List.mem_map, Bool.not_eq_true',
      decide_eq_false_iff_not, not_lt] at hx
    obtain ⟨⟨e, he, rfl⟩, hge⟩ := hx
    exact le_antisymm (hoff e he) hge
  have hdg : directDiag states i ((i, d) :: offs) srow = d := by
    unfold directDiag
    rw [if_pos hpos, hall, add_zero]
    rfl
  refine ⟨?_, hpos, hall, hdg, by rw [hdg]; exact hd⟩
  · unfold sumStrongNeg
    rw [lsumK_eq_sum]
    apply list_sum_neg
    · intro x hx
      simp only [List.mem_map, List.mem_filter, decide_eq_true_eq] at hx
      obtain ⟨e, ⟨_, hlt⟩, rfl⟩ := hx
      exact hlt
    · obtain ⟨j, v, hjv, hC, hlt⟩ := hex
      have hmem : (j, aVal ((i, d) :: offs) j) ∈ strongC states i ((i, d) :: offs) srow := by
        unfold strongC
        simp only [List.mem_map, List.mem_filter]
        exact ⟨(j, v), ⟨hjv, hC⟩, rfl⟩
      intro hnil
      have : aVal ((i, d) :: offs) j ∈
          ((strongC states i ((i, d) :: offs) srow).filter fun e => decide (e.2 < 0)).map (·.2) := by
        simp only [List.mem_map, List.mem_filter, decide_eq_true_eq]
        exact ⟨_, ⟨hmem, hlt⟩, rfl⟩
      rw [hnil] at this
      exact List.not_mem_nil this

/-- **C12, direct interpolation**: on an M-matrix row with zero row sum and a strong negative
    coarse neighbour, the denominators are non-zero and the weights sum to one. -/
theorem directRow_rowsum_one_of_MMatrixRow {states : List Int} {i : Nat} (arow srow : List (Nat × K))
    (h : isC states i = false) (hM : MMatrixRow i arow)
    (hsum : lsumK (arow.map (·.2)) = 0)
    (hex : HasStrongNegC states i arow srow) :
    lsumK ((directRow states i arow srow).map (·.2)) = 1 := by
  obtain ⟨d, offs, rfl, hd, hoff⟩ := hM
  obtain ⟨hneg, _, _, hdiag, _⟩ := directRow_finite d offs srow h hd hoff hex
  apply directRow_rowsum_one d offs srow h _ (ne_of_lt hneg) (by rw [hdiag]; exact ne_of_gt hd)
  rw [lsumK_eq_sum] at hsum ⊢
  simpa using hsum

end DirectFinite

/-! ## 6. modified classical interpolation reproduces constants on zero-row-sum rows -/
section ModClassicalRowSum
variable {K : Type} [Field K] [LinearOrder K]

/-- the strong coarse columns of a row with pairwise distinct columns are pairwise distinct -/
theorem parts_ss_nodup (states : List Int) (i : Nat) (arow srow : List (Nat × K))
    (hnd : (arow.map (·.1)).Nodup) : ((parts states i arow srow).ss.map (·.1)).Nodup := by
  refine List.Nodup.sublist ?_ hnd
  unfold parts
  exact (((List.filter_sublist).trans (List.filter_sublist)).trans (List.drop_sublist 1 arow)).map _

/-- if every strong neighbour is coarse or fine, the three parts of the row add up to the row sum -/
theorem parts_sum (states : List Int) (i : Nat) (d : K) (offs srow : List (Nat × K))
    (hCF : ∀ e ∈ offDiag i srow, isC states e.1 = true ∨ isF states e.1 = true) :
    ((parts states i ((i, d) :: offs) srow).ss.map (·.2)).sum
      + ((parts states i ((i, d) :: offs) srow).su.map (·.2)).sum
      + (parts states i ((i, d) :: offs) srow).weak = d + (offs.map (·.2)).sum := by
  unfold parts
  simp only [List.drop_succ_cons, List.drop_zero, diagVal, List.head?_cons, Option.map_some,
    Option.getD_some, foldl_add_eq]
  have hsu : (offs.filter fun e => ((offDiag i srow).map (·.1)).contains e.1).filter (fun e => isF states e.1)
      = (offs.filter fun e => ((offDiag i srow).map (·.1)).contains e.1).filter
          (fun e => !isC states e.1) := by
    apply List.filter_congr
    intro e he
    simp only [List.mem_filter, List.contains_eq_mem, List.mem_map, decide_eq_true_eq] at he
    obtain ⟨_, e', he', h1⟩ := he
    have := hCF e' he'
    rw [h1] at this
    rcases this with hc | hf
    · rw [hc, isC_isF_excl hc]; rfl
    · rw [hf]
      cases hc : isC states e.1 with
      | false => rfl
      | true => rw [isC_isF_excl hc] at hf; exact Bool.noConfusion hf
  rw [hsu]
  have h1 := sum_filter_split_bool (fun e : Nat × K => isC states e.1) (·.2)
    (offs.filter fun e => ((offDiag i srow).map (·.1)).contains e.1)
  have h2 := sum_filter_split_bool (fun e : Nat × K => ((offDiag i srow).map (·.1)).contains e.1) (·.2) offs
  linear_combination h1 + h2

/-- **Row sum of a fine row of modified classical interpolation.**  Hypotheses:
* `i` is not coarse and `allParts[i]` is the split of the row `(i, d) :: offs` of `A` (diagonal first);
* the row of `A` sums to zero;
* the columns of the row of `A` are pairwise distinct (only used for its strong coarse columns);
* every strong neighbour of `i` is coarse or fine (no isolated labels);
* `tiny 0 = true` (a non-tiny coarse sum is non-zero: true of `|x| < tol` and of exact `x = 0`);
* the final denominator `mcWeak` (`= a_ii + Σ weak + Σ_{k strong fine, cs_k tiny} a_ik`) is non-zero.
Nothing is assumed about the other rows of `allParts`. -/
theorem modClassicalRow_rowsum_one (tiny : K → Bool) {states : List Int} (allParts : List (Parts K))
    {i : Nat} (d : K) (offs srow : List (Nat × K))
    (hp : allParts[i]? = some (parts states i ((i, d) :: offs) srow))
    (h : isC states i = false)
    (htiny : tiny 0 = true)
    (hnd : (((i, d) :: offs).map (·.1)).Nodup)
    (hCF : ∀ e ∈ offDiag i srow, isC states e.1 = true ∨ isF states e.1 = true)
    (hsum : d + lsumK (offs.map (·.2)) = 0)
    (hweak : mcWeak tiny allParts (parts states i ((i, d) :: offs) srow) ≠ 0) :
    lsumK ((modClassicalRow tiny states allParts i).map (·.2)) = 1 := by
  apply modClassicalRow_weights_sum_one tiny allParts hp h htiny (parts_ss_nodup _ _ _ _ hnd) _ hweak
  rw [parts_sum states i d offs srow hCF, ← lsumK_eq_sum]
  exact hsum

/-- the same for row `i` of `modClassical` -/
theorem modClassical_rowsum_one (tiny : K → Bool) (states : List Int) (A S : List (List (Nat × K)))
    {i : Nat} (hA : i < A.length) (hS : i < S.length) (d : K) (offs : List (Nat × K))
    (hrow : A[i] = (i, d) :: offs)
    (h : isC states i = false)
    (htiny : tiny 0 = true)
    (hnd : (A[i].map (·.1)).Nodup)
    (hCF : ∀ e ∈ offDiag i S[i], isC states e.1 = true ∨ isF states e.1 = true)
    (hsum : lsumK (A[i].map (·.2)) = 0)
    (hweak : mcWeak tiny ((A.zip S).zipIdx.map fun (r, i) => parts states i r.1 r.2)
      (parts states i A[i] S[i]) ≠ 0) :
    ∃ row, (modClassical tiny states A S)[i]? = some row ∧ lsumK (row.map (·.2)) = 1 := by
  refine ⟨_, modClassical_getElem? tiny states A S hA, ?_⟩
  have hp := allParts_getElem? states A S hA hS
  rw [hrow] at hp hnd hsum hweak
  refine modClassicalRow_rowsum_one tiny _ d offs S[i] hp h htiny hnd hCF ?_ hweak
  rw [lsumK_eq_sum] at hsum ⊢
  simpa using hsum

end ModClassicalRowSum

/-! ## 6b. modified classical: the denominator is non-zero under the M-matrix guard -/
section ModClassicalFinite
variable {K : Type} [Field K] [LinearOrder K] [IsStrictOrderedRing K]

omit [IsStrictOrderedRing K] in
theorem mem_parts_su {states : List Int} {i : Nat} {arow srow : List (Nat × K)} {e : Nat × K}
    (he : e ∈ (parts states i arow srow).su) : e ∈ arow.drop 1 := by
  unfold parts at he
  simp only [List.mem_filter] at he
  exact he.1.1

omit [IsStrictOrderedRing K] in
/-- a strong coarse neighbour with a negative value of `A` is a (stored) negative entry of `SS` -/
theorem exists_neg_ss {states : List Int} {i : Nat} {d : K} {offs srow : List (Nat × K)}
    (h : isC states i = false) (hex : HasStrongNegC states i ((i, d) :: offs) srow) :
    ∃ e ∈ (parts states i ((i, d) :: offs) srow).ss, e.2 < 0 := by
  obtain ⟨j, v, hjv, hC, hlt⟩ := hex
  have hne : i ≠ j := by
    intro heq; rw [← heq, h] at hC; exact Bool.false_ne_true hC
  rw [aVal_cons_ne d offs hne] at hlt
  rcases aVal_eq_zero_or_mem offs j with h0 | hm
  · rw [h0] at hlt; exact absurd hlt (lt_irrefl _)
  · refine ⟨(j, aVal offs j), ?_, hlt⟩
    unfold parts
    simp only [List.drop_succ_cons, List.drop_zero, List.mem_filter, List.contains_eq_mem, List.mem_map,
      decide_eq_true_eq]
    exact ⟨⟨hm, (j, v), hjv, rfl⟩, hC⟩

/-- under the M-matrix guard (non-positive off-diagonals, zero row sum, a strong negative coarse
    neighbour, strong neighbours coarse or fine) the final denominator of `modClassicalRow` is
    positive, whatever `tiny` and the other rows are -/
theorem modClassicalRow_finite (tiny : K → Bool) {states : List Int} (allParts : List (Parts K))
    {i : Nat} (d : K) (offs srow : List (Nat × K))
    (h : isC states i = false) (hoff : ∀ e ∈ offs, e.2 ≤ 0)
    (hCF : ∀ e ∈ offDiag i srow, isC states e.1 = true ∨ isF states e.1 = true)
    (hsum : d + lsumK (offs.map (·.2)) = 0)
    (hex : HasStrongNegC states i ((i, d) :: offs) srow) :
    0 < mcWeak tiny allParts (parts states i ((i, d) :: offs) srow) := by
  rw [mcWeak_eq]
  have hps := parts_sum states i d offs srow hCF
  rw [lsumK_eq_sum] at hsum
  have hsplit := sum_filter_split_bool
    (fun e : Nat × K => tiny (mcCoarseSum allParts (parts states i ((i, d) :: offs) srow) e.1)) (·.2)
    (parts states i ((i, d) :: offs) srow).su
  have hSS : ((parts states i ((i, d) :: offs) srow).ss.map (·.2)).sum < 0 := by
    apply list_sum_neg_of_exists
    · intro x hx
      rw [List.mem_map] at hx
      obtain ⟨e, he, rfl⟩ := hx
      exact hoff e (by simpa using (mem_parts_ss he).1)
    · obtain ⟨e, he, hlt⟩ := exists_neg_ss h hex
      exact ⟨e.2, List.mem_map_of_mem he, hlt⟩
  have hNT : (((parts states i ((i, d) :: offs) srow).su.filter fun e =>
      !tiny (mcCoarseSum allParts (parts states i ((i, d) :: offs) srow) e.1)).map (·.2)).sum ≤ 0 := by
    apply list_sum_nonpos
    intro x hx
    simp only [List.mem_map, List.mem_filter] at hx
    obtain ⟨e, ⟨he, _⟩, rfl⟩ := hx
    exact hoff e (by simpa using mem_parts_su he)
  linarith

/-- **C12, modified classical interpolation**: on an M-matrix row (diagonal first, distinct columns)
    with zero row sum, a strong negative coarse neighbour and only coarse/fine strong neighbours, the
    weights are finite (positive denominator) and sum to one. -/
theorem modClassicalRow_rowsum_one_of_MMatrixRow (tiny : K → Bool) {states : List Int}
    (allParts : List (Parts K)) {i : Nat} (arow srow : List (Nat × K))
    (hp : allParts[i]? = some (parts states i arow srow))
    (h : isC states i = false) (htiny : tiny 0 = true)
    (hM : MMatrixRow i arow) (hnd : (arow.map (·.1)).Nodup)
    (hCF : ∀ e ∈ offDiag i srow, isC states e.1 = true ∨ isF states e.1 = true)
    (hsum : lsumK (arow.map (·.2)) = 0)
    (hex : HasStrongNegC states i arow srow) :
    lsumK ((modClassicalRow tiny states allParts i).map (·.2)) = 1 := by
  obtain ⟨d, offs, rfl, _, hoff⟩ := hM
  have hsum' : d + lsumK (offs.map (·.2)) = 0 := by
    rw [lsumK_eq_sum] at hsum ⊢
    simpa using hsum
  exact modClassicalRow_rowsum_one tiny allParts d offs srow hp h htiny hnd hCF hsum'
    (ne_of_gt (modClassicalRow_finite tiny allParts d offs srow h hoff hCF hsum' hex))

end ModClassicalFinite

/-! ## 7. shape: number of rows, column range -/
section Shape
variable {K : Type} [Field K] [LinearOrder K]

theorem direct_length (states : List Int) (A S : List (List (Nat × K))) :
    (direct states A S).length = min A.length S.length := by
  simp [direct]

theorem modClassical_length (tiny : K → Bool) (states : List Int) (A S : List (List (Nat × K))) :
    (modClassical tiny states A S).length = A.length := by
  simp [modClassical]

/-- number of coarse points -/
def numCoarse (states : List Int) : Nat := colToNew states states.length

theorem numCoarse_eq_count (states : List Int) {n : Nat} (h : states.length ≤ n) :
    ((List.range n).filter (isC states)).length = numCoarse states :=
  colToNew_eq_of_ge states h

theorem colToNew_lt_numCoarse {states : List Int} {j : Nat} (h : isC states j = true) :
    colToNew states j < numCoarse states :=
  colToNew_lt_of_isC h (isC_lt_length h)

theorem directRow_col_lt (states : List Int) (i : Nat) (arow srow : List (Nat × K)) :
    ∀ e ∈ directRow states i arow srow, e.1 < numCoarse states := by
  intro e he
  cases h : isC states i with
  | true =>
    rw [directRow_injection arow srow h, List.mem_singleton] at he
    rw [he]; exact colToNew_lt_numCoarse h
  | false =>
    obtain ⟨j, _, _, hC, hc⟩ := directRow_support (c := e.1) (w := e.2) arow srow h he
    rw [hc]; exact colToNew_lt_numCoarse hC

/-- every column index of `direct` is a coarse index (`< number of coarse points`) -/
theorem direct_col_lt (states : List Int) (A S : List (List (Nat × K))) :
    ∀ row ∈ direct states A S, ∀ e ∈ row, e.1 < numCoarse states := by
  intro row hrow
  unfold direct at hrow
  rw [List.mem_map] at hrow
  obtain ⟨⟨r, i⟩, _, rfl⟩ := hrow
  exact directRow_col_lt states i r.1 r.2

theorem modClassicalRow_col_lt (tiny : K → Bool) (states : List Int) (allParts : List (Parts K))
    (hss : ∀ p ∈ allParts, ∀ e ∈ p.ss, isC states e.1 = true) (i : Nat) :
    ∀ e ∈ modClassicalRow tiny states allParts i, e.1 < numCoarse states := by
  intro e he
  cases h : isC states i with
  | true =>
    rw [modClassicalRow_injection tiny allParts h, List.mem_singleton] at he
    rw [he]; exact colToNew_lt_numCoarse h
  | false =>
    cases hp : allParts[i]? with
    | none =>
      unfold modClassicalRow at he
      rw [if_neg (by simp [h])] at he
      simp [hp] at he
    | some p =>
      obtain ⟨e', he', hc⟩ := modClassicalRow_support_parts (c := e.1) (w := e.2) tiny allParts hp h he
      rw [hc]; exact colToNew_lt_numCoarse (hss p (List.mem_of_getElem? hp) e' he')

theorem modClassical_col_lt (tiny : K → Bool) (states : List Int) (A S : List (List (Nat × K))) :
    ∀ row ∈ modClassical tiny states A S, ∀ e ∈ row, e.1 < numCoarse states := by
  intro row hrow
  unfold modClassical at hrow
  simp only [List.mem_map] at hrow
  obtain ⟨i, _, rfl⟩ := hrow
  apply modClassicalRow_col_lt
  intro p hp e he
  rw [List.mem_map] at hp
  obtain ⟨⟨r, k⟩, _, rfl⟩ := hp
  exact (mem_parts_ss he).2.2

/-- `direct` has one row per row of `A` (and `S`), with coarse column indices -/
theorem direct_shape (states : List Int) (A S : List (List (Nat × K))) :
    (direct states A S).length = min A.length S.length
    ∧ ∀ row ∈ direct states A S, ∀ e ∈ row, e.1 < numCoarse states :=
  ⟨direct_length states A S, direct_col_lt states A S⟩

theorem modClassical_shape (tiny : K → Bool) (states : List Int) (A S : List (List (Nat × K))) :
    (modClassical tiny states A S).length = A.length
    ∧ ∀ row ∈ modClassical tiny states A S, ∀ e ∈ row, e.1 < numCoarse states :=
  ⟨modClassical_length tiny states A S, modClassical_col_lt tiny states A S⟩

end Shape

/-! ## the matrix-level statements of the constants property -/
section Lifted
variable {K : Type} [Field K] [LinearOrder K] [IsStrictOrderedRing K]

theorem direct_rowsum_one_of_MMatrixRow (states : List Int) (A S : List (List (Nat × K))) {i : Nat}
    (hA : i < A.length) (hS : i < S.length) (h : isC states i = false)
    (hM : MMatrixRow i A[i]) (hsum : lsumK (A[i].map (·.2)) = 0)
    (hex : HasStrongNegC states i A[i] S[i]) :
    ∃ row, (direct states A S)[i]? = some row ∧ lsumK (row.map (·.2)) = 1 :=
  ⟨_, direct_getElem? states A S hA hS, directRow_rowsum_one_of_MMatrixRow _ _ h hM hsum hex⟩

theorem modClassical_rowsum_one_of_MMatrixRow (tiny : K → Bool) (states : List Int)
    (A S : List (List (Nat × K))) {i : Nat}
    (hA : i < A.length) (hS : i < S.length) (h : isC states i = false) (htiny : tiny 0 = true)
    (hM : MMatrixRow i A[i]) (hnd : (A[i].map (·.1)).Nodup)
    (hCF : ∀ e ∈ offDiag i S[i], isC states e.1 = true ∨ isF states e.1 = true)
    (hsum : lsumK (A[i].map (·.2)) = 0)
    (hex : HasStrongNegC states i A[i] S[i]) :
    ∃ row, (modClassical tiny states A S)[i]? = some row ∧ lsumK (row.map (·.2)) = 1 :=
  ⟨_, modClassical_getElem? tiny states A S hA,
    modClassicalRow_rowsum_one_of_MMatrixRow tiny _ _ _ (allParts_getElem? states A S hA hS) h htiny
      hM hnd hCF hsum hex⟩

end Lifted

/-! ## examples: the 1-D Laplacian with Neumann ends (4×4 M-matrix, zero row sums), `S = A` -/
section Examples

def A4 : List (List (Nat × ℚ)) :=
  [[(0, 1), (1, -1)], [(1, 2), (0, -1), (2, -1)], [(2, 2), (1, -1), (3, -1)], [(3, 1), (2, -1)]]
/-- exact arithmetic: `tiny x ↔ x = 0` -/
def tinyQ : ℚ → Bool := fun x => decide (x = 0)

example : direct [1, 0, 1, 0] A4 A4 = [[(0, 1)], [(0, 1/2), (1, 1/2)], [(1, 1)], [(1, 1)]] := by
  decide +kernel
example : modClassical tinyQ [1, 0, 1, 0] A4 A4
    = [[(0, 1)], [(0, 1/2), (1, 1/2)], [(1, 1)], [(1, 1)]] := by decide +kernel
example : direct [1, 0, 0, 1] A4 A4 = [[(0, 1)], [(0, 1)], [(1, 1)], [(1, 1)]] := by decide +kernel
example : modClassical tinyQ [1, 0, 0, 1] A4 A4 = [[(0, 1)], [(0, 1)], [(1, 1)], [(1, 1)]] := by
  decide +kernel
example : (direct [1, 0, 1, 0] A4 A4).map (fun r => lsumK (r.map (·.2))) = [1, 1, 1, 1] := by
  decide +kernel
example : (modClassical tinyQ [1, 0, 0, 1] A4 A4).map (fun r => lsumK (r.map (·.2))) = [1, 1, 1, 1] := by
  decide +kernel

/-- the hypotheses of the row-sum theorems hold for the fine row 1 (splitting `[1,0,1,0]`) … -/
example : MMatrixRow (K := ℚ) 1 [(1, 2), (0, -1), (2, -1)] :=
  ⟨2, [(0, -1), (2, -1)], rfl, by decide +kernel, by decide +kernel⟩
example : HasStrongNegC (K := ℚ) [1, 0, 1, 0] 1 [(1, 2), (0, -1), (2, -1)] [(1, 2), (0, -1), (2, -1)] :=
  ⟨0, -1, by decide +kernel, by decide +kernel, by decide +kernel⟩

/-- … so the theorems apply: direct interpolation, fine rows 1 and 3 of `[1,0,1,0]` -/
example : ∃ row, (direct [1, 0, 1, 0] A4 A4)[1]? = some row ∧ lsumK (row.map (·.2)) = 1 :=
  direct_rowsum_one_of_MMatrixRow [1, 0, 1, 0] A4 A4 (i := 1) (by decide) (by decide) (by decide +kernel)
    ⟨2, [(0, -1), (2, -1)], rfl, by decide +kernel, by decide +kernel⟩ (by decide +kernel)
    ⟨0, -1, by decide +kernel, by decide +kernel, by decide +kernel⟩
example : ∃ row, (direct [1, 0, 1, 0] A4 A4)[3]? = some row ∧ lsumK (row.map (·.2)) = 1 :=
  direct_rowsum_one_of_MMatrixRow [1, 0, 1, 0] A4 A4 (i := 3) (by decide) (by decide) (by decide +kernel)
    ⟨1, [(2, -1)], rfl, by decide +kernel, by decide +kernel⟩ (by decide +kernel)
    ⟨2, -1, by decide +kernel, by decide +kernel, by decide +kernel⟩

/-- modified classical interpolation, fine rows 1 and 2 of `[1,0,0,1]` (each has a strong fine
    neighbour whose coarse sum is tiny, so its value moves into the denominator) -/
example : ∃ row, (modClassical tinyQ [1, 0, 0, 1] A4 A4)[1]? = some row ∧ lsumK (row.map (·.2)) = 1 :=
  modClassical_rowsum_one_of_MMatrixRow tinyQ [1, 0, 0, 1] A4 A4 (i := 1) (by decide) (by decide)
    (by decide +kernel) (by decide +kernel)
    ⟨2, [(0, -1), (2, -1)], rfl, by decide +kernel, by decide +kernel⟩ (by decide +kernel)
    (by decide +kernel) (by decide +kernel)
    ⟨0, -1, by decide +kernel, by decide +kernel, by decide +kernel⟩
example : ∃ row, (modClassical tinyQ [1, 0, 0, 1] A4 A4)[2]? = some row ∧ lsumK (row.map (·.2)) = 1 :=
  modClassical_rowsum_one_of_MMatrixRow tinyQ [1, 0, 0, 1] A4 A4 (i := 2) (by decide) (by decide)
    (by decide +kernel) (by decide +kernel)
    ⟨2, [(1, -1), (3, -1)], rfl, by decide +kernel, by decide +kernel⟩ (by decide +kernel)
    (by decide +kernel) (by decide +kernel)
    ⟨3, -1, by decide +kernel, by decide +kernel, by decide +kernel⟩
/-- the non-M-matrix form: the explicit denominators of `directRow_rowsum_one` are non-zero -/
example : sumStrongNeg (K := ℚ) [1, 0, 1, 0] 1 [(1, 2), (0, -1), (2, -1)] [(1, 2), (0, -1), (2, -1)] = -2
    ∧ directDiag (K := ℚ) [1, 0, 1, 0] 1 [(1, 2), (0, -1), (2, -1)] [(1, 2), (0, -1), (2, -1)] = 2 := by
  decide +kernel

end Examples

/- OPEN (not proved): nothing — all seven targets of C12 are proved above. -/
end Raptor.C12
