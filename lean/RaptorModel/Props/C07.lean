import RaptorModel.Lemmas.SparseLemmas
/-!
# C07 — every sparse-format operation preserves the dense image

`A.den i j` is the sum of the values stored at `(i, j)`: the operator a sparse structure
represents. The theorems below state, for the very functions of `RaptorModel/Model/Sparse.lean`,
for every scalar type that is a commutative additive monoid (group for `subtract`), for all sizes
and all `i j : Nat`, that conversions, transposes, sorts, `move_diag`, `remove_duplicates`, `add`
and `subtract` compute the expected dense image. Helper lemmas are in
`RaptorModel/Lemmas/SparseLemmas.lean`.

Hypotheses are the weakest that make each statement true; where `WF` is assumed it is because
`bucket n` silently drops entries whose key is `≥ n` (see `cooToCsr_drops_out_of_range`).
-/
namespace Raptor.C07
open Raptor.Sparse

variable {K : Type}

/-! ## 1. conversions -/

section Conversions

theorem dims_cooToCsr (A : Coo K) :
    (cooToCsr A).nRows = A.nRows ∧ (cooToCsr A).nCols = A.nCols := ⟨rfl, rfl⟩
theorem dims_cooToCsc (A : Coo K) :
    (cooToCsc A).nRows = A.nRows ∧ (cooToCsc A).nCols = A.nCols := ⟨rfl, rfl⟩
theorem dims_csrToCoo (A : Csr K) :
    (csrToCoo A).nRows = A.nRows ∧ (csrToCoo A).nCols = A.nCols := ⟨rfl, rfl⟩
theorem dims_cscToCoo (A : Csc K) :
    (cscToCoo A).nRows = A.nRows ∧ (cscToCoo A).nCols = A.nCols := ⟨rfl, rfl⟩
theorem dims_csrToCsc (A : Csr K) :
    (csrToCsc A).nRows = A.nRows ∧ (csrToCsc A).nCols = A.nCols := ⟨rfl, rfl⟩
theorem dims_cscToCsr (A : Csc K) :
    (cscToCsr A).nRows = A.nRows ∧ (cscToCsr A).nCols = A.nCols := ⟨rfl, rfl⟩

theorem den_cooToCsr [AddCommMonoid K] (A : Coo K) (h : A.WF = true) (i j : Nat) :
    (cooToCsr A).den i j = A.den i j := by
  rw [Csr.den_eq]
  exact denE_bucketRows A.nRows A.ents (fun e he => (Coo.WF_iff.mp h e he).1) i j

theorem wf_cooToCsr (A : Coo K) (h : A.WF = true) : (cooToCsr A).WF = true := by
  rw [Csr.WF_iff]
  refine ⟨bucket_length _ _, bucket_all_lt ?_⟩
  intro x hx
  obtain ⟨e, he, rfl⟩ := List.mem_map.mp hx
  exact (Coo.WF_iff.mp h e he).2

theorem den_cooToCsc [AddCommMonoid K] (A : Coo K) (h : A.WF = true) (i j : Nat) :
    (cooToCsc A).den i j = A.den i j := by
  rw [Csc.den_eq]
  exact denE_bucketCols A.nCols A.ents (fun e he => (Coo.WF_iff.mp h e he).2) i j

theorem wf_cooToCsc (A : Coo K) (h : A.WF = true) : (cooToCsc A).WF = true := by
  rw [Csc.WF_iff]
  refine ⟨bucket_length _ _, bucket_all_lt ?_⟩
  intro x hx
  obtain ⟨e, he, rfl⟩ := List.mem_map.mp hx
  exact (Coo.WF_iff.mp h e he).1

/-- definitional: the COO entries are the CSR entries in storage order -/
theorem den_csrToCoo [AddCommMonoid K] (A : Csr K) (i j : Nat) : (csrToCoo A).den i j = A.den i j := rfl

theorem wf_csrToCoo (A : Csr K) (h : A.WF = true) : (csrToCoo A).WF = true :=
  Coo.WF_iff.mpr fun _ he => Csr.entries_lt h he

/-- definitional -/
theorem den_cscToCoo [AddCommMonoid K] (A : Csc K) (i j : Nat) : (cscToCoo A).den i j = A.den i j := rfl

theorem wf_cscToCoo (A : Csc K) (h : A.WF = true) : (cscToCoo A).WF = true :=
  Coo.WF_iff.mpr fun _ he => Csc.entries_lt h he

theorem den_csrToCsc [AddCommMonoid K] (A : Csr K) (h : A.WF = true) (i j : Nat) :
    (csrToCsc A).den i j = A.den i j := by
  rw [Csc.den_eq]
  exact denE_bucketCols A.nCols A.entries (fun e he => (Csr.entries_lt h he).2) i j

theorem wf_csrToCsc (A : Csr K) (h : A.WF = true) : (csrToCsc A).WF = true := by
  rw [Csc.WF_iff]
  refine ⟨bucket_length _ _, bucket_all_lt ?_⟩
  intro x hx
  obtain ⟨e, he, rfl⟩ := List.mem_map.mp hx
  exact (Csr.entries_lt h he).1

theorem den_cscToCsr [AddCommMonoid K] (A : Csc K) (h : A.WF = true) (i j : Nat) :
    (cscToCsr A).den i j = A.den i j := by
  rw [Csr.den_eq]
  exact denE_bucketRows A.nRows A.entries (fun e he => (Csc.entries_lt h he).1) i j

theorem wf_cscToCsr (A : Csc K) (h : A.WF = true) : (cscToCsr A).WF = true := by
  rw [Csr.WF_iff]
  refine ⟨bucket_length _ _, bucket_all_lt ?_⟩
  intro x hx
  obtain ⟨e, he, rfl⟩ := List.mem_map.mp hx
  exact (Csc.entries_lt h he).2

end Conversions

/-- the hypotheses are satisfiable on a matrix with a duplicate and an empty row -/
example : (⟨3, 2, [(2, 1, 5), (0, 0, 1), (0, 1, -2), (0, 0, 3)]⟩ : Coo Int).WF = true := by decide
example : cooToCsr (⟨3, 2, [(2, 1, 5), (0, 0, 1), (0, 1, -2), (0, 0, 3)]⟩ : Coo Int)
    = ⟨3, 2, [[(0, 1), (1, -2), (0, 3)], [], [(1, 5)]]⟩ := by decide
/-- `WF` cannot be dropped: an entry whose row is out of range is silently lost by `cooToCsr` -/
theorem cooToCsr_drops_out_of_range :
    (cooToCsr (⟨1, 1, [(1, 0, 7)]⟩ : Coo Int)).den 1 0 = 0 ∧
    (⟨1, 1, [(1, 0, 7)]⟩ : Coo Int).den 1 0 = 7 := by decide

/-! ## 2. transposes -/

section Transposes

theorem dims_transpose_coo (A : Coo K) :
    (A.transpose).nRows = A.nCols ∧ (A.transpose).nCols = A.nRows := ⟨rfl, rfl⟩
theorem dims_transpose_csr (A : Csr K) :
    (A.transpose).nRows = A.nCols ∧ (A.transpose).nCols = A.nRows := ⟨rfl, rfl⟩
theorem dims_transpose_csc (A : Csc K) :
    (A.transpose).nRows = A.nCols ∧ (A.transpose).nCols = A.nRows := ⟨rfl, rfl⟩

theorem den_transpose_coo [AddCommMonoid K] (A : Coo K) (i j : Nat) : (A.transpose).den i j = A.den j i :=
  denE_map_swapE A.ents i j

theorem wf_transpose_coo (A : Coo K) (h : A.WF = true) : (A.transpose).WF = true := by
  rw [Coo.WF_iff] at h ⊢
  intro e he
  obtain ⟨e', he', rfl⟩ := List.mem_map.mp he
  exact ⟨(h e' he').2, (h e' he').1⟩

theorem den_transpose_csr [AddCommMonoid K] (A : Csr K) (h : A.WF = true) (i j : Nat) :
    (A.transpose).den i j = A.den j i := by
  have hB : (⟨A.nCols, A.nRows, A.rows⟩ : Csc K).WF = true := h
  unfold Csr.transpose
  rw [den_cscToCsr _ hB, Csc.den_eq, Csr.den_eq]

theorem wf_transpose_csr (A : Csr K) (h : A.WF = true) : (A.transpose).WF = true :=
  wf_cscToCsr (⟨A.nCols, A.nRows, A.rows⟩ : Csc K) h

theorem den_transpose_csc [AddCommMonoid K] (A : Csc K) (h : A.WF = true) (i j : Nat) :
    (A.transpose).den i j = A.den j i := by
  have hB : (⟨A.nCols, A.nRows, A.cols⟩ : Csr K).WF = true := h
  unfold Csc.transpose
  rw [den_csrToCsc _ hB, Csr.den_eq, Csc.den_eq]

theorem wf_transpose_csc (A : Csc K) (h : A.WF = true) : (A.transpose).WF = true :=
  wf_csrToCsc (⟨A.nCols, A.nRows, A.cols⟩ : Csr K) h

end Transposes

/-! ## 3. sorting -/

section Sorting

/-- `sortBy` only permutes its input -/
theorem perm_sortBy {α : Type} (key : α → Nat) (l : List α) : (sortBy key l).Perm l :=
  sortBy_perm key l

/-- the result of `sortBy` is sorted by key -/
theorem sortBy_sorted {α : Type} (key : α → Nat) (l : List α) :
    (sortBy key l).Pairwise (fun a b => key a ≤ key b) := sortBy_pairwise key l

theorem dims_sort_csr (A : Csr K) :
    (A.sort).nRows = A.nRows ∧ (A.sort).nCols = A.nCols ∧ (A.sort).rows.length = A.rows.length :=
  ⟨rfl, rfl, List.length_map _⟩

theorem den_sort_csr [AddCommMonoid K] (A : Csr K) (i j : Nat) : (A.sort).den i j = A.den i j := by
  rw [Csr.den_eq, Csr.den_eq]
  show rowDen ((A.rows.map (sortBy (·.1)))[i]?.getD []) j = _
  rw [getD_map_rows _ rfl]
  exact rowDen_perm (sortBy_perm _ _) j

theorem sorted_sort_csr (A : Csr K) :
    ∀ r ∈ (A.sort).rows, r.Pairwise (fun a b => a.1 ≤ b.1) := by
  intro r hr
  obtain ⟨r0, _, rfl⟩ := List.mem_map.mp hr
  exact sortBy_pairwise _ r0

theorem wf_sort_csr (A : Csr K) (h : A.WF = true) : (A.sort).WF = true := by
  rw [Csr.WF_iff] at h ⊢
  refine ⟨(List.length_map _).trans h.1, ?_⟩
  intro r hr e he
  obtain ⟨r0, hr0, rfl⟩ := List.mem_map.mp hr
  exact h.2 r0 hr0 e ((sortBy_perm _ r0).mem_iff.mp he)

theorem dims_sort_csc (A : Csc K) :
    (A.sort).nRows = A.nRows ∧ (A.sort).nCols = A.nCols ∧ (A.sort).cols.length = A.cols.length :=
  ⟨rfl, rfl, List.length_map _⟩

theorem den_sort_csc [AddCommMonoid K] (A : Csc K) (i j : Nat) : (A.sort).den i j = A.den i j := by
  rw [Csc.den_eq, Csc.den_eq]
  show rowDen ((A.cols.map (sortBy (·.1)))[j]?.getD []) i = _
  rw [getD_map_rows _ rfl]
  exact rowDen_perm (sortBy_perm _ _) i

theorem sorted_sort_csc (A : Csc K) :
    ∀ r ∈ (A.sort).cols, r.Pairwise (fun a b => a.1 ≤ b.1) := by
  intro r hr
  obtain ⟨r0, _, rfl⟩ := List.mem_map.mp hr
  exact sortBy_pairwise _ r0

theorem wf_sort_csc (A : Csc K) (h : A.WF = true) : (A.sort).WF = true := by
  rw [Csc.WF_iff] at h ⊢
  refine ⟨(List.length_map _).trans h.1, ?_⟩
  intro r hr e he
  obtain ⟨r0, hr0, rfl⟩ := List.mem_map.mp hr
  exact h.2 r0 hr0 e ((sortBy_perm _ r0).mem_iff.mp he)

/-- the sorted COO entries are a permutation of the original ones -/
theorem perm_sort_coo (A : Coo K) : (A.sort).ents.Perm A.ents :=
  (sortBy_perm _ _).trans (sortBy_perm _ _)

theorem dims_sort_coo (A : Coo K) : (A.sort).nRows = A.nRows ∧ (A.sort).nCols = A.nCols :=
  ⟨rfl, rfl⟩

theorem den_sort_coo [AddCommMonoid K] (A : Coo K) (i j : Nat) : (A.sort).den i j = A.den i j :=
  denE_perm (perm_sort_coo A) i j

theorem sorted_sort_coo (A : Coo K) : (A.sort).ents.Pairwise (fun a b => a.1 ≤ b.1) :=
  sortBy_pairwise _ _

theorem wf_sort_coo (A : Coo K) (h : A.WF = true) : (A.sort).WF = true := by
  rw [Coo.WF_iff] at h ⊢
  intro e he
  exact h e ((perm_sort_coo A).mem_iff.mp he)

/-- `sortBy` is stable: it sorts by key and elements with equal keys keep their original order
    (stated for any relation `R` that held between earlier and later elements of the input) -/
theorem sortBy_stable {α : Type} (key : α → Nat) (R : α → α → Prop) (l : List α)
    (hl : l.Pairwise R) :
    (sortBy key l).Pairwise (fun a b => key a < key b ∨ (key a = key b ∧ R a b)) :=
  sortBy_stable_aux key R l hl

/-- `Coo.sort` orders by row, then by column (both ascending): the second, stable, pass by row
    keeps the column order produced by the first -/
theorem sort_coo_lex (A : Coo K) :
    (A.sort).ents.Pairwise (fun a b => a.1 < b.1 ∨ (a.1 = b.1 ∧ a.2.1 ≤ b.2.1)) :=
  sortBy_stable (fun e : Entry K => e.1) (fun a b : Entry K => a.2.1 ≤ b.2.1) _
    (sortBy_pairwise (fun e : Entry K => e.2.1) A.ents)

/-- concrete check of the column order inside a row -/
theorem sort_coo_lex_example :
    (Coo.sort (⟨1, 2, [(0, 1, 2), (0, 0, 1)]⟩ : Coo Int)).ents = [(0, 0, 1), (0, 1, 2)] := by
  decide

/-- concrete check of stability: equal (row, column) keep their input order -/
theorem sort_coo_stable_example :
    (Coo.sort (⟨2, 2, [(1, 0, 5), (0, 1, 2), (0, 0, 1), (0, 1, 3)]⟩ : Coo Int)).ents
      = [(0, 0, 1), (0, 1, 2), (0, 1, 3), (1, 0, 5)] := by
  decide

end Sorting

/-! ## 4. `move_diag` -/

section MoveDiag

theorem den_moveDiag_csr [AddCommMonoid K] (A : Csr K) (i j : Nat) :
    (A.moveDiag).den i j = A.den i j := by
  rw [Csr.den_eq, Csr.den_eq]
  show rowDen ((A.rows.zipIdx.map fun (row, r) => moveFront r row)[i]?.getD []) j = _
  rw [getD_zipIdx_map_rows (fun r row => moveFront r row) (fun _ => rfl)]
  exact rowDen_perm (moveFront_perm _ _) j

theorem den_moveDiag_csc [AddCommMonoid K] (A : Csc K) (i j : Nat) :
    (A.moveDiag).den i j = A.den i j := by
  rw [Csc.den_eq, Csc.den_eq]
  show rowDen ((A.cols.zipIdx.map fun (col, c) => moveFront c col)[j]?.getD []) i = _
  rw [getD_zipIdx_map_rows (fun r row => moveFront r row) (fun _ => rfl)]
  exact rowDen_perm (moveFront_perm _ _) i

/-- the entries after COO `move_diag` are a permutation of the original ones -/
theorem perm_moveDiag_coo (A : Coo K) : (A.moveDiag).ents.Perm A.ents := by
  show ((rowRuns (A.sort).ents).flatMap _).Perm A.ents
  refine (flatMap_perm_flatten _ _ diagFirst_perm).trans ?_
  rw [rowRuns_flatten]
  exact perm_sort_coo A

theorem den_moveDiag_coo [AddCommMonoid K] (A : Coo K) (i j : Nat) :
    (A.moveDiag).den i j = A.den i j :=
  denE_perm (perm_moveDiag_coo A) i j

theorem wf_moveDiag_coo (A : Coo K) (h : A.WF = true) : (A.moveDiag).WF = true := by
  rw [Coo.WF_iff] at h ⊢
  intro e he
  exact h e ((perm_moveDiag_coo A).mem_iff.mp he)

/-- a row that stores its diagonal entry has it first after `move_diag` -/
theorem diag_first_moveDiag_csr (A : Csr K) (i : Nat) (row : List (Nat × K))
    (h : A.rows[i]? = some row) (hd : ∃ e ∈ row, e.1 = i) :
    ∃ e tl, (A.moveDiag).rows[i]? = some (e :: tl) ∧ e.1 = i := by
  obtain ⟨e, tl, hm, he⟩ := moveFront_head i row hd
  refine ⟨e, tl, ?_, he⟩
  rw [← hm]
  exact getElem?_zipIdx_map_rows (fun r row => moveFront r row) A.rows i row h

theorem wf_moveDiag_csr (A : Csr K) (h : A.WF = true) : (A.moveDiag).WF = true := by
  rw [Csr.WF_iff] at h ⊢
  refine ⟨by simpa [Csr.moveDiag] using h.1, ?_⟩
  intro r hr e he
  obtain ⟨⟨row, k⟩, hk, rfl⟩ := List.mem_map.mp hr
  exact h.2 row (List.mem_of_getElem? (List.mem_zipIdx_iff_getElem?.mp hk)) e
    ((moveFront_perm k row).mem_iff.mp he)

theorem wf_moveDiag_csc (A : Csc K) (h : A.WF = true) : (A.moveDiag).WF = true := by
  rw [Csc.WF_iff] at h ⊢
  refine ⟨by simpa [Csc.moveDiag] using h.1, ?_⟩
  intro r hr e he
  obtain ⟨⟨row, k⟩, hk, rfl⟩ := List.mem_map.mp hr
  exact h.2 row (List.mem_of_getElem? (List.mem_zipIdx_iff_getElem?.mp hk)) e
    ((moveFront_perm k row).mem_iff.mp he)

end MoveDiag

/-! ## 5. `remove_duplicates` -/

section RemoveDuplicates

/-- COO `remove_duplicates` merges, drops nothing: the dense image is unchanged (no hypothesis) -/
theorem den_removeDuplicates_coo [AddCommMonoid K] (A : Coo K) (i j : Nat) :
    (A.removeDuplicates).den i j = A.den i j := by
  show denE (mergeAdjCoo (A.sort).ents) i j = _
  rw [denE_mergeAdjCoo]
  exact den_sort_coo A i j

/-- CSR `remove_duplicates`: the stored value at `(i, j)` becomes `0` exactly when `tiny` flags
    the sum of the values stored there. The statement is exact with NO hypothesis on `A` or on
    `tiny` (in particular `tiny 0 = true` is not needed: where nothing is stored both sides are
    `0`, whatever `tiny 0` is). It relies on the rows being sorted inside the routine, which makes
    equal columns adjacent, so that each column is merged into exactly one entry. -/
theorem den_removeDuplicates_csr [AddCommMonoid K] (tiny : K → Bool) (A : Csr K) (i j : Nat) :
    (A.removeDuplicates tiny).den i j = if tiny (A.den i j) = true then 0 else A.den i j := by
  rw [Csr.den_eq, Csr.den_eq]
  show rowDen ((A.rows.map fun r =>
    (mergeAdj (sortBy (·.1) r)).filter (fun e => !tiny e.2))[i]?.getD []) j = _
  rw [getD_map_rows _ rfl]
  exact rowDen_removeDup tiny _ j

/-- CSC `remove_duplicates`: same statement, no hypothesis -/
theorem den_removeDuplicates_csc [AddCommMonoid K] (tiny : K → Bool) (A : Csc K) (i j : Nat) :
    (A.removeDuplicates tiny).den i j = if tiny (A.den i j) = true then 0 else A.den i j := by
  rw [Csc.den_eq, Csc.den_eq]
  show rowDen ((A.cols.map fun r =>
    (mergeAdj (sortBy (·.1) r)).filter (fun e => !tiny e.2))[j]?.getD []) i = _
  rw [getD_map_rows _ rfl]
  exact rowDen_removeDup tiny _ i

/-- after CSR `remove_duplicates` every row has strictly increasing columns (no duplicates left)
    and no stored value is flagged by `tiny` -/
theorem strict_removeDuplicates_csr [AddCommMonoid K] (tiny : K → Bool) (A : Csr K) :
    ∀ r ∈ (A.removeDuplicates tiny).rows,
      r.Pairwise (fun a b => a.1 < b.1) ∧ ∀ e ∈ r, tiny e.2 = false := by
  intro r hr
  obtain ⟨r0, _, rfl⟩ := List.mem_map.mp hr
  refine ⟨(mergeAdj_strict _ (sortBy_pairwise _ r0)).sublist List.filter_sublist, ?_⟩
  intro e he
  have := (List.mem_filter.mp he).2
  simpa using this

theorem strict_removeDuplicates_csc [AddCommMonoid K] (tiny : K → Bool) (A : Csc K) :
    ∀ r ∈ (A.removeDuplicates tiny).cols,
      r.Pairwise (fun a b => a.1 < b.1) ∧ ∀ e ∈ r, tiny e.2 = false := by
  intro r hr
  obtain ⟨r0, _, rfl⟩ := List.mem_map.mp hr
  refine ⟨(mergeAdj_strict _ (sortBy_pairwise _ r0)).sublist List.filter_sublist, ?_⟩
  intro e he
  have := (List.mem_filter.mp he).2
  simpa using this

/-- after COO `remove_duplicates` the entries are strictly increasing in (row, column) order -/
theorem lex_removeDuplicates_coo [AddCommMonoid K] (A : Coo K) :
    (A.removeDuplicates).ents.Pairwise (fun a b => a.1 < b.1 ∨ (a.1 = b.1 ∧ a.2.1 < b.2.1)) :=
  mergeAdjCoo_strict _ (sort_coo_lex A)

/-- after COO `remove_duplicates` no two entries have the same position -/
theorem strict_removeDuplicates_coo [AddCommMonoid K] (A : Coo K) :
    (A.removeDuplicates).ents.Pairwise (fun a b => ¬ (a.1 = b.1 ∧ a.2.1 = b.2.1)) := by
  refine (mergeAdjCoo_strict _ (sort_coo_lex A)).imp ?_
  intro a b hab hc
  omega

theorem wf_removeDuplicates_coo [AddCommMonoid K] (A : Coo K) (h : A.WF = true) :
    (A.removeDuplicates).WF = true := by
  rw [Coo.WF_iff] at h ⊢
  intro e he
  obtain ⟨e', he', h1, h2⟩ := mergeAdjCoo_keys _ e he
  have := h e' ((perm_sort_coo A).mem_iff.mp he')
  exact ⟨h1 ▸ this.1, h2 ▸ this.2⟩

theorem wf_removeDuplicates_csr [AddCommMonoid K] (tiny : K → Bool) (A : Csr K)
    (h : A.WF = true) : (A.removeDuplicates tiny).WF = true := by
  rw [Csr.WF_iff] at h ⊢
  refine ⟨(List.length_map _).trans h.1, all_lt_of_keys h.2 ?_⟩
  intro r hr e he
  obtain ⟨r0, hr0, rfl⟩ := List.mem_map.mp hr
  obtain ⟨e', he', hk⟩ := removeDup_keys tiny r0 e he
  exact ⟨r0, hr0, e', he', hk⟩

theorem wf_removeDuplicates_csc [AddCommMonoid K] (tiny : K → Bool) (A : Csc K)
    (h : A.WF = true) : (A.removeDuplicates tiny).WF = true := by
  rw [Csc.WF_iff] at h ⊢
  refine ⟨(List.length_map _).trans h.1, all_lt_of_keys h.2 ?_⟩
  intro r hr e he
  obtain ⟨r0, hr0, rfl⟩ := List.mem_map.mp hr
  obtain ⟨e', he', hk⟩ := removeDup_keys tiny r0 e he
  exact ⟨r0, hr0, e', he', hk⟩

end RemoveDuplicates

example : (⟨2, 3, [[(2, 1), (0, 5), (2, -1)], [(1, 4), (1, 4)]]⟩ : Csr Int).WF = true := by decide
/-- `tiny` really drops the cancelled entry `(0, 2)`, and merges `(1, 1)` -/
example : Csr.removeDuplicates (fun v => v == 0)
    (⟨2, 3, [[(2, 1), (0, 5), (2, -1)], [(1, 4), (1, 4)]]⟩ : Csr Int)
    = ⟨2, 3, [[(0, 5)], [(1, 8)]]⟩ := by decide

/-! ## 6. `add`, `subtract` -/

section Sums

theorem dims_add [Add K] (tiny : K → Bool) (A B : Csr K) (rd : Bool) :
    (Csr.add tiny A B rd).nRows = A.nRows ∧ (Csr.add tiny A B rd).nCols = A.nCols ∧
    (Csr.add tiny A B rd).rows.length = A.rows.length := by
  cases rd <;> exact ⟨rfl, rfl, (List.length_map _).trans (zipRows_length _ _)⟩

/-- rows concatenated: the dense images add. The only hypothesis needed is that `B` has no more
    stored rows than `A` (`zipRows` ranges over the rows of `A`, extra rows of `B` would be lost);
    for well-formed matrices this is `B.nRows ≤ A.nRows`, see `den_add_wf`. -/
theorem den_zipRows [AddCommMonoid K] (A B : Csr K) (hlen : B.rows.length ≤ A.rows.length)
    (i j : Nat) :
    (⟨A.nRows, A.nCols, zipRows A.rows B.rows⟩ : Csr K).den i j = A.den i j + B.den i j := by
  rw [Csr.den_eq, Csr.den_eq, Csr.den_eq]
  exact rowDen_zipRows A.rows B.rows hlen i j

/-- `add` with duplicate removal -/
theorem den_add [AddCommMonoid K] (tiny : K → Bool) (A B : Csr K)
    (hlen : B.rows.length ≤ A.rows.length) (i j : Nat) :
    (Csr.add tiny A B true).den i j
      = (let s := A.den i j + B.den i j; if tiny s = true then 0 else s) := by
  show (Csr.removeDuplicates tiny ⟨A.nRows, A.nCols, zipRows A.rows B.rows⟩).den i j = _
  rw [den_removeDuplicates_csr, den_zipRows A B hlen]

/-- `add_append` (no duplicate removal, rows only sorted) -/
theorem den_add_noDup [AddCommMonoid K] (tiny : K → Bool) (A B : Csr K)
    (hlen : B.rows.length ≤ A.rows.length) (i j : Nat) :
    (Csr.add tiny A B false).den i j = A.den i j + B.den i j := by
  show (Csr.sort ⟨A.nRows, A.nCols, zipRows A.rows B.rows⟩).den i j = _
  rw [den_sort_csr, den_zipRows A B hlen]

/-- the form asked for: well-formed operands of equal row count -/
theorem den_add_wf [AddCommMonoid K] (tiny : K → Bool) (A B : Csr K)
    (hA : A.WF = true) (hB : B.WF = true) (hn : A.nRows = B.nRows) (i j : Nat) :
    (Csr.add tiny A B true).den i j
      = (let s := A.den i j + B.den i j; if tiny s = true then 0 else s) ∧
    (Csr.add tiny A B false).den i j = A.den i j + B.den i j := by
  have hlen : B.rows.length ≤ A.rows.length := by
    rw [(Csr.WF_iff.mp hA).1, (Csr.WF_iff.mp hB).1, hn]; exact Nat.le_refl _
  exact ⟨den_add tiny A B hlen i j, den_add_noDup tiny A B hlen i j⟩

theorem wf_add [AddCommMonoid K] (tiny : K → Bool) (A B : Csr K) (rd : Bool)
    (hA : A.WF = true) (hB : B.WF = true) (hc : B.nCols ≤ A.nCols) :
    (Csr.add tiny A B rd).WF = true := by
  have hC : (⟨A.nRows, A.nCols, zipRows A.rows B.rows⟩ : Csr K).WF = true := by
    rw [Csr.WF_iff] at hA hB ⊢
    refine ⟨(zipRows_length _ _).trans hA.1, ?_⟩
    intro r hr e he
    rcases mem_zipRows hr he with ⟨r', hr', he'⟩ | ⟨r', hr', he'⟩
    · exact hA.2 r' hr' e he'
    · exact Nat.lt_of_lt_of_le (hB.2 r' hr' e he') hc
  cases rd
  · exact wf_sort_csr _ hC
  · exact wf_removeDuplicates_csr tiny _ hC

theorem den_subtract [AddCommGroup K] (tiny : K → Bool) (A B : Csr K)
    (hlen : B.rows.length ≤ A.rows.length) (i j : Nat) :
    (Csr.subtract tiny A B).den i j
      = (let s := A.den i j - B.den i j; if tiny s = true then 0 else s) := by
  have hneg : (⟨A.nRows, A.nCols,
      zipRows A.rows (B.rows.map fun r => r.map fun (c, v) => (c, -v))⟩ : Csr K).den i j
      = A.den i j - B.den i j := by
    rw [Csr.den_eq, Csr.den_eq, Csr.den_eq]
    show rowDen ((zipRows A.rows (B.rows.map fun r => r.map fun (c, v) => (c, -v)))[i]?.getD []) j
      = _
    rw [rowDen_zipRows _ _ (by rw [List.length_map]; exact hlen), getD_map_rows _ rfl,
      rowDen_map_neg, sub_eq_add_neg]
  show (Csr.removeDuplicates tiny ⟨A.nRows, A.nCols,
      zipRows A.rows (B.rows.map fun r => r.map fun (c, v) => (c, -v))⟩).den i j = _
  rw [den_removeDuplicates_csr, hneg]

theorem den_subtract_wf [AddCommGroup K] (tiny : K → Bool) (A B : Csr K)
    (hA : A.WF = true) (hB : B.WF = true) (hn : A.nRows = B.nRows) (i j : Nat) :
    (Csr.subtract tiny A B).den i j
      = (let s := A.den i j - B.den i j; if tiny s = true then 0 else s) := by
  have hlen : B.rows.length ≤ A.rows.length := by
    rw [(Csr.WF_iff.mp hA).1, (Csr.WF_iff.mp hB).1, hn]; exact Nat.le_refl _
  exact den_subtract tiny A B hlen i j

end Sums

example : Csr.add (fun v => v == 0)
    (⟨2, 2, [[(0, 1), (1, 2)], [(1, 3)]]⟩ : Csr Int) ⟨2, 2, [[(1, -2)], [(0, 7)]]⟩
    = ⟨2, 2, [[(0, 1)], [(0, 7), (1, 3)]]⟩ := by decide
/-- the row-count hypothesis cannot be dropped: a row of `B` beyond the rows of `A` is lost -/
theorem add_drops_extra_rows :
    (Csr.add (fun _ => false) (⟨1, 1, [[]]⟩ : Csr Int) ⟨2, 1, [[], [(0, 9)]]⟩).den 1 0 = 0 ∧
    (⟨2, 1, [[], [(0, 9)]]⟩ : Csr Int).den 1 0 = 9 := by decide

/-- the generic theorems apply to the model functions instantiated at `Int` with the instances
    of core Lean that the executable model uses (they are the ones Mathlib's `AddCommGroup Int`
    provides) -/
example (tiny : Int → Bool) (A B : Csr Int) (hA : A.WF = true) (hB : B.WF = true)
    (hn : A.nRows = B.nRows) (i j : Nat) :
    @Csr.den Int Int.instAdd Zero.ofOfNat0 (@Csr.subtract Int Int.instAdd Int.instNegInt tiny A B) i j
    = (let s := @Csr.den Int Int.instAdd Zero.ofOfNat0 A i j - @Csr.den Int Int.instAdd Zero.ofOfNat0 B i j
       if tiny s = true then 0 else s) :=
  den_subtract_wf tiny A B hA hB hn i j

example (A : Coo Int) (h : A.WF = true) (i j : Nat) :
    @Csr.den Int Int.instAdd Zero.ofOfNat0 (cooToCsr A) i j = @Coo.den Int Int.instAdd Zero.ofOfNat0 A i j :=
  den_cooToCsr A h i j

/-! ## 7. chains of operations -/

section Chains

theorem den_coo_csr_coo [AddCommMonoid K] (A : Coo K) (h : A.WF = true) (i j : Nat) :
    (csrToCoo (cooToCsr A)).den i j = A.den i j := den_cooToCsr A h i j

theorem den_coo_csc_coo [AddCommMonoid K] (A : Coo K) (h : A.WF = true) (i j : Nat) :
    (cscToCoo (cooToCsc A)).den i j = A.den i j := den_cooToCsc A h i j

theorem den_csr_csc_csr [AddCommMonoid K] (A : Csr K) (h : A.WF = true) (i j : Nat) :
    (cscToCsr (csrToCsc A)).den i j = A.den i j := by
  rw [den_cscToCsr _ (wf_csrToCsc A h), den_csrToCsc A h]

theorem den_csc_csr_csc [AddCommMonoid K] (A : Csc K) (h : A.WF = true) (i j : Nat) :
    (csrToCsc (cscToCsr A)).den i j = A.den i j := by
  rw [den_csrToCsc _ (wf_cscToCsr A h), den_cscToCsr A h]

/-- COO → CSC → CSR → COO -/
theorem den_coo_csc_csr_coo [AddCommMonoid K] (A : Coo K) (h : A.WF = true) (i j : Nat) :
    (csrToCoo (cscToCsr (cooToCsc A))).den i j = A.den i j := by
  rw [den_csrToCoo, den_cscToCsr _ (wf_cooToCsc A h), den_cooToCsc A h]

theorem den_transpose_transpose_coo [AddCommMonoid K] (A : Coo K) (i j : Nat) :
    (A.transpose.transpose).den i j = A.den i j := by
  rw [den_transpose_coo, den_transpose_coo]

theorem den_transpose_transpose_csr [AddCommMonoid K] (A : Csr K) (h : A.WF = true) (i j : Nat) :
    (A.transpose.transpose).den i j = A.den i j := by
  rw [den_transpose_csr _ (wf_transpose_csr A h), den_transpose_csr A h]

theorem den_transpose_transpose_csc [AddCommMonoid K] (A : Csc K) (h : A.WF = true) (i j : Nat) :
    (A.transpose.transpose).den i j = A.den i j := by
  rw [den_transpose_csc _ (wf_transpose_csc A h), den_transpose_csc A h]

/-- the CSR transpose agrees with transposing in COO form -/
theorem den_transpose_csr_via_coo [AddCommMonoid K] (A : Csr K) (h : A.WF = true) (i j : Nat) :
    (A.transpose).den i j = ((csrToCoo A).transpose).den i j := by
  rw [den_transpose_csr A h, den_transpose_coo, den_csrToCoo]

/-- the usual assembly pipeline: COO → CSR, `remove_duplicates`, `sort`, `move_diag` -/
theorem den_assemble [AddCommMonoid K] (tiny : K → Bool) (A : Coo K) (h : A.WF = true)
    (i j : Nat) :
    (((cooToCsr A).removeDuplicates tiny).sort.moveDiag).den i j
      = if tiny (A.den i j) = true then 0 else A.den i j := by
  rw [den_moveDiag_csr, den_sort_csr, den_removeDuplicates_csr, den_cooToCsr A h]

theorem wf_assemble [AddCommMonoid K] (tiny : K → Bool) (A : Coo K) (h : A.WF = true) :
    (((cooToCsr A).removeDuplicates tiny).sort.moveDiag).WF = true :=
  wf_moveDiag_csr _ (wf_sort_csr _ (wf_removeDuplicates_csr tiny _ (wf_cooToCsr A h)))

end Chains

/- OPEN (not proved): none. Every target statement of C07 is proved above.
   Remarks for the audit:
   * `den_removeDuplicates_csr/csc`, `den_sort_*`, `den_moveDiag_*`, `den_removeDuplicates_coo`,
     `den_transpose_coo` need no hypothesis at all;
   * `den_add`, `den_add_noDup`, `den_subtract` need only `B.rows.length ≤ A.rows.length`
     (necessary: `add_drops_extra_rows`); `den_add_wf`, `den_subtract_wf` are the `WF` forms;
   * the bucket-based conversions and the CSR/CSC transposes need `WF`
     (necessary: `cooToCsr_drops_out_of_range`);
   * `sortBy` is stable (`sortBy_stable`), hence `Coo.sort` is the (row, column) lexicographic
     order (`sort_coo_lex`, `sort_coo_lex_example`, `sort_coo_stable_example`) and
     `Coo.removeDuplicates` leaves entries strictly increasing in that order
     (`lex_removeDuplicates_coo`, `strict_removeDuplicates_coo`). -/

end Raptor.C07
