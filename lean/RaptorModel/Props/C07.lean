import RaptorModel.Model.Sparse
namespace Raptor.C07
open Raptor.Sparse

theorem placeholder_dims_cooToCsr {K : Type} (A : Coo K) :
    (cooToCsr A).nRows = A.nRows ∧ (cooToCsr A).nCols = A.nCols := ⟨rfl, rfl⟩

end Raptor.C07
