import RaptorModel.Lemmas.SpmvLemmas
/-!
# C02 — every SpMV kernel computes the product with the represented operator

All statements are for arbitrary (unbounded) lists, arbitrary indices, and scalars in an arbitrary
commutative semiring (ring for the subtracting kernels). The functions are the executable model
functions of `Model/Spmv.lean` and `Model/Sparse.lean`.
-/
namespace Raptor.C02
open Raptor.Sparse Raptor.Spmv

/-! ## 1. the entry-wise `append*` kernels -/
section Append
variable {K : Type}

theorem appendE_length [CommSemiring K] (es : List (Entry K)) (x b : List K) :
    (appendE es x b).length = b.length := by
  induction es generalizing b with
  | nil => rfl
  | cons e es ih =>
    show (appendE es x (upd b e.1 _)).length = b.length
    rw [ih, upd_length]

/-- `append`: `b[i]` ends up as `b[i] + Σ_{entries of row i} val * x[col]` -/
theorem appendE_get [CommSemiring K] (es : List (Entry K)) (x b : List K) (i : Nat)
    (hi : i < b.length) :
    (appendE es x b).getD i 0 = b.getD i 0 + actE es x i := by
  induction es generalizing b with
  | nil => simp [appendE, actE_nil]
  | cons e es ih =>
    show (appendE es x (upd b e.1 _)).getD i 0 = _
    rw [ih _ (by rw [upd_length]; exact hi), actE_cons]
    by_cases h : e.1 = i
    · rw [if_pos h, h, upd_getD_self b i _ hi, add_assoc]
    · rw [if_neg h, upd_getD_ne b e.1 i _ h, zero_add]

/-- entries whose row is outside `b` change nothing -/
theorem appendE_out_of_range [CommSemiring K] (es : List (Entry K)) (x b : List K)
    (h : ∀ e ∈ es, b.length ≤ e.1) : appendE es x b = b := by
  induction es generalizing b with
  | nil => rfl
  | cons e es ih =>
    show appendE es x (upd b e.1 _) = b
    have h1 : upd b e.1 (· + e.2.2 * at' x e.2.1) = b := by
      unfold upd
      exact List.modify_eq_self (h e List.mem_cons_self) 
    rw [h1]
    exact ih b fun e' he' => h e' (List.mem_cons_of_mem _ he')

theorem appendTE_length [CommSemiring K] (es : List (Entry K)) (x b : List K) :
    (appendTE es x b).length = b.length := by
  rw [appendTE_eq_appendE_swap, appendE_length]

/-- `append_T`: `b[j]` ends up as `b[j] + Σ_{entries of column j} val * x[row]` -/
theorem appendTE_get [CommSemiring K] (es : List (Entry K)) (x b : List K) (j : Nat)
    (hj : j < b.length) :
    (appendTE es x b).getD j 0 = b.getD j 0 + actTE es x j := by
  rw [appendTE_eq_appendE_swap, actTE_eq_actE_swap, appendE_get _ _ _ _ hj]

theorem appendNegE_length [CommRing K] (es : List (Entry K)) (x b : List K) :
    (appendNegE es x b).length = b.length := by
  induction es generalizing b with
  | nil => rfl
  | cons e es ih =>
    show (appendNegE es x (upd b e.1 _)).length = b.length
    rw [ih, upd_length]

/-- `append_neg`: `b[i]` ends up as `b[i] - Σ_{entries of row i} val * x[col]` -/
theorem appendNegE_get [CommRing K] (es : List (Entry K)) (x b : List K) (i : Nat)
    (hi : i < b.length) :
    (appendNegE es x b).getD i 0 = b.getD i 0 - actE es x i := by
  induction es generalizing b with
  | nil => simp [appendNegE, actE_nil]
  | cons e es ih =>
    show (appendNegE es x (upd b e.1 _)).getD i 0 = _
    rw [ih _ (by rw [upd_length]; exact hi), actE_cons]
    by_cases h : e.1 = i
    · rw [if_pos h, h, upd_getD_self b i _ hi, sub_sub]
    · rw [if_neg h, upd_getD_ne b e.1 i _ h, zero_add]

theorem appendNegTE_length [CommRing K] (es : List (Entry K)) (x b : List K) :
    (appendNegTE es x b).length = b.length := by
  rw [appendNegTE_eq_appendNegE_swap, appendNegE_length]

/-- `append_neg_T`: `b[j]` ends up as `b[j] - Σ_{entries of column j} val * x[row]` -/
theorem appendNegTE_get [CommRing K] (es : List (Entry K)) (x b : List K) (j : Nat)
    (hj : j < b.length) :
    (appendNegTE es x b).getD j 0 = b.getD j 0 - actTE es x j := by
  rw [appendNegTE_eq_appendNegE_swap, actTE_eq_actE_swap, appendNegE_get _ _ _ _ hj]

end Append

/-! ## 2. the CSR / COO kernels and `mult_T` -/
section Kernels
variable {K : Type}

theorem Csr.spmv_length [CommSemiring K] (A : Csr K) (x : List K) :
    (Csr.spmv A x).length = A.rows.length := by
  simp [Csr.spmv]

/-- `CSR_spmv` (row accumulated in a scalar) = the entry-wise definition -/
theorem Csr.spmv_get [CommSemiring K] (A : Csr K) (x : List K) (i : Nat)
    (hi : i < A.rows.length) :
    (Csr.spmv A x).getD i 0 = actE A.entries x i := by
  unfold Csr.spmv Csr.entries
  rw [actE_rowsEntries]
  simp [List.getD_eq_getElem?_getD, List.getElem?_eq_getElem hi, rowDot_eq_sum]

theorem Csr.append_length [CommSemiring K] (A : Csr K) (x b : List K) :
    (Csr.append A x b).length = A.rows.length := by
  simp [Csr.append]

theorem Csr.append_get [CommSemiring K] (A : Csr K) (x b : List K) (i : Nat)
    (hi : i < A.rows.length) :
    (Csr.append A x b).getD i 0 = b.getD i 0 + actE A.entries x i := by
  unfold Csr.append Csr.entries
  rw [actE_rowsEntries]
  simp [List.getD_eq_getElem?_getD, List.getElem?_range hi, rowDot_eq_sum, at']

theorem Csr.residual_length [CommRing K] (A : Csr K) (x b : List K) :
    (Csr.residual A x b).length = A.rows.length := by
  simp [Csr.residual]

theorem Csr.residual_get [CommRing K] (A : Csr K) (x b : List K) (i : Nat)
    (hi : i < A.rows.length) :
    (Csr.residual A x b).getD i 0 = b.getD i 0 - actE A.entries x i := by
  unfold Csr.residual Csr.entries
  rw [actE_rowsEntries]
  simp only [foldl_sub_eq (fun e : Nat × K => e.2 * at' x e.1)]
  simp [List.getD_eq_getElem?_getD, List.getElem?_range hi, at']

theorem Coo.spmv_length [CommSemiring K] (A : Coo K) (x : List K) :
    (Coo.spmv A x).length = A.nRows := by
  unfold Coo.spmv
  rw [appendE_length, zeros_length]

/-- `COO_spmv`: entries with a row index ≥ `nRows` are ignored by the model -/
theorem Coo.spmv_get [CommSemiring K] (A : Coo K) (x : List K) (i : Nat) (hi : i < A.nRows) :
    (Coo.spmv A x).getD i 0 = actE A.ents x i := by
  unfold Coo.spmv
  rw [appendE_get _ _ _ _ (by rw [zeros_length]; exact hi), zeros_getD, zero_add]

theorem Coo.residual_length [CommRing K] (A : Coo K) (x b : List K) :
    (Coo.residual A x b).length = b.length := by
  unfold Coo.residual
  rw [appendNegE_length]

theorem Coo.residual_get [CommRing K] (A : Coo K) (x b : List K) (i : Nat) (hi : i < b.length) :
    (Coo.residual A x b).getD i 0 = b.getD i 0 - actE A.ents x i := by
  unfold Coo.residual
  rw [appendNegE_get _ _ _ _ hi]

theorem multT_length [CommSemiring K] (es : List (Entry K)) (nCols : Nat) (x : List K) :
    (multT es nCols x).length = nCols := by
  unfold multT
  rw [appendTE_length, zeros_length]

theorem multT_get [CommSemiring K] (es : List (Entry K)) (nCols : Nat) (x : List K) (j : Nat)
    (hj : j < nCols) :
    (multT es nCols x).getD j 0 = actTE es x j := by
  unfold multT
  rw [appendTE_get _ _ _ _ (by rw [zeros_length]; exact hj), zeros_getD, zero_add]

end Kernels

/-! ## 3. storage order is irrelevant -/
section Perm
variable {K : Type} [CommSemiring K]

theorem actE_perm {es₁ es₂ : List (Entry K)} (h : es₁.Perm es₂) (x : List K) (i : Nat) :
    actE es₁ x i = actE es₂ x i :=
  ((h.filter _).map _).sum_eq

theorem actTE_perm {es₁ es₂ : List (Entry K)} (h : es₁.Perm es₂) (x : List K) (j : Nat) :
    actTE es₁ x j = actTE es₂ x j :=
  ((h.filter _).map _).sum_eq

theorem denE_perm {es₁ es₂ : List (Entry K)} (h : es₁.Perm es₂) (i j : Nat) :
    denE es₁ i j = denE es₂ i j :=
  ((h.filter _).map _).sum_eq

end Perm

/-! ## 4. the action is the dense image times `x` -/
section Den
variable {K : Type} [CommSemiring K]

/-- `actE` = (dense image) · x, the sum running over any `n` that bounds the column indices -/
theorem actE_eq_den (es : List (Entry K)) (n : Nat) (h : ∀ e ∈ es, e.2.1 < n)
    (x : List K) (i : Nat) :
    actE es x i = ((List.range n).map fun j => denE es i j * at' x j).sum := by
  induction es with
  | nil => simp [actE_nil, denE_nil]
  | cons e es ih =>
    have he : e.2.1 < n := h e List.mem_cons_self
    have hes : ∀ e ∈ es, e.2.1 < n := fun e' he' => h e' (List.mem_cons_of_mem _ he')
    rw [actE_cons, ih hes]
    simp only [denE_cons, add_mul]
    rw [List.sum_map_add, sum_single_den e n i x he]

/-- `actTE` = (dense image)ᵀ · x, the sum running over any `n` that bounds the row indices -/
theorem actTE_eq_den (es : List (Entry K)) (n : Nat) (h : ∀ e ∈ es, e.1 < n)
    (x : List K) (j : Nat) :
    actTE es x j = ((List.range n).map fun i => denE es i j * at' x i).sum := by
  induction es with
  | nil => simp [actTE_nil, denE_nil]
  | cons e es ih =>
    have he : e.1 < n := h e List.mem_cons_self
    have hes : ∀ e ∈ es, e.1 < n := fun e' he' => h e' (List.mem_cons_of_mem _ he')
    rw [actTE_cons, ih hes]
    simp only [denE_cons, add_mul]
    rw [List.sum_map_add, sum_single_denT e n j x he]

/-- two entry lists with the same dense image act identically -/
theorem actE_congr_den (es₁ es₂ : List (Entry K)) (n : Nat)
    (h₁ : ∀ e ∈ es₁, e.2.1 < n) (h₂ : ∀ e ∈ es₂, e.2.1 < n)
    (hden : ∀ i j, denE es₁ i j = denE es₂ i j) (x : List K) (i : Nat) :
    actE es₁ x i = actE es₂ x i := by
  rw [actE_eq_den es₁ n h₁, actE_eq_den es₂ n h₂]
  simp only [hden]

end Den

/-! ## 5. format independence -/
section Formats
variable {K : Type}

/-- the conversions only reorder the stored entries (well-formed input) -/
theorem cooToCsr_perm (A : Coo K) (h : A.WF = true) : (cooToCsr A).entries.Perm A.ents :=
  perm_of_sum_map_eq _ _ fun ψ =>
    sum_map_rowsEntries_bucket A.nRows A.ents (fun e he => (Coo.WF_bounds A h e he).1) ψ

theorem cooToCsc_perm (A : Coo K) (h : A.WF = true) : (cooToCsc A).entries.Perm A.ents :=
  perm_of_sum_map_eq _ _ fun ψ =>
    sum_map_colsEntries_bucket A.nRows A.nCols A.nCols A.ents
      (fun e he => (Coo.WF_bounds A h e he).2) ψ

theorem csrToCsc_perm (A : Csr K) (h : A.WF = true) : (csrToCsc A).entries.Perm A.entries :=
  perm_of_sum_map_eq _ _ fun ψ =>
    sum_map_colsEntries_bucket A.nRows A.nCols A.nCols A.entries
      (fun e he => (Csr.WF_bounds A h e he).2) ψ

theorem cscToCsr_perm (A : Csc K) (h : A.WF = true) : (cscToCsr A).entries.Perm A.entries :=
  perm_of_sum_map_eq _ _ fun ψ =>
    sum_map_rowsEntries_bucket A.nRows A.entries (fun e he => (Csc.WF_bounds A h e he).1) ψ

variable [CommSemiring K]

theorem actE_cooToCsr (A : Coo K) (h : A.WF = true) (x : List K) (i : Nat) :
    actE (cooToCsr A).entries x i = actE A.ents x i := actE_perm (cooToCsr_perm A h) x i
theorem actE_cooToCsc (A : Coo K) (h : A.WF = true) (x : List K) (i : Nat) :
    actE (cooToCsc A).entries x i = actE A.ents x i := actE_perm (cooToCsc_perm A h) x i
theorem actE_csrToCsc (A : Csr K) (h : A.WF = true) (x : List K) (i : Nat) :
    actE (csrToCsc A).entries x i = actE A.entries x i := actE_perm (csrToCsc_perm A h) x i
theorem actE_cscToCsr (A : Csc K) (h : A.WF = true) (x : List K) (i : Nat) :
    actE (cscToCsr A).entries x i = actE A.entries x i := actE_perm (cscToCsr_perm A h) x i

theorem actTE_cooToCsr (A : Coo K) (h : A.WF = true) (x : List K) (j : Nat) :
    actTE (cooToCsr A).entries x j = actTE A.ents x j := actTE_perm (cooToCsr_perm A h) x j
theorem actTE_cooToCsc (A : Coo K) (h : A.WF = true) (x : List K) (j : Nat) :
    actTE (cooToCsc A).entries x j = actTE A.ents x j := actTE_perm (cooToCsc_perm A h) x j
theorem actTE_csrToCsc (A : Csr K) (h : A.WF = true) (x : List K) (j : Nat) :
    actTE (csrToCsc A).entries x j = actTE A.entries x j := actTE_perm (csrToCsc_perm A h) x j
theorem actTE_cscToCsr (A : Csc K) (h : A.WF = true) (x : List K) (j : Nat) :
    actTE (cscToCsr A).entries x j = actTE A.entries x j := actTE_perm (cscToCsr_perm A h) x j

/-- the dense image is the same in every format -/
theorem den_cooToCsr (A : Coo K) (h : A.WF = true) (i j : Nat) :
    (cooToCsr A).den i j = A.den i j := denE_perm (cooToCsr_perm A h) i j
theorem den_cooToCsc (A : Coo K) (h : A.WF = true) (i j : Nat) :
    (cooToCsc A).den i j = A.den i j := denE_perm (cooToCsc_perm A h) i j
theorem den_csrToCsc (A : Csr K) (h : A.WF = true) (i j : Nat) :
    (csrToCsc A).den i j = A.den i j := denE_perm (csrToCsc_perm A h) i j
theorem den_cscToCsr (A : Csc K) (h : A.WF = true) (i j : Nat) :
    (cscToCsr A).den i j = A.den i j := denE_perm (cscToCsr_perm A h) i j

/-- `CSR_spmv` after `to_CSR` and `COO_spmv` agree entrywise -/
theorem spmv_format_indep (A : Coo K) (h : A.WF = true) (x : List K) (i : Nat)
    (hi : i < A.nRows) :
    (Csr.spmv (cooToCsr A) x).getD i 0 = (Coo.spmv A x).getD i 0 := by
  have hlen : (cooToCsr A).rows.length = A.nRows := bucket_length _ _
  rw [Csr.spmv_get _ _ _ (by rw [hlen]; exact hi), Coo.spmv_get _ _ _ hi, actE_cooToCsr A h]

/-- ... hence as lists -/
theorem spmv_format_indep_eq (A : Coo K) (h : A.WF = true) (x : List K) :
    Csr.spmv (cooToCsr A) x = Coo.spmv A x := by
  have hlen : (cooToCsr A).rows.length = A.nRows := bucket_length _ _
  have h1 : (Csr.spmv (cooToCsr A) x).length = A.nRows := by rw [Csr.spmv_length, hlen]
  have h2 : (Coo.spmv A x).length = A.nRows := Coo.spmv_length A x
  apply List.ext_getElem (h1.trans h2.symm)
  intro i hi1 hi2
  have := spmv_format_indep A h x i (h1 ▸ hi1)
  simpa [List.getD_eq_getElem?_getD, List.getElem?_eq_getElem hi1,
    List.getElem?_eq_getElem hi2] using this

/-- the CSR kernel on `A` and the COO kernel on the entries of `A` agree (no hypothesis beyond
    the row count) -/
theorem Csr.spmv_eq_coo (A : Csr K) (hrows : A.rows.length = A.nRows) (x : List K) (i : Nat)
    (hi : i < A.nRows) :
    (Csr.spmv A x).getD i 0 = (Coo.spmv (csrToCoo A) x).getD i 0 := by
  rw [Csr.spmv_get _ _ _ (by rw [hrows]; exact hi), Coo.spmv_get _ _ _ hi]
  rfl

end Formats

/-! ## 6. transpose duality -/
section Transpose
variable {K : Type} [CommSemiring K]

theorem actTE_eq_actE_transpose (es : List (Entry K)) (x : List K) (j : Nat) :
    actTE es x j = actE (es.map fun (i, j, v) => (j, i, v)) x j :=
  actTE_eq_actE_swap es x j

theorem actE_eq_actTE_transpose (es : List (Entry K)) (x : List K) (i : Nat) :
    actE es x i = actTE (es.map fun (i, j, v) => (j, i, v)) x i := by
  rw [actTE_eq_actE_swap]
  show _ = actE ((es.map swapE).map swapE) x i
  rw [swapE_swapE]

/-- `mult_T` on `A` is `COO_spmv` on the transposed structure -/
theorem multT_eq_spmv_transpose (A : Coo K) (x : List K) :
    multT A.ents A.nCols x = Coo.spmv A.transpose x := by
  unfold multT Coo.spmv Coo.transpose
  exact appendTE_eq_appendE_swap _ _ _

end Transpose

/-! ## the hypotheses are satisfiable: a concrete 3×4 matrix with a duplicate entry -/
section Examples

def exA : Coo Int := ⟨3, 4, [(2, 1, 5), (0, 3, -2), (2, 1, 7), (1, 0, 4), (0, 0, 1)]⟩
def exX : List Int := [1, 2, 3, 4]

example : exA.WF = true := by decide
example : (cooToCsr exA).WF = true := by decide
example : ∀ e ∈ exA.ents, e.2.1 < 4 := by decide
example : Coo.spmv exA exX = [-7, 4, 24] := by decide
example : Csr.spmv (cooToCsr exA) exX = Coo.spmv exA exX := by decide
example : multT exA.ents exA.nCols [1, 1, 1] = [5, 12, 0, -2] := by decide
/-- the general theorems instantiate on it -/
example : Csr.spmv (cooToCsr exA) exX = Coo.spmv exA exX :=
  spmv_format_indep_eq exA (by decide) exX
example : actE exA.ents exX 2 = ((List.range 4).map fun j => denE exA.ents 2 j * at' exX j).sum :=
  actE_eq_den exA.ents 4 (by decide) exX 2

end Examples

end Raptor.C02
